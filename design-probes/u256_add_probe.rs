use vstd::prelude::*;
verus! {
global size_of usize == 8;
pub type U256 = [u64; 4];
pub type U512 = [u64; 8];

pub assume_specification[ u64::overflowing_add ](x: u64, y: u64) -> (r: (u64, bool))
    ensures r.0 as int + (if r.1 { 0x1_0000_0000_0000_0000int } else { 0 }) == x as int + y as int;
pub assume_specification[ u64::overflowing_sub ](x: u64, y: u64) -> (r: (u64, bool))
    ensures r.0 as int - (if r.1 { 0x1_0000_0000_0000_0000int } else { 0 }) == x as int - y as int;

pub open spec fn pow64(i: int) -> int {
    if i <= 0 { 1 } else if i == 1 { 0x1_0000_0000_0000_0000 } else if i == 2 { (0x1_0000_0000_0000_0000int*0x1_0000_0000_0000_0000int) }
    else if i == 3 { (0x1_0000_0000_0000_0000int*0x1_0000_0000_0000_0000int*0x1_0000_0000_0000_0000int) }
    else { (0x1_0000_0000_0000_0000int*0x1_0000_0000_0000_0000int*0x1_0000_0000_0000_0000int*0x1_0000_0000_0000_0000int) } }
pub open spec fn val(a: Seq<u64>, n: int) -> int {
    (if n >= 1 { a[0] as int } else { 0 }) + (if n >= 2 { a[1] as int * 0x1_0000_0000_0000_0000 } else { 0 })
    + (if n >= 3 { a[2] as int * (0x1_0000_0000_0000_0000int*0x1_0000_0000_0000_0000int) } else { 0 })
    + (if n >= 4 { a[3] as int * (0x1_0000_0000_0000_0000int*0x1_0000_0000_0000_0000int*0x1_0000_0000_0000_0000int) } else { 0 }) }

#[inline(always)]
pub const fn u256_add(a: &U256, b: &U256) -> (res: (U256, bool))
    ensures val(res.0@, 4) + (if res.1 { pow64(4) } else { 0 }) == val(a@, 4) + val(b@, 4)
{
    let mut sum = [0; 4];
    let mut carry = false;
    let mut i = 0;
    loop
        invariant_except_break 0 <= i <= 3, val(sum@, i as int) + (if carry { pow64(i as int) } else { 0 }) == val(a@, i as int) + val(b@, i as int),
        ensures val(sum@, 4) + (if carry { pow64(4) } else { 0 }) == val(a@, 4) + val(b@, 4),
        decreases 3 - i
    {
        let (t_sum, c) = {
            let (m, c1) = a[i].overflowing_add(b[i]);
            let (r, c2) = m.overflowing_add(carry as u64);
            (r, c1 || c2)
        };
        sum[i] = t_sum;
        carry = c;
        if i == 3 {
            break;
        }
        i += 1;
    }
    (sum, carry)
}
} fn main(){}
