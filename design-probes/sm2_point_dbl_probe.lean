import Mathlib.Tactic

theorem sm2_dbl_x {F : Type*} [Field F] (X Y Z : F) (hZ : Z ≠ 0) (hY : Y ≠ 0) (h2 : (2:F) ≠ 0) :
    let z1s := Z*Z
    let y1s := Y*Y
    let alpha := ((X - z1s) * (X + z1s)) + ((X - z1s) * (X + z1s)) + ((X - z1s) * (X + z1s))
    let lam4 := (X*y1s + X*y1s) + (X*y1s + X*y1s)
    let x3 := alpha*alpha - (lam4 + lam4)
    let u1 := alpha * (lam4 - x3)
    let y4 := y1s*y1s
    let u2 := ((y4+y4)+(y4+y4)) + ((y4+y4)+(y4+y4))
    let y3 := u1 - u2
    let z3 := (Y+Z)*(Y+Z) - y1s - z1s
    let x := X / Z^2
    let y := Y / Z^3
    let lam := (3*x^2 + (-3)) / (2*y)
    let xr := lam^2 - 2*x
    let yr := lam*(x - xr) - y
    x3 / z3^2 = xr ∧ y3 / z3^3 = yr := by
  intro z1s y1s alpha lam4 x3 u1 y4 u2 y3 z3 x y lam xr yr
  have hz3 : z3 = 2*Y*Z := by simp only [z3, y1s, z1s]; ring
  have hz3ne : z3 ≠ 0 := by rw [hz3]; exact mul_ne_zero (mul_ne_zero h2 hY) hZ
  constructor
  · simp only [xr, lam, x, y, x3, alpha, lam4, y1s, z1s, hz3]
    field_simp
    ring
  · simp only [yr, xr, lam, x, y, y3, u1, u2, y4, x3, alpha, lam4, y1s, z1s, hz3]
    field_simp
    ring
