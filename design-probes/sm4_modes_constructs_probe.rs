use vstd::prelude::*;
verus! {
global size_of usize == 8;
enum Sm4Error { ErrorBlockSize, ErrorDataLen, InvalidLastU8 }
struct Sm4Cipher { rk: [u32; 32] }
pub uninterp spec fn s_enc(rk: Seq<u32>, b: Seq<u8>) -> Seq<u8>;
impl Sm4Cipher {
    #[verifier::external_body]
    fn encrypt(&self, block: &[u8]) -> (r: Result<Vec<u8>, Sm4Error>)
        requires block@.len() >= 16
        ensures r is Ok, r->Ok_0@ == s_enc(self.rk@, block@.subrange(0,16)), r->Ok_0@.len() == 16
    { unimplemented!() }
}
pub assume_specification<T: Clone>[ <[T]>::clone_from_slice ](a: &mut [T], b: &[T])
    requires old(a)@.len() == b@.len()
    ensures final(a)@ == b@;

fn block_xor(a: &[u8], b: &[u8]) -> (out: [u8; 16])
    requires a@.len() >= 16, b@.len() >= 16
    ensures forall|i: int| 0 <= i < 16 ==> out[i] == a@[i] ^ b@[i]
{
    let mut out: [u8; 16] = [0; 16];
    for i in 0..16
        invariant a@.len() >= 16, b@.len() >= 16, forall|k: int| 0 <= k < i ==> out[k] == a@[k] ^ b@[k]
    {
        out[i] = a[i] ^ b[i];
    }
    out
}

struct Sm4CipherMode { cipher: Sm4Cipher }
impl Sm4CipherMode {
    fn cfb_encrypt(&self, data: &[u8], iv: &[u8]) -> (r: Result<Vec<u8>, Sm4Error>)
        requires iv@.len() == 16
    {
        let block_num = data.len() / 16;
        let tail_len = data.len() - block_num * 16;

        let mut out: Vec<u8> = Vec::new();
        let mut vec_buf: Vec<u8> = vec![0; 16];
        vec_buf.clone_from_slice(iv);

        // Normal
        for i in 0..block_num
            invariant vec_buf@.len() == 16, block_num == data@.len() / 16
        {
            let enc = self.cipher.encrypt(&vec_buf[..])?;
            let ct = block_xor(&enc, &data[i * 16..i * 16 + 16]);
            for i in ct.iter() {
                out.push(*i);
            }
            vec_buf.clone_from_slice(&ct);
        }

        // Last block
        let enc = self.cipher.encrypt(&vec_buf[..])?;
        for i in 0..tail_len
            invariant enc@.len() == 16, tail_len < 16, tail_len == data@.len() - block_num * 16, block_num == data@.len() / 16
        {
            let b = data[block_num * 16 + i] ^ enc[i];
            out.push(b);
        }
        Ok(out)
    }
    fn cbc_tail(&self, data: &[u8], out0: Vec<u8>, enc: Vec<u8>) -> Vec<u8> requires data@.len() % 16 == 0, data@.len() > 0, out0@.len() == data@.len(), enc@.len() == 16 {
        let mut out = out0;
        let data_len = data.len();
        out.extend_from_slice(&enc);
        let mut vec_buf = [0; 16];
        vec_buf.copy_from_slice(&data[0..16]);
        let last_u8 = out[data_len - 1];
        if last_u8 > 0x10 || last_u8 == 0 { return out; }
        out.resize(data_len - last_u8 as usize, 0);
        out
    }
}
} fn main(){}
