use vstd::prelude::*;
verus! {
global size_of usize == 8;
pub type U256 = [u64; 4];
pub type U512 = [u64; 8];

pub open spec fn B32() -> int { 0x1_0000_0000int }
// pow32(k) = 2^(32k)
pub open spec fn pow32(k: int) -> int decreases k { if k <= 0 { 1 } else { 0x1_0000_0000int * pow32(k - 1) } }
// little-endian value of the first n 32-bit digits
pub open spec fn val32(s: Seq<u64>, n: int) -> int decreases n { if n <= 0 { 0 } else { val32(s, n - 1) + s[n - 1] as int * pow32(n - 1) } }
pub open spec fn val64(s: Seq<u64>, n: int) -> int decreases n { if n <= 0 { 0 } else { val64(s, n - 1) + s[n - 1] as int * pow32(2 * (n - 1)) } }

// sum_{j'<j} x * b[j'] * pow32(i + j')
pub open spec fn rowsum(x: int, b: Seq<u64>, i: int, j: int) -> int decreases j {
    if j <= 0 { 0 } else { rowsum(x, b, i, j - 1) + x * (b[j - 1] as int) * pow32(i + j - 1) }
}
pub open spec fn rows(a: Seq<u64>, b: Seq<u64>, i: int) -> int decreases i {
    if i <= 0 { 0 } else { rows(a, b, i - 1) + rowsum(a[i - 1] as int, b, i - 1, 8) }
}

proof fn lemma_pow32_add(a: int, b: int)
    requires a >= 0, b >= 0
    ensures pow32(a + b) == pow32(a) * pow32(b)
    decreases b
{
    if b == 0 { assert(pow32(0) == 1); }
    else {
        lemma_pow32_add(a, b - 1);
        assert(pow32(a + b) == 0x1_0000_0000int * pow32(a + b - 1));
        assert(pow32(b) == 0x1_0000_0000int * pow32(b - 1));
        assert(0x1_0000_0000int * (pow32(a) * pow32(b - 1)) == pow32(a) * (0x1_0000_0000int * pow32(b - 1))) by(nonlinear_arith);
    }
}
proof fn lemma_pow32_pos(k: int) ensures pow32(k) >= 1 decreases k {
    if k > 0 { lemma_pow32_pos(k - 1); }
}

// updating digit k (k < n) changes val32 by (v - old) * pow32(k)
proof fn lemma_val32_update(s: Seq<u64>, k: int, v: u64, n: int)
    requires 0 <= k < s.len(), 0 <= n <= s.len()
    ensures val32(s.update(k, v), n) == val32(s, n) + (if k < n { (v as int - s[k] as int) * pow32(k) } else { 0 })
    decreases n
{
    if n > 0 {
        lemma_val32_update(s, k, v, n - 1);
        if k == n - 1 {
            assert((v as int) * pow32(k) == (s[k] as int) * pow32(k) + (v as int - s[k] as int) * pow32(k)) by(nonlinear_arith);
        } else if k < n - 1 {
        } else {}
    }
}

proof fn lemma_val32_zero(s: Seq<u64>, n: int)
    requires 0 <= n <= s.len(), forall|k: int| 0 <= k < n ==> s[k] == 0
    ensures val32(s, n) == 0
    decreases n
{
    if n > 0 { lemma_val32_zero(s, n - 1); assert(0 * pow32(n - 1) == 0); }
}
proof fn lemma_step(sk: int, ab: int, u: int, sk2: int, u2: int, pk: int)
    requires sk2 + u2 * 0x1_0000_0000int == sk + ab + u,
    ensures (sk2 - sk) * pk + u2 * (0x1_0000_0000int * pk) == ab * pk + u * pk
{
    assert((sk2 - sk) * pk + u2 * (0x1_0000_0000int * pk) == (sk2 - sk + u2 * 0x1_0000_0000int) * pk) by(nonlinear_arith);
    assert((sk + ab + u - sk) * pk == ab * pk + u * pk) by(nonlinear_arith);
}

#[verifier::rlimit(40)]
pub fn u256_mul_core(a_: &[u64; 8], b_: &[u64; 8]) -> (s: [u64; 16])
    requires forall|k: int| 0 <= k < 8 ==> a_[k] < 0x1_0000_0000 && b_[k] < 0x1_0000_0000,
    ensures forall|k: int| 0 <= k < 16 ==> s[k] < 0x1_0000_0000,
            val32(s@, 16) == rows(a_@, b_@, 8),
{
    let mut s: [u64; 16] = [0; 16];
    let mut u = 0;
    proof { lemma_val32_zero(s@, 16); }
    for i in 0..8
        invariant
            forall|k: int| 0 <= k < 8 ==> a_[k] < 0x1_0000_0000 && b_[k] < 0x1_0000_0000,
            forall|k: int| 0 <= k < 16 ==> s[k] < 0x1_0000_0000,
            forall|k: int| i + 8 <= k < 16 ==> s[k] == 0,
            i == 0 ==> (forall|k: int| 0 <= k < 16 ==> s[k] == 0),
            val32(s@, 16) == rows(a_@, b_@, i as int),
    {
        u = 0;
        for j in 0..8
            invariant
                0 <= i < 8,
                forall|k: int| 0 <= k < 8 ==> a_[k] < 0x1_0000_0000 && b_[k] < 0x1_0000_0000,
                forall|k: int| 0 <= k < 16 ==> s[k] < 0x1_0000_0000,
                forall|k: int| i + 8 <= k < 16 ==> s[k] == 0,
                u < 0x1_0000_0000,
                val32(s@, 16) + u as int * pow32(i as int + j as int) == rows(a_@, b_@, i as int) + rowsum(a_[i as int] as int, b_@, i as int, j as int),
        {
            let ghost s_old = s@;
            let ghost u_old = u as int;
            proof {
                assert(a_[i as int] as int * b_[j as int] as int <= 0xffff_ffffint * 0xffff_ffffint) by(nonlinear_arith)
                    requires a_[i as int] < 0x1_0000_0000, b_[j as int] < 0x1_0000_0000;
            }
            u = s[i + j] + a_[i] * b_[j] + u;
            let ghost t = u as int;
            s[i + j] = u & 0xffffffff;
            u >>= 32;
            proof {
                let tt = t as u64;
                assert((tt & 0xffffffff) + (tt >> 32) * 0x1_0000_0000 == tt && (tt & 0xffffffff) < 0x1_0000_0000 && (tt >> 32) < 0x1_0000_0000) by(bit_vector);
                let k = i as int + j as int;
                lemma_val32_update(s_old, k, s[k], 16);
                lemma_pow32_pos(k);
                assert(pow32(k + 1) == 0x1_0000_0000int * pow32(k));
                lemma_step(s_old[k] as int, a_[i as int] as int * b_[j as int] as int, u_old, s[k] as int, u as int, pow32(k));
                assert(rowsum(a_[i as int] as int, b_@, i as int, j as int + 1)
                    == rowsum(a_[i as int] as int, b_@, i as int, j as int) + (a_[i as int] as int) * (b_[j as int] as int) * pow32(k));
            }
        }
        let ghost s_old = s@;
        s[i + 8] = u;
        proof {
            lemma_val32_update(s_old, i as int + 8, u, 16);
            assert(rows(a_@, b_@, i as int + 1) == rows(a_@, b_@, i as int) + rowsum(a_[i as int] as int, b_@, i as int, 8));
        }
    }
    s
}
} fn main(){}
