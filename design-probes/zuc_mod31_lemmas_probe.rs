use vstd::prelude::*;
verus! {
pub open spec fn m31() -> int { 0x7FFF_FFFFint }
// rot31(a,k) == a * 2^k mod (2^31-1), up to representation of zero
proof fn lemma_rot31_8(a: u32)
    requires a <= 0x7FFF_FFFF
    ensures ({ let r = ((a << 8u32) | (a >> 23u32)) & 0x7FFFFFFFu32; r <= 0x7FFF_FFFF && (r as int - (a as int) * 256) % m31() == 0 })
{
    let r = ((a << 8u32) | (a >> 23u32)) & 0x7FFFFFFFu32;
    let hi = a >> 23u32;
    let lo = (a << 8u32) & 0x7FFFFFFFu32;
    assert(r == hi + lo && hi < 256 && lo <= 0x7FFF_FFFF && r <= 0x7FFF_FFFF && (a as u64) * 256 == (hi as u64) * 0x8000_0000u64 + lo as u64) by(bit_vector)
        requires a <= 0x7FFF_FFFFu32, r == ((a << 8u32) | (a >> 23u32)) & 0x7FFFFFFFu32, hi == a >> 23u32, lo == (a << 8u32) & 0x7FFFFFFFu32;
    // a*256 = hi*2^31 + lo = hi*(2^31-1) + (hi + lo)
    assert((r as int - (a as int) * 256) == -(hi as int) * m31());
    vstd::arithmetic::div_mod::lemma_mod_multiples_basic(-(hi as int), m31());
}
proof fn lemma_add31(a: u32, b: u32)
    requires a <= 0x7FFF_FFFF, b <= 0x7FFF_FFFF
    ensures ({ let c = a.wrapping_add(b); let r = (c & 0x7FFFFFFFu32).wrapping_add(c >> 31u32); r <= 0x7FFF_FFFF && (r as int - (a as int + b as int)) % m31() == 0 })
{
    let c = a.wrapping_add(b);
    let r = (c & 0x7FFFFFFFu32).wrapping_add(c >> 31u32);
    assert(c == a + b);
    let l = c & 0x7FFFFFFFu32; let h = c >> 31u32;
    assert(c == h * 0x8000_0000u32 + l && h <= 1 && l <= 0x7FFF_FFFF) by(bit_vector) requires l == c & 0x7FFFFFFFu32, h == c >> 31u32;
    assert(r == l + h);
    assert(h == 1 ==> l <= 0x7FFF_FFFE) by { }
    assert((r as int - (a as int + b as int)) == -(h as int) * m31());
    vstd::arithmetic::div_mod::lemma_mod_multiples_basic(-(h as int), m31());
}
} fn main(){}
