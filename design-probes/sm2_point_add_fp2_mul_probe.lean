import Mathlib.Tactic

theorem sm2_add {R : Type*} [CommRing R] (xa ya xb lam Z1 Z2 : R) :
    let X1 := xa*Z1^2
    let Y1 := ya*Z1^3
    let X2 := xb*Z2^2
    let Y2 := (ya + lam*(xb - xa))*Z2^3
    let z1s := Z1*Z1
    let z2s := Z2*Z2
    let u1 := X1*z2s
    let u2 := X2*z1s
    let s1 := (Y1*Z2)*z2s
    let s2 := (Y2*Z1)*z1s
    let h := u2 - u1
    let r := s2 - s1
    let hh := h*h
    let hhh := hh*h
    let v := u1*hh
    let x3 := (r*r - hhh) - (v+v)
    let y3 := r*(v - x3) - s1*hhh
    let z3 := (Z1*Z2)*h
    let xr := lam^2 - xa - xb
    let yr := lam*(xa - xr) - ya
    x3 = xr * z3^2 ∧ y3 = yr * z3^3 ∧ z3 = (xb - xa) * (Z1*Z2)^3 := by
  intro X1 Y1 X2 Y2 z1s z2s u1 u2 s1 s2 h r hh hhh v x3 y3 z3 xr yr
  simp only [X1, Y1, X2, Y2, z1s, z2s, u1, u2, s1, s2, h, r, hh, hhh, v, x3, y3, z3, xr, yr]
  refine ⟨by ring, by ring, by ring⟩

theorem fp2_mul {R : Type*} [CommRing R] (u a0 a1 b0 b1 : R) (hu : u*u = -2) :
    let r1 := (b0 + b1) * (a0 + a1)
    let r0 := a0*b0
    let t := a1*b1
    let r1' := (r1 - r0) - t
    let r0' := r0 - (t + t)
    (a0 + a1*u) * (b0 + b1*u) = r0' + r1'*u := by
  intro r1 r0 t r1' r0'
  simp only [r1, r0, t, r1', r0']
  linear_combination (a1*b1) * hu
