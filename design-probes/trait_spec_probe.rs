use vstd::prelude::*;
verus! {
pub type U256 = [u64; 4];
pub open spec fn val4(a: Seq<u64>) -> int { a[0] as int + 0x1_0000_0000_0000_0000int * (a[1] as int + 0x1_0000_0000_0000_0000int * (a[2] as int + 0x1_0000_0000_0000_0000int * (a[3] as int))) }
pub uninterp spec fn modulus() -> int;

pub trait FieldModOperation: Sized + Copy + Clone {
    spec fn v(&self) -> int;
    fn fp_add(&self, rhs: &Self) -> (r: Self)
        requires 0 <= self.v() < modulus(), 0 <= rhs.v() < modulus()
        ensures r.v() == (self.v() + rhs.v()) % modulus();
    fn fp_double(&self) -> (r: Self)
        requires 0 <= self.v() < modulus()
        ensures r.v() == (self.v() + self.v()) % modulus();
}

#[verifier::external_body]
fn raw_add(a: &U256, b: &U256) -> (r: U256)
    requires 0 <= val4(a@) < modulus(), 0 <= val4(b@) < modulus()
    ensures val4(r@) == (val4(a@) + val4(b@)) % modulus()
{ unimplemented!() }

impl FieldModOperation for U256 {
    open spec fn v(&self) -> int { val4(self@) }
    fn fp_add(&self, rhs: &Self) -> Self {
        raw_add(self, rhs)
    }
    fn fp_double(&self) -> Self {
        self.fp_add(self)
    }
}
} fn main(){}
