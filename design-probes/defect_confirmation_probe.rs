use gm_sm2::key::{Sm2PrivateKey, Sm2PublicKey};
use gm_sm2::p256_ecc::{g_mul, Point};
use gm_sm9::fields::FieldElement;
use std::panic::catch_unwind;
fn main() {
    // D13: scalar_mul(n+26)
    let n: [u64;4] = [0x53bbf40939d54123,0x7203df6b21c6052b,0xffffffffffffffff,0xfffffffeffffffff];
    let mut k = n; k[0] += 26;
    let g = g_mul(&[1,0,0,0]);
    let r = g.scalar_mul(&k);
    let e = g.scalar_mul(&[26,0,0,0]);
    println!("D13 scalar_mul(n+26): is_zero={} expected [26]G nonzero; equal_affine={}", r.is_zero(), if r.is_zero() {false} else {r.to_affine_point()==e.to_affine_point()});
    let r2 = g_mul(&k); println!("    g_mul(n+26) == [26]G: {}", r2.to_affine_point()==e.to_affine_point());
    // P + P with different Z
    let p2 = g.point_dbl(); // Z != 1
    let p2a = p2.to_affine_point();
    let s = p2.point_add(&p2a);
    println!("D13b (2G)+(2G affine): is_zero={}", s.is_zero());
    // D4: verify with 65-byte sig / short sig
    let sk = Sm2PrivateKey::from_hex_string("eb20009ffbffc90aeeb288ca7d782c722332d1d16a206cafec7dd6c64e6fc525").unwrap();
    let pk = sk.to_public_key();
    let mut sig = sk.sign(None, b"hello").unwrap();
    sig.push(0x42);
    println!("D4 verify 65-byte sig: {:?}", pk.verify(None, b"hello", &sig).is_ok());
    let r = catch_unwind(|| pk.verify(None, b"hello", &sig[..40]).is_ok());
    println!("D4 verify 40-byte sig panics: {}", r.is_err());
    // D1
    let m = gm_sm4::Sm4CipherMode::new(&[0u8;16], gm_sm4::CipherMode::Cbc).unwrap();
    let r = catch_unwind(|| m.decrypt(&[], &[0u8;16]).is_ok());
    println!("D1 cbc_decrypt(empty) panics: {}", r.is_err());
    let r = catch_unwind(|| gm_sm4::Sm4Cipher::new(&[0u8;15]).is_ok());
    println!("D2 Sm4Cipher::new(15 bytes) panics: {}", r.is_err());
    // D9
    let mut nm1 = n; nm1[0]-=1;
    let mut b = vec![]; for i in (0..4).rev() { b.extend_from_slice(&nm1[i].to_be_bytes()); }
    println!("D9 PrivateKey::new(n-1) ok: {}", Sm2PrivateKey::new(&b).is_ok());
    println!("D9 PrivateKey::new(0) ok: {}", Sm2PrivateKey::new(&[0u8;32]).is_ok());
    // D24 Fp2 inverse with c0 == 0
    let one = <gm_sm9::fields::fp::Fp as FieldElement>::one();
    let z="0000000000000000000000000000000000000000000000000000000000000000"; let t="0000000000000000000000000000000000000000000000000000000000000003"; let o="0000000000000000000000000000000000000000000000000000000000000001";
    let tp = gm_sm9::points::TwistPoint::from_hex([z,t],[o,z]); let a = tp.x; let fp2one = tp.y;
    let inv = a.fp_inv();
    let prod = a.fp_mul(&inv);
    println!("D24 Fp2 (0,3) * inv == one: {}", prod == fp2one);
    let _ = one;
    // D23 TwistPoint equals P vs -P
    let p = gm_sm9::points::TwistPoint::g_mul(&[5,0,0,0]);
    println!("D23 twist P.point_equals(-P): {}", p.point_equals(&p.point_neg()));
    // D22 verify_sign with h = N-1 panics
    let msk = gm_sm9::key::Sm9SignMasterKey::master_key_generate();
    let nn: [u64;4] = [0xe56ee19cd69ecf24,0x49f2934b18ea8bee,0xd603ab4ff58ec744,0xb640000002a3a6f1];
    let s = gm_sm9::points::Point::g_mul(&[7,0,0,0]);
    let r = catch_unwind(|| msk.verify_sign(b"A", b"m", &nn, &s).is_ok());
    println!("D22 verify_sign(h=N-1) panics: {}", r.is_err());
    // D32 EEA overflow
    let r = catch_unwind(|| { let mut e = gm_zuc::eea::EEA::new(&[0u8;16], 0, 0, 0); e.encrypt(&[0u32;1], 0xffff_ffff).len() });
    println!("D32 EEA encrypt(len=2^32-1) result: {:?}", r.map_err(|_| "panic"));
}
