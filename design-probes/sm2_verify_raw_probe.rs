use vstd::prelude::*;
verus! {
global size_of usize == 8;
pub type U256 = [u64; 4];
#[derive(PartialEq)]
pub enum Sm2Error { InvalidDigestLen, ZeroSig, InvalidDigest }
pub type Sm2Result<T> = Result<T, Sm2Error>;
#[derive(Clone, Copy)]
pub struct Point { pub x: U256, pub y: U256, pub z: U256 }
pub struct Sm2PublicKey { pub point: Point }

// ---- abstract math (uninterpreted) ----
pub uninterp spec fn N() -> int;               // group order n
pub uninterp spec fn P() -> int;               // field prime
pub axiom fn ax_n() ensures 1 < N() < pow256(), 1 < P() < pow256();
pub open spec fn pow256() -> int { 0x1_0000_0000_0000_0000int * 0x1_0000_0000_0000_0000int * 0x1_0000_0000_0000_0000int * 0x1_0000_0000_0000_0000int }
pub open spec fn val4(a: Seq<u64>) -> int { a[0] as int + 0x1_0000_0000_0000_0000int * (a[1] as int + 0x1_0000_0000_0000_0000int * (a[2] as int + 0x1_0000_0000_0000_0000int * (a[3] as int))) }
pub uninterp spec fn be_val(b: Seq<u8>) -> int;   // big-endian value of a byte string
pub uninterp spec fn be_bytes32(v: int) -> Seq<u8>;
pub axiom fn ax_be(v: int) requires 0 <= v < pow256() ensures be_bytes32(v).len() == 32, be_val(be_bytes32(v)) == v;
pub struct APoint { pub inf: bool, pub x: int, pub y: int }   // abstract affine point
pub uninterp spec fn abs_pt(p: Point) -> APoint;
pub uninterp spec fn g_add(a: APoint, b: APoint) -> APoint;
pub uninterp spec fn g_mul_base(k: int) -> APoint;
pub uninterp spec fn g_mul_pt(p: APoint, k: int) -> APoint;
pub uninterp spec fn mont(v: int) -> int;   // montgomery encode mod p

// ---- callee contracts (proved in their own units / assumed) ----
pub const SM2_N: U256 = [0x53bbf40939d54123, 0x7203df6b21c6052b, 0xffffffffffffffff, 0xfffffffeffffffff];
#[verifier::external_body] pub fn u256_from_be_bytes(input: &[u8]) -> (r: U256)
    requires input@.len() >= 32 ensures val4(r@) == be_val(input@.subrange(0, 32)) { unimplemented!() }
#[verifier::external_body] pub fn u256_cmp(a: &U256, b: &U256) -> (r: i32)
    ensures (r == 0) == (val4(a@) == val4(b@)), (r >= 0) == (val4(a@) >= val4(b@)), r == 0 || r == 1 || r == -1 { unimplemented!() }
#[verifier::external_body] pub fn fn_add(a: &U256, b: &U256) -> (r: U256)
    requires val4(a@) < N(), val4(b@) < pow256() // first canonical
    ensures val4(r@) == (val4(a@) + val4(b@)) % N() { unimplemented!() }
#[verifier::external_body] pub fn g_mul(k: &U256) -> (r: Point) ensures abs_pt(r) == g_mul_base(val4(k@)) { unimplemented!() }
#[verifier::external_body] pub fn fp_from_mont(a: &U256) -> (r: U256) ensures mont(val4(r@)) == val4(a@), 0 <= val4(r@) < P() { unimplemented!() }
#[verifier::external_body] pub fn to_byte_be(a: &U256) -> (r: Vec<u8>) ensures r@ == be_bytes32(val4(a@)) { unimplemented!() }
#[verifier::external_body] pub fn is_zero(a: &U256) -> (r: bool) ensures r == (val4(a@) == 0) { unimplemented!() }
impl Point {
    #[verifier::external_body] pub fn scalar_mul(&self, k: &[u64]) -> (r: Point) requires k@.len() == 4 ensures abs_pt(r) == g_mul_pt(abs_pt(*self), val4(k@)) { unimplemented!() }
    #[verifier::external_body] pub fn point_add(&self, q: &Point) -> (r: Point) ensures abs_pt(r) == g_add(abs_pt(*self), abs_pt(*q)) { unimplemented!() }
    #[verifier::external_body] pub fn to_affine_point(&self) -> (r: Point) ensures abs_pt(r) == abs_pt(*self), !abs_pt(*self).inf ==> val4(r.x@) == mont(abs_pt(*self).x) { unimplemented!() }
}

pub open spec fn valid_sig(pk: APoint, e: int, r: int, s: int) -> bool {
    &&& 1 <= r < N() &&& 1 <= s < N()
    &&& (r + s) % N() != 0
    &&& { let pt = g_add(g_mul_base(s), g_mul_pt(pk, (r + s) % N())); !pt.inf ==> r == (e + pt.x) % N() }
}

impl Sm2PublicKey {
    fn verify_raw(&self, digest: &[u8], pk: &Point, sig: &[u8]) -> (res: Sm2Result<()>)
        requires val4(SM2_N@) == N(),
        ensures res is Ok ==> sig@.len() == 64 && digest@.len() == 32
             && valid_sig(abs_pt(*pk), be_val(digest@), be_val(sig@.subrange(0, 32)), be_val(sig@.subrange(32, 64)))
    {
        if digest.len() != 32 {
            return Err(Sm2Error::InvalidDigestLen);
        }
        let n = &SM2_N;
        let r = &u256_from_be_bytes(&sig[..32]);
        let s = &u256_from_be_bytes(&sig[32..]);
        if is_zero(r) || is_zero(s) {
            return Err(Sm2Error::ZeroSig);
        }
        if u256_cmp(r, n) >= 0 || u256_cmp(s, n) >= 0 {
            return Err(Sm2Error::InvalidDigest);
        }
        let t = fn_add(&s, &r);
        if is_zero(&t) {
            return Err(Sm2Error::InvalidDigest);
        }
        let s_g = g_mul(&s);
        let t_p = pk.scalar_mul(&t);
        let p = s_g.point_add(&t_p).to_affine_point();
        let x1 = u256_from_be_bytes(&to_byte_be(&fp_from_mont(&p.x)));
        let e = u256_from_be_bytes(&digest);
        let r1 = fn_add(&x1, &e);
        return if u256_cmp(r, &r1) == 0 {
            Ok(())
        } else {
            Err(Sm2Error::InvalidDigest)
        };
    }
}
} fn main(){}
