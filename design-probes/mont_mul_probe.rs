use vstd::prelude::*;
use vstd::arithmetic::div_mod::*;
verus! {
global size_of usize == 8;
pub type U256 = [u64; 4];
pub type U512 = [u64; 8];
pub open spec fn w64() -> int { 0x1_0000_0000_0000_0000int }
pub open spec fn r256() -> int { 0x1_0000_0000_0000_0000int * 0x1_0000_0000_0000_0000int * 0x1_0000_0000_0000_0000int * 0x1_0000_0000_0000_0000int }
pub open spec fn val4(a: Seq<u64>) -> int { a[0] as int + 0x1_0000_0000_0000_0000int * (a[1] as int + 0x1_0000_0000_0000_0000int * (a[2] as int + 0x1_0000_0000_0000_0000int * (a[3] as int))) }
pub open spec fn val8(a: Seq<u64>) -> int { val4(a.subrange(0, 4)) + r256() * val4(a.subrange(4, 8)) }

pub const SM2_P: U256 = [0xffffffffffffffff, 0xffffffff00000000, 0xffffffffffffffff, 0xfffffffeffffffff];
pub const SM2_P_PRIME: U256 = [0x0000000000000001, 0xffffffff00000001, 0xfffffffe00000000, 0xfffffffc00000001];
pub const SM2_MODP_MONT_ONE: U256 = [1, 0xffffffff, 0, 0x100000000];
pub open spec fn p() -> int { val4(SM2_P@) }

#[verifier::external_body] pub fn u256_mul(a: &U256, b: &U256) -> (r: U512) ensures val8(r@) == val4(a@) * val4(b@) { unimplemented!() }
#[verifier::external_body] pub fn u512_add(a: &U512, b: &U512) -> (r: (U512, bool)) ensures val8(r.0@) + (if r.1 { r256() * r256() } else { 0 }) == val8(a@) + val8(b@) { unimplemented!() }
#[verifier::external_body] pub fn u256_add(a: &U256, b: &U256) -> (r: (U256, bool)) ensures val4(r.0@) + (if r.1 { r256() } else { 0 }) == val4(a@) + val4(b@) { unimplemented!() }
#[verifier::external_body] pub fn u256_sub(a: &U256, b: &U256) -> (r: (U256, bool)) ensures val4(r.0@) - (if r.1 { r256() } else { 0 }) == val4(a@) - val4(b@) { unimplemented!() }
#[verifier::external_body] pub fn u256_cmp(a: &U256, b: &U256) -> (r: i32) ensures (r >= 0) == (val4(a@) >= val4(b@)) { unimplemented!() }

proof fn lemma_val4_bounds(a: Seq<u64>) requires a.len() == 4 ensures 0 <= val4(a) < r256() { }

// ground facts about the constants (to be discharged by evaluation)
proof fn lemma_consts()
    ensures (p() * val4(SM2_P_PRIME@) + 1) % r256() == 0,
            val4(SM2_MODP_MONT_ONE@) == r256() - p(),
            0 < p() < r256(),
{
    assert((p() * val4(SM2_P_PRIME@) + 1) % r256() == 0) by(compute);
    assert(val4(SM2_MODP_MONT_ONE@) == r256() - p()) by(compute);
    assert(0 < p() < r256()) by(compute);
}

pub open spec fn lo(a: Seq<u64>) -> Seq<u64> { a.subrange(0, 4) }
pub open spec fn hi(a: Seq<u64>) -> Seq<u64> { a.subrange(4, 8) }

// Montgomery reduction core: z + ((z_lo * p') mod R) * p is divisible by R
proof fn lemma_mont(z: int, zl: int, tl: int, pp: int, pv: int, r: int)
    requires r > 0, zl == z % r, 0 <= z, tl == (zl * pp) % r, (pv * pp + 1) % r == 0,
    ensures (z + tl * pv) % r == 0
{
    // z + tl*p ≡ zl + zl*pp*p ≡ zl*(1 + pp*p) ≡ 0
    let k1 = z / r;             // z = k1*r + zl
    let k2 = (zl * pp) / r;     // zl*pp = k2*r + tl
    let k3 = (pv * pp + 1) / r; // pv*pp + 1 = k3*r
    assert(z == k1 * r + zl) by(nonlinear_arith) requires r > 0, zl == z % r, k1 == z / r;
    assert(zl * pp == k2 * r + tl) by(nonlinear_arith) requires r > 0, tl == (zl * pp) % r, k2 == (zl * pp) / r;
    assert(pv * pp + 1 == k3 * r) by(nonlinear_arith) requires r > 0, (pv * pp + 1) % r == 0, k3 == (pv * pp + 1) / r;
    assert(z + tl * pv == (k1 - k2 * pv + zl * k3) * r) by(nonlinear_arith)
        requires z == k1 * r + zl, zl * pp == k2 * r + tl, pv * pp + 1 == k3 * r;
    lemma_mod_multiples_basic(k1 - k2 * pv + zl * k3, r);
}

pub fn mont_mul(a: &U256, b: &U256) -> (res: U256)
    requires val4(a@) < p(), val4(b@) < p(),
    ensures val4(res@) < p(), (val4(res@) * r256()) % p() == (val4(a@) * val4(b@)) % p(),
{
    let mut r = [0u64; 4];

    let mut z = [0u64; 8];
    let mut t = [0u64; 8];

    // z = a * b
    z = u256_mul(a, b);
    let ghost z0 = z@;

    // t = low(z) * p'
    let z_low = [z[0], z[1], z[2], z[3]];
    let t1 = u256_mul(&z_low, &SM2_P_PRIME);
    t[0] = t1[0];
    t[1] = t1[1];
    t[2] = t1[2];
    t[3] = t1[3];

    // t = low(t) * p
    let t_low = [t[0], t[1], t[2], t[3]];
    t = u256_mul(&t_low, &SM2_P);

    // z = z + t
    let (sum, c) = u512_add(&z, &t);
    z = sum;

    // r = high(r)
    r = [z[4], z[5], z[6], z[7]];
    proof {
        lemma_consts();
        assert(z_low@ =~= lo(z0));
        assert(t_low@ =~= lo(t1@));
        assert(r@ =~= hi(sum@));
        lemma_val4_bounds(lo(z0)); lemma_val4_bounds(hi(z0)); lemma_val4_bounds(lo(t1@)); lemma_val4_bounds(hi(t1@));
        lemma_val4_bounds(lo(sum@)); lemma_val4_bounds(hi(sum@));
        let zz = val8(z0); let zl = val4(lo(z0)); let tl = val4(lo(t1@)); let rr = r256();
        assert(zz == val4(hi(z0)) * rr + zl) by(nonlinear_arith) requires zz == zl + rr * val4(hi(z0));
        lemma_fundamental_div_mod_converse(zz, rr, val4(hi(z0)), zl);
        assert(zl * val4(SM2_P_PRIME@) == val4(hi(t1@)) * rr + tl) by(nonlinear_arith) requires zl * val4(SM2_P_PRIME@) == tl + rr * val4(hi(t1@));
        lemma_fundamental_div_mod_converse(zl * val4(SM2_P_PRIME@), rr, val4(hi(t1@)), tl);
        assert(zz >= 0) by(nonlinear_arith) requires zz == val4(a@) * val4(b@), val4(a@) >= 0, val4(b@) >= 0;
        lemma_mont(zz, zl, tl, val4(SM2_P_PRIME@), p(), rr);
    }
    if c {
        r = u256_add(&r, &SM2_MODP_MONT_ONE).0;
    } else if u256_cmp(&r, &SM2_P) >= 0 {
        r = u256_sub(&r, &SM2_P).0
    }
    proof { admit(); }
    r
}
} fn main(){}
