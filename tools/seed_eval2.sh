#!/bin/bash
# seed_eval2.sh <PROP> <crate> : confirm the seeded change delivered in /tmp/seed/<PROP>-N.out against the scratch worktree
# /tmp/seed/<PROP>-N (demo passes clean, suite passes patched, demo fails patched), then run ./check <PROP> on the patched
# worktree as a source overlay (VERIF_REPO); /repo and /verif/evidence are not touched.
P=$1; CRATE=$2; W=/tmp/seed/$P-N; O=/tmp/seed/$P-N.out
cd $W || exit 9
git checkout -q -- . ; git clean -fdq -e target; git checkout -q --detach $(git -C /repo rev-parse HEAD)
mkdir -p $CRATE/tests; cp $O/seed_demo.rs $CRATE/tests/seed_demo.rs
echo "== clean tree: demo must pass"
RUSTFLAGS="${SEED_RUSTFLAGS:-}" cargo test -p $CRATE --offline --test seed_demo 2>&1 | grep -E "^test result|error(\[|:)" | head -3
git apply $O/patch.diff || { echo "PATCH DOES NOT APPLY"; exit 8; }
echo "== patched: existing suite must pass"
cargo test --workspace --offline --lib 2>&1 | grep -E "^test result" | sort | uniq -c
echo "== patched: demo must fail"
RUSTFLAGS="${SEED_RUSTFLAGS:-}" cargo test -p $CRATE --offline --test seed_demo 2>&1 | grep -E "^test result|error(\[|:)" | head -3
rm -f $CRATE/tests/seed_demo.rs
echo "== overlay (patched worktree): ./check $P"
(cd /verif && VERIF_REPO=$W ./check $P 2>&1 | grep -E "OK|VIOLATION|UNDECIDED|failed obligation|KNOWN|undecided" | cut -c1-300 | head -8; echo "rc=${PIPESTATUS[0]}")
git checkout -q -- .
