#!/bin/bash
# seed_overlay.sh <seed-dir-name> <check-id> : run ./check <id> against a scratch overlay of /repo's sources with the
# seeded patch applied (VERIF_REPO), without touching /repo or /verif/evidence. Overlay lives under /tmp and is removed.
set -u
S=$1; ID=$2
OV=$(mktemp -d /tmp/ov-XXXXXX)
( cd /repo && git ls-files | grep -E "\.rs$|Cargo" | rsync -a --files-from=- /repo/ $OV/ )
( cd $OV && git apply --whitespace=nowarn /verif/seeded/$S/patch.diff 2>/dev/null || patch -p1 --binary -s < /verif/seeded/$S/patch.diff ) || { echo "patch failed"; rm -rf $OV; exit 3; }
cd /verif && VERIF_REPO=$OV ./check $ID 2>&1 | grep -E "OK|VIOLATION|UNDECIDED|failed obligation|KNOWN" | cut -c1-260 | head -8
rc=${PIPESTATUS[0]}
rm -rf $OV
echo "rc=$rc"
