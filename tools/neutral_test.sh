#!/bin/bash
# neutral_test.sh <check-id> <file> <python-expr taking s returning s'> : apply a semantically neutral edit in an overlay and run the check
ID=$1; F=$2; EXPR=$3
OV=$(mktemp -d /tmp/ov-XXXXXX)
( cd /repo && git ls-files | grep -E "\.rs$|Cargo" | rsync -a --files-from=- /repo/ $OV/ )
python3 - "$OV/$F" "$EXPR" <<'PY'
import sys
p,expr=sys.argv[1],sys.argv[2]
s=open(p,newline='').read()
s2=eval(expr)
assert s2!=s, "edit did not change the file"
open(p,'w',newline='').write(s2)
PY
[ $? -ne 0 ] && { rm -rf $OV; exit 3; }
cd /verif && VERIF_REPO=$OV ./check $ID 2>&1 | grep -E "^OK|VIOLATION|UNDECIDED|failed obligation" | cut -c1-220 | head -5
echo "rc=${PIPESTATUS[0]}"
rm -rf $OV
