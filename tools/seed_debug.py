#!/usr/bin/env python3
"""seed_debug.py <seed> <unit> <pid>: build the unit against an overlay with the seeded patch and print notes / failures"""
import sys, os, subprocess, tempfile, shutil, json
seed, unit, pid = sys.argv[1:4]
ov = tempfile.mkdtemp(prefix="ov-", dir="/tmp")
ls = subprocess.run("git ls-files | grep -E '\\.rs$'", shell=True, cwd="/repo", capture_output=True, text=True).stdout
subprocess.run(["rsync", "-a", "--files-from=-", "/repo/", ov + "/"], input=ls, text=True)
subprocess.run(["git", "apply", "--whitespace=nowarn", "/verif/seeded/%s/patch.diff" % seed], cwd=ov, env=dict(os.environ, GIT_CEILING_DIRECTORIES="/tmp"))
os.environ["VERIF_REPO"] = ov
sys.path.insert(0, "/verif")
from vf import run as R
r = R.run_unit(unit, True, None, "-dbg", None, 8, None, pid)
print(r.status, "degraded:", getattr(r, "degraded", None), "auto:", getattr(r, "auto_extracted", None))
for e in r.failures: print("  FAIL", e["obligation"][:150])
for n in r.built.notes: print("  NOTE", n[:200])
print("dropped_idx", r.built.dropped_idx, "first errors", getattr(r, "first_attempt_errors", None))
shutil.rmtree(ov)
