#!/bin/bash
# seed_eval.sh <PROP> <VARIANT> <crate> : confirm a seeded change in its scratch worktree, then run ./check against /repo with it applied
P=$1; V=$2; CRATE=$3; W=/tmp/seed/$P; O=$W/_out/$V
set -u
cd $W || exit 9
git checkout -q -- . 2>/dev/null
mkdir -p $CRATE/tests; cp $O/demo.rs $CRATE/tests/seeddemo_$V.rs
rm -f $CRATE/tests/demo_*.rs
echo "== clean tree: demo must pass"
RUSTFLAGS="${SEED_RUSTFLAGS:-}" cargo test -p $CRATE --offline --test seeddemo_$V 2>&1 | grep -E "^test result|error(\[|:)" | head -3
git apply $O/patch.diff || { echo "PATCH DOES NOT APPLY"; exit 8; }
echo "== patched: existing suite must pass"
cargo test --workspace --offline --lib 2>&1 | grep -E "^test result" | sort | uniq -c
echo "== patched: demo must fail"
RUSTFLAGS="${SEED_RUSTFLAGS:-}" cargo test -p $CRATE --offline --test seeddemo_$V 2>&1 | grep -E "^test result|error(\[|:)" | head -3
rm -f $CRATE/tests/seeddemo_$V.rs
if [ -n "${SEED_OVERLAY:-}" ]; then
  # the patched scratch worktree itself is the source overlay: /repo is not touched (other work may be reading it)
  echo "== overlay (patched worktree): ./check $P"
  (cd /verif && VERIF_REPO=$W ./check $P; echo "rc=$?")
  git checkout -q -- .
else
  git checkout -q -- .
  echo "== /repo + patch: ./check $P"
  cd /repo && git apply $O/patch.diff && (cd /verif && ./check $P; echo "rc=$?"); git -C /repo checkout -q -- .
  git -C /repo status --short | head -3
fi
