#!/usr/bin/env python3
"""Generator of the algebra block of units/sm9_g2.rs (between the markers `// BEGIN GENERATED` / `// END GENERATED`).

Polynomial identities over R = Z[u]/(u^2 + 2) (pairs of integers, exact arithmetic q_add/q_sub/q_mul/q_k/q_c of the unit)
are written ONCE here as expression trees.  For every identity  L == R  the script

  * evaluates both sides at random pairs (sanity check before Lean sees it),
  * emits the wrapper  `proof fn qr_<name>(a: F2, ...) ensures L == R`  (proved by Verus: unfold the pair operations,
    call the two component axioms),
  * emits the two component statements `ring_<name>_0/_1` - integer polynomial identities of the vf.ringcheck shape,
    proved by Lean `ring` on every run.

Straight-line programs (the field operations of point_double / twist_point_add_full / point_add) are described as step lists;
the script emits the `rel` predicate (what the code computes, every operation reduced mod p) and the `chain` lemma
(each computed value is congruent to the polynomial in anything congruent to the inputs).

usage: python3 tools/gen_sm9_g2.py            rewrites the block in units/sm9_g2.rs
"""
import os, random, re, sys

VERIF = os.path.dirname(os.path.dirname(os.path.abspath(__file__)))

class E:
    def __init__(self, kind, *a): self.kind = kind; self.a = a
    @staticmethod
    def lift(x): return x if isinstance(x, E) else E("c", int(x))
    def __add__(s, o): return E("add", s, E.lift(o))
    def __sub__(s, o): return E("sub", s, E.lift(o))
    def __mul__(s, o): return E("mul", s, E.lift(o))
    def __rmul__(s, k):
        assert isinstance(k, int)
        return E("k", k, s)
    # Verus text over the pair operations
    def q(s):
        k = s.kind
        if k == "v": return s.a[0]
        if k == "c": return "q_c(%d)" % s.a[0]
        if k == "k": return "q_k(%d, %s)" % (s.a[0], s.a[1].q())
        return "q_%s(%s, %s)" % (k, s.a[0].q(), s.a[1].q())
    # the two integer components (fully parenthesised, the shape Verus gets by unfolding the definitions)
    def comps(s):
        k = s.kind
        if k == "v": return (s.a[0] + "0", s.a[0] + "1")
        if k == "c": return ("%d" % s.a[0], "0")
        if k == "k":
            c0, c1 = s.a[1].comps()
            return ("%d * (%s)" % (s.a[0], c0), "%d * (%s)" % (s.a[0], c1))
        a0, a1 = s.a[0].comps(); b0, b1 = s.a[1].comps()
        if k == "add": return ("(%s) + (%s)" % (a0, b0), "(%s) + (%s)" % (a1, b1))
        if k == "sub": return ("(%s) - (%s)" % (a0, b0), "(%s) - (%s)" % (a1, b1))
        if k == "mul": return ("(%s) * (%s) - 2 * ((%s) * (%s))" % (a0, b0, a1, b1), "(%s) * (%s) + (%s) * (%s)" % (a0, b1, a1, b0))
        raise ValueError(k)
    def ev(s, env):
        k = s.kind
        if k == "v": return env[s.a[0]]
        if k == "c": return (s.a[0], 0)
        if k == "k":
            x = s.a[1].ev(env); return (s.a[0] * x[0], s.a[0] * x[1])
        x = s.a[0].ev(env); y = s.a[1].ev(env)
        if k == "add": return (x[0] + y[0], x[1] + y[1])
        if k == "sub": return (x[0] - y[0], x[1] - y[1])
        if k == "mul": return (x[0] * y[0] - 2 * x[1] * y[1], x[0] * y[1] + x[1] * y[0])
    def vars(s, acc=None):
        acc = acc if acc is not None else []
        if s.kind == "v":
            if s.a[0] not in acc: acc.append(s.a[0])
        else:
            for x in s.a:
                if isinstance(x, E): x.vars(acc)
        return acc

def V(*names): return [E("v", n) for n in names] if len(names) > 1 else E("v", names[0])
def C(k): return E("c", k)

OUT = []
AXIOMS = 0
def identity(name, params, lhs, rhs, comment=None):
    """params: list of variable names (order of the lemma parameters)"""
    global AXIOMS
    used = lhs.vars(); rhs.vars(used)
    assert set(used) <= set(params), (name, used, params)
    rnd = random.Random(name)
    for _ in range(6):
        env = {p: (rnd.randrange(-10**6, 10**6), rnd.randrange(-10**6, 10**6)) for p in params}
        l = lhs.ev(env); r = rhs.ev(env)
        assert l == r, "identity %s is FALSE at %r: %r != %r" % (name, env, l, r)
    l0, l1 = lhs.comps(); r0, r1 = rhs.comps()
    ip = ", ".join("%s0: int, %s1: int" % (p, p) for p in params)
    ia = ", ".join("%s.c0, %s.c1" % (p, p) for p in params)
    if comment: OUT.append("// " + comment)
    OUT.append("proof fn qr_%s(%s)\n    ensures %s\n        == %s\n{\n    reveal(q_add); reveal(q_sub); reveal(q_mul); reveal(q_k); reveal(q_c);\n    ring_%s_0(%s); ring_%s_1(%s);\n}" % (
        name, ", ".join("%s: F2" % p for p in params), lhs.q(), rhs.q(), name, ia, name, ia))
    for i, (l, r) in enumerate(((l0, r0), (l1, r1))):
        OUT.append("#[verifier::external_body]\nproof fn ring_%s_%d(%s)\n    ensures %s\n        == %s\n{ }" % (name, i, ip, l, r))
        AXIOMS += 1

# ------------------------------------------------------------------------------------------------ straight-line programs
def program(name, inputs, steps, outputs, half=None, doc=""):
    """steps: list of (result, op, a, b[, "let"]) with op in mul/add/sub over values named by earlier results or inputs;
    a step (d, "half", y16) declares d with d + d == y16; a "let" step is not a parameter of rel (the code does not name it),
    it stands for its defining expression.
    Emits  spec fn <name>_rel(inputs, values...)  and  proof fn <name>_chain(..., primed inputs) with the polynomial
    of every output.  Returns {value name: E} (the polynomials in the primed inputs `<input>p`)."""
    lets = {}
    def ref(v): return lets.get(v, v)
    vals = [s[0] for s in steps if not (len(s) > 4 and s[4] == "let")]
    allv = inputs + vals
    sig = ", ".join("%s: F2" % v for v in allv)
    conj = []
    for s in steps:
        if s[1] == "half": conj.append("o_add(%s, %s) == %s" % (s[0], s[0], ref(s[2])))
        elif len(s) > 4 and s[4] == "let": lets[s[0]] = "o_%s(%s, %s)" % (s[1], ref(s[2]), ref(s[3]))
        else: conj.append("%s == o_%s(%s, %s)" % (s[0], s[1], ref(s[2]), ref(s[3])))
    OUT.append("// %s" % doc if doc else "// values computed by %s" % name)
    OUT.append("spec fn %s_rel(%s) -> bool {\n    %s\n}" % (name, sig, "\n    && ".join(conj)))
    poly = {i: E("v", i + "p") for i in inputs}
    calls = ["reveal(o_mul); reveal(o_add); reveal(o_sub);"]
    for s in steps:
        r = s[0]
        if s[1] == "half":
            H, pre = half(poly)
            poly[r] = H
            calls.append(pre)
            calls.append("t2_half(%s, %s, %s);" % (r, s[2], H.q()))
            continue
        if len(s) > 4 and s[4] == "let": calls.append("let %s = %s;" % (r, lets[r]))
        A = poly[s[2]]; B = poly[s[3]]
        calls.append("t2_c%s(%s, %s, %s, %s, %s);" % ({"mul": "m", "add": "a", "sub": "s"}[s[1]], r, s[2], s[3], A.q(), B.q()))
        poly[r] = E(s[1], A, B)
    req = ["%s_rel(%s)" % (name, ", ".join(allv))] + ["qc(%s, %sp)" % (i, i) for i in inputs]
    ens = ["qc(%s, %s)" % (o, poly[o].q()) for o in outputs] + ["m2_ok(%s)" % o for o in outputs]
    OUT.append("proof fn %s_chain(%s, %s)\n    requires %s\n    ensures %s\n{\n    %s\n}" % (
        name, sig, ", ".join("%sp: F2" % i for i in inputs), ",\n        ".join(req), ",\n        ".join(ens), "\n    ".join(calls)))
    PROGS[name] = {"inputs": inputs, "vals": vals, "poly": poly}
    return poly

PROGS = {}
def subst(e, m):
    """replace variables by expressions"""
    if e.kind == "v": return m.get(e.a[0], e)
    return E(e.kind, *[subst(x, m) if isinstance(x, E) else x for x in e.a])

# ================================================================================================ the content
one = C(1)
def pw2(t): return t * t
def pw3(t): return t * t * t

def build():
    # ---------------------------------------------------------------- Jacobian <-> affine
    xa, ya, x, y, z, zi = V("xa", "ya", "x", "y", "z", "zi")
    identity("par2", ["xa", "x", "z", "zi"], xa * z * z - x, (xa - x * zi * zi) * (z * z) + (z * zi - one) * (x * (z * zi + one)),
             "x / z^2 = xa gives back x = xa z^2")
    identity("par3", ["ya", "y", "z", "zi"], ya * z * z * z - y,
             (ya - y * zi * zi * zi) * (z * z * z) + (z * zi - one) * (y * (z * zi * (z * zi) + z * zi + one)))
    a, b, w = V("a", "b", "w")
    identity("div2", ["a", "b", "z", "w"], a * w * w - b, (a - b * (z * z)) * (w * w) + (z * w - one) * (b * (z * w + one)),
             "a = b z^2 gives a / z^2 = b")
    identity("div3", ["a", "b", "z", "w"], a * w * w * w - b,
             (a - b * (z * z * z)) * (w * w * w) + (z * w - one) * (b * (z * w * (z * w) + z * w + one)))
    identity("sqdiff", ["a", "b"], (a - b) * (a + b), a * a - b * b)
    c = V("c")
    identity("assoc", ["a", "b", "c"], (a * b) * c, b * (a * c), "(a b) c = b (a c)")
    identity("dist", ["a", "b", "c"], a * c - b * c, (a - b) * c, "a c - b c = (a - b) c")
    identity("dista", ["a", "b", "c"], a * c + b * c, (a + b) * c)
    lam, n, d, dd = V("lam", "n", "d", "dd")
    identity("slope", ["lam", "n", "d", "dd"], lam * d - n, (lam - n * dd) * d + (d * dd - one) * n, "lam = n / d gives lam d = n")

    # ---------------------------------------------------------------- the tangent law, generic in the scale W: (X3, Y3, Z3) = (x3n W^2, y3n W^3, 2 ya W)
    W, s = V("W", "s")
    T = (xa * xa + xa * xa) + xa * xa
    Y2 = ya + ya
    S4 = (Y2 * Y2) * xa
    x3n = T * T - (S4 + S4)
    D8 = 8 * ((ya * ya) * (ya * ya))
    y3n = T * (S4 - x3n) - D8
    Zf = Y2 * W
    e = lam * Y2 - T
    TAN = dict(T=T, Y2=Y2, S4=S4, x3n=x3n, D8=D8, y3n=y3n, Zf=Zf, e=e)
    identity("tan_x", ["xa", "ya", "lam", "W"], (lam * lam - xa - xa) * (Zf * Zf) - x3n * (W * W), e * ((lam * Y2 + T) * (W * W)))
    e2 = s * (Zf * Zf) - x3n * (W * W)
    TAN["e2"] = e2
    TAN["K"] = (lam * Y2 + T) * (W * W)
    TAN["K2"] = (W * W * W) * (S4 - x3n)
    identity("tan_y", ["xa", "ya", "lam", "s", "W"], (lam * (xa - s) - ya) * (Zf * Zf * Zf) - y3n * (W * W * W), e * TAN["K2"] - e2 * (lam * Zf))

    # ---------------------------------------------------------------- the chord law, generic in the scale W: (X3, Y3, Z3) = (x3n W^2, y3n W^3, (x2 - x1) W)
    x1, y1, x2, y2 = V("x1", "y1", "x2", "y2")
    dx = x2 - x1; dy = y2 - y1
    cx3n = dy * dy - (x1 + x2) * (dx * dx)
    cy3n = dy * (x1 * (dx * dx) - cx3n) - y1 * (dx * dx * dx)
    cZf = dx * W
    ce = lam * dx - dy
    CH = dict(dx=dx, dy=dy, x3n=cx3n, y3n=cy3n, Zf=cZf, e=ce)
    CH["K"] = (lam * dx + dy) * (W * W)
    identity("chord_x", ["x1", "y1", "x2", "y2", "lam", "W"], (lam * lam - x1 - x2) * (cZf * cZf) - cx3n * (W * W), ce * CH["K"])
    CH["e2"] = s * (cZf * cZf) - cx3n * (W * W)
    CH["K2"] = (W * W * W) * (x1 * (dx * dx) - cx3n)
    identity("chord_y", ["x1", "y1", "x2", "y2", "lam", "s", "W"], (lam * (x1 - s) - y1) * (cZf * cZf * cZf) - cy3n * (W * W * W),
             ce * CH["K2"] - CH["e2"] * (lam * cZf))

    # ---------------------------------------------------------------- point_double
    def dbl_half(poly):
        Yp = poly["Y"]
        H = 8 * ((Yp * Yp) * (Yp * Yp))
        return H, "qr_dbl_half(Yp);"
    yv = V("Yp")
    identity("dbl_half", ["Yp"], ((yv + yv) * (yv + yv)) * ((yv + yv) * (yv + yv)), 2 * (8 * ((yv * yv) * (yv * yv))))
    dbl = program("dbl", ["X", "Y", "Z"], [
        ("a1", "mul", "X", "X", "let"), ("m1", "add", "a1", "a1", "let"), ("m", "add", "m1", "a1"),
        ("y2", "add", "Y", "Y"), ("z3", "mul", "y2", "Z"), ("y4", "mul", "y2", "y2"), ("s", "mul", "y4", "X"), ("y16", "mul", "y4", "y4"),
        ("d", "half", "y16"), ("m2", "mul", "m", "m"), ("s2", "add", "s", "s"), ("x3", "sub", "m2", "s2"), ("d1", "sub", "s", "x3"),
        ("d2", "mul", "d1", "m"), ("y3", "sub", "d2", "d")], ["x3", "y3", "z3"], half=dbl_half,
        doc="TwistPoint::point_double: the field operations of the code (every one reduced mod p; d is the result of fp_div2)")
    par = {"Xp": xa * z * z, "Yp": ya * z * z * z, "Zp": z}
    Wd = (z * z) * (z * z)
    identity("dF_m", ["xa", "z"], subst(dbl["m"], par), T * Wd)
    identity("dF_s", ["xa", "ya", "z"], subst(dbl["s"], par), S4 * (Wd * Wd))
    identity("dF_d", ["ya", "z"], subst(dbl["d"], par), D8 * (Wd * Wd * Wd))
    identity("dF_z", ["ya", "z"], subst(dbl["z3"], par), Y2 * Wd)
    Tv, S4v, x3nv, D8v = V("Tv", "S4v", "x3nv", "D8v")
    Mv = Tv * W; Sv = S4v * (W * W)
    identity("dG_x", ["Tv", "S4v", "W"], Mv * Mv - (Sv + Sv), (Tv * Tv - (S4v + S4v)) * (W * W))
    identity("dG_y", ["Tv", "S4v", "x3nv", "D8v", "W"], (Sv - x3nv * (W * W)) * Mv - D8v * (W * W * W), (Tv * (S4v - x3nv) - D8v) * (W * W * W))
    DBL = dict(poly=dbl, par=par, W=Wd)

    # ---------------------------------------------------------------- twist_point_add_full
    z1, z2, t = V("z1", "z2", "t")
    af1 = program("af1", ["X1", "Y1", "Z1", "X2", "Y2", "Z2"], [
        ("t1", "mul", "Z1", "Z1"), ("t2", "mul", "Z2", "Z2"), ("u2", "mul", "X2", "t1"), ("u1", "mul", "X1", "t2"), ("t5", "add", "u2", "u1"),
        ("h", "sub", "u2", "u1"), ("t1c", "mul", "t1", "Z1"), ("s2", "mul", "t1c", "Y2"), ("t2c", "mul", "t2", "Z2"), ("s1", "mul", "t2c", "Y1"),
        ("t6", "add", "s2", "s1"), ("r", "sub", "s2", "s1")], ["u1", "u2", "s1", "s2", "t5", "h", "t6", "r"],
        doc="twist_point_add_full, both operands finite: the cross-multiplied coordinates and their differences")
    par2 = {"X1p": x1 * z1 * z1, "Y1p": y1 * z1 * z1 * z1, "Z1p": z1, "X2p": x2 * z2 * z2, "Y2p": y2 * z2 * z2 * z2, "Z2p": z2}
    tt = (z1 * z2) * (z1 * z2)
    Wt = tt * (z1 * z2)
    identity("af_u1", ["x1", "z1", "z2"], subst(af1["u1"], par2), x1 * tt)
    identity("af_u2", ["x2", "z1", "z2"], subst(af1["u2"], par2), x2 * tt)
    identity("af_s1", ["y1", "z1", "z2"], subst(af1["s1"], par2), y1 * Wt)
    identity("af_s2", ["y2", "z1", "z2"], subst(af1["s2"], par2), y2 * Wt)
    af2 = program("af2", ["u1", "s1", "t5", "h", "r", "Z1", "Z2"], [
        ("r2", "mul", "r", "r"), ("t7a", "mul", "h", "Z1"), ("z3", "mul", "t7a", "Z2"), ("h2", "mul", "h", "h"), ("t5b", "mul", "t5", "h2"),
        ("h3", "mul", "h", "h2"), ("v", "mul", "u1", "h2"), ("x3", "sub", "r2", "t5b"), ("t4b", "sub", "v", "x3"), ("y3a", "mul", "r", "t4b"),
        ("s1h", "mul", "s1", "h3"), ("y3", "sub", "y3a", "s1h")], ["x3", "y3", "z3"],
        doc="twist_point_add_full: the generic branch")
    dxv, dyv, ttv = V("dxv", "dyv", "ttv")
    # in terms of t = z1 z2 (a variable here) and of the differences dxv = x2 - x1, dyv = y2 - y1 (variables here)
    tq = t * t; Wq = tq * t
    par3 = {"u1p": x1 * tq, "s1p": y1 * Wq, "t5p": x2 * tq + x1 * tq, "hp": dxv * tq, "rp": dyv * Wq}
    identity("af_z", ["dxv", "z1", "z2"], ((dxv * tt) * z1) * z2, dxv * Wt)
    gx3n = dyv * dyv - (x1 + x2) * ((x2 - x1) * (x2 - x1))
    identity("af_x", ["x1", "x2", "dyv", "t"], subst(af2["x3"], dict(par3, hp=(x2 - x1) * tq)), gx3n * (Wq * Wq))
    Y3v = par3["rp"] * (par3["u1p"] * (par3["hp"] * par3["hp"]) - x3nv * (Wq * Wq)) - par3["s1p"] * (par3["hp"] * (par3["hp"] * par3["hp"]))
    identity("af_y", ["x1", "y1", "dxv", "dyv", "x3nv", "t"], Y3v, (dyv * (x1 * (dxv * dxv) - x3nv) - y1 * (dxv * dxv * dxv)) * (Wq * Wq * Wq))
    AF = dict(af1=af1, af2=af2, par2=par2, par3=par3)

    # ---------------------------------------------------------------- TwistPoint::point_add (mixed addition: the second operand is affine, z2 == 1)
    ma1 = program("ma1", ["X1", "Y1", "Z1", "X2", "Y2"], [
        ("t1", "mul", "Z1", "Z1"), ("t2", "mul", "t1", "Z1"), ("u", "mul", "t1", "X2"), ("s", "mul", "t2", "Y2"), ("h", "sub", "u", "X1"), ("r", "sub", "s", "Y1")],
        ["h", "r"], doc="TwistPoint::point_add with rhs.z == 1, both operands finite: the differences")
    parm = {"X1p": x1 * z * z, "Y1p": y1 * z * z * z, "Z1p": z, "X2p": x2, "Y2p": y2}
    zz = z * z; Wm = zz * z
    identity("ma_h", ["x1", "x2", "z"], subst(ma1["h"], parm), (x2 - x1) * zz)
    identity("ma_r", ["y1", "y2", "z"], subst(ma1["r"], parm), (y2 - y1) * Wm)
    ma2 = program("ma2", ["h", "r", "X1", "Y1", "Z1"], [
        ("z3", "mul", "Z1", "h"), ("h2", "mul", "h", "h"), ("h3", "mul", "h2", "h"), ("v", "mul", "h2", "X1"), ("v2", "add", "v", "v"), ("r2", "mul", "r", "r"),
        ("xa", "sub", "r2", "v2"), ("x3", "sub", "xa", "h3"), ("t3b", "sub", "v", "x3"), ("t3c", "mul", "t3b", "r"), ("t4b", "mul", "h3", "Y1"), ("y3", "sub", "t3c", "t4b")],
        ["x3", "y3", "z3"], doc="TwistPoint::point_add: the generic branch")
    parm2 = {"hp": dxv * zz, "rp": dyv * Wm, "X1p": x1 * z * z, "Y1p": y1 * z * z * z, "Z1p": z}
    identity("ma_z", ["dxv", "z"], subst(ma2["z3"], parm2), dxv * Wm)
    identity("ma_x", ["x1", "x2", "dyv", "z"], subst(ma2["x3"], dict(parm2, hp=(x2 - x1) * zz)), gx3n * (Wm * Wm))
    hp = parm2["hp"]
    vq = (hp * hp) * (x1 * z * z)
    Y3m = (vq - x3nv * (Wm * Wm)) * parm2["rp"] - ((hp * hp) * hp) * (y1 * z * z * z)
    identity("ma_y", ["x1", "y1", "dxv", "dyv", "x3nv", "z"], Y3m, (dyv * (x1 * (dxv * dxv) - x3nv) - y1 * (dxv * dxv * dxv)) * (Wm * Wm * Wm))

    # ---------------------------------------------------------------- point_equals: the cross products
    eq = program("eq", ["X1", "Y1", "Z1", "X2", "Y2", "Z2"], [
        ("t1", "mul", "Z1", "Z1"), ("t2", "mul", "Z2", "Z2"), ("t3", "mul", "X1", "t2"), ("t4", "mul", "X2", "t1"),
        ("t1c", "mul", "t1", "Z1"), ("t2c", "mul", "t2", "Z2"), ("t3b", "mul", "Y1", "t2c"), ("t4b", "mul", "Y2", "t1c")], ["t3", "t4", "t3b", "t4b"],
        doc="TwistPoint::point_equals: the cross-multiplied coordinates")
    identity("eq_s1", ["y1", "z1", "z2"], subst(eq["t3b"], par2), y1 * Wt)
    identity("eq_s2", ["y2", "z1", "z2"], subst(eq["t4b"], par2), y2 * Wt)
    zero = C(0)
    identity("neg3", ["y", "zi"], (zero - y) * zi * zi * zi, zero - y * zi * zi * zi)
    identity("negsq", ["y"], (zero - y) * (zero - y), y * y)
    curve_lemmas(TAN, CH, DBL, AF, dict(ma1=ma1, ma2=ma2, parm=parm, parm2=parm2, zz=zz, Wm=Wm), dict(eq=eq, par2=par2, tt=tt, Wt=Wt))
    return

def R(e, **m):
    """render with variables renamed / replaced: m maps variable name -> Verus text (an F2 expression)"""
    return subst(e, {k: E("v", v) for k, v in m.items()}).q()

def lemma(text): OUT.append(text.strip("\n"))

def curve_lemmas(TAN, CH, DBL, AF, MA, EQ):
    xa, ya, x, y, z, zi, a, b, w, lam, n, d, dd, W, s = V("xa", "ya", "x", "y", "z", "zi", "a", "b", "w", "lam", "n", "d", "dd", "W", "s")
    x1, y1, x2, y2, z1, z2, t = V("x1", "y1", "x2", "y2", "z1", "z2", "t")
    q = lambda e: e.q()
    # ---------------------------------------------------------------- Jacobian <-> affine
    lemma(f"""
// affine coordinates xa = x / z^2, ya = y / z^3 give back x == xa z^2, y == ya z^3 (mod p)
proof fn cv_param(x: F2, y: F2, z: F2, zi: F2, xa: F2, ya: F2)
    requires qc(q_mul(z, zi), q_c(1)), xa == m2_mul(m2_mul(x, zi), zi), ya == m2_mul(m2_mul(m2_mul(y, zi), zi), zi)
    ensures qc(x, {q(xa*z*z)}), qc(y, {q(ya*z*z*z)}), m2_ok(xa), m2_ok(ya)
{{
    let a1 = m2_mul(x, zi); t2_cm(a1, x, zi, x, zi); t2_cm(xa, a1, zi, {q(x*zi)}, zi);
    let b1 = m2_mul(y, zi); t2_cm(b1, y, zi, y, zi); let b2 = m2_mul(b1, zi); t2_cm(b2, b1, zi, {q(y*zi)}, zi); t2_cm(ya, b2, zi, {q(y*zi*zi)}, zi);
    t2_diff(xa, {q(x*zi*zi)}); t2_diff(ya, {q(y*zi*zi*zi)}); t2_diff({q(z*zi)}, q_c(1));
    qr_par2(xa, x, z, zi);
    t2_lin2({q(xa - x*zi*zi)}, {q(z*z)}, {q(z*zi - one)}, {q(x*(z*zi + one))});
    t2_diff({q(xa*z*z)}, x);
    qr_par3(ya, y, z, zi);
    t2_lin2({q(ya - y*zi*zi*zi)}, {q(z*z*z)}, {q(z*zi - one)}, {q(y*(z*zi*(z*zi) + z*zi + one))});
    t2_diff({q(ya*z*z*z)}, y);
}}
// dividing by z^2 and z^3
proof fn cv_div2(a: F2, b: F2, z: F2, w: F2) requires qc(a, {q(b*(z*z))}), qc({q(z*w)}, q_c(1)) ensures qc({q(a*w*w)}, b)
{{
    t2_diff(a, {q(b*(z*z))}); t2_diff({q(z*w)}, q_c(1));
    qr_div2(a, b, z, w);
    t2_lin2({q(a - b*(z*z))}, {q(w*w)}, {q(z*w - one)}, {q(b*(z*w + one))});
    t2_diff({q(a*w*w)}, b);
}}
proof fn cv_div3(a: F2, b: F2, z: F2, w: F2) requires qc(a, {q(b*(z*z*z))}), qc({q(z*w)}, q_c(1)) ensures qc({q(a*w*w*w)}, b)
{{
    t2_diff(a, {q(b*(z*z*z))}); t2_diff({q(z*w)}, q_c(1));
    qr_div3(a, b, z, w);
    t2_lin2({q(a - b*(z*z*z))}, {q(w*w*w)}, {q(z*w - one)}, {q(b*(z*w*(z*w) + z*w + one))});
    t2_diff({q(a*w*w*w)}, b);
}}
// lam == n / d (mod p) gives lam d == n
proof fn cv_slope(lam: F2, n: F2, d: F2, dd: F2) requires qc(lam, {q(n*dd)}), qc({q(d*dd)}, q_c(1)) ensures qz({q(lam*d - n)})
{{
    t2_diff(lam, {q(n*dd)}); t2_diff({q(d*dd)}, q_c(1));
    qr_slope(lam, n, d, dd);
    t2_lin2({q(lam - n*dd)}, d, {q(d*dd - one)}, n);
}}
// (x3, y3, z3) with x3 == sx zf^2, y3 == sy zf^3, z3 == zf != 0 denotes the affine point (sx, sy)
proof fn cv_affine(x3: F2, y3: F2, z3: F2, sx: F2, sy: F2, zf: F2)
    requires m2_ok(sx), m2_ok(sy), m2_ok(z3), !qz(z3), qc(z3, zf), qc(x3, {R(a*(z*z), a="sx", z="zf")}), qc(y3, {R(a*(z*z*z), a="sy", z="zf")})
    ensures jac2(x3, y3, z3) == (Pt2::Aff {{ x: sx, y: sy }})
{{
    let w = m2_inv(z3);
    t2_inv(z3); t2_zero(z3);
    t2_cong_mul(z3, zf, w);
    cv_div2(x3, sx, zf, w);
    let r1 = m2_mul(x3, w); t2_cm(r1, x3, w, x3, w); let r2 = m2_mul(r1, w); t2_cm(r2, r1, w, q_mul(x3, w), w);
    t2_ok_eq(r2, sx);
    cv_div3(y3, sy, zf, w);
    let s1 = m2_mul(y3, w); t2_cm(s1, y3, w, y3, w); let s2 = m2_mul(s1, w); t2_cm(s2, s1, w, q_mul(y3, w), w);
    let s3 = m2_mul(s2, w); t2_cm(s3, s2, w, q_mul(q_mul(y3, w), w), w);
    t2_ok_eq(s3, sy);
}}
""")
    # ---------------------------------------------------------------- tangent
    T = TAN["T"]; Y2 = TAN["Y2"]; Zf = TAN["Zf"]; x3n = TAN["x3n"]; y3n = TAN["y3n"]; e = TAN["e"]
    SX = lam * lam - xa - xa
    sx = V("sx")
    tt_ = lam * (xa - sx) - ya
    sb = {"s": sx}
    lemma(f"""
// the tangent law: (x3n W^2, y3n W^3, 2 ya W) is twice the affine point (xa, ya), ya != 0, for any scale W != 0
proof fn cv_tangent(xa: F2, ya: F2, W: F2, x3: F2, y3: F2, z3: F2)
    requires m2_ok(xa), m2_ok(ya), m2_ok(x3), m2_ok(y3), m2_ok(z3), !qz(W), ya != m2_zero(),
        qc(z3, {q(Zf)}), qc(x3, {q(x3n*(W*W))}), qc(y3, {q(y3n*(W*W*W))})
    ensures z3 != m2_zero(), jac2(x3, y3, z3) == g2_add(Pt2::Aff {{ x: xa, y: ya }}, Pt2::Aff {{ x: xa, y: ya }})
{{
    t2_zero(ya); t2_dbl_z(ya);
    let y2r = m2_add(ya, ya); t2_ca(y2r, ya, ya, ya, ya); t2_zero(y2r);
    let dd = m2_inv(y2r); t2_inv(y2r); t2_cong_mul(y2r, {q(Y2)}, dd);
    let xx = m2_mul(xa, xa); t2_cm(xx, xa, xa, xa, xa); let t1 = m2_add(xx, xx); t2_ca(t1, xx, xx, {q(xa*xa)}, {q(xa*xa)});
    let tr = m2_add(t1, xx); t2_ca(tr, t1, xx, {q(xa*xa + xa*xa)}, {q(xa*xa)});
    let lam = m2_mul(tr, dd); t2_cm(lam, tr, dd, {q(T)}, dd);
    cv_slope(lam, {q(T)}, {q(Y2)}, dd);
    t2_nz_mul({q(Y2)}, W); t2_zero(z3);
    // x
    let l2 = m2_mul(lam, lam); t2_cm(l2, lam, lam, lam, lam); let sa = m2_sub(l2, xa); t2_cs(sa, l2, xa, {q(lam*lam)}, xa);
    let sx = m2_sub(sa, xa); t2_cs(sx, sa, xa, {q(lam*lam - xa)}, xa);
    qr_tan_x(xa, ya, lam, W);
    t2_lin1({q(e)}, {q(TAN["K"])});
    t2_diff({q(SX*(Zf*Zf))}, {q(x3n*(W*W))});
    t2_cong_mul(sx, {q(SX)}, {q(Zf*Zf)});
    // y
    let xs = m2_sub(xa, sx); t2_cs(xs, xa, sx, xa, sx); let ly = m2_mul(lam, xs); t2_cm(ly, lam, xs, lam, {q(xa - sx)});
    let sy = m2_sub(ly, ya); t2_cs(sy, ly, ya, {q(lam*(xa - sx))}, ya);
    t2_diff({q(sx*(Zf*Zf))}, {q(x3n*(W*W))});
    qr_tan_y(xa, ya, lam, sx, W);
    t2_lin2({q(e)}, {q(TAN["K2"])}, {q(subst(TAN["e2"], sb))}, {q(lam*Zf)});
    t2_diff({q(tt_*(Zf*Zf*Zf))}, {q(y3n*(W*W*W))});
    t2_cong_mul(sy, {q(tt_)}, {q(Zf*Zf*Zf)});
    cv_affine(x3, y3, z3, sx, sy, {q(Zf)});
}}
""")
    # ---------------------------------------------------------------- chord
    dx = CH["dx"]; dy = CH["dy"]; cZf = CH["Zf"]; cx3n = CH["x3n"]; cy3n = CH["y3n"]; ce = CH["e"]
    CSX = lam * lam - x1 - x2
    ctt = lam * (x1 - sx) - y1
    lemma(f"""
// the chord law: (x3n W^2, y3n W^3, (x2 - x1) W) is the sum of the affine points (x1, y1), (x2, y2), x1 != x2, for any scale W != 0
proof fn cv_chord(x1: F2, y1: F2, x2: F2, y2: F2, W: F2, x3: F2, y3: F2, z3: F2)
    requires m2_ok(x1), m2_ok(y1), m2_ok(x2), m2_ok(y2), m2_ok(x3), m2_ok(y3), m2_ok(z3), !qz(W), x1 != x2,
        qc(z3, {q(cZf)}), qc(x3, {q(cx3n*(W*W))}), qc(y3, {q(cy3n*(W*W*W))})
    ensures z3 != m2_zero(), jac2(x3, y3, z3) == g2_add(Pt2::Aff {{ x: x1, y: y1 }}, Pt2::Aff {{ x: x2, y: y2 }})
{{
    let dxr = m2_sub(x2, x1); t2_cs(dxr, x2, x1, x2, x1); t2_diff(x2, x1);
    if qc(x2, x1) {{ t2_ok_eq(x2, x1); }}
    let dyr = m2_sub(y2, y1); t2_cs(dyr, y2, y1, y2, y1);
    let dd = m2_inv(dxr); t2_inv(dxr); t2_cong_mul(dxr, {q(dx)}, dd);
    let lam = m2_mul(dyr, dd); t2_cm(lam, dyr, dd, {q(dy)}, dd);
    cv_slope(lam, {q(dy)}, {q(dx)}, dd);
    t2_nz_mul({q(dx)}, W); t2_zero(z3);
    // x
    let l2 = m2_mul(lam, lam); t2_cm(l2, lam, lam, lam, lam); let sa = m2_sub(l2, x1); t2_cs(sa, l2, x1, {q(lam*lam)}, x1);
    let sx = m2_sub(sa, x2); t2_cs(sx, sa, x2, {q(lam*lam - x1)}, x2);
    qr_chord_x(x1, y1, x2, y2, lam, W);
    t2_lin1({q(ce)}, {q(CH["K"])});
    t2_diff({q(CSX*(cZf*cZf))}, {q(cx3n*(W*W))});
    t2_cong_mul(sx, {q(CSX)}, {q(cZf*cZf)});
    // y
    let xs = m2_sub(x1, sx); t2_cs(xs, x1, sx, x1, sx); let ly = m2_mul(lam, xs); t2_cm(ly, lam, xs, lam, {q(x1 - sx)});
    let sy = m2_sub(ly, y1); t2_cs(sy, ly, y1, {q(lam*(x1 - sx))}, y1);
    t2_diff({q(sx*(cZf*cZf))}, {q(cx3n*(W*W))});
    qr_chord_y(x1, y1, x2, y2, lam, sx, W);
    t2_lin2({q(ce)}, {q(CH["K2"])}, {q(subst(CH["e2"], sb))}, {q(lam*cZf)});
    t2_diff({q(ctt*(cZf*cZf*cZf))}, {q(cy3n*(W*W*W))});
    t2_cong_mul(sy, {q(ctt)}, {q(cZf*cZf*cZf)});
    cv_affine(x3, y3, z3, sx, sy, {q(cZf)});
}}
""")

    # ---------------------------------------------------------------- point_double against the tangent law
    P = PROGS["dbl"]; allv = ", ".join(P["inputs"] + P["vals"]); sig = ", ".join("%s: F2" % v for v in P["inputs"] + P["vals"])
    Z = V("Z")
    rn = dict(xa="xa", ya="ya", z="Z")
    Wd = DBL["W"]
    lemma(f"""
// TwistPoint::point_double on a finite Jacobian point is the tangent law (a point of order two doubles to infinity: z3 == 0)
proof fn cv_dbl({sig})
    requires m2_ok(X), m2_ok(Y), m2_ok(Z), Z != m2_zero(), dbl_rel({allv})
    ensures m2_ok(x3), m2_ok(y3), m2_ok(z3), jac2(x3, y3, z3) == g2_add(jac2(X, Y, Z), jac2(X, Y, Z))
{{
    t2_zero(Z);
    let zi = m2_inv(Z); t2_inv(Z);
    let xa = m2_mul(m2_mul(X, zi), zi); let ya = m2_mul(m2_mul(m2_mul(Y, zi), zi), zi);
    cv_param(X, Y, Z, zi, xa, ya);
    dbl_chain({allv}, {R(DBL["par"]["Xp"], **rn)}, {R(DBL["par"]["Yp"], **rn)}, Z);
    qr_dF_m(xa, Z); qr_dF_s(xa, ya, Z); qr_dF_d(ya, Z); qr_dF_z(ya, Z);
    let W = {R(Wd, **rn)};
    qr_dG_x({q(TAN["T"])}, {q(TAN["S4"])}, W);
    qr_dG_y({q(TAN["T"])}, {q(TAN["S4"])}, {q(TAN["x3n"])}, {q(TAN["D8"])}, W);
    t2_nz_mul(Z, Z); t2_nz_mul(q_mul(Z, Z), q_mul(Z, Z));
    if ya == m2_zero() {{
        t2_zero(ya); t2_dbl_z(ya); t2_lin1({q(TAN["Y2"])}, W); t2_zero(z3);
        let y2r = m2_add(ya, ya); t2_ca(y2r, ya, ya, ya, ya); t2_zero(y2r);
    }} else {{
        cv_tangent(xa, ya, W, x3, y3, z3);
    }}
}}
""")
    # ---------------------------------------------------------------- helpers
    lemma(f"""
// ra == a k, rb == b k with k != 0: the reduced values are equal exactly when a and b are
proof fn cv_scaled_eq(a: F2, b: F2, k: F2, ra: F2, rb: F2)
    requires m2_ok(a), m2_ok(b), m2_ok(ra), m2_ok(rb), !qz(k), qc(ra, q_mul(a, k)), qc(rb, q_mul(b, k))
    ensures (ra == rb) == (a == b)
{{
    if ra == rb {{
        t2_diff(q_mul(a, k), q_mul(b, k));
        qr_dist(a, b, k);
        t2_diff(a, b);
        if !qz(q_sub(a, b)) {{ t2_nz_mul(q_sub(a, b), k); }}
        t2_ok_eq(a, b);
    }}
    if a == b {{ t2_ok_eq(ra, rb); }}
}}
// r == (a - b) k with k != 0: r vanishes exactly when a == b;   r == (a + b) k: exactly when a + b == 0
proof fn cv_scaled_diff(a: F2, b: F2, k: F2, r: F2)
    requires m2_ok(a), m2_ok(b), m2_ok(r), !qz(k)
    ensures qc(r, q_mul(q_sub(a, b), k)) ==> (r == m2_zero()) == (a == b), qc(r, q_mul(q_add(a, b), k)) ==> (r == m2_zero()) == (m2_add(a, b) == m2_zero())
{{
    t2_zero(r);
    if qc(r, q_mul(q_sub(a, b), k)) {{
        t2_diff(a, b);
        if qz(q_sub(a, b)) {{ t2_lin1(q_sub(a, b), k); t2_ok_eq(a, b); }} else {{ t2_nz_mul(q_sub(a, b), k); }}
    }}
    if qc(r, q_mul(q_add(a, b), k)) {{
        let ys = m2_add(a, b); t2_ca(ys, a, b, a, b); t2_zero(ys);
        if qz(q_add(a, b)) {{ t2_lin1(q_add(a, b), k); }} else {{ t2_nz_mul(q_add(a, b), k); }}
    }}
}}
// two points of the curve with the same x are equal or opposite
proof fn cv_same_x(x: F2, y1: F2, y2: F2)
    requires on_curve2(Pt2::Aff {{ x: x, y: y1 }}), on_curve2(Pt2::Aff {{ x: x, y: y2 }}), y1 != y2
    ensures m2_add(y1, y2) == m2_zero()
{{
    let s1 = m2_mul(y1, y1); let s2 = m2_mul(y2, y2);
    t2_cm(s1, y1, y1, y1, y1); t2_cm(s2, y2, y2, y2, y2);
    t2_diff(q_mul(y1, y1), q_mul(y2, y2));
    qr_sqdiff(y1, y2);
    t2_diff(y1, y2);
    if qc(y1, y2) {{ t2_ok_eq(y1, y2); }}
    if !qz(q_add(y1, y2)) {{ t2_nz_mul(q_sub(y1, y2), q_add(y1, y2)); }}
    let ys = m2_add(y1, y2); t2_ca(ys, y1, y2, y1, y2); t2_zero(ys);
}}
// (X, -Y, Z) denotes the opposite point
proof fn cv_neg(X: F2, Y: F2, Z: F2, ny: F2)
    requires m2_ok(X), m2_ok(Y), m2_ok(Z), ny == m2_neg(Y)
    ensures m2_ok(ny), jac2(X, ny, Z) == g2_neg(jac2(X, Y, Z)), on_curve2(jac2(X, Y, Z)) ==> on_curve2(jac2(X, ny, Z))
{{
    t2_cn(ny, Y, Y);
    if Z != m2_zero() {{
        let zi = m2_inv(Z);
        let b1 = m2_mul(Y, zi); t2_cm(b1, Y, zi, Y, zi); let b2 = m2_mul(b1, zi); t2_cm(b2, b1, zi, q_mul(Y, zi), zi);
        let ya = m2_mul(b2, zi); t2_cm(ya, b2, zi, q_mul(q_mul(Y, zi), zi), zi);
        let c1 = m2_mul(ny, zi); t2_cm(c1, ny, zi, q_sub(q_c(0), Y), zi); let c2 = m2_mul(c1, zi); t2_cm(c2, c1, zi, q_mul(q_sub(q_c(0), Y), zi), zi);
        let na = m2_mul(c2, zi); t2_cm(na, c2, zi, q_mul(q_mul(q_sub(q_c(0), Y), zi), zi), zi);
        qr_neg3(Y, zi);
        let nb = m2_neg(ya); t2_cn(nb, ya, ya);
        t2_cong_add(q_c(0), q_c(0), ya, q_mul(q_mul(q_mul(Y, zi), zi), zi));
        t2_ok_eq(na, nb);
        // the square of the y coordinate is unchanged
        let sq = m2_mul(ya, ya); t2_cm(sq, ya, ya, ya, ya);
        let nsq = m2_mul(nb, nb); t2_cm(nsq, nb, nb, q_sub(q_c(0), ya), q_sub(q_c(0), ya));
        qr_negsq(ya);
        t2_ok_eq(sq, nsq);
        let xz = m2_mul(X, zi); t2_cm(xz, X, zi, X, zi); let xq = m2_mul(xz, zi); t2_cm(xq, xz, zi, q_mul(X, zi), zi);
    }}
}}
""")
    # ---------------------------------------------------------------- twist_point_add_full
    P1 = PROGS["af1"]; P2 = PROGS["af2"]
    sig1 = ", ".join("%s: F2" % v for v in P1["inputs"] + P1["vals"]); all1 = ", ".join(P1["inputs"] + P1["vals"])
    sig2 = ", ".join("%s: F2" % v for v in P2["vals"]); all2 = ", ".join(P2["inputs"] + P2["vals"])
    aff = """let zi1 = m2_inv(Z1); let x1 = m2_mul(m2_mul(X1, zi1), zi1); let y1 = m2_mul(m2_mul(m2_mul(Y1, zi1), zi1), zi1);
        let zi2 = m2_inv(Z2); let x2 = m2_mul(m2_mul(X2, zi2), zi2); let y2 = m2_mul(m2_mul(m2_mul(Y2, zi2), zi2), zi2);
        let t = q_mul(Z1, Z2); let tq = q_mul(t, t); let wq = q_mul(tq, t);"""
    rn2 = dict(x1="x1", y1="y1", x2="x2", y2="y2", z1="Z1", z2="Z2")
    par2 = AF["par2"]
    tq, wq, dxq, dyq = V("tq", "wq", "dxq", "dyq")
    lemma(f"""
// twist_point_add_full, both operands finite: the cross-multiplied coordinates in terms of the affine coordinates and t = z1 z2; the case distinction
proof fn cv_af1({sig1})
    requires m2_ok(X1), m2_ok(Y1), m2_ok(Z1), m2_ok(X2), m2_ok(Y2), m2_ok(Z2), Z1 != m2_zero(), Z2 != m2_zero(), af1_rel({all1})
    ensures ({{
        {aff}
        m2_ok(x1) && m2_ok(y1) && m2_ok(x2) && m2_ok(y2) && jac2(X1, Y1, Z1) == (Pt2::Aff {{ x: x1, y: y1 }}) && jac2(X2, Y2, Z2) == (Pt2::Aff {{ x: x2, y: y2 }})
        && !qz(t) && !qz(tq) && !qz(wq)
        && qc(u1, {q(x1*tq)}) && qc(u2, {q(x2*tq)}) && qc(s1, {q(y1*wq)}) && qc(s2, {q(y2*wq)}) && qc(t5, {q(x2*tq + x1*tq)})
        && qc(h, {q((x2 - x1)*tq)}) && qc(r, {q((y2 - y1)*wq)})
        && m2_ok(u1) && m2_ok(u2) && m2_ok(s1) && m2_ok(s2) && m2_ok(t5) && m2_ok(h) && m2_ok(r) && m2_ok(t6)
        && (h == m2_zero()) == (x1 == x2) && (r == m2_zero()) == (y1 == y2) && (t6 == m2_zero()) == (m2_add(y1, y2) == m2_zero()) }})
{{
    {aff}
    t2_zero(Z1); t2_zero(Z2); t2_inv(Z1); t2_inv(Z2);
    cv_param(X1, Y1, Z1, zi1, x1, y1); cv_param(X2, Y2, Z2, zi2, x2, y2);
    af1_chain({all1}, {R(par2["X1p"], **rn2)}, {R(par2["Y1p"], **rn2)}, Z1, {R(par2["X2p"], **rn2)}, {R(par2["Y2p"], **rn2)}, Z2);
    qr_af_u1(x1, Z1, Z2); qr_af_u2(x2, Z1, Z2); qr_af_s1(y1, Z1, Z2); qr_af_s2(y2, Z1, Z2);
    qr_dist(x2, x1, tq); qr_dist(y2, y1, wq); qr_dista(y2, y1, wq);
    t2_nz_mul(Z1, Z2); t2_nz_mul(t, t); t2_nz_mul(tq, t);
    cv_scaled_diff(x2, x1, tq, h); cv_scaled_diff(y2, y1, wq, r); cv_scaled_diff(y2, y1, wq, t6);
}}
// the generic branch (the affine x coordinates differ) is the chord law
proof fn cv_af2({sig1}, {sig2})
    requires m2_ok(X1), m2_ok(Y1), m2_ok(Z1), m2_ok(X2), m2_ok(Y2), m2_ok(Z2), Z1 != m2_zero(), Z2 != m2_zero(), af1_rel({all1}), af2_rel({all2}),
        h != m2_zero()
    ensures m2_ok(x3), m2_ok(y3), m2_ok(z3), z3 != m2_zero(), jac2(x3, y3, z3) == g2_add(jac2(X1, Y1, Z1), jac2(X2, Y2, Z2))
{{
    {aff}
    cv_af1({all1});
    let dxq = q_sub(x2, x1); let dyq = q_sub(y2, y1);
    af2_chain({all2}, {q(x1*tq)}, {q(y1*wq)}, {q(x2*tq + x1*tq)}, {q(dxq*tq)}, {q(dyq*wq)}, Z1, Z2);
    qr_af_z(dxq, Z1, Z2);
    qr_af_x(x1, x2, dyq, t);
    qr_af_y(x1, y1, dxq, dyq, {R(CH["x3n"])}, t);
    cv_chord(x1, y1, x2, y2, wq, x3, y3, z3);
}}
// opposite points (same x, different y): the generic formulas give z3 == 0, and the sum is the point at infinity
proof fn cv_af_opp({sig1}, t7a: F2, z3: F2)
    requires m2_ok(X1), m2_ok(Y1), m2_ok(Z1), m2_ok(X2), m2_ok(Y2), m2_ok(Z2), Z1 != m2_zero(), Z2 != m2_zero(), af1_rel({all1}),
        on_curve2(jac2(X1, Y1, Z1)), on_curve2(jac2(X2, Y2, Z2)), h == m2_zero(), r != m2_zero(), t7a == m2_mul(h, Z1), z3 == m2_mul(t7a, Z2)
    ensures z3 == m2_zero(), g2_add(jac2(X1, Y1, Z1), jac2(X2, Y2, Z2)) == Pt2::Inf
{{
    {aff}
    cv_af1({all1});
    cv_same_x(x1, y1, y2);
    f2_pos(); f2_small(0);
    assert(0 * Z1.c0 - 2 * (0 * Z1.c1) == 0 && 0 * Z1.c1 + 0 * Z1.c0 == 0);
    assert(0 * Z2.c0 - 2 * (0 * Z2.c1) == 0 && 0 * Z2.c1 + 0 * Z2.c0 == 0);
}}
// both differences vanish: the operands denote the same point;  r == 0 and t6 == 0 cannot happen on the curve (it has no point with y == 0)
proof fn cv_af_same({sig1})
    requires m2_ok(X1), m2_ok(Y1), m2_ok(Z1), m2_ok(X2), m2_ok(Y2), m2_ok(Z2), Z1 != m2_zero(), Z2 != m2_zero(), af1_rel({all1}),
        on_curve2(jac2(X1, Y1, Z1)), on_curve2(jac2(X2, Y2, Z2))
    ensures h == m2_zero() && r == m2_zero() ==> jac2(X1, Y1, Z1) == jac2(X2, Y2, Z2), !(r == m2_zero() && t6 == m2_zero())
{{
    {aff}
    cv_af1({all1});
    if r == m2_zero() && t6 == m2_zero() {{
        g2_y_nz(x1, y1);
        t2_zero(y1); t2_dbl_z(y1);
        let ys = m2_add(y1, y1); t2_ca(ys, y1, y1, y1, y1); t2_zero(ys);
    }}
}}
""")
    # ---------------------------------------------------------------- TwistPoint::point_add (mixed)
    M1 = PROGS["ma1"]; M2 = PROGS["ma2"]
    sgm1 = ", ".join("%s: F2" % v for v in M1["inputs"] + M1["vals"]); allm1 = ", ".join(M1["inputs"] + M1["vals"])
    sgm2 = ", ".join("%s: F2" % v for v in M2["vals"]); allm2 = ", ".join(M2["inputs"] + M2["vals"])
    affm = """let zi1 = m2_inv(Z1); let x1 = m2_mul(m2_mul(X1, zi1), zi1); let y1 = m2_mul(m2_mul(m2_mul(Y1, zi1), zi1), zi1);
        let zq = q_mul(Z1, Z1); let wq = q_mul(zq, Z1);"""
    rnm = dict(x1="x1", y1="y1", x2="X2", y2="Y2", z="Z1")
    parm = MA["parm"]
    zq = V("zq")
    x2m, y2m = V("X2", "Y2")
    lemma(f"""
// TwistPoint::point_add (the second operand is affine: rhs.z == 1), both operands finite: the differences and the case distinction
proof fn cv_ma1({sgm1})
    requires m2_ok(X1), m2_ok(Y1), m2_ok(Z1), m2_ok(X2), m2_ok(Y2), Z1 != m2_zero(), ma1_rel({allm1})
    ensures ({{
        {affm}
        m2_ok(x1) && m2_ok(y1) && jac2(X1, Y1, Z1) == (Pt2::Aff {{ x: x1, y: y1 }}) && !qz(zq) && !qz(wq)
        && qc(h, {q((x2m - x1)*zq)}) && qc(r, {q((y2m - y1)*wq)}) && m2_ok(h) && m2_ok(r)
        && (h == m2_zero()) == (x1 == X2) && (r == m2_zero()) == (y1 == Y2) }})
{{
    {affm}
    t2_zero(Z1); t2_inv(Z1);
    cv_param(X1, Y1, Z1, zi1, x1, y1);
    ma1_chain({allm1}, {R(parm["X1p"], **rnm)}, {R(parm["Y1p"], **rnm)}, Z1, X2, Y2);
    qr_ma_h(x1, X2, Z1); qr_ma_r(y1, Y2, Z1);
    t2_nz_mul(Z1, Z1); t2_nz_mul(zq, Z1);
    cv_scaled_diff(X2, x1, zq, h); cv_scaled_diff(Y2, y1, wq, r);
}}
proof fn cv_ma2({sgm1}, {sgm2})
    requires m2_ok(X1), m2_ok(Y1), m2_ok(Z1), m2_ok(X2), m2_ok(Y2), Z1 != m2_zero(), ma1_rel({allm1}), ma2_rel({allm2}), h != m2_zero()
    ensures m2_ok(x3), m2_ok(y3), m2_ok(z3), z3 != m2_zero(), jac2(x3, y3, z3) == g2_add(jac2(X1, Y1, Z1), Pt2::Aff {{ x: X2, y: Y2 }})
{{
    {affm}
    cv_ma1({allm1});
    t2_zero(Z1); t2_inv(Z1);
    cv_param(X1, Y1, Z1, zi1, x1, y1);
    let dxq = q_sub(X2, x1); let dyq = q_sub(Y2, y1);
    ma2_chain({allm2}, {q(dxq*zq)}, {q(dyq*wq)}, {R(parm["X1p"], **rnm)}, {R(parm["Y1p"], **rnm)}, Z1);
    qr_ma_z(dxq, Z1);
    qr_ma_x(x1, X2, dyq, Z1);
    qr_ma_y(x1, y1, dxq, dyq, {R(CH["x3n"], x2="X2", y2="Y2")}, Z1);
    cv_chord(x1, y1, X2, Y2, wq, x3, y3, z3);
}}
""")
    # ---------------------------------------------------------------- point_equals
    PE = PROGS["eq"]
    sge = ", ".join("%s: F2" % v for v in PE["inputs"] + PE["vals"]); alle = ", ".join(PE["inputs"] + PE["vals"])
    lemma(f"""
// TwistPoint::point_equals, both operands finite: each comparison of cross products compares one affine coordinate
proof fn cv_eq({sge})
    requires m2_ok(X1), m2_ok(Y1), m2_ok(Z1), m2_ok(X2), m2_ok(Y2), m2_ok(Z2), Z1 != m2_zero(), Z2 != m2_zero(), eq_rel({alle})
    ensures (t3 == t4) == (pt2_x(jac2(X1, Y1, Z1)) == pt2_x(jac2(X2, Y2, Z2))), (t3b == t4b) == (pt2_y(jac2(X1, Y1, Z1)) == pt2_y(jac2(X2, Y2, Z2)))
{{
    {aff}
    t2_zero(Z1); t2_zero(Z2); t2_inv(Z1); t2_inv(Z2);
    cv_param(X1, Y1, Z1, zi1, x1, y1); cv_param(X2, Y2, Z2, zi2, x2, y2);
    eq_chain({alle}, {R(par2["X1p"], **rn2)}, {R(par2["Y1p"], **rn2)}, Z1, {R(par2["X2p"], **rn2)}, {R(par2["Y2p"], **rn2)}, Z2);
    qr_af_u1(x1, Z1, Z2); qr_af_u2(x2, Z1, Z2); qr_eq_s1(y1, Z1, Z2); qr_eq_s2(y2, Z1, Z2);
    t2_nz_mul(Z1, Z2); t2_nz_mul(t, t); t2_nz_mul(tq, t);
    cv_scaled_eq(x1, x2, tq, t3, t4); cv_scaled_eq(y1, y2, wq, t3b, t4b);
}}
""")

def main():
    build()
    text = "\n".join(OUT) + "\n"
    p = os.path.join(VERIF, "units", "sm9_g2.rs")
    s = open(p).read()
    b = s.index("// BEGIN GENERATED"); e = s.index("// END GENERATED")
    b = s.index("\n", b) + 1
    s = s[:b] + text + s[e:]
    open(p, "w").write(s)
    print("generated %d lines, %d ring axioms" % (text.count("\n"), AXIOMS))

if __name__ == "__main__":
    main()
