import sys, os; sys.path.insert(0, os.path.dirname(os.path.dirname(os.path.abspath(__file__))))
from vf import run
r=run.run_unit(sys.argv[1])
print(r.status, r.verified, r.errors, r.wall, r.tool_errors[:5])
for e in r.failures+r.undecided: print(e['obligation']); print(e['raw'][:600])
if r.built: print(r.built.notes, r.built.rewrites)
