#!/usr/bin/env python3
"""repo_edit.py FILE  <<< JSON [[old,new],...]   -- exact replacement preserving the file's line endings"""
import sys, json
p = sys.argv[1]
s = open(p, newline='').read()
crlf = '\r\n' in s
pairs = json.load(sys.stdin)
for old, new in pairs:
    if crlf:
        old = old.replace('\r\n', '\n').replace('\n', '\r\n'); new = new.replace('\r\n', '\n').replace('\n', '\r\n')
    if s.count(old) != 1:
        sys.exit("pattern occurs %d times: %r" % (s.count(old), old[:60]))
    s = s.replace(old, new)
open(p, 'w', newline='').write(s)
