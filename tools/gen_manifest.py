#!/usr/bin/env python3
"""Regenerate MANIFEST.json from the table below (claimed properties) + properties.jsonl."""
import json, os, subprocess
HERE = os.path.dirname(os.path.dirname(os.path.abspath(__file__)))
props = [json.loads(l) for l in open(os.path.join(HERE, "properties.jsonl"))]
CLAIMS = json.load(open(os.path.join(HERE, "tools", "claims.json")))
hooks_commits = []
try:
    out = subprocess.check_output(["git", "-C", "/repo", "log", "--format=%h %s"]).decode().split("\n")
    hooks_commits = [l.split()[0] for l in out if " hook:" in l or l.split(" ", 1)[-1].startswith("hook")]
except Exception:
    pass
m = {"version": 1,
     "setup_cmd": "python3 -c \"import sys; sys.path.insert(0,'/verif'); import vf.unit, vf.run, vf.extra\" && verus --version >/dev/null",
     "hooks": {"guard": "gm_rs_verif", "enable": "RUSTFLAGS='--cfg gm_rs_verif' (only the replay harness uses hooks; the verifier reads source text and needs none)",
               "baseline_off_cmd": "cd /repo && cargo test --workspace --no-fail-fast --offline --lib --bins --tests", "source_commits": hooks_commits, "add_only": True},
     "engines": [{"name": "vf", "path": "/verif/vf", "serves_properties": sorted(CLAIMS),
                  "kind_free_text": "extractor/weaver: copies the functions of a unit from /repo's working tree token by token, applies declared rewrite rules, weaves the Verus contracts of units/<unit>.rs onto them by token alignment, runs Verus on the result and maps failed obligations to VIOLATION lines"}],
     "checks": [], "not_applicable": [],
     "notes": "contract-based deductive verification with Verus on mechanically extracted real code; see DESIGN.md. Exit 2 = undecided/tooling (never a violation)."}
for p in props:
    pid = p["id"]
    if pid in CLAIMS:
        c = CLAIMS[pid]
        m["checks"].append({"property_id": pid, "quick_cmd": "./check %s --tier quick" % pid, "thorough_cmd": "./check %s --tier thorough" % pid,
                            "evidence_file": "/verif/evidence/%s.json" % pid, "replay_cmd_template": "./check %s --replay {path}" % pid, "engine": "vf",
                            "level_claimed": {"category": "proof", "text": c["text"], "design_ref": c.get("design_ref", "DESIGN.md section 5 " + pid)},
                            "level_note": c["note"], "technique": c.get("technique", "Verus contracts (requires/ensures/loop invariants) woven onto the real functions extracted from /repo on every run; Z3 discharges every obligation function by function")})
    else:
        na = json.load(open(os.path.join(HERE, "tools", "not_applicable.json")))
        m["not_applicable"].append({"property_id": pid, "reason": na.get(pid, "check not built yet; see DESIGN.md")})
json.dump(m, open(os.path.join(HERE, "MANIFEST.json"), "w"), indent=1)
print("claimed:", sorted(CLAIMS), "not claimed:", [x["property_id"] for x in m["not_applicable"]])
