#!/usr/bin/env python3
"""seed_status.py <seed_all log>: write status_now into seeded/*/meta.json and print a markdown table"""
import sys, json, re, os
rows = []
for line in open(sys.argv[1]):
    m = re.match(r"(C\d\d-[A-Z]) rc=(\d)\s*(.*)", line.strip())
    if not m: continue
    name, rc, rest = m.group(1), int(m.group(2)), m.group(3)
    st = {1: "caught", 2: "undecided (exit 2)", 0: "MISSED (exit 0)"}.get(rc, "rc=%d" % rc)
    ob = ""
    mm = re.search(r"failed obligation: (\S+?)\[", rest)
    if mm: ob = mm.group(1)
    elif "tooling" in rest: ob = "outside the Verus subset / front end: " + rest.split("tooling:")[1].strip()[:60]
    elif "proof annotations no longer fit" in rest: ob = "proof script no longer fits the changed function"
    elif "Resource limit" in rest or "timed out" in rest: ob = "solver resource limit / timeout"
    p = "/verif/seeded/%s/meta.json" % name
    if os.path.exists(p):
        meta = json.load(open(p)); meta["status_now"] = st; meta["status_now_detail"] = ob
        json.dump(meta, open(p, "w"), indent=1)
        first = "caught" if meta.get("detected_at_first_evaluation", meta.get("detected")) else "not caught"
    else: first = "?"
    rows.append((name, first, st, ob))
print("| seed | at evaluation | final policy | obligation / reason |\n|---|---|---|---|")
for r in rows: print("| %s | %s | %s | %s |" % r)
c = sum(1 for r in rows if r[2] == "caught"); u = sum(1 for r in rows if r[2].startswith("undecided")); m = sum(1 for r in rows if r[2].startswith("MISSED"))
print("\n%d seeds: %d caught, %d undecided, %d missed" % (len(rows), c, u, m))
