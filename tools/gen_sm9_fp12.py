#!/usr/bin/env python3
"""Generator of the Fp4-identity block of units/sm9_fp12.rs (between the markers `// BEGIN GENERATED` / `// END GENERATED`).

Fp12 = Fp4[w]/(w^3 - v) is handled over Fp4 as a commutative ring.  The polynomial identities between Fp4 expression
trees that the Fp12 formulas need (Karatsuba's middle term, the squaring formula, adjugate/norm identities of the inverse,
associativity of the product) are written ONCE here as trees over named Fp4 atoms.  For every identity  L == R  the script

  * evaluates both sides in Z[u, v]/(u^2 + 2, v^2 - u) at random integer 4-vectors (sanity check before Lean sees it),
  * emits  `proof fn f12g_<name>(atoms: Seq<int>...) requires f4_ok(atoms) ensures L == R`  proved by Verus through the
    ring homomorphism f4_of of unit sm9_fp4: `f4_of_self` on every atom, one `f4_of_<op>` call per node (the let-inlined
    coordinate polynomials are the arguments), and
  * the four coordinate statements `ring_f12g_<name>_0.._3` - integer polynomial identities of the vf.ringcheck shape,
    proved by Lean `ring` on every run.

usage: python3 tools/gen_sm9_fp12.py            rewrites the block in units/sm9_fp12.rs
"""
import os, random, sys

VERIF = os.path.dirname(os.path.dirname(os.path.abspath(__file__)))

class E:
    def __init__(s, op, *args): s.op = op; s.args = args
    def __add__(a, b): return E('add', a, b)
    def __sub__(a, b): return E('sub', a, b)
    def __mul__(a, b): return E('mul', a, b)
    def __neg__(a): return E('neg', a)
def A(name): return E('atom', name)
def V(x): return E('mulv', x)
ZERO = E('zero'); ONE = E('one')

def verus(e):
    o = e.op
    if o == 'atom': return e.args[0]
    if o == 'zero': return 'f4_zero()'
    if o == 'one': return 'f4_one()'
    if o == 'mulv': return 'f4_mulv(%s)' % verus(e.args[0])
    if o == 'neg': return 'f4_neg(%s)' % verus(e.args[0])
    return 'f4_%s(%s, %s)' % (o, verus(e.args[0]), verus(e.args[1]))

def mul4(p, q):
    return [p[0] * q[0] - 2 * (p[1] * q[1]) - 2 * (p[2] * q[3] + p[3] * q[2]),
            p[0] * q[1] + p[1] * q[0] + p[2] * q[2] - 2 * (p[3] * q[3]),
            p[0] * q[2] - 2 * (p[1] * q[3]) + p[2] * q[0] - 2 * (p[3] * q[1]),
            p[0] * q[3] + p[1] * q[2] + p[2] * q[1] + p[3] * q[0]]

def ev(e, env):
    o = e.op
    if o == 'atom': return env[e.args[0]]
    if o == 'zero': return [0, 0, 0, 0]
    if o == 'one': return [1, 0, 0, 0]
    x = ev(e.args[0], env)
    if o == 'mulv': return [-2 * x[3], x[2], x[0], x[1]]
    if o == 'neg': return [-c for c in x]
    y = ev(e.args[1], env)
    if o == 'add': return [a + b for a, b in zip(x, y)]
    if o == 'sub': return [a - b for a, b in zip(x, y)]
    if o == 'mul': return mul4(x, y)
    raise ValueError(o)

def P(s): return '(' + s + ')'
def coords(e, calls, atoms):
    """the 4 coordinate polynomials (strings, fully parenthesised); appends the f4_of_* lemma calls; records the atoms"""
    o = e.op
    if o == 'atom':
        n = e.args[0]
        if n not in atoms:
            atoms.append(n); calls.append('f4_of_self(%s);' % n)
        return ['%s_%d' % (n, i) for i in range(4)]
    if o in ('zero', 'one'):
        if 'f4_of_consts();' not in calls: calls.append('f4_of_consts();')
        return ['0int', '0int', '0int', '0int'] if o == 'zero' else ['1int', '0int', '0int', '0int']
    if o == 'mulv':
        p = coords(e.args[0], calls, atoms)
        calls.append('f4_of_mul_v(%s);' % ', '.join(p))
        return ['0 - 2 * %s' % P(p[3]), p[2], p[0], p[1]]
    if o == 'neg':
        p = coords(e.args[0], calls, atoms)
        calls.append('f4_of_neg(%s);' % ', '.join(p))
        return ['0 - %s' % P(x) for x in p]
    p = coords(e.args[0], calls, atoms); q = coords(e.args[1], calls, atoms)
    calls.append('f4_of_%s(%s);' % (o, ', '.join(p + q)))
    if o == 'add': return ['%s + %s' % (P(a), P(b)) for a, b in zip(p, q)]
    if o == 'sub': return ['%s - %s' % (P(a), P(b)) for a, b in zip(p, q)]
    if o == 'mul':
        p = [P(x) for x in p]; q = [P(x) for x in q]
        return ['%s * %s - 2 * (%s * %s) - 2 * (%s * %s + %s * %s)' % (p[0], q[0], p[1], q[1], p[2], q[3], p[3], q[2]),
                '%s * %s + %s * %s + %s * %s - 2 * (%s * %s)' % (p[0], q[1], p[1], q[0], p[2], q[2], p[3], q[3]),
                '%s * %s - 2 * (%s * %s) + %s * %s - 2 * (%s * %s)' % (p[0], q[2], p[1], q[3], p[2], q[0], p[3], q[1]),
                '%s * %s + %s * %s + %s * %s + %s * %s' % (p[0], q[3], p[1], q[2], p[2], q[1], p[3], q[0])]
    raise ValueError(o)

def lemma(name, order, lhs, rhs, comment):
    calls = []; atoms = []
    for n in order.split(): coords(A(n), calls, atoms)
    L = coords(lhs, calls, atoms); R = coords(rhs, calls, atoms)
    assert atoms == order.split(), (name, atoms)
    rnd = random.Random(name)
    for _ in range(3):
        env = {a: [rnd.randrange(-99, 100) for _ in range(4)] for a in atoms}
        if ev(lhs, env) != ev(rhs, env): raise SystemExit("identity %s is FALSE at %r" % (name, env))
    params = ', '.join('%s_%d: int' % (a, i) for a in atoms for i in range(4))
    args = ', '.join('%s[%d]' % (a, i) for a in atoms for i in range(4))
    out = ['// ' + comment]
    out.append('pub proof fn f12g_%s(%s) requires %s' % (name, ', '.join('%s: Seq<int>' % a for a in atoms), ', '.join('f4_ok(%s)' % a for a in atoms)))
    out.append('    ensures %s == %s' % (verus(lhs), verus(rhs)))
    out.append('{')
    out.append('    ' + ' '.join('let %s_%d = %s[%d];' % (a, i, a, i) for a in atoms for i in range(4)))
    for c in calls: out.append('    ' + c)
    out.append('    ' + ' '.join('ring_f12g_%s_%d(%s);' % (name, i, args) for i in range(4)))
    out.append('}')
    for i in range(4):
        out.append('#[verifier::external_body]')
        out.append('pub proof fn ring_f12g_%s_%d(%s)' % (name, i, params))
        out.append('    ensures %s == %s' % (L[i], R[i]))
        out.append('{ }')
    return '\n'.join(out)

# ---------------------------------------------------------------------------------------------- the Fp12 formulas over Fp4
def mul12(a, b):
    (a0, a1, a2), (b0, b1, b2) = a, b
    return (a0 * b0 + V(a1 * b2 + a2 * b1), (a0 * b1 + a1 * b0) + V(a2 * b2), (a0 * b2 + a1 * b1) + a2 * b0)
def adj(a):
    a0, a1, a2 = a
    return (a0 * a0 - V(a1 * a2), V(a2 * a2) - a0 * a1, a1 * a1 - a0 * a2)
def norm(a):
    a0, a1, a2 = a; A0, A1, A2 = adj(a)
    return a0 * A0 + V(a1 * A2 + a2 * A1)

def identities():
    a0, a1, a2, b0, b1, b2, c0, c1, c2, k = [A(n) for n in 'a0 a1 a2 b0 b1 b2 c0 c1 c2 k'.split()]
    a, b, c, d = [A(n) for n in 'a b c d'.split()]
    out = []
    out.append(lemma('kara', 'a b c d', ((a + b) * (c + d) - a * c) - b * d, a * d + b * c, "Karatsuba's middle term (fp_mul)"))
    # fp_sqr: s0 = a2 + a0, H = s0^2 + a1^2 is the half of (s0 + a1)^2 + (s0 - a1)^2
    s0 = a2 + a0; H = s0 * s0 + a1 * a1; T = s0 + a1; U = s0 - a1
    sq = mul12((a0, a1, a2), (a0, a1, a2))
    out.append(lemma('sqr_half', 'a0 a1 a2', H + H, T * T + U * U, "fp_sqr: the halved sum s3"))
    out.append(lemma('sqr2', 'a0 a1 a2', (H - a2 * a2) - a0 * a0, sq[2], "fp_sqr: the coefficient of w^2"))
    out.append(lemma('sqr1', 'a0 a1 a2', ((V(a2 * a2) + T * T) - (a1 * a2 + a1 * a2)) - H, sq[1], "fp_sqr: the coefficient of w"))
    out.append(lemma('sqr0', 'a0 a1 a2', a0 * a0 + V(a1 * a2 + a1 * a2), sq[0], "fp_sqr: the constant coefficient"))
    # fp_inv, branch c2 == 0: adjugate and norm of a0 + a1 w
    z = (a0, a1, ZERO); Z = adj(z)
    out.append(lemma('invz0', 'a0 a1', Z[0], a0 * a0, "fp_inv, c2 == 0: A0"))
    out.append(lemma('invz1', 'a0 a1', Z[1], -(a0 * a1), "fp_inv, c2 == 0: A1"))
    out.append(lemma('invz2', 'a0 a1', Z[2], a1 * a1, "fp_inv, c2 == 0: A2"))
    out.append(lemma('invzn', 'a0 a1', norm(z), (a0 * a0) * a0 + V(a1 * a1) * a1, "fp_inv, c2 == 0: the norm a0^3 + a1^3 v"))
    # fp_inv, general branch: t1^2 - t0 t2 = a2 * norm  (t0 = A2, t1 = -A1, t2 = A0)
    x = (a0, a1, a2); X = adj(x)
    t1 = a0 * a1 - V(a2 * a2)
    out.append(lemma('inv_i1', 'a0 a1 a2', t1 * t1 - X[2] * X[0], a2 * norm(x), "fp_inv, c2 != 0: the denominator the code inverts is c2 * norm"))
    # a * adj(a) = norm(a): the coefficients of w and w^2 vanish (the constant one is the definition of the norm)
    pr = mul12(x, X)
    out.append(lemma('adj1', 'a0 a1 a2', pr[1], ZERO, "a * adj(a): the coefficient of w vanishes"))
    out.append(lemma('adj2', 'a0 a1 a2', pr[2], ZERO, "a * adj(a): the coefficient of w^2 vanishes"))
    # a * (b k) = (a b) k for k in Fp4, coefficient by coefficient
    x0, x1, x2, y0, y1, y2 = [A(n) for n in 'x0 x1 x2 y0 y1 y2'.split()]
    sl = mul12((x0, x1, x2), (y0 * k, y1 * k, y2 * k)); sr = mul12((x0, x1, x2), (y0, y1, y2))
    for i in range(3):
        out.append(lemma('scale%d' % i, 'x0 x1 x2 y0 y1 y2 k', sl[i], sr[i] * k, "a (b k) == (a b) k for k in Fp4: coefficient of w^%d" % i))
    # associativity
    l = mul12(mul12((a0, a1, a2), (b0, b1, b2)), (c0, c1, c2)); r = mul12((a0, a1, a2), mul12((b0, b1, b2), (c0, c1, c2)))
    for i in range(3):
        out.append(lemma('assoc%d' % i, 'a0 a1 a2 b0 b1 b2 c0 c1 c2', l[i], r[i], "(a b) c == a (b c): coefficient of w^%d" % i))
    return '\n'.join(out) + '\n'

def main():
    path = os.path.join(VERIF, "units", "sm9_fp12.rs")
    text = identities()
    if len(sys.argv) > 1 and sys.argv[1] == '--stdout':
        sys.stdout.write(text); return
    t = open(path).read()
    b = t.index('// BEGIN GENERATED'); e = t.index('// END GENERATED')
    b = t.index('\n', b) + 1
    open(path, 'w').write(t[:b] + text + t[e:])
    print("wrote %d bytes of generated lemmas into %s" % (len(text), path))

if __name__ == '__main__':
    main()
