#!/usr/bin/env python3
"""seed_keep.py <PROP> <VARIANT> <caught:yes|no> "<obligation or note>" : store a confirmed seeded change under /verif/seeded/"""
import sys, json, os, shutil
P, V, caught, note = sys.argv[1:5]
src = "/tmp/seed/%s/_out/%s" % (P, V)
dst = "/verif/seeded/%s-%s" % (P, V)
os.makedirs(dst, exist_ok=True)
shutil.copy(src + "/patch.diff", dst + "/patch.diff")
shutil.copy(src + "/demo.rs", dst + "/demo.rs")
m = json.load(open(src + "/meta.json"))
m["confirmed_by_me"] = ["in scratch worktree /tmp/seed/%s: demo passes on the clean tree; with patch.diff applied `cargo test --workspace --offline --lib` passes and the demo fails" % P,
                        "git -C /repo apply patch.diff; ./check %s; git -C /repo checkout -- ." % P]
m["detected"] = caught == "yes"
m["detected_by"] = note
json.dump(m, open(dst + "/meta.json", "w"), indent=1)
print("kept", dst)
