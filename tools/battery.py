#!/usr/bin/env python3
"""battery.py <file with JSON list of [check, relpath, old, new, label]>: overlay each single edit and run the quick check; prints rc per edit"""
import sys, json, os, subprocess, tempfile, shutil
HERE = os.path.dirname(os.path.dirname(os.path.abspath(__file__)))
items = json.load(open(sys.argv[1]))
ls = subprocess.run("git ls-files | grep -E '\\.rs$'", shell=True, cwd="/repo", capture_output=True, text=True).stdout
for chk, rel, old, new, label in items:
    ov = tempfile.mkdtemp(prefix="ov-", dir="/tmp")
    subprocess.run(["rsync", "-a", "--files-from=-", "/repo/", ov + "/"], input=ls, text=True)
    p = os.path.join(ov, rel); s = open(p, newline="").read()
    if s.count(old) < 1:
        print(label, "PATTERN-NOT-FOUND"); shutil.rmtree(ov); continue
    open(p, "w", newline="").write(s.replace(old, new, 1))
    pr = subprocess.run([os.path.join(HERE, "check"), chk], capture_output=True, text=True, env=dict(os.environ, VERIF_REPO=ov))
    first = [l for l in pr.stdout.split("\n") if "failed obligation" in l or l.startswith("UNDECIDED") or l.startswith("OK")]
    print("%-34s rc=%d %s" % (label, pr.returncode, (first[0] if first else "")[:150]), flush=True)
    shutil.rmtree(ov)
