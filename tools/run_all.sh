#!/bin/bash
# run every claimed check (quick tier unless TIER is set) on /repo's working tree; prints one line per property
cd /verif
ids=$(python3 -c "import json;print(' '.join(p['property_id'] for p in json.load(open('MANIFEST.json'))['checks']))")
rc_all=0
for id in ${@:-$ids}; do
  s=$(date +%s)
  out=$(./check $id --tier ${TIER:-quick} 2>&1); rc=$?
  echo "$id rc=$rc $(( $(date +%s) - s ))s $(echo "$out" | grep -E 'OK|VIOLATION|UNDECIDED|KNOWN' | head -3 | cut -c1-200 | tr '\n' '|')"
  [ $rc -ne 0 ] && rc_all=1
done
exit $rc_all
