#!/usr/bin/env python3
"""extract.py <relpath> <name|Type::name|impl:Type> ... [--rw rule,rule] [--text 'A ==> B'] : print post-rewrite text of items (template authoring aid)"""
import sys; sys.path.insert(0, '/verif')
from vf import unit as U, rewrite as RW
from vf.rstok import render
from vf.items import impl_members, first_brace_depth0
args = sys.argv[1:]
rel = args[0]; names = []; rules = ["cfg", "vis", "static", "attr", "constfold", "cratepath", "asserteq"]; texts = []
i = 1
while i < len(args):
    if args[i] == "--rw": rules += args[i + 1].split(","); i += 2
    elif args[i] == "--text": a, b = args[i + 1].split("==>"); texts.append((a.strip(), b.strip())); i += 2
    else: names.append(args[i]); i += 1
items = U.source_items(rel)
c = {}
def out(toks):
    t = RW.apply(toks, rules, c); t = RW.apply_text(t, texts, c)
    print(render(t).strip("\n"))
for n in names:
    if "::" in n:
        ty, fn = n.split("::")
        for imp in [x for x in items if x.kind == "impl" and x.name.split(" for ")[-1].strip() == ty]:
            for m in impl_members(imp)[2]:
                if m.name == fn: out(m.toks)
    else:
        for x in items:
            if x.name == n and not U._is_cfg_test(x): out(x.toks)
