#!/bin/bash
# seed_some.sh <seed>... : like seed_all.sh for the named seeds
cd /verif
for n in "$@"; do
  id=${n%%-*}
  out=$(tools/seed_overlay.sh $n $id 2>&1)
  rc=$(echo "$out" | grep -o "rc=[0-9]*" | tail -1)
  echo "$n $rc $(echo "$out" | grep -E "failed obligation|UNDECIDED" | head -1 | cut -c1-170)"
done
