#!/usr/bin/env python3
"""mutant.py <unit> <relpath> <old> <new> [pid]: apply ONE textual edit to a scratch overlay of /repo and run ONE unit on it
(with the harness this script lives in). Prints status (ok / fail / undecided / tool), the failed obligations, rlimit-exceeded
functions, weave notes and the per-function SMT times of the slowest functions. `\\n` in old/new matches CRLF or LF."""
import sys, os, subprocess, tempfile, shutil, json
HERE = os.path.dirname(os.path.dirname(os.path.abspath(__file__)))
unit, rel, old, new = sys.argv[1:5]
pid = sys.argv[5] if len(sys.argv) > 5 else None
ov = tempfile.mkdtemp(prefix="ov-", dir="/tmp")
ls = subprocess.run("git ls-files | grep -E '\\.rs$'", shell=True, cwd="/repo", capture_output=True, text=True).stdout
subprocess.run(["rsync", "-a", "--files-from=-", "/repo/", ov + "/"], input=ls, text=True)
p = os.path.join(ov, rel); s = open(p, newline="").read()
crlf = "\r\n" in s
o = old.replace("\\n", "\n"); n = new.replace("\\n", "\n")
if crlf: o = o.replace("\n", "\r\n"); n = n.replace("\n", "\r\n")
if old != "" and s.count(o) < 1: print("PATTERN-NOT-FOUND"); shutil.rmtree(ov); sys.exit(3)
if old != "": open(p, "w", newline="").write(s.replace(o, n, 1))
os.environ["VERIF_REPO"] = ov
sys.path.insert(0, HERE)
from vf import run as R
r = R.run_unit(unit, True, None, "-mutant", None, 8, None, pid)
print("STATUS", r.status, "wall %.1fs" % r.wall, "degraded:", getattr(r, "degraded", None))
for e in r.failures: print("  FAIL", e["obligation"][:170])
for e in r.undecided: print("  UNDECIDED", e["owner"], e["msg"][:80])
for m in r.tool_errors[:3]: print("  TOOL", str(m)[:200])
if r.built:
    for x in r.built.notes: print("  NOTE", x[:160])
try:
    fs = sorted(r.funcs, key=lambda f: -(f.get("ms") or 0))[:5]
    for f in fs: print("  TIME", f)
except Exception: pass
shutil.rmtree(ov)
