#!/bin/bash
# re-run every kept seeded change through the overlay (quick check of its property); one line per seed
cd /verif
for d in seeded/*/; do
  n=$(basename $d); id=${n%%-*}
  out=$(tools/seed_overlay.sh $n $id 2>&1)
  rc=$(echo "$out" | grep -o "rc=[0-9]*" | tail -1)
  echo "$n $rc $(echo "$out" | grep -E "failed obligation|UNDECIDED" | head -1 | cut -c1-170)"
done
