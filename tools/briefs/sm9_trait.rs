// Contract of the SM9 `FieldElement` trait (gm-sm9/src/fields.rs), shared by Fp, Fp2, Fp4, Fp12.
// Every implementor gives: ok() = representation invariant, val() = vector of decoded coefficients
// (length 1 for Fp, 2 for Fp2, 4 for Fp4, 12 for Fp12; each coefficient in [0, P9())), and the
// level's own arithmetic as associated spec functions on such vectors.
trait FieldElement: Sized + Copy + Clone + PartialEq + Eq + Debug {
    spec fn ok(&self) -> bool;
    spec fn val(&self) -> Seq<int>;
    spec fn s_zero() -> Seq<int>;
    spec fn s_one() -> Seq<int>;
    spec fn s_add(a: Seq<int>, b: Seq<int>) -> Seq<int>;
    spec fn s_sub(a: Seq<int>, b: Seq<int>) -> Seq<int>;
    spec fn s_mul(a: Seq<int>, b: Seq<int>) -> Seq<int>;
    spec fn s_neg(a: Seq<int>) -> Seq<int>;
    spec fn s_inv(a: Seq<int>) -> Seq<int>;
    spec fn s_bytes(a: Seq<int>) -> Seq<u8>;
    fn zero() -> (r: Self)
        ensures r.ok(), r.val() == Self::s_zero();
    fn one() -> (r: Self)
        ensures r.ok(), r.val() == Self::s_one();
    fn is_zero(&self) -> (r: bool)
        ensures self.ok() ==> r == (self.val() == Self::s_zero());
    fn fp_sqr(&self) -> (r: Self)
        requires self.ok()
        ensures r.ok(), r.val() == Self::s_mul(self.val(), self.val());
    fn fp_double(&self) -> (r: Self)
        requires self.ok()
        ensures r.ok(), r.val() == Self::s_add(self.val(), self.val());
    fn fp_triple(&self) -> (r: Self)
        requires self.ok()
        ensures r.ok(), r.val() == Self::s_add(Self::s_add(self.val(), self.val()), self.val());
    fn fp_add(&self, rhs: &Self) -> (r: Self)
        requires self.ok(), rhs.ok()
        ensures r.ok(), r.val() == Self::s_add(self.val(), rhs.val());
    fn fp_sub(&self, rhs: &Self) -> (r: Self)
        requires self.ok(), rhs.ok()
        ensures r.ok(), r.val() == Self::s_sub(self.val(), rhs.val());
    fn fp_mul(&self, rhs: &Self) -> (r: Self)
        requires self.ok(), rhs.ok()
        ensures r.ok(), r.val() == Self::s_mul(self.val(), rhs.val());
    fn fp_neg(&self) -> (r: Self)
        requires self.ok()
        ensures r.ok(), r.val() == Self::s_neg(self.val());
    fn fp_div2(&self) -> (r: Self)
        requires self.ok()
        ensures r.ok(), Self::s_add(r.val(), r.val()) == self.val();
    fn fp_inv(&self) -> (r: Self)
        requires self.ok()
        ensures r.ok(), r.val() == Self::s_inv(self.val());
    fn to_bytes_be(&self) -> (r: Vec<u8>)
        requires self.ok()
        ensures r@ == Self::s_bytes(self.val());
}
// For Fp = U256 (Montgomery form mod P9()):
//   ok(a)      = canon9(a@)                      val(a) = seq![fe9(a@)]
//   s_zero()   = seq![0int]                      s_one() = seq![1int]
//   s_add(a,b) = seq![(a[0] + b[0]) % P9()]      s_sub(a,b) = seq![(a[0] - b[0]) % P9()]
//   s_mul(a,b) = seq![(a[0] * b[0]) % P9()]      s_neg(a)   = seq![(P9() - a[0]) % P9()]
//   s_inv(a)   = seq![inv_p9(a[0])]              s_bytes(a) = be_bytes(a[0], 32)
