#!/usr/bin/env python3
"""Exhaustive ground check of the precomputed fixed-base tables of /repo (plain python3, no dependencies).

    python3 tools/check_tables.py sm2      gm-sm2/src/sm2p256_table.rs      SM2P256_PRECOMPUTED
    python3 tools/check_tables.py sm9      gm-sm9/src/sm9_p256_table.rs     SM9_P256_PRECOMPUTED

The table is parsed from the CURRENT source text below the repo root ($VERIF_REPO, default /repo); every entry is
compared with an independent computation of the expected multiple of the generator (affine chord-and-tangent law on
Python big integers, curve parameters typed in from the standards, nothing is taken from /repo except the table).
Output: one JSON line {"table":..,"entries":..,"checked":..,"bad":[first few (i,j)],"seconds":..};
exit status 0 = every entry matches, 1 = at least one entry is wrong, 2 = the table could not be parsed / has the
wrong shape / the built-in curve parameters fail their own sanity check.

This is what discharges the Verus axiom `ax_sm2_table` of unit sm2_ecc (the table value is hidden from the solver).

Layouts (all numbers are [u64; 4] little-endian limbs, field elements are in Montgomery form x*2^256 mod p):

 sm2  `[[U256; 510]; 32]`, used by gm-sm2/src/p256_ecc.rs `g_mul` as an unsigned 8-bit comb:
      row i (0..32) belongs to byte i of the scalar (least significant byte first); for a byte value j in 1..=255
          x = T[i][2j-2],  y = T[i][2j-1]   is the affine point  [j * 256^i] G.
      32 * 255 = 8160 points.  Curve: GB/T 32918.5 (y^2 = x^3 + a x + b over F_p, a = p - 3).
      Checked per entry: x < p, y < p, (x*R^-1 mod p, y*R^-1 mod p) == [j*256^i]G with R = 2^256.

 sm9  `[[[u64; 4]; 128]; 37]`, used by gm-sm9/src/points.rs `Point::g_mul` with gm-sm9/src/u256.rs
      `sm9_u256_get_booth(k, 7, i)`: signed 7-bit windows (Booth recoding), 37 = ceil(256 / 7) windows, window i covers
      the scalar bits 7i-1 .. 7i+6 and yields a digit d in -64..=64; g_mul builds `pre_com_points[i][j]` from
          x = T[i][2j],  y = T[i][2j+1]  (j in 0..64, z = Montgomery one)
      and adds (d > 0) or subtracts (d < 0) `pre_com_points[i][|d| - 1]`.  So row i holds the 64 affine points
          T[i][2(d-1)], T[i][2(d-1)+1]  ==  [d * 2^(7i)] P1   for d in 1..=64,
      37 * 64 = 2368 points.  Curve: SM9 G1, y^2 = x^3 + 5 over F_p (GB/T 38635.1), generator P1, R = 2^256.
      (Row 36 only ever sees digits up to 8 for scalars < 2^256, the script checks all 64 columns anyway.)
"""
import json
import os
import re
import sys
import time

R = 1 << 256

CURVES = {
    "sm2": {
        "file": "gm-sm2/src/sm2p256_table.rs", "name": "SM2P256_PRECOMPUTED", "shape": (32, 510, 4),
        "p": 0xFFFFFFFEFFFFFFFFFFFFFFFFFFFFFFFFFFFFFFFF00000000FFFFFFFFFFFFFFFF,
        "a": 0xFFFFFFFEFFFFFFFFFFFFFFFFFFFFFFFFFFFFFFFF00000000FFFFFFFFFFFFFFFC,
        "b": 0x28E9FA9E9D9F5E344D5A9E4BCF6509A7F39789F515AB8F92DDBCBD414D940E93,
        "n": 0xFFFFFFFEFFFFFFFFFFFFFFFFFFFFFFFF7203DF6B21C6052B53BBF40939D54123,
        "gx": 0x32C4AE2C1F1981195F9904466A39C9948FE30BBFF2660BE1715A4589334C74C7,
        "gy": 0xBC3736A2F4F6779C59BDCEE36B692153D0A9877CC62A474002DF32E52139F0A0,
        "window": 8, "rows": 32, "cols": 255,       # T[i][2j-2], T[i][2j-1], j = 1..=255
    },
    "sm9": {
        "file": "gm-sm9/src/sm9_p256_table.rs", "name": "SM9_P256_PRECOMPUTED", "shape": (37, 128, 4),
        "p": 0xB640000002A3A6F1D603AB4FF58EC74521F2934B1A7AEEDBE56F9B27E351457D,
        "a": 0,
        "b": 5,
        "n": 0xB640000002A3A6F1D603AB4FF58EC74449F2934B18EA8BEEE56EE19CD69ECF25,
        "gx": 0x93DE051D62BF718FF5ED0704487D01D6E1E4086909DC3280E8C4E4817C66DDDD,
        "gy": 0x21FE8DDA4F21E607631065125C395BBC1C1C00CBFA6024350C464CD70A3EA616,
        "window": 7, "rows": 37, "cols": 64,        # T[i][2(d-1)], T[i][2(d-1)+1], d = 1..=64
    },
}


class ParseError(Exception):
    pass


# ---------------------------------------------------------------- affine group law on big integers (None = infinity)
def inv(x, p):
    x %= p
    if x == 0:
        raise ZeroDivisionError("inverse of 0")
    return pow(x, p - 2, p)          # p prime (Fermat); avoids depending on pow(x, -1, p) of newer Pythons


def add(P, Q, p, a):
    if P is None:
        return Q
    if Q is None:
        return P
    x1, y1 = P
    x2, y2 = Q
    if x1 == x2:
        if (y1 + y2) % p == 0:
            return None
        lam = (3 * x1 * x1 + a) * inv(2 * y1, p) % p
    else:
        lam = (y2 - y1) * inv(x2 - x1, p) % p
    x3 = (lam * lam - x1 - x2) % p
    return (x3, (lam * (x1 - x3) - y1) % p)


def mul(k, P, p, a):
    acc = None
    while k:
        if k & 1:
            acc = add(acc, P, p, a)
        P = add(P, P, p, a)
        k >>= 1
    return acc


def on_curve(P, p, a, b):
    x, y = P
    return 0 <= x < p and 0 <= y < p and (y * y - (x * x * x + a * x + b)) % p == 0


# ---------------------------------------------------------------- parsing the Rust static
def strip_comments(text):
    text = re.sub(r"/\*.*?\*/", " ", text, flags=re.S)
    return re.sub(r"//[^\n]*", " ", text)


def parse_table(path, name, shape):
    try:
        text = open(path, "r", encoding="utf-8", newline="").read()
    except OSError as e:
        raise ParseError("cannot read %s: %s" % (path, e))
    text = strip_comments(text)
    m = re.search(r"\b(?:pub(?:\s*\([^)]*\))?\s+)?(?:static|const)\s+" + re.escape(name) + r"\s*:\s*([^=]+?)\s*=", text)
    if not m:
        raise ParseError("item `%s` not found in %s" % (name, path))
    ty = re.sub(r"\s+", "", m.group(1))
    dims = tuple(int(d) for d in re.findall(r";(\d+)\]", ty))      # innermost first
    declared = tuple(reversed(dims))
    if ty.startswith("[[U256;"):
        declared = declared + (4,)
    if declared != shape:
        raise ParseError("declared type %s has shape %s, expected %s" % (ty, declared, shape))
    # token-level parse of the initialiser up to the terminating `;`
    pos = m.end()
    toks = re.compile(r"\s*(\[|\]|,|;|0[xX][0-9a-fA-F_]+(?:u64)?|[0-9][0-9_]*(?:u64)?)")
    stack = []
    root = None
    while True:
        t = toks.match(text, pos)
        if not t:
            raise ParseError("unexpected text in initialiser near offset %d: %r" % (pos, text[pos:pos + 40].strip()))
        pos = t.end()
        s = t.group(1)
        if s == "[":
            stack.append([])
        elif s == "]":
            if not stack:
                raise ParseError("unbalanced `]`")
            done = stack.pop()
            if stack:
                stack[-1].append(done)
            else:
                root = done
        elif s == ",":
            continue
        elif s == ";":
            if stack or root is None:
                raise ParseError("initialiser ended inside brackets")
            break
        else:
            if not stack:
                raise ParseError("literal outside brackets")
            lit = s.replace("_", "")
            if lit.endswith("u64"):
                lit = lit[:-3]
            v = int(lit, 16) if lit[:2].lower() == "0x" else int(lit)
            if v >> 64:
                raise ParseError("literal %s does not fit u64" % s)
            stack[-1].append(v)
    # shape check
    if len(root) != shape[0]:
        raise ParseError("%d rows, expected %d" % (len(root), shape[0]))
    for i, row in enumerate(root):
        if not isinstance(row, list) or len(row) != shape[1]:
            raise ParseError("row %d has %s entries, expected %d" % (i, len(row) if isinstance(row, list) else "no", shape[1]))
        for k, e in enumerate(row):
            if not isinstance(e, list) or len(e) != shape[2] or not all(isinstance(l, int) for l in e):
                raise ParseError("entry [%d][%d] is not %d u64 limbs" % (i, k, shape[2]))
    return root


def limbs_val(e):
    return e[0] | (e[1] << 64) | (e[2] << 128) | (e[3] << 192)


# ---------------------------------------------------------------- the check
def check(which):
    c = CURVES[which]
    p, a, b, n = c["p"], c["a"], c["b"], c["n"]
    G = (c["gx"], c["gy"])
    # the typed-in parameters must be self-consistent: G on the curve and of order n
    if not on_curve(G, p, a, b) or mul(n, G, p, a) is not None or mul(n - 1, G, p, a) != (G[0], (p - G[1]) % p):
        raise ParseError("built-in %s curve parameters fail their sanity check" % which)
    root = os.environ.get("VERIF_REPO", "/repo")
    T = parse_table(os.path.join(root, c["file"]), c["name"], c["shape"])
    rinv = inv(R, p)
    w, rows, cols = c["window"], c["rows"], c["cols"]
    bad = []
    checked = 0
    B = G                                   # B_i = [2^(w i)] G
    for i in range(rows):
        if i > 0:
            for _ in range(w):
                B = add(B, B, p, a)
        Pj = None                           # P_j = [j] B_i
        for j in range(1, cols + 1):
            Pj = add(Pj, B, p, a)
            x = limbs_val(T[i][2 * j - 2])
            y = limbs_val(T[i][2 * j - 1])
            ok = x < p and y < p and Pj is not None and (x * rinv % p, y * rinv % p) == Pj
            checked += 1
            if not ok:
                bad.append([i, j])
    # the sm2 table has no slack; in both layouts every limb array of a row is covered: 2 * cols == shape[1]
    if 2 * cols != c["shape"][1]:
        raise ParseError("internal: layout does not cover the rows")
    return rows * cols, checked, bad


def main(argv):
    if len(argv) != 2 or argv[1] not in CURVES:
        sys.stderr.write("usage: check_tables.py sm2|sm9\n")
        return 2
    which = argv[1]
    t0 = time.time()
    try:
        entries, checked, bad = check(which)
    except ParseError as e:
        print(json.dumps({"table": which, "error": str(e), "seconds": round(time.time() - t0, 3)}))
        return 2
    print(json.dumps({"table": which, "entries": entries, "checked": checked, "bad": bad[:8], "nbad": len(bad),
                      "seconds": round(time.time() - t0, 3)}))
    return 0 if not bad and checked == entries else 1


if __name__ == "__main__":
    sys.exit(main(sys.argv))
