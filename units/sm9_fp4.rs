//@unit sm9_fp4
//@serves C09 C10 C13 C16 C17 C20
//@source gm-sm9/src/fields/fp4.rs
//@assume the PartialEqSpecImpl of Fp2 (limb equality of both coefficients) is restated here as it is defined and proved for Fp2::eq in unit sm9_fp2 (`spec local` items are not exported by include-spec)
//@assume the `ring_*` lemmas (integer-polynomial identities: associativity/distributivity of the Fp2 and Fp4 product formulas, Karatsuba's middle term; external_body in Verus) are discharged on every run by Lean `ring` (vf/ringcheck.py; any other shape is refused)
//@include-spec sm2_math
//@include-spec sm9_math
//@include-spec sm9_fp2
//@section spec
// ---------------------------------------------------------------- Fp4 = Fp2[v]/(v^2 - u) (GM/T 0044.1: v^2 = u)
// an element c0 + c1*v is the coefficient vector c0 ++ c1 = [c0.c0, c0.c1, c1.c0, c1.c1]; each half is an Fp2 vector
pub open spec fn f4_lo(a: Seq<int>) -> Seq<int> { a.subrange(0, 2) }
pub open spec fn f4_hi(a: Seq<int>) -> Seq<int> { a.subrange(2, 4) }
pub open spec fn f4_mk(x: Seq<int>, y: Seq<int>) -> Seq<int> { x + y }
pub open spec fn f4_ok(a: Seq<int>) -> bool { a.len() == 4 && f2_ok(f4_lo(a)) && f2_ok(f4_hi(a)) }
pub open spec fn f4_zero() -> Seq<int> { f4_mk(f2_zero(), f2_zero()) }
pub open spec fn f4_one() -> Seq<int> { f4_mk(f2_one(), f2_zero()) }
pub open spec fn f4_v() -> Seq<int> { f4_mk(f2_zero(), f2_one()) }
// the embeddings of Fp2 and of Fp
pub open spec fn f4_fp2(k: Seq<int>) -> Seq<int> { f4_mk(k, f2_zero()) }
pub open spec fn f4_fp(k: int) -> Seq<int> { f4_mk(f2_fp(k), f2_zero()) }
pub open spec fn f4_add(a: Seq<int>, b: Seq<int>) -> Seq<int> { f4_mk(f2_add(f4_lo(a), f4_lo(b)), f2_add(f4_hi(a), f4_hi(b))) }
pub open spec fn f4_sub(a: Seq<int>, b: Seq<int>) -> Seq<int> { f4_mk(f2_sub(f4_lo(a), f4_lo(b)), f2_sub(f4_hi(a), f4_hi(b))) }
pub open spec fn f4_neg(a: Seq<int>) -> Seq<int> { f4_mk(f2_neg(f4_lo(a)), f2_neg(f4_hi(a))) }
// (a0 + a1 v)(b0 + b1 v) = (a0 b0 + a1 b1 u) + (a0 b1 + a1 b0) v,  v^2 = u
pub open spec fn f4_mul(a: Seq<int>, b: Seq<int>) -> Seq<int> {
    f4_mk(f2_add(f2_mul(f4_lo(a), f4_lo(b)), f2_mul(f2_mul(f4_hi(a), f4_hi(b)), f2_u())),
          f2_add(f2_mul(f4_lo(a), f4_hi(b)), f2_mul(f4_hi(a), f4_lo(b))))
}
// norm to Fp2: (a0 + a1 v)(a0 - a1 v) = a0^2 - a1^2 u
pub open spec fn f4_norm(a: Seq<int>) -> Seq<int> { f2_sub(f2_mul(f4_lo(a), f4_lo(a)), f2_mul(f2_mul(f4_hi(a), f4_hi(a)), f2_u())) }
// conjugate a0 - a1 v
pub open spec fn f4_conj(a: Seq<int>) -> Seq<int> { f4_mk(f4_lo(a), f2_neg(f4_hi(a))) }
// inverse = conjugate / norm (total: f2_inv(0) == 0, so f4_inv(0) == 0)
pub open spec fn f4_inv(a: Seq<int>) -> Seq<int> { f4_mk(f2_mul(f4_lo(a), f2_inv(f4_norm(a))), f2_mul(f2_neg(f4_hi(a)), f2_inv(f4_norm(a)))) }
// multiples by an element k of Fp2 / of Fp
pub open spec fn f4_scale2(a: Seq<int>, k: Seq<int>) -> Seq<int> { f4_mk(f2_mul(f4_lo(a), k), f2_mul(f4_hi(a), k)) }
pub open spec fn f4_scale(a: Seq<int>, k: int) -> Seq<int> { f4_mk(f2_scale(f4_lo(a), k), f2_scale(f4_hi(a), k)) }
// GM/T 0044.1 6.2: the coefficient of the higher power first
pub open spec fn f4_bytes(a: Seq<int>) -> Seq<u8> { f2_bytes(f4_hi(a)) + f2_bytes(f4_lo(a)) }

pub proof fn f4_split(x: Seq<int>, y: Seq<int>) requires x.len() == 2, y.len() == 2
    ensures f4_lo(f4_mk(x, y)) == x, f4_hi(f4_mk(x, y)) == y, f4_mk(x, y).len() == 4
{
    assert(f4_lo(f4_mk(x, y)) =~= x);
    assert(f4_hi(f4_mk(x, y)) =~= y);
}
pub proof fn f4_join(a: Seq<int>) requires a.len() == 4 ensures f4_mk(f4_lo(a), f4_hi(a)) == a, f4_lo(a).len() == 2, f4_hi(a).len() == 2
{ assert(f4_mk(f4_lo(a), f4_hi(a)) =~= a); }

// ---------------------------------------------------------------- Z^2 -> Fp2, (p0, p1) |-> p0 + p1 u reduced: a ring homomorphism
pub open spec fn f2_of(p0: int, p1: int) -> Seq<int> { seq![p0 % P9(), p1 % P9()] }
pub proof fn f2_of_ok(p0: int, p1: int) ensures f2_ok(f2_of(p0, p1)) { f2_range(p0); f2_range(p1); }
pub proof fn f2_of_self(x: Seq<int>) requires f2_ok(x) ensures x == f2_of(x[0], x[1])
{ f2_small(x[0]); f2_small(x[1]); assert(x =~= f2_of(x[0], x[1])); }
pub proof fn f2_of_eq(p0: int, p1: int, q0: int, q1: int) requires p0 % P9() == q0 % P9(), p1 % P9() == q1 % P9() ensures f2_of(p0, p1) == f2_of(q0, q1) { }
pub proof fn f2_of_add(p0: int, p1: int, q0: int, q1: int) ensures f2_add(f2_of(p0, p1), f2_of(q0, q1)) == f2_of(p0 + q0, p1 + q1)
{
    f2_modmod(p0); f2_modmod(p1); f2_modmod(q0); f2_modmod(q1);
    f2_cong_add(p0 % P9(), p0, q0 % P9(), q0); f2_cong_add(p1 % P9(), p1, q1 % P9(), q1);
    assert(f2_add(f2_of(p0, p1), f2_of(q0, q1)) =~= f2_of(p0 + q0, p1 + q1));
}
pub proof fn f2_of_sub(p0: int, p1: int, q0: int, q1: int) ensures f2_sub(f2_of(p0, p1), f2_of(q0, q1)) == f2_of(p0 - q0, p1 - q1)
{
    f2_modmod(p0); f2_modmod(p1); f2_modmod(q0); f2_modmod(q1);
    f2_cong_add(p0 % P9(), p0, q0 % P9(), q0); f2_cong_add(p1 % P9(), p1, q1 % P9(), q1);
    assert(f2_sub(f2_of(p0, p1), f2_of(q0, q1)) =~= f2_of(p0 - q0, p1 - q1));
}
pub proof fn f2_of_neg(p0: int, p1: int) ensures f2_neg(f2_of(p0, p1)) == f2_of(0 - p0, 0 - p1)
{
    f2_modmod(p0); f2_modmod(p1);
    f2_cn((P9() - p0 % P9()) % P9(), p0 % P9(), p0); f2_cn((P9() - p1 % P9()) % P9(), p1 % P9(), p1);
    assert(f2_neg(f2_of(p0, p1)) =~= f2_of(0 - p0, 0 - p1));
}
// ((a % p) * (b % p)) % p == (a * b) % p
pub proof fn f2_mm(a: int, b: int) ensures ((a % P9()) * (b % P9())) % P9() == (a * b) % P9()
{ f2_pos(); lemma_mul_mod_noop_general(a, b, P9()); }
pub proof fn f2_of_mul(p0: int, p1: int, q0: int, q1: int) ensures f2_mul(f2_of(p0, p1), f2_of(q0, q1)) == f2_of(p0 * q0 - 2 * (p1 * q1), p0 * q1 + p1 * q0)
{
    let a0 = p0 % P9(); let a1 = p1 % P9(); let b0 = q0 % P9(); let b1 = q1 % P9();
    f2_mm(p0, q0); f2_mm(p1, q1); f2_mm(p0, q1); f2_mm(p1, q0);
    f2_cong_mul(a1 * b1, p1 * q1, 2);
    f2_cong_add(a0 * b0, p0 * q0, 2 * (a1 * b1), 2 * (p1 * q1));
    f2_cong_add(a0 * b1, p0 * q1, a1 * b0, p1 * q0);
    assert(f2_mul(f2_of(p0, p1), f2_of(q0, q1)) =~= f2_of(p0 * q0 - 2 * (p1 * q1), p0 * q1 + p1 * q0));
}
pub proof fn f2_of_mul_u(p0: int, p1: int) ensures f2_mul(f2_of(p0, p1), f2_u()) == f2_of(0 - 2 * p1, p0)
{
    f2_of_ok(p0, p1);
    f2_lemma_mul_u(f2_of(p0, p1));
    f2_modmod(p1); f2_modmod(p0);
    f2_cong_mul(p1 % P9(), p1, 2);
    f2_cong_add(0, 0, 2 * (p1 % P9()), 2 * p1);
    assert(f2_mul(f2_of(p0, p1), f2_u()) =~= f2_of(0 - 2 * p1, p0));
}
pub proof fn f2_of_consts() ensures f2_zero() == f2_of(0, 0), f2_one() == f2_of(1, 0), f2_u() == f2_of(0, 1)
{
    f2_pos(); f2_small(0); f2_small(1);
    assert(f2_zero() =~= f2_of(0, 0)); assert(f2_one() =~= f2_of(1, 0)); assert(f2_u() =~= f2_of(0, 1));
}
// ---------------------------------------------------------------- Fp2 is a commutative ring (what the layers above need beyond sm9_fp2's lemmas)
pub proof fn f2_lemma_add_assoc(a: Seq<int>, b: Seq<int>, c: Seq<int>) requires f2_ok(a), f2_ok(b), f2_ok(c)
    ensures f2_add(f2_add(a, b), c) == f2_add(a, f2_add(b, c))
{
    f2_of_self(a); f2_of_self(b); f2_of_self(c);
    f2_of_add(a[0], a[1], b[0], b[1]); f2_of_add(a[0] + b[0], a[1] + b[1], c[0], c[1]);
    f2_of_add(b[0], b[1], c[0], c[1]); f2_of_add(a[0], a[1], b[0] + c[0], b[1] + c[1]);
}
pub proof fn f2_lemma_sub_neg(a: Seq<int>, b: Seq<int>) requires f2_ok(a), f2_ok(b)
    ensures f2_sub(a, b) == f2_add(a, f2_neg(b)), f2_sub(a, b) == f2_neg(f2_sub(b, a)), f2_sub(a, a) == f2_zero(), f2_neg(f2_neg(a)) == a,
        f2_add(f2_sub(a, b), b) == a
{
    f2_of_self(a); f2_of_self(b); f2_of_consts();
    f2_of_sub(a[0], a[1], b[0], b[1]); f2_of_neg(b[0], b[1]); f2_of_add(a[0], a[1], 0 - b[0], 0 - b[1]);
    f2_of_sub(b[0], b[1], a[0], a[1]); f2_of_neg(b[0] - a[0], b[1] - a[1]);
    f2_of_sub(a[0], a[1], a[0], a[1]);
    f2_of_neg(a[0], a[1]); f2_of_neg(0 - a[0], 0 - a[1]);
    f2_of_add(a[0] - b[0], a[1] - b[1], b[0], b[1]);
}
pub proof fn f2_lemma_mul_assoc(a: Seq<int>, b: Seq<int>, c: Seq<int>) requires f2_ok(a), f2_ok(b), f2_ok(c)
    ensures f2_mul(f2_mul(a, b), c) == f2_mul(a, f2_mul(b, c))
{
    let a0 = a[0]; let a1 = a[1]; let b0 = b[0]; let b1 = b[1]; let c0 = c[0]; let c1 = c[1];
    f2_of_self(a); f2_of_self(b); f2_of_self(c);
    f2_of_mul(a0, a1, b0, b1);
    let m0 = a0 * b0 - 2 * (a1 * b1); let m1 = a0 * b1 + a1 * b0;
    f2_of_mul(m0, m1, c0, c1);
    f2_of_mul(b0, b1, c0, c1);
    let n0 = b0 * c0 - 2 * (b1 * c1); let n1 = b0 * c1 + b1 * c0;
    f2_of_mul(a0, a1, n0, n1);
    ring_f2_assoc0(a0, a1, b0, b1, c0, c1); ring_f2_assoc1(a0, a1, b0, b1, c0, c1);
}
#[verifier::external_body]
pub proof fn ring_f2_assoc0(a0: int, a1: int, b0: int, b1: int, c0: int, c1: int)
    ensures (a0 * b0 - 2 * (a1 * b1)) * c0 - 2 * ((a0 * b1 + a1 * b0) * c1) == a0 * (b0 * c0 - 2 * (b1 * c1)) - 2 * (a1 * (b0 * c1 + b1 * c0))
{ }
#[verifier::external_body]
pub proof fn ring_f2_assoc1(a0: int, a1: int, b0: int, b1: int, c0: int, c1: int)
    ensures (a0 * b0 - 2 * (a1 * b1)) * c1 + (a0 * b1 + a1 * b0) * c0 == a0 * (b0 * c1 + b1 * c0) + a1 * (b0 * c0 - 2 * (b1 * c1))
{ }
pub proof fn f2_lemma_distrib(a: Seq<int>, b: Seq<int>, c: Seq<int>) requires f2_ok(a), f2_ok(b), f2_ok(c)
    ensures f2_mul(f2_add(a, b), c) == f2_add(f2_mul(a, c), f2_mul(b, c)), f2_mul(c, f2_add(a, b)) == f2_add(f2_mul(c, a), f2_mul(c, b)),
        f2_mul(f2_sub(a, b), c) == f2_sub(f2_mul(a, c), f2_mul(b, c)),
{
    let a0 = a[0]; let a1 = a[1]; let b0 = b[0]; let b1 = b[1]; let c0 = c[0]; let c1 = c[1];
    f2_of_self(a); f2_of_self(b); f2_of_self(c);
    f2_of_add(a0, a1, b0, b1); f2_of_mul(a0 + b0, a1 + b1, c0, c1);
    f2_of_sub(a0, a1, b0, b1); f2_of_mul(a0 - b0, a1 - b1, c0, c1);
    f2_of_mul(a0, a1, c0, c1); f2_of_mul(b0, b1, c0, c1);
    f2_of_add(a0 * c0 - 2 * (a1 * c1), a0 * c1 + a1 * c0, b0 * c0 - 2 * (b1 * c1), b0 * c1 + b1 * c0);
    f2_of_sub(a0 * c0 - 2 * (a1 * c1), a0 * c1 + a1 * c0, b0 * c0 - 2 * (b1 * c1), b0 * c1 + b1 * c0);
    assert((a0 + b0) * c0 - 2 * ((a1 + b1) * c1) == (a0 * c0 - 2 * (a1 * c1)) + (b0 * c0 - 2 * (b1 * c1))) by(nonlinear_arith);
    assert((a0 + b0) * c1 + (a1 + b1) * c0 == (a0 * c1 + a1 * c0) + (b0 * c1 + b1 * c0)) by(nonlinear_arith);
    assert((a0 - b0) * c0 - 2 * ((a1 - b1) * c1) == (a0 * c0 - 2 * (a1 * c1)) - (b0 * c0 - 2 * (b1 * c1))) by(nonlinear_arith);
    assert((a0 - b0) * c1 + (a1 - b1) * c0 == (a0 * c1 + a1 * c0) - (b0 * c1 + b1 * c0)) by(nonlinear_arith);
    f2_lemma_mul_comm(f2_add(a, b), c); f2_lemma_mul_comm(a, c); f2_lemma_mul_comm(b, c);
}
pub proof fn f2_lemma_mul_neg(a: Seq<int>, b: Seq<int>) requires f2_ok(a), f2_ok(b)
    ensures f2_mul(f2_neg(a), b) == f2_neg(f2_mul(a, b)), f2_mul(a, f2_neg(b)) == f2_neg(f2_mul(a, b))
{
    let a0 = a[0]; let a1 = a[1]; let b0 = b[0]; let b1 = b[1];
    f2_of_self(a); f2_of_self(b);
    f2_of_neg(a0, a1); f2_of_neg(b0, b1);
    f2_of_mul(0 - a0, 0 - a1, b0, b1); f2_of_mul(a0, a1, 0 - b0, 0 - b1); f2_of_mul(a0, a1, b0, b1);
    f2_of_neg(a0 * b0 - 2 * (a1 * b1), a0 * b1 + a1 * b0);
    assert((0 - a0) * b0 - 2 * ((0 - a1) * b1) == 0 - (a0 * b0 - 2 * (a1 * b1))) by(nonlinear_arith);
    assert((0 - a0) * b1 + (0 - a1) * b0 == 0 - (a0 * b1 + a1 * b0)) by(nonlinear_arith);
    assert(a0 * (0 - b0) - 2 * (a1 * (0 - b1)) == 0 - (a0 * b0 - 2 * (a1 * b1))) by(nonlinear_arith);
    assert(a0 * (0 - b1) + a1 * (0 - b0) == 0 - (a0 * b1 + a1 * b0)) by(nonlinear_arith);
}
// the inverse of the negative is the negative of the inverse (total: also where the norm is 0)
pub proof fn f2_lemma_inv_neg(n: Seq<int>) requires f2_ok(n) ensures f2_inv(f2_neg(n)) == f2_neg(f2_inv(n))
{
    f2_pos();
    let n0 = n[0]; let n1 = n[1];
    let m = f2_neg(n); let m0 = (P9() - n0) % P9(); let m1 = (P9() - n1) % P9();
    assert(m[0] == m0 && m[1] == m1);
    f2_small(n0); f2_small(n1);
    f2_cn(m0, n0, n0); f2_cn(m1, n1, n1);
    // the norms are congruent
    let s0 = (m0 * m0) % P9(); f2_cm(s0, m0, m0, 0 - n0, 0 - n0);
    let s1 = (m1 * m1) % P9(); f2_cm(s1, m1, m1, 0 - n1, 0 - n1);
    f2_modmod(m0 * m0); f2_modmod(m1 * m1);
    assert((0 - n0) * (0 - n0) == n0 * n0) by(nonlinear_arith);
    assert((0 - n1) * (0 - n1) == n1 * n1) by(nonlinear_arith);
    f2_cong_mul(m1 * m1, n1 * n1, 2);
    f2_cong_add(m0 * m0, n0 * n0, 2 * (m1 * m1), 2 * (n1 * n1));
    f2_inv_cong(f2_norm(m), f2_norm(n));
    let d = inv_p9(f2_norm(n));
    // components
    let i0 = (n0 * d) % P9(); let i1 = ((P9() - n1) * d) % P9();
    let l0 = (m0 * d) % P9(); let l1 = ((P9() - m1) * d) % P9();
    f2_cm(l0, m0, d, 0 - n0, d);
    f2_cm(i0, n0, d, n0, d);
    let r0 = (P9() - i0) % P9(); f2_cn(r0, i0, n0 * d);
    assert((0 - n0) * d == 0 - n0 * d) by(nonlinear_arith);
    let pm1 = (P9() - m1) % P9(); f2_cn(pm1, m1, 0 - n1);
    f2_cong_mul(P9() - m1, pm1, d); f2_modmod(P9() - m1);
    f2_cm(l1, pm1, d, 0 - (0 - n1), d);
    let pn1 = (P9() - n1) % P9(); f2_cn(pn1, n1, n1);
    f2_cong_mul(P9() - n1, pn1, d); f2_modmod(P9() - n1);
    f2_cm(i1, pn1, d, 0 - n1, d);
    let r1 = (P9() - i1) % P9(); f2_cn(r1, i1, (0 - n1) * d);
    assert((0 - (0 - n1)) * d == 0 - (0 - n1) * d) by(nonlinear_arith);
    assert(f2_inv(m) =~= f2_neg(f2_inv(n)));
}
// Karatsuba's middle term
pub proof fn f2_lemma_karatsuba(a0: Seq<int>, a1: Seq<int>, b0: Seq<int>, b1: Seq<int>) requires f2_ok(a0), f2_ok(a1), f2_ok(b0), f2_ok(b1)
    ensures f2_sub(f2_sub(f2_mul(f2_add(b0, b1), f2_add(a0, a1)), f2_mul(a0, b0)), f2_mul(a1, b1)) == f2_add(f2_mul(a0, b1), f2_mul(a1, b0))
{
    let x0 = a0[0]; let x1 = a0[1]; let x2 = a1[0]; let x3 = a1[1]; let y0 = b0[0]; let y1 = b0[1]; let y2 = b1[0]; let y3 = b1[1];
    f2_of_self(a0); f2_of_self(a1); f2_of_self(b0); f2_of_self(b1);
    f2_of_add(y0, y1, y2, y3); f2_of_add(x0, x1, x2, x3);
    f2_of_mul(y0 + y2, y1 + y3, x0 + x2, x1 + x3);
    let m0 = (y0 + y2) * (x0 + x2) - 2 * ((y1 + y3) * (x1 + x3)); let m1 = (y0 + y2) * (x1 + x3) + (y1 + y3) * (x0 + x2);
    f2_of_mul(x0, x1, y0, y1);
    let e0 = x0 * y0 - 2 * (x1 * y1); let e1 = x0 * y1 + x1 * y0;
    f2_of_mul(x2, x3, y2, y3);
    let g0 = x2 * y2 - 2 * (x3 * y3); let g1 = x2 * y3 + x3 * y2;
    f2_of_sub(m0, m1, e0, e1); f2_of_sub(m0 - e0, m1 - e1, g0, g1);
    f2_of_mul(x0, x1, y2, y3);
    let h0 = x0 * y2 - 2 * (x1 * y3); let h1 = x0 * y3 + x1 * y2;
    f2_of_mul(x2, x3, y0, y1);
    let k0 = x2 * y0 - 2 * (x3 * y1); let k1 = x2 * y1 + x3 * y0;
    f2_of_add(h0, h1, k0, k1);
    ring_f2_kara0(x0, x1, x2, x3, y0, y1, y2, y3); ring_f2_kara1(x0, x1, x2, x3, y0, y1, y2, y3);
}
#[verifier::external_body]
pub proof fn ring_f2_kara0(x0: int, x1: int, x2: int, x3: int, y0: int, y1: int, y2: int, y3: int)
    ensures ((y0 + y2) * (x0 + x2) - 2 * ((y1 + y3) * (x1 + x3))) - (x0 * y0 - 2 * (x1 * y1)) - (x2 * y2 - 2 * (x3 * y3)) == (x0 * y2 - 2 * (x1 * y3)) + (x2 * y0 - 2 * (x3 * y1))
{ }
#[verifier::external_body]
pub proof fn ring_f2_kara1(x0: int, x1: int, x2: int, x3: int, y0: int, y1: int, y2: int, y3: int)
    ensures ((y0 + y2) * (x1 + x3) + (y1 + y3) * (x0 + x2)) - (x0 * y1 + x1 * y0) - (x2 * y3 + x3 * y2) == (x0 * y3 + x1 * y2) + (x2 * y1 + x3 * y0)
{ }
// ---------------------------------------------------------------- Fp4: range, units, the formulas of the code
pub proof fn f4_lemma_ok_mk(x: Seq<int>, y: Seq<int>) requires f2_ok(x), f2_ok(y) ensures f4_ok(f4_mk(x, y)), f4_lo(f4_mk(x, y)) == x, f4_hi(f4_mk(x, y)) == y
{ f4_split(x, y); }
pub proof fn f4_lemma_ok_ops(a: Seq<int>, b: Seq<int>) requires f4_ok(a), f4_ok(b)
    ensures f4_ok(f4_add(a, b)), f4_ok(f4_sub(a, b)), f4_ok(f4_mul(a, b)), f4_ok(f4_neg(a)), f4_ok(f4_inv(a)), f4_ok(f4_conj(a)),
        f4_ok(f4_zero()), f4_ok(f4_one()), f4_ok(f4_v()), f2_ok(f4_norm(a)),
{
    let a0 = f4_lo(a); let a1 = f4_hi(a); let b0 = f4_lo(b); let b1 = f4_hi(b);
    f2_lemma_ok_ops(a0, b0); f2_lemma_ok_ops(a1, b1); f2_lemma_ok_ops(a0, b1); f2_lemma_ok_ops(a1, b0);
    f2_lemma_ok_ops(f2_mul(a1, b1), f2_u());
    f2_lemma_ok_ops(f2_mul(a0, b0), f2_mul(f2_mul(a1, b1), f2_u()));
    f2_lemma_ok_ops(f2_mul(a0, b1), f2_mul(a1, b0));
    f2_lemma_ok_ops(a0, a0); f2_lemma_ok_ops(a1, a1);
    f2_lemma_ok_ops(f2_mul(a1, a1), f2_u());
    f2_lemma_ok_ops(f2_mul(a0, a0), f2_mul(f2_mul(a1, a1), f2_u()));
    let ni = f2_inv(f4_norm(a));
    f2_lemma_ok_ops(f4_norm(a), f4_norm(a));
    f2_lemma_ok_ops(a0, ni); f2_lemma_ok_ops(f2_neg(a1), ni);
    f4_lemma_ok_mk(f2_add(a0, b0), f2_add(a1, b1));
    f4_lemma_ok_mk(f2_sub(a0, b0), f2_sub(a1, b1));
    f4_lemma_ok_mk(f2_add(f2_mul(a0, b0), f2_mul(f2_mul(a1, b1), f2_u())), f2_add(f2_mul(a0, b1), f2_mul(a1, b0)));
    f4_lemma_ok_mk(f2_neg(a0), f2_neg(a1));
    f4_lemma_ok_mk(f2_mul(a0, ni), f2_mul(f2_neg(a1), ni));
    f4_lemma_ok_mk(a0, f2_neg(a1));
    f4_lemma_ok_mk(f2_zero(), f2_zero()); f4_lemma_ok_mk(f2_one(), f2_zero()); f4_lemma_ok_mk(f2_zero(), f2_one());
}
// a * v = a1 u + a0 v
pub proof fn f4_lemma_mul_v(a: Seq<int>) requires f4_ok(a) ensures f4_mul(a, f4_v()) == f4_mk(f2_mul(f4_hi(a), f2_u()), f4_lo(a))
{
    let a0 = f4_lo(a); let a1 = f4_hi(a);
    f2_lemma_ok_ops(a1, f2_u());
    f4_split(f2_zero(), f2_one());
    f2_lemma_mul_zero(a0); f2_lemma_mul_zero(a1); f2_lemma_mul_one(a0); f2_lemma_mul_one(a1);
    f2_lemma_add_comm(f2_zero(), f2_mul(a1, f2_u())); f2_lemma_add_zero(f2_mul(a1, f2_u()));
    f2_lemma_add_zero(a0);
}
// multiplication by an embedded Fp2 / Fp element is the scalar multiple
pub proof fn f4_lemma_scale2(a: Seq<int>, k: Seq<int>) requires f4_ok(a), f2_ok(k) ensures f4_mul(a, f4_fp2(k)) == f4_scale2(a, k)
{
    let a0 = f4_lo(a); let a1 = f4_hi(a);
    f4_split(k, f2_zero());
    f2_lemma_ok_ops(a0, k); f2_lemma_ok_ops(a1, k);
    f2_lemma_mul_zero(a0); f2_lemma_mul_zero(a1); f2_lemma_mul_zero(f2_u());
    f2_lemma_add_zero(f2_mul(a0, k));
    f2_lemma_add_comm(f2_zero(), f2_mul(a1, k)); f2_lemma_add_zero(f2_mul(a1, k));
}
pub proof fn f4_lemma_scale(a: Seq<int>, k: int) requires f4_ok(a), 0 <= k < P9() ensures f4_mul(a, f4_fp(k)) == f4_scale(a, k)
{
    assert(f2_ok(f2_fp(k)));
    f4_lemma_scale2(a, f2_fp(k));
    f2_lemma_scale(f4_lo(a), k); f2_lemma_scale(f4_hi(a), k);
}
pub proof fn f4_lemma_mk_inj(x: Seq<int>, y: Seq<int>, x2: Seq<int>, y2: Seq<int>) requires x.len() == 2, y.len() == 2, x2.len() == 2, y2.len() == 2
    ensures (f4_mk(x, y) == f4_mk(x2, y2)) == (x == x2 && y == y2)
{ f4_split(x, y); f4_split(x2, y2); }
// a * b * v = (a0 b1 + a1 b0) u + (a0 b0 + a1 b1 u) v, the first coefficient as the code computes it
pub proof fn f4_lemma_mul_mul_v(a: Seq<int>, b: Seq<int>) requires f4_ok(a), f4_ok(b)
    ensures f4_mul(f4_mul(a, b), f4_v()) == f4_mk(f2_add(f2_mul(f2_mul(f4_lo(a), f4_hi(b)), f2_u()), f2_mul(f2_mul(f4_hi(a), f4_lo(b)), f2_u())),
                                                 f2_add(f2_mul(f4_lo(a), f4_lo(b)), f2_mul(f2_mul(f4_hi(a), f4_hi(b)), f2_u())))
{
    let a0 = f4_lo(a); let a1 = f4_hi(a); let b0 = f4_lo(b); let b1 = f4_hi(b);
    f4_lemma_ok_ops(a, b);
    f4_lemma_mul_v(f4_mul(a, b));
    f2_lemma_ok_ops(a0, b0); f2_lemma_ok_ops(a1, b1); f2_lemma_ok_ops(a0, b1); f2_lemma_ok_ops(a1, b0);
    f2_lemma_ok_ops(f2_mul(a1, b1), f2_u());
    f2_lemma_ok_ops(f2_mul(a0, b0), f2_mul(f2_mul(a1, b1), f2_u()));
    f2_lemma_ok_ops(f2_mul(a0, b1), f2_mul(a1, b0));
    f4_split(f2_add(f2_mul(a0, b0), f2_mul(f2_mul(a1, b1), f2_u())), f2_add(f2_mul(a0, b1), f2_mul(a1, b0)));
    f2_lemma_distrib(f2_mul(a0, b1), f2_mul(a1, b0), f2_u());
}
// fp_inv as the code computes it: k = (a1^2 u - a0^2)^-1 = -(norm^-1), r0 = -(a0 k), r1 = a1 k
pub proof fn f4_lemma_inv_code(a0: Seq<int>, a1: Seq<int>) requires f2_ok(a0), f2_ok(a1)
    ensures ({
        let k = f2_inv(f2_sub(f2_mul(f2_mul(a1, a1), f2_u()), f2_mul(a0, a0)));
        let ni = f2_inv(f2_sub(f2_mul(a0, a0), f2_mul(f2_mul(a1, a1), f2_u())));
        f2_neg(f2_mul(a0, k)) == f2_mul(a0, ni) && f2_mul(a1, k) == f2_mul(f2_neg(a1), ni)
    })
{
    let x = f2_mul(f2_mul(a1, a1), f2_u()); let y = f2_mul(a0, a0);
    f2_lemma_ok_ops(a1, a1); f2_lemma_ok_ops(f2_mul(a1, a1), f2_u()); f2_lemma_ok_ops(a0, a0);
    let n = f2_sub(y, x); let ni = f2_inv(n);
    f2_lemma_ok_ops(y, x); f2_lemma_ok_ops(n, n);
    f2_lemma_sub_neg(x, y);
    f2_lemma_inv_neg(n);
    f2_lemma_mul_neg(a0, ni); f2_lemma_mul_neg(a1, ni);
    f2_lemma_ok_ops(a0, ni);
    f2_lemma_sub_neg(f2_mul(a0, ni), f2_mul(a0, ni));
}
// ---------------------------------------------------------------- Z^4 -> Fp4, a ring homomorphism (Z[u, v]/(u^2 + 2, v^2 - u) reduced mod p)
pub open spec fn f4_of(p0: int, p1: int, p2: int, p3: int) -> Seq<int> { f4_mk(f2_of(p0, p1), f2_of(p2, p3)) }
pub proof fn f4_of_ok(p0: int, p1: int, p2: int, p3: int)
    ensures f4_ok(f4_of(p0, p1, p2, p3)), f4_lo(f4_of(p0, p1, p2, p3)) == f2_of(p0, p1), f4_hi(f4_of(p0, p1, p2, p3)) == f2_of(p2, p3)
{ f2_of_ok(p0, p1); f2_of_ok(p2, p3); f4_lemma_ok_mk(f2_of(p0, p1), f2_of(p2, p3)); }
pub proof fn f4_of_self(a: Seq<int>) requires f4_ok(a) ensures a == f4_of(a[0], a[1], a[2], a[3])
{ f4_join(a); f2_of_self(f4_lo(a)); f2_of_self(f4_hi(a)); }
pub proof fn f4_of_eq(p0: int, p1: int, p2: int, p3: int, q0: int, q1: int, q2: int, q3: int)
    requires p0 % P9() == q0 % P9(), p1 % P9() == q1 % P9(), p2 % P9() == q2 % P9(), p3 % P9() == q3 % P9()
    ensures f4_of(p0, p1, p2, p3) == f4_of(q0, q1, q2, q3)
{ }
pub proof fn f4_of_add(p0: int, p1: int, p2: int, p3: int, q0: int, q1: int, q2: int, q3: int)
    ensures f4_add(f4_of(p0, p1, p2, p3), f4_of(q0, q1, q2, q3)) == f4_of(p0 + q0, p1 + q1, p2 + q2, p3 + q3)
{ f4_of_ok(p0, p1, p2, p3); f4_of_ok(q0, q1, q2, q3); f2_of_add(p0, p1, q0, q1); f2_of_add(p2, p3, q2, q3); }
pub proof fn f4_of_sub(p0: int, p1: int, p2: int, p3: int, q0: int, q1: int, q2: int, q3: int)
    ensures f4_sub(f4_of(p0, p1, p2, p3), f4_of(q0, q1, q2, q3)) == f4_of(p0 - q0, p1 - q1, p2 - q2, p3 - q3)
{ f4_of_ok(p0, p1, p2, p3); f4_of_ok(q0, q1, q2, q3); f2_of_sub(p0, p1, q0, q1); f2_of_sub(p2, p3, q2, q3); }
pub proof fn f4_of_neg(p0: int, p1: int, p2: int, p3: int)
    ensures f4_neg(f4_of(p0, p1, p2, p3)) == f4_of(0 - p0, 0 - p1, 0 - p2, 0 - p3)
{ f4_of_ok(p0, p1, p2, p3); f2_of_neg(p0, p1); f2_of_neg(p2, p3); }
// (p0 + p1 u + (p2 + p3 u) v)(q0 + q1 u + (q2 + q3 u) v) with u^2 = -2, v^2 = u
pub proof fn f4_of_mul(p0: int, p1: int, p2: int, p3: int, q0: int, q1: int, q2: int, q3: int)
    ensures f4_mul(f4_of(p0, p1, p2, p3), f4_of(q0, q1, q2, q3)) == f4_of(
        p0 * q0 - 2 * (p1 * q1) - 2 * (p2 * q3 + p3 * q2),
        p0 * q1 + p1 * q0 + p2 * q2 - 2 * (p3 * q3),
        p0 * q2 - 2 * (p1 * q3) + p2 * q0 - 2 * (p3 * q1),
        p0 * q3 + p1 * q2 + p2 * q1 + p3 * q0)
{
    f4_of_ok(p0, p1, p2, p3); f4_of_ok(q0, q1, q2, q3);
    f2_of_mul(p0, p1, q0, q1);
    f2_of_mul(p2, p3, q2, q3);
    f2_of_mul_u(p2 * q2 - 2 * (p3 * q3), p2 * q3 + p3 * q2);
    f2_of_add(p0 * q0 - 2 * (p1 * q1), p0 * q1 + p1 * q0, 0 - 2 * (p2 * q3 + p3 * q2), p2 * q2 - 2 * (p3 * q3));
    f2_of_mul(p0, p1, q2, q3);
    f2_of_mul(p2, p3, q0, q1);
    f2_of_add(p0 * q2 - 2 * (p1 * q3), p0 * q3 + p1 * q2, p2 * q0 - 2 * (p3 * q1), p2 * q1 + p3 * q0);
}
pub proof fn f4_of_mul_v(p0: int, p1: int, p2: int, p3: int)
    ensures f4_mul(f4_of(p0, p1, p2, p3), f4_v()) == f4_of(0 - 2 * p3, p2, p0, p1)
{
    f4_of_ok(p0, p1, p2, p3);
    f4_lemma_mul_v(f4_of(p0, p1, p2, p3));
    f2_of_mul_u(p2, p3);
}
pub proof fn f4_of_consts() ensures f4_zero() == f4_of(0, 0, 0, 0), f4_one() == f4_of(1, 0, 0, 0), f4_v() == f4_of(0, 0, 1, 0)
{ f2_of_consts(); }
pub proof fn f4_of_fp2(k0: int, k1: int) ensures f4_fp2(f2_of(k0, k1)) == f4_of(k0, k1, 0, 0)
{ f2_of_consts(); }
// ---------------------------------------------------------------- Fp4 is a commutative ring
pub proof fn f4_lemma_add_comm(a: Seq<int>, b: Seq<int>) ensures f4_add(a, b) == f4_add(b, a)
{ f2_lemma_add_comm(f4_lo(a), f4_lo(b)); f2_lemma_add_comm(f4_hi(a), f4_hi(b)); }
pub proof fn f4_lemma_mul_comm(a: Seq<int>, b: Seq<int>) ensures f4_mul(a, b) == f4_mul(b, a)
{
    let a0 = f4_lo(a); let a1 = f4_hi(a); let b0 = f4_lo(b); let b1 = f4_hi(b);
    f2_lemma_mul_comm(a0, b0); f2_lemma_mul_comm(a1, b1); f2_lemma_mul_comm(a0, b1); f2_lemma_mul_comm(a1, b0);
    f2_lemma_add_comm(f2_mul(a0, b1), f2_mul(a1, b0));
}
pub proof fn f4_lemma_add_assoc(a: Seq<int>, b: Seq<int>, c: Seq<int>) requires f4_ok(a), f4_ok(b), f4_ok(c)
    ensures f4_add(f4_add(a, b), c) == f4_add(a, f4_add(b, c))
{
    f2_lemma_add_assoc(f4_lo(a), f4_lo(b), f4_lo(c)); f2_lemma_add_assoc(f4_hi(a), f4_hi(b), f4_hi(c));
    f4_split(f2_add(f4_lo(a), f4_lo(b)), f2_add(f4_hi(a), f4_hi(b)));
    f4_split(f2_add(f4_lo(b), f4_lo(c)), f2_add(f4_hi(b), f4_hi(c)));
}
pub proof fn f4_lemma_add_zero(a: Seq<int>) requires f4_ok(a) ensures f4_add(a, f4_zero()) == a, f4_add(f4_zero(), a) == a
{
    f4_split(f2_zero(), f2_zero()); f4_join(a);
    f2_lemma_add_zero(f4_lo(a)); f2_lemma_add_zero(f4_hi(a));
    f4_lemma_add_comm(a, f4_zero());
}
pub proof fn f4_lemma_sub_neg(a: Seq<int>, b: Seq<int>) requires f4_ok(a), f4_ok(b)
    ensures f4_sub(a, b) == f4_add(a, f4_neg(b)), f4_sub(a, b) == f4_neg(f4_sub(b, a)), f4_sub(a, a) == f4_zero(), f4_neg(f4_neg(a)) == a,
        f4_add(f4_sub(a, b), b) == a
{
    f2_lemma_sub_neg(f4_lo(a), f4_lo(b)); f2_lemma_sub_neg(f4_hi(a), f4_hi(b));
    f4_split(f2_neg(f4_lo(b)), f2_neg(f4_hi(b)));
    f4_split(f2_neg(f4_lo(a)), f2_neg(f4_hi(a)));
    f4_split(f2_sub(f4_lo(b), f4_lo(a)), f2_sub(f4_hi(b), f4_hi(a)));
    f4_split(f2_sub(f4_lo(a), f4_lo(b)), f2_sub(f4_hi(a), f4_hi(b)));
    f4_join(a);
}
pub proof fn f4_lemma_mul_one(a: Seq<int>) requires f4_ok(a) ensures f4_mul(a, f4_one()) == a, f4_mul(f4_one(), a) == a
{
    let a0 = f4_lo(a); let a1 = f4_hi(a);
    f4_split(f2_one(), f2_zero()); f4_join(a);
    f2_lemma_mul_one(a0); f2_lemma_mul_one(a1); f2_lemma_mul_zero(a0); f2_lemma_mul_zero(a1); f2_lemma_mul_zero(f2_u());
    f2_lemma_add_zero(a0);
    f2_lemma_add_comm(f2_zero(), a1); f2_lemma_add_zero(a1);
    f4_lemma_mul_comm(a, f4_one());
}
pub proof fn f4_lemma_mul_zero(a: Seq<int>) ensures f4_mul(a, f4_zero()) == f4_zero(), f4_mul(f4_zero(), a) == f4_zero()
{
    let a0 = f4_lo(a); let a1 = f4_hi(a);
    f4_split(f2_zero(), f2_zero());
    f2_lemma_mul_zero(a0); f2_lemma_mul_zero(a1); f2_lemma_mul_zero(f2_u());
    f2_lemma_ok_ops(a0, a0); f2_lemma_add_zero(f2_zero());
    f4_lemma_mul_comm(a, f4_zero());
}
pub proof fn f4_lemma_mul_neg(a: Seq<int>, b: Seq<int>) requires f4_ok(a), f4_ok(b)
    ensures f4_mul(f4_neg(a), b) == f4_neg(f4_mul(a, b)), f4_mul(a, f4_neg(b)) == f4_neg(f4_mul(a, b))
{
    f4_of_self(a); f4_of_self(b);
    let a0 = a[0]; let a1 = a[1]; let a2 = a[2]; let a3 = a[3]; let b0 = b[0]; let b1 = b[1]; let b2 = b[2]; let b3 = b[3];
    f4_of_neg(a0, a1, a2, a3);
    f4_of_mul(a0, a1, a2, a3, b0, b1, b2, b3);
    f4_of_mul(0 - a0, 0 - a1, 0 - a2, 0 - a3, b0, b1, b2, b3);
    f4_of_neg(a0 * b0 - 2 * (a1 * b1) - 2 * (a2 * b3 + a3 * b2), a0 * b1 + a1 * b0 + a2 * b2 - 2 * (a3 * b3),
              a0 * b2 - 2 * (a1 * b3) + a2 * b0 - 2 * (a3 * b1), a0 * b3 + a1 * b2 + a2 * b1 + a3 * b0);
    f4_nm(a0, b0); f4_nm(a0, b1); f4_nm(a0, b2); f4_nm(a0, b3); f4_nm(a1, b0); f4_nm(a1, b1); f4_nm(a1, b2); f4_nm(a1, b3);
    f4_nm(a2, b0); f4_nm(a2, b1); f4_nm(a2, b2); f4_nm(a2, b3); f4_nm(a3, b0); f4_nm(a3, b1); f4_nm(a3, b2); f4_nm(a3, b3);
    f4_lemma_ok_ops(a, b);
    f4_lemma_mul_comm(a, f4_neg(b)); f4_lemma_mul_comm(a, b);
    // the second equation by commutativity from the first, with the roles exchanged
    f4_of_neg(b0, b1, b2, b3);
    f4_of_mul(b0, b1, b2, b3, a0, a1, a2, a3);
    f4_of_mul(0 - b0, 0 - b1, 0 - b2, 0 - b3, a0, a1, a2, a3);
    f4_of_neg(b0 * a0 - 2 * (b1 * a1) - 2 * (b2 * a3 + b3 * a2), b0 * a1 + b1 * a0 + b2 * a2 - 2 * (b3 * a3),
              b0 * a2 - 2 * (b1 * a3) + b2 * a0 - 2 * (b3 * a1), b0 * a3 + b1 * a2 + b2 * a1 + b3 * a0);
    f4_nm(b0, a0); f4_nm(b0, a1); f4_nm(b0, a2); f4_nm(b0, a3); f4_nm(b1, a0); f4_nm(b1, a1); f4_nm(b1, a2); f4_nm(b1, a3);
    f4_nm(b2, a0); f4_nm(b2, a1); f4_nm(b2, a2); f4_nm(b2, a3); f4_nm(b3, a0); f4_nm(b3, a1); f4_nm(b3, a2); f4_nm(b3, a3);
    f4_lemma_mul_comm(f4_neg(b), a); f4_lemma_mul_comm(b, a);
}
pub proof fn f4_nm(x: int, y: int) ensures (0 - x) * y == 0 - x * y
{ assert((0 - x) * y == 0 - x * y) by(nonlinear_arith); }
// f4_inv is the multiplicative inverse wherever the norm (an element of Fp2) is invertible
pub proof fn f4_lemma_inv(a: Seq<int>) requires f4_ok(a), f2_norm(f4_norm(a)) % P9() != 0 ensures f4_mul(a, f4_inv(a)) == f4_one()
{
    let a0 = f4_lo(a); let a1 = f4_hi(a); let u = f2_u();
    let y = f2_mul(a0, a0); let s = f2_mul(a1, a1); let x = f2_mul(s, u);
    let n = f2_sub(y, x); let ni = f2_inv(n);
    assert(n == f4_norm(a));
    f2_lemma_inv(n);
    f2_lemma_ok_ops(a0, a0); f2_lemma_ok_ops(a1, a1); f2_lemma_ok_ops(s, u); f2_lemma_ok_ops(y, x); f2_lemma_ok_ops(n, n);
    let na1 = f2_neg(a1);
    f2_lemma_ok_ops(a0, ni); f2_lemma_ok_ops(a1, ni); f2_lemma_ok_ops(na1, ni);
    f4_split(f2_mul(a0, ni), f2_mul(na1, ni));
    // c0 = a0 (a0 ni) + (a1 (-a1 ni)) u = y ni - x ni = n ni = 1
    f2_lemma_mul_assoc(a0, a0, ni);
    f2_lemma_mul_neg(a1, ni);                      // (-a1) ni == -(a1 ni)
    f2_lemma_mul_neg(a1, f2_mul(a1, ni));          // a1 (-(a1 ni)) == -(a1 (a1 ni))
    f2_lemma_mul_assoc(a1, a1, ni);                // a1 (a1 ni) == s ni
    f2_lemma_ok_ops(s, ni);
    f2_lemma_mul_neg(f2_mul(s, ni), u);            // (-(s ni)) u == -((s ni) u)
    f2_lemma_mul_assoc(s, ni, u); f2_lemma_mul_comm(ni, u); f2_lemma_mul_assoc(s, u, ni);   // (s ni) u == s (ni u) == s (u ni) == x ni
    f2_lemma_ok_ops(y, ni); f2_lemma_ok_ops(x, ni);
    f2_lemma_sub_neg(f2_mul(y, ni), f2_mul(x, ni));
    f2_lemma_distrib(y, x, ni);
    // c1 = a0 (-a1 ni) + a1 (a0 ni) = -z + z = 0,  z = a0 (a1 ni)
    let z = f2_mul(a0, f2_mul(a1, ni));
    f2_lemma_mul_neg(a0, f2_mul(a1, ni));
    f2_lemma_mul_assoc(a1, a0, ni); f2_lemma_mul_comm(a1, a0); f2_lemma_mul_assoc(a0, a1, ni);
    f2_lemma_ok_ops(a0, f2_mul(a1, ni));
    f2_lemma_add_comm(f2_neg(z), z);
    f2_lemma_sub_neg(z, z);
}
// equal halves
pub proof fn f4_lemma_ext(a: Seq<int>, b: Seq<int>) requires a.len() == 4, b.len() == 4, f4_lo(a) == f4_lo(b), f4_hi(a) == f4_hi(b) ensures a == b
{ f4_join(a); f4_join(b); }
// halving is unique (p is odd): what fp_div2's contract `r + r == a` determines
pub proof fn f2_half_unique_int(x: int, y: int) requires 0 <= x < P9(), 0 <= y < P9(), (x + x) % P9() == (y + y) % P9() ensures x == y
{
    f2_pos();
    assert(P9() % 2 == 1) by(compute);
    lemma_fundamental_div_mod(x + x, P9()); lemma_fundamental_div_mod(y + y, P9());
    let q1 = (x + x) / P9(); let q2 = (y + y) / P9(); let r = (x + x) % P9();
    f2_range(x + x);
    assert(0 <= q1 <= 1) by(nonlinear_arith) requires x + x == P9() * q1 + r, 0 <= r < P9(), 0 <= x + x < 2 * P9();
    assert(0 <= q2 <= 1) by(nonlinear_arith) requires y + y == P9() * q2 + r, 0 <= r < P9(), 0 <= y + y < 2 * P9();
    if q1 != q2 {
        assert(P9() * 1 == P9()); assert(P9() * 0 == 0);
        assert(false);
    }
}
pub proof fn f2_lemma_half_unique(x: Seq<int>, y: Seq<int>) requires f2_ok(x), f2_ok(y), f2_add(x, x) == f2_add(y, y) ensures x == y
{
    assert(f2_add(x, x)[0] == f2_add(y, y)[0] && f2_add(x, x)[1] == f2_add(y, y)[1]);
    f2_half_unique_int(x[0], y[0]); f2_half_unique_int(x[1], y[1]);
    assert(x =~= y);
}
pub proof fn f4_lemma_half_unique(x: Seq<int>, y: Seq<int>) requires f4_ok(x), f4_ok(y), f4_add(x, x) == f4_add(y, y) ensures x == y
{
    f4_split(f2_add(f4_lo(x), f4_lo(x)), f2_add(f4_hi(x), f4_hi(x)));
    f4_split(f2_add(f4_lo(y), f4_lo(y)), f2_add(f4_hi(y), f4_hi(y)));
    f2_lemma_half_unique(f4_lo(x), f4_lo(y)); f2_lemma_half_unique(f4_hi(x), f4_hi(y));
    f4_lemma_ext(x, y);
}
pub proof fn f4_lemma_mul_assoc(a: Seq<int>, b: Seq<int>, c: Seq<int>) requires f4_ok(a), f4_ok(b), f4_ok(c)
    ensures f4_mul(f4_mul(a, b), c) == f4_mul(a, f4_mul(b, c))
{
    let a0 = a[0]; let a1 = a[1]; let a2 = a[2]; let a3 = a[3]; let b0 = b[0]; let b1 = b[1]; let b2 = b[2]; let b3 = b[3]; let c0 = c[0]; let c1 = c[1]; let c2 = c[2]; let c3 = c[3];
    f4_of_self(a); f4_of_self(b); f4_of_self(c);
    f4_of_mul(a0, a1, a2, a3, b0, b1, b2, b3);
    f4_of_mul(a0 * b0 - 2 * (a1 * b1) - 2 * (a2 * b3 + a3 * b2), a0 * b1 + a1 * b0 + a2 * b2 - 2 * (a3 * b3), a0 * b2 - 2 * (a1 * b3) + a2 * b0 - 2 * (a3 * b1), a0 * b3 + a1 * b2 + a2 * b1 + a3 * b0, c0, c1, c2, c3);
    f4_of_mul(b0, b1, b2, b3, c0, c1, c2, c3);
    f4_of_mul(a0, a1, a2, a3, b0 * c0 - 2 * (b1 * c1) - 2 * (b2 * c3 + b3 * c2), b0 * c1 + b1 * c0 + b2 * c2 - 2 * (b3 * c3), b0 * c2 - 2 * (b1 * c3) + b2 * c0 - 2 * (b3 * c1), b0 * c3 + b1 * c2 + b2 * c1 + b3 * c0);
    ring_f4_assoc0(a0, a1, a2, a3, b0, b1, b2, b3, c0, c1, c2, c3); ring_f4_assoc1(a0, a1, a2, a3, b0, b1, b2, b3, c0, c1, c2, c3); ring_f4_assoc2(a0, a1, a2, a3, b0, b1, b2, b3, c0, c1, c2, c3); ring_f4_assoc3(a0, a1, a2, a3, b0, b1, b2, b3, c0, c1, c2, c3);
}
#[verifier::external_body]
pub proof fn ring_f4_assoc0(a0: int, a1: int, a2: int, a3: int, b0: int, b1: int, b2: int, b3: int, c0: int, c1: int, c2: int, c3: int)
    ensures (a0 * b0 - 2 * (a1 * b1) - 2 * (a2 * b3 + a3 * b2)) * c0 - 2 * ((a0 * b1 + a1 * b0 + a2 * b2 - 2 * (a3 * b3)) * c1) - 2 * ((a0 * b2 - 2 * (a1 * b3) + a2 * b0 - 2 * (a3 * b1)) * c3 + (a0 * b3 + a1 * b2 + a2 * b1 + a3 * b0) * c2) == a0 * (b0 * c0 - 2 * (b1 * c1) - 2 * (b2 * c3 + b3 * c2)) - 2 * (a1 * (b0 * c1 + b1 * c0 + b2 * c2 - 2 * (b3 * c3))) - 2 * (a2 * (b0 * c3 + b1 * c2 + b2 * c1 + b3 * c0) + a3 * (b0 * c2 - 2 * (b1 * c3) + b2 * c0 - 2 * (b3 * c1)))
{ }
#[verifier::external_body]
pub proof fn ring_f4_assoc1(a0: int, a1: int, a2: int, a3: int, b0: int, b1: int, b2: int, b3: int, c0: int, c1: int, c2: int, c3: int)
    ensures (a0 * b0 - 2 * (a1 * b1) - 2 * (a2 * b3 + a3 * b2)) * c1 + (a0 * b1 + a1 * b0 + a2 * b2 - 2 * (a3 * b3)) * c0 + (a0 * b2 - 2 * (a1 * b3) + a2 * b0 - 2 * (a3 * b1)) * c2 - 2 * ((a0 * b3 + a1 * b2 + a2 * b1 + a3 * b0) * c3) == a0 * (b0 * c1 + b1 * c0 + b2 * c2 - 2 * (b3 * c3)) + a1 * (b0 * c0 - 2 * (b1 * c1) - 2 * (b2 * c3 + b3 * c2)) + a2 * (b0 * c2 - 2 * (b1 * c3) + b2 * c0 - 2 * (b3 * c1)) - 2 * (a3 * (b0 * c3 + b1 * c2 + b2 * c1 + b3 * c0))
{ }
#[verifier::external_body]
pub proof fn ring_f4_assoc2(a0: int, a1: int, a2: int, a3: int, b0: int, b1: int, b2: int, b3: int, c0: int, c1: int, c2: int, c3: int)
    ensures (a0 * b0 - 2 * (a1 * b1) - 2 * (a2 * b3 + a3 * b2)) * c2 - 2 * ((a0 * b1 + a1 * b0 + a2 * b2 - 2 * (a3 * b3)) * c3) + (a0 * b2 - 2 * (a1 * b3) + a2 * b0 - 2 * (a3 * b1)) * c0 - 2 * ((a0 * b3 + a1 * b2 + a2 * b1 + a3 * b0) * c1) == a0 * (b0 * c2 - 2 * (b1 * c3) + b2 * c0 - 2 * (b3 * c1)) - 2 * (a1 * (b0 * c3 + b1 * c2 + b2 * c1 + b3 * c0)) + a2 * (b0 * c0 - 2 * (b1 * c1) - 2 * (b2 * c3 + b3 * c2)) - 2 * (a3 * (b0 * c1 + b1 * c0 + b2 * c2 - 2 * (b3 * c3)))
{ }
#[verifier::external_body]
pub proof fn ring_f4_assoc3(a0: int, a1: int, a2: int, a3: int, b0: int, b1: int, b2: int, b3: int, c0: int, c1: int, c2: int, c3: int)
    ensures (a0 * b0 - 2 * (a1 * b1) - 2 * (a2 * b3 + a3 * b2)) * c3 + (a0 * b1 + a1 * b0 + a2 * b2 - 2 * (a3 * b3)) * c2 + (a0 * b2 - 2 * (a1 * b3) + a2 * b0 - 2 * (a3 * b1)) * c1 + (a0 * b3 + a1 * b2 + a2 * b1 + a3 * b0) * c0 == a0 * (b0 * c3 + b1 * c2 + b2 * c1 + b3 * c0) + a1 * (b0 * c2 - 2 * (b1 * c3) + b2 * c0 - 2 * (b3 * c1)) + a2 * (b0 * c1 + b1 * c0 + b2 * c2 - 2 * (b3 * c3)) + a3 * (b0 * c0 - 2 * (b1 * c1) - 2 * (b2 * c3 + b3 * c2))
{ }
pub proof fn f4_lemma_distrib(a: Seq<int>, b: Seq<int>, c: Seq<int>) requires f4_ok(a), f4_ok(b), f4_ok(c)
    ensures f4_mul(f4_add(a, b), c) == f4_add(f4_mul(a, c), f4_mul(b, c)), f4_mul(c, f4_add(a, b)) == f4_add(f4_mul(c, a), f4_mul(c, b)),
        f4_mul(f4_sub(a, b), c) == f4_sub(f4_mul(a, c), f4_mul(b, c)),
{
    let a0 = a[0]; let a1 = a[1]; let a2 = a[2]; let a3 = a[3]; let b0 = b[0]; let b1 = b[1]; let b2 = b[2]; let b3 = b[3]; let c0 = c[0]; let c1 = c[1]; let c2 = c[2]; let c3 = c[3];
    f4_of_self(a); f4_of_self(b); f4_of_self(c);
    f4_of_add(a0, a1, a2, a3, b0, b1, b2, b3); f4_of_sub(a0, a1, a2, a3, b0, b1, b2, b3);
    f4_of_mul(a0 + b0, a1 + b1, a2 + b2, a3 + b3, c0, c1, c2, c3);
    f4_of_mul(a0 - b0, a1 - b1, a2 - b2, a3 - b3, c0, c1, c2, c3);
    f4_of_mul(a0, a1, a2, a3, c0, c1, c2, c3);
    f4_of_mul(b0, b1, b2, b3, c0, c1, c2, c3);
    f4_of_add(a0 * c0 - 2 * (a1 * c1) - 2 * (a2 * c3 + a3 * c2), a0 * c1 + a1 * c0 + a2 * c2 - 2 * (a3 * c3), a0 * c2 - 2 * (a1 * c3) + a2 * c0 - 2 * (a3 * c1), a0 * c3 + a1 * c2 + a2 * c1 + a3 * c0, b0 * c0 - 2 * (b1 * c1) - 2 * (b2 * c3 + b3 * c2), b0 * c1 + b1 * c0 + b2 * c2 - 2 * (b3 * c3), b0 * c2 - 2 * (b1 * c3) + b2 * c0 - 2 * (b3 * c1), b0 * c3 + b1 * c2 + b2 * c1 + b3 * c0);
    f4_of_sub(a0 * c0 - 2 * (a1 * c1) - 2 * (a2 * c3 + a3 * c2), a0 * c1 + a1 * c0 + a2 * c2 - 2 * (a3 * c3), a0 * c2 - 2 * (a1 * c3) + a2 * c0 - 2 * (a3 * c1), a0 * c3 + a1 * c2 + a2 * c1 + a3 * c0, b0 * c0 - 2 * (b1 * c1) - 2 * (b2 * c3 + b3 * c2), b0 * c1 + b1 * c0 + b2 * c2 - 2 * (b3 * c3), b0 * c2 - 2 * (b1 * c3) + b2 * c0 - 2 * (b3 * c1), b0 * c3 + b1 * c2 + b2 * c1 + b3 * c0);
    ring_f4_dist0(a0, a1, a2, a3, b0, b1, b2, b3, c0, c1, c2, c3); ring_f4_dist1(a0, a1, a2, a3, b0, b1, b2, b3, c0, c1, c2, c3); ring_f4_dist2(a0, a1, a2, a3, b0, b1, b2, b3, c0, c1, c2, c3); ring_f4_dist3(a0, a1, a2, a3, b0, b1, b2, b3, c0, c1, c2, c3);
    ring_f4_dists0(a0, a1, a2, a3, b0, b1, b2, b3, c0, c1, c2, c3); ring_f4_dists1(a0, a1, a2, a3, b0, b1, b2, b3, c0, c1, c2, c3); ring_f4_dists2(a0, a1, a2, a3, b0, b1, b2, b3, c0, c1, c2, c3); ring_f4_dists3(a0, a1, a2, a3, b0, b1, b2, b3, c0, c1, c2, c3);
    f4_lemma_ok_ops(a, b);
    f4_lemma_mul_comm(f4_add(a, b), c); f4_lemma_mul_comm(a, c); f4_lemma_mul_comm(b, c);
}
#[verifier::external_body]
pub proof fn ring_f4_dist0(a0: int, a1: int, a2: int, a3: int, b0: int, b1: int, b2: int, b3: int, c0: int, c1: int, c2: int, c3: int)
    ensures (a0 + b0) * c0 - 2 * ((a1 + b1) * c1) - 2 * ((a2 + b2) * c3 + (a3 + b3) * c2) == (a0 * c0 - 2 * (a1 * c1) - 2 * (a2 * c3 + a3 * c2)) + (b0 * c0 - 2 * (b1 * c1) - 2 * (b2 * c3 + b3 * c2))
{ }
#[verifier::external_body]
pub proof fn ring_f4_dist1(a0: int, a1: int, a2: int, a3: int, b0: int, b1: int, b2: int, b3: int, c0: int, c1: int, c2: int, c3: int)
    ensures (a0 + b0) * c1 + (a1 + b1) * c0 + (a2 + b2) * c2 - 2 * ((a3 + b3) * c3) == (a0 * c1 + a1 * c0 + a2 * c2 - 2 * (a3 * c3)) + (b0 * c1 + b1 * c0 + b2 * c2 - 2 * (b3 * c3))
{ }
#[verifier::external_body]
pub proof fn ring_f4_dist2(a0: int, a1: int, a2: int, a3: int, b0: int, b1: int, b2: int, b3: int, c0: int, c1: int, c2: int, c3: int)
    ensures (a0 + b0) * c2 - 2 * ((a1 + b1) * c3) + (a2 + b2) * c0 - 2 * ((a3 + b3) * c1) == (a0 * c2 - 2 * (a1 * c3) + a2 * c0 - 2 * (a3 * c1)) + (b0 * c2 - 2 * (b1 * c3) + b2 * c0 - 2 * (b3 * c1))
{ }
#[verifier::external_body]
pub proof fn ring_f4_dist3(a0: int, a1: int, a2: int, a3: int, b0: int, b1: int, b2: int, b3: int, c0: int, c1: int, c2: int, c3: int)
    ensures (a0 + b0) * c3 + (a1 + b1) * c2 + (a2 + b2) * c1 + (a3 + b3) * c0 == (a0 * c3 + a1 * c2 + a2 * c1 + a3 * c0) + (b0 * c3 + b1 * c2 + b2 * c1 + b3 * c0)
{ }
#[verifier::external_body]
pub proof fn ring_f4_dists0(a0: int, a1: int, a2: int, a3: int, b0: int, b1: int, b2: int, b3: int, c0: int, c1: int, c2: int, c3: int)
    ensures (a0 - b0) * c0 - 2 * ((a1 - b1) * c1) - 2 * ((a2 - b2) * c3 + (a3 - b3) * c2) == (a0 * c0 - 2 * (a1 * c1) - 2 * (a2 * c3 + a3 * c2)) - (b0 * c0 - 2 * (b1 * c1) - 2 * (b2 * c3 + b3 * c2))
{ }
#[verifier::external_body]
pub proof fn ring_f4_dists1(a0: int, a1: int, a2: int, a3: int, b0: int, b1: int, b2: int, b3: int, c0: int, c1: int, c2: int, c3: int)
    ensures (a0 - b0) * c1 + (a1 - b1) * c0 + (a2 - b2) * c2 - 2 * ((a3 - b3) * c3) == (a0 * c1 + a1 * c0 + a2 * c2 - 2 * (a3 * c3)) - (b0 * c1 + b1 * c0 + b2 * c2 - 2 * (b3 * c3))
{ }
#[verifier::external_body]
pub proof fn ring_f4_dists2(a0: int, a1: int, a2: int, a3: int, b0: int, b1: int, b2: int, b3: int, c0: int, c1: int, c2: int, c3: int)
    ensures (a0 - b0) * c2 - 2 * ((a1 - b1) * c3) + (a2 - b2) * c0 - 2 * ((a3 - b3) * c1) == (a0 * c2 - 2 * (a1 * c3) + a2 * c0 - 2 * (a3 * c1)) - (b0 * c2 - 2 * (b1 * c3) + b2 * c0 - 2 * (b3 * c1))
{ }
#[verifier::external_body]
pub proof fn ring_f4_dists3(a0: int, a1: int, a2: int, a3: int, b0: int, b1: int, b2: int, b3: int, c0: int, c1: int, c2: int, c3: int)
    ensures (a0 - b0) * c3 + (a1 - b1) * c2 + (a2 - b2) * c1 + (a3 - b3) * c0 == (a0 * c3 + a1 * c2 + a2 * c1 + a3 * c0) - (b0 * c3 + b1 * c2 + b2 * c1 + b3 * c0)
{ }
//@section code gm-sm9/src/u256.rs
type U256 = [u64; 4];
//@section code gm-sm9/src/fields/fp.rs
type Fp = U256;
//@stub-trait sm9_fp FieldElement
//@section code gm-sm9/src/fields/fp2.rs
#[derive(Debug, Copy, Clone)]
struct Fp2 {
    c0: Fp,
    c1: Fp,
}
impl Eq for Fp2 {}
//@stub sm9_fp2 Fp2::eq
//@stub-trait sm9_fp2 FieldElement
//@stub sm9_fp2 Fp2::fp_mul_fp
//@stub sm9_fp2 Fp2::a_mul_u
//@stub sm9_fp2 Fp2::fp_mul_u
//@stub sm9_fp2 Fp2::sqr_u
//@section code gm-sm9/src/fields/fp4.rs
#[derive(Debug, Copy, Clone)]
struct Fp4 {
    c0: Fp2,
    c1: Fp2,
}
//@section spec local
use vstd::std_specs::cmp::PartialEqSpec;
impl vstd::std_specs::cmp::PartialEqSpecImpl for Fp2 {
    open spec fn obeys_eq_spec() -> bool { true }
    closed spec fn eq_spec(&self, other: &Self) -> bool { self.c0@ == other.c0@ && self.c1@ == other.c1@ }
}
impl vstd::std_specs::cmp::PartialEqSpecImpl for Fp4 {
    open spec fn obeys_eq_spec() -> bool { true }
    closed spec fn eq_spec(&self, other: &Self) -> bool { self.c0.c0@ == other.c0.c0@ && self.c0.c1@ == other.c0.c1@ && self.c1.c0@ == other.c1.c0@ && self.c1.c1@ == other.c1.c1@ }
}
// the halves of the value of an Fp4 element
proof fn f4_w(a: Fp4) ensures f4_lo(a.val()) == a.c0.val(), f4_hi(a.val()) == a.c1.val(), a.val().len() == 4, a.ok() ==> f4_ok(a.val()),
    f2_ok(a.c0.val()), f2_ok(a.c1.val())
{
    f2_range(val4(a.c0.c0@) * RINV_P9()); f2_range(val4(a.c0.c1@) * RINV_P9()); f2_range(val4(a.c1.c0@) * RINV_P9()); f2_range(val4(a.c1.c1@) * RINV_P9());
    f4_split(a.c0.val(), a.c1.val());
}
// the Montgomery decoding is injective on canonical limbs, so PartialEq::eq (limb equality of the four coefficients) is equality of
// values for ok operands
proof fn f4_fe_inj(a: Fp, b: Fp) requires canon9(a@), canon9(b@), fe9(a@) == fe9(b@) ensures a@ == b@
{
    lemma_params9(); lemma_val4_bounds(a@); lemma_val4_bounds(b@);
    let x = val4(a@); let y = val4(b@); let u = r256() * RINV_P9();
    f2_cong_mul(x * RINV_P9(), y * RINV_P9(), r256());
    assert(x * RINV_P9() * r256() == x * u) by(nonlinear_arith) requires u == r256() * RINV_P9();
    assert(y * RINV_P9() * r256() == y * u) by(nonlinear_arith) requires u == r256() * RINV_P9();
    f2_unit(x, u); f2_unit(y, u); f2_small(x); f2_small(y);
    lemma_val4_inj(a@, b@);
}
proof fn f4_eq_val(a: Fp4, b: Fp4) requires a.ok(), b.ok() ensures a.eq_spec(&b) == (a.val() == b.val())
{
    f4_w(a); f4_w(b);
    f4_lemma_mk_inj(a.c0.val(), a.c1.val(), b.c0.val(), b.c1.val());
    if a.val() == b.val() {
        assert(a.c0.val()[0] == b.c0.val()[0] && a.c0.val()[1] == b.c0.val()[1] && a.c1.val()[0] == b.c1.val()[0] && a.c1.val()[1] == b.c1.val()[1]);
        f4_fe_inj(a.c0.c0, b.c0.c0); f4_fe_inj(a.c0.c1, b.c0.c1); f4_fe_inj(a.c1.c0, b.c1.c0); f4_fe_inj(a.c1.c1, b.c1.c1);
    }
}
// the limbs written out in mont_one are 1 in Montgomery form (the constant SM9_MODP_MONT_ONE of lib.rs)
spec fn f4_is_mont_one(x: [u64; 4]) -> bool { x@[0] == 0x1a9064d81caeba83 && x@[1] == 0xde0d6cb4e5851124 && x@[2] == 0x29fc54b00a7138ba && x@[3] == 0x49bffffffd5c590e }
spec fn f4_is_limbs_zero(x: [u64; 4]) -> bool { x@[0] == 0 && x@[1] == 0 && x@[2] == 0 && x@[3] == 0 }
spec fn f4_lit_p(x: [u64; 4]) -> bool { (f4_is_mont_one(x) ==> canon9(x@) && fe9(x@) == 1) && (f4_is_limbs_zero(x) ==> canon9(x@) && fe9(x@) == 0) }
proof fn f4_lit() ensures forall|x: [u64; 4]| #![trigger x@] f4_lit_p(x)
{
    assert forall|x: [u64; 4]| #![trigger x@] f4_lit_p(x) by {
        if f4_is_mont_one(x) {
            let m = seq![0x1a9064d81caeba83u64, 0xde0d6cb4e5851124u64, 0x29fc54b00a7138bau64, 0x49bffffffd5c590eu64];
            assert(x@ =~= m);
            assert(canon9(m) && fe9(m) == 1) by(compute);
        }
        if f4_is_limbs_zero(x) {
            let z = seq![0u64, 0u64, 0u64, 0u64];
            assert(x@ =~= z);
            assert(canon9(z) && fe9(z) == 0) by(compute);
        }
    }
}
//@section code gm-sm9/src/fields/fp4.rs
impl Fp4 {
    fn fp_mul_fp(&self, k: &Fp) -> (r: Fp4)
        requires self.ok(), k.ok()
        ensures r.ok(), r.val() == f4_scale(self.val(), fe9(k@)), r.val() == f4_mul(self.val(), f4_fp(fe9(k@)))
    {
        proof { f4_w(*self); f2_range(val4(k@) * RINV_P9()); f4_lemma_scale(self.val(), fe9(k@)); }
        Self {
            c0: self.c0.fp_mul_fp(k),
            c1: self.c1.fp_mul_fp(k),
        }
    }

    fn fp_mul_fp2(&self, k: &Fp2) -> (r: Fp4)
        requires self.ok(), k.ok()
        ensures r.ok(), r.val() == f4_scale2(self.val(), k.val()), r.val() == f4_mul(self.val(), f4_fp2(k.val()))
    {
        proof { f4_w(*self); f2_range(val4(k.c0@) * RINV_P9()); f2_range(val4(k.c1@) * RINV_P9()); f4_lemma_scale2(self.val(), k.val()); }
        Self {
            c0: self.c0.fp_mul(k),
            c1: self.c1.fp_mul(k),
        }
    }
}

impl PartialEq for Fp4 {
    fn eq(&self, other: &Self) -> bool {
        self.c0.eq(&other.c0) && self.c1.eq(&other.c1)
    }
}

impl Eq for Fp4 {}

impl FieldElement for Fp4 {
    spec fn ok(&self) -> bool { self.c0.ok() && self.c1.ok() }
    spec fn val(&self) -> Seq<int> { f4_mk(self.c0.val(), self.c1.val()) }
    spec fn s_zero() -> Seq<int> { f4_zero() }
    spec fn s_one() -> Seq<int> { f4_one() }
    spec fn s_add(a: Seq<int>, b: Seq<int>) -> Seq<int> { f4_add(a, b) }
    spec fn s_sub(a: Seq<int>, b: Seq<int>) -> Seq<int> { f4_sub(a, b) }
    spec fn s_mul(a: Seq<int>, b: Seq<int>) -> Seq<int> { f4_mul(a, b) }
    spec fn s_neg(a: Seq<int>) -> Seq<int> { f4_neg(a) }
    spec fn s_inv(a: Seq<int>) -> Seq<int> { f4_inv(a) }
    spec fn s_bytes(a: Seq<int>) -> Seq<u8> { f4_bytes(a) }

    fn zero() -> Self {
        Fp4 {
            c0: Fp2::zero(),
            c1: Fp2::zero(),
        }
    }

    fn one() -> Self {
        Fp4 {
            c0: Fp2::one(),
            c1: Fp2::zero(),
        }
    }

    fn is_zero(&self) -> bool {
        proof { f4_w(*self); f4_lemma_mk_inj(self.c0.val(), self.c1.val(), f2_zero(), f2_zero()); }
        self.c0.is_zero() && self.c1.is_zero()
    }

    fn fp_sqr(&self) -> Self {
        let mut r0 = Fp2::zero();
        let mut r1 = Fp2::zero();
        let mut t = Fp2::zero();
        proof { f4_w(*self); }

        r1 = self.c0.fp_add(&self.c1);
        r1 = r1.fp_sqr();

        r0 = self.c0.fp_sqr();
        t = self.c1.fp_sqr();

        r1 = r1.fp_sub(&r0);
        r1 = r1.fp_sub(&t);

        t = t.a_mul_u();
        r0 = r0.fp_add(&t);
        proof { f2_lemma_karatsuba(self.c0.val(), self.c1.val(), self.c0.val(), self.c1.val()); }

        Self { c0: r0, c1: r1 }
    }

    fn fp_double(&self) -> Self {
        proof { f4_w(*self); }
        Self {
            c0: self.c0.fp_double(),
            c1: self.c1.fp_double(),
        }
    }

    fn fp_triple(&self) -> Self {
        proof {
            f4_w(*self);
            f4_split(f2_add(self.c0.val(), self.c0.val()), f2_add(self.c1.val(), self.c1.val()));
        }
        Self {
            c0: self.c0.fp_triple(),
            c1: self.c1.fp_triple(),
        }
    }

    fn fp_add(&self, rhs: &Self) -> Self {
        proof { f4_w(*self); f4_w(*rhs); }
        Self {
            c0: self.c0.fp_add(&rhs.c0),
            c1: self.c1.fp_add(&rhs.c1),
        }
    }

    fn fp_sub(&self, rhs: &Self) -> Self {
        proof { f4_w(*self); f4_w(*rhs); }
        Self {
            c0: self.c0.fp_sub(&rhs.c0),
            c1: self.c1.fp_sub(&rhs.c1),
        }
    }

    fn fp_mul(&self, rhs: &Self) -> Self {
        let mut r0 = Fp2::zero();
        let mut r1 = Fp2::zero();
        let mut t = Fp2::zero();
        proof { f4_w(*self); f4_w(*rhs); }

        r0 = self.c0.fp_add(&self.c1);
        t = rhs.c0.fp_add(&rhs.c1);
        r1 = t.fp_mul(&r0);

        r0 = self.c0.fp_mul(&rhs.c0);
        t = self.c1.fp_mul(&rhs.c1);

        r1 = r1.fp_sub(&r0);
        r1 = r1.fp_sub(&t);

        t = t.a_mul_u();
        r0 = r0.fp_add(&t);
        proof { f2_lemma_karatsuba(self.c0.val(), self.c1.val(), rhs.c0.val(), rhs.c1.val()); }

        Self { c0: r0, c1: r1 }
    }

    fn fp_neg(&self) -> Self {
        proof { f4_w(*self); }
        Self {
            c0: self.c0.fp_neg(),
            c1: self.c1.fp_neg(),
        }
    }

    fn fp_div2(&self) -> Self {
        proof { f4_w(*self); }
        Self {
            c0: self.c0.fp_div2(),
            c1: self.c1.fp_div2(),
        }
    }

    fn fp_inv(&self) -> Self {
        let mut r0 = Fp2::zero();
        let mut r1 = Fp2::zero();
        let mut k = Fp2::zero();
        proof { f4_w(*self); }

        k = self.c1.sqr_u();
        r0 = self.c0.fp_sqr();
        k = k.fp_sub(&r0);
        k = k.fp_inv();

        r0 = self.c0.fp_mul(&k);
        r0 = r0.fp_neg();

        r1 = self.c1.fp_mul(&k);
        proof { f4_lemma_inv_code(self.c0.val(), self.c1.val()); }

        Self { c0: r0, c1: r1 }
    }

    fn to_bytes_be(&self) -> Vec<u8> {
        let mut bytes: Vec<u8> = vec![];
        proof { f4_w(*self); }
        bytes.extend_from_slice(self.c1.to_bytes_be().as_slice());
        bytes.extend_from_slice(self.c0.to_bytes_be().as_slice());
        bytes
    }
}

impl Fp4 {
    fn mont_one() -> (r: Self)
        ensures r.ok(), r.val() == f4_one()
    {
        proof { f4_lit(); }
        Fp4 {
            c0: Fp2 {
                c0: [
                    0x1a9064d81caeba83,
                    0xde0d6cb4e5851124,
                    0x29fc54b00a7138ba,
                    0x49bffffffd5c590e,
                ],
                c1: [0, 0, 0, 0],
            },
            c1: Fp2::zero(),
        }
    }

    fn fp_mul_v(&self, b: &Self) -> (r: Self)
        requires self.ok(), b.ok()
        ensures r.ok(), r.val() == f4_mul(f4_mul(self.val(), b.val()), f4_v())
    {
        let mut r0 = Fp2::zero();
        let mut r1 = Fp2::zero();
        let mut t = Fp2::zero();
        proof { f4_w(*self); f4_w(*b); }

        r0 = self.c0.fp_mul_u(&b.c1);
        t = self.c1.fp_mul_u(&b.c0);
        r0 = r0.fp_add(&t);

        r1 = self.c0.fp_mul(&b.c0);
        t = self.c1.fp_mul_u(&b.c1);
        r1 = r1.fp_add(&t);
        proof { f4_lemma_mul_mul_v(self.val(), b.val()); }

        Self { c0: r0, c1: r1 }
    }

    fn a_mul_v(&self) -> (r: Self)
        requires self.ok()
        ensures r.ok(), r.val() == f4_mul(self.val(), f4_v())
    {
        let mut r0 = Fp2::zero();
        let mut a0 = Fp2::zero();
        let mut a1 = Fp2::zero();
        proof { f4_w(*self); f4_lemma_mul_v(self.val()); }

        a0 = self.c0;
        a1 = self.c1;

        //r1 = a0
        //r0 = a1 * u
        r0 = a1.a_mul_u();

        Self { c0: r0, c1: a0 }
    }

    fn conjugate(&self) -> (r: Self)
        requires self.ok()
        ensures r.ok(), r.val() == f4_conj(self.val())
    {
        proof { f4_w(*self); }
        let r0 = self.c0;
        let r1 = self.c1.fp_neg();
        Self { c0: r0, c1: r1 }
    }

    fn sqr_v(&self) -> (r: Self)
        requires self.ok()
        ensures r.ok(), r.val() == f4_mul(f4_mul(self.val(), self.val()), f4_v())
    {
        let mut r0 = Fp2::zero();
        let mut r1 = Fp2::zero();
        let mut t = Fp2::zero();
        proof { f4_w(*self); }

        t = self.c0.fp_mul_u(&self.c1);
        r0 = t.fp_double();

        r1 = self.c0.fp_sqr();
        t = self.c1.sqr_u();
        r1 = r1.fp_add(&t);
        proof { f4_lemma_mul_mul_v(self.val(), self.val()); f2_lemma_mul_comm(self.c1.val(), self.c0.val()); }

        Self { c0: r0, c1: r1 }
    }
}
