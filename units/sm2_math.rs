//@unit sm2_math
//@serves C03 C04 C05 C06 C09 C10 C11 C13 C14 C15 C16 C17 C19 C20
//@assume SM2 parameters p, n, b, G in the spec are a transcription of GB/T 32918.5 (compared with the code constants by ground lemmas in the units that use them)
//@assume p and n are prime; the curve points form an abelian group under g_add (axioms ax_*)
//@section spec
use vstd::arithmetic::div_mod::*;
// ---------------------------------------------------------------- integers and limbs
pub open spec fn r256() -> int { 0x1_0000_0000_0000_0000int * 0x1_0000_0000_0000_0000int * 0x1_0000_0000_0000_0000int * 0x1_0000_0000_0000_0000int }
// little-endian limb value, Horner form with a literal 2^64 (keeps limb reasoning linear)
pub open spec fn val4(a: Seq<u64>) -> int {
    a[0] as int + 0x1_0000_0000_0000_0000int * (a[1] as int + 0x1_0000_0000_0000_0000int * (a[2] as int + 0x1_0000_0000_0000_0000int * (a[3] as int)))
}
pub open spec fn val8(a: Seq<u64>) -> int { val4(a.subrange(0, 4)) + r256() * val4(a.subrange(4, 8)) }
pub proof fn lemma_val4_bounds(a: Seq<u64>) requires a.len() == 4 ensures 0 <= val4(a) < r256() { }
pub proof fn lemma_val4_inj(a: Seq<u64>, b: Seq<u64>) requires a.len() == 4, b.len() == 4, val4(a) == val4(b) ensures a =~= b { }
pub proof fn lemma_val4_zero(a: Seq<u64>) requires a.len() == 4 ensures (val4(a) == 0) == (a =~= seq![0u64, 0u64, 0u64, 0u64]) { }

// big-endian byte strings
pub open spec fn be_val(b: Seq<u8>) -> int decreases b.len() { if b.len() == 0 { 0 } else { 256 * be_val(b.drop_last()) + b.last() as int } }
pub open spec fn be_bytes(v: int, n: nat) -> Seq<u8> decreases n { if n == 0 { Seq::empty() } else { be_bytes(v / 256, (n - 1) as nat).push((v % 256) as u8) } }
pub proof fn lemma_be_bytes_len(v: int, n: nat) ensures be_bytes(v, n).len() == n decreases n { if n > 0 { lemma_be_bytes_len(v / 256, (n - 1) as nat); } }
pub open spec fn pow256n(n: nat) -> int decreases n { if n == 0 { 1 } else { 256 * pow256n((n - 1) as nat) } }
pub proof fn lemma_be_roundtrip(v: int, n: nat)
    requires 0 <= v < pow256n(n)
    ensures be_val(be_bytes(v, n)) == v
    decreases n
{
    if n > 0 {
        lemma_be_bytes_len(v / 256, (n - 1) as nat);
        let s = be_bytes(v, n);
        assert(s.drop_last() =~= be_bytes(v / 256, (n - 1) as nat));
        lemma_be_roundtrip(v / 256, (n - 1) as nat);
    }
}
pub proof fn lemma_be_val_bounds(b: Seq<u8>) ensures 0 <= be_val(b) < pow256n(b.len()) decreases b.len()
{ if b.len() > 0 { lemma_be_val_bounds(b.drop_last()); } }
pub proof fn lemma_be_bytes_of_val(b: Seq<u8>) ensures be_bytes(be_val(b), b.len()) =~= b decreases b.len()
{
    if b.len() > 0 {
        lemma_be_bytes_of_val(b.drop_last());
        lemma_be_val_bounds(b.drop_last());
        let v = be_val(b);
        assert(v / 256 == be_val(b.drop_last()) && v % 256 == b.last() as int);
    }
}
pub proof fn lemma_pow256n_32() ensures pow256n(32) == r256(), pow256n(8) == 0x1_0000_0000_0000_0000int
{
    assert(pow256n(8) == 0x1_0000_0000_0000_0000int) by(compute);
    assert(pow256n(32) == r256()) by(compute);
}

// ---------------------------------------------------------------- SM2 parameters (GB/T 32918.5)
pub open spec fn P() -> int { 0xffffffffffffffffint + 0x1_0000_0000_0000_0000int * (0xffffffff00000000int + 0x1_0000_0000_0000_0000int * (0xffffffffffffffffint + 0x1_0000_0000_0000_0000int * 0xfffffffeffffffffint)) }
pub open spec fn N() -> int { 0x53bbf40939d54123int + 0x1_0000_0000_0000_0000int * (0x7203df6b21c6052bint + 0x1_0000_0000_0000_0000int * (0xffffffffffffffffint + 0x1_0000_0000_0000_0000int * 0xfffffffeffffffffint)) }
pub open spec fn CA() -> int { P() - 3 }
pub open spec fn CB() -> int { 0xddbcbd414d940e93int + 0x1_0000_0000_0000_0000int * (0xf39789f515ab8f92int + 0x1_0000_0000_0000_0000int * (0x4d5a9e4bcf6509a7int + 0x1_0000_0000_0000_0000int * 0x28e9fa9e9d9f5e34int)) }
pub open spec fn GX() -> int { 0x715a4589334c74c7int + 0x1_0000_0000_0000_0000int * (0x8fe30bbff2660be1int + 0x1_0000_0000_0000_0000int * (0x5f9904466a39c994int + 0x1_0000_0000_0000_0000int * 0x32c4ae2c1f198119int)) }
pub open spec fn GY() -> int { 0x2df32e52139f0a0int + 0x1_0000_0000_0000_0000int * (0xd0a9877cc62a4740int + 0x1_0000_0000_0000_0000int * (0x59bdcee36b692153int + 0x1_0000_0000_0000_0000int * 0xbc3736a2f4f6779cint)) }
// 2^-256 mod p and mod n (Montgomery decoding factors)
pub open spec fn RINV_P() -> int { 0xfffffff900000004int + 0x1_0000_0000_0000_0000int * (0xfffffffd00000006int + 0x1_0000_0000_0000_0000int * (0xfffffffc00000002int + 0x1_0000_0000_0000_0000int * 0xfffffffb00000005int)) }
pub open spec fn RINV_N() -> int { 0x13e93c0567b935eaint + 0x1_0000_0000_0000_0000int * (0xf0e551783f95fa12int + 0x1_0000_0000_0000_0000int * (0xa81ba1178588d900int + 0x1_0000_0000_0000_0000int * 0x6f39132f13abb48cint)) }
pub proof fn lemma_params()
    ensures 0 < N() < P(), P() < r256(), r256() < 2 * N(), (r256() * RINV_P()) % P() == 1, (r256() * RINV_N()) % N() == 1, 0 < RINV_P() < P(), 0 < RINV_N() < N(),
        0 <= CB() < P(), 0 <= GX() < P(), 0 <= GY() < P(), (GY() * GY()) % P() == (GX() * GX() * GX() + CA() * GX() + CB()) % P(),
{
    assert(0 < N() < P() && P() < r256() && r256() < 2 * N()) by(compute);
    assert((r256() * RINV_P()) % P() == 1) by(compute);
    assert((r256() * RINV_N()) % N() == 1) by(compute);
    assert(0 < RINV_P() < P() && 0 < RINV_N() < N()) by(compute);
    assert(0 <= CB() < P() && 0 <= GX() < P() && 0 <= GY() < P()) by(compute);
    assert((GY() * GY()) % P() == (GX() * GX() * GX() + CA() * GX() + CB()) % P()) by(compute);
}

// ---------------------------------------------------------------- field elements
// a U256 holding a field element mod p in Montgomery form denotes fe(a)
pub open spec fn fe(a: Seq<u64>) -> int { (val4(a) * RINV_P()) % P() }
pub open spec fn canon(a: Seq<u64>) -> bool { a.len() == 4 && val4(a) < P() }
// modular inverse mod p: defined as the Fermat power the code computes; its inverse property needs p prime (axiom)
pub open spec fn pow_mod(x: int, e: nat, m: int) -> int decreases e { if e == 0 { 1int % m } else { (pow_mod(x, (e - 1) as nat, m) * x) % m } }
pub open spec fn inv_p(x: int) -> int { pow_mod(x, (P() - 2) as nat, P()) }
pub open spec fn inv_n(x: int) -> int { pow_mod(x, (N() - 2) as nat, N()) }
#[verifier::external_body]
pub proof fn ax_inv_p(x: int) requires x % P() != 0 ensures (x * inv_p(x)) % P() == 1, 0 <= inv_p(x) < P() { }
#[verifier::external_body]
pub proof fn ax_inv_n(x: int) requires x % N() != 0 ensures (x * inv_n(x)) % N() == 1, 0 <= inv_n(x) < N() { }

// ---------------------------------------------------------------- the curve group
pub enum Pt { Inf, Aff { x: int, y: int } }
pub open spec fn on_curve(q: Pt) -> bool {
    match q { Pt::Inf => true, Pt::Aff { x, y } => 0 <= x < P() && 0 <= y < P() && (y * y) % P() == (x * x * x + CA() * x + CB()) % P() }
}
pub open spec fn G() -> Pt { Pt::Aff { x: GX(), y: GY() } }
pub open spec fn g_neg(a: Pt) -> Pt { match a { Pt::Inf => Pt::Inf, Pt::Aff { x, y } => Pt::Aff { x, y: (P() - y) % P() } } }
// chord-and-tangent law in affine coordinates
pub open spec fn g_add(a: Pt, b: Pt) -> Pt {
    match (a, b) {
        (Pt::Inf, _) => b,
        (_, Pt::Inf) => a,
        (Pt::Aff { x: x1, y: y1 }, Pt::Aff { x: x2, y: y2 }) =>
            if x1 == x2 && (y1 + y2) % P() == 0 { Pt::Inf }
            else {
                let lam = if x1 == x2 { ((3 * x1 * x1 + CA()) * inv_p(2 * y1)) % P() } else { ((y2 - y1) * inv_p(x2 - x1)) % P() };
                let x3 = (lam * lam - x1 - x2) % P();
                Pt::Aff { x: x3, y: (lam * (x1 - x3) - y1) % P() }
            }
    }
}
pub open spec fn g_smul(k: int, a: Pt) -> Pt decreases k { if k <= 0 { Pt::Inf } else { g_add(g_smul(k - 1, a), a) } }
// group axioms (assumed: textbook facts about elliptic curves over a prime field)
#[verifier::external_body]
pub proof fn ax_group_closed(a: Pt, b: Pt) requires on_curve(a), on_curve(b) ensures on_curve(g_add(a, b)) { }
#[verifier::external_body]
pub proof fn ax_group_comm(a: Pt, b: Pt) requires on_curve(a), on_curve(b) ensures g_add(a, b) == g_add(b, a) { }
#[verifier::external_body]
pub proof fn ax_group_assoc(a: Pt, b: Pt, c: Pt) requires on_curve(a), on_curve(b), on_curve(c) ensures g_add(g_add(a, b), c) == g_add(a, g_add(b, c)) { }
#[verifier::external_body]
pub proof fn ax_group_order(a: Pt) requires on_curve(a) ensures g_smul(N(), a) == Pt::Inf { }
pub proof fn lemma_smul_closed(k: int, a: Pt) requires on_curve(a) ensures on_curve(g_smul(k, a)) decreases k
{ if k > 0 { lemma_smul_closed(k - 1, a); ax_group_closed(g_smul(k - 1, a), a); } }
pub proof fn lemma_smul_add(j: int, k: int, a: Pt) requires on_curve(a), j >= 0, k >= 0 ensures g_smul(j + k, a) == g_add(g_smul(j, a), g_smul(k, a)) decreases k
{
    lemma_smul_closed(j, a);
    if k > 0 {
        lemma_smul_add(j, k - 1, a);
        lemma_smul_closed(k - 1, a);
        ax_group_assoc(g_smul(j, a), g_smul(k - 1, a), a);
    }
}
// Jacobian coordinates in Montgomery form -> abstract point
pub open spec fn abs_pt(x: Seq<u64>, y: Seq<u64>, z: Seq<u64>) -> Pt {
    if val4(z) == 0 { Pt::Inf } else {
        let zi = inv_p(fe(z));
        Pt::Aff { x: (fe(x) * zi * zi) % P(), y: (fe(y) * zi * zi * zi) % P() }
    }
}
