//@unit sm2_util
//@serves C03 C04 C05 C06 C15 C20
//@source gm-sm2/src/util.rs
//@assume str bytes: shim_str_len / shim_str_bytes return the length and the UTF-8 bytes of a &str (external_body shims whose body is the replaced std call)
//@assume ((klen as f64) / 32.0).ceil() as u32 == ceil(klen / 32) for klen < 2^53 (shim_ceil_div32, external_body whose body is the replaced expression)
//@rewrite be
//@rewrite-text id.len() ==> shim_str_len(id)
//@rewrite-text id.bytes() ==> shim_str_bytes(id)
//@rewrite-text ((klen as f64) / 32.0).ceil() as u32 ==> shim_ceil_div32(klen)
//@include-spec sm2_math
//@include-spec sm3
//@include-spec sm2_ecc
//@section spec
use core::fmt::Debug;
pub uninterp spec fn str_bytes(s: &str) -> Seq<u8>;
pub open spec fn shim_len_spec(s: &str) -> usize { str_bytes(s).len() as usize }
#[verifier::external_body]
fn shim_str_len(s: &str) -> (r: usize) ensures r == str_bytes(s).len() { s.len() }
#[verifier::external_body]
fn shim_str_bytes(s: &str) -> (r: Vec<u8>) ensures r@ == str_bytes(s) { s.bytes().collect() }
#[verifier::external_body]
fn shim_ceil_div32(klen: usize) -> (r: u32) requires klen < 0x1_0000_0000 ensures r as int == (klen + 31) / 32 { ((klen as f64) / 32.0).ceil() as u32 }
#[verifier::external_body]
fn shim_to_be_u32(x: u32) -> (r: [u8; 4]) ensures r@ == be_bytes(x as int, 4) { x.to_be_bytes() }
#[verifier::external_body]
#[derive(Debug)]
pub struct IoError;
pub struct BigEndian;
pub trait WriteBytesExt {
    spec fn wbytes(&self) -> Seq<u8>;
    fn write_u16<E>(&mut self, v: u16) -> (r: Result<(), IoError>)
        ensures r is Ok, final(self).wbytes() == old(self).wbytes() + be_bytes(v as int, 2);
}
impl WriteBytesExt for Vec<u8> {
    open spec fn wbytes(&self) -> Seq<u8> { self@ }
    #[verifier::external_body]
    fn write_u16<E>(&mut self, v: u16) -> (r: Result<(), IoError>) { self.extend_from_slice(&v.to_be_bytes()); Ok(()) }
}
// ---------------- GB/T 32918.2 5.5 (ZA) and GB/T 32918.4 5.4.3 (KDF) ----------------
pub open spec fn s_za(id: Seq<u8>, xa: int, ya: int) -> Seq<u8> {
    sm3_spec(be_bytes(8 * (id.len() as int), 2) + id + be_bytes(CA(), 32) + be_bytes(CB(), 32) + be_bytes(GX(), 32) + be_bytes(GY(), 32) + be_bytes(xa, 32) + be_bytes(ya, 32))
}
pub open spec fn s_kdf_blocks(z: Seq<u8>, n: nat) -> Seq<u8> decreases n {
    if n == 0 { Seq::empty() } else { s_kdf_blocks(z, (n - 1) as nat) + sm3_spec(z + be_bytes(n as int, 4)) }
}
pub open spec fn s_kdf(z: Seq<u8>, klen: nat) -> Seq<u8> { s_kdf_blocks(z, ((klen + 31) / 32) as nat).subrange(0, klen as int) }
pub open spec fn s_xor(a: Seq<u8>, b: Seq<u8>) -> Seq<u8> { Seq::new(a.len(), |i: int| a[i] ^ b[i]) }
pub proof fn lemma_kdf_blocks_len(z: Seq<u8>, n: nat) ensures s_kdf_blocks(z, n).len() == 32 * n decreases n
{ if n > 0 { lemma_kdf_blocks_len(z, (n - 1) as nat); lemma_sm3_len(z + be_bytes(n as int, 4)); } }
//@section code gm-sm2/src/u256.rs
type U256 = [u64; 4];
//@section code gm-sm2/src/error.rs
type Sm2Result<T> = Result<T, Sm2Error>;
#[derive(PartialEq)]
enum Sm2Error {
    NotOnCurve,
    FieldSqrtError,
    InvalidDer,
    InvalidPublic,
    InvalidPrivate,
    ZeroDivisor,
    ZeroPoint,
    InvalidPoint,
    CheckPointErr,
    ZeroData,
    HashNotEqual,
    IdTooLong,
    ZeroFiled,
    InvalidFieldLen,
    ZeroSig,
    InvalidDigestLen,
    InvalidDigest,
    InvalidSecretKey,
    KdfHashError,
}
//@section code gm-sm2/src/fields/fp64.rs
const SM2_MODP_MONT_B: U256 = [
    0x90d230632bc0dd42,
    0x71cf379ae9b537ab,
    0x527981505ea51c3c,
    0x240fe188ba20e2c8,
];
const SM2_MODP_MONT_A: U256 = [
    0xfffffffffffffffc,
    0xfffffffc00000003,
    0xffffffffffffffff,
    0xfffffffbffffffff,
];
const SM2_G_X: U256 = [
    0x715a4589334c74c7,
    0x8fe30bbff2660be1,
    0x5f9904466a39c994,
    0x32c4ae2c1f198119,
];
const SM2_G_Y: U256 = [
    0x02df32e52139f0a0,
    0xd0a9877cc62a4740,
    0x59bdcee36b692153,
    0xbc3736a2f4f6779c,
];
//@stub-trait sm2_fp FieldModOperation
//@stub sm2_fp fp_from_mont
//@stub sm3 sm3_hash
//@section code gm-sm2/src/p256_ecc.rs
#[derive(Debug, Clone, Eq, PartialEq, Copy)]
struct Point {
    x: U256,
    y: U256,
    z: U256,
}
//@stub sm2_ecc Point::is_valid
//@stub sm2_ecc Point::to_affine_point
//@section spec local
proof fn lemma_util_consts()
    ensures canon(SM2_MODP_MONT_A@), fe(SM2_MODP_MONT_A@) == CA(), canon(SM2_MODP_MONT_B@), fe(SM2_MODP_MONT_B@) == CB(),
        val4(SM2_G_X@) == GX(), val4(SM2_G_Y@) == GY(),
{
    assert(canon(SM2_MODP_MONT_A@) && fe(SM2_MODP_MONT_A@) == CA()) by(compute);
    assert(canon(SM2_MODP_MONT_B@) && fe(SM2_MODP_MONT_B@) == CB()) by(compute);
    assert(val4(SM2_G_X@) == GX() && val4(SM2_G_Y@) == GY()) by(compute);
}
//@section code gm-sm2/src/util.rs
const DEFAULT_ID: &'static str = "1234567812345678";

//@props C03 C04 C15 C20
fn compute_za(id: &str, pk: &Point) -> (res: Sm2Result<[u8; 32]>)
    requires wf(*pk), val4(pk.z@) != 0, str_bytes(id).len() < 0x1000_0000_0000_0000
    ensures
        res is Ok <==> (on_curve(abs(*pk)) && 8 * str_bytes(id).len() <= 65535),
        res is Ok ==> res->Ok_0@ == s_za(str_bytes(id), abs(*pk)->x, abs(*pk)->y),
{
    if !pk.is_valid() {
        return Err(Sm2Error::InvalidPublic);
    }
    let mut prepend: Vec<u8> = Vec::new();
    if shim_str_len(id) * 8 > 65535 {
        return Err(Sm2Error::IdTooLong);
    }
    prepend
        .write_u16::<BigEndian>((shim_str_len(id) * 8) as u16)
        .unwrap();
    for c in it: shim_str_bytes(id)
        invariant prepend@ == be_bytes(8 * (str_bytes(id).len() as int), 2) + str_bytes(id).take(it.index@ as int), it.index@ <= str_bytes(id).len(),
    {
        prepend.push(c);
    }

    proof {
        lemma_util_consts();
        assert(str_bytes(id).take(str_bytes(id).len() as int) =~= str_bytes(id));
        let l = shim_len_spec(id);
        assert(((l * 8) as u16) as int == 8 * l) by(bit_vector) requires l * 8 <= 65535;
    }
    let ghost p0 = prepend@;
    prepend.extend_from_slice(&fp_from_mont(&SM2_MODP_MONT_A).to_byte_be());
    prepend.extend_from_slice(&fp_from_mont(&SM2_MODP_MONT_B).to_byte_be());
    prepend.extend_from_slice(&SM2_G_X.to_byte_be());
    prepend.extend_from_slice(&SM2_G_Y.to_byte_be());

    let pk_affine = pk.to_affine_point();
    prepend.extend_from_slice(&fp_from_mont(&pk_affine.x).to_byte_be());
    prepend.extend_from_slice(&fp_from_mont(&pk_affine.y).to_byte_be());

    proof {
        lemma_be_bytes_len(CA(), 32); lemma_be_bytes_len(CB(), 32); lemma_be_bytes_len(GX(), 32); lemma_be_bytes_len(GY(), 32);
        lemma_be_bytes_len(fe(pk_affine.x@), 32); lemma_be_bytes_len(fe(pk_affine.y@), 32); lemma_be_bytes_len(8 * (str_bytes(id).len() as int), 2);
        assert(prepend@ =~= p0 + be_bytes(CA(), 32) + be_bytes(CB(), 32) + be_bytes(GX(), 32) + be_bytes(GY(), 32) + be_bytes(abs(*pk)->x, 32) + be_bytes(abs(*pk)->y, 32));
    }
    Ok(sm3_hash(&prepend))
}

//@props C05 C06 C20
fn xor_bytes(a: &[u8], b: &[u8]) -> (result: Vec<u8>)
    requires a@.len() == b@.len()
    ensures result@ == s_xor(a@, b@)
{
    // 确保两个向量的长度相同
    assert!((a.len()) == (b.len()));
    let mut result = Vec::with_capacity(a.len());
    for i in 0..a.len()
        invariant a@.len() == b@.len(), result@.len() == i, forall|k: int| 0 <= k < i ==> result@[k] == a@[k] ^ b@[k],
    {
        result.push(a[i] ^ b[i]);
    }
    proof { assert(result@ =~= s_xor(a@, b@)); }
    result
}

//@props C05 C06 C15 C20
fn kdf(z: &[u8], klen: usize) -> (h_a: Vec<u8>)
    requires 1 <= klen < 0x1_0000_0000, z@.len() < 0x1000_0000_0000_0000
    ensures h_a@ == s_kdf(z@, klen as nat)
{
    let mut ct = 0x00000001u32;
    let bound = shim_ceil_div32(klen);
    let mut h_a = Vec::new();
    for _i in it: 1..bound
        invariant bound as int == (klen + 31) / 32, ct as int == it.index@ + 1, ct <= bound, z@.len() < 0x1000_0000_0000_0000,
            h_a@ == s_kdf_blocks(z@, it.index@ as nat),
    {
        let mut prepend = Vec::new();
        prepend.extend_from_slice(z);
        prepend.extend_from_slice(&shim_to_be_u32(ct));

        proof { assert(prepend@ =~= z@ + be_bytes(ct as int, 4)); assert(prepend@.subrange(0, prepend@.len() as int) =~= prepend@); lemma_be_bytes_len(ct as int, 4); }
        let h_a_i = sm3_hash(&prepend[..]);
        h_a.extend_from_slice(&h_a_i);
        ct += 1;
    }

    let mut prepend = Vec::new();
    prepend.extend_from_slice(z);
    prepend.extend_from_slice(&shim_to_be_u32(ct));

    proof { assert(prepend@ =~= z@ + be_bytes(ct as int, 4)); assert(prepend@.subrange(0, prepend@.len() as int) =~= prepend@); lemma_be_bytes_len(ct as int, 4); }
    let last = sm3_hash(&prepend[..]);
    proof { lemma_kdf_blocks_len(z@, (bound - 1) as nat); lemma_sm3_len(z@ + be_bytes(bound as int, 4)); }
    if klen % 32 == 0 {
        h_a.extend_from_slice(&last);
    } else {
        h_a.extend_from_slice(&last[0..(klen % 32)]);
    }
    proof {
        let full = s_kdf_blocks(z@, bound as nat);
        assert(full == s_kdf_blocks(z@, (bound - 1) as nat) + sm3_spec(z@ + be_bytes(bound as int, 4)));
        assert(h_a@ =~= full.subrange(0, klen as int));
    }
    h_a
}
