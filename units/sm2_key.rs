//@unit sm2_key
//@serves C03 C04 C05 C06 C14 C19 C20
//@safety-pred sign_term_ok
//@source gm-sm2/src/key.rs
//@assume shim_concat2(a, b) == a ++ b; shim_ne_bytes / shim_u256_eq are (in)equality of byte strings / limb arrays (external_body shims whose body is the replaced std expression)
//@assume rand::thread_rng().fill_bytes yields CSPRNG bytes: random_u256 is the only source of `csprng` facts (provenance predicate); the rejection loops terminate with probability 1 (exec_allows_no_decreases_clause) - for sign_raw provided sign_term_ok(d), i.e. d != n-1, which every constructor (new, gen_keypair) is proved to establish
//@assume G has prime order n (ax_g_order): [k]G is the point at infinity iff n | k
//@rewrite-text [digest.to_vec(), msg.to_vec()].concat() ==> shim_concat2(digest.to_vec(), msg.to_vec())
//@rewrite-text id.unwrap_or_else(|| DEFAULT_ID) ==> shim_id_or_default(id)
//@rewrite-text in &t ==> in t.iter()
//@rewrite-text u != c3_bytes ==> shim_ne_bytes(&u, c3_bytes)
//@rewrite-text u256_add(&r, &k).0 == *n ==> shim_u256_eq(&u256_add(&r, &k).0, n)
//@include-spec sm2_math
//@include-spec sm3
//@include-spec sm2_ecc
//@include-spec sm2_util
//@include-spec sm2_rand
//@section spec
use core::fmt::Debug;
use vstd::arithmetic::div_mod::*;
#[verifier::external_body]
fn shim_id_or_default<'a>(id: Option<&'a str>) -> (r: &'a str) ensures r == id_or_default(id) { id.unwrap_or_else(|| DEFAULT_ID) }
spec fn id_or_default<'a>(id: Option<&'a str>) -> &'a str { if id is Some { id->Some_0 } else { DEFAULT_ID } }
#[verifier::external_body]
fn shim_concat2(a: Vec<u8>, b: Vec<u8>) -> (r: Vec<u8>) ensures r@ == a@ + b@ { [a, b].concat() }
#[verifier::external_body]
fn shim_ne_bytes(a: &[u8; 32], b: &[u8]) -> (r: bool) ensures r == !(a@ =~= b@) { a != b }
#[verifier::external_body]
fn shim_u256_eq(a: &U256, b: &U256) -> (r: bool) ensures r == (a@ =~= b@) { a == b }
#[verifier::external_body]
pub proof fn ax_g_order(k: int) requires k >= 0 ensures (g_smul(k, G()) == Pt::Inf) == (k % N() == 0) { }
pub proof fn lemma_kdf_len(z: Seq<u8>, klen: nat) ensures s_kdf(z, klen).len() == klen
{ lemma_kdf_blocks_len(z, ((klen + 31) / 32) as nat); }
pub proof fn lemma_pow_one(e: nat, m: int) requires m > 1 ensures pow_mod(1, e, m) == 1 decreases e
{ if e > 0 { lemma_pow_one((e - 1) as nat, m); lemma_small_mod(1, m as nat); } else { lemma_small_mod(1, m as nat); } }
// z == 1 (Montgomery one): the Jacobian point is its own affine form
pub proof fn lemma_z_one(z: Seq<u64>) requires fe(z) == 1 ensures val4(z) != 0, inv_p(fe(z)) == 1
{ lemma_params(); lemma_pow_one((P() - 2) as nat, P()); if val4(z) == 0 { let v = val4(z); assert(v * RINV_P() == 0) by(nonlinear_arith) requires v == 0; lemma_small_mod(0, P() as nat); } }
pub proof fn lemma_g_on_curve() ensures on_curve(G()) { lemma_params(); }

// ---------------- GB/T 32918.2: digital signature ----------------
pub open spec fn pt_x(q: Pt) -> int { match q { Pt::Inf => 0, Pt::Aff { x, y } => x } }
pub open spec fn pt_y(q: Pt) -> int { match q { Pt::Inf => 0, Pt::Aff { x, y } => y } }
// e = Hv(ZA || M) read as an integer
pub open spec fn s_e(id: Seq<u8>, pa: Pt, m: Seq<u8>) -> int { be_val(sm3_spec(s_za(id, pt_x(pa), pt_y(pa)) + m)) }
// verification equation, 7.1 B1-B7
pub open spec fn valid_sig(pa: Pt, e: int, r: int, s: int) -> bool {
    &&& 1 <= r < N() &&& 1 <= s < N()
    &&& (r + s) % N() != 0
    &&& ({ let q = g_add(g_smul(s, G()), g_smul((r + s) % N(), pa)); q != Pt::Inf && r == (e + pt_x(q)) % N() })
}
// signing equations, 6.1 A3-A7, for the nonce k
pub open spec fn sig_from_nonce(k: int, d: int, e: int, r: int, s: int) -> bool {
    &&& 1 <= k < N()
    &&& r == (e + pt_x(g_smul(k, G()))) % N() &&& r != 0 &&& r + k != N()
    &&& s == (inv_n(1 + d) * ((k - (r * d) % N()) % N())) % N() &&& s != 0
}
// ---------------- GB/T 32918.4: public key encryption ----------------
pub open spec fn xy_bytes(q: Pt) -> Seq<u8> { be_bytes(pt_x(q), 32) + be_bytes(pt_y(q), 32) }
pub open spec fn s_c3(q: Pt, m: Seq<u8>) -> Seq<u8> { sm3_spec(be_bytes(pt_x(q), 32) + m + be_bytes(pt_y(q), 32)) }
pub open spec fn c1_len(compressed: bool) -> int { if compressed { 33 } else { 65 } }
//@section code gm-sm2/src/u256.rs
type U256 = [u64; 4];
const SM2_ZERO: U256 = [0, 0, 0, 0];
const SM2_ONE: U256 = [1, 0, 0, 0];
//@stub sm2_limbs u256_add
//@stub sm2_limbs u256_cmp
//@stub sm2_limbs u256_from_be_bytes
//@section code gm-sm2/src/error.rs
type Sm2Result<T> = Result<T, Sm2Error>;
#[derive(PartialEq)]
enum Sm2Error {
    NotOnCurve,
    FieldSqrtError,
    InvalidDer,
    InvalidPublic,
    InvalidPrivate,
    ZeroDivisor,
    ZeroPoint,
    InvalidPoint,
    CheckPointErr,
    ZeroData,
    HashNotEqual,
    IdTooLong,
    ZeroFiled,
    InvalidFieldLen,
    ZeroSig,
    InvalidDigestLen,
    InvalidDigest,
    InvalidSecretKey,
    KdfHashError,
}
//@section spec
#[verifier::external]
impl core::fmt::Debug for Sm2Error { fn fmt(&self, f: &mut core::fmt::Formatter<'_>) -> core::fmt::Result { Ok(()) } }
//@section code gm-sm2/src/fields/fn64.rs
const SM2_N: U256 = [
    0x53bbf40939d54123,
    0x7203df6b21c6052b,
    0xffffffffffffffff,
    0xfffffffeffffffff,
];
const SM2_N_MINUS_TWO: U256 = [
    0x53bbf40939d54121,
    0x7203df6b21c6052b,
    0xffffffffffffffff,
    0xfffffffeffffffff,
];
//@stub sm2_fn fn_add
//@stub sm2_fn fn_sub
//@stub sm2_fn fn_mul
//@stub sm2_fn fn_pow
//@stub-trait sm2_fp FieldModOperation
//@stub sm2_fp fp_from_mont
//@stub sm3 sm3_hash
//@stub sm2_rand random_u256
//@section code gm-sm2/src/p256_ecc.rs
#[derive(Debug, Clone, Eq, PartialEq, Copy)]
struct Point {
    x: U256,
    y: U256,
    z: U256,
}
//@stub sm2_ecc Point::is_zero
//@stub sm2_ecc Point::is_valid
//@stub sm2_ecc Point::is_valid_affine_point
//@stub sm2_ecc Point::to_affine_point
//@stub sm2_ecc Point::to_byte_be
//@stub sm2_ecc Point::from_byte
//@stub sm2_ecc Point::point_add
//@stub sm2_ecc Point::scalar_mul
//@stub sm2_ecc g_mul
//@section code gm-sm2/src/util.rs
const DEFAULT_ID: &'static str = "1234567812345678";
//@stub sm2_util compute_za
//@stub sm2_util kdf
//@stub sm2_util xor_bytes
//@section spec local
proof fn lemma_key_consts() ensures val4(SM2_N@) == N(), val4(SM2_N_MINUS_TWO@) == N() - 2, val4(SM2_ONE@) == 1, val4(SM2_ZERO@) == 0
{
    assert(val4(SM2_N@) == N() && val4(SM2_N_MINUS_TWO@) == N() - 2 && val4(SM2_ONE@) == 1 && val4(SM2_ZERO@) == 0) by(compute);
}
//@section spec
spec fn ct_c2(ct: Seq<u8>, compressed: bool, model: Sm2Model) -> Seq<u8> {
    match model { Sm2Model::C1C2C3 => ct.subrange(c1_len(compressed), ct.len() - 32), Sm2Model::C1C3C2 => ct.subrange(c1_len(compressed) + 32, ct.len() as int) }
}
spec fn ct_c3(ct: Seq<u8>, compressed: bool, model: Sm2Model) -> Seq<u8> {
    match model { Sm2Model::C1C2C3 => ct.subrange(ct.len() - 32, ct.len() as int), Sm2Model::C1C3C2 => ct.subrange(c1_len(compressed), c1_len(compressed) + 32) }
}
// 7.1 B1-B7: what an accepted ciphertext satisfies, q = decoded C1, d = private scalar, m = returned plaintext
spec fn dec_ok(d: int, ct: Seq<u8>, compressed: bool, model: Sm2Model, q: Pt, m: Seq<u8>) -> bool {
    &&& ct.len() > c1_len(compressed) + 32
    &&& sec1_decodes(ct.subrange(0, c1_len(compressed)), q) &&& on_curve(q)
    &&& ({ let sp = g_smul(d, q); let c2 = ct_c2(ct, compressed, model);
           m == s_xor(c2, s_kdf(xy_bytes(sp), c2.len())) && ct_c3(ct, compressed, model) == s_c3(sp, m) })
}
spec fn dec_accept(d: int, ct: Seq<u8>, compressed: bool, model: Sm2Model, m: Seq<u8>) -> bool { exists|q: Pt| #[trigger] dec_ok(d, ct, compressed, model, q, m) }
// ---- completeness side. GB/T 32918.4 7.1 B4 / 6.1 A5: t = KDF(x2 || y2, klen) all zero is an error (decrypt) resp. a retry (encrypt).
// The code implements both, so what decrypt ACCEPTS is dec_ok plus "t is not all zero"; dec_ok itself (used by other units and by
// the soundness clause) does not mention t, hence the separate predicates
spec fn kdf_nonzero(t: Seq<u8>) -> bool { exists|i: int| 0 <= i < t.len() && #[trigger] t[i] != 0 }
spec fn dec_ok_b4(d: int, ct: Seq<u8>, compressed: bool, model: Sm2Model, q: Pt, m: Seq<u8>) -> bool {
    dec_ok(d, ct, compressed, model, q, m) && kdf_nonzero(s_kdf(xy_bytes(g_smul(d, q)), ct_c2(ct, compressed, model).len()))
}
spec fn dec_accept_b4(d: int, ct: Seq<u8>, compressed: bool, model: Sm2Model, m: Seq<u8>) -> bool { exists|q: Pt| #[trigger] dec_ok_b4(d, ct, compressed, model, q, m) }
// the ciphertexts decrypt must accept: those that satisfy 7.1 B1-B7 (incl. B4) for some plaintext
spec fn dec_acceptable(d: int, ct: Seq<u8>, compressed: bool, model: Sm2Model) -> bool { exists|m: Seq<u8>| #[trigger] dec_accept_b4(d, ct, compressed, model, m) }
// 6.1 A1-A8 incl. A5 (t not all zero) for the nonce k: what an accepted iteration of encrypt satisfies
spec fn enc_from_nonce_b4(k: int, pa: Pt, m: Seq<u8>, compressed: bool, model: Sm2Model, c: Seq<u8>) -> bool {
    enc_from_nonce(k, pa, m, compressed, model, c) && kdf_nonzero(s_kdf(xy_bytes(g_smul(k, pa)), m.len()))
}
// 6.1 A1-A8 for the nonce k
spec fn enc_from_nonce(k: int, pa: Pt, m: Seq<u8>, compressed: bool, model: Sm2Model, c: Seq<u8>) -> bool {
    &&& 1 <= k < N()
    &&& ({ let c1 = sec1(g_smul(k, G()), compressed); let sp = g_smul(k, pa);
           let c2 = s_xor(m, s_kdf(xy_bytes(sp), m.len())); let c3 = s_c3(sp, m);
           c == (match model { Sm2Model::C1C2C3 => c1 + c2 + c3, Sm2Model::C1C3C2 => c1 + c3 + c2 }) })
}
// invariants the constructors establish
spec fn s_id(id: Option<&'static str>) -> Seq<u8> { str_bytes(id_or_default(id)) }
spec fn pk_ok(k: Sm2PublicKey) -> bool { valid(k.point) && val4(k.point.z@) != 0 }
// the rejection loop of sign_raw can only exit if (1 + d) is invertible mod n: for d = n - 1 every candidate s is 0 and the loop
// never ends. Constructors establish it; C20 counts this clause (//@safety-pred)
pub open spec fn sign_term_ok(d: int) -> bool { (1 + d) % N() != 0 }
proof fn lemma_sign_term_ok(d: int) requires 1 <= d <= N() - 2 ensures sign_term_ok(d)
{ lemma_params(); lemma_small_mod((1 + d) as nat, N() as nat); }
spec fn sk_ok(k: Sm2PrivateKey) -> bool { 1 <= val4(k.d@) <= N() - 2 && pk_ok(k.public_key) && abs(k.public_key.point) == g_smul(val4(k.d@), G()) }
// ---- stage lemmas of the protocol functions: the exec bodies only establish the individual facts listed in `requires`
// 7.1 B1-B7 from the facts of an accepting run of verify_raw: rb, sb are the integers decoded from the signature, ev from the digest;
// t = (s + r) mod n, q = [s]G + [t]PA, x1 = x(q), r1 = (x1 mod n + ev mod n) mod n
proof fn lemma_verify_final(pa: Pt, e: int, rb: int, sb: int, r: int, s: int, t: int, q: Pt, x1: int, ev: int, r1: int)
    requires
        rb == r,
        sb == s,
        ev == e,
        r != 0,
        s != 0,
        0 <= r < N(),
        0 <= s < N(),
        t == (s + r) % N(),
        t != 0,
        q == g_add(g_smul(s, G()), g_smul(t, pa)),
        q != Pt::Inf,
        x1 == pt_x(q),
        r1 == ((x1 + 0) % N() + (ev + 0) % N()) % N(),
        r == r1,
    ensures valid_sig(pa, e, rb, sb)
{ lemma_params(); lemma_add_mod_noop(x1, ev, N()); }
// 7.1 B1-B7 from the facts of an accepting run of decrypt: c1, c2, c3 are the three slices taken from the ciphertext, q the decoded C1,
// sp = [d]q, m the returned plaintext
proof fn lemma_decrypt_final(d: int, ct: Seq<u8>, compressed: bool, model: Sm2Model, q: Pt, c1: Seq<u8>, c2: Seq<u8>, c3: Seq<u8>, sp: Pt, m: Seq<u8>)
    requires
        ct.len() > c1_len(compressed) + 32,
        c1 == ct.subrange(0, c1_len(compressed)),
        c2 == ct_c2(ct, compressed, model),
        c3 == ct_c3(ct, compressed, model),
        sec1_decodes(c1, q),
        on_curve(q),
        sp == g_smul(d, q),
        m == s_xor(c2, s_kdf(xy_bytes(sp), c2.len())),
        c3 == s_c3(sp, m),
    ensures dec_ok(d, ct, compressed, model, q, m), dec_accept(d, ct, compressed, model, m)
{ assert(dec_ok(d, ct, compressed, model, q, m)); }
// 6.1 A1-A8 from the facts of an accepted iteration of encrypt: c1, c2, c3 are the three parts, c the assembled output
proof fn lemma_encrypt_final(k: int, pa: Pt, m: Seq<u8>, compressed: bool, model: Sm2Model, c1: Seq<u8>, c2: Seq<u8>, c3: Seq<u8>, c: Seq<u8>)
    requires
        1 <= k < N(),
        c1 == sec1(g_smul(k, G()), compressed),
        c2 == s_xor(m, s_kdf(xy_bytes(g_smul(k, pa)), m.len())),
        c3 == s_c3(g_smul(k, pa), m),
        c =~= (match model { Sm2Model::C1C2C3 => c1 + c2 + c3, Sm2Model::C1C3C2 => c1 + c3 + c2 }),
    ensures enc_from_nonce(k, pa, m, compressed, model, c)
{ }
// ---- rejection sites of verify_raw: under each branch condition the verification equation 7.1 is false
proof fn lemma_verify_rej_zero(pa: Pt, e: int, rb: int, sb: int, r: int, s: int)
    requires rb == r, sb == s, r == 0 || s == 0
    ensures !valid_sig(pa, e, rb, sb)
{ }
proof fn lemma_verify_rej_range(pa: Pt, e: int, rb: int, sb: int, r: int, s: int)
    requires rb == r, sb == s, r >= N() || s >= N()
    ensures !valid_sig(pa, e, rb, sb)
{ }
proof fn lemma_verify_rej_t(pa: Pt, e: int, rb: int, sb: int, r: int, s: int, t: int)
    requires rb == r, sb == s, t == (s + r) % N(), t == 0
    ensures !valid_sig(pa, e, rb, sb)
{ }
proof fn lemma_verify_rej_inf(pa: Pt, e: int, rb: int, sb: int, r: int, s: int, t: int, q: Pt)
    requires rb == r, sb == s, t == (s + r) % N(), q == g_add(g_smul(s, G()), g_smul(t, pa)), q == Pt::Inf
    ensures !valid_sig(pa, e, rb, sb)
{ }
proof fn lemma_verify_rej_eq(pa: Pt, e: int, rb: int, sb: int, r: int, s: int, t: int, q: Pt, x1: int, ev: int, r1: int)
    requires rb == r, sb == s, ev == e, t == (s + r) % N(), q == g_add(g_smul(s, G()), g_smul(t, pa)), x1 == pt_x(q),
        r1 == ((x1 + 0) % N() + (ev + 0) % N()) % N(), r != r1,
    ensures !valid_sig(pa, e, rb, sb)
{ lemma_params(); lemma_add_mod_noop(x1, ev, N()); }
// ---- SEC1 decoding is a function of the bytes (compressed: both candidates are roots of x^3 + ax + b with the same parity)
proof fn key_nonzero_mod(a: int) requires -P() < a < P(), a != 0 ensures a % P() != 0
{
    lemma_params();
    if a > 0 { lemma_small_mod(a as nat, P() as nat); }
    else { lemma_mod_multiples_vanish(1, a, P()); lemma_small_mod((a + P()) as nat, P() as nat); }
}
proof fn key_sqrt_unique(y1: int, y2: int)
    requires 0 <= y1 < P(), 0 <= y2 < P(), (y1 * y1) % P() == (y2 * y2) % P(), y1 % 2 == y2 % 2
    ensures y1 == y2
{
    lemma_params();
    let p = P();
    if y1 != y2 {
        let a = y1 - y2; let b = y1 + y2;
        key_nonzero_mod(a);
        ax_inv_p(a);
        let ai = inv_p(a);
        assert(a * b == y1 * y1 - y2 * y2) by(nonlinear_arith) requires a == y1 - y2, b == y1 + y2;
        lemma_sub_mod_noop(y1 * y1, y2 * y2, p);
        lemma_small_mod(0, p as nat);
        assert((a * b) % p == 0);
        lemma_mul_mod_noop_general(a * b, ai, p);
        assert(0 * ai == 0);
        assert(((a * b) * ai) % p == 0);
        assert((a * b) * ai == b * (a * ai)) by(nonlinear_arith);
        lemma_mul_mod_noop_general(b, a * ai, p);
        assert(b * 1 == b);
        assert(b % p == 0);
        if b < p { lemma_small_mod(b as nat, p as nat); }
        else { lemma_mod_multiples_vanish(1, b - p, p); lemma_small_mod((b - p) as nat, p as nat); }
        assert(P() % 2 == 1) by(compute);
        assert(false);
    }
}
proof fn lemma_sec1_unique(b: Seq<u8>, q1: Pt, q2: Pt) requires sec1_decodes(b, q1), sec1_decodes(b, q2) ensures q1 == q2
{
    match (q1, q2) {
        (Pt::Aff { x: x1, y: y1 }, Pt::Aff { x: x2, y: y2 }) => {
            assert(x1 == x2);
            if b.len() == 33 { key_sqrt_unique(y1, y2); }
        }
        _ => { }
    }
}
// ---- rejection sites of decrypt: under each branch condition no plaintext satisfies 7.1 B1-B7
spec fn dec_wit_m(d: int, ct: Seq<u8>, compressed: bool, model: Sm2Model) -> Seq<u8> { choose|m: Seq<u8>| #[trigger] dec_accept_b4(d, ct, compressed, model, m) }
spec fn dec_wit_q(d: int, ct: Seq<u8>, compressed: bool, model: Sm2Model) -> Pt { choose|q: Pt| #[trigger] dec_ok_b4(d, ct, compressed, model, q, dec_wit_m(d, ct, compressed, model)) }
proof fn lemma_dec_witness(d: int, ct: Seq<u8>, compressed: bool, model: Sm2Model)
    requires dec_acceptable(d, ct, compressed, model)
    ensures dec_ok_b4(d, ct, compressed, model, dec_wit_q(d, ct, compressed, model), dec_wit_m(d, ct, compressed, model)),
        dec_ok(d, ct, compressed, model, dec_wit_q(d, ct, compressed, model), dec_wit_m(d, ct, compressed, model)),
{ }
proof fn lemma_dec_rej_len(d: int, ct: Seq<u8>, compressed: bool, model: Sm2Model)
    requires ct.len() <= c1_len(compressed) + 32
    ensures !dec_acceptable(d, ct, compressed, model)
{ if dec_acceptable(d, ct, compressed, model) { lemma_dec_witness(d, ct, compressed, model); let w = (dec_wit_q(d, ct, compressed, model), dec_wit_m(d, ct, compressed, model)); } }
proof fn lemma_dec_rej_c1(d: int, ct: Seq<u8>, compressed: bool, model: Sm2Model, c1: Seq<u8>)
    requires c1 == ct.subrange(0, c1_len(compressed)), !sec1_decodable(c1)
    ensures !dec_acceptable(d, ct, compressed, model)
{ if dec_acceptable(d, ct, compressed, model) { lemma_dec_witness(d, ct, compressed, model); let w = (dec_wit_q(d, ct, compressed, model), dec_wit_m(d, ct, compressed, model)); assert(sec1_decodes(c1, w.0) && on_curve(w.0)); } }
proof fn lemma_dec_rej_curve(d: int, ct: Seq<u8>, compressed: bool, model: Sm2Model, c1: Seq<u8>, q: Pt)
    requires c1 == ct.subrange(0, c1_len(compressed)), sec1_decodes(c1, q), !on_curve(q)
    ensures !dec_acceptable(d, ct, compressed, model)
{ if dec_acceptable(d, ct, compressed, model) { lemma_dec_witness(d, ct, compressed, model); let w = (dec_wit_q(d, ct, compressed, model), dec_wit_m(d, ct, compressed, model)); lemma_sec1_unique(c1, q, w.0); } }
// [1]q is q: the ZeroPoint branch is dead for a decoded (affine) q
proof fn lemma_dec_rej_dead(c1: Seq<u8>, q: Pt, s: Pt)
    requires sec1_decodes(c1, q), s == g_smul(1, q), s == Pt::Inf
    ensures false
{ ecc_smul_one(q); }
proof fn lemma_dec_rej_zero(d: int, ct: Seq<u8>, compressed: bool, model: Sm2Model, c1: Seq<u8>, q: Pt, klen: int, t: Seq<u8>)
    requires c1 == ct.subrange(0, c1_len(compressed)), sec1_decodes(c1, q), klen == ct_c2(ct, compressed, model).len(),
        t == s_kdf(xy_bytes(g_smul(d, q)), klen as nat), !kdf_nonzero(t),
    ensures !dec_acceptable(d, ct, compressed, model)
{ if dec_acceptable(d, ct, compressed, model) { lemma_dec_witness(d, ct, compressed, model); let w = (dec_wit_q(d, ct, compressed, model), dec_wit_m(d, ct, compressed, model)); lemma_sec1_unique(c1, q, w.0); } }
proof fn lemma_dec_rej_hash(d: int, ct: Seq<u8>, compressed: bool, model: Sm2Model, q: Pt, c1: Seq<u8>, c2: Seq<u8>, c3: Seq<u8>, sp: Pt, m: Seq<u8>, u: Seq<u8>)
    requires c1 == ct.subrange(0, c1_len(compressed)), c2 == ct_c2(ct, compressed, model), c3 == ct_c3(ct, compressed, model),
        sec1_decodes(c1, q), sp == g_smul(d, q), m == s_xor(c2, s_kdf(xy_bytes(sp), c2.len())), u == s_c3(sp, m), !(u =~= c3),
    ensures !dec_acceptable(d, ct, compressed, model)
{ if dec_acceptable(d, ct, compressed, model) { lemma_dec_witness(d, ct, compressed, model); let w = (dec_wit_q(d, ct, compressed, model), dec_wit_m(d, ct, compressed, model)); lemma_sec1_unique(c1, q, w.0); } }
// 6.1 A5: the accepted iteration of encrypt has a KDF output that is not all zero
proof fn lemma_encrypt_final_b4(k: int, pa: Pt, m: Seq<u8>, compressed: bool, model: Sm2Model, c: Seq<u8>, t: Seq<u8>)
    requires enc_from_nonce(k, pa, m, compressed, model, c), t == s_kdf(xy_bytes(g_smul(k, pa)), m.len()), kdf_nonzero(t)
    ensures enc_from_nonce_b4(k, pa, m, compressed, model, c)
{ }
// Sm2PublicKey::new: the point read by the decoder is the encoded curve point
proof fn lemma_pk_new_complete(b: Seq<u8>, q: Pt) requires sec1_decodes(b, q), sec1_decodable(b) ensures on_curve(q)
{ let w = choose|w: Pt| #[trigger] sec1_decodes(b, w) && on_curve(w); lemma_sec1_unique(b, q, w); }
// limb arrays stay abstract in the protocol functions (`hide(val4)`): the only limb-level fact they need is the range
proof fn lemma_val4_range() ensures forall|a: Seq<u64>| a.len() == 4 ==> 0 <= #[trigger] val4(a) < r256()
{ assert forall|a: Seq<u64>| a.len() == 4 implies 0 <= #[trigger] val4(a) < r256() by { lemma_val4_bounds(a); } }
// 6.1 A3-A7 from the facts of one accepted iteration of sign_raw: x1 = x([k]G), r = (e mod n + x1 mod n) mod n, m = r d, u = k - m, s = s1 u;
// rb, sb are the integers read back from the two halves of the output
proof fn lemma_sign_final(k: int, d: int, e: int, x1: int, r: int, m: int, u: int, s1: int, s: int, rb: int, sb: int)
    requires
        1 <= k < N(),
        x1 == pt_x(g_smul(k, G())),
        r == ((e + 0) % N() + (x1 + 0) % N()) % N(),
        r != 0,
        r + k != N(),
        m == (r * d) % N(),
        u == (k - m) % N(),
        s1 == inv_n(1 + d),
        s == (s1 * u) % N(),
        s != 0,
        rb == r,
        sb == s,
    ensures sig_from_nonce(k, d, e, rb, sb)
{ lemma_params(); lemma_add_mod_noop(e, x1, N()); }
//@section code gm-sm2/src/key.rs
enum Sm2Model {
    C1C2C3,
    C1C3C2,
}

#[derive(Debug, Clone, Copy)]
struct Sm2PublicKey {
    point: Point,
}

impl Sm2PublicKey {
    fn value(&self) -> (r: &Point)
        ensures *r == self.point
    {
        &self.point
    }

    fn new(pk: &[u8]) -> (res: Sm2Result<Sm2PublicKey>)
        ensures res is Ok ==> pk_ok(res->Ok_0) && sec1_decodes(pk@, abs(res->Ok_0.point)),
            (pk@.len() != 33 && pk@.len() != 65) ==> res is Err,
            sec1_decodable(pk@) ==> res is Ok,
    {
        hide(val4); hide(g_smul);
        let p = Point::from_byte(pk)?;
        proof { assert(fe(p.z@) == 1 ==> val4(p.z@) != 0); if sec1_decodable(pk@) { lemma_pk_new_complete(pk@, abs(p)); } }
        if p.is_valid() {
            Ok(Self { point: p })
        } else {
            Err(Sm2Error::InvalidPublic)
        }
    }

//@props C05 C14 C20
    #[verifier::exec_allows_no_decreases_clause]
    #[verifier::spinoff_prover]
    fn encrypt(&self, msg: &[u8], compressed: bool, model: Sm2Model) -> (res: Sm2Result<Vec<u8>>)
        requires pk_ok(*self), 1 <= msg@.len() < 0x1_0000_0000
        ensures res is Ok ==> (exists|k: Seq<u64>| #[trigger] csprng(k) && enc_from_nonce(val4(k), abs(self.point), msg@, compressed, model, res->Ok_0@)),
            res is Ok ==> (exists|k: Seq<u64>| #[trigger] csprng(k) && enc_from_nonce_b4(val4(k), abs(self.point), msg@, compressed, model, res->Ok_0@)),
    {
        hide(val4); hide(g_smul);
        loop
            invariant pk_ok(*self), 1 <= msg@.len() < 0x1_0000_0000,
        {
            proof { lemma_val4_range(); }
            let klen = msg.len();
            let k = random_u256();
            let c1_p = g_mul(&k);
            let c1_p = c1_p.to_affine_point(); 

            proof { lemma_key_consts(); lemma_params(); lemma_g_on_curve(); ax_g_order(val4(k@)); lemma_small_mod(val4(k@) as nat, N() as nat);
                    assert(fe(c1_p.z@) == 1 ==> val4(c1_p.z@) != 0); }
            let s_p = self.point.scalar_mul(&SM2_ONE);
            if s_p.is_zero() {
                return Err(Sm2Error::ZeroPoint);
            }

            let c2_p = self.point.scalar_mul(&k).to_affine_point();
            let ghost sp = g_smul(val4(k@), abs(self.point));
            let x2_bytes = fp_from_mont(&c2_p.x).to_byte_be();
            let y2_bytes = fp_from_mont(&c2_p.y).to_byte_be();
            let mut c2_append = vec![];
            c2_append.extend_from_slice(&x2_bytes);
            c2_append.extend_from_slice(&y2_bytes);
            proof {
                assert(x2_bytes@ == be_bytes(pt_x(sp), 32) && y2_bytes@ == be_bytes(pt_y(sp), 32));
                assert(c2_append@ =~= xy_bytes(sp));
                lemma_be_bytes_len(pt_x(sp), 32); lemma_be_bytes_len(pt_y(sp), 32);
                assert(c2_append@.subrange(0, c2_append@.len() as int) =~= c2_append@);
            }

            let t = kdf(&c2_append[..], klen);
            let mut flag = true;
            for elem in it: t.iter()
                invariant !flag ==> kdf_nonzero(t@),
            {
                if elem != &0 {
                    proof { assert(t@[it.index@ as int] != 0); }
                    flag = false;
                    break;
                }
            }
            if !flag {
                proof { lemma_kdf_len(xy_bytes(sp), klen as nat); assert(t@.subrange(0, t@.len() as int) =~= t@); }
                let c2 = xor_bytes(msg, &t[..]);
                let mut c3_append: Vec<u8> = vec![];
                c3_append.extend_from_slice(&x2_bytes);
                c3_append.extend_from_slice(msg);
                c3_append.extend_from_slice(&y2_bytes);
                proof { assert(c3_append@ =~= be_bytes(pt_x(sp), 32) + msg@ + be_bytes(pt_y(sp), 32)); }
                let c3 = sm3_hash(&c3_append);
                let mut c: Vec<u8> = vec![];
                match model {
                    Sm2Model::C1C2C3 => {
                        c.extend_from_slice(&c1_p.to_byte_be(compressed));
                        c.extend_from_slice(&c2);
                        c.extend_from_slice(&c3);
                    }
                    Sm2Model::C1C3C2 => {
                        c.extend_from_slice(&c1_p.to_byte_be(compressed));
                        c.extend_from_slice(&c3);
                        c.extend_from_slice(&c2);
                    }
                }
                proof {
                    let c1 = sec1(g_smul(val4(k@), G()), compressed);
                    assert(abs(c1_p) == g_smul(val4(k@), G()));
                    assert(c2@ == s_xor(msg@, s_kdf(xy_bytes(sp), msg@.len())));
                    assert(c3@ == s_c3(sp, msg@));
                    lemma_encrypt_final(val4(k@), abs(self.point), msg@, compressed, model, c1, c2@, c3@, c@);
                    lemma_encrypt_final_b4(val4(k@), abs(self.point), msg@, compressed, model, c@, t@);
                }
                return Ok(c);
            }
        }
    }

//@props C03 C04 C20
    fn verify(&self, id: Option<&'static str>, msg: &[u8], sig: &[u8]) -> (res: Sm2Result<()>)
        requires pk_ok(*self), msg@.len() < 0x1000_0000_0000_0000,
            id is Some ==> str_bytes(id->Some_0).len() < 0x1000_0000_0000_0000, str_bytes(DEFAULT_ID).len() < 0x1000_0000_0000_0000,
        ensures res is Ok ==> sig@.len() == 64 && 8 * s_id(id).len() <= 65535
            && valid_sig(abs(self.point), s_e(s_id(id), abs(self.point), msg@),
                         be_val(sig@.subrange(0, 32)), be_val(sig@.subrange(32, 64))),
            (sig@.len() == 64 && 8 * s_id(id).len() <= 65535
                && valid_sig(abs(self.point), s_e(s_id(id), abs(self.point), msg@),
                         be_val(sig@.subrange(0, 32)), be_val(sig@.subrange(32, 64)))) ==> res is Ok,
    {
        hide(val4); hide(g_smul);
        let id = shim_id_or_default(id);
        let mut digest = compute_za(id, &self.point)?;
        proof { lemma_sm3_len(s_za(str_bytes(id), pt_x(abs(self.point)), pt_y(abs(self.point))) + msg@); }
        digest = sm3_hash(&shim_concat2(digest.to_vec(), msg.to_vec()));
        proof { assert(digest@.subrange(0, 32) =~= digest@); }
        self.verify_raw(&digest[..], &self.point, sig)
    }

//@props C03 C04 C20
    #[verifier::spinoff_prover]
    fn verify_raw(&self, digest: &[u8], pk: &Point, sig: &[u8]) -> (res: Sm2Result<()>)
        requires valid(*pk), val4(pk.z@) != 0,
        ensures res is Ok ==> sig@.len() == 64 && digest@.len() == 32
            && valid_sig(abs(*pk), be_val(digest@), be_val(sig@.subrange(0, 32)), be_val(sig@.subrange(32, 64))),
            (sig@.len() == 64 && digest@.len() == 32
                && valid_sig(abs(*pk), be_val(digest@), be_val(sig@.subrange(0, 32)), be_val(sig@.subrange(32, 64)))) ==> res is Ok,
    {
        hide(val4); hide(g_smul);
        if digest.len() != 32 {
            return Err(Sm2Error::InvalidDigestLen);
        }
        if sig.len() != 64 {
            return Err(Sm2Error::InvalidDigest);
        }
        proof { lemma_key_consts(); lemma_params(); lemma_g_on_curve(); lemma_val4_range(); }
        let n = &SM2_N;
        let r = &u256_from_be_bytes(&sig[..32]);
        let s = &u256_from_be_bytes(&sig[32..]);
        proof {
            assert(sig@.subrange(0, 32).subrange(0, 32) =~= sig@.subrange(0, 32));
            assert(sig@.subrange(32, 64).subrange(0, 32) =~= sig@.subrange(32, 64));
        }
        let ghost pa = abs(*pk); let ghost ei = be_val(digest@); let ghost rb = be_val(sig@.subrange(0, 32)); let ghost sb = be_val(sig@.subrange(32, 64));
        if r.is_zero() || s.is_zero() {
            proof { lemma_verify_rej_zero(pa, ei, rb, sb, val4(r@), val4(s@)); }
            return Err(Sm2Error::ZeroSig);
        }
        if u256_cmp(r, n) >= 0 || u256_cmp(s, n) >= 0 {
            proof { lemma_verify_rej_range(pa, ei, rb, sb, val4(r@), val4(s@)); }
            return Err(Sm2Error::InvalidDigest);
        }
        let t = fn_add(&s, &r);
        if t.is_zero() {
            proof { lemma_verify_rej_t(pa, ei, rb, sb, val4(r@), val4(s@), val4(t@)); }
            return Err(Sm2Error::InvalidDigest);
        }
        let s_g = g_mul(&s);
        let t_p = pk.scalar_mul(&t);
        let p = s_g.point_add(&t_p);
        if p.is_zero() {
            proof { lemma_verify_rej_inf(pa, ei, rb, sb, val4(r@), val4(s@), val4(t@), abs(p)); }
            return Err(Sm2Error::InvalidDigest);
        }
        let ghost q = abs(p);
        let p = p.to_affine_point();
        proof {
            let b = be_bytes(fe(p.x@), 32);
            lemma_be_bytes_len(fe(p.x@), 32); lemma_pow256n_32(); lemma_be_roundtrip(fe(p.x@), 32);
            assert(b.subrange(0, 32) =~= b);
            assert(digest@.subrange(0, 32) =~= digest@);
            assert(q == g_add(g_smul(val4(s@), G()), g_smul(val4(t@), abs(*pk))));
            assert(q != Pt::Inf);
        }
        let x1 = u256_from_be_bytes(&fp_from_mont(&p.x).to_byte_be());
        let e = u256_from_be_bytes(&digest);
        let r1 = fn_add(&fn_add(&x1, &SM2_ZERO), &fn_add(&e, &SM2_ZERO));
        proof {
            assert(val4(x1@) == pt_x(q));
            if val4(r@) == val4(r1@) {
                lemma_verify_final(abs(*pk), be_val(digest@), be_val(sig@.subrange(0, 32)), be_val(sig@.subrange(32, 64)),
                    val4(r@), val4(s@), val4(t@), q, val4(x1@), val4(e@), val4(r1@));
            } else {
                lemma_verify_rej_eq(pa, ei, rb, sb, val4(r@), val4(s@), val4(t@), q, val4(x1@), val4(e@), val4(r1@));
            }
        }
        return if u256_cmp(r, &r1) == 0 {
            Ok(())
        } else {
            Err(Sm2Error::InvalidDigest)
        };
    }
}

#[derive(Debug, Clone)]
struct Sm2PrivateKey {
    d: U256,
    public_key: Sm2PublicKey,
}

impl Sm2PrivateKey {
    fn new(sk: &[u8]) -> (res: Sm2Result<Self>)
        ensures res is Ok ==> sk@.len() == 32 && sk_ok(res->Ok_0) && val4(res->Ok_0.d@) == be_val(sk@),
            (sk@.len() != 32 || be_val(sk@) == 0 || be_val(sk@) > N() - 2) ==> res is Err,
            res is Ok ==> sign_term_ok(val4(res->Ok_0.d@)),
            (sk@.len() == 32 && 1 <= be_val(sk@) <= N() - 2) ==> res is Ok,
    {
        hide(val4); hide(g_smul);
        if sk.len() != 32 {
            return Err(Sm2Error::InvalidFieldLen);
        }
        proof { lemma_key_consts(); lemma_val4_range(); assert(sk@.subrange(0, 32) =~= sk@); }
        let d = u256_from_be_bytes(sk);
        
        if d.is_zero() || u256_cmp(&d, &SM2_N_MINUS_TWO) > 0 {
            return Err(Sm2Error::InvalidPrivate);
        }
        let public_key = public_from_private(&d)?;
        let private_key = Self { d, public_key };
        proof { lemma_sign_term_ok(val4(d@)); }
        Ok(private_key)
    }

//@props C03 C14 C20
    fn sign(&self, id: Option<&'static str>, msg: &[u8]) -> (res: Sm2Result<Vec<u8>>)
        requires sk_ok(*self), msg@.len() < 0x1000_0000_0000_0000,
            id is Some ==> str_bytes(id->Some_0).len() < 0x1000_0000_0000_0000, str_bytes(DEFAULT_ID).len() < 0x1000_0000_0000_0000,
        ensures
            res is Ok <==> 8 * s_id(id).len() <= 65535,
            res is Ok ==> res->Ok_0@.len() == 64 && (exists|k: Seq<u64>| #[trigger] csprng(k) && sig_from_nonce(val4(k), val4(self.d@),
                s_e(s_id(id), abs(self.public_key.point), msg@),
                be_val(res->Ok_0@.subrange(0, 32)), be_val(res->Ok_0@.subrange(32, 64)))),
    {
        hide(val4); hide(g_smul);
        let id = shim_id_or_default(id);
        let mut digest = compute_za(id, &self.public_key.point)?;
        proof { lemma_sm3_len(s_za(str_bytes(id), pt_x(abs(self.public_key.point)), pt_y(abs(self.public_key.point))) + msg@); }
        digest = sm3_hash(&shim_concat2(digest.to_vec(), msg.to_vec()));
        proof { assert(digest@.subrange(0, 32) =~= digest@); }
        self.sign_raw(&digest[..], &self.d)
    }

//@props C03 C14 C20
    #[verifier::exec_allows_no_decreases_clause]
    #[verifier::spinoff_prover]
    fn sign_raw(&self, digest: &[u8], sk: &U256) -> (res: Sm2Result<Vec<u8>>)
        requires 1 <= val4(sk@) <= N() - 2,
        ensures res is Ok <==> digest@.len() == 32,
            res is Ok ==> res->Ok_0@.len() == 64 && (exists|k: Seq<u64>| #[trigger] csprng(k) && sig_from_nonce(val4(k), val4(sk@), be_val(digest@),
                be_val(res->Ok_0@.subrange(0, 32)), be_val(res->Ok_0@.subrange(32, 64)))),
    {
        hide(val4); hide(g_smul);
        if digest.len() != 32 {
            return Err(Sm2Error::InvalidDigestLen);
        }
        proof { lemma_key_consts(); lemma_params(); lemma_val4_range(); assert(digest@.subrange(0, 32) =~= digest@); }
        let e = u256_from_be_bytes(&digest);
        let n = &SM2_N;
        let s1 = fn_pow(&u256_add(&SM2_ONE, &sk).0, &SM2_N_MINUS_TWO);
        loop
            invariant digest@.len() == 32, val4(e@) == be_val(digest@), n@ == SM2_N@, 1 <= val4(sk@) <= N() - 2,
                val4(s1@) == inv_n(1 + val4(sk@)),
        {
            proof { lemma_key_consts(); lemma_val4_range(); }
            let k = random_u256();
            let p_x = g_mul(&k).to_affine_point();
            proof {
                ax_g_order(val4(k@)); lemma_small_mod(val4(k@) as nat, N() as nat);
                assert(pt_x(g_smul(val4(k@), G())) == fe(p_x.x@));
                lemma_be_bytes_len(fe(p_x.x@), 32); lemma_pow256n_32(); lemma_be_roundtrip(fe(p_x.x@), 32);
                assert(be_bytes(fe(p_x.x@), 32).subrange(0, 32) =~= be_bytes(fe(p_x.x@), 32));
            }
            let x1 = u256_from_be_bytes(&fp_from_mont(&p_x.x).to_byte_be());
            proof { assert(val4(x1@) == pt_x(g_smul(val4(k@), G()))); }
            let r = fn_add(&fn_add(&e, &SM2_ZERO), &fn_add(&x1, &SM2_ZERO));
            proof {
                assert forall|w: (U256, bool)| #[trigger] val4(w.0@) == N() implies w.0@ =~= SM2_N@ by { lemma_val4_inj(w.0@, SM2_N@); }
            }
            if r.is_zero() || shim_u256_eq(&u256_add(&r, &k).0, n) {
                continue;
            }
            let s2_1 = fn_mul(&r, &sk);
            let s2 = fn_sub(&k, &s2_1);
            let s = fn_mul(&s1, &s2);
            if s.is_zero() {
                continue;
            }
            let mut sig: Vec<u8> = vec![];
            sig.extend_from_slice(&r.to_byte_be());
            sig.extend_from_slice(&s.to_byte_be());
            proof {
                lemma_be_bytes_len(val4(r@), 32); lemma_be_bytes_len(val4(s@), 32);
                lemma_be_roundtrip(val4(r@), 32); lemma_be_roundtrip(val4(s@), 32);
                let h0 = sig@.subrange(0, 32); let h1 = sig@.subrange(32, 64);
                assert(sig@.len() == 64);
                assert(h0 =~= be_bytes(val4(r@), 32) ==> be_val(h0) == val4(r@));
                assert(h1 =~= be_bytes(val4(s@), 32) ==> be_val(h1) == val4(s@));
                lemma_sign_final(val4(k@), val4(sk@), val4(e@), val4(x1@), val4(r@), val4(s2_1@), val4(s2@), val4(s1@), val4(s@), be_val(h0), be_val(h1));
            }
            return Ok(sig);
        }
    }
//@props C05 C06 C20
    #[verifier::spinoff_prover]
    fn decrypt(
        &self,
        ciphertext: &[u8],
        compressed: bool,
        model: Sm2Model,
    ) -> (res: Sm2Result<Vec<u8>>)
        requires sk_ok(*self), ciphertext@.len() < 0x1_0000_0000
        ensures res is Ok ==> dec_accept(val4(self.d@), ciphertext@, compressed, model, res->Ok_0@),
            dec_acceptable(val4(self.d@), ciphertext@, compressed, model) ==> res is Ok,
    {
        hide(val4); hide(g_smul);
        let c1_end_index = match compressed {
            true => 33,
            false => 65,
        };
        let ghost d = val4(self.d@);
        if ciphertext.len() <= c1_end_index + 32 {
            proof { lemma_dec_rej_len(d, ciphertext@, compressed, model); }
            return Err(Sm2Error::InvalidFieldLen);
        }
        let c1_bytes = &ciphertext[0..c1_end_index];
        let len = ciphertext.len();
        let c2_bytes = match model {
            Sm2Model::C1C2C3 => &ciphertext[c1_end_index..(len - 32)],
            Sm2Model::C1C3C2 => &ciphertext[(c1_end_index + 32)..],
        };
        let c3_bytes = match model {
            Sm2Model::C1C2C3 => &ciphertext[(len - 32)..],
            Sm2Model::C1C3C2 => &ciphertext[c1_end_index..c1_end_index + 32],
        };

        let kelen = c2_bytes.len();
        proof { if !sec1_decodable(c1_bytes@) { lemma_dec_rej_c1(d, ciphertext@, compressed, model, c1_bytes@); } }
        let c1_point = Point::from_byte(c1_bytes)?;
        proof { lemma_key_consts(); lemma_params(); lemma_val4_range(); lemma_z_one(c1_point.z@); }
        if !c1_point.to_affine_point().is_valid_affine_point() {
            proof { lemma_dec_rej_curve(d, ciphertext@, compressed, model, c1_bytes@, abs(c1_point)); }
            return Err(Sm2Error::CheckPointErr);
        }
        let ghost q = abs(c1_point);

        let s_point = c1_point.scalar_mul(&SM2_ONE);
        if s_point.is_zero() {
            proof { lemma_dec_rej_dead(c1_bytes@, q, abs(s_point)); }
            return Err(Sm2Error::ZeroPoint);
        }

        let c2_point = c1_point.scalar_mul(&self.d).to_affine_point();
        let ghost sp = g_smul(val4(self.d@), q);
        let x2_bytes = fp_from_mont(&c2_point.x).to_byte_be();
        let y2_bytes = fp_from_mont(&c2_point.y).to_byte_be();
        let mut prepend: Vec<u8> = vec![];
        prepend.extend_from_slice(&x2_bytes);
        prepend.extend_from_slice(&y2_bytes);
        proof {
            assert(prepend@ =~= xy_bytes(sp));
            lemma_be_bytes_len(pt_x(sp), 32); lemma_be_bytes_len(pt_y(sp), 32);
        }
        let t = kdf(&prepend, kelen);
        let mut flag = true;
        for elem in it: t.iter()
            invariant_except_break flag, forall|j: int| 0 <= j < it.index@ ==> t@[j] == 0,
            ensures flag ==> !kdf_nonzero(t@),
        {
            if elem != &0 {
                flag = false;
                break;
            }
        }
        if flag {
            proof { lemma_dec_rej_zero(d, ciphertext@, compressed, model, c1_bytes@, q, kelen as int, t@); }
            return Err(Sm2Error::ZeroData);
        }

        proof { lemma_kdf_len(xy_bytes(sp), kelen as nat); }
        let m = xor_bytes(c2_bytes, &t);
        let mut mb = m;
        if mb.len() < kelen {
            for i in 0..kelen - mb.len()
                invariant i <= mb@.len(),
            {
                mb.insert(i, 0);
            }
        }
        let mut prepend: Vec<u8> = vec![];
        prepend.extend_from_slice(&x2_bytes);
        prepend.extend_from_slice(&mb);
        prepend.extend_from_slice(&y2_bytes);
        proof { assert(prepend@ =~= be_bytes(pt_x(sp), 32) + mb@ + be_bytes(pt_y(sp), 32)); }
        let u = sm3_hash(&prepend);
        if shim_ne_bytes(&u, c3_bytes) {
            proof { lemma_dec_rej_hash(d, ciphertext@, compressed, model, q, c1_bytes@, c2_bytes@, c3_bytes@, sp, mb@, u@); }
            return Err(Sm2Error::HashNotEqual);
        }
        proof { lemma_decrypt_final(val4(self.d@), ciphertext@, compressed, model, q, c1_bytes@, c2_bytes@, c3_bytes@, sp, mb@); }
        Ok(mb)
    }

}

#[verifier::exec_allows_no_decreases_clause]
fn gen_keypair() -> (res: Sm2Result<(Sm2PublicKey, Sm2PrivateKey)>)
    ensures res is Ok ==> pk_ok(res->Ok_0.0) && res->Ok_0.1.public_key == res->Ok_0.0 && csprng(res->Ok_0.1.d@)
        && 1 <= val4(res->Ok_0.1.d@) <= N() - 2 && abs(res->Ok_0.0.point) == g_smul(val4(res->Ok_0.1.d@), G()),
        res is Ok ==> sk_ok(res->Ok_0.1),
        res is Ok ==> sign_term_ok(val4(res->Ok_0.1.d@)),
{
    hide(val4); hide(g_smul);
    proof { lemma_key_consts(); }
    let mut d = random_u256();
    while u256_cmp(&d, &SM2_N_MINUS_TWO) > 0
        invariant 1 <= val4(d@) < N(), csprng(d@), val4(SM2_N_MINUS_TWO@) == N() - 2,
    {
        d = random_u256();
    }
    proof { lemma_sign_term_ok(val4(d@)); }
    let pk = public_from_private(&d)?;
    let sk = Sm2PrivateKey { d, public_key: pk };
    Ok((pk, sk))
}

fn public_from_private(sk: &U256) -> (res: Sm2Result<Sm2PublicKey>)
    requires 1 <= val4(sk@) < N()
    ensures res is Ok, pk_ok(res->Ok_0), abs(res->Ok_0.point) == g_smul(val4(sk@), G())
{
    hide(val4); hide(g_smul);
    let p = g_mul(&sk);
    proof { ax_g_order(val4(sk@)); lemma_small_mod(val4(sk@) as nat, N() as nat); lemma_g_on_curve(); }
    if p.is_valid() {
        Ok(Sm2PublicKey { point: p })
    } else {
        Err(Sm2Error::InvalidPublic)
    }
}
//@section spec
// ======================================================================================================
// Scheme-level theorems (spec only, fully proved from the group axioms of sm2_math, ax_inv_n and ax_g_order)
// ======================================================================================================
// ---- generic group / scalar lemmas
// [j*n]a = O
proof fn thm_smul_order_mult(j: int, a: Pt) requires on_curve(a), j >= 0 ensures g_smul(j * N(), a) == Pt::Inf decreases j
{
    lemma_params();
    if j > 0 {
        thm_smul_order_mult(j - 1, a);
        ax_group_order(a);
        let n = N();
        assert((j - 1) * n + n == j * n) by(nonlinear_arith);
        assert((j - 1) * n >= 0) by(nonlinear_arith) requires j >= 1, n > 0;
        lemma_smul_add((j - 1) * n, n, a);
    } else {
        let n = N(); assert(j * n == 0) by(nonlinear_arith) requires j == 0;
    }
}
// [x]a = [x mod n]a
proof fn thm_smul_mod(x: int, a: Pt) requires on_curve(a), x >= 0 ensures g_smul(x, a) == g_smul(x % N(), a)
{
    lemma_params();
    let n = N();
    let q = x / n;
    let r = x % n;
    lemma_fundamental_div_mod(x, n);
    lemma_mod_pos_bound(x, n);
    assert(q >= 0) by(nonlinear_arith) requires x == n * q + r, 0 <= r < n, x >= 0, n > 0;
    assert(n * q == q * n) by(nonlinear_arith);
    assert(q * n >= 0) by(nonlinear_arith) requires q >= 0, n > 0;
    thm_smul_order_mult(q, a);
    lemma_smul_add(q * n, r, a);
}
// congruent non-negative scalars give the same multiple
proof fn thm_smul_congr(x: int, y: int, a: Pt) requires on_curve(a), x >= 0, y >= 0, x % N() == y % N() ensures g_smul(x, a) == g_smul(y, a)
{ thm_smul_mod(x, a); thm_smul_mod(y, a); }
// [x]([y]a) = [x*y]a
proof fn thm_smul_mul(x: int, y: int, a: Pt) requires on_curve(a), x >= 0, y >= 0 ensures g_smul(x, g_smul(y, a)) == g_smul(x * y, a) decreases x
{
    if x > 0 {
        thm_smul_mul(x - 1, y, a);
        assert((x - 1) * y + y == x * y) by(nonlinear_arith);
        assert((x - 1) * y >= 0) by(nonlinear_arith) requires x >= 1, y >= 0;
        lemma_smul_add((x - 1) * y, y, a);
    } else {
        assert(x * y == 0) by(nonlinear_arith) requires x == 0;
    }
}
// [x]([y]a) = [y]([x]a)
proof fn thm_smul_swap(x: int, y: int, a: Pt) requires on_curve(a), x >= 0, y >= 0 ensures g_smul(x, g_smul(y, a)) == g_smul(y, g_smul(x, a))
{ thm_smul_mul(x, y, a); thm_smul_mul(y, x, a); assert(x * y == y * x) by(nonlinear_arith); }

// ---- modular core of the SM2 signature: s = (1+d)^-1 (k - r d), t = r + s  ==>  s + t d = k  (mod n)
proof fn thm_sig_congruence(k: int, d: int, r: int, s: int)
    requires 1 <= d <= N() - 2, 0 <= k < N(), s == (inv_n(1 + d) * ((k - (r * d) % N()) % N())) % N()
    ensures (s + ((r + s) % N()) * d) % N() == k
{
    lemma_params();
    let n = N();
    let w = inv_n(1 + d);
    let u = (k - (r * d) % n) % n;
    let t = (r + s) % n;
    lemma_small_mod((1 + d) as nat, n as nat);
    ax_inv_n(1 + d);
    // u = (k - r d) mod n
    lemma_sub_mod_noop_right(k, r * d, n);
    assert(u == (k - r * d) % n);
    lemma_mod_twice(k - r * d, n);
    assert(u % n == u);
    // s (1+d) = u (mod n)
    lemma_mul_mod_noop_general(w * u, 1 + d, n);
    assert((s * (1 + d)) % n == ((w * u) * (1 + d)) % n);
    assert((w * u) * (1 + d) == u * ((1 + d) * w)) by(nonlinear_arith);
    lemma_mul_mod_noop_general(u, (1 + d) * w, n);
    assert((u * ((1 + d) * w)) % n == (u * 1) % n);
    assert(u * 1 == u);
    assert((s * (1 + d)) % n == u);
    // s + t d = s (1+d) + r d (mod n)
    lemma_mul_mod_noop_general(r + s, d, n);
    assert((t * d) % n == ((r + s) * d) % n);
    lemma_add_mod_noop_right(s, t * d, n);
    lemma_add_mod_noop_right(s, (r + s) * d, n);
    assert((s + t * d) % n == (s + (r + s) * d) % n);
    assert(s + (r + s) * d == s * (1 + d) + r * d) by(nonlinear_arith);
    lemma_add_mod_noop_right(r * d, s * (1 + d), n);
    assert((r * d + s * (1 + d)) % n == (r * d + u) % n);
    lemma_add_mod_noop_right(r * d, k - r * d, n);
    assert((r * d + u) % n == (r * d + (k - r * d)) % n);
    lemma_small_mod(k as nat, n as nat);
}

// ---- GB/T 32918.2: a signature produced by the signing equations 6.1 is accepted by the verification equation 7.1
// (the hypothesis 0 <= e of the statement is not needed by the proof)
proof fn theorem_sign_then_verify(k: int, d: int, e: int, r: int, s: int)
    requires 1 <= d <= N() - 2, 0 <= e, sig_from_nonce(k, d, e, r, s)
    ensures valid_sig(g_smul(d, G()), e, r, s)
{
    lemma_params(); lemma_g_on_curve();
    let n = N();
    let pa = g_smul(d, G());
    let t = (r + s) % n;
    lemma_mod_pos_bound(e + pt_x(g_smul(k, G())), n);
    lemma_mod_pos_bound(inv_n(1 + d) * ((k - (r * d) % n) % n), n);
    lemma_mod_pos_bound(r + s, n);
    assert(1 <= r < n && 1 <= s < n && 0 <= t < n);
    thm_sig_congruence(k, d, r, s);
    assert((s + t * d) % n == k);
    // t != 0: otherwise s == k and r + s == n, i.e. r + k == n, which signing excludes
    if t == 0 {
        assert(t * d == 0) by(nonlinear_arith) requires t == 0;
        lemma_small_mod(s as nat, n as nat);
        assert(s == k);
        lemma_fundamental_div_mod(r + s, n);
        let q = (r + s) / n;
        assert(q == 1) by(nonlinear_arith) requires r + s == n * q, 0 < r + s < 2 * n, n > 0;
        assert(false);
    }
    // [s]G + [t]([d]G) = [s + t d]G = [k]G
    assert(t * d >= 0) by(nonlinear_arith) requires t >= 0, d >= 0;
    thm_smul_mul(t, d, G());
    lemma_smul_add(s, t * d, G());
    lemma_small_mod(k as nat, n as nat);
    thm_smul_congr(s + t * d, k, G());
    let q = g_add(g_smul(s, G()), g_smul(t, pa));
    assert(q == g_smul(k, G()));
    ax_g_order(k);
    assert(q != Pt::Inf);
}

// ---- byte-string lemmas
// xor with the same pad twice is the identity
proof fn thm_xor_involution(m: Seq<u8>, t: Seq<u8>) requires t.len() == m.len() ensures s_xor(s_xor(m, t), t) =~= m
{
    let c = s_xor(m, t);
    assert(c.len() == m.len());
    assert forall|i: int| 0 <= i < m.len() implies #[trigger] s_xor(c, t)[i] == m[i] by {
        let a = m[i]; let b = t[i];
        assert(c[i] == a ^ b);
        assert((a ^ b) ^ b == a) by(bit_vector);
    }
}
// SEC1 encoding of an affine curve point has the announced length and decodes to the same point
proof fn thm_sec1_roundtrip(q: Pt, compressed: bool) requires on_curve(q), q != Pt::Inf
    ensures sec1(q, compressed).len() == c1_len(compressed), sec1_decodes(sec1(q, compressed), q)
{
    lemma_params(); lemma_pow256n_32();
    let x = pt_x(q); let y = pt_y(q);
    assert(q == Pt::Aff { x, y });
    let b = sec1(q, compressed);
    lemma_be_bytes_len(x, 32); lemma_be_bytes_len(y, 32);
    lemma_be_roundtrip(x, 32); lemma_be_roundtrip(y, 32);
    if compressed {
        let tag = if y % 2 == 0 { 2u8 } else { 3u8 };
        assert(b == seq![tag] + be_bytes(x, 32));
        assert(b.len() == 33);
        assert(b[0] == tag);
        assert(b.subrange(1, 33) =~= be_bytes(x, 32));
        assert(y % 2 == (b[0] as int - 2));
    } else {
        assert(b == seq![4u8] + be_bytes(x, 32) + be_bytes(y, 32));
        assert(b.len() == 65);
        assert(b[0] == 4u8);
        assert(b.subrange(1, 33) =~= be_bytes(x, 32));
        assert(b.subrange(33, 65) =~= be_bytes(y, 32));
    }
}
// splitting a three-part concatenation
proof fn thm_split3(a: Seq<u8>, b: Seq<u8>, c: Seq<u8>)
    ensures ({ let s = a + b + c; let la = a.len() as int; let lb = b.len() as int; let lc = c.len() as int;
        s.len() == la + lb + lc && s.subrange(0, la) =~= a && s.subrange(la, la + lb) =~= b && s.subrange(la + lb, la + lb + lc) =~= c
        && s.subrange(la, s.len() - lc) =~= b && s.subrange(s.len() - lc, s.len() as int) =~= c && s.subrange(la + lb, s.len() as int) =~= c })
{ }

// ---- GB/T 32918.4: decryption 7.1 accepts every ciphertext produced by encryption 6.1 for the matching key pair
// and returns the plaintext; the decoded C1 is [k]G
proof fn theorem_decrypt_inverts_encrypt(k: int, d: int, m: Seq<u8>, compressed: bool, model: Sm2Model, c: Seq<u8>)
    requires 1 <= d <= N() - 2, m.len() >= 1, enc_from_nonce(k, g_smul(d, G()), m, compressed, model, c)
    ensures dec_ok(d, c, compressed, model, g_smul(k, G()), m)
{
    lemma_params(); lemma_g_on_curve();
    let pa = g_smul(d, G());
    let q = g_smul(k, G());
    // C1 = [k]G is an affine curve point
    ax_g_order(k); lemma_small_mod(k as nat, N() as nat);
    lemma_smul_closed(k, G());
    assert(q != Pt::Inf && on_curve(q));
    let c1 = sec1(q, compressed);
    thm_sec1_roundtrip(q, compressed);
    // shared secret point: [d]([k]G) == [k]([d]G)
    let sp = g_smul(k, pa);
    thm_smul_swap(d, k, G());
    assert(g_smul(d, q) == sp);
    let t = s_kdf(xy_bytes(sp), m.len());
    lemma_kdf_len(xy_bytes(sp), m.len());
    let c2 = s_xor(m, t);
    let c3 = s_c3(sp, m);
    lemma_sm3_len(be_bytes(pt_x(sp), 32) + m + be_bytes(pt_y(sp), 32));
    assert(c1.len() == c1_len(compressed) && c2.len() == m.len() && c3.len() == 32);
    thm_xor_involution(m, t);
    match model {
        Sm2Model::C1C2C3 => {
            thm_split3(c1, c2, c3);
            assert(c == c1 + c2 + c3);
            assert(c.subrange(0, c1_len(compressed)) == c1);
            assert(ct_c2(c, compressed, model) == c2);
            assert(ct_c3(c, compressed, model) == c3);
        }
        Sm2Model::C1C3C2 => {
            thm_split3(c1, c3, c2);
            assert(c == c1 + c3 + c2);
            assert(c.subrange(0, c1_len(compressed)) == c1);
            assert(ct_c2(c, compressed, model) == c2);
            assert(ct_c3(c, compressed, model) == c3);
        }
    }
    assert(m == s_xor(c2, s_kdf(xy_bytes(sp), c2.len())));
}
// corollary: decryption accepts (existential form used by the contract of decrypt)
proof fn theorem_decrypt_accepts_encrypt(k: int, d: int, m: Seq<u8>, compressed: bool, model: Sm2Model, c: Seq<u8>)
    requires 1 <= d <= N() - 2, m.len() >= 1, enc_from_nonce(k, g_smul(d, G()), m, compressed, model, c)
    ensures dec_accept(d, c, compressed, model, m)
{ theorem_decrypt_inverts_encrypt(k, d, m, compressed, model, c); }
// ---- the same with 6.1 A5 / 7.1 B4 (KDF output not all zero): what encrypt returns is a ciphertext decrypt must accept
// (hypothesis of the completeness clause of Sm2PrivateKey::decrypt)
proof fn theorem_decrypt_accepts_encrypt_b4(k: int, d: int, m: Seq<u8>, compressed: bool, model: Sm2Model, c: Seq<u8>)
    requires 1 <= d <= N() - 2, m.len() >= 1, enc_from_nonce_b4(k, g_smul(d, G()), m, compressed, model, c)
    ensures dec_ok_b4(d, c, compressed, model, g_smul(k, G()), m), dec_acceptable(d, c, compressed, model)
{
    lemma_g_on_curve();
    theorem_decrypt_inverts_encrypt(k, d, m, compressed, model, c);
    let q = g_smul(k, G());
    thm_smul_swap(d, k, G());
    assert(g_smul(d, q) == g_smul(k, g_smul(d, G())));
    assert(ct_c2(c, compressed, model).len() == m.len());
    assert(dec_ok_b4(d, c, compressed, model, q, m));
    assert(dec_accept_b4(d, c, compressed, model, m));
}
// and every plaintext decrypt can return on it (soundness clause: dec_accept) is m: with the completeness clause this is
// decrypt(encrypt(m)) == Ok(m)
proof fn theorem_decrypt_plaintext_unique(k: int, d: int, m: Seq<u8>, compressed: bool, model: Sm2Model, c: Seq<u8>, m2: Seq<u8>)
    requires 1 <= d <= N() - 2, m.len() >= 1, enc_from_nonce(k, g_smul(d, G()), m, compressed, model, c), dec_accept(d, c, compressed, model, m2)
    ensures m2 == m
{
    theorem_decrypt_inverts_encrypt(k, d, m, compressed, model, c);
    let q1 = g_smul(k, G());
    let q2 = choose|q: Pt| #[trigger] dec_ok(d, c, compressed, model, q, m2);
    lemma_sec1_unique(c.subrange(0, c1_len(compressed)), q1, q2);
}
