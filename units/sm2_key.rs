//@unit sm2_key
//@serves C03 C04 C05 C06
//@source gm-sm2/src/key.rs
//@assume shim_concat2(a, b) == a ++ b; shim_ne_bytes / shim_u256_eq are (in)equality of byte strings / limb arrays (external_body shims whose body is the replaced std expression)
//@assume rand::thread_rng().fill_bytes yields CSPRNG bytes: random_u256 is the only source of `csprng` facts (provenance predicate); the rejection loops terminate with probability 1 (exec_allows_no_decreases_clause)
//@assume G has prime order n (ax_g_order): [k]G is the point at infinity iff n | k
//@rewrite-text [digest.to_vec(), msg.to_vec()].concat() ==> shim_concat2(digest.to_vec(), msg.to_vec())
//@rewrite-text id.unwrap_or_else(|| DEFAULT_ID) ==> shim_id_or_default(id)
//@rewrite-text in &t ==> in t.iter()
//@rewrite-text u != c3_bytes ==> shim_ne_bytes(&u, c3_bytes)
//@rewrite-text u256_add(&r, &k).0 == *n ==> shim_u256_eq(&u256_add(&r, &k).0, n)
//@include-spec sm2_math
//@include-spec sm3
//@include-spec sm2_ecc
//@include-spec sm2_util
//@include-spec sm2_rand
//@section spec
use core::fmt::Debug;
use vstd::arithmetic::div_mod::*;
#[verifier::external_body]
fn shim_id_or_default(id: Option<&'static str>) -> (r: &'static str) ensures r == (if id is Some { id->Some_0 } else { DEFAULT_ID }) { id.unwrap_or_else(|| DEFAULT_ID) }
#[verifier::external_body]
fn shim_concat2(a: Vec<u8>, b: Vec<u8>) -> (r: Vec<u8>) ensures r@ == a@ + b@ { [a, b].concat() }
#[verifier::external_body]
fn shim_ne_bytes(a: &[u8; 32], b: &[u8]) -> (r: bool) ensures r == !(a@ =~= b@) { a != b }
#[verifier::external_body]
fn shim_u256_eq(a: &U256, b: &U256) -> (r: bool) ensures r == (a@ =~= b@) { a == b }
#[verifier::external_body]
pub proof fn ax_g_order(k: int) requires k >= 0 ensures (g_smul(k, G()) == Pt::Inf) == (k % N() == 0) { }
pub proof fn lemma_g_on_curve() ensures on_curve(G()) { lemma_params(); }

// ---------------- GB/T 32918.2: digital signature ----------------
pub open spec fn pt_x(q: Pt) -> int { match q { Pt::Inf => 0, Pt::Aff { x, y } => x } }
pub open spec fn pt_y(q: Pt) -> int { match q { Pt::Inf => 0, Pt::Aff { x, y } => y } }
// e = Hv(ZA || M) read as an integer
pub open spec fn s_e(id: Seq<u8>, pa: Pt, m: Seq<u8>) -> int { be_val(sm3_spec(s_za(id, pt_x(pa), pt_y(pa)) + m)) }
// verification equation, 7.1 B1-B7
pub open spec fn valid_sig(pa: Pt, e: int, r: int, s: int) -> bool {
    &&& 1 <= r < N() &&& 1 <= s < N()
    &&& (r + s) % N() != 0
    &&& ({ let q = g_add(g_smul(s, G()), g_smul((r + s) % N(), pa)); q != Pt::Inf && r == (e + pt_x(q)) % N() })
}
// signing equations, 6.1 A3-A7, for the nonce k
pub open spec fn sig_from_nonce(k: int, d: int, e: int, r: int, s: int) -> bool {
    &&& 1 <= k < N()
    &&& r == (e + pt_x(g_smul(k, G()))) % N() &&& r != 0 &&& r + k != N()
    &&& s == (inv_n(1 + d) * ((k - (r * d) % N()) % N())) % N() &&& s != 0
}
//@section code gm-sm2/src/u256.rs
type U256 = [u64; 4];
const SM2_ONE: U256 = [1, 0, 0, 0];
//@stub sm2_limbs u256_add
//@stub sm2_limbs u256_cmp
//@stub sm2_limbs u256_from_be_bytes
//@section code gm-sm2/src/error.rs
type Sm2Result<T> = Result<T, Sm2Error>;
#[derive(PartialEq)]
enum Sm2Error {
    NotOnCurve,
    FieldSqrtError,
    InvalidDer,
    InvalidPublic,
    InvalidPrivate,
    ZeroDivisor,
    ZeroPoint,
    InvalidPoint,
    CheckPointErr,
    ZeroData,
    HashNotEqual,
    IdTooLong,
    ZeroFiled,
    InvalidFieldLen,
    ZeroSig,
    InvalidDigestLen,
    InvalidDigest,
    InvalidSecretKey,
    KdfHashError,
}
//@section spec
#[verifier::external]
impl core::fmt::Debug for Sm2Error { fn fmt(&self, f: &mut core::fmt::Formatter<'_>) -> core::fmt::Result { Ok(()) } }
//@section code gm-sm2/src/fields/fn64.rs
const SM2_N: U256 = [
    0x53bbf40939d54123,
    0x7203df6b21c6052b,
    0xffffffffffffffff,
    0xfffffffeffffffff,
];
const SM2_N_MINUS_TWO: U256 = [
    0x53bbf40939d54121,
    0x7203df6b21c6052b,
    0xffffffffffffffff,
    0xfffffffeffffffff,
];
//@stub sm2_fn fn_add
//@stub sm2_fn fn_sub
//@stub sm2_fn fn_mul
//@stub sm2_fn fn_pow
//@stub-trait sm2_fp FieldModOperation
//@stub sm2_fp fp_from_mont
//@stub sm3 sm3_hash
//@stub sm2_rand random_u256
//@section code gm-sm2/src/p256_ecc.rs
#[derive(Debug, Clone, Eq, PartialEq, Copy)]
struct Point {
    x: U256,
    y: U256,
    z: U256,
}
//@stub sm2_ecc Point::is_zero
//@stub sm2_ecc Point::is_valid
//@stub sm2_ecc Point::is_valid_affine_point
//@stub sm2_ecc Point::to_affine_point
//@stub sm2_ecc Point::to_byte_be
//@stub sm2_ecc Point::from_byte
//@stub sm2_ecc Point::point_add
//@stub sm2_ecc Point::scalar_mul
//@stub sm2_ecc g_mul
//@section code gm-sm2/src/util.rs
const DEFAULT_ID: &'static str = "1234567812345678";
//@stub sm2_util compute_za
//@stub sm2_util kdf
//@stub sm2_util xor_bytes
//@section spec local
proof fn lemma_key_consts() ensures val4(SM2_N@) == N(), val4(SM2_N_MINUS_TWO@) == N() - 2, val4(SM2_ONE@) == 1
{
    assert(val4(SM2_N@) == N() && val4(SM2_N_MINUS_TWO@) == N() - 2 && val4(SM2_ONE@) == 1) by(compute);
}
// invariants the constructors establish
spec fn pk_ok(k: Sm2PublicKey) -> bool { valid(k.point) && val4(k.point.z@) != 0 }
spec fn sk_ok(k: Sm2PrivateKey) -> bool { 1 <= val4(k.d@) <= N() - 2 && pk_ok(k.public_key) && abs(k.public_key.point) == g_smul(val4(k.d@), G()) }
//@section code gm-sm2/src/key.rs
#[derive(Debug, Clone, Copy)]
struct Sm2PublicKey {
    point: Point,
}

impl Sm2PublicKey {
    fn verify(&self, id: Option<&'static str>, msg: &[u8], sig: &[u8]) -> (res: Sm2Result<()>)
        requires pk_ok(*self), msg@.len() < 0x1000_0000_0000_0000,
            id is Some ==> str_bytes(id->Some_0).len() < 0x1000_0000_0000_0000, str_bytes(DEFAULT_ID).len() < 0x1000_0000_0000_0000,
            // known finding D34 (no witness computable): e + x1 can exceed 2^256 + n - 1 and is then reduced wrongly
            s_e(str_bytes(if id is Some { id->Some_0 } else { DEFAULT_ID }), abs(self.point), msg@) < r256() + N() - P(),
        ensures res is Ok ==> sig@.len() == 64 && 8 * str_bytes(if id is Some { id->Some_0 } else { DEFAULT_ID }).len() <= 65535
            && valid_sig(abs(self.point), s_e(str_bytes(if id is Some { id->Some_0 } else { DEFAULT_ID }), abs(self.point), msg@),
                         be_val(sig@.subrange(0, 32)), be_val(sig@.subrange(32, 64))),
    {
        let id = shim_id_or_default(id);
        let mut digest = compute_za(id, &self.point)?;
        proof { lemma_sm3_len(s_za(str_bytes(id), pt_x(abs(self.point)), pt_y(abs(self.point))) + msg@); }
        digest = sm3_hash(&shim_concat2(digest.to_vec(), msg.to_vec()));
        proof { assert(digest@.subrange(0, 32) =~= digest@); }
        self.verify_raw(&digest[..], &self.point, sig)
    }

    fn verify_raw(&self, digest: &[u8], pk: &Point, sig: &[u8]) -> (res: Sm2Result<()>)
        requires valid(*pk), val4(pk.z@) != 0,
            digest@.len() == 32 ==> be_val(digest@) < r256() + N() - P(),   // known finding D34, see verify
        ensures res is Ok ==> sig@.len() == 64 && digest@.len() == 32
            && valid_sig(abs(*pk), be_val(digest@), be_val(sig@.subrange(0, 32)), be_val(sig@.subrange(32, 64))),
    {
        if digest.len() != 32 {
            return Err(Sm2Error::InvalidDigestLen);
        }
        if sig.len() != 64 {
            return Err(Sm2Error::InvalidDigest);
        }
        proof { lemma_key_consts(); lemma_params(); lemma_g_on_curve(); }
        let n = &SM2_N;
        let r = &u256_from_be_bytes(&sig[..32]);
        let s = &u256_from_be_bytes(&sig[32..]);
        proof {
            assert(sig@.subrange(0, 32).subrange(0, 32) =~= sig@.subrange(0, 32));
            assert(sig@.subrange(32, 64).subrange(0, 32) =~= sig@.subrange(32, 64));
        }
        if r.is_zero() || s.is_zero() {
            return Err(Sm2Error::ZeroSig);
        }
        if u256_cmp(r, n) >= 0 || u256_cmp(s, n) >= 0 {
            return Err(Sm2Error::InvalidDigest);
        }
        let t = fn_add(&s, &r);
        if t.is_zero() {
            return Err(Sm2Error::InvalidDigest);
        }
        let s_g = g_mul(&s);
        let t_p = pk.scalar_mul(&t);
        let p = s_g.point_add(&t_p);
        if p.is_zero() {
            return Err(Sm2Error::InvalidDigest);
        }
        let ghost q = abs(p);
        let p = p.to_affine_point();
        proof {
            let b = be_bytes(fe(p.x@), 32);
            lemma_be_bytes_len(fe(p.x@), 32); lemma_pow256n_32(); lemma_be_roundtrip(fe(p.x@), 32);
            assert(b.subrange(0, 32) =~= b);
            assert(digest@.subrange(0, 32) =~= digest@);
            assert(q == g_add(g_smul(val4(s@), G()), g_smul(val4(t@), abs(*pk))));
            assert(q != Pt::Inf);
        }
        let x1 = u256_from_be_bytes(&fp_from_mont(&p.x).to_byte_be());
        let e = u256_from_be_bytes(&digest);
        let r1 = fn_add(&x1, &e);
        proof {
            if val4(r@) == val4(r1@) { lemma_small_mod(val4(r1@) as nat, N() as nat); }
            assert(val4(x1@) == pt_x(q));
            assert(val4(t@) == (val4(r@) + val4(s@)) % N());
        }
        return if u256_cmp(r, &r1) == 0 {
            Ok(())
        } else {
            Err(Sm2Error::InvalidDigest)
        };
    }
}
