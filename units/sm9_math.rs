//@unit sm9_math
//@serves C09 C10 C13 C14 C16 C17 C20
//@assume SM9 parameters p, N, b = 5, P1 in the spec are a transcription of GM/T 0044.5 (compared with the code constants by ground lemmas in the units that use them)
//@assume p and N are prime; G1, G2 are groups of order N under g1_add / g2_add; GT is a group of order N; the pairing symbol e9 is bilinear and non-degenerate (axioms ax9_*) - bilinearity of the implemented pairing itself is property C12 and is NOT claimed
//@assume the twist E'(Fp2): y^2 = x^3 + 5u over Fp2 = Fp[u]/(u^2 + 2) and its generator P2 in the spec are a transcription of GM/T 0044.5 (P2 is compared with the code constant and checked against the curve equation by ground lemmas: lemma_params9_g2 here, lemma_p2_generator in unit sm9_g2); ax9_g2_closed / ax9_g2_assoc: E'(Fp2) is a group under the chord-and-tangent law g2_add
//@include-spec sm2_math
//@section spec
use vstd::arithmetic::div_mod::*;
// ---------------------------------------------------------------- SM9 parameters (GM/T 0044.5)
pub open spec fn P9() -> int { 0xe56f9b27e351457dint + 0x1_0000_0000_0000_0000int * (0x21f2934b1a7aeedbint + 0x1_0000_0000_0000_0000int * (0xd603ab4ff58ec745int + 0x1_0000_0000_0000_0000int * 0xb640000002a3a6f1int)) }
pub open spec fn N9() -> int { 0xe56ee19cd69ecf25int + 0x1_0000_0000_0000_0000int * (0x49f2934b18ea8beeint + 0x1_0000_0000_0000_0000int * (0xd603ab4ff58ec744int + 0x1_0000_0000_0000_0000int * 0xb640000002a3a6f1int)) }
pub open spec fn RINV_P9() -> int { 0xa1c7970e5df544dint + 0x1_0000_0000_0000_0000int * (0xe74504e9a96b56ccint + 0x1_0000_0000_0000_0000int * (0xcda02d92d4d62924int + 0x1_0000_0000_0000_0000int * 0x7d2bc576fdf597d1int)) }
pub open spec fn P1X() -> int { 0xe8c4e4817c66ddddint + 0x1_0000_0000_0000_0000int * (0xe1e4086909dc3280int + 0x1_0000_0000_0000_0000int * (0xf5ed0704487d01d6int + 0x1_0000_0000_0000_0000int * 0x93de051d62bf718fint)) }
pub open spec fn P1Y() -> int { 0xc464cd70a3ea616int + 0x1_0000_0000_0000_0000int * (0x1c1c00cbfa602435int + 0x1_0000_0000_0000_0000int * (0x631065125c395bbcint + 0x1_0000_0000_0000_0000int * 0x21fe8dda4f21e607int)) }
pub proof fn lemma_params9()
    ensures 0 < N9() < P9(), P9() < r256(), r256() < 2 * N9(), (r256() * RINV_P9()) % P9() == 1, 0 < RINV_P9() < P9(),
        0 <= P1X() < P9(), 0 <= P1Y() < P9(), (P1Y() * P1Y()) % P9() == (P1X() * P1X() * P1X() + 5) % P9(),
{
    assert(0 < N9() < P9() && P9() < r256() && r256() < 2 * N9()) by(compute);
    assert((r256() * RINV_P9()) % P9() == 1) by(compute);
    assert(0 < RINV_P9() < P9()) by(compute);
    assert(0 <= P1X() < P9() && 0 <= P1Y() < P9()) by(compute);
    assert((P1Y() * P1Y()) % P9() == (P1X() * P1X() * P1X() + 5) % P9()) by(compute);
}
// field elements mod p in Montgomery form
pub open spec fn fe9(a: Seq<u64>) -> int { (val4(a) * RINV_P9()) % P9() }
pub open spec fn canon9(a: Seq<u64>) -> bool { a.len() == 4 && val4(a) < P9() }
pub open spec fn inv_p9(x: int) -> int { pow_mod(x, (P9() - 2) as nat, P9()) }
pub open spec fn inv_n9(x: int) -> int { pow_mod(x, (N9() - 2) as nat, N9()) }
#[verifier::external_body]
pub proof fn ax9_inv_p(x: int) requires x % P9() != 0 ensures (x * inv_p9(x)) % P9() == 1, 0 <= inv_p9(x) < P9() { }
#[verifier::external_body]
pub proof fn ax9_inv_n(x: int) requires x % N9() != 0 ensures (x * inv_n9(x)) % N9() == 1, 0 <= inv_n9(x) < N9() { }

// ---------------------------------------------------------------- G1: y^2 = x^3 + 5 over Fp
pub enum Pt1 { Inf, Aff { x: int, y: int } }
pub open spec fn on_curve1(q: Pt1) -> bool {
    match q { Pt1::Inf => true, Pt1::Aff { x, y } => 0 <= x < P9() && 0 <= y < P9() && (y * y) % P9() == (x * x * x + 5) % P9() }
}
pub open spec fn G1P() -> Pt1 { Pt1::Aff { x: P1X(), y: P1Y() } }
pub open spec fn g1_neg(a: Pt1) -> Pt1 { match a { Pt1::Inf => Pt1::Inf, Pt1::Aff { x, y } => Pt1::Aff { x, y: (P9() - y) % P9() } } }
pub open spec fn g1_add(a: Pt1, b: Pt1) -> Pt1 {
    match (a, b) {
        (Pt1::Inf, _) => b,
        (_, Pt1::Inf) => a,
        (Pt1::Aff { x: x1, y: y1 }, Pt1::Aff { x: x2, y: y2 }) =>
            if x1 == x2 && (y1 + y2) % P9() == 0 { Pt1::Inf }
            else {
                let lam = if x1 == x2 { ((3 * x1 * x1) * inv_p9(2 * y1)) % P9() } else { ((y2 - y1) * inv_p9(x2 - x1)) % P9() };
                let x3 = (lam * lam - x1 - x2) % P9();
                Pt1::Aff { x: x3, y: (lam * (x1 - x3) - y1) % P9() }
            }
    }
}
pub open spec fn g1_smul(k: int, a: Pt1) -> Pt1 decreases k { if k <= 0 { Pt1::Inf } else { g1_add(g1_smul(k - 1, a), a) } }
pub open spec fn abs_pt1(x: Seq<u64>, y: Seq<u64>, z: Seq<u64>) -> Pt1 {
    if val4(z) == 0 { Pt1::Inf } else {
        let zi = inv_p9(fe9(z));
        Pt1::Aff { x: (fe9(x) * zi * zi) % P9(), y: (fe9(y) * zi * zi * zi) % P9() }
    }
}
#[verifier::external_body]
pub proof fn ax9_g1_closed(a: Pt1, b: Pt1) requires on_curve1(a), on_curve1(b) ensures on_curve1(g1_add(a, b)) { }
#[verifier::external_body]
pub proof fn ax9_g1_comm(a: Pt1, b: Pt1) requires on_curve1(a), on_curve1(b) ensures g1_add(a, b) == g1_add(b, a) { }
#[verifier::external_body]
pub proof fn ax9_g1_assoc(a: Pt1, b: Pt1, c: Pt1) requires on_curve1(a), on_curve1(b), on_curve1(c) ensures g1_add(g1_add(a, b), c) == g1_add(a, g1_add(b, c)) { }
#[verifier::external_body]
pub proof fn ax9_g1_order(k: int) requires k >= 0 ensures (g1_smul(k, G1P()) == Pt1::Inf) == (k % N9() == 0) { }

// ---------------------------------------------------------------- Fp2 = Fp[u]/(u^2 + 2); G2 on the twist E': y^2 = x^3 + 5u over Fp2 (GM/T 0044.5); GT in Fp12: abstract
// an element c0 + c1 u of Fp2 (u^2 = -2); canonical when both coefficients are in [0, p)
pub struct F2 { pub c0: int, pub c1: int }
pub enum Pt2 { Inf, Aff { x: F2, y: F2 } }
pub open spec fn m2_ok(a: F2) -> bool { 0 <= a.c0 < P9() && 0 <= a.c1 < P9() }
pub open spec fn m2_zero() -> F2 { F2 { c0: 0, c1: 0 } }
pub open spec fn m2_add(a: F2, b: F2) -> F2 { F2 { c0: (a.c0 + b.c0) % P9(), c1: (a.c1 + b.c1) % P9() } }
pub open spec fn m2_sub(a: F2, b: F2) -> F2 { F2 { c0: (a.c0 - b.c0) % P9(), c1: (a.c1 - b.c1) % P9() } }
pub open spec fn m2_neg(a: F2) -> F2 { F2 { c0: (P9() - a.c0) % P9(), c1: (P9() - a.c1) % P9() } }
// (a0 + a1 u)(b0 + b1 u) = a0 b0 - 2 a1 b1 + (a0 b1 + a1 b0) u
pub open spec fn m2_mul(a: F2, b: F2) -> F2 { F2 { c0: (a.c0 * b.c0 - 2 * (a.c1 * b.c1)) % P9(), c1: (a.c0 * b.c1 + a.c1 * b.c0) % P9() } }
// inverse = conjugate / norm, norm = a0^2 + 2 a1^2 (total: the inverse of 0 is 0)
pub open spec fn m2_inv(a: F2) -> F2 {
    let d = inv_p9(a.c0 * a.c0 + 2 * (a.c1 * a.c1));
    F2 { c0: (a.c0 * d) % P9(), c1: ((P9() - a.c1) * d) % P9() }
}
// the coefficient b' = 5u of the twist and the generator P2 = (xP2, yP2) of G2
pub open spec fn B2() -> F2 { F2 { c0: 0, c1: 5 } }
pub open spec fn P2X0() -> int { 0xf9b7213baf82d65bint + 0x1_0000_0000_0000_0000int * (0xee265948d19c17abint + 0x1_0000_0000_0000_0000int * (0xd2aab97fd34ec120int + 0x1_0000_0000_0000_0000int * 0x3722755292130b08int)) }
pub open spec fn P2X1() -> int { 0x54806c11d8806141int + 0x1_0000_0000_0000_0000int * (0xf1dd2c190f5e93c4int + 0x1_0000_0000_0000_0000int * (0x597b6027b441a01fint + 0x1_0000_0000_0000_0000int * 0x85aef3d078640c98int)) }
pub open spec fn P2Y0() -> int { 0x6215bba5c999a7c7int + 0x1_0000_0000_0000_0000int * (0x47efba98a71a0811int + 0x1_0000_0000_0000_0000int * (0x5f3170153d278ff2int + 0x1_0000_0000_0000_0000int * 0xa7cf28d519be3da6int)) }
pub open spec fn P2Y1() -> int { 0x856dc76b84ebeb96int + 0x1_0000_0000_0000_0000int * (0x736a96fa347c8bdint + 0x1_0000_0000_0000_0000int * (0x66ba0d262cbee6edint + 0x1_0000_0000_0000_0000int * 0x17509b092e845c12int)) }
pub open spec fn on_curve2(q: Pt2) -> bool {
    match q { Pt2::Inf => true, Pt2::Aff { x, y } => m2_ok(x) && m2_ok(y) && m2_mul(y, y) == m2_add(m2_mul(m2_mul(x, x), x), B2()) }
}
pub open spec fn G2P() -> Pt2 { Pt2::Aff { x: F2 { c0: P2X0(), c1: P2X1() }, y: F2 { c0: P2Y0(), c1: P2Y1() } } }
pub open spec fn g2_neg(a: Pt2) -> Pt2 { match a { Pt2::Inf => Pt2::Inf, Pt2::Aff { x, y } => Pt2::Aff { x, y: m2_neg(y) } } }
// chord-and-tangent addition on E'(Fp2)
pub open spec fn g2_add(a: Pt2, b: Pt2) -> Pt2 {
    match (a, b) {
        (Pt2::Inf, _) => b,
        (_, Pt2::Inf) => a,
        (Pt2::Aff { x: x1, y: y1 }, Pt2::Aff { x: x2, y: y2 }) =>
            if x1 == x2 && m2_add(y1, y2) == m2_zero() { Pt2::Inf }
            else {
                let lam = if x1 == x2 { m2_mul(m2_add(m2_add(m2_mul(x1, x1), m2_mul(x1, x1)), m2_mul(x1, x1)), m2_inv(m2_add(y1, y1))) }
                          else { m2_mul(m2_sub(y2, y1), m2_inv(m2_sub(x2, x1))) };
                let x3 = m2_sub(m2_sub(m2_mul(lam, lam), x1), x2);
                Pt2::Aff { x: x3, y: m2_sub(m2_mul(lam, m2_sub(x1, x3)), y1) }
            }
    }
}
// P2 lies on the twist
pub proof fn lemma_params9_g2() ensures on_curve2(G2P()), 0 <= P2X0() < P9(), 0 <= P2X1() < P9(), 0 <= P2Y0() < P9(), 0 <= P2Y1() < P9()
{
    assert(0 <= P2X0() < P9() && 0 <= P2X1() < P9() && 0 <= P2Y0() < P9() && 0 <= P2Y1() < P9()) by(compute);
    assert((P2Y0() * P2Y0() - 2 * (P2Y1() * P2Y1())) % P9()
        == ((((P2X0() * P2X0() - 2 * (P2X1() * P2X1())) % P9()) * P2X0() - 2 * (((P2X0() * P2X1() + P2X1() * P2X0()) % P9()) * P2X1())) % P9() + 0) % P9()) by(compute);
    assert((P2Y0() * P2Y1() + P2Y1() * P2Y0()) % P9()
        == ((((P2X0() * P2X0() - 2 * (P2X1() * P2X1())) % P9()) * P2X1() + ((P2X0() * P2X1() + P2X1() * P2X0()) % P9()) * P2X0()) % P9() + 5) % P9()) by(compute);
}
#[verifier::external_body]
pub proof fn ax9_g2_closed(a: Pt2, b: Pt2) requires on_curve2(a), on_curve2(b) ensures on_curve2(g2_add(a, b)) { }
#[verifier::external_body]
pub proof fn ax9_g2_assoc(a: Pt2, b: Pt2, c: Pt2) requires on_curve2(a), on_curve2(b), on_curve2(c) ensures g2_add(g2_add(a, b), c) == g2_add(a, g2_add(b, c)) { }
pub open spec fn g2_smul(k: int, a: Pt2) -> Pt2 decreases k { if k <= 0 { Pt2::Inf } else { g2_add(g2_smul(k - 1, a), a) } }
// an element of Fp12 as its 12 canonical coefficients (c0.c0.c0, c0.c0.c1, c0.c1.c0, ... in the code's nesting order)
pub struct Gt { pub c: Seq<int> }
// 384-byte serialisation of a GT element (big-endian coefficients, highest first)
pub open spec fn gt_bytes(g: Gt) -> Seq<u8> decreases g.c.len() { if g.c.len() == 0 { Seq::empty() } else { be_bytes(g.c.last(), 32) + gt_bytes(Gt { c: g.c.drop_last() }) } }
