//@unit sm9_math
//@serves C09 C10 C13 C14 C16 C17 C20
//@assume SM9 parameters p, N, b = 5, P1 in the spec are a transcription of GM/T 0044.5 (compared with the code constants by ground lemmas in the units that use them)
//@assume p and N are prime; G1, G2 are groups of order N under g1_add / g2_add; GT is a group of order N; the pairing symbol e9 is bilinear and non-degenerate (axioms ax9_*) - bilinearity of the implemented pairing itself is property C12 and is NOT claimed
//@include-spec sm2_math
//@section spec
use vstd::arithmetic::div_mod::*;
// ---------------------------------------------------------------- SM9 parameters (GM/T 0044.5)
pub open spec fn P9() -> int { 0xe56f9b27e351457dint + 0x1_0000_0000_0000_0000int * (0x21f2934b1a7aeedbint + 0x1_0000_0000_0000_0000int * (0xd603ab4ff58ec745int + 0x1_0000_0000_0000_0000int * 0xb640000002a3a6f1int)) }
pub open spec fn N9() -> int { 0xe56ee19cd69ecf25int + 0x1_0000_0000_0000_0000int * (0x49f2934b18ea8beeint + 0x1_0000_0000_0000_0000int * (0xd603ab4ff58ec744int + 0x1_0000_0000_0000_0000int * 0xb640000002a3a6f1int)) }
pub open spec fn RINV_P9() -> int { 0xa1c7970e5df544dint + 0x1_0000_0000_0000_0000int * (0xe74504e9a96b56ccint + 0x1_0000_0000_0000_0000int * (0xcda02d92d4d62924int + 0x1_0000_0000_0000_0000int * 0x7d2bc576fdf597d1int)) }
pub open spec fn P1X() -> int { 0xe8c4e4817c66ddddint + 0x1_0000_0000_0000_0000int * (0xe1e4086909dc3280int + 0x1_0000_0000_0000_0000int * (0xf5ed0704487d01d6int + 0x1_0000_0000_0000_0000int * 0x93de051d62bf718fint)) }
pub open spec fn P1Y() -> int { 0xc464cd70a3ea616int + 0x1_0000_0000_0000_0000int * (0x1c1c00cbfa602435int + 0x1_0000_0000_0000_0000int * (0x631065125c395bbcint + 0x1_0000_0000_0000_0000int * 0x21fe8dda4f21e607int)) }
pub proof fn lemma_params9()
    ensures 0 < N9() < P9(), P9() < r256(), r256() < 2 * N9(), (r256() * RINV_P9()) % P9() == 1, 0 < RINV_P9() < P9(),
        0 <= P1X() < P9(), 0 <= P1Y() < P9(), (P1Y() * P1Y()) % P9() == (P1X() * P1X() * P1X() + 5) % P9(),
{
    assert(0 < N9() < P9() && P9() < r256() && r256() < 2 * N9()) by(compute);
    assert((r256() * RINV_P9()) % P9() == 1) by(compute);
    assert(0 < RINV_P9() < P9()) by(compute);
    assert(0 <= P1X() < P9() && 0 <= P1Y() < P9()) by(compute);
    assert((P1Y() * P1Y()) % P9() == (P1X() * P1X() * P1X() + 5) % P9()) by(compute);
}
// field elements mod p in Montgomery form
pub open spec fn fe9(a: Seq<u64>) -> int { (val4(a) * RINV_P9()) % P9() }
pub open spec fn canon9(a: Seq<u64>) -> bool { a.len() == 4 && val4(a) < P9() }
pub open spec fn inv_p9(x: int) -> int { pow_mod(x, (P9() - 2) as nat, P9()) }
pub open spec fn inv_n9(x: int) -> int { pow_mod(x, (N9() - 2) as nat, N9()) }
#[verifier::external_body]
pub proof fn ax9_inv_p(x: int) requires x % P9() != 0 ensures (x * inv_p9(x)) % P9() == 1, 0 <= inv_p9(x) < P9() { }
#[verifier::external_body]
pub proof fn ax9_inv_n(x: int) requires x % N9() != 0 ensures (x * inv_n9(x)) % N9() == 1, 0 <= inv_n9(x) < N9() { }

// ---------------------------------------------------------------- G1: y^2 = x^3 + 5 over Fp
pub enum Pt1 { Inf, Aff { x: int, y: int } }
pub open spec fn on_curve1(q: Pt1) -> bool {
    match q { Pt1::Inf => true, Pt1::Aff { x, y } => 0 <= x < P9() && 0 <= y < P9() && (y * y) % P9() == (x * x * x + 5) % P9() }
}
pub open spec fn G1P() -> Pt1 { Pt1::Aff { x: P1X(), y: P1Y() } }
pub open spec fn g1_neg(a: Pt1) -> Pt1 { match a { Pt1::Inf => Pt1::Inf, Pt1::Aff { x, y } => Pt1::Aff { x, y: (P9() - y) % P9() } } }
pub open spec fn g1_add(a: Pt1, b: Pt1) -> Pt1 {
    match (a, b) {
        (Pt1::Inf, _) => b,
        (_, Pt1::Inf) => a,
        (Pt1::Aff { x: x1, y: y1 }, Pt1::Aff { x: x2, y: y2 }) =>
            if x1 == x2 && (y1 + y2) % P9() == 0 { Pt1::Inf }
            else {
                let lam = if x1 == x2 { ((3 * x1 * x1) * inv_p9(2 * y1)) % P9() } else { ((y2 - y1) * inv_p9(x2 - x1)) % P9() };
                let x3 = (lam * lam - x1 - x2) % P9();
                Pt1::Aff { x: x3, y: (lam * (x1 - x3) - y1) % P9() }
            }
    }
}
pub open spec fn g1_smul(k: int, a: Pt1) -> Pt1 decreases k { if k <= 0 { Pt1::Inf } else { g1_add(g1_smul(k - 1, a), a) } }
pub open spec fn abs_pt1(x: Seq<u64>, y: Seq<u64>, z: Seq<u64>) -> Pt1 {
    if val4(z) == 0 { Pt1::Inf } else {
        let zi = inv_p9(fe9(z));
        Pt1::Aff { x: (fe9(x) * zi * zi) % P9(), y: (fe9(y) * zi * zi * zi) % P9() }
    }
}
#[verifier::external_body]
pub proof fn ax9_g1_closed(a: Pt1, b: Pt1) requires on_curve1(a), on_curve1(b) ensures on_curve1(g1_add(a, b)) { }
#[verifier::external_body]
pub proof fn ax9_g1_comm(a: Pt1, b: Pt1) requires on_curve1(a), on_curve1(b) ensures g1_add(a, b) == g1_add(b, a) { }
#[verifier::external_body]
pub proof fn ax9_g1_assoc(a: Pt1, b: Pt1, c: Pt1) requires on_curve1(a), on_curve1(b), on_curve1(c) ensures g1_add(g1_add(a, b), c) == g1_add(a, g1_add(b, c)) { }
#[verifier::external_body]
pub proof fn ax9_g1_order(k: int) requires k >= 0 ensures (g1_smul(k, G1P()) == Pt1::Inf) == (k % N9() == 0) { }

// ---------------------------------------------------------------- Fp2 = Fp[u]/(u^2 + 2), G2 on the twist y^2 = x^3 + 5u, GT in Fp12: abstract
pub struct F2 { pub c0: int, pub c1: int }
pub enum Pt2 { Inf, Aff { x: F2, y: F2 } }
pub uninterp spec fn on_curve2(q: Pt2) -> bool;
pub uninterp spec fn G2P() -> Pt2;
pub uninterp spec fn g2_add(a: Pt2, b: Pt2) -> Pt2;
pub open spec fn g2_smul(k: int, a: Pt2) -> Pt2 decreases k { if k <= 0 { Pt2::Inf } else { g2_add(g2_smul(k - 1, a), a) } }
// an element of Fp12 as its 12 canonical coefficients (c0.c0.c0, c0.c0.c1, c0.c1.c0, ... in the code's nesting order)
pub struct Gt { pub c: Seq<int> }
pub uninterp spec fn gt_one() -> Gt;
pub uninterp spec fn gt_mul(a: Gt, b: Gt) -> Gt;
pub open spec fn gt_pow(g: Gt, k: int) -> Gt decreases k { if k <= 0 { gt_one() } else { gt_mul(gt_pow(g, k - 1), g) } }
// the R-ate pairing of GM/T 0044.1 as an abstract symbol: e9(Q in G2, P in G1)
pub uninterp spec fn e9(q: Pt2, p: Pt1) -> Gt;
// bilinearity as used by the scheme-level lemmas (assumed; C12 is not claimed)
#[verifier::external_body]
pub proof fn ax9_bilinear(a: int, b: int, q: Pt2, p: Pt1) requires a >= 0, b >= 0, on_curve2(q), on_curve1(p)
    ensures e9(g2_smul(a, q), g1_smul(b, p)) == gt_pow(e9(q, p), a * b) { }
// 384-byte serialisation of a GT element (big-endian coefficients, highest first)
pub open spec fn gt_bytes(g: Gt) -> Seq<u8> decreases g.c.len() { if g.c.len() == 0 { Seq::empty() } else { be_bytes(g.c.last(), 32) + gt_bytes(Gt { c: g.c.drop_last() }) } }
