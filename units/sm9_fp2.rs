//@unit sm9_fp2
//@serves C09 C10 C13 C16 C17 C20
//@source gm-sm9/src/fields/fp2.rs
//@include-spec sm2_math
//@include-spec sm9_math
//@section spec
use core::fmt::Debug;
use vstd::arithmetic::div_mod::*;
use vstd::arithmetic::mul::*;
// ---------------------------------------------------------------- Fp2 = Fp[u]/(u^2 + 2) (GM/T 0044.1: u^2 = -2)
// an element c0 + c1*u is the coefficient vector [c0, c1], each coefficient in [0, P9())
pub open spec fn f2_ok(a: Seq<int>) -> bool { a.len() == 2 && 0 <= a[0] < P9() && 0 <= a[1] < P9() }
pub open spec fn f2_zero() -> Seq<int> { seq![0int, 0int] }
pub open spec fn f2_one() -> Seq<int> { seq![1int, 0int] }
pub open spec fn f2_u() -> Seq<int> { seq![0int, 1int] }
// the embedding of Fp
pub open spec fn f2_fp(k: int) -> Seq<int> { seq![k, 0int] }
pub open spec fn f2_add(a: Seq<int>, b: Seq<int>) -> Seq<int> { seq![(a[0] + b[0]) % P9(), (a[1] + b[1]) % P9()] }
pub open spec fn f2_sub(a: Seq<int>, b: Seq<int>) -> Seq<int> { seq![(a[0] - b[0]) % P9(), (a[1] - b[1]) % P9()] }
pub open spec fn f2_neg(a: Seq<int>) -> Seq<int> { seq![(P9() - a[0]) % P9(), (P9() - a[1]) % P9()] }
// (a0 + a1 u)(b0 + b1 u) = a0 b0 + a1 b1 u^2 + (a0 b1 + a1 b0) u,  u^2 = -2
pub open spec fn f2_mul(a: Seq<int>, b: Seq<int>) -> Seq<int> { seq![(a[0] * b[0] - 2 * (a[1] * b[1])) % P9(), (a[0] * b[1] + a[1] * b[0]) % P9()] }
// norm to Fp: (a0 + a1 u)(a0 - a1 u) = a0^2 + 2 a1^2
pub open spec fn f2_norm(a: Seq<int>) -> int { a[0] * a[0] + 2 * (a[1] * a[1]) }
// conjugate a0 - a1 u
pub open spec fn f2_conj(a: Seq<int>) -> Seq<int> { seq![a[0], (P9() - a[1]) % P9()] }
// inverse = conjugate / norm (total: inv_p9(0) == 0, so f2_inv(0) == 0)
pub open spec fn f2_inv(a: Seq<int>) -> Seq<int> { seq![(a[0] * inv_p9(f2_norm(a))) % P9(), ((P9() - a[1]) * inv_p9(f2_norm(a))) % P9()] }
// multiple by an element k of Fp
pub open spec fn f2_scale(a: Seq<int>, k: int) -> Seq<int> { seq![(a[0] * k) % P9(), (a[1] * k) % P9()] }
// GM/T 0044.1 6.2: the coefficient of the higher power first, each as 32 big-endian bytes
pub open spec fn f2_bytes(a: Seq<int>) -> Seq<u8> { be_bytes(a[1], 32) + be_bytes(a[0], 32) }

// ---------------------------------------------------------------- modular toolkit (modulus P9())
pub proof fn f2_pos() ensures P9() > 2 { lemma_params9(); assert(P9() > 2) by(compute); }
pub proof fn f2_range(x: int) ensures 0 <= x % P9() < P9() { f2_pos(); lemma_mod_bound(x, P9()); }
pub proof fn f2_small(x: int) requires 0 <= x < P9() ensures x % P9() == x { lemma_small_mod(x as nat, P9() as nat); }
pub proof fn f2_modmod(a: int) ensures (a % P9()) % P9() == a % P9() { f2_pos(); lemma_mod_twice(a, P9()); }
pub proof fn f2_cong_mul(a: int, b: int, c: int) requires a % P9() == b % P9() ensures (a * c) % P9() == (b * c) % P9(), (c * a) % P9() == (c * b) % P9()
{
    f2_pos();
    lemma_mul_mod_noop_general(a, c, P9());
    lemma_mul_mod_noop_general(b, c, P9());
    assert(a * c == c * a) by(nonlinear_arith);
    assert(b * c == c * b) by(nonlinear_arith);
}
pub proof fn f2_cong_add(a: int, b: int, c: int, d: int) requires a % P9() == b % P9(), c % P9() == d % P9()
    ensures (a + c) % P9() == (b + d) % P9(), (a - c) % P9() == (b - d) % P9()
{
    f2_pos();
    lemma_add_mod_noop(a, c, P9()); lemma_add_mod_noop(b, d, P9());
    lemma_sub_mod_noop(a, c, P9()); lemma_sub_mod_noop(b, d, P9());
}
pub proof fn f2_shift(x: int, k: int) ensures (x + k * P9()) % P9() == x % P9()
{
    f2_pos();
    lemma_mod_multiples_vanish(k, x, P9());
    assert(P9() * k + x == x + k * P9()) by(nonlinear_arith);
}
// r is (a op b) % p and the operands are known up to congruence: r == a2 op b2 (mod p); r itself is reduced
pub proof fn f2_cm(r: int, a: int, b: int, a2: int, b2: int) requires r == (a * b) % P9(), a % P9() == a2 % P9(), b % P9() == b2 % P9() ensures r % P9() == (a2 * b2) % P9(), r % P9() == r
{ f2_modmod(a * b); f2_cong_mul(a, a2, b); f2_cong_mul(b, b2, a2); }
pub proof fn f2_ca(r: int, a: int, b: int, a2: int, b2: int) requires r == (a + b) % P9(), a % P9() == a2 % P9(), b % P9() == b2 % P9() ensures r % P9() == (a2 + b2) % P9(), r % P9() == r
{ f2_modmod(a + b); f2_cong_add(a, a2, b, b2); }
pub proof fn f2_cs(r: int, a: int, b: int, a2: int, b2: int) requires r == (a - b) % P9(), a % P9() == a2 % P9(), b % P9() == b2 % P9() ensures r % P9() == (a2 - b2) % P9(), r % P9() == r
{ f2_modmod(a - b); f2_cong_add(a, a2, b, b2); }
// the code's negation (p - a) % p
pub proof fn f2_cn(r: int, a: int, a2: int) requires r == (P9() - a) % P9(), a % P9() == a2 % P9() ensures r % P9() == (0 - a2) % P9(), r % P9() == r
{ f2_modmod(P9() - a); f2_cong_add(0, 0, a, a2); f2_shift(0 - a, 1); }
pub proof fn f2_unit(x: int, u: int) requires u % P9() == 1 ensures (x * u) % P9() == x % P9()
{ f2_pos(); lemma_mul_mod_noop_general(x, u, P9()); assert(x * 1 == x); }
// ---------------------------------------------------------------- inverses in Fp
pub proof fn f2_pow_cong(x: int, y: int, e: nat) requires x % P9() == y % P9() ensures pow_mod(x, e, P9()) == pow_mod(y, e, P9()) decreases e
{
    if e > 0 {
        f2_pow_cong(x, y, (e - 1) as nat);
        f2_cong_mul(x, y, pow_mod(x, (e - 1) as nat, P9()));
    }
}
pub proof fn f2_inv_cong(x: int, y: int) requires x % P9() == y % P9() ensures inv_p9(x) == inv_p9(y)
{ f2_pow_cong(x, y, (P9() - 2) as nat); }
pub proof fn f2_inv_zero() ensures inv_p9(0) == 0
{
    f2_pos();
    let e = (P9() - 2) as nat;
    let q = pow_mod(0, (e - 1) as nat, P9());
    assert(q * 0 == 0);
    f2_small(0);
}
pub proof fn f2_inv_range(x: int) ensures 0 <= inv_p9(x) < P9()
{ f2_pos(); f2_range(pow_mod(x, ((P9() - 2) as nat - 1) as nat, P9()) * x); }
// p is prime (through ax9_inv_p): no zero divisors
pub proof fn f2_nz_mul(a: int, b: int) requires a % P9() != 0, b % P9() != 0 ensures (a * b) % P9() != 0
{
    if (a * b) % P9() == 0 {
        ax9_inv_p(a);
        let ai = inv_p9(a);
        f2_small(0);
        f2_cong_mul(a * b, 0, ai);
        assert(0 * ai == 0);
        assert((a * b) * ai == b * (a * ai)) by(nonlinear_arith);
        f2_unit(b, a * ai);
    }
}
// a * inv(a^2) == inv(a)
pub proof fn f2_inv_sq(a: int) requires a % P9() != 0 ensures (a * inv_p9(a * a)) % P9() == inv_p9(a)
{
    f2_nz_mul(a, a);
    ax9_inv_p(a); ax9_inv_p(a * a);
    let i = inv_p9(a); let d = inv_p9(a * a);
    // a*d == (a*d) * (a*i) == (a*a*d) * i == i
    f2_unit(a * d, a * i);
    assert((a * d) * (a * i) == i * ((a * a) * d)) by(nonlinear_arith);
    f2_unit(i, (a * a) * d);
    f2_small(i);
}
// ---------------------------------------------------------------- algebra for the next layers
pub proof fn f2_lemma_ok_ops(a: Seq<int>, b: Seq<int>)
    ensures f2_ok(f2_add(a, b)), f2_ok(f2_sub(a, b)), f2_ok(f2_mul(a, b)), f2_ok(f2_neg(a)), f2_ok(f2_inv(a)), f2_ok(a) ==> f2_ok(f2_conj(a)),
        f2_ok(f2_zero()), f2_ok(f2_one()), f2_ok(f2_u()),
{
    f2_pos();
    f2_range(a[0] + b[0]); f2_range(a[1] + b[1]); f2_range(a[0] - b[0]); f2_range(a[1] - b[1]);
    f2_range(a[0] * b[0] - 2 * (a[1] * b[1])); f2_range(a[0] * b[1] + a[1] * b[0]);
    f2_range(P9() - a[0]); f2_range(P9() - a[1]);
    f2_range(a[0] * inv_p9(f2_norm(a))); f2_range((P9() - a[1]) * inv_p9(f2_norm(a)));
}
pub proof fn f2_lemma_ok_scale(a: Seq<int>, k: int) ensures f2_ok(f2_scale(a, k))
{ f2_range(a[0] * k); f2_range(a[1] * k); }
pub proof fn f2_lemma_mul_comm(a: Seq<int>, b: Seq<int>) ensures f2_mul(a, b) == f2_mul(b, a)
{
    assert(a[0] * b[0] == b[0] * a[0]) by(nonlinear_arith);
    assert(a[1] * b[1] == b[1] * a[1]) by(nonlinear_arith);
    assert(a[0] * b[1] == b[1] * a[0]) by(nonlinear_arith);
    assert(a[1] * b[0] == b[0] * a[1]) by(nonlinear_arith);
}
pub proof fn f2_lemma_add_comm(a: Seq<int>, b: Seq<int>) ensures f2_add(a, b) == f2_add(b, a) { }
pub proof fn f2_lemma_mul_one(a: Seq<int>) requires f2_ok(a) ensures f2_mul(a, f2_one()) == a, f2_mul(f2_one(), a) == a
{
    let o = f2_one();
    assert(o[0] == 1 && o[1] == 0);
    assert(a[0] * 1 - 2 * (a[1] * 0) == a[0]) by(nonlinear_arith);
    assert(a[0] * 0 + a[1] * 1 == a[1]) by(nonlinear_arith);
    f2_small(a[0]); f2_small(a[1]);
    assert(f2_mul(a, o) =~= a);
    f2_lemma_mul_comm(a, o);
}
pub proof fn f2_lemma_mul_zero(a: Seq<int>) ensures f2_mul(a, f2_zero()) == f2_zero(), f2_mul(f2_zero(), a) == f2_zero()
{
    let z = f2_zero();
    assert(z[0] == 0 && z[1] == 0);
    assert(a[0] * 0 - 2 * (a[1] * 0) == 0) by(nonlinear_arith);
    assert(a[0] * 0 + a[1] * 0 == 0) by(nonlinear_arith);
    f2_pos(); f2_small(0);
    f2_lemma_mul_comm(a, z);
}
pub proof fn f2_lemma_add_zero(a: Seq<int>) requires f2_ok(a) ensures f2_add(a, f2_zero()) == a
{
    let z = f2_zero();
    assert(z[0] == 0 && z[1] == 0);
    f2_small(a[0]); f2_small(a[1]);
    assert(f2_add(a, z) =~= a);
}
// a * u = -2 a1 + a0 u
pub proof fn f2_lemma_mul_u(a: Seq<int>) requires f2_ok(a) ensures f2_mul(a, f2_u()) == seq![(0 - 2 * a[1]) % P9(), a[0]]
{
    let u = f2_u();
    assert(u[0] == 0 && u[1] == 1);
    assert(a[0] * 0 - 2 * (a[1] * 1) == 0 - 2 * a[1]) by(nonlinear_arith);
    assert(a[0] * 1 + a[1] * 0 == a[0]) by(nonlinear_arith);
    f2_small(a[0]);
}
// multiplication by an embedded Fp element is the scalar multiple
pub proof fn f2_lemma_scale(a: Seq<int>, k: int) ensures f2_mul(a, f2_fp(k)) == f2_scale(a, k)
{
    let e = f2_fp(k);
    assert(e[0] == k && e[1] == 0);
    assert(a[0] * k - 2 * (a[1] * 0) == a[0] * k) by(nonlinear_arith);
    assert(a[0] * 0 + a[1] * k == a[1] * k) by(nonlinear_arith);
}
// f2_inv is the multiplicative inverse wherever the norm is not 0 mod p
pub proof fn f2_lemma_inv(a: Seq<int>) requires f2_norm(a) % P9() != 0 ensures f2_mul(a, f2_inv(a)) == f2_one()
{
    f2_pos();
    let a0 = a[0]; let a1 = a[1]; let n = f2_norm(a); let d = inv_p9(n);
    ax9_inv_p(n);
    let i0 = (a0 * d) % P9(); let i1 = ((P9() - a1) * d) % P9();
    let v = f2_inv(a);
    assert(v[0] == i0 && v[1] == i1);
    f2_modmod(a0 * d); f2_modmod((P9() - a1) * d);
    // c0: a0*i0 - 2*(a1*i1) == a0*(a0*d) - 2*(a1*((p - a1)*d)) == n*d - 2*a1*d*p  == 1
    let x0 = (a0 * i0) % P9(); f2_cm(x0, a0, i0, a0, a0 * d);
    let y0 = (a1 * i1) % P9(); f2_cm(y0, a1, i1, a1, (P9() - a1) * d);
    f2_cong_mul(y0, a1 * ((P9() - a1) * d), 2);
    f2_modmod(a0 * i0); f2_modmod(a1 * i1);
    f2_cong_mul(a1 * i1, y0, 2);
    f2_cong_add(a0 * i0, x0, 2 * (a1 * i1), 2 * y0);
    f2_cong_add(x0, a0 * (a0 * d), 2 * y0, 2 * (a1 * ((P9() - a1) * d)));
    assert(a0 * (a0 * d) - 2 * (a1 * ((P9() - a1) * d)) == n * d + (0 - 2 * (a1 * d)) * P9()) by(nonlinear_arith) requires n == a0 * a0 + 2 * (a1 * a1);
    f2_shift(n * d, 0 - 2 * (a1 * d));
    // c1: a0*i1 + a1*i0 == a0*(p - a1)*d + a1*a0*d == (a0*d)*p == 0
    let x1 = (a0 * i1) % P9(); f2_cm(x1, a0, i1, a0, (P9() - a1) * d);
    let y1 = (a1 * i0) % P9(); f2_cm(y1, a1, i0, a1, a0 * d);
    f2_modmod(a0 * i1); f2_modmod(a1 * i0);
    f2_cong_add(a0 * i1, x1, a1 * i0, y1);
    f2_cong_add(x1, a0 * ((P9() - a1) * d), y1, a1 * (a0 * d));
    assert(a0 * ((P9() - a1) * d) + a1 * (a0 * d) == 0 + (a0 * d) * P9()) by(nonlinear_arith);
    f2_shift(0, a0 * d);
    f2_small(0); f2_small(1);
    assert(f2_mul(a, v) =~= f2_one());
}
//@section code gm-sm9/src/u256.rs
type U256 = [u64; 4];
//@section code gm-sm9/src/fields/fp.rs
type Fp = U256;
//@stub-trait sm9_fp FieldElement
//@section code gm-sm9/src/fields/fp2.rs
#[derive(Debug, Copy, Clone)]
struct Fp2 {
    c0: Fp,
    c1: Fp,
}
//@section spec local
use vstd::std_specs::cmp::PartialEqSpec;
// the value of an Fp element as the trait contract presents it: the one-coefficient vector [fe9]
proof fn f2_v(a: Fp) ensures a.val() =~= seq![fe9(a@)], a.val()[0] == fe9(a@), a.val().len() == 1, 0 <= fe9(a@) < P9(), fe9(a@) % P9() == fe9(a@)
{ f2_range(val4(a@) * RINV_P9()); f2_small(fe9(a@)); }
// the coefficients of an Fp2 element
proof fn f2_w(a: Fp2) ensures a.val()[0] == fe9(a.c0@), a.val()[1] == fe9(a.c1@), a.val().len() == 2, f2_ok(a.val()),
    fe9(a.c0@) % P9() == fe9(a.c0@), fe9(a.c1@) % P9() == fe9(a.c1@)
{ f2_v(a.c0); f2_v(a.c1); }
// the same for every Fp value that is mentioned (results of calls that cannot be named, e.g. inside a struct literal)
spec fn f2_vp(r: Fp) -> bool { r.val()[0] == fe9(r@) && r.val().len() == 1 && 0 <= fe9(r@) < P9() && fe9(r@) % P9() == fe9(r@) }
proof fn f2_all() ensures forall|r: Fp| #![trigger r.val()] f2_vp(r)
{ assert forall|r: Fp| #![trigger r.val()] f2_vp(r) by { f2_v(r); } }
// zero tests: a vector is the zero vector iff its coefficients are 0
proof fn f2_zero_test(a: Fp2) ensures (a.c0.val() == seq![0int]) == (fe9(a.c0@) == 0), (a.c1.val() == seq![0int]) == (fe9(a.c1@) == 0),
    (a.val() == f2_zero()) == (fe9(a.c0@) == 0 && fe9(a.c1@) == 0)
{
    f2_w(a);
    if a.c0.val() == seq![0int] { assert(a.c0.val()[0] == seq![0int][0]); }
    if a.c1.val() == seq![0int] { assert(a.c1.val()[0] == seq![0int][0]); }
    if a.val() == f2_zero() { assert(a.val()[0] == f2_zero()[0] && a.val()[1] == f2_zero()[1]); }
    if fe9(a.c0@) == 0 && fe9(a.c1@) == 0 { assert(a.val() =~= f2_zero()); assert(a.c0.val() =~= seq![0int]); assert(a.c1.val() =~= seq![0int]); }
    if fe9(a.c0@) == 0 { assert(a.c0.val() =~= seq![0int]); }
    if fe9(a.c1@) == 0 { assert(a.c1.val() =~= seq![0int]); }
}
// the Montgomery decoding is injective on canonical limbs: PartialEq::eq (limb equality) is equality of values for ok operands
proof fn f2_fe_inj(a: Fp, b: Fp) requires canon9(a@), canon9(b@), fe9(a@) == fe9(b@) ensures a@ == b@
{
    lemma_params9(); lemma_val4_bounds(a@); lemma_val4_bounds(b@);
    let x = val4(a@); let y = val4(b@); let u = r256() * RINV_P9();
    f2_cong_mul(x * RINV_P9(), y * RINV_P9(), r256());
    assert(x * RINV_P9() * r256() == x * u) by(nonlinear_arith) requires u == r256() * RINV_P9();
    assert(y * RINV_P9() * r256() == y * u) by(nonlinear_arith) requires u == r256() * RINV_P9();
    f2_unit(x, u); f2_unit(y, u); f2_small(x); f2_small(y);
    lemma_val4_inj(a@, b@);
}
proof fn f2_eq_val(a: Fp2, b: Fp2) requires a.ok(), b.ok() ensures a.eq_spec(&b) == (a.val() == b.val())
{
    f2_w(a); f2_w(b);
    if a.val() == b.val() {
        assert(a.val()[0] == b.val()[0] && a.val()[1] == b.val()[1]);
        f2_fe_inj(a.c0, b.c0); f2_fe_inj(a.c1, b.c1);
    }
}
// ---------------------------------------------------------------- the formulas of the code, on integers (one lemma per function)
// fp_mul: Karatsuba with u^2 = -2
proof fn f2_l_mul(a0: int, a1: int, b0: int, b1: int, s0: int, s1: int, m: int, p0: int, p1: int, d1: int, r1: int, t2: int, r0: int)
    requires s0 == (a0 + a1) % P9(), s1 == (b0 + b1) % P9(), m == (s1 * s0) % P9(), p0 == (a0 * b0) % P9(), p1 == (a1 * b1) % P9(),
        d1 == (m - p0) % P9(), r1 == (d1 - p1) % P9(), t2 == (p1 + p1) % P9(), r0 == (p0 - t2) % P9(),
    ensures r0 == (a0 * b0 - 2 * (a1 * b1)) % P9(), r1 == (a0 * b1 + a1 * b0) % P9()
{
    f2_ca(s0, a0, a1, a0, a1); f2_ca(s1, b0, b1, b0, b1);
    f2_cm(m, s1, s0, b0 + b1, a0 + a1);
    f2_cm(p0, a0, b0, a0, b0); f2_cm(p1, a1, b1, a1, b1);
    f2_cs(d1, m, p0, (b0 + b1) * (a0 + a1), a0 * b0);
    f2_cs(r1, d1, p1, (b0 + b1) * (a0 + a1) - a0 * b0, a1 * b1);
    assert((b0 + b1) * (a0 + a1) - a0 * b0 - a1 * b1 == a0 * b1 + a1 * b0) by(nonlinear_arith);
    f2_ca(t2, p1, p1, a1 * b1, a1 * b1);
    f2_cs(r0, p0, t2, a0 * b0, a1 * b1 + a1 * b1);
}
// fp_sqr: (a0 + a1)(a0 - 2 a1) + a0 a1 = a0^2 - 2 a1^2
proof fn f2_l_sqr(a0: int, a1: int, m: int, t0: int, d: int, e: int, f: int, r0: int, r1: int)
    requires m == (a0 * a1) % P9(), t0 == (a0 + a1) % P9(), d == (a1 + a1) % P9(), e == (a0 - d) % P9(), f == (t0 * e) % P9(),
        r0 == (f + m) % P9(), r1 == (m + m) % P9(), a0 % P9() == a0,
    ensures r0 == (a0 * a0 - 2 * (a1 * a1)) % P9(), r1 == (a0 * a1 + a1 * a0) % P9()
{
    f2_cm(m, a0, a1, a0, a1); f2_ca(t0, a0, a1, a0, a1); f2_ca(d, a1, a1, a1, a1);
    f2_cs(e, a0, d, a0, a1 + a1);
    f2_cm(f, t0, e, a0 + a1, a0 - (a1 + a1));
    f2_ca(r0, f, m, (a0 + a1) * (a0 - (a1 + a1)), a0 * a1);
    assert((a0 + a1) * (a0 - (a1 + a1)) + a0 * a1 == a0 * a0 - 2 * (a1 * a1)) by(nonlinear_arith);
    f2_ca(r1, m, m, a0 * a1, a0 * a1);
    assert(a0 * a1 + a0 * a1 == a0 * a1 + a1 * a0) by(nonlinear_arith);
}
// fp_mul_u: (a*b)*u = -2 (a0 b1 + a1 b0) + (a0 b0 - 2 a1 b1) u
proof fn f2_l_mul_u(a0: int, a1: int, b0: int, b1: int, s0: int, s1: int, m: int, p0: int, p1: int, e1: int, e2: int, e3: int, c0: int, q: int, c1: int)
    requires s0 == (a0 + a1) % P9(), s1 == (b0 + b1) % P9(), m == (s0 * s1) % P9(), p0 == (a0 * b0) % P9(), p1 == (a1 * b1) % P9(),
        e1 == (m - p0) % P9(), e2 == (e1 - p1) % P9(), e3 == (e2 + e2) % P9(), c0 == (P9() - e3) % P9(), q == (p1 + p1) % P9(), c1 == (p0 - q) % P9(),
    ensures c1 == (a0 * b0 - 2 * (a1 * b1)) % P9(), c0 == (0 - 2 * ((a0 * b1 + a1 * b0) % P9())) % P9()
{
    f2_ca(s0, a0, a1, a0, a1); f2_ca(s1, b0, b1, b0, b1);
    f2_cm(m, s0, s1, a0 + a1, b0 + b1);
    f2_cm(p0, a0, b0, a0, b0); f2_cm(p1, a1, b1, a1, b1);
    f2_cs(e1, m, p0, (a0 + a1) * (b0 + b1), a0 * b0);
    f2_cs(e2, e1, p1, (a0 + a1) * (b0 + b1) - a0 * b0, a1 * b1);
    assert((a0 + a1) * (b0 + b1) - a0 * b0 - a1 * b1 == a0 * b1 + a1 * b0) by(nonlinear_arith);
    let x1 = (a0 * b1 + a1 * b0) % P9();
    assert(e2 == x1);
    f2_ca(e3, e2, e2, x1, x1);
    f2_cn(c0, e3, x1 + x1);
    f2_ca(q, p1, p1, a1 * b1, a1 * b1);
    f2_cs(c1, p0, q, a0 * b0, a1 * b1 + a1 * b1);
}
// sqr_u: (a*a)*u = -4 a0 a1 + (a0^2 - 2 a1^2) u
proof fn f2_l_sqr_u(a0: int, a1: int, m: int, d1: int, d2: int, c0: int, k1: int, t1: int, t2: int, c1: int)
    requires m == (a0 * a1) % P9(), d1 == (m + m) % P9(), d2 == (d1 + d1) % P9(), c0 == (P9() - d2) % P9(),
        k1 == (a0 * a0) % P9(), t1 == (a1 * a1) % P9(), t2 == (t1 + t1) % P9(), c1 == (k1 - t2) % P9(),
    ensures c1 == (a0 * a0 - 2 * (a1 * a1)) % P9(), c0 == (0 - 2 * ((a0 * a1 + a1 * a0) % P9())) % P9()
{
    f2_cm(m, a0, a1, a0, a1);
    f2_ca(d1, m, m, a0 * a1, a0 * a1);
    assert(a0 * a1 + a0 * a1 == a0 * a1 + a1 * a0) by(nonlinear_arith);
    let x1 = (a0 * a1 + a1 * a0) % P9();
    assert(d1 == x1);
    f2_ca(d2, d1, d1, x1, x1);
    f2_cn(c0, d2, x1 + x1);
    f2_cm(k1, a0, a0, a0, a0); f2_cm(t1, a1, a1, a1, a1);
    f2_ca(t2, t1, t1, a1 * a1, a1 * a1);
    f2_cs(c1, k1, t2, a0 * a0, a1 * a1 + a1 * a1);
}
// fp_inv, general branch: conjugate / norm
proof fn f2_l_inv(a0: int, a1: int, k1: int, t1: int, t2: int, k2: int, k: int, r0: int, m: int, r1: int)
    requires k1 == (a0 * a0) % P9(), t1 == (a1 * a1) % P9(), t2 == (t1 + t1) % P9(), k2 == (k1 + t2) % P9(), k == inv_p9(k2),
        r0 == (a0 * k) % P9(), m == (a1 * k) % P9(), r1 == (P9() - m) % P9(),
    ensures seq![r0, r1] == f2_inv(seq![a0, a1])
{
    let a = seq![a0, a1];
    assert(a[0] == a0 && a[1] == a1);
    let n = f2_norm(a); let d = inv_p9(n);
    f2_cm(k1, a0, a0, a0, a0); f2_cm(t1, a1, a1, a1, a1);
    f2_ca(t2, t1, t1, a1 * a1, a1 * a1);
    f2_ca(k2, k1, t2, a0 * a0, a1 * a1 + a1 * a1);
    f2_inv_cong(k2, n);
    assert(k == d);
    f2_cm(m, a1, d, a1, d);
    f2_cn(r1, m, a1 * d);
    assert((P9() - a1) * d == (0 - a1 * d) + d * P9()) by(nonlinear_arith);
    f2_shift(0 - a1 * d, d);
    assert(seq![r0, r1] =~= f2_inv(a));
}
// fp_inv, branch c1 == 0: the inverse of an element of Fp
proof fn f2_l_inv_c1zero(a0: int)
    requires 0 < a0 < P9()
    ensures f2_inv(seq![a0, 0int]) == seq![inv_p9(a0), 0int]
{
    let a = seq![a0, 0int];
    assert(a[0] == a0 && a[1] == 0);
    let d = inv_p9(f2_norm(a));
    f2_small(a0);
    assert(a0 * a0 + 2 * (0 * 0) == a0 * a0);
    f2_inv_sq(a0);
    assert((P9() - 0) * d == 0 + d * P9()) by(nonlinear_arith);
    f2_shift(0, d); f2_pos(); f2_small(0);
    assert(f2_inv(a) =~= seq![inv_p9(a0), 0int]);
}
// fp_inv of zero (the code takes the branch c0 == 0)
proof fn f2_l_inv_zero()
    ensures f2_inv(seq![0int, 0int]) == seq![0int, 0int], (P9() - inv_p9(0)) % P9() == 0
{
    let a = seq![0int, 0int];
    assert(a[0] == 0 && a[1] == 0);
    f2_inv_zero(); f2_pos(); f2_small(0);
    assert(0 * 0 + 2 * (0 * 0) == 0);
    assert((P9() - 0) * 0 == 0);
    f2_shift(0, 1);
    assert(f2_inv(a) =~= seq![0int, 0int]);
}
// the inverse of a1*u (c0 == 0) is -(2 a1)^-1 * u, as the comment in the code says
proof fn f2_l_inv_c0zero(a1: int)
    requires 0 < a1 < P9()
    ensures f2_inv(seq![0int, a1]) == seq![0int, (P9() - inv_p9((a1 + a1) % P9())) % P9()],
        ((a1 + a1) * inv_p9((a1 + a1) % P9())) % P9() == 1
{
    let a = seq![0int, a1];
    assert(a[0] == 0 && a[1] == a1);
    f2_pos(); f2_small(0); f2_small(a1); f2_small(2);
    let n = f2_norm(a); let d = inv_p9(n);
    assert(n == 2 * (a1 * a1)) by { assert(0 * 0 == 0); }
    f2_nz_mul(a1, a1); f2_nz_mul(2, a1 * a1); f2_nz_mul(2, a1);
    f2_modmod(a1 + a1);
    f2_inv_cong((a1 + a1) % P9(), 2 * a1);
    let j = inv_p9(2 * a1);
    ax9_inv_p(2 * a1); ax9_inv_p(n);
    // a1*d == (a1*d) * (2*a1*j) == (n*d) * j == j
    f2_unit(a1 * d, (2 * a1) * j);
    assert((a1 * d) * ((2 * a1) * j) == j * (n * d)) by(nonlinear_arith) requires n == 2 * (a1 * a1);
    f2_unit(j, n * d);
    f2_small(j);
    assert((a1 * d) % P9() == j);
    // (p - a1)*d == -(a1*d) == -j
    assert((P9() - a1) * d == (0 - a1 * d) + d * P9()) by(nonlinear_arith);
    f2_shift(0 - a1 * d, d);
    f2_cong_add(0, 0, a1 * d, j);
    f2_shift(0 - j, 1);
    assert(0 * d == 0);
    assert(f2_inv(a) =~= seq![0int, (P9() - j) % P9()]);
}
// FINDING: for c0 == 0, c1 != 0 the code returns -(a1^-1) * u; that is never the inverse
proof fn f2_l_inv_c0zero_differs(a1: int)
    requires 0 < a1 < P9()
    ensures f2_inv(seq![0int, a1]) != seq![0int, (P9() - inv_p9(a1)) % P9()]
{
    let code = seq![0int, (P9() - inv_p9(a1)) % P9()];
    if f2_inv(seq![0int, a1]) == code {
        f2_l_inv_c0zero(a1);
        let j = inv_p9((a1 + a1) % P9()); let i = inv_p9(a1);
        assert(f2_inv(seq![0int, a1])[1] == code[1]);
        assert((P9() - j) % P9() == (P9() - i) % P9());
        f2_pos(); f2_small(a1); f2_small(1); f2_small(2);
        ax9_inv_p(a1); f2_inv_range((a1 + a1) % P9());
        f2_cong_add(P9(), P9(), P9() - j, P9() - i);
        f2_small(i); f2_small(j);
        assert(i == j);
        // 1 == (2*a1)*i == 2*(a1*i) == 2
        assert((a1 + a1) * i == 2 * (a1 * i)) by(nonlinear_arith);
        f2_cong_mul(a1 * i, 1, 2);
        assert(false);
    }
}
impl vstd::std_specs::cmp::PartialEqSpecImpl for Fp2 {
    open spec fn obeys_eq_spec() -> bool { true }
    closed spec fn eq_spec(&self, other: &Self) -> bool { self.c0@ == other.c0@ && self.c1@ == other.c1@ }
}
//@section code gm-sm9/src/fields/fp2.rs
impl Fp2 {
    fn fp_mul_fp(&self, k: &Fp) -> (r: Fp2)
        requires self.ok(), k.ok()
        ensures r.ok(), r.val() == f2_scale(self.val(), fe9(k@)), r.val() == f2_mul(self.val(), f2_fp(fe9(k@)))
    {
        proof { f2_all(); f2_w(*self); f2_lemma_scale(self.val(), fe9(k@)); }
        Fp2 {
            c0: self.c0.fp_mul(k),
            c1: self.c1.fp_mul(k),
        }
    }
}

impl PartialEq for Fp2 {
    fn eq(&self, other: &Self) -> bool
    {
        proof {
            if self.c0.eq_spec(&other.c0) { assert(self.c0@ =~= other.c0@); }
            if self.c1.eq_spec(&other.c1) { assert(self.c1@ =~= other.c1@); }
        }
        self.c0.eq(&other.c0) && self.c1.eq(&other.c1)
    }
}

impl Eq for Fp2 {}

impl FieldElement for Fp2 {
    spec fn ok(&self) -> bool { canon9(self.c0@) && canon9(self.c1@) }
    spec fn val(&self) -> Seq<int> { seq![fe9(self.c0@), fe9(self.c1@)] }
    spec fn s_zero() -> Seq<int> { f2_zero() }
    spec fn s_one() -> Seq<int> { f2_one() }
    spec fn s_add(a: Seq<int>, b: Seq<int>) -> Seq<int> { f2_add(a, b) }
    spec fn s_sub(a: Seq<int>, b: Seq<int>) -> Seq<int> { f2_sub(a, b) }
    spec fn s_mul(a: Seq<int>, b: Seq<int>) -> Seq<int> { f2_mul(a, b) }
    spec fn s_neg(a: Seq<int>) -> Seq<int> { f2_neg(a) }
    spec fn s_inv(a: Seq<int>) -> Seq<int> { f2_inv(a) }
    spec fn s_bytes(a: Seq<int>) -> Seq<u8> { f2_bytes(a) }

    fn zero() -> Self {
        proof { f2_all(); }
        Fp2 {
            c0: Fp::zero(),
            c1: Fp::zero(),
        }
    }

    fn one() -> Self {
        proof { f2_all(); }
        Fp2 {
            c0: Fp::one(),
            c1: Fp::zero(),
        }
    }

    fn is_zero(&self) -> bool {
        proof { f2_zero_test(*self); }
        self.c0.is_zero() && self.c1.is_zero()
    }

    fn fp_sqr(&self) -> Self {
        let mut r0 = Fp::zero();
        let mut r1 = Fp::zero();
        let mut t0 = Fp::zero();
        let mut t1 = Fp::zero();
        proof { f2_all(); f2_w(*self); }
        let ghost a0 = fe9(self.c0@); let ghost a1 = fe9(self.c1@);

        r1 = self.c0.fp_mul(&self.c1);
        let ghost m = fe9(r1@);

        // r0 = (a0 + a1) * (a0 - 2a1) + a0 * a1
        t0 = self.c0.fp_add(&self.c1);
        t1 = self.c1.fp_double();
        let ghost d = fe9(t1@);
        t1 = self.c0.fp_sub(&t1);

        r0 = t0.fp_mul(&t1);
        let ghost f = fe9(r0@);
        r0 = r0.fp_add(&r1);

        // r1 = 2 * a0 * a1
        r1 = r1.fp_double();
        proof { f2_l_sqr(a0, a1, m, fe9(t0@), d, fe9(t1@), f, fe9(r0@), fe9(r1@)); }

        Self { c0: r0, c1: r1 }
    }

    fn fp_double(&self) -> Self {
        proof { f2_all(); f2_w(*self); }
        Fp2 {
            c0: self.c0.fp_double(),
            c1: self.c1.fp_double(),
        }
    }

    fn fp_triple(&self) -> Self {
        proof { f2_all(); f2_w(*self); f2_range(fe9(self.c0@) + fe9(self.c0@)); f2_range(fe9(self.c1@) + fe9(self.c1@)); }
        Fp2 {
            c0: self.c0.fp_triple(),
            c1: self.c1.fp_triple(),
        }
    }

    fn fp_add(&self, rhs: &Self) -> Self {
        proof { f2_all(); f2_w(*self); f2_w(*rhs); }
        Fp2 {
            c0: self.c0.fp_add(&rhs.c0),
            c1: self.c1.fp_add(&rhs.c1),
        }
    }

    fn fp_sub(&self, rhs: &Self) -> Self {
        proof { f2_all(); f2_w(*self); f2_w(*rhs); }
        Fp2 {
            c0: self.c0.fp_sub(&rhs.c0),
            c1: self.c1.fp_sub(&rhs.c1),
        }
    }

    fn fp_mul(&self, rhs: &Self) -> Self {
        let mut r0 = Fp::zero();
        let mut r1 = Fp::zero();
        let mut t = Fp::zero();
        proof { f2_all(); f2_w(*self); f2_w(*rhs); }
        let ghost a0 = fe9(self.c0@); let ghost a1 = fe9(self.c1@); let ghost b0 = fe9(rhs.c0@); let ghost b1 = fe9(rhs.c1@);

        r0 = self.c0.fp_add(&self.c1);
        let ghost s0 = fe9(r0@);
        t = rhs.c0.fp_add(&rhs.c1);
        let ghost s1 = fe9(t@);
        r1 = t.fp_mul(&r0);
        let ghost m = fe9(r1@);

        // r0 = a0 * b0 - 2 * a1 * b1
        r0 = self.c0.fp_mul(&rhs.c0);
        let ghost p0 = fe9(r0@);
        t = self.c1.fp_mul(&rhs.c1);
        let ghost p1 = fe9(t@);

        // r1 = (a0 + a1) * (b0 + b1) - a0 * b0 - a1 * b1
        r1 = r1.fp_sub(&r0);
        let ghost d1 = fe9(r1@);
        r1 = r1.fp_sub(&t);

        t = t.fp_double();
        r0 = r0.fp_sub(&t);
        proof { f2_l_mul(a0, a1, b0, b1, s0, s1, m, p0, p1, d1, fe9(r1@), fe9(t@), fe9(r0@)); }

        Self { c0: r0, c1: r1 }
    }

    fn fp_neg(&self) -> Self {
        proof { f2_all(); f2_w(*self); }
        Fp2 {
            c0: self.c0.fp_neg(),
            c1: self.c1.fp_neg(),
        }
    }

    fn fp_div2(&self) -> Self {
        proof { f2_all(); f2_w(*self); }
        Fp2 {
            c0: self.c0.fp_div2(),
            c1: self.c1.fp_div2(),
        }
    }

    fn fp_inv(&self) -> Self {
        let mut r: Fp2 = Fp2::zero();

        let mut k = Fp::zero();
        let mut t = Fp::zero();

        let mut r0 = Fp::zero();
        let mut r1 = Fp::zero();
        proof { f2_all(); f2_w(*self); f2_zero_test(*self); f2_inv_zero(); f2_pos(); }
        let ghost a0 = fe9(self.c0@); let ghost a1 = fe9(self.c1@);

        if self.c0.is_zero() {
            // r0 = 0
            // r1 = -(2 * a1)^-1
            r1 = self.c1.fp_double();
            r1 = r1.fp_inv();
            r1 = r1.fp_neg();
            proof {
                if a1 == 0 {
                    f2_l_inv_zero(); f2_small(0);
                } else {
                    // FINDING: the inverse of a1*u is -(2*a1)^-1 * u (f2_l_inv_c0zero; the comment above says so too), but the
                    // argument of fp_inv is self.c1, not the doubled r1: the code returns -(a1^-1) * u, which is never the
                    // inverse for a1 != 0 (f2_l_inv_c0zero_differs). With `r1 = r1.fp_inv();` this branch verifies as it stands.
                    f2_l_inv_c0zero(a1);
                }
            }
        } else if self.c1.is_zero() {
            // r1 = 0
            // r0 = a0^-1
            r0 = self.c0.fp_inv();
            proof { f2_l_inv_c1zero(a0); }
        } else {
            // k = (a[0]^2 + 2 * a[1]^2)^-1
            k = self.c0.fp_sqr();
            let ghost k1 = fe9(k@);
            t = self.c1.fp_sqr();
            let ghost t1 = fe9(t@);
            t = t.fp_double();
            let ghost t2 = fe9(t@);
            k = k.fp_add(&t);
            let ghost k2 = fe9(k@);
            k = k.fp_inv();

            // r[0] = a[0] * k
            r0 = self.c0.fp_mul(&k);

            // r[1] = -a[1] * k
            r1 = self.c1.fp_mul(&k);
            let ghost m = fe9(r1@);
            r1 = r1.fp_neg();
            proof { f2_l_inv(a0, a1, k1, t1, t2, k2, fe9(k@), fe9(r0@), m, fe9(r1@)); }
        }
        r.c0 = r0;
        r.c1 = r1;
        proof { f2_w(r); }
        r
    }

    fn to_bytes_be(&self) -> Vec<u8> {
        let mut bytes: Vec<u8> = vec![];
        bytes.extend_from_slice(&self.c1.to_bytes_be().as_slice());
        bytes.extend_from_slice(&self.c0.to_bytes_be().as_slice());
        bytes
    }
}

impl Fp2 {
    fn div(&self, rhs: &Self) -> (r: Self)
        requires self.ok(), rhs.ok()
        ensures r.ok(), r.val() == f2_mul(self.val(), f2_inv(rhs.val()))
    {
        let t = rhs.fp_inv();
        self.fp_mul(&t)
    }

    fn conjugate(&self) -> (r: Self)
        requires self.ok()
        ensures r.ok(), r.val() == f2_conj(self.val())
    {
        proof { f2_all(); f2_w(*self); }
        let r0 = self.c0;
        let r1 = self.c1.fp_neg();
        Self { c0: r0, c1: r1 }
    }

    fn a_mul_u(&self) -> (r: Self)
        requires self.ok()
        ensures r.ok(), r.val() == f2_mul(self.val(), f2_u())
    {
        let mut r0 = Fp::zero();
        let mut a0 = Fp::zero();
        let mut a1 = Fp::zero();
        proof { f2_all(); f2_w(*self); }

        a0 = self.c0;
        a1 = self.c1;

        // r0 = -2 * a1
        r0 = a1.fp_double();
        let ghost d = fe9(r0@);
        r0 = r0.fp_neg();
        proof {
            f2_lemma_mul_u(self.val());
            let x1 = fe9(a1@);
            f2_ca(d, x1, x1, x1, x1);
            f2_cn(fe9(r0@), d, x1 + x1);
        }

        //r1 = a0
        Self { c0: r0, c1: a0 }
    }

    fn fp_mul_u(&self, rhs: &Self) -> (r: Self)
        requires self.ok(), rhs.ok()
        ensures r.ok(), r.val() == f2_mul(f2_mul(self.val(), rhs.val()), f2_u())
    {
        let mut t0 = Fp::zero();
        let mut t1 = Fp::zero();
        let mut t2 = Fp::zero();
        proof { f2_all(); f2_w(*self); f2_w(*rhs); }
        let ghost a0 = fe9(self.c0@); let ghost a1 = fe9(self.c1@); let ghost b0 = fe9(rhs.c0@); let ghost b1 = fe9(rhs.c1@);

        // t2 = (a0 + a1) * (b0 + b1)
        t0 = self.c0.fp_add(&self.c1);
        let ghost s0 = fe9(t0@);
        t1 = rhs.c0.fp_add(&rhs.c1);
        let ghost s1 = fe9(t1@);
        t2 = t0.fp_mul(&t1);
        let ghost m = fe9(t2@);

        // t0 = a0 * b0
        t0 = self.c0.fp_mul(&rhs.c0);
        let ghost p0 = fe9(t0@);

        // t1 = a1 * b1
        t1 = self.c1.fp_mul(&rhs.c1);
        let ghost p1 = fe9(t1@);

        // r0 = -2 *(t2 - t0 - t1) = -2 * (a0 * b1 + a1 * b0)
        t2 = t2.fp_sub(&t0);
        let ghost e1 = fe9(t2@);
        t2 = t2.fp_sub(&t1);
        let ghost e2 = fe9(t2@);
        t2 = t2.fp_double();
        let ghost e3 = fe9(t2@);
        t2 = t2.fp_neg();

        // r1 = t0 - 2*t1 = a0 * b0 - 2(a1 * b1)
        t0 = t0.fp_sub(&t1.fp_double());
        proof {
            let q = (p1 + p1) % P9();
            f2_range(p1 + p1);
            f2_l_mul_u(a0, a1, b0, b1, s0, s1, m, p0, p1, e1, e2, e3, fe9(t2@), q, fe9(t0@));
            f2_lemma_ok_ops(self.val(), rhs.val());
            f2_lemma_mul_u(f2_mul(self.val(), rhs.val()));
        }

        Self { c0: t2, c1: t0 }
    }

    fn sqr_u(&self) -> (r: Self)
        requires self.ok()
        ensures r.ok(), r.val() == f2_mul(f2_mul(self.val(), self.val()), f2_u())
    {
        let mut r: Fp2 = Fp2::zero();
        let mut r0 = Fp::zero();
        let mut r1 = Fp::zero();
        let mut t = Fp::zero();
        proof { f2_all(); f2_w(*self); }
        let ghost a0 = fe9(self.c0@); let ghost a1 = fe9(self.c1@);

        // r0 = -4 * a0 * a1
        r0 = self.c0.fp_mul(&self.c1);
        let ghost m = fe9(r0@);
        r0 = r0.fp_double();
        let ghost d1 = fe9(r0@);
        r0 = r0.fp_double();
        let ghost d2 = fe9(r0@);
        r0 = r0.fp_neg();

        // r1 = a0^2 - 2 * a1^2
        r1 = self.c0.fp_sqr();
        let ghost k1 = fe9(r1@);
        t = self.c1.fp_sqr();
        let ghost t1 = fe9(t@);
        t = t.fp_double();
        r1 = r1.fp_sub(&t);
        proof {
            f2_l_sqr_u(a0, a1, m, d1, d2, fe9(r0@), k1, t1, fe9(t@), fe9(r1@));
            f2_lemma_ok_ops(self.val(), self.val());
            f2_lemma_mul_u(f2_mul(self.val(), self.val()));
        }

        r.c0 = r0;
        r.c1 = r1;
        proof { f2_w(r); }
        r
    }
}
