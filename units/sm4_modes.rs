//@unit sm4_modes
//@serves C07 C20
//@source gm-sm4/src/lib.rs
//@rewrite mutfull
//@assume <[T]>::clone_from_slice copies, u8::overflowing_add is addition mod 256 with carry (assume_specification)
//@include-spec sm4_block
//@section spec

// block cipher facts used by the mode layer: proved in unit sm4_block (theorem_block)
proof fn ax_block(rk: Seq<u32>, b: Seq<u8>)
    requires b.len() == 16, rk.len() == 32
    ensures s_enc(rk, b).len() == 16, s_dec(rk, b).len() == 16, s_dec(rk, s_enc(rk, b)) == b, s_enc(rk, s_dec(rk, b)) == b
{ theorem_block(rk, b); }
// ---------------- modes of operation spec (GB/T 17964 / SP 800-38A over the block cipher contract) ----------------
pub open spec fn xorb(a: Seq<u8>, b: Seq<u8>) -> Seq<u8> { Seq::new(16, |i: int| a[i] ^ b[i]) }
pub open spec fn xort(t: Seq<u8>, k: Seq<u8>) -> Seq<u8> { Seq::new(t.len(), |i: int| t[i] ^ k[i]) }
pub open spec fn blk(d: Seq<u8>, i: int) -> Seq<u8> { d.subrange(16 * i, 16 * i + 16) }
pub open spec fn tail(d: Seq<u8>) -> Seq<u8> { d.subrange(16 * (d.len() as int / 16), d.len() as int) }
pub open spec fn prev(c: Seq<u8>, iv: Seq<u8>, i: int) -> Seq<u8> { if i <= 0 { iv } else { blk(c, i - 1) } }
// CFB-128
pub open spec fn cfb_e(rk: Seq<u32>, iv: Seq<u8>, p: Seq<u8>, n: int) -> Seq<u8> decreases n {
    if n <= 0 { Seq::empty() } else { let c = cfb_e(rk, iv, p, n - 1); c + xorb(s_enc(rk, prev(c, iv, n - 1)), blk(p, n - 1)) }
}
pub open spec fn cfb_enc(rk: Seq<u32>, iv: Seq<u8>, p: Seq<u8>) -> Seq<u8> {
    let n = p.len() as int / 16; let c = cfb_e(rk, iv, p, n); c + xort(tail(p), s_enc(rk, prev(c, iv, n)))
}
pub open spec fn cfb_d(rk: Seq<u32>, iv: Seq<u8>, c: Seq<u8>, n: int) -> Seq<u8> decreases n {
    if n <= 0 { Seq::empty() } else { cfb_d(rk, iv, c, n - 1) + xorb(s_enc(rk, prev(c, iv, n - 1)), blk(c, n - 1)) }
}
pub open spec fn cfb_dec(rk: Seq<u32>, iv: Seq<u8>, c: Seq<u8>) -> Seq<u8> {
    let n = c.len() as int / 16; cfb_d(rk, iv, c, n) + xort(tail(c), s_enc(rk, prev(c, iv, n)))
}
// OFB
pub open spec fn ofb_s(rk: Seq<u32>, iv: Seq<u8>, i: int) -> Seq<u8> decreases i { if i <= 0 { iv } else { s_enc(rk, ofb_s(rk, iv, i - 1)) } }
pub open spec fn ofb_e(rk: Seq<u32>, iv: Seq<u8>, p: Seq<u8>, n: int) -> Seq<u8> decreases n {
    if n <= 0 { Seq::empty() } else { ofb_e(rk, iv, p, n - 1) + xorb(ofb_s(rk, iv, n), blk(p, n - 1)) }
}
pub open spec fn ofb_enc(rk: Seq<u32>, iv: Seq<u8>, p: Seq<u8>) -> Seq<u8> {
    let n = p.len() as int / 16; ofb_e(rk, iv, p, n) + xort(tail(p), ofb_s(rk, iv, n + 1))
}
// CTR, 128-bit big-endian counter with carry through all 16 bytes
pub open spec fn inc_at(b: Seq<u8>, j: int) -> Seq<u8> decreases j + 1 {
    if j < 0 { b } else if b[j] == 255 { inc_at(b.update(j, 0u8), j - 1) } else { b.update(j, (b[j] + 1) as u8) }
}
pub open spec fn ctr_s(iv: Seq<u8>, i: int) -> Seq<u8> decreases i { if i <= 0 { iv } else { inc_at(ctr_s(iv, i - 1), 15) } }
pub open spec fn ctr_e(rk: Seq<u32>, iv: Seq<u8>, p: Seq<u8>, n: int) -> Seq<u8> decreases n {
    if n <= 0 { Seq::empty() } else { ctr_e(rk, iv, p, n - 1) + xorb(s_enc(rk, ctr_s(iv, n - 1)), blk(p, n - 1)) }
}
pub open spec fn ctr_enc(rk: Seq<u32>, iv: Seq<u8>, p: Seq<u8>) -> Seq<u8> {
    let n = p.len() as int / 16; ctr_e(rk, iv, p, n) + xort(tail(p), s_enc(rk, ctr_s(iv, n)))
}
// CBC with PKCS#7
pub open spec fn pkcs7(p: Seq<u8>) -> Seq<u8> { let k = 16 - p.len() as int % 16; p + Seq::new(k as nat, |i: int| k as u8) }
pub open spec fn cbc_e(rk: Seq<u32>, iv: Seq<u8>, pp: Seq<u8>, n: int) -> Seq<u8> decreases n {
    if n <= 0 { Seq::empty() } else { let c = cbc_e(rk, iv, pp, n - 1); c + s_enc(rk, xorb(prev(c, iv, n - 1), blk(pp, n - 1))) }
}
pub open spec fn cbc_enc(rk: Seq<u32>, iv: Seq<u8>, p: Seq<u8>) -> Seq<u8> { cbc_e(rk, iv, pkcs7(p), pkcs7(p).len() as int / 16) }
pub open spec fn cbc_d(rk: Seq<u32>, iv: Seq<u8>, c: Seq<u8>, n: int) -> Seq<u8> decreases n {
    if n <= 0 { Seq::empty() } else { cbc_d(rk, iv, c, n - 1) + xorb(prev(c, iv, n - 1), s_dec(rk, blk(c, n - 1))) }
}
pub open spec fn cbc_dec_ok(rk: Seq<u32>, iv: Seq<u8>, c: Seq<u8>) -> bool {
    c.len() % 16 == 0 && c.len() > 0 && { let r = cbc_d(rk, iv, c, c.len() as int / 16); 1 <= r[c.len() - 1] <= 16 }
}
pub open spec fn cbc_dec(rk: Seq<u32>, iv: Seq<u8>, c: Seq<u8>) -> Seq<u8> {
    let r = cbc_d(rk, iv, c, c.len() as int / 16); r.subrange(0, c.len() - r[c.len() - 1] as int)
}
proof fn lemma_len_e(rk: Seq<u32>, iv: Seq<u8>, p: Seq<u8>, n: int)
    requires n >= 0
    ensures cfb_e(rk, iv, p, n).len() == 16 * n, cfb_d(rk, iv, p, n).len() == 16 * n, ofb_e(rk, iv, p, n).len() == 16 * n, ctr_e(rk, iv, p, n).len() == 16 * n, cbc_d(rk, iv, p, n).len() == 16 * n
    decreases n
{ if n > 0 { lemma_len_e(rk, iv, p, n - 1); } }

// ---------------- round-trip theorems (spec level) ----------------
proof fn lemma_xor_inv(a: u8, b: u8) ensures (a ^ b) ^ b == a, b ^ (b ^ a) == a, (b ^ a) ^ b == a { assert((a ^ b) ^ b == a && b ^ (b ^ a) == a && (b ^ a) ^ b == a) by(bit_vector); }
proof fn lemma_xorb_inv(k: Seq<u8>, x: Seq<u8>) requires k.len() >= 16, x.len() == 16 ensures xorb(k, xorb(k, x)) =~= x
{ assert forall|i: int| 0 <= i < 16 implies xorb(k, xorb(k, x))[i] == x[i] by { lemma_xor_inv(x[i], k[i]); } }
proof fn lemma_xort_inv(t: Seq<u8>, k: Seq<u8>) requires k.len() >= t.len() ensures xort(xort(t, k), k) =~= t
{ assert forall|i: int| 0 <= i < t.len() implies xort(xort(t, k), k)[i] == t[i] by { lemma_xor_inv(t[i], k[i]); } }

// OFB / CTR: keystream does not depend on the data, so encrypting twice is the identity
proof fn lemma_ofb_blocks(rk: Seq<u32>, iv: Seq<u8>, p: Seq<u8>, n: int, i: int)
    requires 0 <= i < n
    ensures ofb_e(rk, iv, p, n).len() == 16 * n, blk(ofb_e(rk, iv, p, n), i) =~= xorb(ofb_s(rk, iv, i + 1), blk(p, i))
    decreases n
{
    lemma_len_e(rk, iv, p, n); lemma_len_e(rk, iv, p, n - 1);
    if i < n - 1 { lemma_ofb_blocks(rk, iv, p, n - 1, i); assert(blk(ofb_e(rk, iv, p, n), i) =~= blk(ofb_e(rk, iv, p, n - 1), i)); }
    else { assert(blk(ofb_e(rk, iv, p, n), i) =~= xorb(ofb_s(rk, iv, n), blk(p, n - 1))); }
}
proof fn lemma_ofb_e_inv(rk: Seq<u32>, iv: Seq<u8>, p: Seq<u8>, c: Seq<u8>, n: int)
    requires 0 <= n, 16 * n <= p.len(), c.len() >= 16 * n, forall|i: int| 0 <= i < n ==> blk(c, i) == xorb(ofb_s(rk, iv, i + 1), blk(p, i)),
        forall|i: int| 0 <= i <= n ==> (#[trigger] ofb_s(rk, iv, i)).len() == 16
    ensures ofb_e(rk, iv, c, n) =~= p.subrange(0, 16 * n)
    decreases n
{
    if n > 0 {
        lemma_ofb_e_inv(rk, iv, p, c, n - 1);
        lemma_len_e(rk, iv, c, n - 1);
        lemma_xorb_inv(ofb_s(rk, iv, n), blk(p, n - 1));
        assert(p.subrange(0, 16 * n) =~= p.subrange(0, 16 * (n - 1)) + blk(p, n - 1));
    }
}
proof fn lemma_ofb_s_len(rk: Seq<u32>, iv: Seq<u8>, i: int) requires iv.len() == 16, i >= 0, rk.len() == 32 ensures ofb_s(rk, iv, i).len() == 16 decreases i
{ if i > 0 { lemma_ofb_s_len(rk, iv, i - 1); ax_block(rk, ofb_s(rk, iv, i - 1)); } }
proof fn theorem_ofb_roundtrip(rk: Seq<u32>, iv: Seq<u8>, p: Seq<u8>)
    requires iv.len() == 16, rk.len() == 32
    ensures ofb_enc(rk, iv, ofb_enc(rk, iv, p)) =~= p
{
    let n = p.len() as int / 16; let c = ofb_enc(rk, iv, p);
    lemma_len_e(rk, iv, p, n);
    assert forall|i: int| 0 <= i <= n + 1 implies (#[trigger] ofb_s(rk, iv, i)).len() == 16 by { lemma_ofb_s_len(rk, iv, i); }
    assert(c.len() == p.len());
    assert forall|i: int| 0 <= i < n implies blk(c, i) == xorb(ofb_s(rk, iv, i + 1), blk(p, i)) by {
        lemma_ofb_blocks(rk, iv, p, n, i); assert(blk(c, i) =~= blk(ofb_e(rk, iv, p, n), i));
    }
    lemma_ofb_e_inv(rk, iv, p, c, n);
    assert(tail(c) =~= xort(tail(p), ofb_s(rk, iv, n + 1)));
    lemma_xort_inv(tail(p), ofb_s(rk, iv, n + 1));
    assert(p =~= p.subrange(0, 16 * n) + tail(p));
}
//@section code
#[derive(Debug, Clone, Eq, PartialEq)]
struct Sm4Cipher {
    rk: [u32; 32],
}
type Sm4Result<T> = Result<T, Sm4Error>;
enum Sm4Error {
    ErrorBlockSize,
    ErrorDataLen,
    InvalidLastU8,
}
//@stub sm4_block Sm4Cipher::new
//@stub sm4_block Sm4Cipher::encrypt
//@stub sm4_block Sm4Cipher::decrypt
//@section code
enum CipherMode {
    Cfb,
    Ofb,
    Ctr,
    Cbc,
}

struct Sm4CipherMode {
    cipher: Sm4Cipher,
    mode: CipherMode,
}

spec fn mode_enc(m: CipherMode, rk: Seq<u32>, iv: Seq<u8>, p: Seq<u8>) -> Seq<u8> {
    match m { CipherMode::Cfb => cfb_enc(rk, iv, p), CipherMode::Ofb => ofb_enc(rk, iv, p), CipherMode::Ctr => ctr_enc(rk, iv, p), CipherMode::Cbc => cbc_enc(rk, iv, p) }
}
spec fn mode_dec(m: CipherMode, rk: Seq<u32>, iv: Seq<u8>, c: Seq<u8>) -> Seq<u8> {
    match m { CipherMode::Cfb => cfb_dec(rk, iv, c), CipherMode::Ofb => ofb_enc(rk, iv, c), CipherMode::Ctr => ctr_enc(rk, iv, c), CipherMode::Cbc => cbc_dec(rk, iv, c) }
}
fn block_xor(a: &[u8], b: &[u8]) -> (out: [u8; 16])
    requires a@.len() >= 16, b@.len() >= 16
    ensures out@ =~= xorb(a@, b@)
{
    let mut out: [u8; 16] = [0; 16];
    for i in 0..16
        invariant a@.len() >= 16, b@.len() >= 16, forall|k: int| 0 <= k < i ==> out[k] == a@[k] ^ b@[k]
    {
        out[i] = a[i] ^ b[i];
    }
    out
}

fn block_add_one(a: &mut [u8])
    requires old(a)@.len() == 16
    ensures final(a)@ == inc_at(old(a)@, 15), final(a)@.len() == 16
{
    let mut carry = 1;
    for i in 0..16
        invariant a@.len() == 16, carry == 1, inc_at(old(a)@, 15) == inc_at(a@, 15 - i as int),
    {
        let (t, c) = a[15 - i].overflowing_add(carry);
        a[15 - i] = t;
        if !c {
            return;
        }
        carry = c as u8;
    }
}

impl Sm4CipherMode {
    fn new(key: &[u8], mode: CipherMode) -> (res: Sm4Result<Sm4CipherMode>)
        ensures key@.len() >= 16 ==> res is Ok && res->Ok_0.cipher.rk@ == s_rk_of(key@.subrange(0, 16)) && res->Ok_0.mode == mode,
            key@.len() < 16 ==> res is Err,
    {
        let cipher = Sm4Cipher::new(key)?;
        Ok(Sm4CipherMode { cipher, mode })
    }

    fn encrypt(&self, data: &[u8], iv: &[u8]) -> (res: Sm4Result<Vec<u8>>)
        ensures iv@.len() != 16 ==> res is Err,
            iv@.len() == 16 ==> res is Ok && res->Ok_0@ == mode_enc(self.mode, self.cipher.rk@, iv@, data@)
    {
        if iv.len() != 16 {
            return Err(Sm4Error::ErrorBlockSize);
        }
        match self.mode {
            CipherMode::Cfb => self.cfb_encrypt(data, iv),
            CipherMode::Ofb => self.ofb_encrypt(data, iv),
            CipherMode::Ctr => self.ctr_encrypt(data, iv),
            CipherMode::Cbc => self.cbc_encrypt(data, iv),
        }
    }

    fn decrypt(&self, data: &[u8], iv: &[u8]) -> (res: Sm4Result<Vec<u8>>)
        ensures iv@.len() != 16 ==> res is Err,
            iv@.len() == 16 && !(self.mode is Cbc) ==> res is Ok && res->Ok_0@ == mode_dec(self.mode, self.cipher.rk@, iv@, data@),
            iv@.len() == 16 && self.mode is Cbc ==> (res is Ok <==> cbc_dec_ok(self.cipher.rk@, iv@, data@)) && (res is Ok ==> res->Ok_0@ == cbc_dec(self.cipher.rk@, iv@, data@)),
    {
        if iv.len() != 16 {
            return Err(Sm4Error::ErrorBlockSize);
        }
        match self.mode {
            CipherMode::Cfb => self.cfb_decrypt(data, iv),
            CipherMode::Ofb => self.ofb_encrypt(data, iv),
            CipherMode::Ctr => self.ctr_encrypt(data, iv),
            CipherMode::Cbc => self.cbc_decrypt(data, iv),
        }
    }

    fn cfb_encrypt(&self, data: &[u8], iv: &[u8]) -> (res: Result<Vec<u8>, Sm4Error>)
        requires iv@.len() == 16
        ensures res is Ok, res->Ok_0@ == cfb_enc(self.cipher.rk@, iv@, data@)
    {
        let ghost rk = self.cipher.rk@;
        let block_num = data.len() / 16;
        let tail_len = data.len() - block_num * 16;

        let mut out: Vec<u8> = Vec::new();
        let mut vec_buf: Vec<u8> = vec![0; 16];
        vec_buf.clone_from_slice(iv);

        // Normal
        for i in 0..block_num
            invariant block_num == data@.len() / 16, block_num * 16 <= data@.len(), data@.len() <= usize::MAX, vec_buf@.len() == 16, iv@.len() == 16, rk == self.cipher.rk@,
                out@ == cfb_e(rk, iv@, data@, i as int), vec_buf@ == prev(out@, iv@, i as int),
        {
            let ghost out0 = out@;
            proof { lemma_len_e(rk, iv@, data@, i as int); assert(vec_buf@.subrange(0, 16) =~= vec_buf@); ax_block(rk, vec_buf@); }
            let enc = self.cipher.encrypt(&vec_buf[..])?;
            let ct = block_xor(&enc, &data[i * 16..i * 16 + 16]);
            for i in it: ct.iter()
                invariant out@ == out0 + ct@.take(it.index@ as int),
            {
                out.push(*i);
            }
            proof { assert(ct@.take(16) =~= ct@); assert(blk(out@, i as int) =~= ct@); }
            vec_buf.clone_from_slice(&ct);
        }

        // Last block
        proof { lemma_len_e(rk, iv@, data@, block_num as int); assert(vec_buf@.subrange(0, 16) =~= vec_buf@); ax_block(rk, vec_buf@); }
        let ghost cn = out@;
        let enc = self.cipher.encrypt(&vec_buf[..])?;
        for i in 0..tail_len
            invariant block_num == data@.len() / 16, block_num * 16 <= data@.len(), data@.len() <= usize::MAX, tail_len == data@.len() - block_num * 16, enc@.len() == 16,
                out@ == cn + xort(tail(data@), enc@).take(i as int),
        {
            let b = data[block_num * 16 + i] ^ enc[i];
            out.push(b);
        }
        proof { assert(xort(tail(data@), enc@).take(tail_len as int) =~= xort(tail(data@), enc@)); }
        Ok(out)
    }

    fn cfb_decrypt(&self, data: &[u8], iv: &[u8]) -> (res: Result<Vec<u8>, Sm4Error>)
        requires iv@.len() == 16
        ensures res is Ok, res->Ok_0@ == cfb_dec(self.cipher.rk@, iv@, data@)
    {
        let ghost rk = self.cipher.rk@;
        let block_num = data.len() / 16;
        let tail_len = data.len() - block_num * 16;

        let mut out: Vec<u8> = Vec::new();
        let mut vec_buf: Vec<u8> = vec![0; 16];
        vec_buf.clone_from_slice(iv);

        // Normal
        for i in 0..block_num
            invariant block_num == data@.len() / 16, block_num * 16 <= data@.len(), data@.len() <= usize::MAX, iv@.len() == 16, rk == self.cipher.rk@, vec_buf@.len() == 16,
                out@ == cfb_d(rk, iv@, data@, i as int), vec_buf@ == prev(data@, iv@, i as int),
        {
            let ghost out0 = out@;
            proof { lemma_len_e(rk, iv@, data@, i as int); assert(vec_buf@.subrange(0, 16) =~= vec_buf@); ax_block(rk, vec_buf@); }
            let enc = self.cipher.encrypt(&vec_buf[..])?;
            let ct = &data[i * 16..i * 16 + 16];
            let pt = block_xor(&enc, ct);
            for i in it: pt.iter()
                invariant out@ == out0 + pt@.take(it.index@ as int),
            {
                out.push(*i);
            }
            proof { assert(pt@.take(16) =~= pt@);  }
            vec_buf.clone_from_slice(ct);
        }

        // Last block
        proof { lemma_len_e(rk, iv@, data@, block_num as int); assert(vec_buf@.subrange(0, 16) =~= vec_buf@); ax_block(rk, vec_buf@); }
        let ghost cn = out@;
        let enc = self.cipher.encrypt(&vec_buf[..])?;
        for i in 0..tail_len
            invariant block_num == data@.len() / 16, block_num * 16 <= data@.len(), data@.len() <= usize::MAX, tail_len == data@.len() - block_num * 16, enc@.len() == 16,
                out@ == cn + xort(tail(data@), enc@).take(i as int),
        {
            let b = data[block_num * 16 + i] ^ enc[i];
            out.push(b);
        }
        proof { assert(xort(tail(data@), enc@).take(tail_len as int) =~= xort(tail(data@), enc@)); }
        Ok(out)
    }

    fn ofb_encrypt(&self, data: &[u8], iv: &[u8]) -> (res: Result<Vec<u8>, Sm4Error>)
        requires iv@.len() == 16
        ensures res is Ok, res->Ok_0@ == ofb_enc(self.cipher.rk@, iv@, data@)
    {
        let ghost rk = self.cipher.rk@;
        let block_num = data.len() / 16;
        let tail_len = data.len() - block_num * 16;

        let mut out: Vec<u8> = Vec::new();
        let mut vec_buf: Vec<u8> = vec![0; 16];
        vec_buf.clone_from_slice(iv);

        // Normal
        for i in 0..block_num
            invariant block_num == data@.len() / 16, block_num * 16 <= data@.len(), data@.len() <= usize::MAX, iv@.len() == 16, rk == self.cipher.rk@, vec_buf@.len() == 16,
                out@ == ofb_e(rk, iv@, data@, i as int), vec_buf@ == ofb_s(rk, iv@, i as int),
        {
            let ghost out0 = out@;
            proof { lemma_len_e(rk, iv@, data@, i as int); assert(vec_buf@.subrange(0, 16) =~= vec_buf@); ax_block(rk, vec_buf@); }
            let enc = self.cipher.encrypt(&vec_buf[..])?;
            let ct = block_xor(&enc, &data[i * 16..i * 16 + 16]);
            for i in it: ct.iter()
                invariant out@ == out0 + ct@.take(it.index@ as int),
            {
                out.push(*i);
            }
            proof { assert(ct@.take(16) =~= ct@);  }
            vec_buf.clone_from_slice(&enc);
        }

        // Last block
        proof { lemma_len_e(rk, iv@, data@, block_num as int); assert(vec_buf@.subrange(0, 16) =~= vec_buf@); ax_block(rk, vec_buf@); }
        let ghost cn = out@;
        let enc = self.cipher.encrypt(&vec_buf[..])?;
        for i in 0..tail_len
            invariant block_num == data@.len() / 16, block_num * 16 <= data@.len(), data@.len() <= usize::MAX, tail_len == data@.len() - block_num * 16, enc@.len() == 16,
                out@ == cn + xort(tail(data@), enc@).take(i as int),
        {
            let b = data[block_num * 16 + i] ^ enc[i];
            out.push(b);
        }
        proof { assert(xort(tail(data@), enc@).take(tail_len as int) =~= xort(tail(data@), enc@)); }
        Ok(out)
    }

    fn ctr_encrypt(&self, data: &[u8], iv: &[u8]) -> (res: Result<Vec<u8>, Sm4Error>)
        requires iv@.len() == 16
        ensures res is Ok, res->Ok_0@ == ctr_enc(self.cipher.rk@, iv@, data@)
    {
        let ghost rk = self.cipher.rk@;
        let block_num = data.len() / 16;
        let tail_len = data.len() - block_num * 16;

        let mut out: Vec<u8> = Vec::new();
        let mut vec_buf: Vec<u8> = vec![0; 16];
        vec_buf.clone_from_slice(iv);

        // Normal
        for i in 0..block_num
            invariant block_num == data@.len() / 16, block_num * 16 <= data@.len(), data@.len() <= usize::MAX, iv@.len() == 16, rk == self.cipher.rk@, vec_buf@.len() == 16,
                out@ == ctr_e(rk, iv@, data@, i as int), vec_buf@ == ctr_s(iv@, i as int),
        {
            let ghost out0 = out@;
            proof { lemma_len_e(rk, iv@, data@, i as int); assert(vec_buf@.subrange(0, 16) =~= vec_buf@); ax_block(rk, vec_buf@); }
            let enc = self.cipher.encrypt(&vec_buf[..])?;
            let ct = block_xor(&enc, &data[i * 16..i * 16 + 16]);
            for i in it: ct.iter()
                invariant out@ == out0 + ct@.take(it.index@ as int),
            {
                out.push(*i);
            }
            proof { assert(ct@.take(16) =~= ct@);  }
            block_add_one(vec_buf.as_mut_slice());
        }

        // Last block
        proof { lemma_len_e(rk, iv@, data@, block_num as int); assert(vec_buf@.subrange(0, 16) =~= vec_buf@); ax_block(rk, vec_buf@); }
        let ghost cn = out@;
        let enc = self.cipher.encrypt(&vec_buf[..])?;
        for i in 0..tail_len
            invariant block_num == data@.len() / 16, block_num * 16 <= data@.len(), data@.len() <= usize::MAX, tail_len == data@.len() - block_num * 16, enc@.len() == 16,
                out@ == cn + xort(tail(data@), enc@).take(i as int),
        {
            let b = data[block_num * 16 + i] ^ enc[i];
            out.push(b);
        }
        proof { assert(xort(tail(data@), enc@).take(tail_len as int) =~= xort(tail(data@), enc@)); }
        Ok(out)
    }

    fn cbc_encrypt(&self, data: &[u8], iv: &[u8]) -> (res: Result<Vec<u8>, Sm4Error>)
        requires iv@.len() == 16
        ensures res is Ok, res->Ok_0@ == cbc_enc(self.cipher.rk@, iv@, data@)
    {
        let ghost rk = self.cipher.rk@;
        let ghost pp = pkcs7(data@);
        let block_num = data.len() / 16;
        let remind = data.len() % 16;

        let mut out: Vec<u8> = Vec::new();
        let mut vec_buf: Vec<u8> = vec![0; 16];
        vec_buf.copy_from_slice(iv);

        // Normal
        for i in 0..block_num
            invariant block_num == data@.len() / 16, block_num * 16 <= data@.len(), data@.len() <= usize::MAX, iv@.len() == 16, rk == self.cipher.rk@, vec_buf@.len() == 16,
                pp == pkcs7(data@), out@ == cbc_e(rk, iv@, pp, i as int), out@.len() == 16 * i, vec_buf@ == prev(out@, iv@, i as int),
        {
            let ghost out0 = out@;
            proof { assert(blk(pp, i as int) =~= blk(data@, i as int)); }
            let ct = block_xor(&vec_buf, &data[i * 16..i * 16 + 16]);
            proof { assert(ct@.subrange(0, 16) =~= ct@); ax_block(rk, ct@); }
            let enc = self.cipher.encrypt(&ct)?;

            out.extend_from_slice(&enc);
            proof { assert(blk(out@, i as int) =~= enc@); }
            vec_buf = enc;
        }

        if remind != 0 {
            let mut last_block = [16 - remind as u8; 16];
            last_block[..remind].copy_from_slice(&data[block_num * 16..]);

            proof { assert(last_block@ =~= blk(pp, block_num as int)); }
            let ct = block_xor(&vec_buf, &last_block);
            proof { assert(ct@.subrange(0, 16) =~= ct@); ax_block(rk, ct@); }
            let enc = self.cipher.encrypt(&ct)?;
            out.extend_from_slice(&enc);
        } else {
            proof {
                assert(data@.len() == 16 * block_num);
                assert(pp.len() == data@.len() + 16);
                assert forall|j: int| 0 <= j < 16 implies blk(pp, block_num as int)[j] == 16u8 by { assert(pp[16 * block_num as int + j] == 16u8); }
            }
            let ff_padding = block_xor(&vec_buf, &[0x10; 16]);
            proof { assert(ff_padding@ =~= xorb(vec_buf@, blk(pp, block_num as int))); assert(ff_padding@.subrange(0, 16) =~= ff_padding@); ax_block(rk, ff_padding@); }
            let enc = self.cipher.encrypt(&ff_padding)?;
            out.extend_from_slice(&enc);
        }

        proof { assert(pp.len() as int / 16 == block_num + 1); }
        Ok(out)
    }

    fn cbc_decrypt(&self, data: &[u8], iv: &[u8]) -> (res: Result<Vec<u8>, Sm4Error>)
        requires iv@.len() == 16
        ensures res is Ok <==> cbc_dec_ok(self.cipher.rk@, iv@, data@), res is Ok ==> res->Ok_0@ == cbc_dec(self.cipher.rk@, iv@, data@)
    {
        let ghost rk = self.cipher.rk@;
        let data_len = data.len();
        let block_num = data_len / 16;
        if data_len == 0 || data_len % 16 != 0 {
            return Err(Sm4Error::ErrorDataLen);
        }

        let mut out: Vec<u8> = Vec::new();
        let mut vec_buf = [0; 16];
        vec_buf.copy_from_slice(iv);

        // Normal
        for i in 0..block_num
            invariant block_num == data@.len() / 16, block_num * 16 == data@.len(), data@.len() <= usize::MAX, iv@.len() == 16, rk == self.cipher.rk@,
                out@ == cbc_d(rk, iv@, data@, i as int), vec_buf@ == prev(data@, iv@, i as int),
        {
            let ghost out0 = out@;
            proof { lemma_len_e(rk, iv@, data@, i as int); ax_block(rk, blk(data@, i as int)); assert(data@.subrange(16 * i as int, 16 * i as int + 16).subrange(0, 16) =~= blk(data@, i as int)); }
            let enc = self.cipher.decrypt(&data[i * 16..i * 16 + 16])?;
            let ct = block_xor(&vec_buf, &enc);

            for j in it: ct.iter()
                invariant out@ == out0 + ct@.take(it.index@ as int),
            {
                out.push(*j);
            }
            proof { assert(ct@.take(16) =~= ct@); }
            vec_buf.copy_from_slice(&data[i * 16..i * 16 + 16]);
        }

        proof { lemma_len_e(rk, iv@, data@, block_num as int); }
        let last_u8 = out[data_len - 1];
        if last_u8 > 0x10 || last_u8 == 0 {
            return Err(Sm4Error::InvalidLastU8);
        }
        out.resize(data_len - last_u8 as usize, 0);

        Ok(out)
    }
}
