//@unit sm9_g1
//@serves C09 C10 C13 C16 C17 C20
//@source gm-sm9/src/points.rs
//@tables sm9
//@assume Point::{point_double, point_add, ...} are verified by Verus against their group-law contracts; the `ring_*` lemmas they rest on (integer-polynomial identities, external_body in Verus) are discharged on every run by Lean `ring` (vf/ringcheck.py; any other shape is refused); what stays assumed about the group is ax9_g1_closed / ax9_g1_assoc / ax9_inv_p of sm9_math
//@assume ax_sm9_table: every entry pair T[i][2(d-1)], T[i][2(d-1)+1] (0 <= i < 37, 1 <= d <= 64) of SM9_P256_PRECOMPUTED is the Montgomery form of the affine point [d * 2^(7 i)] P1 - discharged on every run by exhaustive ground evaluation (tools/check_tables.py sm9), not by Verus; the table value itself is hidden from the solver (external_body const)
//@assume Point::point_equals: the triple (0, 0, 0) is not a Jacobian representation of any point (infinity is (t^2, t^3, 0), t != 0; the library produces (1, 1, 0)); for it the code answers `true` against every finite point, and the contract states that behaviour explicitly (g1eq_degenerate) instead of excluding the triple by a precondition; for all genuine representations equality is proved exact
//@include-spec sm2_math
//@include-spec sm9_math
//@section spec
use core::fmt::Debug;
// representation predicates / abstraction of a G1 point in Jacobian coordinates, Montgomery form (vocabulary shared with unit sm9_key)
spec fn wf1(p: Point) -> bool { canon9(p.x@) && canon9(p.y@) && canon9(p.z@) }
spec fn abs1(p: Point) -> Pt1 { abs_pt1(p.x@, p.y@, p.z@) }
spec fn valid1(p: Point) -> bool { wf1(p) && on_curve1(abs1(p)) }
pub open spec fn pt1_x(q: Pt1) -> int { match q { Pt1::Inf => 0, Pt1::Aff { x, y } => x } }
pub open spec fn pt1_y(q: Pt1) -> int { match q { Pt1::Inf => 0, Pt1::Aff { x, y } => y } }
pub open spec fn xy1_bytes(q: Pt1) -> Seq<u8> { be_bytes(pt1_x(q), 32) + be_bytes(pt1_y(q), 32) }
// known finding: exactly one operand is at infinity and that operand is written (0, 0, 0); point_equals then answers `true`
spec fn g1eq_degenerate(a: Point, b: Point) -> bool {
    ((val4(a.z@) == 0) != (val4(b.z@) == 0))
    && ((val4(a.z@) == 0 && val4(a.x@) == 0 && val4(a.y@) == 0) || (val4(b.z@) == 0 && val4(b.x@) == 0 && val4(b.y@) == 0))
}
//@section code gm-sm9/src/u256.rs
type U256 = [u64; 4];
const SM9_ZERO: U256 = [0, 0, 0, 0];
//@stub sm9_limbs u256_cmp
//@section code gm-sm9/src/u256.rs
fn sm9_u256_get_booth(a: &[u64], window_size: u64, i: u64) -> (r: i32)
    requires a@.len() == 4, (window_size == 5 && i < 52) || (window_size == 7 && i < 37)
    ensures r as int == bt_digit(a@, window_size as int, i as int),
        window_size == 5 ==> -16 <= r <= 16, window_size == 7 ==> -64 <= r <= 64
{
    proof { assert(1u64 << 5u64 == 32 && 1u64 << 7u64 == 128) by(bit_vector); }
    let mask = (1 << window_size) - 1;
    let (mut n, mut j) = (0_usize, 0_usize);
    if i == 0 {
        proof { bt_booth_lo(a@, window_size as int, mask); }
        return (((a[0] << 1) & mask) as i32) - ((a[0] & mask) as i32);
    }

    proof {
        if window_size == 5 { assert(i * window_size == 5 * i) by(nonlinear_arith) requires window_size == 5; }
        else { assert(i * window_size == 7 * i) by(nonlinear_arith) requires window_size == 7; }
    }
    j = (i * window_size - 1) as usize;
    n = j / 64;
    j = j % 64;

    let mut wbits = a[n] >> j;
    if (64 - j) < (window_size + 1) as usize && n < 3 {
        wbits |= a[n + 1] << (64 - j);
    }
    proof {
        if window_size == 5 { bt_booth_hi5(a@, i as int, wbits); } else { bt_booth_hi7(a@, i as int, wbits); }
    }
    ((wbits & mask) as i32) - (((wbits >> 1) & mask) as i32)
}
//@section code gm-sm9/src/fields/fp.rs
type Fp = U256;
//@stub sm9_fp fp_from_bytes
//@section code gm-sm9/src/lib.rs
const SM9_MODP_MONT_ONE: U256 = [
    0x1a9064d81caeba83,
    0xde0d6cb4e5851124,
    0x29fc54b00a7138ba,
    0x49bffffffd5c590e,
];
const SM9_MODP_MONT_FIVE: U256 = [
    0xb9f2c1e8c8c71995,
    0x125df8f246a377fc,
    0x25e650d049188d1c,
    0x43fffffed866f63,
];
//@stub-trait sm9_fp FieldElement
//@extract gm-sm9/src/sm9_p256_table.rs SM9_P256_PRECOMPUTED external_body
//@section code gm-sm9/src/points.rs
#[derive(Copy, Debug, Clone)]
struct Point {
    x: Fp,
    y: Fp,
    z: Fp,
}

impl Point {
    fn from_bytes(b: &[u8]) -> (r: Self)
        requires b@.len() >= 65, be_val(b@.subrange(1, 33)) < P9(), be_val(b@.subrange(33, 65)) < P9()
        ensures wf1(r), fe9(r.z@) == 1, fe9(r.x@) == be_val(b@.subrange(1, 33)), fe9(r.y@) == be_val(b@.subrange(33, 65))
    {
        proof {
            j9_consts();
            assert(b@.subrange(1, 33).subrange(0, 32) =~= b@.subrange(1, 33));
            assert(b@.subrange(33, 65).subrange(0, 32) =~= b@.subrange(33, 65));
        }
        let x = fp_from_bytes(&b[1..33]);
        let y = fp_from_bytes(&b[33..65]);
        Self {
            x,
            y,
            z: SM9_MODP_MONT_ONE,
        }
    }

    fn to_bytes_be(&self) -> (r: Vec<u8>)
        requires wf1(*self)
        ensures r@ == seq![4u8] + xy1_bytes(abs1(*self))
    {
        let mut ppend: Vec<u8> = vec![];
        let p = self.to_affine_point();
        proof { j9_fv_all(); }
        ppend.push(0x04); // uncompress point
        ppend.extend_from_slice(&p.x.to_bytes_be());
        ppend.extend_from_slice(&p.y.to_bytes_be());
        proof {
            assert(ppend@ =~= seq![4u8] + (be_bytes(fe9(p.x@), 32) + be_bytes(fe9(p.y@), 32)));
        }
        ppend
    }

    fn is_on_curve(&self) -> (r: bool)
        requires wf1(*self), val4(self.z@) != 0
        ensures r == on_curve1(abs1(*self))
    {
        let (mut t0, mut t1, mut t2) = (Fp::zero(), Fp::zero(), Fp::zero());
        proof { j9_fv_all(); j9_consts(); }
        if u256_cmp(&self.z, &SM9_MODP_MONT_ONE) == 0 {
            t0 = self.y.fp_sqr();
            t1 = self.x.fp_sqr();
            let ghost xx = t1;
            t1 = t1.fp_mul(&self.x);
            let ghost xxx = t1;
            t1 = t1.fp_add(&SM9_MODP_MONT_FIVE);
            proof {
                lemma_val4_inj(self.z@, SM9_MODP_MONT_ONE@);
                j9_on_curve_aff(self.x@, self.y@, self.z@, fe9(t0@), fe9(xx@), fe9(xxx@), fe9(t1@));
            }
        } else {
            t0 = self.x.fp_sqr();
            let ghost xx = t0;
            t0 = t0.fp_mul(&self.x);
            t1 = self.z.fp_sqr();
            let ghost z2 = t1;
            t2 = t1.fp_sqr();
            t1 = t1.fp_mul(&t2);
            let ghost z6 = t1;
            t1 = t1.fp_mul(&SM9_MODP_MONT_FIVE);
            let ghost z6b = t1;
            t1 = t0.fp_add(&t1);
            let ghost xxx = t0;
            t0 = self.y.fp_sqr();
            proof {
                j9_on_curve_jac(self.x@, self.y@, self.z@, fe9(t0@), fe9(xx@), fe9(xxx@), fe9(z2@), fe9(t2@), fe9(z6@), fe9(z6b@), fe9(t1@));
            }
        }
        proof { j9_cmp_fe(t0@, t1@); }
        u256_cmp(&t0, &t1) == 0
    }

    fn zero() -> (r: Self)
        ensures wf1(r), val4(r.z@) == 0, abs1(r) == Pt1::Inf, valid1(r)
    {
        proof { j9_fv_all(); j9_zero_all(); }
        Self {
            x: Fp::one(),
            y: Fp::one(),
            z: Fp::zero(),
        }
    }

    fn to_affine_point(&self) -> (r: Point)
        requires wf1(*self)
        ensures wf1(r), fe9(r.z@) == 1, val4(self.z@) != 0 ==> abs1(r) == abs1(*self),
            val4(self.z@) != 0 ==> abs1(*self) == (Pt1::Aff { x: fe9(r.x@), y: fe9(r.y@) }),
            val4(self.z@) == 0 ==> fe9(r.x@) == 0 && fe9(r.y@) == 0
    {
        proof { j9_fv_all(); j9_consts(); j9_to_affine_one(self.x@, self.y@, self.z@); }
        if u256_cmp(&self.z, &SM9_MODP_MONT_ONE) == 0 {
            Point {
                x: self.x,
                y: self.y,
                z: Fp::one(),
            }
        } else {
            let mut z_inv = self.z.fp_inv();
            let ghost zi = z_inv;
            let mut y = self.y.fp_mul(&z_inv);
            let ghost yz = y;
            z_inv = z_inv.fp_sqr();
            let x = self.x.fp_mul(&z_inv);
            y = y.fp_mul(&z_inv);
            proof { j9_to_affine_all(self.x@, self.y@, self.z@, x@, y@, fe9(zi@), fe9(yz@), fe9(z_inv@)); }
            Point { x, y, z: Fp::one() }
        }
    }

    fn point_equals(&self, rhs: &Self) -> (r: bool)
        requires wf1(*self), wf1(*rhs)
        ensures !g1eq_degenerate(*self, *rhs) ==> r == (abs1(*self) == abs1(*rhs)),
            // known finding: infinity written as (0, 0, 0) is reported equal to every finite point
            g1eq_degenerate(*self, *rhs) ==> r
    {
        let (mut t1, mut t2, mut t3, mut t4) =
            (U256::zero(), U256::zero(), U256::zero(), U256::zero());
        proof { j9_fv_all(); }
        t1 = self.z.fp_sqr();
        t2 = rhs.z.fp_sqr();
        t3 = self.x.fp_mul(&t2);
        t4 = rhs.x.fp_mul(&t1);
        proof {
            let c1 = (fe9(t1@) * fe9(self.z@)) % P9(); let c2 = (fe9(t2@) * fe9(rhs.z@)) % P9();
            j9_eq_main(*self, *rhs, fe9(t1@), fe9(t2@), fe9(t3@), fe9(t4@), c1, c2, (fe9(self.y@) * c2) % P9(), (fe9(rhs.y@) * c1) % P9());
            j9_cmp_fe(t3@, t4@);
        }
        if u256_cmp(&t3, &t4) != 0 {
            return false;
        }

        t1 = t1.fp_mul(&self.z);
        t2 = t2.fp_mul(&rhs.z);
        t3 = self.y.fp_mul(&t2);
        t4 = rhs.y.fp_mul(&t1);
        proof { j9_cmp_fe(t3@, t4@); }
        if u256_cmp(&t3, &t4) == 0 {
            return true;
        }
        false
    }

    fn is_zero(&self) -> (r: bool)
        ensures canon9(self.z@) ==> r == (val4(self.z@) == 0)
    {
        proof { if canon9(self.z@) { j9_is_zero(self.z); } }
        self.z.is_zero()
    }

    fn point_double(&self) -> (r: Self)
        requires valid1(*self)
        ensures valid1(r), abs1(r) == g1_add(abs1(*self), abs1(*self))
    {
        if self.is_zero() {
            return self.clone();
        }
        let mut x1 = self.x;
        let mut y1 = self.y;
        let z1 = self.z;

        let mut t1 = Fp::zero();
        let mut t2 = Fp::zero();
        let mut t3 = Fp::zero();

        let mut x3 = Fp::zero();
        let mut y3 = Fp::zero();
        let mut z3 = Fp::zero();
        proof { j9_fv_all(); }

        t2 = x1.fp_sqr();
        let ghost a1 = t2;
        t2 = t2.fp_triple();
        y3 = y1.fp_double();
        let ghost y2 = y3;
        z3 = y3.fp_mul(&z1);
        y3 = y3.fp_sqr();
        let ghost y4 = y3;
        t3 = y3.fp_mul(&x1);
        y3 = y3.fp_sqr();
        let ghost y16 = y3;
        y3 = y3.fp_div2();
        let ghost d = y3;
        x3 = t2.fp_sqr();
        let ghost m2 = x3;

        t1 = t3.fp_double();
        let ghost s2 = t1;
        x3 = x3.fp_sub(&t1);
        t1 = t3.fp_sub(&x3);
        let ghost d1 = t1;
        t1 = t1.fp_mul(&t2);
        y3 = t1.fp_sub(&y3);
        proof {
            j9_dbl_main(self.x@, self.y@, self.z@, x3@, y3@, z3@, fe9(a1@), fe9(t2@), fe9(y2@), fe9(y4@), fe9(t3@), fe9(y16@), fe9(d@), fe9(m2@), fe9(s2@), fe9(d1@), fe9(t1@));
        }

        Self {
            x: x3,
            y: y3,
            z: z3,
        }
    }

    fn point_add(&self, rhs: &Self) -> (r: Self)
        requires valid1(*self), valid1(*rhs)
        ensures valid1(r), abs1(r) == g1_add(abs1(*self), abs1(*rhs))
    {
        if rhs.is_zero() {
            return self.clone();
        }

        if self.is_zero() {
            return rhs.clone();
        }

        let x1 = self.x;
        let y1 = self.y;
        let z1 = self.z;

        let x2 = rhs.x;
        let y2 = rhs.y;
        let z2 = rhs.z;
        proof { j9_fv_all(); }

        let mut t1 = z1.fp_sqr();
        let mut t2 = z2.fp_sqr();
        let u1 = x1.fp_mul(&t2);
        let mut u2 = x2.fp_mul(&t1);
        let mut z3 = z1.fp_add(&z2);
        let ghost (gt1, gt2, gu2, zs) = (t1, t2, u2, z3);
        z3 = z3.fp_sqr();
        let ghost zq = z3;
        z3 = z3.fp_sub(&t1);
        let ghost za = z3;
        z3 = z3.fp_sub(&t2);
        let ghost zb = z3;
        t1 = t1.fp_mul(&z1);
        t2 = t2.fp_mul(&z2);
        let mut s1 = y1.fp_mul(&t2);
        let mut s2 = y2.fp_mul(&t1);
        let mut h = u2.fp_sub(&u1);
        u2 = s2.fp_sub(&s1);
        let ghost (gs1, gh, grr) = (s1, h, u2);
        proof {
            j9_add_branch(x1@, y1@, z1@, x2@, y2@, z2@, fe9(gt1@), fe9(gt2@), fe9(u1@), fe9(gu2@), fe9(zs@), fe9(zq@), fe9(za@), fe9(zb@), fe9(t1@), fe9(t2@), fe9(s1@), fe9(s2@), fe9(h@), fe9(u2@));
            j9_eq_zero(h); j9_eq_zero(u2);
            j9_is_zero(h); j9_is_zero(u2);
        }

        if h == SM9_ZERO {
            return if u2 == SM9_ZERO {
                rhs.point_double()
            } else {
                Point::zero()
            };
        }

        z3 = z3.fp_mul(&h);
        let mut i = h.fp_double();
        let ghost i2 = i;
        i = i.fp_sqr();
        let ghost ii = i;
        h = h.fp_mul(&i);
        i = u1.fp_mul(&i);
        u2 = u2.fp_double();
        let mut x3 = u2.fp_sqr();
        let ghost rq = x3;
        x3 = h.fp_sub(&x3);
        let ghost xa = x3;
        let mut y3 = i.fp_triple();
        let ghost v3 = y3;
        x3 = y3.fp_add(&x3);
        let ghost xb = x3;
        y3 = u2.fp_mul(&x3);
        let ghost yb = y3;
        s1 = s1.fp_mul(&h);
        let ghost sj = s1;
        s1 = s1.fp_double();
        y3 = y3.fp_sub(&s1);
        x3 = i.fp_sub(&x3);
        proof {
            j9_add_main(x1@, y1@, z1@, x2@, y2@, z2@, x3@, y3@, z3@,
                fe9(gt1@), fe9(gt2@), fe9(u1@), fe9(gu2@), fe9(zs@), fe9(zq@), fe9(za@), fe9(zb@), fe9(t1@), fe9(t2@), fe9(gs1@), fe9(s2@), fe9(gh@), fe9(grr@),
                fe9(i2@), fe9(ii@), fe9(h@), fe9(i@), fe9(u2@), fe9(rq@), fe9(xa@), fe9(v3@), fe9(xb@), fe9(yb@), fe9(sj@), fe9(s1@));
        }

        Point {
            x: x3,
            y: y3,
            z: z3,
        }
    }

    fn point_sub(&self, rhs: &Self) -> (r: Self)
        requires valid1(*self), valid1(*rhs)
        ensures valid1(r), abs1(r) == g1_add(abs1(*self), g1_neg(abs1(*rhs)))
    {
        let t = rhs.point_neg();
        self.point_add(&t)
    }

    fn point_neg(&self) -> (r: Self)
        requires wf1(*self)
        ensures wf1(r), abs1(r) == g1_neg(abs1(*self)), valid1(*self) ==> valid1(r)
    {
        proof { j9_fv_all(); j9_neg_all(self.x@, self.y@, self.z@); }
        Point {
            x: self.x.clone(),
            y: self.y.fp_neg().clone(),
            z: self.z.clone(),
        }
    }

    fn point_double_x5(&self) -> (r: Self)
        requires valid1(*self)
        ensures valid1(r), abs1(r) == g1_smul(32, abs1(*self))
    {
        proof {
            let a = abs1(*self);
            j9_smul_one(a);
            j9_smul_add(1, 1, a); j9_smul_add(2, 2, a); j9_smul_add(4, 4, a); j9_smul_add(8, 8, a); j9_smul_add(16, 16, a);
        }
        let mut r = self.point_double();
        r = r.point_double();
        r = r.point_double();
        r = r.point_double();
        r = r.point_double();
        r
    }

    fn point_mul(&self, k: &[u64]) -> (r: Self)
        requires valid1(*self), k@.len() == 4
        ensures valid1(r), abs1(r) == g1_smul(val4(k@), abs1(*self))
    {
        let mut pre_table = vec![];
        for _ in it0: 0..16
            invariant pre_table@.len() == it0.index@, forall|t: int| 0 <= t < pre_table@.len() ==> valid1(#[trigger] pre_table@[t])
        {
            pre_table.push(Point::zero());
        }
        let window_size = 5u64;
        let n = (256 + window_size - 1) / window_size;
        let ghost a = abs1(*self);
        proof {
            j9_smul_one(a);
            j9_smul_add(1, 1, a); j9_smul_add(2, 2, a); j9_smul_add(4, 4, a); j9_smul_add(8, 8, a); j9_smul_add(2, 1, a); j9_smul_add(3, 3, a); j9_smul_add(6, 6, a);
            j9_smul_add(3, 2, a); j9_smul_add(5, 5, a); j9_smul_add(4, 3, a); j9_smul_add(7, 7, a); j9_smul_add(4, 5, a); j9_smul_add(6, 5, a); j9_smul_add(7, 6, a); j9_smul_add(8, 7, a);
        }
        pre_table[0] = *self;
        pre_table[2 - 1] = pre_table[1 - 1].point_double();
        pre_table[4 - 1] = pre_table[2 - 1].point_double();
        pre_table[8 - 1] = pre_table[4 - 1].point_double();
        pre_table[16 - 1] = pre_table[8 - 1].point_double();

        pre_table[3 - 1] = pre_table[2 - 1].point_add(self);
        pre_table[6 - 1] = pre_table[3 - 1].point_double();
        pre_table[12 - 1] = pre_table[6 - 1].point_double();

        pre_table[5 - 1] = pre_table[3 - 1].point_add(&pre_table[2 - 1]);
        pre_table[10 - 1] = pre_table[5 - 1].point_double();

        pre_table[7 - 1] = pre_table[4 - 1].point_add(&pre_table[3 - 1]);
        pre_table[14 - 1] = pre_table[7 - 1].point_double();
        proof { assert(abs1(pre_table@[13]) == g1_smul(14, a) && valid1(pre_table@[13])); }

        pre_table[9 - 1] = pre_table[4 - 1].point_add(&pre_table[5 - 1]);
        pre_table[11 - 1] = pre_table[6 - 1].point_add(&pre_table[5 - 1]);
        pre_table[13 - 1] = pre_table[7 - 1].point_add(&pre_table[6 - 1]);
        pre_table[15 - 1] = pre_table[8 - 1].point_add(&pre_table[7 - 1]);
        proof {
            assert forall|t: int| 0 <= t < 16 implies valid1(#[trigger] pre_table@[t]) && abs1(pre_table@[t]) == g1_smul(t + 1, a) by { }
            bt_acc_props5(k@, 52);
        }

        let mut r = Point::zero();
        let mut r_infinity = true;
        for i in iti: (0..n).rev()
            invariant
                n == 52, window_size == 5, k@.len() == 4, valid1(*self), a == abs1(*self), pre_table@.len() == 16,
                forall|t: int| 0 <= t < 16 ==> valid1(#[trigger] pre_table@[t]) && abs1(pre_table@[t]) == g1_smul(t + 1, a),
                r_infinity ==> bt_acc(k@, 5, 52 - iti.index@) == 0,
                !r_infinity ==> valid1(r) && abs1(r) == g1_smul(bt_acc(k@, 5, 52 - iti.index@), a),
        {
            let ghost hi = bt_acc(k@, 5, i as int + 1);
            proof {
                assert(i as int == 51 - iti.index@);
                bt_acc_props5(k@, i as int); bt_acc_props5(k@, i as int + 1);
            }
            let booth = sm9_u256_get_booth(k, window_size, i);
            let ghost dg = booth as int;
            if r_infinity {
                if booth != 0 {
                    r = pre_table[(booth - 1) as usize];
                    r_infinity = false;
                }
            } else {
                r = r.point_double_x5();
                proof {
                    j9_smul_mul(32, hi, a);
                    j9_smul_closed(32 * hi, a);
                    if dg > 0 { j9_smul_add(32 * hi, dg, a); }
                    if dg < 0 { j9_smul_sub(32 * hi, -dg, a); }
                }
                if booth > 0 {
                    r = r.point_add(&pre_table[(booth - 1) as usize])
                } else if booth < 0 {
                    r = r.point_sub(&pre_table[(-booth - 1) as usize])
                }
            }
        }
        proof { bt_acc_props5(k@, 0); j9_smul_one(a); }

        if r_infinity {
            r = Point::zero();
        }
        r
    }

    fn to_jacobi(&self) -> (r: Self)
        requires canon9(self.x@), canon9(self.y@)
        ensures wf1(r), r.x@ == self.x@, r.y@ == self.y@, fe9(r.z@) == 1
    {
        proof { j9_fv_all(); }
        Self {
            x: self.x,
            y: self.y,
            z: Fp::one(),
        }
    }

    fn g_mul(k: &[u64]) -> (r: Point)
        requires k@.len() == 4
        ensures valid1(r), abs1(r) == g1_smul(val4(k@), G1P())
    {
        let mut pre_com_points: Vec<Vec<Point>> = vec![];
        let p = &SM9_P256_PRECOMPUTED;
        proof { j9_fv_all(); j9_g_on_curve(); }
        for i in iti: 0..p.len()
            invariant *p == SM9_P256_PRECOMPUTED, pre_com_points@.len() == iti.index@, on_curve1(G1P()),
                forall|ii: int, d: int| #![trigger pre_com_points@[ii]@[d]] 0 <= ii < pre_com_points@.len() && 0 <= d < 64 ==> j9_tab_ok(pre_com_points@[ii]@, ii, d),
                forall|ii: int| 0 <= ii < pre_com_points@.len() ==> (#[trigger] pre_com_points@[ii])@.len() == 64,
        {
            let mut points = vec![];
            let p1 = p[i];
            for j in itj: 0..(p1.len() / 2)
                invariant p1 == SM9_P256_PRECOMPUTED[i as int], 0 <= i < 37, points@.len() == itj.index@, on_curve1(G1P()),
                    forall|d: int| #![trigger points@[d]] 0 <= d < points@.len() ==> j9_tab_ok(points@, i as int, d),
            {
                proof { j9_fv_all(); j9_tab_entry(p1[j * 2], p1[j * 2 + 1], i as int, j as int); }
                points.push(Point {
                    x: p1[j * 2],
                    y: p1[j * 2 + 1],
                    z: Fp::one(),
                })
            }
            pre_com_points.push(points);
        }

        let mut r = Point::zero();
        let window_size = 7u64;
        let mut r_infinity = true;
        let n = (256 + window_size - 1) / window_size;
        let ghost g = G1P();
        proof { bt_acc_props7(k@, 37); }
        for i in iti: (0..n).rev()
            invariant
                n == 37, window_size == 7, k@.len() == 4, g == G1P(), on_curve1(g), pre_com_points@.len() == 37, valid1(r),
                forall|ii: int, d: int| #![trigger pre_com_points@[ii]@[d]] 0 <= ii < 37 && 0 <= d < 64 ==> j9_tab_ok(pre_com_points@[ii]@, ii, d),
                forall|ii: int| 0 <= ii < 37 ==> (#[trigger] pre_com_points@[ii])@.len() == 64,
                r_infinity ==> bt_acc(k@, 7, 37 - iti.index@) == 0 && abs1(r) == Pt1::Inf,
                !r_infinity ==> abs1(r) == g1_smul(j9_p2(7 * (37 - iti.index@)) * bt_acc(k@, 7, 37 - iti.index@), g),
        {
            let ghost hi = bt_acc(k@, 7, i as int + 1);
            let ghost pw = j9_p2(7 * i as int);
            proof {
                assert(i as int == 36 - iti.index@);
                bt_acc_props7(k@, i as int); bt_acc_props7(k@, i as int + 1);
                j9_p2_step(7 * i as int);
                assert(7 * (i as int + 1) == 7 * i as int + 7);
            }
            let booth = sm9_u256_get_booth(&k, window_size, i);
            let ghost dg = booth as int;
            proof {
                if dg != 0 {
                    let ad = if dg > 0 { dg } else { -dg };
                    assert(j9_tab_ok(pre_com_points@[i as int]@, i as int, ad - 1));
                }
                j9_comb_step(pw, hi, dg, bt_acc(k@, 7, i as int), g);
            }
            if r_infinity {
                if booth != 0 {
                    r = pre_com_points[i as usize][(booth - 1) as usize];
                    r_infinity = false;
                }
            } else {
                if booth > 0 {
                    let p = pre_com_points[i as usize][(booth - 1) as usize];
                    r = r.point_add(&p);
                } else if booth < 0 {
                    let p = pre_com_points[i as usize][(-booth - 1) as usize];
                    r = r.point_sub(&p);
                }
            }
        }
        proof { bt_acc_props7(k@, 0); j9_p2_step(0); j9_smul_one(g); assert(1 * bt_acc(k@, 7, 0) == bt_acc(k@, 7, 0)); }
        r
    }
}
//@section spec local
use vstd::arithmetic::div_mod::*;
use vstd::arithmetic::mul::*;
// ---------------------------------------------------------------- arithmetic mod P9()
proof fn j9_pos() ensures P9() > 3, 0 < RINV_P9() < P9(), (r256() * RINV_P9()) % P9() == 1
{ lemma_params9(); assert(P9() > 3) by(compute); }
proof fn j9_range(x: int) ensures 0 <= x % P9() < P9()
{ j9_pos(); lemma_mod_bound(x, P9()); }
proof fn j9_small(x: int) requires 0 <= x < P9() ensures x % P9() == x
{ lemma_small_mod(x as nat, P9() as nat); }
// (a op b) mod p may be computed on residues
proof fn j9_mul(a: int, b: int)
    ensures ((a % P9()) * b) % P9() == (a * b) % P9(), (a * (b % P9())) % P9() == (a * b) % P9(), ((a % P9()) * (b % P9())) % P9() == (a * b) % P9()
{ j9_pos(); lemma_mul_mod_noop_general(a, b, P9()); }
proof fn j9_add(a: int, b: int)
    ensures ((a % P9()) + b) % P9() == (a + b) % P9(), (a + (b % P9())) % P9() == (a + b) % P9(), ((a % P9()) + (b % P9())) % P9() == (a + b) % P9()
{ j9_pos(); lemma_add_mod_noop(a, b, P9()); lemma_add_mod_noop_right(a, b, P9()); lemma_add_mod_noop_right(b, a, P9()); }
proof fn j9_sub(a: int, b: int)
    ensures ((a % P9()) - b) % P9() == (a - b) % P9(), (a - (b % P9())) % P9() == (a - b) % P9(), ((a % P9()) - (b % P9())) % P9() == (a - b) % P9()
{ j9_pos(); lemma_sub_mod_noop(a, b, P9()); lemma_sub_mod_noop_right(a, b, P9()); lemma_sub_mod_noop_right(a % P9(), b, P9()); }
proof fn j9_shift(x: int, k: int) ensures (x + k * P9()) % P9() == x % P9()
{
    j9_pos();
    lemma_mod_multiples_vanish(k, x, P9());
    assert(P9() * k + x == x + k * P9()) by(nonlinear_arith);
}
// congruences: a == b (mod p) is preserved by * and +
proof fn j9_cong_mul(a: int, b: int, c: int) requires a % P9() == b % P9() ensures (a * c) % P9() == (b * c) % P9(), (c * a) % P9() == (c * b) % P9()
{
    j9_mul(a, c); j9_mul(b, c);
    assert(a * c == c * a) by(nonlinear_arith);
    assert(b * c == c * b) by(nonlinear_arith);
}
proof fn j9_cong_add(a: int, b: int, c: int, d: int) requires a % P9() == b % P9(), c % P9() == d % P9() ensures (a + c) % P9() == (b + d) % P9(), (a - c) % P9() == (b - d) % P9()
{ j9_add(a, c); j9_add(b, d); j9_sub(a, c); j9_sub(b, d); }
// multiplying by something == 1 (mod p)
proof fn j9_unit(x: int, u: int) requires u % P9() == 1 ensures (x * u) % P9() == x % P9(), (u * x) % P9() == x % P9()
{
    j9_mul(x, u);
    assert(x * 1 == x);
    assert(x * u == u * x) by(nonlinear_arith);
}
// ---------------------------------------------------------------- Montgomery decoding fe
proof fn j9_fe_range(a: Seq<u64>) ensures 0 <= fe9(a) < P9()
{ j9_range(val4(a) * RINV_P9()); }
// fe9(a) * R == val4(a) (mod p)
proof fn j9_fe_timesR(a: Seq<u64>) ensures (fe9(a) * r256()) % P9() == val4(a) % P9()
{
    j9_pos();
    let v = val4(a); let u = r256() * RINV_P9();
    j9_mul(v * RINV_P9(), r256());
    assert(v * RINV_P9() * r256() == v * u) by(nonlinear_arith) requires u == r256() * RINV_P9();
    j9_unit(v, u);
}
proof fn j9_fe_inj(a: Seq<u64>, b: Seq<u64>) requires canon9(a), canon9(b), fe9(a) == fe9(b) ensures a =~= b
{
    j9_fe_timesR(a); j9_fe_timesR(b);
    lemma_val4_bounds(a); lemma_val4_bounds(b);
    j9_small(val4(a)); j9_small(val4(b));
    lemma_val4_inj(a, b);
}
proof fn j9_fe_zero(a: Seq<u64>) requires a.len() == 4, canon9(a) || val4(a) == P9() ensures (fe9(a) == 0) == (val4(a) == 0 || val4(a) == P9())
{
    j9_pos();
    lemma_val4_bounds(a);
    if val4(a) == 0 {
        assert(0 * RINV_P9() == 0);
        j9_small(0);
    } else if val4(a) == P9() {
        j9_shift(0, RINV_P9());
        assert(0 + RINV_P9() * P9() == P9() * RINV_P9()) by(nonlinear_arith);
        j9_small(0);
    } else {
        j9_fe_timesR(a);
        j9_small(val4(a));
        if fe9(a) == 0 { assert(0 * r256() == 0); j9_small(0); }
    }
}
// ---------------------------------------------------------------- inv_p on 0 and 1
proof fn j9_pow_one(e: nat) ensures pow_mod(1, e, P9()) == 1 decreases e
{
    j9_pos();
    j9_small(1);
    if e > 0 { j9_pow_one((e - 1) as nat); assert(1 * 1 == 1); }
}
proof fn j9_inv_one() ensures inv_p9(1) == 1
{ j9_pos(); j9_pow_one((P9() - 2) as nat); }
proof fn j9_inv_zero() ensures inv_p9(0) == 0
{
    j9_pos();
    let e = (P9() - 2) as nat;
    assert(e > 0);
    assert(pow_mod(0, e, P9()) == (pow_mod(0, (e - 1) as nat, P9()) * 0) % P9());
    assert(pow_mod(0, (e - 1) as nat, P9()) * 0 == 0);
    j9_small(0);
}
// ---------------------------------------------------------------- abstraction of points
// a point with z == 1 (Montgomery one) denotes (fe x, fe y)
proof fn j9_abs_z1(x: Seq<u64>, y: Seq<u64>, z: Seq<u64>)
    requires canon9(z), fe9(z) == 1
    ensures val4(z) != 0, abs_pt1(x, y, z) == (Pt1::Aff { x: fe9(x), y: fe9(y) })
{
    j9_pos();
    if val4(z) == 0 { j9_fe_zero(z); }
    j9_inv_one();
    j9_fe_range(x); j9_fe_range(y);
    j9_small(fe9(x)); j9_small(fe9(y));
    assert(fe9(x) * 1 * 1 == fe9(x));
    assert(fe9(y) * 1 * 1 * 1 == fe9(y));
}
// y -> -y
proof fn j9_neg_y(y: int, yn: int, zi: int) requires yn == (0 - y) % P9()
    ensures (yn * zi * zi * zi) % P9() == (P9() - (y * zi * zi * zi) % P9()) % P9()
{
    j9_pos();
    let c = zi * zi * zi;
    assert(yn * zi * zi * zi == yn * c) by(nonlinear_arith) requires c == zi * zi * zi;
    assert(y * zi * zi * zi == y * c) by(nonlinear_arith) requires c == zi * zi * zi;
    j9_mul(0 - y, c);
    assert((0 - y) * c == 0 - y * c) by(nonlinear_arith);
    j9_sub(P9(), y * c);
    j9_shift(0 - y * c, 1);
    assert(0 - y * c + 1 * P9() == P9() - y * c);
}
// ---------------------------------------------------------------- group facts for the window method
proof fn j9_smul_one(a: Pt1) ensures g1_smul(1, a) == a, g1_smul(0, a) == Pt1::Inf
{
    assert(g1_smul(0, a) == Pt1::Inf);
    assert(g1_smul(1, a) == g1_add(g1_smul(0, a), a));
}
proof fn j9_smul_mul(j: int, k: int, a: Pt1) requires on_curve1(a), j >= 0, k >= 0 ensures g1_smul(j * k, a) == g1_smul(j, g1_smul(k, a)) decreases j
{
    if j > 0 {
        j9_smul_mul(j - 1, k, a);
        assert(j * k == (j - 1) * k + k) by(nonlinear_arith);
        assert((j - 1) * k >= 0) by(nonlinear_arith) requires j >= 1, k >= 0;
        j9_smul_add((j - 1) * k, k, a);
    } else {
        assert(0 * k == 0);
    }
}
proof fn j9_neg_props(q: Pt1) requires on_curve1(q) ensures on_curve1(g1_neg(q)), g1_add(q, g1_neg(q)) == Pt1::Inf
{
    j9_pos();
    match q {
        Pt1::Inf => {},
        Pt1::Aff { x, y } => {
            if y == 0 {
                j9_shift(0, 1); j9_small(0);
                assert((P9() - 0) % P9() == 0);
            } else {
                j9_flip_y(y);
                j9_small(P9() - y);
                j9_shift(0, 1); j9_small(0);
                assert((y + (P9() - y)) % P9() == 0);
            }
        }
    }
}
// ---------------------------------------------------------------- congruence toolkit for the group-law proofs (point_dbl, point_add)
proof fn j9_modmod(a: int) ensures (a % P9()) % P9() == a % P9()
{ j9_pos(); lemma_mod_twice(a, P9()); }
// r is (a op b) % p, the operands are known up to congruence: r == a2 op b2 (mod p)
proof fn j9_cm(r: int, a: int, b: int, a2: int, b2: int) requires r == (a * b) % P9(), a % P9() == a2 % P9(), b % P9() == b2 % P9() ensures r % P9() == (a2 * b2) % P9()
{ j9_modmod(a * b); j9_cong_mul(a, a2, b); j9_cong_mul(b, b2, a2); }
proof fn j9_ca(r: int, a: int, b: int, a2: int, b2: int) requires r == (a + b) % P9(), a % P9() == a2 % P9(), b % P9() == b2 % P9() ensures r % P9() == (a2 + b2) % P9()
{ j9_modmod(a + b); j9_cong_add(a, a2, b, b2); }
proof fn j9_cs(r: int, a: int, b: int, a2: int, b2: int) requires r == (a - b) % P9(), a % P9() == a2 % P9(), b % P9() == b2 % P9() ensures r % P9() == (a2 - b2) % P9()
{ j9_modmod(a - b); j9_cong_add(a, a2, b, b2); }
proof fn j9_ck(r: int, k: int, a: int, a2: int) requires r == (k * a) % P9(), a % P9() == a2 % P9() ensures r % P9() == (k * a2) % P9()
{ j9_modmod(k * a); j9_cong_mul(a, a2, k); }
// a == b (mod p)  <==>  a - b == 0 (mod p)
proof fn j9_diff(a: int, b: int) ensures ((a - b) % P9() == 0) == (a % P9() == b % P9())
{
    j9_pos(); j9_small(0);
    if (a - b) % P9() == 0 { j9_cong_add(a - b, 0, b, b); }
    if a % P9() == b % P9() { j9_cong_add(a, b, b, b); }
}
// linear combinations of things that vanish mod p vanish mod p
proof fn j9_lin1(e1: int, k1: int) requires e1 % P9() == 0 ensures (e1 * k1) % P9() == 0
{ j9_pos(); j9_small(0); j9_cong_mul(e1, 0, k1); assert(0 * k1 == 0); }
proof fn j9_lin2(e1: int, k1: int, e2: int, k2: int) requires e1 % P9() == 0, e2 % P9() == 0
    ensures (e1 * k1 + e2 * k2) % P9() == 0, (e1 * k1 - e2 * k2) % P9() == 0
{ j9_pos(); j9_small(0); j9_lin1(e1, k1); j9_lin1(e2, k2); j9_cong_add(e1 * k1, 0, e2 * k2, 0); }
// p is prime (through ax_inv_p): no zero divisors
proof fn j9_nz_mul(a: int, b: int) requires a % P9() != 0, b % P9() != 0 ensures (a * b) % P9() != 0
{
    if (a * b) % P9() == 0 {
        ax9_inv_p(a);
        let ai = inv_p9(a);
        j9_lin1(a * b, ai);
        assert((a * b) * ai == b * (a * ai)) by(nonlinear_arith);
        j9_unit(b, a * ai);
    }
}
// ---------------------------------------------------------------- ring axioms: integer polynomial identities, each proved by Lean `ring` (vf.ringcheck)
#[verifier::external_body]
proof fn ring_par2(xa: int, x: int, z: int, zi: int)
    ensures xa * z * z - x
        == (xa - x * zi * zi) * (z * z) + (z * zi - 1) * (x * (z * zi + 1))
{ }
#[verifier::external_body]
proof fn ring_par3(ya: int, y: int, z: int, zi: int)
    ensures ya * z * z * z - y
        == (ya - y * zi * zi * zi) * (z * z * z) + (z * zi - 1) * (y * (z * zi * (z * zi) + z * zi + 1))
{ }
#[verifier::external_body]
proof fn ring_div2(a: int, b: int, z: int, w: int)
    ensures a * w * w - b
        == (a - b * (z * z)) * (w * w) + (z * w - 1) * (b * (z * w + 1))
{ }
#[verifier::external_body]
proof fn ring_div3(a: int, b: int, z: int, w: int)
    ensures a * w * w * w - b
        == (a - b * (z * z * z)) * (w * w * w) + (z * w - 1) * (b * (z * w * (z * w) + z * w + 1))
{ }
// ---------------------------------------------------------------- Jacobian <-> affine
// affine coordinates xa = x / z^2, ya = y / z^3 give back x == xa z^2, y == ya z^3 (mod p)
proof fn j9_param(x: int, y: int, z: int, zi: int, xa: int, ya: int)
    requires (z * zi) % P9() == 1, xa == (x * zi * zi) % P9(), ya == (y * zi * zi * zi) % P9()
    ensures x % P9() == (xa * z * z) % P9(), y % P9() == (ya * z * z * z) % P9()
{
    j9_pos(); j9_small(1);
    j9_modmod(x * zi * zi); j9_modmod(y * zi * zi * zi);
    j9_diff(xa, x * zi * zi); j9_diff(ya, y * zi * zi * zi); j9_diff(z * zi, 1);
    ring_par2(xa, x, z, zi);
    j9_lin2(xa - x * zi * zi, z * z, z * zi - 1, x * (z * zi + 1));
    j9_diff(xa * z * z, x);
    ring_par3(ya, y, z, zi);
    j9_lin2(ya - y * zi * zi * zi, z * z * z, z * zi - 1, y * (z * zi * (z * zi) + z * zi + 1));
    j9_diff(ya * z * z * z, y);
}
// dividing by z^2 and z^3: a == b z^2 (mod p) gives a / z^2 == b
proof fn j9_div2(a: int, b: int, z: int, w: int) requires a % P9() == (b * (z * z)) % P9(), (z * w) % P9() == 1 ensures (a * w * w) % P9() == b % P9()
{
    j9_pos(); j9_small(1);
    j9_diff(a, b * (z * z)); j9_diff(z * w, 1);
    ring_div2(a, b, z, w);
    j9_lin2(a - b * (z * z), w * w, z * w - 1, b * (z * w + 1));
    j9_diff(a * w * w, b);
}
proof fn j9_div3(a: int, b: int, z: int, w: int) requires a % P9() == (b * (z * z * z)) % P9(), (z * w) % P9() == 1 ensures (a * w * w * w) % P9() == b % P9()
{
    j9_pos(); j9_small(1);
    j9_diff(a, b * (z * z * z)); j9_diff(z * w, 1);
    ring_div3(a, b, z, w);
    j9_lin2(a - b * (z * z * z), w * w * w, z * w - 1, b * (z * w * (z * w) + z * w + 1));
    j9_diff(a * w * w * w, b);
}
// two points with the same x on the curve are equal or opposite
proof fn j9_same_x(x: int, y1: int, y2: int)
    requires on_curve1(Pt1::Aff { x: x, y: y1 }), on_curve1(Pt1::Aff { x: x, y: y2 }), (y1 + y2) % P9() != 0
    ensures y1 == y2
{
    j9_pos();
    j9_diff(y1 * y1, y2 * y2);
    ring_sqdiff(y1, y2);
    if (y1 - y2) % P9() != 0 { j9_nz_mul(y1 - y2, y1 + y2); }
    j9_diff(y1, y2);
    j9_small(y1); j9_small(y2);
}
#[verifier::external_body]
proof fn ring_sqdiff(a: int, b: int)
    ensures (a - b) * (a + b)
        == a * a - b * b
{ }
// p - y has the other parity and the same square
proof fn j9_flip_y(y: int) requires 0 < y < P9()
    ensures (0 - y) % P9() == P9() - y, (P9() - y) % 2 == 1 - y % 2, ((P9() - y) * (P9() - y)) % P9() == (y * y) % P9()
{
    j9_pos();
    j9_shift(0 - y, 1);
    j9_small(P9() - y);
    assert(P9() % 2 == 1) by(compute);
    let k = P9() - 2 * y;
    assert((P9() - y) * (P9() - y) == y * y + k * P9()) by(nonlinear_arith) requires k == P9() - 2 * y;
    j9_shift(y * y, k);
}
// powers of z and of its inverse cancel
proof fn j9_units(z: int, zi: int) requires (z * zi) % P9() == 1
    ensures ({ let z2 = z * z; let z4 = z2 * z2; let z6 = z4 * z2; let i2 = zi * zi; let i4 = i2 * i2; let i6 = i4 * i2;
        (z6 * i6) % P9() == 1 && (z4 * i6) % P9() == i2 % P9() && (i2 * z6) % P9() == z4 % P9() })
{
    let z2 = z * z; let z4 = z2 * z2; let z6 = z4 * z2; let i2 = zi * zi; let i4 = i2 * i2; let i6 = i4 * i2;
    let w = z * zi; let u2 = z2 * i2; let u4 = z4 * i4;
    assert(u2 == w * w) by(nonlinear_arith) requires u2 == (z * z) * (zi * zi), w == z * zi;
    j9_unit(w, w);
    assert(u4 == u2 * u2) by(nonlinear_arith) requires u4 == (z2 * z2) * (i2 * i2), u2 == z2 * i2;
    j9_unit(u2, u2);
    assert(z6 * i6 == u4 * u2) by(nonlinear_arith) requires z6 == z4 * z2, i6 == i4 * i2, u4 == z4 * i4, u2 == z2 * i2;
    j9_unit(u4, u2);
    assert(z4 * i6 == u4 * i2) by(nonlinear_arith) requires i6 == i4 * i2, u4 == z4 * i4;
    j9_unit(i2, u4);
    assert(i2 * z6 == u2 * z4) by(nonlinear_arith) requires z6 == z4 * z2, u2 == z2 * i2;
    j9_unit(z4, u2);
}
// affine coordinates (x / z^2, y / z^3): both sides of the affine equation in terms of x, y, 1/z
proof fn j9_aff_sides(x: int, y: int, zi: int, a: int, b: int)
    ensures ({ let xa = (x * zi * zi) % P9(); let ya = (y * zi * zi * zi) % P9(); let i2 = zi * zi; let i6 = (i2 * i2) * i2;
        (ya * ya) % P9() == ((y * y) * i6) % P9() && (xa * xa * xa + a * xa + b) % P9() == ((x * x * x) * i6 + (a * x) * i2 + b) % P9() })
{
    let xa = (x * zi * zi) % P9(); let ya = (y * zi * zi * zi) % P9(); let i2 = zi * zi; let i6 = (i2 * i2) * i2;
    let c = zi * zi * zi;
    // ya^2
    j9_mul(y * zi * zi * zi, y * zi * zi * zi);
    assert(y * zi * zi * zi == y * c) by(nonlinear_arith) requires c == zi * zi * zi;
    assert((y * c) * (y * c) == (y * y) * (c * c)) by(nonlinear_arith);
    assert(c * c == i6) by(nonlinear_arith) requires c == zi * zi * zi, i6 == ((zi * zi) * (zi * zi)) * (zi * zi);
    // xa^3
    let t = x * i2;
    assert(x * zi * zi == t) by(nonlinear_arith) requires t == x * (zi * zi);
    j9_mul(t, t);
    j9_mul(t * t, t);
    j9_mul(xa * xa, xa);
    assert(((xa * xa) % P9() * xa) % P9() == ((t * t) % P9() * (t % P9())) % P9());
    assert((xa * xa * xa) % P9() == (t * t * t) % P9());
    assert(t * t * t == (x * x * x) * i6) by(nonlinear_arith) requires t == x * i2, i6 == (i2 * i2) * i2;
    // a * xa
    j9_mul(a, t);
    assert(a * t == (a * x) * i2) by(nonlinear_arith) requires t == x * i2;
    j9_cong_add(xa * xa * xa, (x * x * x) * i6, a * xa, (a * x) * i2);
    j9_add(xa * xa * xa + a * xa, b);
    j9_add((x * x * x) * i6 + (a * x) * i2, b);
}
proof fn j9_jac_equiv(x: int, y: int, z: int, zi: int, a: int, b: int) requires (z * zi) % P9() == 1
    ensures ({ let xa = (x * zi * zi) % P9(); let ya = (y * zi * zi * zi) % P9();
        ((y * y) % P9() == (x * x * x + a * x * ((z * z) * (z * z)) + b * (((z * z) * (z * z)) * (z * z))) % P9())
        == ((ya * ya) % P9() == (xa * xa * xa + a * xa + b) % P9()) })
{
    let z2 = z * z; let z4 = z2 * z2; let z6 = z4 * z2; let i2 = zi * zi; let i4 = i2 * i2; let i6 = i4 * i2;
    let xa = (x * zi * zi) % P9(); let ya = (y * zi * zi * zi) % P9();
    let x3 = x * x * x; let ax = a * x;
    let lj = y * y; let rj = x3 + a * x * z4 + b * z6;
    let t = x3 * i6 + ax * i2 + b;
    j9_units(z, zi);
    j9_aff_sides(x, y, zi, a, b);
    // rj * i6 == t (mod p)
    assert(rj * i6 == x3 * i6 + ax * (z4 * i6) + b * (z6 * i6)) by(nonlinear_arith) requires rj == x3 + a * x * z4 + b * z6, ax == a * x;
    j9_cong_mul(z4 * i6, i2, ax);
    j9_unit(b, z6 * i6);
    j9_cong_add(ax * (z4 * i6), ax * i2, b * (z6 * i6), b);
    j9_cong_add(x3 * i6, x3 * i6, ax * (z4 * i6) + b * (z6 * i6), ax * i2 + b);
    assert((rj * i6) % P9() == t % P9());
    // t * z6 == rj (mod p)
    assert(t * z6 == x3 * (z6 * i6) + ax * (i2 * z6) + b * z6) by(nonlinear_arith) requires t == x3 * i6 + ax * i2 + b;
    j9_unit(x3, z6 * i6);
    j9_cong_mul(i2 * z6, z4, ax);
    j9_cong_add(x3 * (z6 * i6), x3, ax * (i2 * z6), ax * z4);
    j9_cong_add(x3 * (z6 * i6) + ax * (i2 * z6), x3 + ax * z4, b * z6, b * z6);
    assert(ax * z4 == a * x * z4);
    assert((t * z6) % P9() == rj % P9());
    // (lj * i6) * z6 == lj (mod p)
    assert((lj * i6) * z6 == lj * (z6 * i6)) by(nonlinear_arith);
    j9_unit(lj, z6 * i6);
    if lj % P9() == rj % P9() {
        j9_cong_mul(lj, rj, i6);
    }
    if (lj * i6) % P9() == t % P9() {
        j9_cong_mul(lj * i6, t, z6);
    }
}
// ---------------------------------------------------------------- the trait contract of sm9_fp read on integers
proof fn j9_fv_all() ensures forall|a: Fp| #![trigger a.val()] a.val()[0] == fe9(a@) && a.val().len() == 1
{ }
proof fn j9_consts()
    ensures canon9(SM9_MODP_MONT_ONE@), fe9(SM9_MODP_MONT_ONE@) == 1, val4(SM9_MODP_MONT_ONE@) != 0, canon9(SM9_MODP_MONT_FIVE@), fe9(SM9_MODP_MONT_FIVE@) == 5,
        canon9(SM9_ZERO@), val4(SM9_ZERO@) == 0, SM9_ZERO@.len() == 4, P9() > 5,
{
    assert(canon9(SM9_MODP_MONT_ONE@) && fe9(SM9_MODP_MONT_ONE@) == 1 && val4(SM9_MODP_MONT_ONE@) != 0) by(compute);
    assert(canon9(SM9_MODP_MONT_FIVE@) && fe9(SM9_MODP_MONT_FIVE@) == 5) by(compute);
    assert(canon9(SM9_ZERO@) && val4(SM9_ZERO@) == 0 && SM9_ZERO@.len() == 4) by(compute);
    assert(P9() > 5) by(compute);
}
proof fn j9_is_zero(a: Fp) requires canon9(a@) ensures (a.val() == Fp::s_zero()) == (val4(a@) == 0), (fe9(a@) == 0) == (val4(a@) == 0)
{
    j9_fv_all(); j9_fe_zero(a@); j9_pos();
    assert(seq![0int][0] == 0);
    if fe9(a@) == 0 { assert(a.val() =~= seq![0int]); }
}
// a limb array equal to the zero constant
proof fn j9_eq_zero(a: Fp) ensures (a == SM9_ZERO) == (val4(a@) == 0)
{
    j9_consts();
    lemma_val4_zero(a@);
    if a == SM9_ZERO { assert(a@ == SM9_ZERO@); }
    if val4(a@) == 0 { lemma_val4_inj(a@, SM9_ZERO@); assert(a@ =~= SM9_ZERO@); assert(a == SM9_ZERO); }
}
// canonical limb arrays: equal value <=> equal decoded field element
proof fn j9_cmp_fe(a: Seq<u64>, b: Seq<u64>) requires canon9(a), canon9(b) ensures (val4(a) == val4(b)) == (fe9(a) == fe9(b))
{
    if fe9(a) == fe9(b) { j9_fe_inj(a, b); }
}
// ---------------------------------------------------------------- the group G1
proof fn j9_smul_closed(k: int, a: Pt1) requires on_curve1(a) ensures on_curve1(g1_smul(k, a)) decreases k
{ if k > 0 { j9_smul_closed(k - 1, a); ax9_g1_closed(g1_smul(k - 1, a), a); } }
proof fn j9_smul_add(j: int, k: int, a: Pt1) requires on_curve1(a), j >= 0, k >= 0 ensures g1_smul(j + k, a) == g1_add(g1_smul(j, a), g1_smul(k, a)) decreases k
{
    j9_smul_closed(j, a);
    if k > 0 {
        j9_smul_add(j, k - 1, a);
        j9_smul_closed(k - 1, a);
        ax9_g1_assoc(g1_smul(j, a), g1_smul(k - 1, a), a);
    }
}
// m a - j a == (m - j) a
proof fn j9_smul_sub(m: int, j: int, a: Pt1) requires on_curve1(a), 0 <= j <= m ensures g1_add(g1_smul(m, a), g1_neg(g1_smul(j, a))) == g1_smul(m - j, a)
{
    j9_smul_closed(m - j, a); j9_smul_closed(j, a);
    j9_smul_add(m - j, j, a);
    j9_neg_props(g1_smul(j, a));
    ax9_g1_assoc(g1_smul(m - j, a), g1_smul(j, a), g1_neg(g1_smul(j, a)));
}
proof fn j9_g_on_curve() ensures on_curve1(G1P())
{ lemma_params9(); }
// cancelling the factor 2 (p is odd)
proof fn j9_cancel2(a: int, b: int) requires (a + a) % P9() == (2 * b) % P9() ensures a % P9() == b % P9()
{
    j9_pos(); j9_small(2);
    j9_diff(a + a, 2 * b);
    assert(a + a - 2 * b == 2 * (a - b));
    if (a - b) % P9() != 0 { j9_nz_mul(2, a - b); }
    j9_diff(a, b);
}
// the unit 1/z of a non-zero residue
proof fn j9_zunit(z: int) requires 0 < z < P9() ensures (z * inv_p9(z)) % P9() == 1, z % P9() != 0
{ j9_small(z); ax9_inv_p(z); }
// ---------------------------------------------------------------- point_double
// the values computed by point_double (every field operation reduces mod p; d is the result of fp_div2)
spec fn j9_dbl_rel(X: int, Y: int, Z: int, a1: int, m: int, y2: int, z3: int, y4: int, s: int, y16: int, d: int, m2: int, s2: int, x3: int, d1: int, d2: int, y3: int) -> bool {
    a1 == (X * X) % P9() && m == ((a1 + a1) % P9() + a1) % P9() && y2 == (Y + Y) % P9() && z3 == (y2 * Z) % P9() && y4 == (y2 * y2) % P9()
    && s == (y4 * X) % P9() && y16 == (y4 * y4) % P9() && (d + d) % P9() == y16 && m2 == (m * m) % P9() && s2 == (s + s) % P9()
    && x3 == (m2 - s2) % P9() && d1 == (s - x3) % P9() && d2 == (d1 * m) % P9() && y3 == (d2 - d) % P9()
}
// ... are congruent to the doubling polynomials, evaluated at anything congruent to the inputs
proof fn j9_dbl_chain(X: int, Y: int, Z: int, a1: int, m: int, y2: int, z3: int, y4: int, s: int, y16: int, d: int, m2: int, s2: int, x3: int, d1: int, d2: int, y3: int, Xp: int, Yp: int, Zp: int)
    requires j9_dbl_rel(X, Y, Z, a1, m, y2, z3, y4, s, y16, d, m2, s2, x3, d1, d2, y3), X % P9() == Xp % P9(), Y % P9() == Yp % P9(), Z % P9() == Zp % P9()
    ensures ({
        let M = (Xp * Xp + Xp * Xp) + Xp * Xp; let Y2 = Yp + Yp; let S = (Y2 * Y2) * Xp; let X3 = M * M - (S + S);
        let D = 8 * ((Yp * Yp) * (Yp * Yp));
        x3 % P9() == X3 % P9() && y3 % P9() == (((S - X3) * M) - D) % P9() && z3 % P9() == (Y2 * Zp) % P9() })
{
    let p = P9();
    let M = (Xp * Xp + Xp * Xp) + Xp * Xp; let Y2 = Yp + Yp; let S = (Y2 * Y2) * Xp; let X3 = M * M - (S + S);
    let D = 8 * ((Yp * Yp) * (Yp * Yp));
    j9_cm(a1, X, X, Xp, Xp);
    let t = (a1 + a1) % p; j9_ca(t, a1, a1, Xp * Xp, Xp * Xp);
    j9_ca(m, t, a1, Xp * Xp + Xp * Xp, Xp * Xp);
    assert(m % p == M % p);
    j9_ca(y2, Y, Y, Yp, Yp);
    j9_cm(z3, y2, Z, Y2, Zp);
    j9_cm(y4, y2, y2, Y2, Y2);
    j9_cm(s, y4, X, Y2 * Y2, Xp);
    j9_cm(y16, y4, y4, Y2 * Y2, Y2 * Y2);
    ring_dbl_half(Yp);
    j9_modmod(d + d);
    j9_cancel2(d, D);
    j9_cm(m2, m, m, M, M);
    j9_ca(s2, s, s, S, S);
    j9_cs(x3, m2, s2, M * M, S + S);
    j9_cs(d1, s, x3, S, X3);
    j9_cm(d2, d1, m, S - X3, M);
    j9_cs(y3, d2, d, (S - X3) * M, D);
}
#[verifier::external_body]
proof fn ring_dbl_x(xa: int, ya: int, z: int, lam: int)
    ensures (lam * lam - xa - xa) * ((((ya * z * z * z) + (ya * z * z * z)) * z) * (((ya * z * z * z) + (ya * z * z * z)) * z)) - ((((xa * z * z) * (xa * z * z) + (xa * z * z) * (xa * z * z)) + (xa * z * z) * (xa * z * z)) * (((xa * z * z) * (xa * z * z) + (xa * z * z) * (xa * z * z)) + (xa * z * z) * (xa * z * z)) - (((((ya * z * z * z) + (ya * z * z * z)) * ((ya * z * z * z) + (ya * z * z * z))) * (xa * z * z)) + ((((ya * z * z * z) + (ya * z * z * z)) * ((ya * z * z * z) + (ya * z * z * z))) * (xa * z * z))))
        == (2 * ya * lam - 3 * xa * xa) * (((z * z * z * z) * (z * z * z * z)) * (2 * ya * lam + 3 * xa * xa))
{ }
#[verifier::external_body]
proof fn ring_dbl_y(xa: int, ya: int, z: int, lam: int, s: int)
    ensures (lam * (xa - s) - ya) * ((((ya * z * z * z) + (ya * z * z * z)) * z) * (((ya * z * z * z) + (ya * z * z * z)) * z) * (((ya * z * z * z) + (ya * z * z * z)) * z)) - (((((((ya * z * z * z) + (ya * z * z * z)) * ((ya * z * z * z) + (ya * z * z * z))) * (xa * z * z)) - ((((xa * z * z) * (xa * z * z) + (xa * z * z) * (xa * z * z)) + (xa * z * z) * (xa * z * z)) * (((xa * z * z) * (xa * z * z) + (xa * z * z) * (xa * z * z)) + (xa * z * z) * (xa * z * z)) - (((((ya * z * z * z) + (ya * z * z * z)) * ((ya * z * z * z) + (ya * z * z * z))) * (xa * z * z)) + ((((ya * z * z * z) + (ya * z * z * z)) * ((ya * z * z * z) + (ya * z * z * z))) * (xa * z * z))))) * (((xa * z * z) * (xa * z * z) + (xa * z * z) * (xa * z * z)) + (xa * z * z) * (xa * z * z))) - (8 * (((ya * z * z * z) * (ya * z * z * z)) * ((ya * z * z * z) * (ya * z * z * z)))))
        == (2 * ya * lam - 3 * xa * xa) * ((z * z * z * z) * (((((ya * z * z * z) + (ya * z * z * z)) * ((ya * z * z * z) + (ya * z * z * z))) * (xa * z * z)) - s * ((((ya * z * z * z) + (ya * z * z * z)) * z) * (((ya * z * z * z) + (ya * z * z * z)) * z)))) - (s * ((((ya * z * z * z) + (ya * z * z * z)) * z) * (((ya * z * z * z) + (ya * z * z * z)) * z)) - ((((xa * z * z) * (xa * z * z) + (xa * z * z) * (xa * z * z)) + (xa * z * z) * (xa * z * z)) * (((xa * z * z) * (xa * z * z) + (xa * z * z) * (xa * z * z)) + (xa * z * z) * (xa * z * z)) - (((((ya * z * z * z) + (ya * z * z * z)) * ((ya * z * z * z) + (ya * z * z * z))) * (xa * z * z)) + ((((ya * z * z * z) + (ya * z * z * z)) * ((ya * z * z * z) + (ya * z * z * z))) * (xa * z * z))))) * (((xa * z * z) * (xa * z * z) + (xa * z * z) * (xa * z * z)) + (xa * z * z) * (xa * z * z))
{ }
#[verifier::external_body]
proof fn ring_dbl_slope(xa: int, ya: int, lam: int, d: int)
    ensures 2 * ya * lam - 3 * xa * xa
        == (lam - (3 * xa * xa) * d) * (2 * ya) + (2 * ya * d - 1) * (3 * xa * xa)
{ }
#[verifier::external_body]
proof fn ring_dbl_half(y: int)
    ensures ((y + y) * (y + y)) * ((y + y) * (y + y))
        == 2 * (8 * ((y * y) * (y * y)))
{ }
// tangent law for a Jacobian input with Z != 0 (pure integer statement); a point of order two (ya == 0) doubles to infinity
proof fn j9_dbl_aff(X: int, Y: int, Z: int, a1: int, m: int, y2: int, z3: int, y4: int, s: int, y16: int, d: int, m2: int, s2: int, x3: int, d1: int, d2: int, y3: int)
    requires 0 <= X < P9(), 0 <= Y < P9(), 0 < Z < P9(), 0 <= x3 < P9(), 0 <= y3 < P9(), 0 <= z3 < P9(),
        j9_dbl_rel(X, Y, Z, a1, m, y2, z3, y4, s, y16, d, m2, s2, x3, d1, d2, y3),
    ensures ({ let q = Pt1::Aff { x: (X * inv_p9(Z) * inv_p9(Z)) % P9(), y: (Y * inv_p9(Z) * inv_p9(Z) * inv_p9(Z)) % P9() }; let w = inv_p9(z3);
        g1_add(q, q) == (if z3 == 0 { Pt1::Inf } else { Pt1::Aff { x: (x3 * w * w) % P9(), y: (y3 * w * w * w) % P9() } }) })
{
    j9_pos(); j9_small(0); j9_small(1); j9_small(2);
    let zi = inv_p9(Z); let xa = (X * zi * zi) % P9(); let ya = (Y * zi * zi * zi) % P9();
    j9_zunit(Z);
    j9_param(X, Y, Z, zi, xa, ya);
    j9_range(X * zi * zi); j9_range(Y * zi * zi * zi);
    j9_small(xa); j9_small(ya);
    let z = Z;
    let Xp = xa * z * z; let Yp = ya * z * z * z;
    let M = (Xp * Xp + Xp * Xp) + Xp * Xp; let Y2 = Yp + Yp; let S = (Y2 * Y2) * Xp; let X3 = M * M - (S + S);
    let D = 8 * ((Yp * Yp) * (Yp * Yp)); let Y3 = ((S - X3) * M) - D;
    let Z3 = Y2 * z;
    j9_dbl_chain(X, Y, Z, a1, m, y2, z3, y4, s, y16, d, m2, s2, x3, d1, d2, y3, Xp, Yp, z);
    assert(x3 % P9() == X3 % P9() && y3 % P9() == Y3 % P9() && z3 % P9() == Z3 % P9());
    j9_small(z3);
    let q = Pt1::Aff { x: xa, y: ya };
    if ya == 0 {
        assert(Yp == 0) by(nonlinear_arith) requires Yp == ya * z * z * z, ya == 0;
        assert(Z3 == 0) by(nonlinear_arith) requires Z3 == (Yp + Yp) * z, Yp == 0;
        assert(z3 == 0);
        assert((ya + ya) % P9() == 0);
        assert(g1_add(q, q) == Pt1::Inf);
    } else {
        // z3 == 2 Y Z is a unit
        j9_nz_mul(ya, z); j9_nz_mul(ya * z, z); j9_nz_mul(ya * z * z, z);
        j9_nz_mul(2, Yp);
        assert(2 * Yp == Yp + Yp);
        j9_nz_mul(Y2, z);
        assert(z3 != 0);
        ax9_inv_p(z3);
        let w = inv_p9(z3);
        j9_cong_mul(z3, Z3, w);
        // the slope: 2 ya lam == 3 xa^2
        j9_nz_mul(2, ya);
        assert(2 * ya == ya + ya);
        ax9_inv_p(2 * ya);
        let dd = inv_p9(2 * ya);
        let lam = ((3 * xa * xa) * dd) % P9();
        j9_modmod((3 * xa * xa) * dd);
        j9_diff(lam, (3 * xa * xa) * dd);
        j9_diff(2 * ya * dd, 1);
        ring_dbl_slope(xa, ya, lam, dd);
        j9_lin2(lam - (3 * xa * xa) * dd, 2 * ya, 2 * ya * dd - 1, 3 * xa * xa);
        let e = 2 * ya * lam - 3 * xa * xa;
        assert(e % P9() == 0);
        // x3 / z3^2
        let sx = (lam * lam - xa - xa) % P9();
        let K = ((z * z * z * z) * (z * z * z * z)) * (2 * ya * lam + 3 * xa * xa);
        ring_dbl_x(xa, ya, z, lam);
        assert((lam * lam - xa - xa) * (Z3 * Z3) - X3 == e * K);
        j9_lin1(e, K);
        j9_diff((lam * lam - xa - xa) * (Z3 * Z3), X3);
        j9_modmod(lam * lam - xa - xa);
        j9_cong_mul(sx, lam * lam - xa - xa, Z3 * Z3);
        j9_div2(x3, sx, Z3, w);
        assert((x3 * w * w) % P9() == sx);
        // y3 / z3^3
        let t = lam * (xa - sx) - ya;
        let K2 = (z * z * z * z) * (S - sx * (Z3 * Z3));
        let e2 = sx * (Z3 * Z3) - X3;
        ring_dbl_y(xa, ya, z, lam, sx);
        assert(t * (Z3 * Z3 * Z3) - Y3 == e * K2 - e2 * M);
        j9_diff(sx * (Z3 * Z3), X3);
        j9_lin2(e, K2, e2, M);
        j9_diff(t * (Z3 * Z3 * Z3), Y3);
        let yr = t % P9();
        j9_modmod(t);
        j9_cong_mul(yr, t, Z3 * Z3 * Z3);
        j9_div3(y3, yr, Z3, w);
        assert((y3 * w * w * w) % P9() == yr);
        assert((ya + ya) % P9() != 0);
        assert(g1_add(q, q) == Pt1::Aff { x: sx, y: yr });
    }
}
// point_double against the group law (the input is not the point at infinity)
proof fn j9_dbl_main(x: Seq<u64>, y: Seq<u64>, z: Seq<u64>, x3: Seq<u64>, y3: Seq<u64>, z3: Seq<u64>, a1: int, m: int, y2: int, y4: int, s: int, y16: int, d: int, m2: int, s2: int, d1: int, d2: int)
    requires canon9(x), canon9(y), canon9(z), canon9(x3), canon9(y3), canon9(z3), val4(z) != 0, on_curve1(abs_pt1(x, y, z)),
        j9_dbl_rel(fe9(x), fe9(y), fe9(z), a1, m, y2, fe9(z3), y4, s, y16, d, m2, s2, fe9(x3), d1, d2, fe9(y3))
    ensures abs_pt1(x3, y3, z3) == g1_add(abs_pt1(x, y, z), abs_pt1(x, y, z)), on_curve1(abs_pt1(x3, y3, z3))
{
    j9_pos(); j9_small(0);
    j9_fe_range(x); j9_fe_range(y); j9_fe_range(z); j9_fe_range(x3); j9_fe_range(y3); j9_fe_range(z3);
    j9_fe_zero(z); j9_fe_zero(z3);
    ax9_g1_closed(abs_pt1(x, y, z), abs_pt1(x, y, z));
    j9_dbl_aff(fe9(x), fe9(y), fe9(z), a1, m, y2, fe9(z3), y4, s, y16, d, m2, s2, fe9(x3), d1, d2, fe9(y3));
}
// ---------------------------------------------------------------- point_add
// the values computed by point_add up to the case distinction on h
spec fn j9_add_rel1(X1: int, Y1: int, Z1: int, X2: int, Y2: int, Z2: int, t1: int, t2: int, u1: int, u2: int, zs: int, zq: int, za: int, zb: int, t1c: int, t2c: int, s1: int, s2: int, h: int, rr: int) -> bool {
    t1 == (Z1 * Z1) % P9() && t2 == (Z2 * Z2) % P9() && u1 == (X1 * t2) % P9() && u2 == (X2 * t1) % P9()
    && zs == (Z1 + Z2) % P9() && zq == (zs * zs) % P9() && za == (zq - t1) % P9() && zb == (za - t2) % P9()
    && t1c == (t1 * Z1) % P9() && t2c == (t2 * Z2) % P9() && s1 == (Y1 * t2c) % P9() && s2 == (Y2 * t1c) % P9()
    && h == (u2 - u1) % P9() && rr == (s2 - s1) % P9()
}
// ... and after it (h != 0)
spec fn j9_add_rel2(u1: int, s1: int, zb: int, h: int, rr: int, z3: int, i2: int, ii: int, jj: int, v: int, r2: int, rq: int, xa: int, v3: int, xb: int, yb: int, sj: int, sj2: int, y3: int, x3: int) -> bool {
    z3 == (zb * h) % P9() && i2 == (h + h) % P9() && ii == (i2 * i2) % P9() && jj == (h * ii) % P9() && v == (u1 * ii) % P9()
    && r2 == (rr + rr) % P9() && rq == (r2 * r2) % P9() && xa == (jj - rq) % P9() && v3 == ((v + v) % P9() + v) % P9() && xb == (v3 + xa) % P9()
    && yb == (r2 * xb) % P9() && sj == (s1 * jj) % P9() && sj2 == (sj + sj) % P9() && y3 == (yb - sj2) % P9() && x3 == (v - xb) % P9()
}
// u1, u2, s1, s2, zb, h, rr in terms of the affine coordinates and t = z1 z2
proof fn j9_add_pre(X1: int, Y1: int, Z1: int, X2: int, Y2: int, Z2: int, t1: int, t2: int, u1: int, u2: int, zs: int, zq: int, za: int, zb: int, t1c: int, t2c: int, s1: int, s2: int, h: int, rr: int,
    x1a: int, y1a: int, x2a: int, y2a: int)
    requires j9_add_rel1(X1, Y1, Z1, X2, Y2, Z2, t1, t2, u1, u2, zs, zq, za, zb, t1c, t2c, s1, s2, h, rr),
        X1 % P9() == (x1a * Z1 * Z1) % P9(), Y1 % P9() == (y1a * Z1 * Z1 * Z1) % P9(), X2 % P9() == (x2a * Z2 * Z2) % P9(), Y2 % P9() == (y2a * Z2 * Z2 * Z2) % P9()
    ensures ({ let t = Z1 * Z2; u1 % P9() == (x1a * t * t) % P9() && u2 % P9() == (x2a * t * t) % P9() && s1 % P9() == (y1a * t * t * t) % P9() && s2 % P9() == (y2a * t * t * t) % P9()
        && zb % P9() == (t + t) % P9() && h % P9() == ((x2a - x1a) * (t * t)) % P9() && rr % P9() == ((y2a - y1a) * (t * t * t)) % P9() })
{
    let t = Z1 * Z2;
    j9_cm(t1, Z1, Z1, Z1, Z1); j9_cm(t2, Z2, Z2, Z2, Z2);
    j9_cm(u1, X1, t2, x1a * Z1 * Z1, Z2 * Z2); ring_add_u1(x1a, Z1, Z2);
    j9_cm(u2, X2, t1, x2a * Z2 * Z2, Z1 * Z1); ring_add_u2(x2a, Z1, Z2);
    j9_ca(zs, Z1, Z2, Z1, Z2);
    j9_cm(zq, zs, zs, Z1 + Z2, Z1 + Z2);
    j9_cs(za, zq, t1, (Z1 + Z2) * (Z1 + Z2), Z1 * Z1);
    j9_cs(zb, za, t2, (Z1 + Z2) * (Z1 + Z2) - Z1 * Z1, Z2 * Z2);
    ring_add_zb(Z1, Z2);
    j9_cm(t1c, t1, Z1, Z1 * Z1, Z1); j9_cm(t2c, t2, Z2, Z2 * Z2, Z2);
    j9_cm(s1, Y1, t2c, y1a * Z1 * Z1 * Z1, (Z2 * Z2) * Z2); ring_add_s1(y1a, Z1, Z2);
    j9_cm(s2, Y2, t1c, y2a * Z2 * Z2 * Z2, (Z1 * Z1) * Z1); ring_add_s2(y2a, Z1, Z2);
    j9_cs(h, u2, u1, x2a * t * t, x1a * t * t); ring_add_h(x1a, x2a, t);
    j9_cs(rr, s2, s1, y2a * t * t * t, y1a * t * t * t); ring_add_r(y1a, y2a, t);
}
// comparing the cross-multiplied coordinates compares the affine coordinates (no curve equation needed)
proof fn j9_add_cmp(X1: int, Y1: int, Z1: int, X2: int, Y2: int, Z2: int, t1: int, t2: int, u1: int, u2: int, zs: int, zq: int, za: int, zb: int, t1c: int, t2c: int, s1: int, s2: int, h: int, rr: int)
    requires 0 <= X1 < P9(), 0 <= Y1 < P9(), 0 < Z1 < P9(), 0 <= X2 < P9(), 0 <= Y2 < P9(), 0 < Z2 < P9(),
        j9_add_rel1(X1, Y1, Z1, X2, Y2, Z2, t1, t2, u1, u2, zs, zq, za, zb, t1c, t2c, s1, s2, h, rr)
    ensures ({
        let x1a = (X1 * inv_p9(Z1) * inv_p9(Z1)) % P9(); let y1a = (Y1 * inv_p9(Z1) * inv_p9(Z1) * inv_p9(Z1)) % P9();
        let x2a = (X2 * inv_p9(Z2) * inv_p9(Z2)) % P9(); let y2a = (Y2 * inv_p9(Z2) * inv_p9(Z2) * inv_p9(Z2)) % P9();
        (h == 0) == (x1a == x2a) && (rr == 0) == (y1a == y2a) && (u1 == u2) == (h == 0) && (s1 == s2) == (rr == 0) })
{
    j9_pos(); j9_small(0);
    let zi1 = inv_p9(Z1); let x1a = (X1 * zi1 * zi1) % P9(); let y1a = (Y1 * zi1 * zi1 * zi1) % P9();
    let zi2 = inv_p9(Z2); let x2a = (X2 * zi2 * zi2) % P9(); let y2a = (Y2 * zi2 * zi2 * zi2) % P9();
    j9_zunit(Z1); j9_zunit(Z2);
    j9_param(X1, Y1, Z1, zi1, x1a, y1a); j9_param(X2, Y2, Z2, zi2, x2a, y2a);
    let t = Z1 * Z2;
    j9_add_pre(X1, Y1, Z1, X2, Y2, Z2, t1, t2, u1, u2, zs, zq, za, zb, t1c, t2c, s1, s2, h, rr, x1a, y1a, x2a, y2a);
    j9_range(X1 * zi1 * zi1); j9_range(X2 * zi2 * zi2); j9_range(Y1 * zi1 * zi1 * zi1); j9_range(Y2 * zi2 * zi2 * zi2);
    j9_small(x1a); j9_small(x2a); j9_small(y1a); j9_small(y2a);
    j9_range(u2 - u1); j9_range(s2 - s1); j9_small(h); j9_small(rr);
    j9_range(X1 * t2); j9_range(X2 * t1); j9_range(Y1 * t2c); j9_range(Y2 * t1c);
    j9_small(u1); j9_small(u2); j9_small(s1); j9_small(s2);
    j9_diff(u2, u1); j9_diff(s2, s1);
    j9_nz_mul(Z1, Z2); j9_nz_mul(t, t); j9_nz_mul(t * t, t);
    let dx = x2a - x1a; let dy = y2a - y1a;
    j9_diff(x2a, x1a); j9_diff(y2a, y1a);
    if dx % P9() != 0 { j9_nz_mul(dx, t * t); } else { assert(dx == 0); assert(dx * (t * t) == 0) by(nonlinear_arith) requires dx == 0; }
    if dy % P9() != 0 { j9_nz_mul(dy, t * t * t); } else { assert(dy == 0); assert(dy * (t * t * t) == 0) by(nonlinear_arith) requires dy == 0; }
}
// the rest of the chain, evaluated at anything congruent to u1, s1, zb, h, rr
proof fn j9_add_chain(u1: int, s1: int, zb: int, h: int, rr: int, z3: int, i2: int, ii: int, jj: int, v: int, r2: int, rq: int, xa: int, v3: int, xb: int, yb: int, sj: int, sj2: int, y3: int, x3: int,
    U1: int, S1: int, ZB: int, H: int, R0: int)
    requires j9_add_rel2(u1, s1, zb, h, rr, z3, i2, ii, jj, v, r2, rq, xa, v3, xb, yb, sj, sj2, y3, x3),
        u1 % P9() == U1 % P9(), s1 % P9() == S1 % P9(), zb % P9() == ZB % P9(), h % P9() == H % P9(), rr % P9() == R0 % P9()
    ensures ({
        let I = (H + H) * (H + H); let J = H * I; let V = U1 * I; let R = R0 + R0; let XB = ((V + V) + V) + (J - R * R);
        x3 % P9() == (V - XB) % P9() && y3 % P9() == (R * XB - ((S1 * J) + (S1 * J))) % P9() && z3 % P9() == (ZB * H) % P9() })
{
    let p = P9();
    let I = (H + H) * (H + H); let J = H * I; let V = U1 * I; let R = R0 + R0; let XB = ((V + V) + V) + (J - R * R);
    j9_cm(z3, zb, h, ZB, H);
    j9_ca(i2, h, h, H, H);
    j9_cm(ii, i2, i2, H + H, H + H);
    j9_cm(jj, h, ii, H, I);
    j9_cm(v, u1, ii, U1, I);
    j9_ca(r2, rr, rr, R0, R0);
    j9_cm(rq, r2, r2, R, R);
    j9_cs(xa, jj, rq, J, R * R);
    let vv = (v + v) % p; j9_ca(vv, v, v, V, V);
    j9_ca(v3, vv, v, V + V, V);
    j9_ca(xb, v3, xa, (V + V) + V, J - R * R);
    j9_cm(yb, r2, xb, R, XB);
    j9_cm(sj, s1, jj, S1, J);
    j9_ca(sj2, sj, sj, S1 * J, S1 * J);
    j9_cs(y3, yb, sj2, R * XB, (S1 * J) + (S1 * J));
    j9_cs(x3, v, xb, V, XB);
}
#[verifier::external_body]
proof fn ring_add_u1(x: int, z1: int, z2: int)
    ensures (x * z1 * z1) * (z2 * z2)
        == x * (z1 * z2) * (z1 * z2)
{ }
#[verifier::external_body]
proof fn ring_add_u2(x: int, z1: int, z2: int)
    ensures (x * z2 * z2) * (z1 * z1)
        == x * (z1 * z2) * (z1 * z2)
{ }
#[verifier::external_body]
proof fn ring_add_s1(y: int, z1: int, z2: int)
    ensures (y * z1 * z1 * z1) * ((z2 * z2) * z2)
        == y * (z1 * z2) * (z1 * z2) * (z1 * z2)
{ }
#[verifier::external_body]
proof fn ring_add_s2(y: int, z1: int, z2: int)
    ensures (y * z2 * z2 * z2) * ((z1 * z1) * z1)
        == y * (z1 * z2) * (z1 * z2) * (z1 * z2)
{ }
#[verifier::external_body]
proof fn ring_add_zb(z1: int, z2: int)
    ensures (z1 + z2) * (z1 + z2) - z1 * z1 - z2 * z2
        == z1 * z2 + z1 * z2
{ }
#[verifier::external_body]
proof fn ring_add_h(x1a: int, x2a: int, t: int)
    ensures (x2a * t * t) - (x1a * t * t)
        == (x2a - x1a) * (t * t)
{ }
#[verifier::external_body]
proof fn ring_add_r(y1a: int, y2a: int, t: int)
    ensures (y2a * t * t * t) - (y1a * t * t * t)
        == (y2a - y1a) * (t * t * t)
{ }
#[verifier::external_body]
proof fn ring_add_slope(dx: int, dy: int, lam: int, d: int)
    ensures lam * dx - dy
        == (lam - dy * d) * dx + (dx * d - 1) * dy
{ }
#[verifier::external_body]
proof fn ring_add_x(x1a: int, y1a: int, x2a: int, y2a: int, t: int, lam: int)
    ensures (lam * lam - x1a - x2a) * (((t + t) * ((x2a * t * t) - (x1a * t * t))) * ((t + t) * ((x2a * t * t) - (x1a * t * t)))) - (((x1a * t * t) * ((((x2a * t * t) - (x1a * t * t)) + ((x2a * t * t) - (x1a * t * t))) * (((x2a * t * t) - (x1a * t * t)) + ((x2a * t * t) - (x1a * t * t))))) - (((((x1a * t * t) * ((((x2a * t * t) - (x1a * t * t)) + ((x2a * t * t) - (x1a * t * t))) * (((x2a * t * t) - (x1a * t * t)) + ((x2a * t * t) - (x1a * t * t))))) + ((x1a * t * t) * ((((x2a * t * t) - (x1a * t * t)) + ((x2a * t * t) - (x1a * t * t))) * (((x2a * t * t) - (x1a * t * t)) + ((x2a * t * t) - (x1a * t * t)))))) + ((x1a * t * t) * ((((x2a * t * t) - (x1a * t * t)) + ((x2a * t * t) - (x1a * t * t))) * (((x2a * t * t) - (x1a * t * t)) + ((x2a * t * t) - (x1a * t * t)))))) + ((((x2a * t * t) - (x1a * t * t)) * ((((x2a * t * t) - (x1a * t * t)) + ((x2a * t * t) - (x1a * t * t))) * (((x2a * t * t) - (x1a * t * t)) + ((x2a * t * t) - (x1a * t * t))))) - (((y2a * t * t * t) - (y1a * t * t * t)) + ((y2a * t * t * t) - (y1a * t * t * t))) * (((y2a * t * t * t) - (y1a * t * t * t)) + ((y2a * t * t * t) - (y1a * t * t * t))))))
        == (lam * (x2a - x1a) - (y2a - y1a)) * ((4 * ((t * t * t) * (t * t * t))) * (lam * (x2a - x1a) + (y2a - y1a)))
{ }
#[verifier::external_body]
proof fn ring_add_y(x1a: int, y1a: int, x2a: int, y2a: int, t: int, lam: int, s: int)
    ensures (lam * (x1a - s) - y1a) * (((t + t) * ((x2a * t * t) - (x1a * t * t))) * ((t + t) * ((x2a * t * t) - (x1a * t * t))) * ((t + t) * ((x2a * t * t) - (x1a * t * t)))) - ((((y2a * t * t * t) - (y1a * t * t * t)) + ((y2a * t * t * t) - (y1a * t * t * t))) * (((((x1a * t * t) * ((((x2a * t * t) - (x1a * t * t)) + ((x2a * t * t) - (x1a * t * t))) * (((x2a * t * t) - (x1a * t * t)) + ((x2a * t * t) - (x1a * t * t))))) + ((x1a * t * t) * ((((x2a * t * t) - (x1a * t * t)) + ((x2a * t * t) - (x1a * t * t))) * (((x2a * t * t) - (x1a * t * t)) + ((x2a * t * t) - (x1a * t * t)))))) + ((x1a * t * t) * ((((x2a * t * t) - (x1a * t * t)) + ((x2a * t * t) - (x1a * t * t))) * (((x2a * t * t) - (x1a * t * t)) + ((x2a * t * t) - (x1a * t * t)))))) + ((((x2a * t * t) - (x1a * t * t)) * ((((x2a * t * t) - (x1a * t * t)) + ((x2a * t * t) - (x1a * t * t))) * (((x2a * t * t) - (x1a * t * t)) + ((x2a * t * t) - (x1a * t * t))))) - (((y2a * t * t * t) - (y1a * t * t * t)) + ((y2a * t * t * t) - (y1a * t * t * t))) * (((y2a * t * t * t) - (y1a * t * t * t)) + ((y2a * t * t * t) - (y1a * t * t * t))))) - (((y1a * t * t * t) * (((x2a * t * t) - (x1a * t * t)) * ((((x2a * t * t) - (x1a * t * t)) + ((x2a * t * t) - (x1a * t * t))) * (((x2a * t * t) - (x1a * t * t)) + ((x2a * t * t) - (x1a * t * t)))))) + ((y1a * t * t * t) * (((x2a * t * t) - (x1a * t * t)) * ((((x2a * t * t) - (x1a * t * t)) + ((x2a * t * t) - (x1a * t * t))) * (((x2a * t * t) - (x1a * t * t)) + ((x2a * t * t) - (x1a * t * t))))))))
        == (lam * (x2a - x1a) - (y2a - y1a)) * (((t * t * t) + (t * t * t)) * (((x1a * t * t) * ((((x2a * t * t) - (x1a * t * t)) + ((x2a * t * t) - (x1a * t * t))) * (((x2a * t * t) - (x1a * t * t)) + ((x2a * t * t) - (x1a * t * t))))) - s * (((t + t) * ((x2a * t * t) - (x1a * t * t))) * ((t + t) * ((x2a * t * t) - (x1a * t * t)))))) - (s * (((t + t) * ((x2a * t * t) - (x1a * t * t))) * ((t + t) * ((x2a * t * t) - (x1a * t * t)))) - (((x1a * t * t) * ((((x2a * t * t) - (x1a * t * t)) + ((x2a * t * t) - (x1a * t * t))) * (((x2a * t * t) - (x1a * t * t)) + ((x2a * t * t) - (x1a * t * t))))) - (((((x1a * t * t) * ((((x2a * t * t) - (x1a * t * t)) + ((x2a * t * t) - (x1a * t * t))) * (((x2a * t * t) - (x1a * t * t)) + ((x2a * t * t) - (x1a * t * t))))) + ((x1a * t * t) * ((((x2a * t * t) - (x1a * t * t)) + ((x2a * t * t) - (x1a * t * t))) * (((x2a * t * t) - (x1a * t * t)) + ((x2a * t * t) - (x1a * t * t)))))) + ((x1a * t * t) * ((((x2a * t * t) - (x1a * t * t)) + ((x2a * t * t) - (x1a * t * t))) * (((x2a * t * t) - (x1a * t * t)) + ((x2a * t * t) - (x1a * t * t)))))) + ((((x2a * t * t) - (x1a * t * t)) * ((((x2a * t * t) - (x1a * t * t)) + ((x2a * t * t) - (x1a * t * t))) * (((x2a * t * t) - (x1a * t * t)) + ((x2a * t * t) - (x1a * t * t))))) - (((y2a * t * t * t) - (y1a * t * t * t)) + ((y2a * t * t * t) - (y1a * t * t * t))) * (((y2a * t * t * t) - (y1a * t * t * t)) + ((y2a * t * t * t) - (y1a * t * t * t))))))) * (((y2a * t * t * t) - (y1a * t * t * t)) + ((y2a * t * t * t) - (y1a * t * t * t)))
{ }
// the chord law for Jacobian inputs with Z1, Z2 != 0 and different affine x (pure integer statement)
proof fn j9_add_aff(X1: int, Y1: int, Z1: int, X2: int, Y2: int, Z2: int, t1: int, t2: int, u1: int, u2: int, zs: int, zq: int, za: int, zb: int, t1c: int, t2c: int, s1: int, s2: int, h: int, rr: int,
    z3: int, i2: int, ii: int, jj: int, v: int, r2: int, rq: int, xa: int, v3: int, xb: int, yb: int, sj: int, sj2: int, y3: int, x3: int)
    requires 0 <= X1 < P9(), 0 <= Y1 < P9(), 0 < Z1 < P9(), 0 <= X2 < P9(), 0 <= Y2 < P9(), 0 < Z2 < P9(), 0 <= x3 < P9(), 0 <= y3 < P9(), 0 <= z3 < P9(), h != 0,
        j9_add_rel1(X1, Y1, Z1, X2, Y2, Z2, t1, t2, u1, u2, zs, zq, za, zb, t1c, t2c, s1, s2, h, rr),
        j9_add_rel2(u1, s1, zb, h, rr, z3, i2, ii, jj, v, r2, rq, xa, v3, xb, yb, sj, sj2, y3, x3),
    ensures z3 != 0, ({
        let a = Pt1::Aff { x: (X1 * inv_p9(Z1) * inv_p9(Z1)) % P9(), y: (Y1 * inv_p9(Z1) * inv_p9(Z1) * inv_p9(Z1)) % P9() };
        let b = Pt1::Aff { x: (X2 * inv_p9(Z2) * inv_p9(Z2)) % P9(), y: (Y2 * inv_p9(Z2) * inv_p9(Z2) * inv_p9(Z2)) % P9() };
        let w = inv_p9(z3);
        g1_add(a, b) == Pt1::Aff { x: (x3 * w * w) % P9(), y: (y3 * w * w * w) % P9() } })
{
    j9_pos(); j9_small(0); j9_small(1); j9_small(2);
    let zi1 = inv_p9(Z1); let x1a = (X1 * zi1 * zi1) % P9(); let y1a = (Y1 * zi1 * zi1 * zi1) % P9();
    let zi2 = inv_p9(Z2); let x2a = (X2 * zi2 * zi2) % P9(); let y2a = (Y2 * zi2 * zi2 * zi2) % P9();
    j9_zunit(Z1); j9_zunit(Z2);
    j9_param(X1, Y1, Z1, zi1, x1a, y1a); j9_param(X2, Y2, Z2, zi2, x2a, y2a);
    let t = Z1 * Z2;
    j9_add_pre(X1, Y1, Z1, X2, Y2, Z2, t1, t2, u1, u2, zs, zq, za, zb, t1c, t2c, s1, s2, h, rr, x1a, y1a, x2a, y2a);
    j9_add_cmp(X1, Y1, Z1, X2, Y2, Z2, t1, t2, u1, u2, zs, zq, za, zb, t1c, t2c, s1, s2, h, rr);
    let U1 = x1a * t * t; let U2 = x2a * t * t; let S1 = y1a * t * t * t; let S2 = y2a * t * t * t;
    let H = U2 - U1; let R0 = S2 - S1; let ZB = t + t; let Z3 = ZB * H;
    let I = (H + H) * (H + H); let J = H * I; let V = U1 * I; let R = R0 + R0;
    let XB = ((V + V) + V) + (J - R * R); let X3 = V - XB; let Y3 = R * XB - ((S1 * J) + (S1 * J));
    ring_add_h(x1a, x2a, t); ring_add_r(y1a, y2a, t);
    j9_add_chain(u1, s1, zb, h, rr, z3, i2, ii, jj, v, r2, rq, xa, v3, xb, yb, sj, sj2, y3, x3, U1, S1, ZB, H, R0);
    assert(x3 % P9() == X3 % P9() && y3 % P9() == Y3 % P9() && z3 % P9() == Z3 % P9());
    j9_range(X1 * zi1 * zi1); j9_range(X2 * zi2 * zi2); j9_range(Y1 * zi1 * zi1 * zi1); j9_range(Y2 * zi2 * zi2 * zi2);
    j9_small(x1a); j9_small(x2a); j9_small(y1a); j9_small(y2a);
    j9_range(u2 - u1); j9_small(h); j9_small(z3);
    let dx = x2a - x1a; let dy = y2a - y1a;
    assert(x1a != x2a);
    // h and z3 are units
    j9_diff(x2a, x1a);
    assert(dx % P9() != 0);
    j9_nz_mul(Z1, Z2);
    j9_nz_mul(2, t); assert(2 * t == t + t);
    assert(H % P9() != 0);
    j9_nz_mul(ZB, H);
    assert(z3 != 0);
    ax9_inv_p(z3);
    let w = inv_p9(z3);
    j9_cong_mul(z3, Z3, w);
    // the slope: lam dx == dy
    ax9_inv_p(dx);
    let d = inv_p9(dx);
    let lam = (dy * d) % P9();
    j9_modmod(dy * d);
    j9_diff(lam, dy * d);
    j9_diff(dx * d, 1);
    ring_add_slope(dx, dy, lam, d);
    j9_lin2(lam - dy * d, dx, dx * d - 1, dy);
    let e = lam * (x2a - x1a) - (y2a - y1a);
    assert(e % P9() == 0);
    // x3 / z3^2
    let s = (lam * lam - x1a - x2a) % P9();
    let K = (4 * ((t * t * t) * (t * t * t))) * (lam * (x2a - x1a) + (y2a - y1a));
    ring_add_x(x1a, y1a, x2a, y2a, t, lam);
    assert((lam * lam - x1a - x2a) * (Z3 * Z3) - X3 == e * K);
    j9_lin1(e, K);
    j9_diff((lam * lam - x1a - x2a) * (Z3 * Z3), X3);
    j9_modmod(lam * lam - x1a - x2a);
    j9_cong_mul(s, lam * lam - x1a - x2a, Z3 * Z3);
    j9_div2(x3, s, Z3, w);
    assert((x3 * w * w) % P9() == s);
    // y3 / z3^3
    let tt = lam * (x1a - s) - y1a;
    let K2 = ((t * t * t) + (t * t * t)) * (V - s * (Z3 * Z3));
    let e2 = s * (Z3 * Z3) - X3;
    ring_add_y(x1a, y1a, x2a, y2a, t, lam, s);
    assert(tt * (Z3 * Z3 * Z3) - Y3 == e * K2 - e2 * R);
    j9_diff(s * (Z3 * Z3), X3);
    j9_lin2(e, K2, e2, R);
    j9_diff(tt * (Z3 * Z3 * Z3), Y3);
    let yr = tt % P9();
    j9_modmod(tt);
    j9_cong_mul(yr, tt, Z3 * Z3 * Z3);
    j9_div3(y3, yr, Z3, w);
    assert((y3 * w * w * w) % P9() == yr);
}
// the case distinction of point_add (both inputs finite)
proof fn j9_add_branch(x1: Seq<u64>, y1: Seq<u64>, z1: Seq<u64>, x2: Seq<u64>, y2: Seq<u64>, z2: Seq<u64>,
    t1: int, t2: int, u1: int, u2: int, zs: int, zq: int, za: int, zb: int, t1c: int, t2c: int, s1: int, s2: int, h: int, rr: int)
    requires canon9(x1), canon9(y1), canon9(z1), canon9(x2), canon9(y2), canon9(z2), val4(z1) != 0, val4(z2) != 0,
        j9_add_rel1(fe9(x1), fe9(y1), fe9(z1), fe9(x2), fe9(y2), fe9(z2), t1, t2, u1, u2, zs, zq, za, zb, t1c, t2c, s1, s2, h, rr)
    ensures (h == 0 && rr == 0) == (abs_pt1(x1, y1, z1) == abs_pt1(x2, y2, z2)), (u1 == u2) == (h == 0), (s1 == s2) == (rr == 0),
        (h == 0) == (pt1_x(abs_pt1(x1, y1, z1)) == pt1_x(abs_pt1(x2, y2, z2))),
        on_curve1(abs_pt1(x1, y1, z1)) && on_curve1(abs_pt1(x2, y2, z2)) && h == 0 && rr != 0 ==> g1_add(abs_pt1(x1, y1, z1), abs_pt1(x2, y2, z2)) == Pt1::Inf,
{
    j9_pos(); j9_small(0);
    j9_fe_range(x1); j9_fe_range(y1); j9_fe_range(z1); j9_fe_range(x2); j9_fe_range(y2); j9_fe_range(z2);
    j9_fe_zero(z1); j9_fe_zero(z2);
    j9_add_cmp(fe9(x1), fe9(y1), fe9(z1), fe9(x2), fe9(y2), fe9(z2), t1, t2, u1, u2, zs, zq, za, zb, t1c, t2c, s1, s2, h, rr);
    let a = abs_pt1(x1, y1, z1); let b = abs_pt1(x2, y2, z2);
    if on_curve1(a) && on_curve1(b) && h == 0 && rr != 0 {
        if (pt1_y(a) + pt1_y(b)) % P9() != 0 { j9_same_x(pt1_x(a), pt1_y(a), pt1_y(b)); }
    }
}
// the generic branch of point_add against the group law
proof fn j9_add_main(x1: Seq<u64>, y1: Seq<u64>, z1: Seq<u64>, x2: Seq<u64>, y2: Seq<u64>, z2: Seq<u64>, x3: Seq<u64>, y3: Seq<u64>, z3: Seq<u64>,
    t1: int, t2: int, u1: int, u2: int, zs: int, zq: int, za: int, zb: int, t1c: int, t2c: int, s1: int, s2: int, h: int, rr: int,
    i2: int, ii: int, jj: int, v: int, r2: int, rq: int, xa: int, v3: int, xb: int, yb: int, sj: int, sj2: int)
    requires canon9(x1), canon9(y1), canon9(z1), canon9(x2), canon9(y2), canon9(z2), canon9(x3), canon9(y3), canon9(z3),
        val4(z1) != 0, val4(z2) != 0, on_curve1(abs_pt1(x1, y1, z1)), on_curve1(abs_pt1(x2, y2, z2)), h != 0,
        j9_add_rel1(fe9(x1), fe9(y1), fe9(z1), fe9(x2), fe9(y2), fe9(z2), t1, t2, u1, u2, zs, zq, za, zb, t1c, t2c, s1, s2, h, rr),
        j9_add_rel2(u1, s1, zb, h, rr, fe9(z3), i2, ii, jj, v, r2, rq, xa, v3, xb, yb, sj, sj2, fe9(y3), fe9(x3)),
    ensures abs_pt1(x3, y3, z3) == g1_add(abs_pt1(x1, y1, z1), abs_pt1(x2, y2, z2)), on_curve1(abs_pt1(x3, y3, z3))
{
    j9_pos(); j9_small(0);
    j9_fe_range(x1); j9_fe_range(y1); j9_fe_range(z1); j9_fe_range(x2); j9_fe_range(y2); j9_fe_range(z2); j9_fe_range(x3); j9_fe_range(y3); j9_fe_range(z3);
    j9_fe_zero(z1); j9_fe_zero(z2); j9_fe_zero(z3);
    ax9_g1_closed(abs_pt1(x1, y1, z1), abs_pt1(x2, y2, z2));
    j9_add_aff(fe9(x1), fe9(y1), fe9(z1), fe9(x2), fe9(y2), fe9(z2), t1, t2, u1, u2, zs, zq, za, zb, t1c, t2c, s1, s2, h, rr,
        fe9(z3), i2, ii, jj, v, r2, rq, xa, v3, xb, yb, sj, sj2, fe9(y3), fe9(x3));
}
// ---------------------------------------------------------------- is_on_curve
// affine form (z == 1): y^2 == x^3 + 5 as the code evaluates it
proof fn j9_affine_rhs(x: int, xx: int, xxx: int, e: int)
    requires xx == (x * x) % P9(), xxx == (xx * x) % P9(), e == (xxx + 5) % P9()
    ensures e == (x * x * x + 5) % P9()
{
    j9_mul(x * x, x);
    j9_add(x * x * x, 5);
}
// Jacobian form: x^3 + 5 z^6 as the code evaluates it
proof fn j9_jac_rhs(x: int, z: int, xx: int, xxx: int, z2: int, z4: int, z6: int, z6b: int, e: int)
    requires xx == (x * x) % P9(), xxx == (xx * x) % P9(), z2 == (z * z) % P9(), z4 == (z2 * z2) % P9(), z6 == (z2 * z4) % P9(), z6b == (z6 * 5) % P9(), e == (xxx + z6b) % P9()
    ensures e == (x * x * x + 0 * x * ((z * z) * (z * z)) + 5 * (((z * z) * (z * z)) * (z * z))) % P9()
{
    let zz2 = z * z; let zz4 = zz2 * zz2; let zz6 = zz4 * zz2;
    j9_mul(x * x, x);
    j9_mul(zz2, zz2);
    j9_mul(zz2, zz4);
    assert(zz2 * zz4 == zz6) by(nonlinear_arith) requires zz4 == zz2 * zz2, zz6 == zz4 * zz2;
    j9_mul(zz6, 5);
    j9_add(x * x * x, zz6 * 5);
    assert(0 * x * zz4 == 0) by(nonlinear_arith);
}
proof fn j9_on_curve_jac(x: Seq<u64>, y: Seq<u64>, z: Seq<u64>, yy: int, xx: int, xxx: int, z2: int, z4: int, z6: int, z6b: int, e: int)
    requires canon9(x), canon9(y), canon9(z), val4(z) != 0, yy == (fe9(y) * fe9(y)) % P9(),
        xx == (fe9(x) * fe9(x)) % P9(), xxx == (xx * fe9(x)) % P9(), z2 == (fe9(z) * fe9(z)) % P9(), z4 == (z2 * z2) % P9(), z6 == (z2 * z4) % P9(), z6b == (z6 * 5) % P9(), e == (xxx + z6b) % P9()
    ensures (yy == e) == on_curve1(abs_pt1(x, y, z))
{
    j9_pos();
    let (X, Y, Z) = (fe9(x), fe9(y), fe9(z));
    j9_fe_range(x); j9_fe_range(y); j9_fe_range(z);
    j9_fe_zero(z);
    j9_zunit(Z);
    let zi = inv_p9(Z);
    j9_jac_rhs(X, Z, xx, xxx, z2, z4, z6, z6b, e);
    j9_jac_equiv(X, Y, Z, zi, 0, 5);
    j9_range(X * zi * zi); j9_range(Y * zi * zi * zi);
    let xa = (X * zi * zi) % P9();
    assert(0 * xa == 0);
}
proof fn j9_on_curve_aff(x: Seq<u64>, y: Seq<u64>, z: Seq<u64>, yy: int, xx: int, xxx: int, e: int)
    requires canon9(x), canon9(y), canon9(z), fe9(z) == 1, yy == (fe9(y) * fe9(y)) % P9(), xx == (fe9(x) * fe9(x)) % P9(), xxx == (xx * fe9(x)) % P9(), e == (xxx + 5) % P9()
    ensures (yy == e) == on_curve1(abs_pt1(x, y, z))
{
    j9_abs_z1(x, y, z);
    j9_affine_rhs(fe9(x), xx, xxx, e);
    j9_fe_range(x); j9_fe_range(y);
}
// ---------------------------------------------------------------- to_affine_point
proof fn j9_affine_xy2(x: int, y: int, zi: int, yz: int, zi2: int, rx: int, ry: int)
    requires yz == (y * zi) % P9(), zi2 == (zi * zi) % P9(), rx == (x * zi2) % P9(), ry == (yz * zi2) % P9()
    ensures rx == (x * zi * zi) % P9(), ry == (y * zi * zi * zi) % P9()
{
    j9_mul(x, zi * zi);
    assert(x * (zi * zi) == x * zi * zi) by(nonlinear_arith);
    j9_mul(y * zi, zi * zi);
    assert((y * zi) * (zi * zi) == y * zi * zi * zi) by(nonlinear_arith);
}
proof fn j9_to_affine(x: Seq<u64>, y: Seq<u64>, z: Seq<u64>, rx: Seq<u64>, ry: Seq<u64>, rz: Seq<u64>, zi: int, yz: int, zi2: int)
    requires canon9(x), canon9(y), canon9(z), canon9(rx), canon9(ry), canon9(rz), fe9(rz) == 1,
        zi == inv_p9(fe9(z)), yz == (fe9(y) * zi) % P9(), zi2 == (zi * zi) % P9(), fe9(rx) == (fe9(x) * zi2) % P9(), fe9(ry) == (yz * zi2) % P9()
    ensures val4(z) != 0 ==> abs_pt1(rx, ry, rz) == abs_pt1(x, y, z) && abs_pt1(x, y, z) == (Pt1::Aff { x: fe9(rx), y: fe9(ry) }),
        val4(z) == 0 ==> fe9(rx) == 0 && fe9(ry) == 0
{
    j9_pos();
    j9_affine_xy2(fe9(x), fe9(y), zi, yz, zi2, fe9(rx), fe9(ry));
    j9_abs_z1(rx, ry, rz);
    if val4(z) == 0 {
        j9_fe_zero(z);
        j9_inv_zero();
        assert(fe9(x) * 0 * 0 == 0 && fe9(y) * 0 * 0 * 0 == 0);
        j9_small(0);
    }
}
// ---------------------------------------------------------------- point_neg
proof fn j9_neg_main(x: Seq<u64>, y: Seq<u64>, z: Seq<u64>, ny: Seq<u64>)
    requires canon9(x), canon9(y), canon9(z), canon9(ny), fe9(ny) == (P9() - fe9(y)) % P9()
    ensures abs_pt1(x, ny, z) == g1_neg(abs_pt1(x, y, z)), on_curve1(abs_pt1(x, y, z)) ==> on_curve1(abs_pt1(x, ny, z))
{
    j9_pos();
    let zi = inv_p9(fe9(z));
    j9_shift(0 - fe9(y), 1);
    assert(0 - fe9(y) + 1 * P9() == P9() - fe9(y));
    j9_neg_y(fe9(y), fe9(ny), zi);
    if on_curve1(abs_pt1(x, y, z)) { j9_neg_props(abs_pt1(x, y, z)); }
}
// ---------------------------------------------------------------- point_equals
// an operand at infinity: the cross products vanish on that side
proof fn j9_eq_inf(X1: int, Y1: int, Z1: int, X2: int, Y2: int, Z2: int, t1: int, t2: int, t3: int, t4: int, t1c: int, t2c: int, t3b: int, t4b: int)
    requires 0 <= X1 < P9(), 0 <= Y1 < P9(), Z1 == 0, 0 <= X2 < P9(), 0 <= Y2 < P9(), 0 <= Z2 < P9(),
        t1 == (Z1 * Z1) % P9(), t2 == (Z2 * Z2) % P9(), t3 == (X1 * t2) % P9(), t4 == (X2 * t1) % P9(),
        t1c == (t1 * Z1) % P9(), t2c == (t2 * Z2) % P9(), t3b == (Y1 * t2c) % P9(), t4b == (Y2 * t1c) % P9()
    ensures t4 == 0, t4b == 0, Z2 == 0 ==> t3 == 0 && t3b == 0, Z2 != 0 ==> (t3 == 0) == (X1 == 0) && (t3b == 0) == (Y1 == 0)
{
    j9_pos(); j9_small(0);
    assert(Z1 * Z1 == 0) by(nonlinear_arith) requires Z1 == 0;
    assert(X2 * 0 == 0 && 0 * Z1 == 0 && Y2 * 0 == 0);
    if Z2 == 0 {
        assert(Z2 * Z2 == 0) by(nonlinear_arith) requires Z2 == 0;
        assert(X1 * 0 == 0 && 0 * Z2 == 0 && Y1 * 0 == 0);
    } else {
        j9_small(Z2); j9_small(X1); j9_small(Y1);
        j9_nz_mul(Z2, Z2);
        j9_mul(Z2 * Z2, Z2);
        j9_nz_mul(Z2 * Z2, Z2);
        j9_mul(X1, Z2 * Z2); j9_mul(Y1, (Z2 * Z2) * Z2);
        j9_modmod(Z2 * Z2);
        j9_modmod((Z2 * Z2) * Z2);
        if X1 != 0 { j9_nz_mul(X1, Z2 * Z2); } else { assert(0 * t2 == 0); }
        if Y1 != 0 { j9_nz_mul(Y1, (Z2 * Z2) * Z2); } else { assert(0 * t2c == 0); }
    }
}
// ---------------------------------------------------------------- signed-window (Booth) recoding of a 256-bit scalar held in four limbs
spec fn j9_p2(n: int) -> int decreases n { if n <= 0 { 1 } else { 2 * j9_p2(n - 1) } }
// bit t of the scalar (0 beyond bit 255)
spec fn bt_bit(a: Seq<u64>, t: int) -> int { if 0 <= t < 256 { ((a[t / 64] >> ((t % 64) as u64)) & 1) as int } else { 0 } }
// the scalar shifted right by t bits
spec fn bt_hi(a: Seq<u64>, t: int) -> int decreases 256 - t { if t < 0 || t >= 256 { 0 } else { bt_bit(a, t) + 2 * bt_hi(a, t + 1) } }
// the value accumulated by a left-to-right signed-window evaluation after the windows i, i+1, ... have been consumed: (k >> w i) + bit (w i - 1) of k
spec fn bt_acc(a: Seq<u64>, w: int, i: int) -> int { if i <= 0 { bt_hi(a, 0) } else { bt_hi(a, w * i) + bt_bit(a, w * i - 1) } }
spec fn bt_base(w: int) -> int { if w == 5 { 32 } else { 128 } }
// the signed digit of window i: acc(i) == 2^w acc(i+1) + digit(i)
spec fn bt_digit(a: Seq<u64>, w: int, i: int) -> int { bt_acc(a, w, i) - bt_base(w) * bt_acc(a, w, i + 1) }
proof fn bt_bit01(a: Seq<u64>, t: int) ensures 0 <= bt_bit(a, t) <= 1
{
    if 0 <= t < 256 { let x = a[t / 64]; let j = (t % 64) as u64; assert((x >> j) & 1 <= 1) by(bit_vector); }
}
proof fn bt_hi_nonneg(a: Seq<u64>, t: int) ensures bt_hi(a, t) >= 0, t >= 256 ==> bt_hi(a, t) == 0 decreases 256 - t
{ if 0 <= t < 256 { bt_hi_nonneg(a, t + 1); bt_bit01(a, t); } }
proof fn bt_unroll(a: Seq<u64>, t: int) requires t >= 0 ensures bt_hi(a, t) == bt_bit(a, t) + 2 * bt_hi(a, t + 1)
{ }
// inside limb q: (k >> (64 q + j)) == (a[q] >> j) + 2^(64-j) (k >> 64 (q+1))
proof fn bt_limb(a: Seq<u64>, q: int, j: int) requires a.len() == 4, 0 <= q < 4, 0 <= j <= 64
    ensures bt_hi(a, 64 * q + j) == (if j == 64 { 0int } else { (a[q] >> (j as u64)) as int }) + j9_p2(64 - j) * bt_hi(a, 64 * (q + 1))
    decreases 64 - j
{
    let b = bt_hi(a, 64 * (q + 1));
    if j == 64 {
        assert(j9_p2(0) == 1);
        assert(64 * q + 64 == 64 * (q + 1));
        assert(1 * b == b);
    } else {
        bt_limb(a, q, j + 1);
        let x = a[q]; let t = 64 * q + j; let ju = j as u64;
        assert(t / 64 == q && t % 64 == j);
        bt_unroll(a, t);
        assert(j9_p2(64 - j) == 2 * j9_p2(63 - j));
        assert((2 * j9_p2(63 - j)) * b == 2 * (j9_p2(63 - j) * b)) by(nonlinear_arith);
        if j == 63 {
            assert((x >> 63u64) & 1 == x >> 63u64) by(bit_vector);
        } else {
            let j1 = (j + 1) as u64;
            assert(x >> ju == ((x >> ju) & 1) + 2 * (x >> j1)) by(bit_vector) requires ju < 63, j1 == ju + 1;
        }
    }
}
proof fn bt_hi_val(a: Seq<u64>) requires a.len() == 4 ensures bt_hi(a, 0) == val4(a)
{
    bt_limb(a, 0, 0); bt_limb(a, 1, 0); bt_limb(a, 2, 0); bt_limb(a, 3, 0);
    bt_hi_nonneg(a, 256);
    assert(j9_p2(64) == 0x1_0000_0000_0000_0000int) by(compute);
    let x0 = a[0]; let x1 = a[1]; let x2 = a[2]; let x3 = a[3];
    assert(x0 >> 0u64 == x0 && x1 >> 0u64 == x1 && x2 >> 0u64 == x2 && x3 >> 0u64 == x3) by(bit_vector);
}
// the accumulator: starts at 0 above the top window, ends at the scalar, never negative
proof fn bt_acc_props5(a: Seq<u64>, i: int) requires a.len() == 4, i >= 0
    ensures bt_acc(a, 5, i) >= 0, bt_acc(a, 5, 0) == val4(a), 5 * i >= 257 ==> bt_acc(a, 5, i) == 0,
        bt_acc(a, 5, i) == bt_base(5) * bt_acc(a, 5, i + 1) + bt_digit(a, 5, i)
{
    bt_hi_val(a);
    bt_hi_nonneg(a, 5 * i); bt_bit01(a, 5 * i - 1); bt_hi_nonneg(a, 0);
}
proof fn bt_acc_props7(a: Seq<u64>, i: int) requires a.len() == 4, i >= 0
    ensures bt_acc(a, 7, i) >= 0, bt_acc(a, 7, 0) == val4(a), 7 * i >= 257 ==> bt_acc(a, 7, i) == 0,
        bt_acc(a, 7, i) == bt_base(7) * bt_acc(a, 7, i + 1) + bt_digit(a, 7, i)
{
    bt_hi_val(a);
    bt_hi_nonneg(a, 7 * i); bt_bit01(a, 7 * i - 1); bt_hi_nonneg(a, 0);
}
// the bits of the window word assembled by sm9_u256_get_booth
proof fn bt_word_bit(x: u64, y: u64, j: u64, m: u64, ored: bool)
    requires j < 64, m <= 7, ored ==> j >= 1
    ensures ({ let wb = if ored { (x >> j) | (y << ((64 - j) as u64)) } else { x >> j };
        (j + m < 64 ==> (wb >> m) & 1 == (x >> ((j + m) as u64)) & 1)
        && (j + m >= 64 && ored ==> (wb >> m) & 1 == (y >> ((j + m - 64) as u64)) & 1)
        && (j + m >= 64 && !ored ==> (wb >> m) & 1 == 0) })
{
    let s = (64 - j) as u64;
    if j + m < 64 {
        let jm = (j + m) as u64;
        assert(((x >> j) >> m) & 1 == (x >> jm) & 1) by(bit_vector) requires j < 64, m <= 7, jm == j + m, jm < 64;
        if ored {
            assert((((x >> j) | (y << s)) >> m) & 1 == (x >> jm) & 1) by(bit_vector) requires 1 <= j < 64, m <= 7, jm == j + m, jm < 64, s == 64 - j;
        }
    } else {
        if ored {
            let jm = (j + m - 64) as u64;
            assert((((x >> j) | (y << s)) >> m) & 1 == (y >> jm) & 1) by(bit_vector) requires 1 <= j < 64, m <= 7, j + m >= 64, jm == j + m - 64, s == 64 - j;
        } else {
            assert(((x >> j) >> m) & 1 == 0) by(bit_vector) requires j < 64, m <= 7, j + m >= 64;
        }
    }
}
// bit number s + m of the scalar is bit m of the window word (s = 64 n + j is the first bit of the word)
proof fn bt_word(a: Seq<u64>, n: int, j: int, m: int, w: int, wb: u64)
    requires a.len() == 4, 0 <= n < 4, 0 <= j < 64, 0 <= m <= w, w == 5 || w == 7,
        wb == (if 64 - j < w + 1 && n < 3 { (a[n] >> (j as u64)) | (a[n + 1] << ((64 - j) as u64)) } else { a[n] >> (j as u64) })
    ensures ((wb >> (m as u64)) & 1) as int == bt_bit(a, 64 * n + j + m)
{
    let t = 64 * n + j + m;
    let ored = 64 - j < w + 1 && n < 3;
    let x = a[n]; let y = if n < 3 { a[n + 1] } else { 0u64 };
    bt_word_bit(x, y, j as u64, m as u64, ored);
    if j + m < 64 {
        assert(t / 64 == n && t % 64 == j + m);
    } else {
        assert(t / 64 == n + 1 && t % 64 == j + m - 64);
        if n < 3 { assert(ored); }
    }
}
proof fn bt_digit5(a: Seq<u64>, i: int, b0: int, b1: int, b2: int, b3: int, b4: int, b5: int)
    requires a.len() == 4, 1 <= i, b0 == bt_bit(a, 5 * i - 1), b1 == bt_bit(a, 5 * i), b2 == bt_bit(a, 5 * i + 1), b3 == bt_bit(a, 5 * i + 2), b4 == bt_bit(a, 5 * i + 3), b5 == bt_bit(a, 5 * i + 4)
    ensures bt_digit(a, 5, i) == (b0 + 2 * b1 + 4 * b2 + 8 * b3 + 16 * b4) - (b1 + 2 * b2 + 4 * b3 + 8 * b4 + 16 * b5)
{
    let t = 5 * i;
    bt_unroll(a, t); bt_unroll(a, t + 1); bt_unroll(a, t + 2); bt_unroll(a, t + 3); bt_unroll(a, t + 4);
    assert(5 * (i + 1) == t + 5 && 5 * (i + 1) - 1 == t + 4);
}
proof fn bt_digit7(a: Seq<u64>, i: int, b0: int, b1: int, b2: int, b3: int, b4: int, b5: int, b6: int, b7: int)
    requires a.len() == 4, 1 <= i, b0 == bt_bit(a, 7 * i - 1), b1 == bt_bit(a, 7 * i), b2 == bt_bit(a, 7 * i + 1), b3 == bt_bit(a, 7 * i + 2), b4 == bt_bit(a, 7 * i + 3), b5 == bt_bit(a, 7 * i + 4),
        b6 == bt_bit(a, 7 * i + 5), b7 == bt_bit(a, 7 * i + 6)
    ensures bt_digit(a, 7, i) == (b0 + 2 * b1 + 4 * b2 + 8 * b3 + 16 * b4 + 32 * b5 + 64 * b6) - (b1 + 2 * b2 + 4 * b3 + 8 * b4 + 16 * b5 + 32 * b6 + 64 * b7)
{
    let t = 7 * i;
    bt_unroll(a, t); bt_unroll(a, t + 1); bt_unroll(a, t + 2); bt_unroll(a, t + 3); bt_unroll(a, t + 4); bt_unroll(a, t + 5); bt_unroll(a, t + 6);
    assert(7 * (i + 1) == t + 7 && 7 * (i + 1) - 1 == t + 6);
}
// what sm9_u256_get_booth returns for a window i >= 1, given the window word
proof fn bt_booth_hi5(a: Seq<u64>, i: int, wb: u64)
    requires a.len() == 4, 1 <= i < 52,
        ({ let s = 5 * i - 1; let n = s / 64; let j = s % 64;
           wb == (if 64 - j < 6 && n < 3 { (a[n] >> (j as u64)) | (a[n + 1] << ((64 - j) as u64)) } else { a[n] >> (j as u64) }) })
    ensures (wb & 31) <= 31, ((wb >> 1) & 31) <= 31, (wb & 31) as int - ((wb >> 1) & 31) as int == bt_digit(a, 5, i), -16 <= bt_digit(a, 5, i) <= 16
{
    let s = 5 * i - 1; let n = s / 64; let j = s % 64;
    assert(0 <= n < 4 && 0 <= j < 64 && 64 * n + j == s);
    bt_word(a, n, j, 0, 5, wb); bt_word(a, n, j, 1, 5, wb); bt_word(a, n, j, 2, 5, wb); bt_word(a, n, j, 3, 5, wb); bt_word(a, n, j, 4, 5, wb); bt_word(a, n, j, 5, 5, wb);
    bt_bit01(a, s); bt_bit01(a, s + 1); bt_bit01(a, s + 2); bt_bit01(a, s + 3); bt_bit01(a, s + 4); bt_bit01(a, s + 5);
    assert(wb & 31 == ((wb >> 0) & 1) + 2 * ((wb >> 1) & 1) + 4 * ((wb >> 2) & 1) + 8 * ((wb >> 3) & 1) + 16 * ((wb >> 4) & 1)) by(bit_vector);
    assert((wb >> 1) & 31 == ((wb >> 1) & 1) + 2 * ((wb >> 2) & 1) + 4 * ((wb >> 3) & 1) + 8 * ((wb >> 4) & 1) + 16 * ((wb >> 5) & 1)) by(bit_vector);
    bt_digit5(a, i, bt_bit(a, s), bt_bit(a, s + 1), bt_bit(a, s + 2), bt_bit(a, s + 3), bt_bit(a, s + 4), bt_bit(a, s + 5));
}
proof fn bt_booth_hi7(a: Seq<u64>, i: int, wb: u64)
    requires a.len() == 4, 1 <= i < 37,
        ({ let s = 7 * i - 1; let n = s / 64; let j = s % 64;
           wb == (if 64 - j < 8 && n < 3 { (a[n] >> (j as u64)) | (a[n + 1] << ((64 - j) as u64)) } else { a[n] >> (j as u64) }) })
    ensures (wb & 127) <= 127, ((wb >> 1) & 127) <= 127, (wb & 127) as int - ((wb >> 1) & 127) as int == bt_digit(a, 7, i), -64 <= bt_digit(a, 7, i) <= 64
{
    let s = 7 * i - 1; let n = s / 64; let j = s % 64;
    assert(0 <= n < 4 && 0 <= j < 64 && 64 * n + j == s);
    bt_word(a, n, j, 0, 7, wb); bt_word(a, n, j, 1, 7, wb); bt_word(a, n, j, 2, 7, wb); bt_word(a, n, j, 3, 7, wb); bt_word(a, n, j, 4, 7, wb); bt_word(a, n, j, 5, 7, wb);
    bt_word(a, n, j, 6, 7, wb); bt_word(a, n, j, 7, 7, wb);
    bt_bit01(a, s); bt_bit01(a, s + 1); bt_bit01(a, s + 2); bt_bit01(a, s + 3); bt_bit01(a, s + 4); bt_bit01(a, s + 5); bt_bit01(a, s + 6); bt_bit01(a, s + 7);
    assert(wb & 127 == ((wb >> 0) & 1) + 2 * ((wb >> 1) & 1) + 4 * ((wb >> 2) & 1) + 8 * ((wb >> 3) & 1) + 16 * ((wb >> 4) & 1) + 32 * ((wb >> 5) & 1) + 64 * ((wb >> 6) & 1)) by(bit_vector);
    assert((wb >> 1) & 127 == ((wb >> 1) & 1) + 2 * ((wb >> 2) & 1) + 4 * ((wb >> 3) & 1) + 8 * ((wb >> 4) & 1) + 16 * ((wb >> 5) & 1) + 32 * ((wb >> 6) & 1) + 64 * ((wb >> 7) & 1)) by(bit_vector);
    bt_digit7(a, i, bt_bit(a, s), bt_bit(a, s + 1), bt_bit(a, s + 2), bt_bit(a, s + 3), bt_bit(a, s + 4), bt_bit(a, s + 5), bt_bit(a, s + 6), bt_bit(a, s + 7));
}
// ... and for the lowest window
proof fn bt_booth_lo(a: Seq<u64>, w: int, mask: u64)
    requires a.len() == 4, (w == 5 && mask == 31) || (w == 7 && mask == 127)
    ensures ((a[0] << 1) & mask) <= mask, (a[0] & mask) <= mask, ((a[0] << 1) & mask) as int - (a[0] & mask) as int == bt_digit(a, w, 0),
        w == 5 ==> -16 <= bt_digit(a, w, 0) <= 16, w == 7 ==> -64 <= bt_digit(a, w, 0) <= 64
{
    let x = a[0];
    bt_unroll(a, 0); bt_unroll(a, 1); bt_unroll(a, 2); bt_unroll(a, 3); bt_unroll(a, 4); bt_unroll(a, 5); bt_unroll(a, 6);
    bt_bit01(a, 0); bt_bit01(a, 1); bt_bit01(a, 2); bt_bit01(a, 3); bt_bit01(a, 4); bt_bit01(a, 5); bt_bit01(a, 6);
    assert(bt_bit(a, 0) == ((x >> 0u64) & 1) as int && bt_bit(a, 1) == ((x >> 1u64) & 1) as int && bt_bit(a, 2) == ((x >> 2u64) & 1) as int && bt_bit(a, 3) == ((x >> 3u64) & 1) as int
        && bt_bit(a, 4) == ((x >> 4u64) & 1) as int && bt_bit(a, 5) == ((x >> 5u64) & 1) as int && bt_bit(a, 6) == ((x >> 6u64) & 1) as int);
    if w == 5 {
        assert((x << 1) & 31 == 2 * ((x >> 0) & 1) + 4 * ((x >> 1) & 1) + 8 * ((x >> 2) & 1) + 16 * ((x >> 3) & 1)) by(bit_vector);
        assert(x & 31 == ((x >> 0) & 1) + 2 * ((x >> 1) & 1) + 4 * ((x >> 2) & 1) + 8 * ((x >> 3) & 1) + 16 * ((x >> 4) & 1)) by(bit_vector);
    } else {
        assert((x << 1) & 127 == 2 * ((x >> 0) & 1) + 4 * ((x >> 1) & 1) + 8 * ((x >> 2) & 1) + 16 * ((x >> 3) & 1) + 32 * ((x >> 4) & 1) + 64 * ((x >> 5) & 1)) by(bit_vector);
        assert(x & 127 == ((x >> 0) & 1) + 2 * ((x >> 1) & 1) + 4 * ((x >> 2) & 1) + 8 * ((x >> 3) & 1) + 16 * ((x >> 4) & 1) + 32 * ((x >> 5) & 1) + 64 * ((x >> 6) & 1)) by(bit_vector);
    }
}
// powers of two used by the fixed-base comb
proof fn j9_p2_step(n: int) requires n >= 0 ensures j9_p2(n + 7) == 128 * j9_p2(n), j9_p2(n) > 0, j9_p2(0) == 1 decreases n
{
    if n > 0 { j9_p2_step(n - 1); }
    assert(j9_p2(n + 7) == 2 * j9_p2(n + 6) && j9_p2(n + 6) == 2 * j9_p2(n + 5) && j9_p2(n + 5) == 2 * j9_p2(n + 4) && j9_p2(n + 4) == 2 * j9_p2(n + 3)
        && j9_p2(n + 3) == 2 * j9_p2(n + 2) && j9_p2(n + 2) == 2 * j9_p2(n + 1) && j9_p2(n + 1) == 2 * j9_p2(n));
}
// ---------------------------------------------------------------- facts about values that are only named in the result expression (quantified over the still unknown limbs)
proof fn j9_zero_all() ensures forall|a: Fp| #![trigger a.val()] a.ok() && a.val() == Fp::s_zero() ==> val4(a@) == 0
{
    assert forall|a: Fp| #![trigger a.val()] a.ok() && a.val() == Fp::s_zero() implies val4(a@) == 0 by { j9_is_zero(a); }
}
proof fn j9_to_affine_one(x: Seq<u64>, y: Seq<u64>, z: Seq<u64>) requires canon9(x), canon9(y), canon9(z)
    ensures val4(z) == val4(SM9_MODP_MONT_ONE@) ==> val4(z) != 0 && abs_pt1(x, y, z) == (Pt1::Aff { x: fe9(x), y: fe9(y) }),
        forall|o: Fp| #![trigger canon9(o@)] canon9(o@) && fe9(o@) == 1 ==> abs_pt1(x, y, o@) == (Pt1::Aff { x: fe9(x), y: fe9(y) })
{
    j9_consts();
    if val4(z) == val4(SM9_MODP_MONT_ONE@) { lemma_val4_inj(z, SM9_MODP_MONT_ONE@); j9_abs_z1(x, y, z); }
    assert forall|o: Fp| #![trigger canon9(o@)] canon9(o@) && fe9(o@) == 1 implies abs_pt1(x, y, o@) == (Pt1::Aff { x: fe9(x), y: fe9(y) }) by { j9_abs_z1(x, y, o@); }
}
proof fn j9_to_affine_all(x: Seq<u64>, y: Seq<u64>, z: Seq<u64>, rx: Seq<u64>, ry: Seq<u64>, zi: int, yz: int, zi2: int)
    requires canon9(x), canon9(y), canon9(z), canon9(rx), canon9(ry),
        zi == inv_p9(fe9(z)), yz == (fe9(y) * zi) % P9(), zi2 == (zi * zi) % P9(), fe9(rx) == (fe9(x) * zi2) % P9(), fe9(ry) == (yz * zi2) % P9()
    ensures val4(z) == 0 ==> fe9(rx) == 0 && fe9(ry) == 0,
        forall|o: Fp| #![trigger canon9(o@)] canon9(o@) && fe9(o@) == 1 && val4(z) != 0 ==> abs_pt1(rx, ry, o@) == abs_pt1(x, y, z) && abs_pt1(x, y, z) == (Pt1::Aff { x: fe9(rx), y: fe9(ry) })
{
    j9_consts();
    j9_to_affine(x, y, z, rx, ry, SM9_MODP_MONT_ONE@, zi, yz, zi2);
    assert forall|o: Fp| #![trigger canon9(o@)] canon9(o@) && fe9(o@) == 1 && val4(z) != 0 implies abs_pt1(rx, ry, o@) == abs_pt1(x, y, z) && abs_pt1(x, y, z) == (Pt1::Aff { x: fe9(rx), y: fe9(ry) }) by {
        j9_to_affine(x, y, z, rx, ry, o@, zi, yz, zi2);
    }
}
proof fn j9_neg_all(x: Seq<u64>, y: Seq<u64>, z: Seq<u64>) requires canon9(x), canon9(y), canon9(z)
    ensures forall|ny: Fp| #![trigger canon9(ny@)] canon9(ny@) && fe9(ny@) == (P9() - fe9(y)) % P9() ==>
        abs_pt1(x, ny@, z) == g1_neg(abs_pt1(x, y, z)) && (on_curve1(abs_pt1(x, y, z)) ==> on_curve1(abs_pt1(x, ny@, z)))
{
    assert forall|ny: Fp| #![trigger canon9(ny@)] canon9(ny@) && fe9(ny@) == (P9() - fe9(y)) % P9() implies
        abs_pt1(x, ny@, z) == g1_neg(abs_pt1(x, y, z)) && (on_curve1(abs_pt1(x, y, z)) ==> on_curve1(abs_pt1(x, ny@, z))) by { j9_neg_main(x, y, z, ny@); }
}
// point_equals: the two comparisons against equality of the abstract points
proof fn j9_eq_main(a: Point, b: Point, t1: int, t2: int, t3: int, t4: int, t1c: int, t2c: int, t3b: int, t4b: int)
    requires wf1(a), wf1(b),
        t1 == (fe9(a.z@) * fe9(a.z@)) % P9(), t2 == (fe9(b.z@) * fe9(b.z@)) % P9(), t3 == (fe9(a.x@) * t2) % P9(), t4 == (fe9(b.x@) * t1) % P9(),
        t1c == (t1 * fe9(a.z@)) % P9(), t2c == (t2 * fe9(b.z@)) % P9(), t3b == (fe9(a.y@) * t2c) % P9(), t4b == (fe9(b.y@) * t1c) % P9()
    ensures t3 != t4 ==> !g1eq_degenerate(a, b) && abs1(a) != abs1(b),
        t3 == t4 && t3b == t4b ==> g1eq_degenerate(a, b) || abs1(a) == abs1(b),
        t3 == t4 && t3b != t4b ==> !g1eq_degenerate(a, b) && abs1(a) != abs1(b),
{
    j9_pos();
    let (X1, Y1, Z1, X2, Y2, Z2) = (fe9(a.x@), fe9(a.y@), fe9(a.z@), fe9(b.x@), fe9(b.y@), fe9(b.z@));
    j9_fe_range(a.x@); j9_fe_range(a.y@); j9_fe_range(a.z@); j9_fe_range(b.x@); j9_fe_range(b.y@); j9_fe_range(b.z@);
    j9_fe_zero(a.x@); j9_fe_zero(a.y@); j9_fe_zero(a.z@); j9_fe_zero(b.x@); j9_fe_zero(b.y@); j9_fe_zero(b.z@);
    if val4(a.z@) == 0 {
        j9_eq_inf(X1, Y1, Z1, X2, Y2, Z2, t1, t2, t3, t4, t1c, t2c, t3b, t4b);
    } else if val4(b.z@) == 0 {
        j9_eq_inf(X2, Y2, Z2, X1, Y1, Z1, t2, t1, t4, t3, t2c, t1c, t4b, t3b);
    } else {
        let zs = (Z1 + Z2) % P9(); let zq = (zs * zs) % P9(); let za = (zq - t1) % P9(); let zb = (za - t2) % P9();
        let h = (t4 - t3) % P9(); let rr = (t4b - t3b) % P9();
        j9_add_branch(a.x@, a.y@, a.z@, b.x@, b.y@, b.z@, t1, t2, t3, t4, zs, zq, za, zb, t1c, t2c, t3b, t4b, h, rr);
    }
}
// ---------------------------------------------------------------- the fixed-base table (value hidden from the solver)
#[verifier::external_body]
proof fn ax_sm9_table(i: int, d: int)
    requires 0 <= i < 37, 1 <= d <= 64
    ensures canon9(SM9_P256_PRECOMPUTED[i][2 * d - 2]@), canon9(SM9_P256_PRECOMPUTED[i][2 * d - 1]@),
        (Pt1::Aff { x: fe9(SM9_P256_PRECOMPUTED[i][2 * d - 2]@), y: fe9(SM9_P256_PRECOMPUTED[i][2 * d - 1]@) }) == g1_smul(d * j9_p2(7 * i), G1P())
{ }
// entry d of row i of the table of points built by g_mul is [(d + 1) 2^(7 i)] P1
spec fn j9_tab_ok(points: Seq<Point>, i: int, d: int) -> bool { valid1(points[d]) && abs1(points[d]) == g1_smul((d + 1) * j9_p2(7 * i), G1P()) }
proof fn j9_tab_entry(x: U256, y: U256, i: int, j: int)
    requires 0 <= i < 37, 0 <= j < 64, x == SM9_P256_PRECOMPUTED[i][2 * j], y == SM9_P256_PRECOMPUTED[i][2 * j + 1]
    ensures forall|o: Fp| #![trigger canon9(o@)] canon9(o@) && fe9(o@) == 1 ==> valid1(Point { x: x, y: y, z: o }) && abs1(Point { x: x, y: y, z: o }) == g1_smul((j + 1) * j9_p2(7 * i), G1P())
{
    ax_sm9_table(i, j + 1);
    j9_g_on_curve();
    j9_smul_closed((j + 1) * j9_p2(7 * i), G1P());
    assert forall|o: Fp| #![trigger canon9(o@)] canon9(o@) && fe9(o@) == 1 implies valid1(Point { x: x, y: y, z: o }) && abs1(Point { x: x, y: y, z: o }) == g1_smul((j + 1) * j9_p2(7 * i), G1P()) by {
        j9_abs_z1(x@, y@, o@);
    }
}
// one step of the fixed-base comb: acc = 128 hi + dg, the accumulated point is [128 pw hi] g, the table entry is [|dg| pw] g
proof fn j9_comb_step(pw: int, hi: int, dg: int, acc: int, g: Pt1)
    requires on_curve1(g), pw > 0, hi >= 0, acc >= 0, acc == 128 * hi + dg
    ensures dg == 0 ==> (128 * pw) * hi == pw * acc,
        dg > 0 ==> g1_add(g1_smul((128 * pw) * hi, g), g1_smul(dg * pw, g)) == g1_smul(pw * acc, g),
        dg < 0 ==> g1_add(g1_smul((128 * pw) * hi, g), g1_neg(g1_smul((-dg) * pw, g))) == g1_smul(pw * acc, g),
        hi == 0 ==> dg >= 0 && dg * pw == pw * acc,
        on_curve1(g1_smul((128 * pw) * hi, g)), on_curve1(g1_smul(pw * acc, g)),
{
    let m = (128 * pw) * hi;
    assert(m >= 0) by(nonlinear_arith) requires m == (128 * pw) * hi, pw > 0, hi >= 0;
    assert(pw * acc == m + dg * pw) by(nonlinear_arith) requires m == (128 * pw) * hi, acc == 128 * hi + dg;
    assert(pw * acc >= 0) by(nonlinear_arith) requires pw > 0, acc >= 0;
    j9_smul_closed(m, g); j9_smul_closed(pw * acc, g);
    if dg > 0 {
        assert(dg * pw >= 0) by(nonlinear_arith) requires dg > 0, pw > 0;
        j9_smul_add(m, dg * pw, g);
    }
    if dg < 0 {
        let j = (-dg) * pw;
        assert(j >= 0 && j == -(dg * pw)) by(nonlinear_arith) requires j == (-dg) * pw, dg < 0, pw > 0;
        j9_smul_sub(m, j, g);
    }
    if hi == 0 { assert(m == 0) by(nonlinear_arith) requires m == (128 * pw) * hi, hi == 0; }
}
