//@unit sm2_rand
//@serves C03 C05 C14 C15 C20
//@source gm-sm2/src/fields/fp64.rs
//@assume rand::thread_rng() is an OS-seeded CSPRNG whose fill_bytes output is uniform and independent (statistical quality is outside this technique); model: fill_bytes is the only function that establishes csprng_bytes(..)
//@assume the rejection loop of random_u256 terminates with probability 1 (exec_allows_no_decreases_clause)
//@rewrite-text ret != [0, 0, 0, 0] ==> shim_u256_ne0(&ret)
//@export csprng_bytes csprng
//@include-spec sm2_math
//@section spec
// provenance predicates: bytes that came out of the CSPRNG / a scalar decoded from such bytes
pub uninterp spec fn csprng_bytes(b: Seq<u8>) -> bool;
pub open spec fn csprng(k: Seq<u64>) -> bool { exists|b: Seq<u8>| #[trigger] csprng_bytes(b) && b.len() == 32 && val4(k) == be_val(b) }
//@section spec local
spec fn lv4(a: U256) -> Seq<u64> { a@ }
#[verifier::external_body]
fn shim_u256_ne0(a: &U256) -> (r: bool) ensures r == (val4(a@) != 0) { *a != [0, 0, 0, 0] }
// model of the rand crate calls the library makes
pub mod rand {
    use super::*;
    pub struct ThreadRng { pub _p: u8 }
    #[verifier::external_body]
    pub fn thread_rng() -> ThreadRng { unimplemented!() }
    impl ThreadRng {
        #[verifier::external_body]
        pub fn fill_bytes(&mut self, buf: &mut [u8])
            ensures final(buf)@.len() == old(buf)@.len(), csprng_bytes(final(buf)@)
        { unimplemented!() }
    }
}
proof fn lemma_rand_consts() ensures val4(SM2_N@) == N() { assert(val4(SM2_N@) == N()) by(compute); }
//@section code gm-sm2/src/u256.rs
type U256 = [u64; 4];
//@stub sm2_limbs u256_cmp
//@stub sm2_limbs u256_from_be_bytes
//@section code gm-sm2/src/fields/fn64.rs
const SM2_N: U256 = [
    0x53bbf40939d54123,
    0x7203df6b21c6052b,
    0xffffffffffffffff,
    0xfffffffeffffffff,
];
//@section code gm-sm2/src/fields/fp64.rs
#[verifier::exec_allows_no_decreases_clause]
fn random_u256() -> (ret: U256)
    ensures 1 <= val4(ret@) < N(), csprng(ret@)
{
    let mut rng = rand::thread_rng();
    let mut buf: [u8; 32] = [0; 32];
    let mut ret;
    loop
        ensures 1 <= val4(lv4(ret)) < N(), csprng(lv4(ret))
    {
        rng.fill_bytes(&mut buf[..]);
        ret = u256_from_be_bytes(&buf);
        proof { lemma_rand_consts(); assert(buf@.subrange(0, 32) =~= buf@); }
        if u256_cmp(&ret, &SM2_N) < 0 && shim_u256_ne0(&ret) {
            break;
        }
    }
    ret
}
