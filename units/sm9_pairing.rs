//@unit sm9_pairing
//@serves C09 C10 C17
//@advisory the pairing is used by C09/C10/C17 through an ASSUMED contract (abstract bilinear symbol e9); this unit only pins down which composition of proved field / point operations the code performs - if that changes, the assumption is no longer backed and the properties are undecided, not violated
//@source gm-sm9/src/points.rs
//@rlimit 10
//@rewrite-text let abits: Vec<char> = ==> let abits: Vec<char> = shim_str_chars(
//@rewrite-text .chars().collect() ==> )
//@assume shim_str_chars: the two rewrite rules together turn `let abits: Vec<char> = "<loop digits>".chars().collect();` into `let abits: Vec<char> = shim_str_chars("<loop digits>");` (str::chars / Iterator::collect are outside the Verus subset); shim_str_chars is an external_body shim whose body is the replaced expression `s.chars().collect()` and whose contract says that the vector holds the characters of the literal (r@ == s@); the literal itself stays the one of /repo
//@assume SCOPE: sm9_u256_pairing, sm9_u256_eval_g_tangent, sm9_u256_eval_g_line, sm9_u256_eval_g_line_no_pre are verified by Verus for every well-formed input (wf2(q), wf1(p): canonical Montgomery limbs; weaker than valid2 / valid1, the points need not be on the curves): no panic, no overflow, every index / callee precondition holds, the Miller loop is a bounded for-loop, the results are well-formed (ok() / wf2). The functional contracts (pr_tangent, pr_line, pr_pre, pr_miller, pr_pairing) state exactly which composition of Fp2 / Fp12 operations, line evaluations, Frobenius-twist maps and the final exponentiation the code computes; they are derived from the structure of the code. That this composition is the R-ate pairing of GM/T 0044.1 (bilinear, non-degenerate), and that the line functions implement doubling / addition on the twist, is NOT proved here (C12 is not claimed). pr_tangent / pr_line / pr_pre are opaque (revealed only inside the function they describe) so that the Miller loop sees one symbol per line evaluation. Companion unit sm9_pairing_safe verifies the same four bodies against well-formedness contracts only, with the callees' value-level postconditions not imported: there a violated safety obligation is reported within seconds, while in this unit a failing variant tends to exhaust the resource limit (undecided), because a counterexample needs Montgomery limbs for every intermediate value
//@include-spec sm2_math
//@include-spec sm9_math
//@include-spec sm9_g1
//@include-spec sm9_g2
//@include-spec sm9_fp2
//@include-spec sm9_fp4
//@include-spec sm9_fp12
//@section spec
use core::fmt::Debug;
// ---------------------------------------------------------------- what the pairing code computes, as a composition of the
// Fp2 operations f2_* (unit sm9_fp2) and the Fp12 operations f12_* (unit sm9_fp12). Values are coefficient vectors (`val()`).
// a Jacobian triple over Fp2
pub struct PrT { pub x: Seq<int>, pub y: Seq<int>, pub z: Seq<int> }
// result of a line evaluation: the new running point and the three coefficients of the sparse line value
pub struct PrL { pub t: PrT, pub l0: Seq<int>, pub l1: Seq<int>, pub l2: Seq<int> }
// the five values precomputed from the point that is added (T) and the affine G1 argument (qx, qy)
pub struct PrP { pub p0: Seq<int>, pub p1: Seq<int>, pub p2: Seq<int>, pub p3: Seq<int>, pub p4: Seq<int> }
// state of the Miller loop: running point, accumulated value in Fp12
pub struct PrS { pub t: PrT, pub f: Seq<int> }
pub open spec fn pr_dbl(a: Seq<int>) -> Seq<int> { f2_add(a, a) }
pub open spec fn pr_sqr(a: Seq<int>) -> Seq<int> { f2_mul(a, a) }
// sm9_u256_eval_g_tangent: doubling step + tangent line at (qx, qy)
#[verifier::opaque]
pub open spec fn pr_tangent(p: PrT, qx: int, qy: int) -> PrL {
    let x = p.x; let y = p.y; let z = p.z;
    let t1 = pr_sqr(z);
    let a = pr_sqr(x);
    let b = pr_sqr(y);
    let c = pr_sqr(b);
    let d = pr_dbl(f2_sub(f2_sub(pr_sqr(f2_add(x, b)), a), c));
    let z3 = f2_sub(f2_sub(pr_sqr(f2_add(y, z)), b), t1);
    let l0a = f2_add(pr_dbl(pr_dbl(b)), a);
    let a3 = f2_add(f2_add(a, a), a);
    let b2 = pr_sqr(a3);
    let x3 = f2_sub(b2, pr_dbl(d));
    let l0b = f2_add(l0a, b2);
    let c8 = pr_dbl(pr_dbl(pr_dbl(c)));
    let y3 = f2_sub(f2_mul(f2_sub(d, x3), a3), c8);
    let l2 = pr_dbl(f2_mul(z3, t1));
    let l1 = f2_neg(pr_dbl(f2_mul(a3, t1)));
    let l0 = f2_sub(pr_sqr(f2_add(x, a3)), l0b);
    PrL { t: PrT { x: x3, y: y3, z: z3 }, l0: l0, l1: f2_scale(l1, qx), l2: f2_scale(l2, qy) }
}
// the precomputation of sm9_u256_eval_g_line_no_pre (and of the head of sm9_u256_pairing) for the point t that is added
#[verifier::opaque]
pub open spec fn pr_pre(t: PrT, qx: int, qy: int) -> PrP {
    let z3 = f2_mul(pr_sqr(t.z), t.z);
    PrP { p0: pr_sqr(t.y), p1: z3, p2: pr_dbl(f2_scale(z3, qy)), p3: f2_neg(pr_dbl(f2_scale(z3, qx))), p4: pr_dbl(f2_mul(t.x, t.z)) }
}
// sm9_u256_eval_g_line: addition step p + t and the line through them, given the precomputed values of t
#[verifier::opaque]
pub open spec fn pr_line(pre: PrP, p: PrT, t: PrT) -> PrL {
    let x1 = p.x; let y1 = p.y; let z1 = p.z; let x2 = t.x; let y2 = t.y; let z2 = t.z;
    let t1 = pr_sqr(z1);
    let t2 = pr_sqr(z2);
    let z3a = f2_sub(f2_sub(pr_sqr(f2_add(z1, z2)), t1), t2);
    let a = f2_mul(x1, t2);
    let b0 = f2_mul(x2, t1);
    let c = pr_dbl(f2_mul(y1, pre.p1));
    let d = f2_mul(f2_sub(f2_sub(pr_sqr(f2_add(y2, z1)), pre.p0), t1), t1);
    let b = f2_sub(b0, a);
    let z3 = f2_mul(z3a, b);
    let t1b = pr_sqr(pr_dbl(b));
    let x3a = f2_mul(b, t1b);
    let y3a = f2_mul(c, x3a);
    let a2 = f2_mul(a, t1b);
    let b2 = f2_sub(d, c);
    let x3 = f2_sub(pr_sqr(b2), f2_add(x3a, pr_dbl(a2)));
    let y3 = f2_sub(f2_mul(f2_sub(a2, x3), b2), y3a);
    let l2 = f2_mul(z3, pre.p2);
    let l1 = f2_mul(b2, pre.p3);
    let l0 = f2_sub(f2_mul(b2, pre.p4), pr_dbl(f2_mul(y2, z3)));
    PrL { t: PrT { x: x3, y: y3, z: z3 }, l0: l0, l1: l1, l2: l2 }
}
pub open spec fn pr_line_no_pre(p: PrT, t: PrT, qx: int, qy: int) -> PrL { pr_line(pr_pre(t, qx, qy), p, t) }
// multiplication of the accumulator by a sparse line value (Fp12::fp_line_mul)
pub open spec fn pr_acc(f: Seq<int>, l: PrL) -> Seq<int> { f12_mul(f, f12_line(l.l0, l.l1, l.l2)) }
// one round of the Miller loop for the digit `bit` ('0', '1' or '2') of the loop parameter: q is the G2 argument, nq its negative,
// pre the precomputed values of q (they serve nq too: the code passes the same array)
pub open spec fn pr_step(s: PrS, bit: char, pre: PrP, q: PrT, nq: PrT, px: int, py: int) -> PrS {
    let tg = pr_tangent(s.t, px, py);
    let f1 = pr_acc(f12_mul(s.f, s.f), tg);
    if bit == '1' { let ln = pr_line(pre, tg.t, q); PrS { t: ln.t, f: pr_acc(f1, ln) } }
    else if bit == '2' { let ln = pr_line(pre, tg.t, nq); PrS { t: ln.t, f: pr_acc(f1, ln) } }
    else { PrS { t: tg.t, f: f1 } }
}
pub open spec fn pr_miller(bits: Seq<char>, n: int, s0: PrS, pre: PrP, q: PrT, nq: PrT, px: int, py: int) -> PrS decreases n {
    if n <= 0 { s0 } else { pr_step(pr_miller(bits, n - 1, s0, pre, q, nq, px, py), bits[n - 1], pre, q, nq, px, py) }
}
// the digits of the loop parameter as they stand in the code (most significant first; '2' stands for -1)
pub open spec fn pr_abits() -> Seq<char> { "00100000000000000000000000000000000000010000101100020200101000020"@ }
pub open spec fn pr_neg(q: PrT) -> PrT { PrT { x: q.x, y: f2_neg(q.y), z: q.z } }
// TwistPoint::point_pi1 / point_neg_pi2 (unit sm9_g2)
pub open spec fn pr_pi1(q: PrT) -> PrT { PrT { x: f2_conj(q.x), y: f2_conj(q.y), z: f2_scale(f2_conj(q.z), PI1C()) } }
pub open spec fn pr_npi2(q: PrT) -> PrT { PrT { x: q.x, y: f2_neg(q.y), z: f2_scale(q.z, PI2C()) } }
// sm9_u256_pairing on the Jacobian triple q (G2 argument) and the affine coordinates (px, py) of the G1 argument ((0, 0) for infinity)
pub open spec fn pr_pairing(q: PrT, px: int, py: int) -> Seq<int> {
    let s = pr_miller(pr_abits(), pr_abits().len() as int, PrS { t: q, f: f12_one() }, pr_pre(q, px, py), q, pr_neg(q), px, py);
    let a = pr_line_no_pre(s.t, pr_pi1(q), px, py);
    let f1 = pr_acc(s.f, a);
    let b = pr_line_no_pre(a.t, pr_npi2(q), px, py);
    f12_fexp(pr_acc(f1, b))
}
// the views of the code's data
spec fn pr_tv(t: TwistPoint) -> PrT { PrT { x: t.x.val(), y: t.y.val(), z: t.z.val() } }
spec fn pr_out(r: TwistPoint, lw: [Fp2; 3]) -> PrL { PrL { t: pr_tv(r), l0: lw[0].val(), l1: lw[1].val(), l2: lw[2].val() } }
spec fn pr_prev(pre: [Fp2; 5]) -> PrP { PrP { p0: pre[0].val(), p1: pre[1].val(), p2: pre[2].val(), p3: pre[3].val(), p4: pre[4].val() } }
spec fn pr_ok3(lw: [Fp2; 3]) -> bool { lw[0].ok() && lw[1].ok() && lw[2].ok() }
spec fn pr_ok5(pre: [Fp2; 5]) -> bool { pre[0].ok() && pre[1].ok() && pre[2].ok() && pre[3].ok() && pre[4].ok() }
//@section code gm-sm9/src/u256.rs
type U256 = [u64; 4];
//@section code gm-sm9/src/fields/fp.rs
type Fp = U256;
//@stub-trait sm9_fp FieldElement
//@section code gm-sm9/src/fields/fp2.rs
#[derive(Debug, Copy, Clone)]
struct Fp2 {
    c0: Fp,
    c1: Fp,
}
impl Eq for Fp2 {}
//@stub sm9_fp2 Fp2::eq
//@stub-trait sm9_fp2 FieldElement
//@stub sm9_fp2 Fp2::fp_mul_fp
//@section code gm-sm9/src/fields/fp4.rs
#[derive(Debug, Copy, Clone)]
struct Fp4 {
    c0: Fp2,
    c1: Fp2,
}
impl Eq for Fp4 {}
//@stub sm9_fp4 Fp4::eq
//@stub-trait sm9_fp4 FieldElement
//@section code gm-sm9/src/fields/fp12.rs
#[derive(Debug, Copy, Clone)]
struct Fp12 {
    c0: Fp4,
    c1: Fp4,
    c2: Fp4,
}
impl Eq for Fp12 {}
//@stub sm9_fp12 Fp12::eq
//@stub-trait sm9_fp12 FieldElement
//@stub sm9_fp12 Fp12::fp_line_mul
//@stub sm9_fp12 Fp12::final_exponent
//@section code gm-sm9/src/points.rs
#[derive(Copy, Debug, Clone)]
struct Point {
    x: Fp,
    y: Fp,
    z: Fp,
}
#[derive(Copy, Debug, Clone)]
struct TwistPoint {
    x: Fp2,
    y: Fp2,
    z: Fp2,
}
//@section code gm-sm9/src/lib.rs
//@extract gm-sm9/src/lib.rs SM9_TWIST_POINT_MONT_P2
//@section code gm-sm9/src/points.rs
//@stub sm9_g1 Point::to_affine_point
//@stub sm9_g2 TwistPoint::point_neg
//@stub sm9_g2 TwistPoint::point_pi1
//@stub sm9_g2 TwistPoint::point_neg_pi2
//@section spec local
// the declared replacement of `"<digits>".chars().collect()` (see the //@rewrite-text / //@assume lines)
#[verifier::external_body]
fn shim_str_chars(s: &str) -> (r: Vec<char>) ensures r@ == s@ { s.chars().collect() }
use vstd::std_specs::cmp::PartialEqSpec;
impl vstd::std_specs::cmp::PartialEqSpecImpl for Fp2 {
    open spec fn obeys_eq_spec() -> bool { true }
    closed spec fn eq_spec(&self, other: &Self) -> bool { self.c0@ == other.c0@ && self.c1@ == other.c1@ }
}
spec fn pr_eq4(a: Fp4, b: Fp4) -> bool { a.c0.c0@ == b.c0.c0@ && a.c0.c1@ == b.c0.c1@ && a.c1.c0@ == b.c1.c0@ && a.c1.c1@ == b.c1.c1@ }
impl vstd::std_specs::cmp::PartialEqSpecImpl for Fp4 {
    open spec fn obeys_eq_spec() -> bool { true }
    closed spec fn eq_spec(&self, other: &Self) -> bool { pr_eq4(*self, *other) }
}
impl vstd::std_specs::cmp::PartialEqSpecImpl for Fp12 {
    open spec fn obeys_eq_spec() -> bool { true }
    closed spec fn eq_spec(&self, other: &Self) -> bool { pr_eq4(self.c0, other.c0) && pr_eq4(self.c1, other.c1) && pr_eq4(self.c2, other.c2) }
}
// the contracts of unit sm9_g2 speak about decoded pairs f2v(a) = (c0, c1); the trait contracts about vectors a.val() = [c0, c1]
proof fn pr_br_neg(a: Fp2, b: Fp2) requires f2v(b) == m2_neg(f2v(a)) ensures b.val() == f2_neg(a.val())
{ assert(b.val() =~= f2_neg(a.val())); }
proof fn pr_br_conj(a: Fp2, b: Fp2) requires f2v(b) == m2_conj(f2v(a)) ensures b.val() == f2_conj(a.val())
{ assert(b.val() =~= f2_conj(a.val())); }
proof fn pr_br_scale(a: Fp2, b: Fp2, k: int) requires f2v(b) == m2_scale(f2v(a), k) ensures b.val() == f2_scale(a.val(), k)
{ assert(b.val() =~= f2_scale(a.val(), k)); }
proof fn pr_br_conj_scale(a: Fp2, b: Fp2, k: int) requires f2v(b) == m2_scale(m2_conj(f2v(a)), k) ensures b.val() == f2_scale(f2_conj(a.val()), k)
{ assert(b.val() =~= f2_scale(f2_conj(a.val()), k)); }
// the affine G1 argument handed to the line functions: the coordinates of the denoted point ((0, 0) for the point at infinity)
proof fn pr_affine(p: Point, a: Point)
    requires val4(p.z@) != 0 ==> abs1(p) == (Pt1::Aff { x: fe9(a.x@), y: fe9(a.y@) }), val4(p.z@) == 0 ==> fe9(a.x@) == 0 && fe9(a.y@) == 0
    ensures fe9(a.x@) == pt1_x(abs1(p)), fe9(a.y@) == pt1_y(abs1(p))
{ }
//@section code gm-sm9/src/points.rs
#[verifier::spinoff_prover]
fn sm9_u256_pairing(q: &TwistPoint, p: &Point) -> (r: Fp12)
    requires wf2(*q), wf1(*p)
    ensures r.ok(), r.val() == pr_pairing(pr_tv(*q), pt1_x(abs1(*p)), pt1_y(abs1(*p)))
{
    let abits: Vec<char> = shim_str_chars("00100000000000000000000000000000000000010000101100020200101000020"
        )
        ;

    let mut pre: [Fp2; 5] = [Fp2::zero(); 5];
    let mut t = TwistPoint {
        x: q.x.clone(),
        y: q.y.clone(),
        z: q.z.clone(),
    };

    let mut lw: [Fp2; 3] = [Fp2::zero(); 3];

    let p_affine = p.to_affine_point();
    let mut q1 = q.point_neg();
    let ghost px = fe9(p_affine.x@);
    let ghost py = fe9(p_affine.y@);
    let ghost qv = pr_tv(*q);
    let ghost nq = pr_tv(q1);
    proof { pr_affine(*p, p_affine); pr_br_neg(q.y, q1.y); assert(nq == pr_neg(qv)); assert(pr_tv(t) == qv); }

    pre[0] = q.y.fp_sqr();
    pre[4] = q.x.fp_mul(&q.z);
    pre[4] = pre[4].fp_double();
    pre[1] = q.z.fp_sqr();
    pre[1] = q.z.fp_mul(&pre[1]);
    proof { f2_lemma_mul_comm(qv.z, pr_sqr(qv.z)); }
    pre[2] = pre[1].fp_mul_fp(&p_affine.y);
    pre[2] = pre[2].fp_double();
    pre[3] = pre[1].fp_mul_fp(&p_affine.x);
    pre[3] = pre[3].fp_double();
    pre[3] = pre[3].fp_neg();
    let mut r = Fp12::one();
    let ghost pv = pr_prev(pre);
    let ghost s0 = PrS { t: qv, f: f12_one() };
    proof { reveal(pr_pre); assert(pv == pr_pre(qv, px, py)); }
    for i in it: 0..abits.len()
        invariant wf2(t), r.ok(), wf2(*q), wf2(q1), wf1(p_affine), pr_ok5(pre), pr_prev(pre) == pv,
            px == fe9(p_affine.x@), py == fe9(p_affine.y@), qv == pr_tv(*q), nq == pr_tv(q1),
            (PrS { t: pr_tv(t), f: r.val() }) == pr_miller(abits@, it.index@ as int, s0, pv, qv, nq, px, py),
    {
        r = r.fp_sqr();
        t = sm9_u256_eval_g_tangent(&mut lw, &t, &p_affine);
        r = r.fp_line_mul(&lw);
        if abits[i] == '1' {
            t = sm9_u256_eval_g_line(&mut lw, &pre, &t, &q, &p_affine);
            r = r.fp_line_mul(&lw);
        } else if abits[i] == '2' {
            t = sm9_u256_eval_g_line(&mut lw, &pre, &t, &q1, &p_affine);
            r = r.fp_line_mul(&lw);
        }
    }
    let ghost sm = PrS { t: pr_tv(t), f: r.val() };
    proof { assert(sm == pr_miller(pr_abits(), pr_abits().len() as int, s0, pv, qv, nq, px, py)); }

    q1 = q.point_pi1();
    let q2 = q.point_neg_pi2();
    proof {
        pr_br_conj(q.x, q1.x); pr_br_conj(q.y, q1.y); pr_br_conj_scale(q.z, q1.z, PI1C());
        pr_br_neg(q.y, q2.y); pr_br_scale(q.z, q2.z, PI2C());
        assert(pr_tv(q1) == pr_pi1(qv));
        assert(pr_tv(q2) == pr_npi2(qv));
    }
    t = sm9_u256_eval_g_line_no_pre(&mut lw, &t, &q1, &p_affine);
    r = r.fp_line_mul(&lw);

    t = sm9_u256_eval_g_line_no_pre(&mut lw, &t, &q2, &p_affine);
    r = r.fp_line_mul(&lw);

    r = r.final_exponent();
    r
}

#[verifier::spinoff_prover]
fn sm9_u256_eval_g_line_no_pre(
    lw: &mut [Fp2; 3],
    p: &TwistPoint,
    t: &TwistPoint,
    q: &Point,
) -> (r: TwistPoint)
    requires wf2(*p), wf2(*t), wf1(*q)
    ensures wf2(r), pr_ok3(*final(lw)), pr_out(r, *final(lw)) == pr_line_no_pre(pr_tv(*p), pr_tv(*t), fe9(q.x@), fe9(q.y@))
{
    let x1 = p.x;
    let y1 = p.y;
    let z1 = p.z;
    let x2 = t.x;
    let y2 = t.y;
    let z2 = t.z;

    let mut pre: [Fp2; 5] = [Fp2::zero(); 5];
    pre[0] = t.y.fp_sqr();
    pre[4] = t.x.fp_mul(&t.z);
    pre[4] = pre[4].fp_double();
    pre[1] = t.z.fp_sqr();
    pre[1] = pre[1].fp_mul(&t.z);
    pre[2] = pre[1].fp_mul_fp(&q.y);
    pre[2] = pre[2].fp_double();
    pre[3] = pre[1].fp_mul_fp(&q.x);
    pre[3] = pre[3].fp_double();
    pre[3] = pre[3].fp_neg();
    proof { reveal(pr_pre); assert(pr_prev(pre) == pr_pre(pr_tv(*t), fe9(q.x@), fe9(q.y@))); }

    let mut t1 = z1.fp_sqr();
    let mut t2 = z2.fp_sqr();
    let mut z3 = z1.fp_add(&z2);
    z3 = z3.fp_sqr();
    z3 = z3.fp_sub(&t1);
    z3 = z3.fp_sub(&t2);

    let mut a = x1.fp_mul(&t2);
    let mut b = x2.fp_mul(&t1);
    let mut c = y1.fp_mul(&pre[1]);
    c = c.fp_double();
    let mut d = y2.fp_add(&z1);
    d = d.fp_sqr();
    d = d.fp_sub(&pre[0]);
    d = d.fp_sub(&t1);
    d = d.fp_mul(&t1);
    b = b.fp_sub(&a);

    z3 = z3.fp_mul(&b);
    t1 = b.fp_double();
    t1 = t1.fp_sqr();

    let mut x3 = b.fp_mul(&t1);
    let mut y3 = c.fp_mul(&x3);
    a = a.fp_mul(&t1);
    b = d.fp_sub(&c);
    t2 = a.fp_double();
    x3 = x3.fp_add(&t2);
    t2 = b.fp_sqr();
    x3 = t2.fp_sub(&x3);
    t2 = a.fp_sub(&x3);
    t2 = t2.fp_mul(&b);
    y3 = t2.fp_sub(&y3);

    lw[2] = z3.fp_mul(&pre[2]);
    lw[1] = b.fp_mul(&pre[3]);
    b = b.fp_mul(&pre[4]);

    lw[0] = y2.fp_mul(&z3);
    lw[0] = lw[0].fp_double();
    lw[0] = b.fp_sub(&lw[0]);
    proof { reveal(pr_line); }
    TwistPoint {
        x: x3,
        y: y3,
        z: z3,
    }
}

#[verifier::spinoff_prover]
fn sm9_u256_eval_g_line(
    lw: &mut [Fp2; 3],
    pre: &[Fp2; 5],
    p: &TwistPoint,
    t: &TwistPoint,
    q: &Point,
) -> (r: TwistPoint)
    requires wf2(*p), wf2(*t), pr_ok5(*pre)
    ensures wf2(r), pr_ok3(*final(lw)), pr_out(r, *final(lw)) == pr_line(pr_prev(*pre), pr_tv(*p), pr_tv(*t))
{
    let x1 = p.x;
    let y1 = p.y;
    let z1 = p.z;
    let x2 = t.x;
    let y2 = t.y;
    let z2 = t.z;

    let mut t1 = z1.fp_sqr();
    let mut t2 = z2.fp_sqr();
    let mut z3 = z1.fp_add(&z2);
    z3 = z3.fp_sqr();
    z3 = z3.fp_sub(&t1);
    z3 = z3.fp_sub(&t2);

    let mut a = x1.fp_mul(&t2);
    let mut b = x2.fp_mul(&t1);
    let mut c = y1.fp_mul(&pre[1]);
    c = c.fp_double();

    let mut d = y2.fp_add(&z1);
    d = d.fp_sqr();
    d = d.fp_sub(&pre[0]);
    d = d.fp_sub(&t1);
    d = d.fp_mul(&t1);
    b = b.fp_sub(&a);
    z3 = z3.fp_mul(&b);
    t1 = b.fp_double();
    t1 = t1.fp_sqr();

    let mut x3 = b.fp_mul(&t1);
    let mut y3 = c.fp_mul(&x3);
    a = a.fp_mul(&t1);
    b = d.fp_sub(&c);
    t2 = a.fp_double();
    x3 = x3.fp_add(&t2);
    t2 = b.fp_sqr();
    x3 = t2.fp_sub(&x3);
    t2 = a.fp_sub(&x3);
    t2 = t2.fp_mul(&b);
    y3 = t2.fp_sub(&y3);

    lw[2] = z3.fp_mul(&pre[2]);
    lw[1] = b.fp_mul(&pre[3]);
    b = b.fp_mul(&pre[4]);

    lw[0] = y2.fp_mul(&z3);
    lw[0] = lw[0].fp_double();
    lw[0] = b.fp_sub(&lw[0]);

    proof { reveal(pr_line); }
    TwistPoint {
        x: x3,
        y: y3,
        z: z3,
    }
}

#[verifier::spinoff_prover]
fn sm9_u256_eval_g_tangent(lw: &mut [Fp2; 3], p: &TwistPoint, q: &Point) -> (r: TwistPoint)
    requires wf2(*p), wf1(*q)
    ensures wf2(r), pr_ok3(*final(lw)), pr_out(r, *final(lw)) == pr_tangent(pr_tv(*p), fe9(q.x@), fe9(q.y@))
{
    let x = p.x;
    let y = p.y;
    let z = p.z;

    let t1 = z.fp_sqr();
    let mut a = x.fp_sqr();
    let mut b = y.fp_sqr();
    let mut c = b.fp_sqr();
    let mut d = x.fp_add(&b);
    d = d.fp_sqr();
    d = d.fp_sub(&a);
    d = d.fp_sub(&c);
    d = d.fp_double();
    let mut z3 = y.fp_add(&z);
    z3 = z3.fp_sqr();
    z3 = z3.fp_sub(&b);
    z3 = z3.fp_sub(&t1);

    lw[0] = b.fp_double();
    lw[0] = lw[0].fp_double();
    lw[0] = lw[0].fp_add(&a);
    a = a.fp_triple();
    b = a.fp_sqr();

    let mut x3 = d.fp_double();
    x3 = b.fp_sub(&x3);
    lw[0] = lw[0].fp_add(&b);

    let mut y3 = d.fp_sub(&x3);
    y3 = y3.fp_mul(&a);
    c = c.fp_double().fp_double().fp_double();
    y3 = y3.fp_sub(&c);

    lw[2] = z3.fp_mul(&t1);
    lw[2] = lw[2].fp_double();

    lw[1] = a.fp_mul(&t1);
    lw[1] = lw[1].fp_double();
    lw[1] = lw[1].fp_neg();

    a = x.fp_add(&a);
    a = a.fp_sqr();
    lw[0] = a.fp_sub(&lw[0]);
    lw[1] = lw[1].fp_mul_fp(&q.x);
    lw[2] = lw[2].fp_mul_fp(&q.y);

    proof { reveal(pr_tangent); }
    TwistPoint {
        x: x3,
        y: y3,
        z: z3,
    }
}
