//@unit sm2_fp
//@serves C03 C04 C05 C06 C11 C15 C19 C20
//@source gm-sm2/src/fields/fp64.rs
//@assume rewrite: `u64::from(carry)` on a bool is the cast `carry as u64` (0 for false, 1 for true; core's `impl From<bool> for u64` is exactly this cast, vstd has no spec for it) - declared textual rewrite, one site in fp_div2
//@rewrite-text u64::from(carry) ==> (carry as u64)
//@include-spec sm2_math
//@section spec
use core::fmt::Debug;
//@section code gm-sm2/src/u256.rs
type U256 = [u64; 4];
type U512 = [u64; 8];
const SM2_ZERO: U256 = [0, 0, 0, 0];
const SM2_ONE: U256 = [1, 0, 0, 0];
//@stub sm2_limbs u256_add
//@stub sm2_limbs u512_add
//@stub sm2_limbs u256_sub
//@stub sm2_limbs u256_mul
//@stub sm2_limbs u256_cmp
//@stub sm2_limbs u256_to_be_bytes
//@stub sm2_limbs u256_from_be_bytes
//@section code gm-sm2/src/fields.rs
trait FieldModOperation: Sized + Copy + Clone + PartialEq + Eq + Debug {
    spec fn lv(&self) -> Seq<u64>;
    fn zero() -> (r: Self)
        ensures r.lv() =~= seq![0u64, 0u64, 0u64, 0u64];
    fn one() -> (r: Self)
        ensures r.lv() =~= seq![1u64, 0u64, 0u64, 0u64];
    fn is_zero(&self) -> (r: bool)
        requires self.lv().len() == 4
        ensures r == (val4(self.lv()) == 0);
    fn fp_sqr(&self) -> (r: Self)
        requires canon(self.lv())
        ensures canon(r.lv()), fe(r.lv()) == (fe(self.lv()) * fe(self.lv())) % P();
    fn fp_double(&self) -> (r: Self)
        requires canon(self.lv())
        ensures canon(r.lv()), fe(r.lv()) == (2 * fe(self.lv())) % P();
    fn fp_triple(&self) -> (r: Self)
        requires canon(self.lv())
        ensures canon(r.lv()), fe(r.lv()) == (3 * fe(self.lv())) % P();
    fn fp_add(&self, rhs: &Self) -> (r: Self)
        requires canon(self.lv()), canon(rhs.lv())
        ensures canon(r.lv()), val4(r.lv()) == (val4(self.lv()) + val4(rhs.lv())) % P(), fe(r.lv()) == (fe(self.lv()) + fe(rhs.lv())) % P();
    fn fp_sub(&self, rhs: &Self) -> (r: Self)
        requires canon(self.lv()) || val4(self.lv()) == P(), self.lv().len() == 4, canon(rhs.lv())
        ensures canon(r.lv()) || (val4(self.lv()) == P() && val4(rhs.lv()) == 0 && val4(r.lv()) == P()),
            val4(r.lv()) % P() == (val4(self.lv()) - val4(rhs.lv())) % P(), fe(r.lv()) == (fe(self.lv()) - fe(rhs.lv())) % P();
    fn fp_mul(&self, rhs: &Self) -> (r: Self)
        requires canon(self.lv()), canon(rhs.lv())
        ensures canon(r.lv()), fe(r.lv()) == (fe(self.lv()) * fe(rhs.lv())) % P();
    fn fp_neg(&self) -> (r: Self)
        requires canon(self.lv())
        ensures canon(r.lv()), fe(r.lv()) == (P() - fe(self.lv())) % P();
    fn fp_div2(&self) -> (r: Self)
        requires canon(self.lv())
        ensures canon(r.lv()), (2 * fe(r.lv())) % P() == fe(self.lv());
    fn fp_inv(&self) -> (r: Self)
        requires canon(self.lv())
        ensures canon(r.lv()), fe(r.lv()) == inv_p(fe(self.lv()));
    fn to_byte_be(&self) -> (r: Vec<u8>)
        requires self.lv().len() == 4
        ensures r@ == be_bytes(val4(self.lv()), 32);
    fn from_byte_be(input: &[u8]) -> (r: Self)
        requires input@.len() >= 32
        ensures r.lv().len() == 4, val4(r.lv()) == be_val(input@.subrange(0, 32));
}
//@section code gm-sm2/src/fields/fp64.rs
const SM2_P: U256 = [
    0xffffffffffffffff,
    0xffffffff00000000,
    0xffffffffffffffff,
    0xfffffffeffffffff,
];

const SM2_P_MINUS_ONE: U256 = [
    0xfffffffffffffffe,
    0xffffffff00000000,
    0xffffffffffffffff,
    0xfffffffeffffffff,
];

const SM2_P_MINUS_TWO: U256 = [
    0xfffffffffffffffd,
    0xffffffff00000000,
    0xffffffffffffffff,
    0xfffffffeffffffff,
];

const SM2_P_PRIME: U256 = [
    0x0000000000000001,
    0xffffffff00000001,
    0xfffffffe00000000,
    0xfffffffc00000001,
];

const SM2_MODP_2E512: U256 = [
    0x0000000200000003,
    0x00000002ffffffff,
    0x0000000100000001,
    0x0000000400000002,
];

const SM2_SQRT_EXP: U256 = [
    0x4000000000000000,
    0xffffffffc0000000,
    0xffffffffffffffff,
    0x3fffffffbfffffff,
];

const SM2_MODP_MONT_ONE: U256 = [1, 0xffffffff, 0, 0x100000000];

const SM2_MODP_MONT_B: U256 = [
    0x90d230632bc0dd42,
    0x71cf379ae9b537ab,
    0x527981505ea51c3c,
    0x240fe188ba20e2c8,
];

const SM2_MODP_MONT_A: U256 = [
    0xfffffffffffffffc,
    0xfffffffc00000003,
    0xffffffffffffffff,
    0xfffffffbffffffff,
];

const SM2_G_X: U256 = [
    0x715a4589334c74c7,
    0x8fe30bbff2660be1,
    0x5f9904466a39c994,
    0x32c4ae2c1f198119,
];

const SM2_G_Y: U256 = [
    0x02df32e52139f0a0,
    0xd0a9877cc62a4740,
    0x59bdcee36b692153,
    0xbc3736a2f4f6779c,
];
//@section spec local
// the code constants are the standard's parameters
proof fn lemma_fp_consts()
    ensures val4(SM2_P@) == P(), val4(SM2_P_MINUS_ONE@) == P() - 1, val4(SM2_P_MINUS_TWO@) == P() - 2,
        val4(SM2_MODP_MONT_ONE@) == r256() - P(), (P() * val4(SM2_P_PRIME@) + 1) % r256() == 0,
        val4(SM2_MODP_2E512@) == (r256() * r256()) % P(),
        4 * val4(SM2_SQRT_EXP@) == P() + 1,
        canon(SM2_MODP_MONT_A@), fe(SM2_MODP_MONT_A@) == CA(), canon(SM2_MODP_MONT_B@), fe(SM2_MODP_MONT_B@) == CB(),
        val4(SM2_G_X@) == GX(), val4(SM2_G_Y@) == GY(),
{
    assert(val4(SM2_P@) == P() && val4(SM2_P_MINUS_ONE@) == P() - 1 && val4(SM2_P_MINUS_TWO@) == P() - 2) by(compute);
    assert(val4(SM2_MODP_MONT_ONE@) == r256() - P()) by(compute);
    assert((P() * val4(SM2_P_PRIME@) + 1) % r256() == 0) by(compute);
    assert(val4(SM2_MODP_2E512@) == (r256() * r256()) % P()) by(compute);
    assert(4 * val4(SM2_SQRT_EXP@) == P() + 1) by(compute);
    assert(canon(SM2_MODP_MONT_A@) && fe(SM2_MODP_MONT_A@) == CA()) by(compute);
    assert(canon(SM2_MODP_MONT_B@) && fe(SM2_MODP_MONT_B@) == CB()) by(compute);
    assert(val4(SM2_G_X@) == GX() && val4(SM2_G_Y@) == GY()) by(compute);
}
//@section spec
use vstd::arithmetic::mul::*;
// ---------------------------------------------------------------- modular arithmetic helpers (generic modulus)
pub proof fn lemma_fp_mod_range(x: int, m: int) requires m > 0 ensures 0 <= x % m < m
{ lemma_mod_bound(x, m); }
pub proof fn lemma_fp_small(x: int, m: int) requires 0 <= x < m ensures x % m == x
{ lemma_small_mod(x as nat, m as nat); }
pub proof fn lemma_fp_cong_mul(a: int, b: int, c: int, m: int)
    requires m > 0, a % m == b % m
    ensures (a * c) % m == (b * c) % m, (c * a) % m == (c * b) % m
{
    lemma_mul_mod_noop_general(a, c, m);
    lemma_mul_mod_noop_general(b, c, m);
    assert(a * c == c * a) by(nonlinear_arith);
    assert(b * c == c * b) by(nonlinear_arith);
}
pub proof fn lemma_fp_cong_add(a: int, b: int, c: int, d: int, m: int)
    requires m > 0, a % m == b % m, c % m == d % m
    ensures (a + c) % m == (b + d) % m, (a - c) % m == (b - d) % m
{
    lemma_add_mod_noop(a, c, m); lemma_add_mod_noop(b, d, m);
    lemma_sub_mod_noop(a, c, m); lemma_sub_mod_noop(b, d, m);
}
// adding a multiple of m does not change the residue
pub proof fn lemma_fp_mod_shift(x: int, k: int, m: int) requires m > 0 ensures (x + k * m) % m == x % m
{
    lemma_mod_multiples_vanish(k, x, m);
    assert(m * k + x == x + k * m) by(nonlinear_arith);
}
// multiplying by a unit representative
pub proof fn lemma_fp_unit(x: int, u: int, m: int) requires m > 0, u % m == 1 ensures (x * u) % m == x % m
{
    lemma_mul_mod_noop_general(x, u, m);
    assert(x * 1 == x);
}
// ---------------------------------------------------------------- the Montgomery decoding map on integers
pub open spec fn fev(v: int) -> int { (v * RINV_P()) % P() }
pub proof fn lemma_fev_range(v: int) ensures 0 <= fev(v) < P()
{ lemma_params(); lemma_fp_mod_range(v * RINV_P(), P()); }
pub proof fn lemma_fev_cong(v: int, w: int) requires v % P() == w % P() ensures fev(v) == fev(w)
{ lemma_params(); lemma_fp_cong_mul(v, w, RINV_P(), P()); }
// fev(v * R) == v mod p
pub proof fn lemma_fev_R(v: int) ensures fev(v * r256()) == v % P()
{
    lemma_params();
    let u = r256() * RINV_P();
    assert(v * r256() * RINV_P() == v * u) by(nonlinear_arith) requires u == r256() * RINV_P();
    lemma_fp_unit(v, u, P());
}
// fev(v) * R == v mod p
pub proof fn lemma_fev_timesR(v: int) ensures (fev(v) * r256()) % P() == v % P()
{
    lemma_params();
    let u = r256() * RINV_P();
    lemma_mul_mod_noop_general(v * RINV_P(), r256(), P());
    assert(v * RINV_P() * r256() == v * u) by(nonlinear_arith) requires u == r256() * RINV_P();
    lemma_fp_unit(v, u, P());
}
pub proof fn lemma_fev_inj(x: int, y: int) requires 0 <= x < P(), 0 <= y < P(), fev(x) == fev(y) ensures x == y
{
    lemma_fev_timesR(x); lemma_fev_timesR(y);
    lemma_fp_small(x, P()); lemma_fp_small(y, P());
}
pub proof fn lemma_fev_add(v: int, a: int, b: int) requires v % P() == (a + b) % P() ensures fev(v) == (fev(a) + fev(b)) % P()
{
    lemma_params();
    lemma_fev_cong(v, a + b);
    assert((a + b) * RINV_P() == a * RINV_P() + b * RINV_P()) by(nonlinear_arith);
    lemma_add_mod_noop(a * RINV_P(), b * RINV_P(), P());
}
pub proof fn lemma_fev_sub(v: int, a: int, b: int) requires v % P() == (a - b) % P() ensures fev(v) == (fev(a) - fev(b)) % P()
{
    lemma_params();
    lemma_fev_cong(v, a - b);
    assert((a - b) * RINV_P() == a * RINV_P() - b * RINV_P()) by(nonlinear_arith);
    lemma_sub_mod_noop(a * RINV_P(), b * RINV_P(), P());
}
// Montgomery product: res * R == a * b (mod p)  ==>  fev(res) == fev(a) * fev(b) (mod p)
pub proof fn lemma_fev_mont(res: int, a: int, b: int) requires (res * r256()) % P() == (a * b) % P() ensures fev(res) == (fev(a) * fev(b)) % P()
{
    lemma_params();
    let ri = RINV_P(); let rr = r256(); let p = P();
    let u = rr * ri;
    lemma_mul_mod_noop(a * ri, b * ri, p);
    assert((a * ri) * (b * ri) == (a * b) * (ri * ri)) by(nonlinear_arith);
    lemma_fp_cong_mul(res * rr, a * b, ri * ri, p);
    assert((res * rr) * (ri * ri) == (res * ri) * u) by(nonlinear_arith) requires u == rr * ri;
    lemma_fp_unit(res * ri, u, p);
}
// ---------------------------------------------------------------- digit-wise form of 256-bit add/sub results (schoolbook carries/borrows).
// The value-level contracts of u256_add/u256_sub are single equations with coefficients 2^64..2^192 over twelve limbs; when an obligation
// is false the solver has to find limbs satisfying them and its integer search on those equations exhausts the resource limit. The four
// small rows per operation make that search immediate (no precondition on which of the two operations produced r: the rows are implications).
pub open spec fn fp_bw(a: int, b: int, c: int) -> int { if a - b - c < 0 { 1int } else { 0int } }
pub open spec fn fp_cy(a: int, b: int, c: int) -> int { if a + b + c >= 0x1_0000_0000_0000_0000int { 1int } else { 0int } }
pub open spec fn fp_sub_dig(a: Seq<u64>, b: Seq<u64>, r: Seq<u64>) -> bool {
    let b0 = fp_bw(a[0] as int, b[0] as int, 0);
    let b1 = fp_bw(a[1] as int, b[1] as int, b0);
    let b2 = fp_bw(a[2] as int, b[2] as int, b1);
    let b3 = fp_bw(a[3] as int, b[3] as int, b2);
    r[0] as int == a[0] as int - b[0] as int + 0x1_0000_0000_0000_0000int * b0
    && r[1] as int == a[1] as int - b[1] as int - b0 + 0x1_0000_0000_0000_0000int * b1
    && r[2] as int == a[2] as int - b[2] as int - b1 + 0x1_0000_0000_0000_0000int * b2
    && r[3] as int == a[3] as int - b[3] as int - b2 + 0x1_0000_0000_0000_0000int * b3
    && (b3 == 1) == (val4(a) < val4(b))
}
pub open spec fn fp_add_dig(a: Seq<u64>, b: Seq<u64>, r: Seq<u64>) -> bool {
    let c0 = fp_cy(a[0] as int, b[0] as int, 0);
    let c1 = fp_cy(a[1] as int, b[1] as int, c0);
    let c2 = fp_cy(a[2] as int, b[2] as int, c1);
    let c3 = fp_cy(a[3] as int, b[3] as int, c2);
    r[0] as int == a[0] as int + b[0] as int - 0x1_0000_0000_0000_0000int * c0
    && r[1] as int == a[1] as int + b[1] as int + c0 - 0x1_0000_0000_0000_0000int * c1
    && r[2] as int == a[2] as int + b[2] as int + c1 - 0x1_0000_0000_0000_0000int * c2
    && r[3] as int == a[3] as int + b[3] as int + c2 - 0x1_0000_0000_0000_0000int * c3
    && (c3 == 1) == (val4(a) + val4(b) >= r256())
}
pub open spec fn fp_is_sub(a: Seq<u64>, b: Seq<u64>, r: Seq<u64>) -> bool { val4(r) - val4(a) + val4(b) == 0 || val4(r) - val4(a) + val4(b) == r256() }
pub open spec fn fp_is_add(a: Seq<u64>, b: Seq<u64>, r: Seq<u64>) -> bool { val4(r) - val4(a) - val4(b) == 0 || val4(r) - val4(a) - val4(b) == -r256() }
pub proof fn lemma_fp_sub_digits(a: Seq<u64>, b: Seq<u64>, r: Seq<u64>)
    requires a.len() == 4, b.len() == 4, r.len() == 4, fp_is_sub(a, b, r),
    ensures fp_sub_dig(a, b, r)
{
    lemma_val4_bounds(r); lemma_val4_bounds(a); lemma_val4_bounds(b);
    let b0 = fp_bw(a[0] as int, b[0] as int, 0);
    let b1 = fp_bw(a[1] as int, b[1] as int, b0);
    let b2 = fp_bw(a[2] as int, b[2] as int, b1);
    let b3 = fp_bw(a[3] as int, b[3] as int, b2);
    let r0 = (a[0] as int - b[0] as int + 0x1_0000_0000_0000_0000int * b0) as u64;
    let r1 = (a[1] as int - b[1] as int - b0 + 0x1_0000_0000_0000_0000int * b1) as u64;
    let r2 = (a[2] as int - b[2] as int - b1 + 0x1_0000_0000_0000_0000int * b2) as u64;
    let r3 = (a[3] as int - b[3] as int - b2 + 0x1_0000_0000_0000_0000int * b3) as u64;
    let rp = seq![r0, r1, r2, r3];
    assert(val4(rp) - b3 * r256() == val4(a) - val4(b));
    lemma_val4_bounds(rp);
    assert(val4(rp) == val4(r));
    lemma_val4_inj(r, rp);
}
pub proof fn lemma_fp_add_digits(a: Seq<u64>, b: Seq<u64>, r: Seq<u64>)
    requires a.len() == 4, b.len() == 4, r.len() == 4, fp_is_add(a, b, r),
    ensures fp_add_dig(a, b, r)
{
    lemma_val4_bounds(r); lemma_val4_bounds(a); lemma_val4_bounds(b);
    let c0 = fp_cy(a[0] as int, b[0] as int, 0);
    let c1 = fp_cy(a[1] as int, b[1] as int, c0);
    let c2 = fp_cy(a[2] as int, b[2] as int, c1);
    let c3 = fp_cy(a[3] as int, b[3] as int, c2);
    let r0 = (a[0] as int + b[0] as int - 0x1_0000_0000_0000_0000int * c0) as u64;
    let r1 = (a[1] as int + b[1] as int + c0 - 0x1_0000_0000_0000_0000int * c1) as u64;
    let r2 = (a[2] as int + b[2] as int + c1 - 0x1_0000_0000_0000_0000int * c2) as u64;
    let r3 = (a[3] as int + b[3] as int + c2 - 0x1_0000_0000_0000_0000int * c3) as u64;
    let rp = seq![r0, r1, r2, r3];
    assert(val4(rp) + c3 * r256() == val4(a) + val4(b));
    lemma_val4_bounds(rp);
    assert(val4(rp) == val4(r));
    lemma_val4_inj(r, rp);
}
// rows for a given result r of an operation on a, b
pub proof fn lemma_fp_digits(a: Seq<u64>, b: Seq<u64>, r: Seq<u64>)
    requires a.len() == 4, b.len() == 4, r.len() == 4,
    ensures fp_is_sub(a, b, r) ==> fp_sub_dig(a, b, r), fp_is_add(a, b, r) ==> fp_add_dig(a, b, r),
{
    if fp_is_sub(a, b, r) { lemma_fp_sub_digits(a, b, r); }
    if fp_is_add(a, b, r) { lemma_fp_add_digits(a, b, r); }
}
// rows for a given result r of an operation on a and any second operand (the annotation does not have to name the constant the code passes)
pub proof fn lemma_fp_digits_any(a: Seq<u64>, r: Seq<u64>)
    requires a.len() == 4, r.len() == 4,
    ensures forall|b: Seq<u64>| #![trigger val4(b)] b.len() == 4 ==> (fp_is_sub(a, b, r) ==> fp_sub_dig(a, b, r)) && (fp_is_add(a, b, r) ==> fp_add_dig(a, b, r)),
{
    assert forall|b: Seq<u64>| #![trigger val4(b)] b.len() == 4 implies (fp_is_sub(a, b, r) ==> fp_sub_dig(a, b, r)) && (fp_is_add(a, b, r) ==> fp_add_dig(a, b, r)) by {
        lemma_fp_digits(a, b, r);
    }
}
// rows for every result of an operation with second operand b (for a result that is returned directly and cannot be named)
pub proof fn lemma_fp_digits_to(b: Seq<u64>)
    requires b.len() == 4,
    ensures forall|a: Seq<u64>, r: Seq<u64>| #![trigger val4(a), val4(r)] a.len() == 4 && r.len() == 4 ==> (fp_is_sub(a, b, r) ==> fp_sub_dig(a, b, r)) && (fp_is_add(a, b, r) ==> fp_add_dig(a, b, r)),
{
    assert forall|a: Seq<u64>, r: Seq<u64>| #![trigger val4(a), val4(r)] a.len() == 4 && r.len() == 4 implies (fp_is_sub(a, b, r) ==> fp_sub_dig(a, b, r)) && (fp_is_add(a, b, r) ==> fp_add_dig(a, b, r)) by {
        lemma_fp_digits(a, b, r);
    }
}
// ---------------------------------------------------------------- postconditions of the add/sub/neg reductions
pub proof fn lemma_fp_add_post(a: int, b: int, v: int)
    requires 0 <= a < P(), 0 <= b < P(),
        a + b < P() ==> v == a + b,
        a + b >= P() ==> v == a + b - P(),
    ensures 0 <= v < P(), v == (a + b) % P(), fev(v) == (fev(a) + fev(b)) % P()
{
    lemma_params();
    if a + b >= P() { lemma_fp_mod_shift(v, 1, P()); }
    lemma_fp_small(v, P());
    lemma_fev_add(v, a, b);
}
pub proof fn lemma_fp_sub_post(a: int, b: int, v: int)
    requires 0 <= a <= P(), 0 <= b < P(),
        a >= b ==> v == a - b,
        a < b ==> v == a - b + P(),
    ensures 0 <= v <= P(), v < P() || (a == P() && b == 0), v % P() == (a - b) % P(), fev(v) == (fev(a) - fev(b)) % P()
{
    lemma_params();
    if a < b { lemma_fp_mod_shift(a - b, 1, P()); }
    lemma_fev_sub(v, a, b);
}
pub proof fn lemma_fp_neg_post(a: int, v: int)
    requires 0 <= a < P(),
        a == 0 ==> v == 0,
        a > 0 ==> v == P() - a,
    ensures 0 <= v < P(), fev(v) == (P() - fev(a)) % P()
{
    lemma_params();
    assert(0 * RINV_P() == 0);
    lemma_fp_small(0, P());
    lemma_mod_multiples_basic(1, P());
    if a > 0 {
        lemma_fp_mod_shift(0 - a, 1, P());
        lemma_fev_sub(v, 0, a);
        lemma_fp_mod_shift(fev(0) - fev(a), 1, P());
    }
}
// ---------------------------------------------------------------- halving
// one limb of the 256-bit right shift by one: the new limb is the old one halved plus the low bit of the next limb on top
pub proof fn lemma_fp_shr1(x: u64, y: u64)
    ensures 2 * (((x >> 1) | ((y & 1) << 63)) as int) == x as int - (x & 1) as int + 0x1_0000_0000_0000_0000int * (y & 1) as int,
        (x & 1) <= 1, (y & 1) <= 1
{
    let n = (x >> 1) | ((y & 1) << 63);
    assert(n == (x >> 1) + (y & 1) * 0x8000_0000_0000_0000 && (x >> 1) + (y & 1) * 0x8000_0000_0000_0000 <= 0xffff_ffff_ffff_ffff
        && x == 2 * (x >> 1) + (x & 1) && (x & 1) <= 1 && (y & 1) <= 1 && (x >> 1) <= 0x7fff_ffff_ffff_ffff) by(bit_vector)
        requires n == (x >> 1) | ((y & 1) << 63);
}
// the 256-bit right shift by one across four limbs, with c shifted in on top
pub proof fn lemma_fp_shr256(a: Seq<u64>, c: u64, n: Seq<u64>)
    requires a.len() == 4, n.len() == 4, c <= 1,
        n[0] == (a[0] >> 1) | ((a[1] & 1) << 63), n[1] == (a[1] >> 1) | ((a[2] & 1) << 63),
        n[2] == (a[2] >> 1) | ((a[3] & 1) << 63), n[3] == (a[3] >> 1) | ((c & 1) << 63),
    ensures 2 * val4(n) == val4(a) - (a[0] & 1) as int + (if c == 1 { r256() } else { 0 })
{
    let a0 = a[0]; let a1 = a[1]; let a2 = a[2]; let a3 = a[3];
    lemma_fp_shr1(a0, a1); lemma_fp_shr1(a1, a2); lemma_fp_shr1(a2, a3); lemma_fp_shr1(a3, c);
    assert(c & 1 == c) by(bit_vector) requires c <= 1;
    let b0 = (a0 & 1) as int; let b1 = (a1 & 1) as int; let b2 = (a2 & 1) as int; let b3 = (a3 & 1) as int; let b4 = c as int;
    let n0 = n[0] as int; let n1 = n[1] as int; let n2 = n[2] as int; let n3 = n[3] as int;
    assert(2 * n0 == a0 as int - b0 + 0x1_0000_0000_0000_0000int * b1);
    assert(2 * n1 == a1 as int - b1 + 0x1_0000_0000_0000_0000int * b2);
    assert(2 * n2 == a2 as int - b2 + 0x1_0000_0000_0000_0000int * b3);
    assert(2 * n3 == a3 as int - b3 + 0x1_0000_0000_0000_0000int * b4);
}
// the value that is shifted (x when x is even, x + p when x is odd) is even: the low limb of it has low bit 0
pub proof fn lemma_fp_div2_parity(x: Seq<u64>, p: Seq<u64>, s: Seq<u64>, c: bool, odd: bool)
    requires x.len() == 4, p.len() == 4, s.len() == 4,
        odd ==> val4(s) + (if c { r256() } else { 0 }) == val4(x) + val4(p),
        !odd ==> s =~= x && !c,
        odd == ((x[0] & 1) == 1), (p[0] & 1) == 1,
    ensures (s[0] & 1) == 0
{
    let x0 = x[0]; let p0 = p[0]; let s0 = s[0];
    assert(x0 as int == 2 * ((x0 >> 1) as int) + (x0 & 1) as int && (x0 & 1) <= 1) by(bit_vector);
    assert(p0 as int == 2 * ((p0 >> 1) as int) + (p0 & 1) as int && (p0 & 1) <= 1) by(bit_vector);
    assert(s0 as int == 2 * ((s0 >> 1) as int) + (s0 & 1) as int && (s0 & 1) <= 1) by(bit_vector);
    if odd {
        let hx = x[1] as int + 0x1_0000_0000_0000_0000int * (x[2] as int + 0x1_0000_0000_0000_0000int * (x[3] as int));
        let hp = p[1] as int + 0x1_0000_0000_0000_0000int * (p[2] as int + 0x1_0000_0000_0000_0000int * (p[3] as int));
        let hs = s[1] as int + 0x1_0000_0000_0000_0000int * (s[2] as int + 0x1_0000_0000_0000_0000int * (s[3] as int));
        let cc: int = if c { 0x8000_0000_0000_0000int * 0x1_0000_0000_0000_0000int * 0x1_0000_0000_0000_0000int * 0x1_0000_0000_0000_0000int } else { 0 };
        let m = ((x0 >> 1) as int) + ((p0 >> 1) as int) + 1 - ((s0 >> 1) as int) + 0x8000_0000_0000_0000int * (hx + hp - hs) - cc;
        assert((s0 & 1) as int == 2 * m);
    }
}
// h is half of x (x even) or of x + p (x odd): doubling h gives x back modulo p, also after Montgomery decoding
pub proof fn lemma_fp_div2_post(x: int, h: int, t: int)
    requires 0 <= x < P(), 2 * h == t, t == x || t == x + P()
    ensures 0 <= h < P(), (2 * fev(h)) % P() == fev(x)
{
    lemma_params();
    if t == x + P() { lemma_fp_mod_shift(x, 1, P()); }
    lemma_fev_add(x, h, h);
}
// ---------------------------------------------------------------- Montgomery reduction
// core: z + ((z mod R) * p' mod R) * p is divisible by R when p * p' == -1 (mod R)
pub proof fn lemma_fp_mont_div(z: int, zl: int, tl: int, pp: int, pv: int, r: int)
    requires r > 0, zl == z % r, 0 <= z, tl == (zl * pp) % r, (pv * pp + 1) % r == 0,
    ensures (z + tl * pv) % r == 0
{
    let k1 = z / r;
    let k2 = (zl * pp) / r;
    let k3 = (pv * pp + 1) / r;
    assert(z == k1 * r + zl) by(nonlinear_arith) requires r > 0, zl == z % r, k1 == z / r;
    assert(zl * pp == k2 * r + tl) by(nonlinear_arith) requires r > 0, tl == (zl * pp) % r, k2 == (zl * pp) / r;
    assert(pv * pp + 1 == k3 * r) by(nonlinear_arith) requires r > 0, (pv * pp + 1) % r == 0, k3 == (pv * pp + 1) / r;
    assert(z + tl * pv == (k1 - k2 * pv + zl * k3) * r) by(nonlinear_arith)
        requires z == k1 * r + zl, zl * pp == k2 * r + tl, pv * pp + 1 == k3 * r;
    lemma_mod_multiples_basic(k1 - k2 * pv + zl * k3, r);
}
// the quotient is below 2p
pub proof fn lemma_fp_mont_q(a: int, b: int, tl: int, q: int, p: int, r: int)
    requires 0 <= a < p, 0 <= b < p, 0 <= tl < r, 0 < p < r, q * r == a * b + tl * p
    ensures 0 <= q < 2 * p, 0 <= a * b
{
    assert(0 <= a * b && a * b <= p * b) by(nonlinear_arith) requires 0 <= a < p, 0 <= b;
    assert(p * b <= p * p) by(nonlinear_arith) requires 0 <= b < p;
    assert(p * p <= p * r) by(nonlinear_arith) requires 0 < p < r;
    assert(0 <= tl * p && tl * p <= (r - 1) * p) by(nonlinear_arith) requires 0 <= tl < r, 0 < p;
    assert((r - 1) * p == p * r - p) by(nonlinear_arith);
    let pr = p * r;
    assert(q * r < 2 * pr);
    assert(q < 2 * p) by(nonlinear_arith) requires q * r < 2 * pr, pr == p * r, r > 0;
    assert(q >= 0) by(nonlinear_arith) requires q * r >= 0, r > 0;
}
// ---------------------------------------------------------------- conversions
pub proof fn lemma_fp_from_mont_post(a: int, res: int)
    requires 0 <= res < P(), (res * r256()) % P() == (a * 1) % P()
    ensures res == fev(a)
{
    lemma_params();
    lemma_fev_timesR(a);
    lemma_fev_range(a);
    // res * R == fev(a) * R (mod p)  ==> res == fev(a)
    lemma_fev_R(res); lemma_fev_R(fev(a));
    lemma_fev_cong(res * r256(), fev(a) * r256());
    lemma_fp_small(res, P()); lemma_fp_small(fev(a), P());
}
// ---------------------------------------------------------------- powers
pub proof fn lemma_fp_pow_mod_range(x: int, e: nat, m: int) requires m > 0 ensures 0 <= pow_mod(x, e, m) < m decreases e
{
    if e == 0 { lemma_fp_mod_range(1, m); } else { lemma_fp_mod_range(pow_mod(x, (e - 1) as nat, m) * x, m); }
}
pub proof fn lemma_fp_pow_mod_add(x: int, j: nat, k: nat, m: int) requires m > 0
    ensures pow_mod(x, j + k, m) == (pow_mod(x, j, m) * pow_mod(x, k, m)) % m
    decreases k
{
    let pj = pow_mod(x, j, m);
    lemma_fp_pow_mod_range(x, j, m);
    if k == 0 {
        lemma_mul_mod_noop_general(pj, 1, m);
        assert(pj * 1 == pj);
        lemma_fp_small(pj, m);
    } else {
        let k1 = (k - 1) as nat;
        lemma_fp_pow_mod_add(x, j, k1, m);
        let pk1 = pow_mod(x, k1, m);
        assert((j + k - 1) as nat == j + k1);
        lemma_mul_mod_noop_general(pj * pk1, x, m);
        lemma_mul_mod_noop_general(pj, pk1 * x, m);
        assert((pj * pk1) * x == pj * (pk1 * x)) by(nonlinear_arith);
    }
}
// value of the k most significant limbs of e
pub open spec fn fp_hv(e: Seq<u64>, k: int) -> int {
    if k <= 0 { 0 }
    else if k == 1 { e[3] as int }
    else if k == 2 { e[2] as int + 0x1_0000_0000_0000_0000int * (e[3] as int) }
    else if k == 3 { e[1] as int + 0x1_0000_0000_0000_0000int * (e[2] as int + 0x1_0000_0000_0000_0000int * (e[3] as int)) }
    else { val4(e) }
}
pub proof fn lemma_fp_hv_step(e: Seq<u64>, k: int) requires e.len() == 4, 0 <= k < 4
    ensures fp_hv(e, k + 1) == fp_hv(e, k) * 0x1_0000_0000_0000_0000int + e[3 - k] as int, fp_hv(e, k) >= 0
{ }
pub open spec fn fp_p2(n: int) -> int decreases n { if n <= 0 { 1 } else { 2 * fp_p2(n - 1) } }
pub proof fn lemma_fp_p2_64() ensures fp_p2(64) == 0x1_0000_0000_0000_0000int
{ assert(fp_p2(64) == 0x1_0000_0000_0000_0000int) by(compute); }
// one square-and-multiply step on the exponent bookkeeping: prefix = hv * pw + top
pub proof fn lemma_fp_pow_step(x: int, pre: nat, hv: int, pw: int, top: int, bit: int, fsq: int, fnew: int)
    requires pre == hv * pw + top, hv >= 0, pw >= 1, top >= 0, bit == 0 || bit == 1,
        fsq == (pow_mod(x, pre, P()) * pow_mod(x, pre, P())) % P(),
        (bit == 0 && fnew == fsq) || (bit == 1 && fnew == (fsq * x) % P()),
    ensures 2 * pre + bit == hv * (2 * pw) + (2 * top + bit), fnew == pow_mod(x, (2 * pre + bit) as nat, P())
{
    lemma_params();
    lemma_fp_pow_mod_add(x, pre, pre, P());
    assert(hv * (2 * pw) == 2 * (hv * pw)) by(nonlinear_arith);
    assert(pre + pre == 2 * pre);
    if bit == 1 {
        assert((2 * pre + 1 - 1) as nat == 2 * pre);
    }
}
//@section spec local
// ---------------------------------------------------------------- mont_mul: stage lemmas. Their requires/ensures are linear in the limbs apart from the
// products that the contracts of u256_mul state, and the congruence is hidden behind an opaque predicate, so that the verification condition of the
// exec function contains no nonlinear reasoning step (a wrong step is reported as the first false `requires` conjunct below)
#[verifier::opaque]
pub open spec fn fp_mont_quot(a: int, b: int, q: int) -> bool { (q * r256()) % P() == (a * b) % P() }
// the linear facts about the constants that the body of mont_mul needs
proof fn lemma_fp_lin()
    ensures val4(SM2_P@) == P(), val4(SM2_MODP_MONT_ONE@) == r256() - P(), 0 < P(), P() < r256(), r256() < 2 * P(),
{
    lemma_fp_consts(); lemma_params();
}
// z = a * b; t1 = low(z) * p'; t2 = low(t1) * p; s = z + t2 (carry c): the high half of s (with c on top) is the Montgomery quotient, below 2p
proof fn lemma_fp_mont_stage(a: Seq<u64>, b: Seq<u64>, z: Seq<u64>, zl: Seq<u64>, t1: Seq<u64>, tw: Seq<u64>, t2: Seq<u64>, s: Seq<u64>, c: bool, r: Seq<u64>)
    requires a.len() == 4, b.len() == 4, z.len() == 8, zl.len() == 4, t1.len() == 8, tw.len() == 4, t2.len() == 8, s.len() == 8, r.len() == 4,
        val4(a) < P(), val4(b) < P(),
        val8(z) == val4(a) * val4(b) || val8(z) == val4(b) * val4(a),
        zl[0] == z[0], zl[1] == z[1], zl[2] == z[2], zl[3] == z[3],
        val8(t1) == val4(zl) * val4(SM2_P_PRIME@) || val8(t1) == val4(SM2_P_PRIME@) * val4(zl),
        tw[0] == t1[0], tw[1] == t1[1], tw[2] == t1[2], tw[3] == t1[3],
        val8(t2) == val4(tw) * val4(SM2_P@) || val8(t2) == val4(SM2_P@) * val4(tw),
        val8(s) + (if c { r256() * r256() } else { 0 }) == val8(z) + val8(t2),
        r[0] == s[4], r[1] == s[5], r[2] == s[6], r[3] == s[7],
    ensures fp_mont_quot(val4(a), val4(b), val4(r) + (if c { r256() } else { 0 })),
        0 <= val4(r) + (if c { r256() } else { 0 }) < 2 * P(),
{
    assert(val4(b) * val4(a) == val4(a) * val4(b) && val4(SM2_P_PRIME@) * val4(zl) == val4(zl) * val4(SM2_P_PRIME@) && val4(SM2_P@) * val4(tw) == val4(tw) * val4(SM2_P@)) by(nonlinear_arith);
    lemma_fp_consts(); lemma_params();
    let q = val4(r) + (if c { r256() } else { 0 });
    let tl = val4(tw);
    let lo_z = z.subrange(0, 4); let hi_z = z.subrange(4, 8);
    let lo_t = t1.subrange(0, 4); let hi_t = t1.subrange(4, 8);
    let lo_s = s.subrange(0, 4); let hi_s = s.subrange(4, 8);
    assert(zl =~= lo_z);
    assert(tw =~= lo_t);
    assert(r =~= hi_s);
    lemma_val4_bounds(lo_z); lemma_val4_bounds(hi_z); lemma_val4_bounds(lo_t); lemma_val4_bounds(hi_t);
    lemma_val4_bounds(lo_s); lemma_val4_bounds(hi_s);
    lemma_val4_bounds(a); lemma_val4_bounds(b);
    let zz = val8(z); let zlv = val4(lo_z); let rr = r256(); let pp = val4(SM2_P_PRIME@);
    assert(zz == val4(hi_z) * rr + zlv) by(nonlinear_arith) requires zz == zlv + rr * val4(hi_z);
    lemma_fundamental_div_mod_converse(zz, rr, val4(hi_z), zlv);
    assert(zlv * pp == val4(hi_t) * rr + tl) by(nonlinear_arith) requires zlv * pp == tl + rr * val4(hi_t);
    lemma_fundamental_div_mod_converse(zlv * pp, rr, val4(hi_t), tl);
    assert(zz >= 0) by(nonlinear_arith) requires zz == val4(a) * val4(b), val4(a) >= 0, val4(b) >= 0;
    lemma_fp_mont_div(zz, zlv, tl, pp, P(), rr);
    let tt = zz + tl * P();
    assert(tt == q * rr + val4(lo_s)) by(nonlinear_arith)
        requires tt == val4(lo_s) + rr * val4(hi_s) + (if c { rr * rr } else { 0 }), q == val4(hi_s) + (if c { rr } else { 0 });
    lemma_fundamental_div_mod_converse(tt, rr, q, val4(lo_s));
    assert(q * rr == val4(a) * val4(b) + tl * P());
    lemma_fp_mont_q(val4(a), val4(b), tl, q, P(), rr);
    lemma_fp_mod_shift(val4(a) * val4(b), tl, P());
    reveal(fp_mont_quot);
}
// final conditional subtraction
proof fn lemma_fp_mont_final(a: int, b: int, q: int, res: int)
    requires fp_mont_quot(a, b, q), 0 <= q < 2 * P(),
        q < P() ==> res == q,
        q >= P() ==> res == q - P(),
    ensures 0 <= res < P(), (res * r256()) % P() == (a * b) % P(), fev(res) == (fev(a) * fev(b)) % P()
{
    lemma_params();
    reveal(fp_mont_quot);
    let rr = r256(); let p = P();
    if q >= p {
        assert((q - p) * rr == q * rr + (0 - rr) * p) by(nonlinear_arith);
        lemma_fp_mod_shift(q * rr, 0 - rr, p);
    }
    lemma_fev_mont(res, a, b);
}
//@section code gm-sm2/src/fields/fp64.rs

fn fp_pow(a: &U256, e: &U256) -> (r: U256)
    requires canon(a@)
    ensures canon(r@), fe(r@) == pow_mod(fe(a@), val4(e@) as nat, P())
{
    let mut r = SM2_MODP_MONT_ONE;
    let mut w = 0u64;
    proof {
        lemma_params();
        assert(canon(SM2_MODP_MONT_ONE@) && fe(SM2_MODP_MONT_ONE@) == 1) by(compute);
        lemma_fp_small(1, P());
        // fp_inv (a method of the impl whose fp_sqr/fp_mul are called here) calls fp_pow, so fp_pow sits in a call-graph cycle and Verus
        // emits vstd's blanket impl `DoubleEndedIterator => DoubleEndedIteratorSpec` (needed by the `.rev()` loop) only after this
        // function unless it is mentioned explicitly; this ghost mention creates the dependency (it states nothing).
        let rg: core::ops::Range<i32> = 0..4;
        let pb = vstd::std_specs::iter::DoubleEndedIteratorSpec::peek_back(&rg, 0);
    }
    for i in it: (0..4).rev()
        invariant
            canon(a@), canon(r@), 0 <= it.index@ <= 4,
            fp_hv(e@, it.index@ as int) >= 0,
            fe(r@) == pow_mod(fe(a@), fp_hv(e@, it.index@ as int) as nat, P()),
    {
        w = e[i];
        let ghost k = it.index@ as int;
        let ghost hv = fp_hv(e@, k);
        let ghost w0 = w as int;
        let ghost mut top: int = 0;
        let ghost mut pw: int = 1;
        let ghost mut pre: nat = hv as nat;
        proof { lemma_fp_hv_step(e@, k); assert(hv * 1 == hv); }
        for _j in jt: 0..64
            invariant
                canon(a@), canon(r@), hv >= 0, top >= 0, pw >= 1, pw == fp_p2(jt.index@ as int),
                w0 * pw == top * 0x1_0000_0000_0000_0000int + w as int,
                pre == hv * pw + top,
                fe(r@) == pow_mod(fe(a@), pre, P()),
        {
            let ghost wb = w;
            r = r.fp_sqr();
            let ghost fsq = fe(r@);
            if w & 0x8000000000000000 != 0 {
                r = r.fp_mul(a);
            }
            w <<= 1;
            proof {
                let bit: int = if wb & 0x8000000000000000 != 0 { 1 } else { 0 };
                assert(wb & 0x8000000000000000 != 0 ==> wb >= 0x8000000000000000 && (wb << 1) == ((wb - 0x8000000000000000) as u64) * 2) by(bit_vector);
                assert(wb & 0x8000000000000000 == 0 ==> wb < 0x8000000000000000 && (wb << 1) == wb * 2) by(bit_vector);
                assert(2 * (wb as int) == bit * 0x1_0000_0000_0000_0000int + w as int);
                lemma_fp_pow_step(fe(a@), pre, hv, pw, top, bit, fsq, fe(r@));
                assert(w0 * (2 * pw) == 2 * (w0 * pw)) by(nonlinear_arith);
                top = 2 * top + bit;
                pw = 2 * pw;
                pre = (2 * pre + bit) as nat;
            }
        }
        proof {
            lemma_fp_p2_64();
            assert(w0 * pw == w0 * 0x1_0000_0000_0000_0000int) by(nonlinear_arith) requires pw == 0x1_0000_0000_0000_0000int;
            assert(top == w0);
            assert(w0 == e@[3 - k] as int);
        }
    }
    r
}

fn fp_to_mont(a: &U256) -> (r: U256)
    requires canon(a@)
    ensures canon(r@), fe(r@) == val4(a@)
{
    proof {
        lemma_fp_consts(); lemma_params(); lemma_val4_bounds(a@);
        lemma_fp_mod_range(r256() * r256(), P());
        assert(fe(SM2_MODP_2E512@) == r256() % P()) by(compute);
        lemma_fev_timesR(val4(a@));
        lemma_mul_mod_noop_general(fe(a@), r256(), P());
        lemma_fp_small(val4(a@), P());
    }
    mont_mul(a, &SM2_MODP_2E512)
}

fn fp_from_mont(a: &U256) -> (r: U256)
    requires canon(a@)
    ensures canon(r@), val4(r@) == fe(a@)
{
    proof {
        lemma_fp_consts(); lemma_params(); lemma_val4_bounds(a@);
        assert(val4(SM2_ONE@) == 1);
        assert forall|res: int| 0 <= res < P() && #[trigger] ((res * r256()) % P()) == (val4(a@) * 1) % P() implies res == fev(val4(a@)) by {
            lemma_fp_from_mont_post(val4(a@), res);
        }
    }
    mont_mul(a, &SM2_ONE)
}

fn mont_mul(a: &U256, b: &U256) -> (res: U256)
    requires canon(a@), canon(b@)
    ensures canon(res@), (val4(res@) * r256()) % P() == (val4(a@) * val4(b@)) % P(), fe(res@) == (fe(a@) * fe(b@)) % P()
{
    let mut r = [0u64; 4];

    let mut z = [0u64; 8];
    let mut t = [0u64; 8];

    // z = a * b
    z = u256_mul(a, b);
    let ghost z0 = z@;

    // t = low(z) * p'
    let z_low = [z[0], z[1], z[2], z[3]];
    let t1 = u256_mul(&z_low, &SM2_P_PRIME);
    t[0] = t1[0];
    t[1] = t1[1];
    t[2] = t1[2];
    t[3] = t1[3];

    // t = low(t) * p
    let t_low = [t[0], t[1], t[2], t[3]];
    t = u256_mul(&t_low, &SM2_P);

    // z = z + t
    let (sum, c) = u512_add(&z, &t);
    z = sum;

    // r = high(r)
    r = [z[4], z[5], z[6], z[7]];
    let ghost rq = r@;
    let ghost q = val4(rq) + (if c { r256() } else { 0 });
    proof {
        lemma_fp_lin();
        lemma_fp_mont_stage(a@, b@, z0, z_low@, t1@, t_low@, t@, sum@, c, rq);
        lemma_val4_bounds(rq);
        // boundary point of the comparison below: hand the limbs to the solver (val4 is injective)
        if val4(rq) == val4(SM2_P@) { lemma_val4_inj(rq, SM2_P@); }
    }
    if c {
        r = u256_add(&r, &SM2_MODP_MONT_ONE).0;
    } else if u256_cmp(&r, &SM2_P) >= 0 {
        r = u256_sub(&r, &SM2_P).0
    }
    proof {
        lemma_val4_bounds(r@);
        lemma_fp_digits_any(rq, r@);
        lemma_fp_mont_final(val4(a@), val4(b@), q, val4(r@));
    }
    r
}

fn fp_sqrt(a: &U256) -> (res: Sm2Result<U256>)
    requires canon(a@)
    ensures res is Ok ==> canon(res->Ok_0@) && (fe(res->Ok_0@) * fe(res->Ok_0@)) % P() == fe(a@),
        res is Ok <==> (pow_mod(fe(a@), val4(SM2_SQRT_EXP@) as nat, P()) * pow_mod(fe(a@), val4(SM2_SQRT_EXP@) as nat, P())) % P() == fe(a@),
{
    let r = fp_pow(a, &SM2_SQRT_EXP);
    let a1 = r.fp_sqr();
    proof {
        // the exponent passed above is (p + 1) / 4 (stated on the constant the code names, so that a different constant is reported)
        lemma_fp_consts();
        assert(4 * val4(SM2_SQRT_EXP@) == P() + 1);
        lemma_val4_bounds(a1@); lemma_val4_bounds(a@);
        if fe(a1@) == fe(a@) { lemma_fev_inj(val4(a1@), val4(a@)); }
    }
    if u256_cmp(&a1, &a) != 0 {
        return Err(Sm2Error::FieldSqrtError);
    }
    Ok(r)
}

impl FieldModOperation for U256 {
    spec fn lv(&self) -> Seq<u64> { self@ }

    fn zero() -> Self {
        SM2_ZERO
    }

    fn one() -> Self {
        SM2_ONE
    }

    fn is_zero(&self) -> bool {
        self == &SM2_ZERO
    }

    fn fp_sqr(&self) -> Self {
        self.fp_mul(self)
    }

    fn fp_double(&self) -> Self {
        self.fp_add(self)
    }

    fn fp_triple(&self) -> Self {
        let mut r = self.fp_double();
        r = self.fp_add(&r);
        proof {
            lemma_params();
            let x = fe(self@);
            lemma_add_mod_noop(x, 2 * x, P());
            lemma_fp_mod_range(val4(self@) * RINV_P(), P());
            lemma_fp_small(x, P());
        }
        r
    }

    fn fp_add(&self, rhs: &Self) -> Self {
        let (r, c) = u256_add(self, rhs);
        proof {
            lemma_fp_lin();
            lemma_val4_bounds(r@); lemma_val4_bounds(self@); lemma_val4_bounds(rhs@);
            lemma_fp_digits(self@, rhs@, r@); lemma_fp_digits(self@, self@, r@); lemma_fp_digits(rhs@, rhs@, r@);
            // checkpoint: what the first operation has to deliver (a wrong first operation is reported here, once)
            assert(val4(r@) + (if c { r256() } else { 0 }) == val4(self@) + val4(rhs@));
            // boundary point of the comparison below: hand the limbs to the solver (val4 is injective)
            if val4(r@) == val4(SM2_P@) { lemma_val4_inj(r@, SM2_P@); }
        }
        if c {
            let (diff, _borrow) = u256_add(&r, &SM2_MODP_MONT_ONE);
            proof {
                lemma_val4_bounds(diff@);
                lemma_fp_digits_any(r@, diff@);
                lemma_fp_add_post(val4(self@), val4(rhs@), val4(diff@));
            }
            return diff;
        }
        if u256_cmp(&r, &SM2_P) >= 0 {
            let (diff, _borrow) = u256_sub(&r, &SM2_P);
            proof {
                lemma_val4_bounds(diff@);
                lemma_fp_digits_any(r@, diff@);
                lemma_fp_add_post(val4(self@), val4(rhs@), val4(diff@));
            }
            return diff;
        }
        proof { lemma_fp_add_post(val4(self@), val4(rhs@), val4(r@)); }
        r
    }

    fn fp_sub(&self, rhs: &Self) -> Self {
        let (raw_diff, borrow) = u256_sub(self, rhs);
        proof {
            lemma_fp_lin();
            lemma_val4_bounds(raw_diff@); lemma_val4_bounds(self@); lemma_val4_bounds(rhs@);
            lemma_fp_digits(self@, rhs@, raw_diff@); lemma_fp_digits(rhs@, self@, raw_diff@);
            // checkpoint: what the first operation has to deliver (a wrong first operation is reported here, once)
            assert(val4(raw_diff@) - (if borrow { r256() } else { 0 }) == val4(self@) - val4(rhs@));
        }
        if borrow {
            let (diff, _borrow) = u256_sub(&raw_diff, &SM2_MODP_MONT_ONE);
            proof {
                lemma_val4_bounds(diff@);
                lemma_fp_digits_any(raw_diff@, diff@);
                lemma_fp_sub_post(val4(self@), val4(rhs@), val4(diff@));
            }
            diff
        } else {
            proof { lemma_fp_sub_post(val4(self@), val4(rhs@), val4(raw_diff@)); }
            raw_diff
        }
    }

    fn fp_mul(&self, rhs: &Self) -> Self {
        mont_mul(self, rhs)
    }

    fn fp_neg(&self) -> Self {
        proof { lemma_fp_lin(); lemma_val4_bounds(self@); }
        if self.is_zero() {
            proof { lemma_fp_neg_post(val4(self@), val4(self@)); }
            self.clone()
        } else {
            proof { lemma_fp_neg_post(val4(self@), P() - val4(self@)); lemma_fp_digits_to(self@); }
            u256_sub(&SM2_P, self).0
        }
    }

    fn fp_div2(&self) -> Self {
        let mut r = self.clone();
        let mut c = 0;
        proof { lemma_fp_consts(); lemma_val4_bounds(self@); }
        if r[0] & 0x01 == 1 {
            let (sum, carry) = u256_add(&self, &SM2_P);
            r = sum;
            c = (carry as u64)
        } else {
            r[0] = self[0];
            r[1] = self[1];
            r[2] = self[2];
            r[3] = self[3];
        }
        let ghost r0 = r@;
        let ghost odd = (self@[0] & 1) == 1;
        proof {
            let x0 = self@[0];
            assert(x0 & 0x01 == 1 || x0 & 0x01 == 0) by(bit_vector);
            assert(SM2_P@[0] & 1 == 1) by(compute);
            assert(!odd ==> r0 =~= self@);
            lemma_fp_digits_any(self@, r0);     // digit rows of the addition above
            lemma_fp_div2_parity(self@, SM2_P@, r0, c == 1, odd);
        }
        r[0] = (r[0] >> 1) | ((r[1] & 1) << 63);
        r[1] = (r[1] >> 1) | ((r[2] & 1) << 63);
        r[2] = (r[2] >> 1) | ((r[3] & 1) << 63);
        r[3] = (r[3] >> 1) | ((c & 1) << 63);
        proof {
            lemma_fp_shr256(r0, c, r@);
            let tt = val4(r0) + (if c == 1 { r256() } else { 0 });
            lemma_fp_div2_post(val4(self@), val4(r@), tt);
        }
        r
    }

    fn fp_inv(&self) -> Self {
        proof { lemma_fp_consts(); lemma_params(); }
        fp_pow(self, &SM2_P_MINUS_TWO)
    }

    fn to_byte_be(&self) -> Vec<u8> {
        u256_to_be_bytes(self)
    }

    fn from_byte_be(input: &[u8]) -> Self {
        u256_from_be_bytes(input)
    }
}
//@section code gm-sm2/src/error.rs
type Sm2Result<T> = Result<T, Sm2Error>;
#[derive(PartialEq)]
enum Sm2Error {
    NotOnCurve,
    FieldSqrtError,
    InvalidDer,
    InvalidPublic,
    InvalidPrivate,
    ZeroDivisor,
    ZeroPoint,
    InvalidPoint,
    CheckPointErr,
    ZeroData,
    HashNotEqual,
    IdTooLong,
    ZeroFiled,
    InvalidFieldLen,
    ZeroSig,
    InvalidDigestLen,
    InvalidDigest,
    InvalidSecretKey,
    KdfHashError,
}
