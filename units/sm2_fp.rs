//@unit sm2_fp
//@serves C11
//@source gm-sm2/src/fields/fp64.rs
//@include-spec sm2_math
//@section spec
use core::fmt::Debug;
//@section code gm-sm2/src/u256.rs
type U256 = [u64; 4];
type U512 = [u64; 8];
const SM2_ZERO: U256 = [0, 0, 0, 0];
const SM2_ONE: U256 = [1, 0, 0, 0];
//@stub sm2_limbs u256_add
//@stub sm2_limbs u512_add
//@stub sm2_limbs u256_sub
//@stub sm2_limbs u256_mul
//@stub sm2_limbs u256_cmp
//@stub sm2_limbs u256_to_be_bytes
//@stub sm2_limbs u256_from_be_bytes
//@section code gm-sm2/src/fields.rs
trait FieldModOperation: Sized + Copy + Clone + PartialEq + Eq + Debug {
    spec fn lv(&self) -> Seq<u64>;
    fn zero() -> (r: Self)
        ensures r.lv() =~= seq![0u64, 0u64, 0u64, 0u64];
    fn one() -> (r: Self)
        ensures r.lv() =~= seq![1u64, 0u64, 0u64, 0u64];
    fn is_zero(&self) -> (r: bool)
        requires self.lv().len() == 4
        ensures r == (val4(self.lv()) == 0);
    fn fp_sqr(&self) -> (r: Self)
        requires canon(self.lv())
        ensures canon(r.lv()), fe(r.lv()) == (fe(self.lv()) * fe(self.lv())) % P();
    fn fp_double(&self) -> (r: Self)
        requires canon(self.lv())
        ensures canon(r.lv()), fe(r.lv()) == (2 * fe(self.lv())) % P();
    fn fp_triple(&self) -> (r: Self)
        requires canon(self.lv())
        ensures canon(r.lv()), fe(r.lv()) == (3 * fe(self.lv())) % P();
    fn fp_add(&self, rhs: &Self) -> (r: Self)
        requires canon(self.lv()), canon(rhs.lv())
        ensures canon(r.lv()), val4(r.lv()) == (val4(self.lv()) + val4(rhs.lv())) % P(), fe(r.lv()) == (fe(self.lv()) + fe(rhs.lv())) % P();
    fn fp_sub(&self, rhs: &Self) -> (r: Self)
        requires canon(self.lv()) || val4(self.lv()) == P(), self.lv().len() == 4, canon(rhs.lv())
        ensures canon(r.lv()) || (val4(self.lv()) == P() && val4(rhs.lv()) == 0 && val4(r.lv()) == P()),
            val4(r.lv()) % P() == (val4(self.lv()) - val4(rhs.lv())) % P(), fe(r.lv()) == (fe(self.lv()) - fe(rhs.lv())) % P();
    fn fp_mul(&self, rhs: &Self) -> (r: Self)
        requires canon(self.lv()), canon(rhs.lv())
        ensures canon(r.lv()), fe(r.lv()) == (fe(self.lv()) * fe(rhs.lv())) % P();
    fn fp_neg(&self) -> (r: Self)
        requires canon(self.lv())
        ensures canon(r.lv()), fe(r.lv()) == (P() - fe(self.lv())) % P();
    fn fp_div2(&self) -> (r: Self);
    fn fp_inv(&self) -> (r: Self)
        requires canon(self.lv())
        ensures canon(r.lv()), fe(r.lv()) == inv_p(fe(self.lv()));
    fn to_byte_be(&self) -> (r: Vec<u8>)
        requires self.lv().len() == 4
        ensures r@ == be_bytes(val4(self.lv()), 32);
    fn from_byte_be(input: &[u8]) -> (r: Self)
        requires input@.len() >= 32
        ensures r.lv().len() == 4, val4(r.lv()) == be_val(input@.subrange(0, 32));
}
//@section code gm-sm2/src/fields/fp64.rs
const SM2_P: U256 = [
    0xffffffffffffffff,
    0xffffffff00000000,
    0xffffffffffffffff,
    0xfffffffeffffffff,
];

const SM2_P_MINUS_ONE: U256 = [
    0xfffffffffffffffe,
    0xffffffff00000000,
    0xffffffffffffffff,
    0xfffffffeffffffff,
];

const SM2_P_MINUS_TWO: U256 = [
    0xfffffffffffffffd,
    0xffffffff00000000,
    0xffffffffffffffff,
    0xfffffffeffffffff,
];

const SM2_P_PRIME: U256 = [
    0x0000000000000001,
    0xffffffff00000001,
    0xfffffffe00000000,
    0xfffffffc00000001,
];

const SM2_MODP_2E512: U256 = [
    0x0000000200000003,
    0x00000002ffffffff,
    0x0000000100000001,
    0x0000000400000002,
];

const SM2_SQRT_EXP: U256 = [
    0x4000000000000000,
    0xffffffffc0000000,
    0xffffffffffffffff,
    0x3fffffffbfffffff,
];

const SM2_MODP_MONT_ONE: U256 = [1, 0xffffffff, 0, 0x100000000];

const SM2_MODP_MONT_B: U256 = [
    0x90d230632bc0dd42,
    0x71cf379ae9b537ab,
    0x527981505ea51c3c,
    0x240fe188ba20e2c8,
];

const SM2_MODP_MONT_A: U256 = [
    0xfffffffffffffffc,
    0xfffffffc00000003,
    0xffffffffffffffff,
    0xfffffffbffffffff,
];

const SM2_G_X: U256 = [
    0x715a4589334c74c7,
    0x8fe30bbff2660be1,
    0x5f9904466a39c994,
    0x32c4ae2c1f198119,
];

const SM2_G_Y: U256 = [
    0x02df32e52139f0a0,
    0xd0a9877cc62a4740,
    0x59bdcee36b692153,
    0xbc3736a2f4f6779c,
];
//@section spec local
// the code constants are the standard's parameters
proof fn lemma_fp_consts()
    ensures val4(SM2_P@) == P(), val4(SM2_P_MINUS_ONE@) == P() - 1, val4(SM2_P_MINUS_TWO@) == P() - 2,
        val4(SM2_MODP_MONT_ONE@) == r256() - P(), (P() * val4(SM2_P_PRIME@) + 1) % r256() == 0,
        val4(SM2_MODP_2E512@) == (r256() * r256()) % P(),
        4 * val4(SM2_SQRT_EXP@) == P() + 1,
        canon(SM2_MODP_MONT_A@), fe(SM2_MODP_MONT_A@) == CA(), canon(SM2_MODP_MONT_B@), fe(SM2_MODP_MONT_B@) == CB(),
        val4(SM2_G_X@) == GX(), val4(SM2_G_Y@) == GY(),
{
    assert(val4(SM2_P@) == P() && val4(SM2_P_MINUS_ONE@) == P() - 1 && val4(SM2_P_MINUS_TWO@) == P() - 2) by(compute);
    assert(val4(SM2_MODP_MONT_ONE@) == r256() - P()) by(compute);
    assert((P() * val4(SM2_P_PRIME@) + 1) % r256() == 0) by(compute);
    assert(val4(SM2_MODP_2E512@) == (r256() * r256()) % P()) by(compute);
    assert(4 * val4(SM2_SQRT_EXP@) == P() + 1) by(compute);
    assert(canon(SM2_MODP_MONT_A@) && fe(SM2_MODP_MONT_A@) == CA()) by(compute);
    assert(canon(SM2_MODP_MONT_B@) && fe(SM2_MODP_MONT_B@) == CB()) by(compute);
    assert(val4(SM2_G_X@) == GX() && val4(SM2_G_Y@) == GY()) by(compute);
}
//@section code gm-sm2/src/fields/fp64.rs

#[verifier::external_body]
fn fp_pow(a: &U256, e: &U256) -> (r: U256)
    requires canon(a@)
    ensures canon(r@), fe(r@) == pow_mod(fe(a@), val4(e@) as nat, P())
{
    let mut r = SM2_MODP_MONT_ONE;
    let mut w = 0u64;
    for i in (0..4).rev() {
        w = e[i];
        for _j in 0..64 {
            r = r.fp_sqr();
            if w & 0x8000000000000000 != 0 {
                r = r.fp_mul(a);
            }
            w <<= 1;
        }
    }
    r
}

#[verifier::external_body]
fn fp_to_mont(a: &U256) -> (r: U256)
    requires canon(a@)
    ensures canon(r@), fe(r@) == val4(a@)
{
    mont_mul(a, &SM2_MODP_2E512)
}

#[verifier::external_body]
fn fp_from_mont(a: &U256) -> (r: U256)
    requires canon(a@)
    ensures canon(r@), val4(r@) == fe(a@)
{
    mont_mul(a, &SM2_ONE)
}

#[verifier::external_body]
fn mont_mul(a: &U256, b: &U256) -> (res: U256)
    requires canon(a@), canon(b@)
    ensures canon(res@), (val4(res@) * r256()) % P() == (val4(a@) * val4(b@)) % P(), fe(res@) == (fe(a@) * fe(b@)) % P()
{
    let mut r = [0u64; 4];

    let mut z = [0u64; 8];
    let mut t = [0u64; 8];

    // z = a * b
    z = u256_mul(a, b);

    // t = low(z) * p'
    let z_low = [z[0], z[1], z[2], z[3]];
    let t1 = u256_mul(&z_low, &SM2_P_PRIME);
    t[0] = t1[0];
    t[1] = t1[1];
    t[2] = t1[2];
    t[3] = t1[3];

    // t = low(t) * p
    let t_low = [t[0], t[1], t[2], t[3]];
    t = u256_mul(&t_low, &SM2_P);

    // z = z + t
    let (sum, c) = u512_add(&z, &t);
    z = sum;

    // r = high(r)
    r = [z[4], z[5], z[6], z[7]];
    if c {
        r = u256_add(&r, &SM2_MODP_MONT_ONE).0;
    } else if u256_cmp(&r, &SM2_P) >= 0 {
        r = u256_sub(&r, &SM2_P).0
    }
    r
}

#[verifier::external_body]
fn fp_sqrt(a: &U256) -> (res: Sm2Result<U256>)
    requires canon(a@)
    ensures res is Ok ==> canon(res->Ok_0@) && (fe(res->Ok_0@) * fe(res->Ok_0@)) % P() == fe(a@),
        res is Ok <==> (pow_mod(fe(a@), val4(SM2_SQRT_EXP@) as nat, P()) * pow_mod(fe(a@), val4(SM2_SQRT_EXP@) as nat, P())) % P() == fe(a@),
{
    let r = fp_pow(a, &SM2_SQRT_EXP);
    let a1 = r.fp_sqr();
    if u256_cmp(&a1, &a) != 0 {
        return Err(Sm2Error::FieldSqrtError);
    }
    Ok(r)
}

impl FieldModOperation for U256 {
    spec fn lv(&self) -> Seq<u64> { self@ }

    #[verifier::external_body]
    fn zero() -> Self {
        SM2_ZERO
    }

    #[verifier::external_body]
    fn one() -> Self {
        SM2_ONE
    }

    #[verifier::external_body]
    fn is_zero(&self) -> bool {
        self == &SM2_ZERO
    }

    #[verifier::external_body]
    fn fp_sqr(&self) -> Self {
        self.fp_mul(self)
    }

    #[verifier::external_body]
    fn fp_double(&self) -> Self {
        self.fp_add(self)
    }

    #[verifier::external_body]
    fn fp_triple(&self) -> Self {
        let mut r = self.fp_double();
        r = self.fp_add(&r);
        r
    }

    #[verifier::external_body]
    fn fp_add(&self, rhs: &Self) -> Self {
        let (r, c) = u256_add(self, rhs);
        if c {
            let (diff, _borrow) = u256_add(&r, &SM2_MODP_MONT_ONE);
            return diff;
        }
        if u256_cmp(&r, &SM2_P) >= 0 {
            let (diff, _borrow) = u256_sub(&r, &SM2_P);
            return diff;
        }
        r
    }

    #[verifier::external_body]
    fn fp_sub(&self, rhs: &Self) -> Self {
        let (raw_diff, borrow) = u256_sub(self, rhs);
        if borrow {
            let (diff, _borrow) = u256_sub(&raw_diff, &SM2_MODP_MONT_ONE);
            diff
        } else {
            raw_diff
        }
    }

    #[verifier::external_body]
    fn fp_mul(&self, rhs: &Self) -> Self {
        mont_mul(self, rhs)
    }

    #[verifier::external_body]
    fn fp_neg(&self) -> Self {
        if self.is_zero() {
            self.clone()
        } else {
            u256_sub(&SM2_P, self).0
        }
    }

    #[verifier::external_body]
    fn fp_div2(&self) -> Self {
        let mut r = self.clone();
        let mut c = 0;
        if r[0] & 0x01 == 1 {
            r = self.fp_add(&SM2_P);
            c = u64::from(u256_add(&self, &SM2_P).1)
        } else {
            r[0] = self[0];
            r[1] = self[1];
            r[2] = self[2];
            r[3] = self[3];
        }
        r[0] = (r[0] >> 1) | ((r[1] & 1) << 63);
        r[1] = (r[1] >> 1) | ((r[2] & 1) << 63);
        r[2] = (r[2] >> 1) | ((r[3] & 1) << 63);
        r[3] = (r[3] >> 1) | ((c & 1) << 63);
        r
    }

    #[verifier::external_body]
    fn fp_inv(&self) -> Self {
        fp_pow(self, &SM2_P_MINUS_TWO)
    }

    #[verifier::external_body]
    fn to_byte_be(&self) -> Vec<u8> {
        u256_to_be_bytes(self)
    }

    #[verifier::external_body]
    fn from_byte_be(input: &[u8]) -> Self {
        u256_from_be_bytes(input)
    }
}
//@section code gm-sm2/src/error.rs
type Sm2Result<T> = Result<T, Sm2Error>;
#[derive(PartialEq)]
enum Sm2Error {
    NotOnCurve,
    FieldSqrtError,
    InvalidDer,
    InvalidPublic,
    InvalidPrivate,
    ZeroDivisor,
    ZeroPoint,
    InvalidPoint,
    CheckPointErr,
    ZeroData,
    HashNotEqual,
    IdTooLong,
    ZeroFiled,
    InvalidFieldLen,
    ZeroSig,
    InvalidDigestLen,
    InvalidDigest,
    InvalidSecretKey,
    KdfHashError,
}
