//@unit sm4_block
//@serves C02 C20
//@source gm-sm4/src/lib.rs
//@rewrite be
//@export s_enc s_dec s_rk_of theorem_block
//@assume shim_from_be_u32/shim_to_be_u32: u32::from_be_bytes / to_be_bytes are the big-endian conversions (external_body shims whose body is the replaced std call)
//@assume u32::rotate_left == rotl32, <[T]>::to_vec copies (assume_specification)
//@section spec

// ---------------- GB/T 32907 spec ----------------
pub open spec fn s_sbox() -> Seq<u8> { seq![0xd6u8, 0x90u8, 0xe9u8, 0xfeu8, 0xccu8, 0xe1u8, 0x3du8, 0xb7u8, 0x16u8, 0xb6u8, 0x14u8, 0xc2u8, 0x28u8, 0xfbu8, 0x2cu8, 0x05u8, 0x2bu8, 0x67u8, 0x9au8, 0x76u8, 0x2au8, 0xbeu8, 0x04u8, 0xc3u8, 0xaau8, 0x44u8, 0x13u8, 0x26u8, 0x49u8, 0x86u8, 0x06u8, 0x99u8, 0x9cu8, 0x42u8, 0x50u8, 0xf4u8, 0x91u8, 0xefu8, 0x98u8, 0x7au8, 0x33u8, 0x54u8, 0x0bu8, 0x43u8, 0xedu8, 0xcfu8, 0xacu8, 0x62u8, 0xe4u8, 0xb3u8, 0x1cu8, 0xa9u8, 0xc9u8, 0x08u8, 0xe8u8, 0x95u8, 0x80u8, 0xdfu8, 0x94u8, 0xfau8, 0x75u8, 0x8fu8, 0x3fu8, 0xa6u8, 0x47u8, 0x07u8, 0xa7u8, 0xfcu8, 0xf3u8, 0x73u8, 0x17u8, 0xbau8, 0x83u8, 0x59u8, 0x3cu8, 0x19u8, 0xe6u8, 0x85u8, 0x4fu8, 0xa8u8, 0x68u8, 0x6bu8, 0x81u8, 0xb2u8, 0x71u8, 0x64u8, 0xdau8, 0x8bu8, 0xf8u8, 0xebu8, 0x0fu8, 0x4bu8, 0x70u8, 0x56u8, 0x9du8, 0x35u8, 0x1eu8, 0x24u8, 0x0eu8, 0x5eu8, 0x63u8, 0x58u8, 0xd1u8, 0xa2u8, 0x25u8, 0x22u8, 0x7cu8, 0x3bu8, 0x01u8, 0x21u8, 0x78u8, 0x87u8, 0xd4u8, 0x00u8, 0x46u8, 0x57u8, 0x9fu8, 0xd3u8, 0x27u8, 0x52u8, 0x4cu8, 0x36u8, 0x02u8, 0xe7u8, 0xa0u8, 0xc4u8, 0xc8u8, 0x9eu8, 0xeau8, 0xbfu8, 0x8au8, 0xd2u8, 0x40u8, 0xc7u8, 0x38u8, 0xb5u8, 0xa3u8, 0xf7u8, 0xf2u8, 0xceu8, 0xf9u8, 0x61u8, 0x15u8, 0xa1u8, 0xe0u8, 0xaeu8, 0x5du8, 0xa4u8, 0x9bu8, 0x34u8, 0x1au8, 0x55u8, 0xadu8, 0x93u8, 0x32u8, 0x30u8, 0xf5u8, 0x8cu8, 0xb1u8, 0xe3u8, 0x1du8, 0xf6u8, 0xe2u8, 0x2eu8, 0x82u8, 0x66u8, 0xcau8, 0x60u8, 0xc0u8, 0x29u8, 0x23u8, 0xabu8, 0x0du8, 0x53u8, 0x4eu8, 0x6fu8, 0xd5u8, 0xdbu8, 0x37u8, 0x45u8, 0xdeu8, 0xfdu8, 0x8eu8, 0x2fu8, 0x03u8, 0xffu8, 0x6au8, 0x72u8, 0x6du8, 0x6cu8, 0x5bu8, 0x51u8, 0x8du8, 0x1bu8, 0xafu8, 0x92u8, 0xbbu8, 0xddu8, 0xbcu8, 0x7fu8, 0x11u8, 0xd9u8, 0x5cu8, 0x41u8, 0x1fu8, 0x10u8, 0x5au8, 0xd8u8, 0x0au8, 0xc1u8, 0x31u8, 0x88u8, 0xa5u8, 0xcdu8, 0x7bu8, 0xbdu8, 0x2du8, 0x74u8, 0xd0u8, 0x12u8, 0xb8u8, 0xe5u8, 0xb4u8, 0xb0u8, 0x89u8, 0x69u8, 0x97u8, 0x4au8, 0x0cu8, 0x96u8, 0x77u8, 0x7eu8, 0x65u8, 0xb9u8, 0xf1u8, 0x09u8, 0xc5u8, 0x6eu8, 0xc6u8, 0x84u8, 0x18u8, 0xf0u8, 0x7du8, 0xecu8, 0x3au8, 0xdcu8, 0x4du8, 0x20u8, 0x79u8, 0xeeu8, 0x5fu8, 0x3eu8, 0xd7u8, 0xcbu8, 0x39u8, 0x48u8] }
pub open spec fn s_fk() -> Seq<u32> { seq![0xa3b1bac6u32, 0x56aa3350u32, 0x677d9197u32, 0xb27022dcu32] }
pub open spec fn s_ck(i: int) -> u32 {
    ((((4 * i) * 7) % 256) as u32) << 24 | ((((4 * i + 1) * 7) % 256) as u32) << 16 | ((((4 * i + 2) * 7) % 256) as u32) << 8 | ((((4 * i + 3) * 7) % 256) as u32)
}
pub open spec fn s_bytes(x: u32) -> Seq<u8> { seq![((x >> 24) & 0xff) as u8, ((x >> 16) & 0xff) as u8, ((x >> 8) & 0xff) as u8, (x & 0xff) as u8] }
pub open spec fn s_tau(a: u32) -> u32 {
    let b = s_bytes(a);
    be32(seq![s_sbox()[b[0] as int], s_sbox()[b[1] as int], s_sbox()[b[2] as int], s_sbox()[b[3] as int]])
}
pub open spec fn s_l(b: u32) -> u32 { b ^ rotl32(b, 2) ^ rotl32(b, 10) ^ rotl32(b, 18) ^ rotl32(b, 24) }
pub open spec fn s_lp(b: u32) -> u32 { b ^ rotl32(b, 13) ^ rotl32(b, 23) }
pub open spec fn s_t(v: u32) -> u32 { s_l(s_tau(v)) }
pub open spec fn s_tp(v: u32) -> u32 { s_lp(s_tau(v)) }
pub struct Q { pub a: u32, pub b: u32, pub c: u32, pub d: u32 }
// key schedule state (K_i, K_i+1, K_i+2, K_i+3)
pub open spec fn s_kstate(mk: Q, i: int) -> Q decreases i {
    if i <= 0 { Q { a: mk.a ^ s_fk()[0], b: mk.b ^ s_fk()[1], c: mk.c ^ s_fk()[2], d: mk.d ^ s_fk()[3] } }
    else { let p = s_kstate(mk, i - 1); Q { a: p.b, b: p.c, c: p.d, d: p.a ^ s_tp(p.b ^ p.c ^ p.d ^ s_ck_word(i - 1)) } }
}
pub open spec fn s_ck_word(i: int) -> u32 { s_ck_tab()[i] }
pub open spec fn s_ck_tab() -> Seq<u32> { Seq::new(32, |i: int| s_ck(i)) }
pub open spec fn s_rk(mk: Q, i: int) -> u32 { s_kstate(mk, i + 1).d }
// round keys of a 16-byte key
pub open spec fn s_rk_of(k: Seq<u8>) -> Seq<u32> { Seq::new(32, |j: int| s_rk(s_block_in(k), j)) }
// one Feistel round
pub open spec fn s_step(p: Q, k: u32) -> Q { Q { a: p.b, b: p.c, c: p.d, d: p.a ^ s_t(p.b ^ p.c ^ p.d ^ k) } }
pub open spec fn s_rev(p: Q) -> Q { Q { a: p.d, b: p.c, c: p.b, d: p.a } }
pub open spec fn s_estate(rk: Seq<u32>, x: Q, i: int) -> Q decreases i {
    if i <= 0 { x } else { s_step(s_estate(rk, x, i - 1), rk[i - 1]) }
}
pub open spec fn s_dstate(rk: Seq<u32>, x: Q, i: int) -> Q decreases i {
    if i <= 0 { x } else { s_step(s_dstate(rk, x, i - 1), rk[31 - (i - 1)]) }
}
pub open spec fn s_block_in(b: Seq<u8>) -> Q { Q { a: be32(b.subrange(0, 4)), b: be32(b.subrange(4, 8)), c: be32(b.subrange(8, 12)), d: be32(b.subrange(12, 16)) } }
pub open spec fn s_block_out(p: Q) -> Seq<u8> { s_bytes(p.a) + s_bytes(p.b) + s_bytes(p.c) + s_bytes(p.d) }
pub open spec fn s_enc(rk: Seq<u32>, blk: Seq<u8>) -> Seq<u8> { s_block_out(s_rev(s_estate(rk, s_block_in(blk), 32))) }
pub open spec fn s_dec(rk: Seq<u32>, blk: Seq<u8>) -> Seq<u8> { s_block_out(s_rev(s_dstate(rk, s_block_in(blk), 32))) }

pub open spec fn be32(b: Seq<u8>) -> u32 { (b[0] as u32) << 24 | (b[1] as u32) << 16 | (b[2] as u32) << 8 | (b[3] as u32) }
//@section spec local
#[verifier::external_body]
fn shim_from_be_u32(b: &[u8]) -> (r: u32) requires b@.len() == 4 ensures r == be32(b@)
{ u32::from_be_bytes(b.try_into().unwrap()) }
#[verifier::external_body]
fn shim_to_be_u32(x: u32) -> (r: [u8; 4]) ensures r@ == s_bytes(x)
{ x.to_be_bytes() }
//@section code
type Sm4Result<T> = Result<T, Sm4Error>;
enum Sm4Error {
    ErrorBlockSize,
    ErrorDataLen,
    InvalidLastU8,
}
const SBOX: [u8; 256] = [
    0xd6, 0x90, 0xe9, 0xfe, 0xcc, 0xe1, 0x3d, 0xb7, 0x16, 0xb6, 0x14, 0xc2, 0x28, 0xfb, 0x2c, 0x05,
    0x2b, 0x67, 0x9a, 0x76, 0x2a, 0xbe, 0x04, 0xc3, 0xaa, 0x44, 0x13, 0x26, 0x49, 0x86, 0x06, 0x99,
    0x9c, 0x42, 0x50, 0xf4, 0x91, 0xef, 0x98, 0x7a, 0x33, 0x54, 0x0b, 0x43, 0xed, 0xcf, 0xac, 0x62,
    0xe4, 0xb3, 0x1c, 0xa9, 0xc9, 0x08, 0xe8, 0x95, 0x80, 0xdf, 0x94, 0xfa, 0x75, 0x8f, 0x3f, 0xa6,
    0x47, 0x07, 0xa7, 0xfc, 0xf3, 0x73, 0x17, 0xba, 0x83, 0x59, 0x3c, 0x19, 0xe6, 0x85, 0x4f, 0xa8,
    0x68, 0x6b, 0x81, 0xb2, 0x71, 0x64, 0xda, 0x8b, 0xf8, 0xeb, 0x0f, 0x4b, 0x70, 0x56, 0x9d, 0x35,
    0x1e, 0x24, 0x0e, 0x5e, 0x63, 0x58, 0xd1, 0xa2, 0x25, 0x22, 0x7c, 0x3b, 0x01, 0x21, 0x78, 0x87,
    0xd4, 0x00, 0x46, 0x57, 0x9f, 0xd3, 0x27, 0x52, 0x4c, 0x36, 0x02, 0xe7, 0xa0, 0xc4, 0xc8, 0x9e,
    0xea, 0xbf, 0x8a, 0xd2, 0x40, 0xc7, 0x38, 0xb5, 0xa3, 0xf7, 0xf2, 0xce, 0xf9, 0x61, 0x15, 0xa1,
    0xe0, 0xae, 0x5d, 0xa4, 0x9b, 0x34, 0x1a, 0x55, 0xad, 0x93, 0x32, 0x30, 0xf5, 0x8c, 0xb1, 0xe3,
    0x1d, 0xf6, 0xe2, 0x2e, 0x82, 0x66, 0xca, 0x60, 0xc0, 0x29, 0x23, 0xab, 0x0d, 0x53, 0x4e, 0x6f,
    0xd5, 0xdb, 0x37, 0x45, 0xde, 0xfd, 0x8e, 0x2f, 0x03, 0xff, 0x6a, 0x72, 0x6d, 0x6c, 0x5b, 0x51,
    0x8d, 0x1b, 0xaf, 0x92, 0xbb, 0xdd, 0xbc, 0x7f, 0x11, 0xd9, 0x5c, 0x41, 0x1f, 0x10, 0x5a, 0xd8,
    0x0a, 0xc1, 0x31, 0x88, 0xa5, 0xcd, 0x7b, 0xbd, 0x2d, 0x74, 0xd0, 0x12, 0xb8, 0xe5, 0xb4, 0xb0,
    0x89, 0x69, 0x97, 0x4a, 0x0c, 0x96, 0x77, 0x7e, 0x65, 0xb9, 0xf1, 0x09, 0xc5, 0x6e, 0xc6, 0x84,
    0x18, 0xf0, 0x7d, 0xec, 0x3a, 0xdc, 0x4d, 0x20, 0x79, 0xee, 0x5f, 0x3e, 0xd7, 0xcb, 0x39, 0x48,
];

const FK: [u32; 4] = [0xa3b1bac6, 0x56aa3350, 0x677d9197, 0xb27022dc];

const CK: [u32; 32] = [
    0x00070e15, 0x1c232a31, 0x383f464d, 0x545b6269, 0x70777e85, 0x8c939aa1, 0xa8afb6bd, 0xc4cbd2d9,
    0xe0e7eef5, 0xfc030a11, 0x181f262d, 0x343b4249, 0x50575e65, 0x6c737a81, 0x888f969d, 0xa4abb2b9,
    0xc0c7ced5, 0xdce3eaf1, 0xf8ff060d, 0x141b2229, 0x30373e45, 0x4c535a61, 0x686f767d, 0x848b9299,
    0xa0a7aeb5, 0xbcc3cad1, 0xd8dfe6ed, 0xf4fb0209, 0x10171e25, 0x2c333a41, 0x484f565d, 0x646b7279,
];
//@section spec
//@section spec local
proof fn lemma_tables()
    ensures SBOX@ =~= s_sbox(), FK@ =~= s_fk(), CK@ =~= s_ck_tab()
{
    assert(CK@ =~= s_ck_tab()) by {
        assert(CK@[0] == s_ck(0)) by(compute);
        assert(CK@[1] == s_ck(1)) by(compute);
        assert(CK@[2] == s_ck(2)) by(compute);
        assert(CK@[3] == s_ck(3)) by(compute);
        assert(CK@[4] == s_ck(4)) by(compute);
        assert(CK@[5] == s_ck(5)) by(compute);
        assert(CK@[6] == s_ck(6)) by(compute);
        assert(CK@[7] == s_ck(7)) by(compute);
        assert(CK@[8] == s_ck(8)) by(compute);
        assert(CK@[9] == s_ck(9)) by(compute);
        assert(CK@[10] == s_ck(10)) by(compute);
        assert(CK@[11] == s_ck(11)) by(compute);
        assert(CK@[12] == s_ck(12)) by(compute);
        assert(CK@[13] == s_ck(13)) by(compute);
        assert(CK@[14] == s_ck(14)) by(compute);
        assert(CK@[15] == s_ck(15)) by(compute);
        assert(CK@[16] == s_ck(16)) by(compute);
        assert(CK@[17] == s_ck(17)) by(compute);
        assert(CK@[18] == s_ck(18)) by(compute);
        assert(CK@[19] == s_ck(19)) by(compute);
        assert(CK@[20] == s_ck(20)) by(compute);
        assert(CK@[21] == s_ck(21)) by(compute);
        assert(CK@[22] == s_ck(22)) by(compute);
        assert(CK@[23] == s_ck(23)) by(compute);
        assert(CK@[24] == s_ck(24)) by(compute);
        assert(CK@[25] == s_ck(25)) by(compute);
        assert(CK@[26] == s_ck(26)) by(compute);
        assert(CK@[27] == s_ck(27)) by(compute);
        assert(CK@[28] == s_ck(28)) by(compute);
        assert(CK@[29] == s_ck(29)) by(compute);
        assert(CK@[30] == s_ck(30)) by(compute);
        assert(CK@[31] == s_ck(31)) by(compute);
    }
}
//@section spec
proof fn lemma_be32_bytes(x: u32) ensures be32(s_bytes(x)) == x
{
    assert((((x >> 24) & 0xff) as u8 as u32) << 24 | (((x >> 16) & 0xff) as u8 as u32) << 16 | (((x >> 8) & 0xff) as u8 as u32) << 8 | ((x & 0xff) as u8 as u32) == x) by(bit_vector);
}
proof fn lemma_xor_perm(a: u32, b: u32, c: u32, k: u32) ensures c ^ b ^ a ^ k == a ^ b ^ c ^ k { assert(c ^ b ^ a ^ k == a ^ b ^ c ^ k) by(bit_vector); }
proof fn lemma_xor_cancel(a: u32, t: u32) ensures a ^ t ^ t == a { assert(a ^ t ^ t == a) by(bit_vector); }
// undoing one round: step(rev(step(p,k)),k) == rev(p)
proof fn lemma_step_inv(p: Q, k: u32) ensures s_step(s_rev(s_step(p, k)), k) == s_rev(p)
{
    lemma_xor_perm(p.b, p.c, p.d, k);
    lemma_xor_cancel(p.a, s_t(p.b ^ p.c ^ p.d ^ k));
}
proof fn lemma_dec_undoes(rk: Seq<u32>, x: Q, i: int)
    requires rk.len() == 32, 0 <= i <= 32
    ensures s_dstate(rk, s_rev(s_estate(rk, x, 32)), i) == s_rev(s_estate(rk, x, 32 - i))
    decreases i
{
    if i > 0 {
        lemma_dec_undoes(rk, x, i - 1);
        let p = s_estate(rk, x, 32 - i);
        assert(s_estate(rk, x, 32 - i + 1) == s_step(p, rk[32 - i]));
        lemma_step_inv(p, rk[32 - i]);
    }
}
proof fn lemma_enc_undoes(rk: Seq<u32>, x: Q, i: int)
    requires rk.len() == 32, 0 <= i <= 32
    ensures s_estate(rk, s_rev(s_dstate(rk, x, 32)), i) == s_rev(s_dstate(rk, x, 32 - i))
    decreases i
{
    if i > 0 {
        lemma_enc_undoes(rk, x, i - 1);
        let p = s_dstate(rk, x, 32 - i);
        assert(s_dstate(rk, x, 32 - i + 1) == s_step(p, rk[31 - (32 - i)]));
        lemma_step_inv(p, rk[i - 1]);
    }
}
proof fn lemma_block_roundtrip(p: Q) ensures s_block_in(s_block_out(p)) == p
{
    lemma_be32_bytes(p.a); lemma_be32_bytes(p.b); lemma_be32_bytes(p.c); lemma_be32_bytes(p.d);
    let o = s_block_out(p);
    assert(o.subrange(0, 4) =~= s_bytes(p.a)); assert(o.subrange(4, 8) =~= s_bytes(p.b));
    assert(o.subrange(8, 12) =~= s_bytes(p.c)); assert(o.subrange(12, 16) =~= s_bytes(p.d));
}
proof fn lemma_bytes_be32(b: Seq<u8>) requires b.len() == 4 ensures s_bytes(be32(b)) =~= b
{
    let b0 = b[0]; let b1 = b[1]; let b2 = b[2]; let b3 = b[3];
    let x = (b0 as u32) << 24 | (b1 as u32) << 16 | (b2 as u32) << 8 | (b3 as u32);
    assert(((x >> 24) & 0xff) as u8 == b0 && ((x >> 16) & 0xff) as u8 == b1 && ((x >> 8) & 0xff) as u8 == b2 && (x & 0xff) as u8 == b3) by(bit_vector)
        requires x == (b0 as u32) << 24 | (b1 as u32) << 16 | (b2 as u32) << 8 | (b3 as u32);
}
proof fn lemma_block_out_in(b: Seq<u8>) requires b.len() == 16 ensures s_block_out(s_block_in(b)) =~= b
{
    lemma_bytes_be32(b.subrange(0, 4)); lemma_bytes_be32(b.subrange(4, 8)); lemma_bytes_be32(b.subrange(8, 12)); lemma_bytes_be32(b.subrange(12, 16));
}
proof fn lemma_block_in_inj(a: Seq<u8>, b: Seq<u8>) requires a.len() == 16, b.len() == 16, s_block_in(a) == s_block_in(b) ensures a =~= b
{
    lemma_block_out_in(a); lemma_block_out_in(b);
}
// C02: decrypt inverts encrypt and vice versa, for every round-key vector and every block
proof fn theorem_dec_enc(rk: Seq<u32>, blk: Seq<u8>)
    requires rk.len() == 32, blk.len() == 16
    ensures s_block_in(s_dec(rk, s_enc(rk, blk))) == s_block_in(blk), s_block_in(s_enc(rk, s_dec(rk, blk))) == s_block_in(blk)
{
    let x = s_block_in(blk);
    let e = s_rev(s_estate(rk, x, 32));
    lemma_block_roundtrip(e);
    lemma_dec_undoes(rk, x, 32);
    assert(s_block_in(s_enc(rk, blk)) == e);
    assert(s_dstate(rk, e, 32) == s_rev(s_estate(rk, x, 0)));
    assert(s_rev(s_rev(x)) == x);
    lemma_block_roundtrip(s_rev(s_dstate(rk, e, 32)));
    let d = s_rev(s_dstate(rk, x, 32));
    lemma_block_roundtrip(d);
    lemma_enc_undoes(rk, x, 32);
    assert(s_block_in(s_dec(rk, blk)) == d);
    assert(s_estate(rk, d, 32) == s_rev(s_dstate(rk, x, 0)));
    lemma_block_roundtrip(s_rev(s_estate(rk, d, 32)));
}
// the same on byte strings: the form the property states and the mode layer uses
proof fn theorem_block(rk: Seq<u32>, blk: Seq<u8>)
    requires rk.len() == 32, blk.len() == 16
    ensures s_enc(rk, blk).len() == 16, s_dec(rk, blk).len() == 16, s_dec(rk, s_enc(rk, blk)) =~= blk, s_enc(rk, s_dec(rk, blk)) =~= blk
{
    theorem_dec_enc(rk, blk);
    lemma_block_in_inj(s_dec(rk, s_enc(rk, blk)), blk);
    lemma_block_in_inj(s_enc(rk, s_dec(rk, blk)), blk);
}
//@section code
fn tau(a: u32) -> (r: u32) ensures r == s_tau(a) {
    proof { lemma_tables(); }
    let mut buf = shim_to_be_u32(a);
    buf[0] = SBOX[buf[0] as usize];
    buf[1] = SBOX[buf[1] as usize];
    buf[2] = SBOX[buf[2] as usize];
    buf[3] = SBOX[buf[3] as usize];
    shim_from_be_u32(&buf)
}

/// L: linear transformation
/// C = L(B) = B ⊕ (B <<< 2) ⊕ (B <<< 10) ⊕ (B <<< 18) ⊕ (B <<< 24)
fn el(b: u32) -> (r: u32) ensures r == s_l(b) {
    b ^ b.rotate_left(2) ^ b.rotate_left(10) ^ b.rotate_left(18) ^ b.rotate_left(24)
}

fn el_prime(b: u32) -> (r: u32) ensures r == s_lp(b) {
    b ^ b.rotate_left(13) ^ b.rotate_left(23)
}

fn t(val: u32) -> (r: u32) ensures r == s_t(val) {
    el(tau(val))
}

fn t_prime(val: u32) -> (r: u32) ensures r == s_tp(val) {
    el_prime(tau(val))
}
#[derive(Debug, Clone, Eq, PartialEq)]
struct Sm4Cipher {
    rk: [u32; 32],
}

impl Sm4Cipher {
    fn new(k: &[u8]) -> (res: Sm4Result<Sm4Cipher>)
        requires k@.len() == 16 //@only C02
        ensures k@.len() >= 16 ==> res is Ok && res->Ok_0.rk@ =~= s_rk_of(k@.subrange(0, 16)),
            k@.len() < 16 ==> res is Err,
    {
        if k.len() < 16 {
            return Err(Sm4Error::ErrorBlockSize);
        }
        let ghost k0 = k@;
        proof { lemma_tables();
            assert(k@.subrange(0,4) =~= k@.subrange(0,16).subrange(0,4)); assert(k@.subrange(4,8) =~= k@.subrange(0,16).subrange(4,8));
            assert(k@.subrange(8,12) =~= k@.subrange(0,16).subrange(8,12)); assert(k@.subrange(12,16) =~= k@.subrange(0,16).subrange(12,16)); }
        let mut rk = [0u32; 32];
        let mk = [
            shim_from_be_u32(&k[0..4]),
            shim_from_be_u32(&k[4..8]),
            shim_from_be_u32(&k[8..12]),
            shim_from_be_u32(&k[12..16]),
        ];
        let mut k = [mk[0] ^ FK[0], mk[1] ^ FK[1], mk[2] ^ FK[2], mk[3] ^ FK[3]];

        for i in 0..8
            invariant
                CK@ =~= s_ck_tab(),
                (Q { a: k[0], b: k[1], c: k[2], d: k[3] }) == s_kstate(s_block_in(k0.subrange(0, 16)), 4 * i as int),
                forall|j: int| 0 <= j < 4 * i ==> rk@[j] == s_rk(s_block_in(k0.subrange(0, 16)), j),
        {
            let ghost mk = s_block_in(k0.subrange(0, 16));
            let ghost st0 = s_kstate(mk, 4 * i as int);
            k[0] ^= t_prime(k[1] ^ k[2] ^ k[3] ^ CK[i * 4]);
            proof { assert((Q { a: k[1], b: k[2], c: k[3], d: k[0] }) == s_kstate(mk, 4 * i as int + 1)); }
            k[1] ^= t_prime(k[2] ^ k[3] ^ k[0] ^ CK[i * 4 + 1]);
            proof { assert((Q { a: k[2], b: k[3], c: k[0], d: k[1] }) == s_kstate(mk, 4 * i as int + 2)); }
            k[2] ^= t_prime(k[3] ^ k[0] ^ k[1] ^ CK[i * 4 + 2]);
            proof { assert((Q { a: k[3], b: k[0], c: k[1], d: k[2] }) == s_kstate(mk, 4 * i as int + 3)); }
            k[3] ^= t_prime(k[0] ^ k[1] ^ k[2] ^ CK[i * 4 + 3]);
            proof { assert((Q { a: k[0], b: k[1], c: k[2], d: k[3] }) == s_kstate(mk, 4 * i as int + 4)); }

            rk[i * 4] = k[0];
            rk[i * 4 + 1] = k[1];
            rk[i * 4 + 2] = k[2];
            rk[i * 4 + 3] = k[3];
        }
        Ok(Sm4Cipher { rk })
    }

    fn encrypt(&self, block: &[u8]) -> (res: Sm4Result<Vec<u8>>)
        requires block@.len() == 16 //@only C02
        ensures block@.len() >= 16 ==> res is Ok && res->Ok_0@ == s_enc(self.rk@, block@.subrange(0, 16)),
            block@.len() < 16 ==> res is Err,
    {
        if block.len() < 16 {
            return Err(Sm4Error::ErrorBlockSize);
        }
        let ghost x0 = s_block_in(block@.subrange(0, 16));
        proof {
            assert(block@.subrange(0,4) =~= block@.subrange(0,16).subrange(0,4)); assert(block@.subrange(4,8) =~= block@.subrange(0,16).subrange(4,8));
            assert(block@.subrange(8,12) =~= block@.subrange(0,16).subrange(8,12)); assert(block@.subrange(12,16) =~= block@.subrange(0,16).subrange(12,16)); }
        let mut x = [
            shim_from_be_u32(&block[0..4]),
            shim_from_be_u32(&block[4..8]),
            shim_from_be_u32(&block[8..12]),
            shim_from_be_u32(&block[12..16]),
        ];

        let rk = &self.rk;
        for i in 0..8
            invariant rk@ == self.rk@,
                (Q { a: x[0], b: x[1], c: x[2], d: x[3] }) == s_estate(self.rk@, x0, 4 * i as int),
        {
            let ghost r = self.rk@;
            x[0] ^= t(x[1] ^ x[2] ^ x[3] ^ rk[i * 4]);
            proof { assert((Q { a: x[1], b: x[2], c: x[3], d: x[0] }) == s_estate(r, x0, 4 * i as int + 1)); }
            x[1] ^= t(x[2] ^ x[3] ^ x[0] ^ rk[i * 4 + 1]);
            proof { assert((Q { a: x[2], b: x[3], c: x[0], d: x[1] }) == s_estate(r, x0, 4 * i as int + 2)); }
            x[2] ^= t(x[3] ^ x[0] ^ x[1] ^ rk[i * 4 + 2]);
            proof { assert((Q { a: x[3], b: x[0], c: x[1], d: x[2] }) == s_estate(r, x0, 4 * i as int + 3)); }
            x[3] ^= t(x[0] ^ x[1] ^ x[2] ^ rk[i * 4 + 3]);
            proof { assert((Q { a: x[0], b: x[1], c: x[2], d: x[3] }) == s_estate(r, x0, 4 * i as int + 4)); }
        }

        let ghost xf = Q { a: x[0], b: x[1], c: x[2], d: x[3] };
        let mut out: [u8; 16] = [0; 16];
        out[0..4].copy_from_slice(&shim_to_be_u32(x[3]));
        out[4..8].copy_from_slice(&shim_to_be_u32(x[2]));
        out[8..12].copy_from_slice(&shim_to_be_u32(x[1]));
        out[12..16].copy_from_slice(&shim_to_be_u32(x[0]));

        proof { assert(out@ =~= s_block_out(s_rev(xf))); }
        Ok(out.to_vec())
    }

    fn decrypt(&self, block: &[u8]) -> (res: Sm4Result<Vec<u8>>)
        requires block@.len() == 16 //@only C02
        ensures block@.len() >= 16 ==> res is Ok && res->Ok_0@ == s_dec(self.rk@, block@.subrange(0, 16)),
            block@.len() < 16 ==> res is Err,
    {
        if block.len() < 16 {
            return Err(Sm4Error::ErrorBlockSize);
        }
        let ghost x0 = s_block_in(block@.subrange(0, 16));
        proof {
            assert(block@.subrange(0,4) =~= block@.subrange(0,16).subrange(0,4)); assert(block@.subrange(4,8) =~= block@.subrange(0,16).subrange(4,8));
            assert(block@.subrange(8,12) =~= block@.subrange(0,16).subrange(8,12)); assert(block@.subrange(12,16) =~= block@.subrange(0,16).subrange(12,16)); }
        let mut x = [
            shim_from_be_u32(&block[0..4]),
            shim_from_be_u32(&block[4..8]),
            shim_from_be_u32(&block[8..12]),
            shim_from_be_u32(&block[12..16]),
        ];
        let rk = &self.rk;
        for i in 0..8
            invariant rk@ == self.rk@,
                (Q { a: x[0], b: x[1], c: x[2], d: x[3] }) == s_dstate(self.rk@, x0, 4 * i as int),
        {
            let ghost r = self.rk@;
            x[0] ^= t(x[1] ^ x[2] ^ x[3] ^ rk[31 - i * 4]);
            proof { assert((Q { a: x[1], b: x[2], c: x[3], d: x[0] }) == s_dstate(r, x0, 4 * i as int + 1)); }
            x[1] ^= t(x[2] ^ x[3] ^ x[0] ^ rk[31 - (i * 4 + 1)]);
            proof { assert((Q { a: x[2], b: x[3], c: x[0], d: x[1] }) == s_dstate(r, x0, 4 * i as int + 2)); }
            x[2] ^= t(x[3] ^ x[0] ^ x[1] ^ rk[31 - (i * 4 + 2)]);
            proof { assert((Q { a: x[3], b: x[0], c: x[1], d: x[2] }) == s_dstate(r, x0, 4 * i as int + 3)); }
            x[3] ^= t(x[0] ^ x[1] ^ x[2] ^ rk[31 - (i * 4 + 3)]);
            proof { assert((Q { a: x[0], b: x[1], c: x[2], d: x[3] }) == s_dstate(r, x0, 4 * i as int + 4)); }
        }
        let ghost xf = Q { a: x[0], b: x[1], c: x[2], d: x[3] };
        let mut out: [u8; 16] = [0; 16];
        out[0..4].copy_from_slice(&shim_to_be_u32(x[3]));
        out[4..8].copy_from_slice(&shim_to_be_u32(x[2]));
        out[8..12].copy_from_slice(&shim_to_be_u32(x[1]));
        out[12..16].copy_from_slice(&shim_to_be_u32(x[0]));
        proof { assert(out@ =~= s_block_out(s_rev(xf))); }
        Ok(out.to_vec())
    }
}
