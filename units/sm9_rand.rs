//@unit sm9_rand
//@serves C09 C10 C14 C17 C20
//@source gm-sm9/src/u256.rs gm-sm9/src/fields.rs gm-sm9/src/fields/fp.rs
//@assume rand::thread_rng() is an OS-seeded CSPRNG whose fill_bytes output is uniform and independent (statistical quality is outside this technique); model: fill_bytes is the only function that establishes csprng_bytes(..)
//@assume the rejection loop of random_u256 terminates with probability 1 (exec_allows_no_decreases_clause)
//@rewrite-text ret >= [1, 0, 0, 0] ==> shim_u256_ge1(&ret)
//@assume shim_u256_ge1: `ret >= [1, 0, 0, 0]` on [u64; 4] is the derived lexicographic order starting at limb 0, i.e. ret[0] >= 1 (candidates whose low limb is 0 are rejected: a 2^-64 bias, not a range violation)
//@export csprng_bytes9 csprng9
//@include-spec sm2_math
//@include-spec sm9_math
//@section spec
// provenance predicates: bytes that came out of the CSPRNG / a scalar decoded from such bytes
pub uninterp spec fn csprng_bytes9(b: Seq<u8>) -> bool;
pub open spec fn csprng9(k: Seq<u64>) -> bool { exists|b: Seq<u8>| #[trigger] csprng_bytes9(b) && b.len() == 32 && val4(k) == be_val(b) }
//@section spec local
spec fn lv4(a: U256) -> Seq<u64> { a@ }
#[verifier::external_body]
fn shim_u256_ge1(a: &U256) -> (r: bool) ensures r == (a@[0] >= 1) { *a >= [1, 0, 0, 0] }
// model of the rand crate calls the library makes
pub mod rand {
    use super::*;
    pub struct ThreadRng { pub _p: u8 }
    #[verifier::external_body]
    pub fn thread_rng() -> ThreadRng { unimplemented!() }
    impl ThreadRng {
        #[verifier::external_body]
        pub fn fill_bytes(&mut self, buf: &mut [u8])
            ensures final(buf)@.len() == old(buf)@.len(), csprng_bytes9(final(buf)@)
        { unimplemented!() }
    }
}
//@section code gm-sm9/src/u256.rs
type U256 = [u64; 4];
//@stub sm9_limbs u256_cmp
//@stub sm9_limbs u256_from_be_bytes
//@section code gm-sm9/src/u256.rs
#[verifier::exec_allows_no_decreases_clause]
fn sm9_random_u256(range: &U256) -> (ret: U256)
    ensures 1 <= val4(ret@) < val4(range@), csprng9(ret@)
{
    let mut rng = rand::thread_rng();
    let mut ret;
    loop
        ensures 1 <= val4(lv4(ret)) < val4(range@), csprng9(lv4(ret))
    {
        let mut buf: [u8; 32] = [0; 32];
        rng.fill_bytes(&mut buf[..]);
        ret = u256_from_be_bytes(&buf);
        proof { assert(buf@.subrange(0, 32) =~= buf@); }
        if u256_cmp(&ret, range) < 0 && shim_u256_ge1(&ret) {
            break;
        }
    }
    ret
}

//@section spec local
proof fn lemma_rand9_consts()
    ensures val4(SM9_N_MINUS_ONE@) == N9() - 1, val4(SM9_P_MINUS_ONE@) == P9() - 1,
{
    assert(val4(SM9_N_MINUS_ONE@) == N9() - 1 && val4(SM9_P_MINUS_ONE@) == P9() - 1) by(compute);
}
proof fn lemma_nonzero4(a: Seq<u64>)
    requires a.len() == 4, !(a =~= seq![0u64, 0u64, 0u64, 0u64])
    ensures val4(a) >= 1
{
    if a[0] == 0 && a[1] == 0 && a[2] == 0 && a[3] == 0 { assert(a =~= seq![0u64, 0u64, 0u64, 0u64]); }
}
//@extract gm-sm9/src/lib.rs SM9_N_MINUS_ONE
//@extract gm-sm9/src/lib.rs SM9_P_MINUS_ONE
//@section code gm-sm9/src/fields.rs
// public mod-N scalar sampler (not called by the crate itself): every result is in [1, N-2] and comes from the CSPRNG
#[verifier::exec_allows_no_decreases_clause]
fn fn_random_u256() -> (ret: U256)
    ensures 1 <= val4(ret@) < N9() - 1, csprng9(ret@)
{
    let mut rng = rand::thread_rng();
    let mut buf: [u8; 32] = [0; 32];
    let mut ret;
    proof { lemma_rand9_consts(); }
    loop
        ensures 1 <= val4(lv4(ret)) < N9() - 1, csprng9(lv4(ret))
    {
        rng.fill_bytes(&mut buf[..]);
        ret = u256_from_be_bytes(&buf);
        proof { assert(buf@.subrange(0, 32) =~= buf@); }
        if u256_cmp(&ret, &SM9_N_MINUS_ONE) < 0 && ret != [0, 0, 0, 0] {
            proof { lemma_nonzero4(ret@); }
            break;
        }
    }
    ret
}
//@section code gm-sm9/src/fields/fp.rs
#[verifier::exec_allows_no_decreases_clause]
fn fp_random_u256() -> (ret: U256)
    ensures 1 <= val4(ret@) < P9() - 1, csprng9(ret@)
{
    let mut rng = rand::thread_rng();
    let mut buf: [u8; 32] = [0; 32];
    let mut ret;
    proof { lemma_rand9_consts(); }
    loop
        ensures 1 <= val4(lv4(ret)) < P9() - 1, csprng9(lv4(ret))
    {
        rng.fill_bytes(&mut buf[..]);
        ret = u256_from_be_bytes(&buf);
        proof { assert(buf@.subrange(0, 32) =~= buf@); }
        if u256_cmp(&ret, &SM9_P_MINUS_ONE) < 0 && ret != [0, 0, 0, 0] {
            proof { lemma_nonzero4(ret@); }
            break;
        }
    }
    ret
}
