//@unit sm2_limbs
//@serves C11
//@source gm-sm2/src/u256.rs
//@assume byteorder::{ReadBytesExt, WriteBytesExt} on std::io::Cursor / Vec<u8> behave as the model in section `spec` (big-endian fixed-width reads/writes; Err iff fewer bytes remain)
//@include-spec sm2_math
//@section spec
// ---- model of the byteorder / std::io::Cursor calls the library makes (assumed to match the crates) ----
pub struct BigEndian;
#[derive(Debug)]
pub struct IoError;
pub struct Cursor<'a> { pub data: &'a [u8], pub pos: usize }
impl<'a> Cursor<'a> {
    #[verifier::external_body]
    pub fn new(data: &'a [u8]) -> (c: Cursor<'a>) ensures c.data@ == data@, c.pos == 0 { Cursor { data, pos: 0 } }
    #[verifier::external_body]
    pub fn read_u64<E>(&mut self) -> (r: Result<u64, IoError>)
        requires old(self).pos <= old(self).data@.len()
        ensures final(self).data@ == old(self).data@,
            old(self).pos + 8 <= old(self).data@.len() ==> r is Ok && final(self).pos == old(self).pos + 8
                && r->Ok_0 as int == be_val(old(self).data@.subrange(old(self).pos as int, old(self).pos + 8)),
            old(self).pos + 8 > old(self).data@.len() ==> r is Err && final(self).pos <= final(self).data@.len(),
    { unimplemented!() }
}
pub trait WriteBytesExt {
    spec fn wbytes(&self) -> Seq<u8>;
    fn write_u64<E>(&mut self, v: u64) -> (r: Result<(), IoError>)
        ensures r is Ok, final(self).wbytes() == old(self).wbytes() + be_bytes(v as int, 8);
    fn write_u16<E>(&mut self, v: u16) -> (r: Result<(), IoError>)
        ensures r is Ok, final(self).wbytes() == old(self).wbytes() + be_bytes(v as int, 2);
}
impl WriteBytesExt for Vec<u8> {
    open spec fn wbytes(&self) -> Seq<u8> { self@ }
    #[verifier::external_body]
    fn write_u64<E>(&mut self, v: u64) -> (r: Result<(), IoError>) { self.extend_from_slice(&v.to_be_bytes()); Ok(()) }
    #[verifier::external_body]
    fn write_u16<E>(&mut self, v: u16) -> (r: Result<(), IoError>) { self.extend_from_slice(&v.to_be_bytes()); Ok(()) }
}
//@section code
type U256 = [u64; 4];
type U512 = [u64; 8];

const SM2_ZERO: U256 = [0, 0, 0, 0];
const SM2_ONE: U256 = [1, 0, 0, 0];

#[verifier::external_body]
const fn u256_add(a: &U256, b: &U256) -> (res: (U256, bool))
    ensures val4(res.0@) + (if res.1 { r256() } else { 0 }) == val4(a@) + val4(b@)
{
    let mut sum = [0; 4];
    let mut carry = false;
    let mut i = 0;
    loop {
        let (t_sum, c) = {
            let (m, c1) = a[i].overflowing_add(b[i]);
            let (r, c2) = m.overflowing_add(carry as u64);
            (r, c1 || c2)
        };
        sum[i] = t_sum;
        carry = c;
        if i == 3 {
            break;
        }
        i += 1;
    }
    (sum, carry)
}

#[verifier::external_body]
const fn u512_add(a: &U512, b: &U512) -> (res: (U512, bool))
    ensures val8(res.0@) + (if res.1 { r256() * r256() } else { 0 }) == val8(a@) + val8(b@)
{
    let mut sum = [0; 8];
    let mut carry = false;
    let mut i = 0;
    loop {
        let (t_sum, c) = {
            let (m, c1) = a[i].overflowing_add(b[i]);
            let (r, c2) = m.overflowing_add(carry as u64);
            (r, c1 || c2)
        };
        sum[i] = t_sum;
        carry = c;
        if i == 7 {
            break;
        }
        i += 1;
    }
    (sum, carry)
}

#[verifier::external_body]
const fn u256_sub(a: &U256, b: &U256) -> (res: (U256, bool))
    ensures val4(res.0@) - (if res.1 { r256() } else { 0 }) == val4(a@) - val4(b@)
{
    let mut r = [0; 4];
    let mut borrow = false;
    let mut j = 3;
    loop {
        let i = 3 - j;
        let (diff, bor) = {
            let (a, b1) = a[i].overflowing_sub(borrow as u64);
            let (res, b2) = a.overflowing_sub(b[i]);
            (res, b1 || b2)
        };
        r[i] = diff;
        borrow = bor;
        if j == 0 {
            break;
        }
        j -= 1;
    }
    (r, borrow)
}

#[verifier::external_body]
fn u256_mul(a: &U256, b: &U256) -> (ret: U512)
    ensures val8(ret@) == val4(a@) * val4(b@)
{
    let mut a_: [u64; 8] = [0; 8];
    let mut b_: [u64; 8] = [0; 8];
    let mut ret: [u64; 8] = [0; 8];
    let mut s: [u64; 16] = [0; 16];

    for i in 0..4 {
        a_[2 * i] = a[i] & 0xffffffff;
        b_[2 * i] = b[i] & 0xffffffff;
        a_[2 * i + 1] = a[i] >> 32;
        b_[2 * i + 1] = b[i] >> 32;
    }

    let mut u = 0;
    for i in 0..8 {
        u = 0;
        for j in 0..8 {
            u = s[i + j] + a_[i] * b_[j] + u;
            s[i + j] = u & 0xffffffff;
            u >>= 32;
        }
        s[i + 8] = u;
    }

    for i in 0..8 {
        ret[i] = (s[2 * i + 1] << 32) | s[2 * i];
    }
    ret
}

#[verifier::external_body]
const fn u256_cmp(a: &U256, b: &U256) -> (r: i32)
    ensures r == (if val4(a@) > val4(b@) { 1i32 } else if val4(a@) < val4(b@) { -1i32 } else { 0i32 })
{
    if a[3] > b[3] {
        return 1;
    }
    if a[3] < b[3] {
        return -1;
    }
    if a[2] > b[2] {
        return 1;
    }
    if a[2] < b[2] {
        return -1;
    }
    if a[1] > b[1] {
        return 1;
    }
    if a[1] < b[1] {
        return -1;
    }
    if a[0] > b[0] {
        return 1;
    }
    if a[0] < b[0] {
        return -1;
    }
    return 0;
}

#[verifier::external_body]
fn u256_to_be_bytes(a: &U256) -> (ret: Vec<u8>)
    ensures ret@ == be_bytes(val4(a@), 32)
{
    let mut ret: Vec<u8> = Vec::new();
    for i in (0..4).rev() {
        ret.write_u64::<BigEndian>(a[i]).unwrap();
    }
    ret
}

#[verifier::external_body]
fn u256_from_be_bytes(input: &[u8]) -> (elem: U256)
    requires input@.len() >= 32
    ensures val4(elem@) == be_val(input@.subrange(0, 32))
{
    let mut elem = [0, 0, 0, 0];
    let mut c = Cursor::new(input);
    for i in (0..4).rev() {
        elem[i] = c.read_u64::<BigEndian>().unwrap();
    }
    elem
}
