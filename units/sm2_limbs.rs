//@unit sm2_limbs
//@serves C03 C04 C05 C06 C11 C14 C15 C19 C20
//@source gm-sm2/src/u256.rs gm-sm2/src/util.rs
//@assume byteorder::{ReadBytesExt, WriteBytesExt} on std::io::Cursor / Vec<u8> behave as the model in section `spec` (big-endian fixed-width reads/writes; Err iff fewer bytes remain)
//@include-spec sm2_math
//@section spec
// ---- model of the byteorder / std::io::Cursor calls the library makes (assumed to match the crates) ----
pub struct BigEndian;
#[derive(Debug)]
pub struct IoError;
pub struct Cursor<'a> { pub data: &'a [u8], pub pos: usize }
impl<'a> Cursor<'a> {
    #[verifier::external_body]
    pub fn new(data: &'a [u8]) -> (c: Cursor<'a>) ensures c.data@ == data@, c.pos == 0 { Cursor { data, pos: 0 } }
    #[verifier::external_body]
    pub fn read_u64<E>(&mut self) -> (r: Result<u64, IoError>)
        requires old(self).pos <= old(self).data@.len()
        ensures final(self).data@ == old(self).data@,
            old(self).pos + 8 <= old(self).data@.len() ==> r is Ok && final(self).pos == old(self).pos + 8
                && r->Ok_0 as int == be_val(old(self).data@.subrange(old(self).pos as int, old(self).pos + 8)),
            old(self).pos + 8 > old(self).data@.len() ==> r is Err && final(self).pos <= final(self).data@.len(),
    { unimplemented!() }
}
pub trait WriteBytesExt {
    spec fn wbytes(&self) -> Seq<u8>;
    fn write_u64<E>(&mut self, v: u64) -> (r: Result<(), IoError>)
        ensures r is Ok, final(self).wbytes() == old(self).wbytes() + be_bytes(v as int, 8);
    fn write_u16<E>(&mut self, v: u16) -> (r: Result<(), IoError>)
        ensures r is Ok, final(self).wbytes() == old(self).wbytes() + be_bytes(v as int, 2);
}
impl WriteBytesExt for Vec<u8> {
    open spec fn wbytes(&self) -> Seq<u8> { self@ }
    #[verifier::external_body]
    fn write_u64<E>(&mut self, v: u64) -> (r: Result<(), IoError>) { self.extend_from_slice(&v.to_be_bytes()); Ok(()) }
    #[verifier::external_body]
    fn write_u16<E>(&mut self, v: u16) -> (r: Result<(), IoError>) { self.extend_from_slice(&v.to_be_bytes()); Ok(()) }
}
// ---- partial limb values (literal powers of 2^64 so that limb reasoning stays linear) ----
pub open spec fn p64(i: int) -> int {
    if i <= 0 { 1 } else if i == 1 { 0x1_0000_0000_0000_0000int } else if i == 2 { 0x1_0000_0000_0000_0000int * 0x1_0000_0000_0000_0000int }
    else if i == 3 { 0x1_0000_0000_0000_0000int * 0x1_0000_0000_0000_0000int * 0x1_0000_0000_0000_0000int }
    else if i == 4 { 0x1_0000_0000_0000_0000int * 0x1_0000_0000_0000_0000int * 0x1_0000_0000_0000_0000int * 0x1_0000_0000_0000_0000int }
    else if i == 5 { 0x1_0000_0000_0000_0000int * 0x1_0000_0000_0000_0000int * 0x1_0000_0000_0000_0000int * 0x1_0000_0000_0000_0000int * 0x1_0000_0000_0000_0000int }
    else if i == 6 { 0x1_0000_0000_0000_0000int * 0x1_0000_0000_0000_0000int * 0x1_0000_0000_0000_0000int * 0x1_0000_0000_0000_0000int * 0x1_0000_0000_0000_0000int * 0x1_0000_0000_0000_0000int }
    else if i == 7 { 0x1_0000_0000_0000_0000int * 0x1_0000_0000_0000_0000int * 0x1_0000_0000_0000_0000int * 0x1_0000_0000_0000_0000int * 0x1_0000_0000_0000_0000int * 0x1_0000_0000_0000_0000int * 0x1_0000_0000_0000_0000int }
    else { 0x1_0000_0000_0000_0000int * 0x1_0000_0000_0000_0000int * 0x1_0000_0000_0000_0000int * 0x1_0000_0000_0000_0000int * 0x1_0000_0000_0000_0000int * 0x1_0000_0000_0000_0000int * 0x1_0000_0000_0000_0000int * 0x1_0000_0000_0000_0000int }
}
// value of the low n limbs (n <= 8)
pub open spec fn pv(a: Seq<u64>, n: int) -> int {
    (if n <= 0 { 0 } else { a[0] as int + 0x1_0000_0000_0000_0000int * (if n <= 1 { 0 } else { a[1] as int + 0x1_0000_0000_0000_0000int * (if n <= 2 { 0 } else { a[2] as int + 0x1_0000_0000_0000_0000int * (if n <= 3 { 0 } else { a[3] as int + 0x1_0000_0000_0000_0000int * (if n <= 4 { 0 } else { a[4] as int + 0x1_0000_0000_0000_0000int * (if n <= 5 { 0 } else { a[5] as int + 0x1_0000_0000_0000_0000int * (if n <= 6 { 0 } else { a[6] as int + 0x1_0000_0000_0000_0000int * (if n <= 7 { 0 } else { a[7] as int + 0x1_0000_0000_0000_0000int * 0 }) }) }) }) }) }) }) })
}
pub proof fn lemma_r256_mul(x: int) ensures r256() * x == 0x1_0000_0000_0000_0000int * (0x1_0000_0000_0000_0000int * (0x1_0000_0000_0000_0000int * (0x1_0000_0000_0000_0000int * x)))
{ assert(r256() * x == 0x1_0000_0000_0000_0000int * (0x1_0000_0000_0000_0000int * (0x1_0000_0000_0000_0000int * (0x1_0000_0000_0000_0000int * x)))) by(nonlinear_arith); }
pub proof fn lemma_pv4(a: Seq<u64>) requires a.len() == 4 ensures pv(a, 4) == val4(a) { }
pub proof fn lemma_pv8(a: Seq<u64>) requires a.len() == 8 ensures pv(a, 8) == val8(a) { lemma_r256_mul(val4(a.subrange(4, 8))); }
// symbolic powers of 2^64 and partial limb values (used where literal coefficients get too large for the solver)
pub open spec fn p64r(n: int) -> int decreases n { if n <= 0 { 1 } else { 0x1_0000_0000_0000_0000int * p64r(n - 1) } }
pub open spec fn pvr(a: Seq<u64>, n: int) -> int decreases n { if n <= 0 { 0 } else { pvr(a, n - 1) + p64r(n - 1) * a[n - 1] as int } }
pub open spec fn hv64(a: Seq<u64>, lo: int, n: int) -> int decreases n - lo { if lo >= n { 0 } else { a[lo] as int + 0x1_0000_0000_0000_0000int * hv64(a, lo + 1, n) } }
pub proof fn lemma_pvr_update(s: Seq<u64>, k: int, v: u64, n: int)
    requires 0 <= n <= k < s.len()
    ensures pvr(s.update(k, v), n) == pvr(s, n)
    decreases n
{ if n > 0 { lemma_pvr_update(s, k, v, n - 1); } }
pub proof fn lemma_pvr_hv64(s: Seq<u64>, lo: int, n: int)
    requires 0 <= lo <= n
    ensures pvr(s, n) == pvr(s, lo) + p64r(lo) * hv64(s, lo, n)
    decreases n - lo
{
    if lo == n {
        assert(p64r(lo) * 0 == 0);
    } else {
        lemma_pvr_hv64(s, lo + 1, n);
        let h = hv64(s, lo + 1, n);
        let p = p64r(lo);
        let d = s[lo] as int;
        assert(p64r(lo + 1) == 0x1_0000_0000_0000_0000int * p);
        assert(pvr(s, lo + 1) == pvr(s, lo) + p * d);
        assert(hv64(s, lo, n) == d + 0x1_0000_0000_0000_0000int * h);
        assert(p * d + (0x1_0000_0000_0000_0000int * p) * h == p * (d + 0x1_0000_0000_0000_0000int * h)) by(nonlinear_arith);
    }
}
pub proof fn lemma_pvr8(a: Seq<u64>) requires a.len() == 8 ensures pvr(a, 8) == val8(a)
{
    lemma_pvr_hv64(a, 0, 8);
    assert(pvr(a, 0) == 0 && p64r(0) == 1);
    reveal_with_fuel(hv64, 9);
    lemma_pv8(a);
}
pub proof fn lemma_add_step(s: int, aa: int, bb: int, p: int, t: int, x: int, y: int, co: bool, cn: bool)
    requires s + (if co { p } else { 0 }) == aa + bb,
        t + (if cn { 0x1_0000_0000_0000_0000int } else { 0 }) == x + y + (if co { 1int } else { 0 }),
    ensures (s + p * t) + (if cn { 0x1_0000_0000_0000_0000int * p } else { 0 }) == (aa + p * x) + (bb + p * y)
{
    let c0 = if co { 1int } else { 0 };
    let c1 = if cn { 1int } else { 0 };
    assert(s + c0 * p == aa + bb);
    assert(t + c1 * 0x1_0000_0000_0000_0000int == x + y + c0);
    assert((s + p * t) + c1 * (0x1_0000_0000_0000_0000int * p) == (aa + p * x) + (bb + p * y)) by(nonlinear_arith)
        requires s + c0 * p == aa + bb, t + c1 * 0x1_0000_0000_0000_0000int == x + y + c0;
}
pub proof fn lemma_sub_step(s: int, aa: int, bb: int, p: int, t: int, x: int, y: int, bo: bool, bn: bool)
    requires s - (if bo { p } else { 0 }) == aa - bb,
        t - (if bn { 0x1_0000_0000_0000_0000int } else { 0 }) == x - y - (if bo { 1int } else { 0 }),
    ensures (s + p * t) - (if bn { 0x1_0000_0000_0000_0000int * p } else { 0 }) == (aa + p * x) - (bb + p * y)
{
    let c0 = if bo { 1int } else { 0 };
    let c1 = if bn { 1int } else { 0 };
    assert(s - c0 * p == aa - bb);
    assert(t - c1 * 0x1_0000_0000_0000_0000int == x - y - c0);
    assert((s + p * t) - c1 * (0x1_0000_0000_0000_0000int * p) == (aa + p * x) - (bb + p * y)) by(nonlinear_arith)
        requires s - c0 * p == aa - bb, t - c1 * 0x1_0000_0000_0000_0000int == x - y - c0;
}
// ---- big-endian byte strings vs limbs ----
// value of the top k limbs of a 4-limb number
pub open spec fn hv(a: Seq<u64>, k: int) -> int {
    if k <= 0 { 0 } else if k == 1 { a[3] as int } else if k == 2 { a[2] as int + 0x1_0000_0000_0000_0000int * (a[3] as int) }
    else if k == 3 { a[1] as int + 0x1_0000_0000_0000_0000int * (a[2] as int + 0x1_0000_0000_0000_0000int * (a[3] as int)) } else { val4(a) }
}
pub proof fn lemma_be_bytes_concat(h: int, x: int, n: nat, m: nat)
    requires 0 <= x < pow256n(m)
    ensures be_bytes(pow256n(m) * h + x, n + m) =~= be_bytes(h, n) + be_bytes(x, m)
    decreases m
{
    if m == 0 {
        assert(pow256n(0) == 1);
        assert(be_bytes(x, 0) =~= Seq::<u8>::empty());
    } else {
        let p = pow256n((m - 1) as nat);
        let v = pow256n(m) * h + x;
        assert(pow256n(m) == 256 * p);
        assert((256 * p) * h == 256 * (p * h)) by(nonlinear_arith);
        assert(v / 256 == p * h + x / 256 && v % 256 == x % 256);
        lemma_be_bytes_concat(h, x / 256, n, (m - 1) as nat);
        assert(be_bytes(v, n + m) == be_bytes(v / 256, (n + m - 1) as nat).push((v % 256) as u8));
        assert(be_bytes(x, m) == be_bytes(x / 256, (m - 1) as nat).push((x % 256) as u8));
    }
}
pub proof fn lemma_be_val_concat(s: Seq<u8>, t: Seq<u8>)
    ensures be_val(s + t) == pow256n(t.len()) * be_val(s) + be_val(t)
    decreases t.len()
{
    if t.len() == 0 {
        assert(s + t =~= s);
        assert(pow256n(0) == 1);
    } else {
        let p = pow256n((t.len() - 1) as nat);
        assert(pow256n(t.len()) == 256 * p);
        assert((s + t).drop_last() =~= s + t.drop_last());
        assert((s + t).last() == t.last());
        lemma_be_val_concat(s, t.drop_last());
        assert((256 * p) * be_val(s) == 256 * (p * be_val(s))) by(nonlinear_arith);
    }
}
pub proof fn lemma_be_val_32(b: Seq<u8>)
    requires b.len() == 32
    ensures be_val(b) == be_val(b.subrange(24, 32)) + 0x1_0000_0000_0000_0000int * (be_val(b.subrange(16, 24)) + 0x1_0000_0000_0000_0000int * (be_val(b.subrange(8, 16)) + 0x1_0000_0000_0000_0000int * be_val(b.subrange(0, 8))))
{
    lemma_pow256n_32();
    assert(b =~= b.subrange(0, 24) + b.subrange(24, 32));
    lemma_be_val_concat(b.subrange(0, 24), b.subrange(24, 32));
    assert(b.subrange(0, 24) =~= b.subrange(0, 16) + b.subrange(16, 24));
    lemma_be_val_concat(b.subrange(0, 16), b.subrange(16, 24));
    assert(b.subrange(0, 16) =~= b.subrange(0, 8) + b.subrange(8, 16));
    lemma_be_val_concat(b.subrange(0, 8), b.subrange(8, 16));
}
// ---- 32-bit digit strings (schoolbook multiplication) ----
use vstd::arithmetic::mul::*;
// pow32(k) = 2^(32k)
pub open spec fn pow32(k: int) -> int decreases k { if k <= 0 { 1 } else { 0x1_0000_0000int * pow32(k - 1) } }
// little-endian value of the first n 32-bit digits
pub open spec fn val32(s: Seq<u64>, n: int) -> int decreases n { if n <= 0 { 0 } else { val32(s, n - 1) + s[n - 1] as int * pow32(n - 1) } }
// Horner value of digits lo..n
pub open spec fn hv32(s: Seq<u64>, lo: int, n: int) -> int decreases n - lo { if lo >= n { 0 } else { s[lo] as int + 0x1_0000_0000int * hv32(s, lo + 1, n) } }
// sum_{j'<j} x * b[j'] * pow32(i + j')
pub open spec fn rowsum(x: int, b: Seq<u64>, i: int, j: int) -> int decreases j {
    if j <= 0 { 0 } else { rowsum(x, b, i, j - 1) + x * (b[j - 1] as int) * pow32(i + j - 1) }
}
pub open spec fn rows(a: Seq<u64>, b: Seq<u64>, i: int) -> int decreases i {
    if i <= 0 { 0 } else { rows(a, b, i - 1) + rowsum(a[i - 1] as int, b, i - 1, 8) }
}
pub proof fn lemma_pow32_add(a: int, b: int)
    requires a >= 0, b >= 0
    ensures pow32(a + b) == pow32(a) * pow32(b)
    decreases b
{
    if b == 0 { assert(pow32(0) == 1); }
    else {
        lemma_pow32_add(a, b - 1);
        assert(pow32(a + b) == 0x1_0000_0000int * pow32(a + b - 1));
        assert(pow32(b) == 0x1_0000_0000int * pow32(b - 1));
        assert(0x1_0000_0000int * (pow32(a) * pow32(b - 1)) == pow32(a) * (0x1_0000_0000int * pow32(b - 1))) by(nonlinear_arith);
    }
}
pub proof fn lemma_pow32_pos(k: int) ensures pow32(k) >= 1 decreases k {
    if k > 0 { lemma_pow32_pos(k - 1); }
}
// updating digit k (k < n) changes val32 by (v - old) * pow32(k)
pub proof fn lemma_val32_update(s: Seq<u64>, k: int, v: u64, n: int)
    requires 0 <= k < s.len(), 0 <= n <= s.len()
    ensures val32(s.update(k, v), n) == val32(s, n) + (if k < n { (v as int - s[k] as int) * pow32(k) } else { 0 })
    decreases n
{
    if n > 0 {
        lemma_val32_update(s, k, v, n - 1);
        if k == n - 1 {
            assert((v as int) * pow32(k) == (s[k] as int) * pow32(k) + (v as int - s[k] as int) * pow32(k)) by(nonlinear_arith);
        }
    }
}
pub proof fn lemma_val32_zero(s: Seq<u64>, n: int)
    requires 0 <= n <= s.len(), forall|k: int| 0 <= k < n ==> s[k] == 0
    ensures val32(s, n) == 0
    decreases n
{
    if n > 0 { lemma_val32_zero(s, n - 1); assert(0 * pow32(n - 1) == 0); }
}
pub proof fn lemma_step(sk: int, ab: int, u: int, sk2: int, u2: int, pk: int)
    requires sk2 + u2 * 0x1_0000_0000int == sk + ab + u,
    ensures (sk2 - sk) * pk + u2 * (0x1_0000_0000int * pk) == ab * pk + u * pk
{
    assert((sk2 - sk) * pk + u2 * (0x1_0000_0000int * pk) == (sk2 - sk + u2 * 0x1_0000_0000int) * pk) by(nonlinear_arith);
    assert((sk + ab + u - sk) * pk == ab * pk + u * pk) by(nonlinear_arith);
}
pub proof fn lemma_val32_hv32(s: Seq<u64>, lo: int, n: int)
    requires 0 <= lo <= n
    ensures val32(s, n) == val32(s, lo) + pow32(lo) * hv32(s, lo, n)
    decreases n - lo
{
    if lo == n {
        assert(pow32(lo) * 0 == 0);
    } else {
        lemma_val32_hv32(s, lo + 1, n);
        let h = hv32(s, lo + 1, n);
        let p = pow32(lo);
        let d = s[lo] as int;
        assert(pow32(lo + 1) == 0x1_0000_0000int * p);
        assert(val32(s, lo + 1) == val32(s, lo) + d * p);
        assert(hv32(s, lo, n) == d + 0x1_0000_0000int * h);
        assert(d * p + (0x1_0000_0000int * p) * h == p * (d + 0x1_0000_0000int * h)) by(nonlinear_arith);
    }
}
// limb k of l is split into the 32-bit digits 2k, 2k+1 of d
pub open spec fn split_at(d: Seq<u64>, l: Seq<u64>, k: int) -> bool {
    l[k] as int == d[2 * k] as int + 0x1_0000_0000int * d[2 * k + 1] as int && d[2 * k] < 0x1_0000_0000 && d[2 * k + 1] < 0x1_0000_0000
}
pub open spec fn join_at(l: Seq<u64>, d: Seq<u64>, k: int) -> bool { l[k] as int == d[2 * k] as int + 0x1_0000_0000int * d[2 * k + 1] as int }
// limbs l and digits d with l[k] == d[2k] + 2^32 d[2k+1]
pub proof fn lemma_digits8(d: Seq<u64>, l: Seq<u64>)
    requires d.len() == 8, l.len() == 4,
        l[0] as int == d[0] as int + 0x1_0000_0000int * d[1] as int, l[1] as int == d[2] as int + 0x1_0000_0000int * d[3] as int,
        l[2] as int == d[4] as int + 0x1_0000_0000int * d[5] as int, l[3] as int == d[6] as int + 0x1_0000_0000int * d[7] as int,
    ensures val32(d, 8) == val4(l)
{
    lemma_val32_hv32(d, 0, 8);
    assert(val32(d, 0) == 0 && pow32(0) == 1);
    reveal_with_fuel(hv32, 9);
}
pub proof fn lemma_digits16(d: Seq<u64>, l: Seq<u64>)
    requires d.len() == 16, l.len() == 8,
        l[0] as int == d[0] as int + 0x1_0000_0000int * d[1] as int, l[1] as int == d[2] as int + 0x1_0000_0000int * d[3] as int,
        l[2] as int == d[4] as int + 0x1_0000_0000int * d[5] as int, l[3] as int == d[6] as int + 0x1_0000_0000int * d[7] as int,
        l[4] as int == d[8] as int + 0x1_0000_0000int * d[9] as int, l[5] as int == d[10] as int + 0x1_0000_0000int * d[11] as int,
        l[6] as int == d[12] as int + 0x1_0000_0000int * d[13] as int, l[7] as int == d[14] as int + 0x1_0000_0000int * d[15] as int,
    ensures val32(d, 16) == val8(l)
{
    lemma_val32_hv32(d, 0, 16);
    assert(val32(d, 0) == 0 && pow32(0) == 1);
    reveal_with_fuel(hv32, 17);
    lemma_pv8(l);
}
pub proof fn lemma_rowsum(x: int, b: Seq<u64>, i: int, j: int)
    requires i >= 0, j >= 0
    ensures rowsum(x, b, i, j) == (x * pow32(i)) * val32(b, j)
    decreases j
{
    if j == 0 {
        assert((x * pow32(i)) * 0 == 0);
    } else {
        lemma_rowsum(x, b, i, j - 1);
        lemma_pow32_add(i, j - 1);
        let bj = b[j - 1] as int;
        let pi = pow32(i);
        let pj = pow32(j - 1);
        let v = val32(b, j - 1);
        assert(val32(b, j) == v + bj * pj);
        assert(rowsum(x, b, i, j) == rowsum(x, b, i, j - 1) + x * bj * pow32(i + j - 1));
        assert((x * pi) * v + x * bj * (pi * pj) == (x * pi) * (v + bj * pj)) by(nonlinear_arith);
    }
}
pub proof fn lemma_rows(a: Seq<u64>, b: Seq<u64>, i: int)
    requires i >= 0
    ensures rows(a, b, i) == val32(a, i) * val32(b, 8)
    decreases i
{
    if i == 0 {
        assert(0 * val32(b, 8) == 0);
    } else {
        lemma_rows(a, b, i - 1);
        lemma_rowsum(a[i - 1] as int, b, i - 1, 8);
        let v = val32(b, 8);
        let ai = a[i - 1] as int;
        let p = pow32(i - 1);
        let w = val32(a, i - 1);
        assert(val32(a, i) == w + ai * p);
        assert(w * v + (ai * p) * v == (w + ai * p) * v) by(nonlinear_arith);
    }
}
//@section code
type U256 = [u64; 4];
type U512 = [u64; 8];

const SM2_ZERO: U256 = [0, 0, 0, 0];
const SM2_ONE: U256 = [1, 0, 0, 0];

const fn u256_add(a: &U256, b: &U256) -> (res: (U256, bool))
    ensures val4(res.0@) + (if res.1 { r256() } else { 0 }) == val4(a@) + val4(b@)
{
    let mut sum = [0; 4];
    let mut carry = false;
    let mut i = 0;
    loop
        invariant_except_break 0 <= i <= 3, pv(sum@, i as int) + (if carry { p64(i as int) } else { 0 }) == pv(a@, i as int) + pv(b@, i as int),
        ensures pv(sum@, 4) + (if carry { p64(4) } else { 0 }) == pv(a@, 4) + pv(b@, 4),
        decreases 3 - i
    {
        let (t_sum, c) = {
            let (m, c1) = a[i].overflowing_add(b[i]);
            let (r, c2) = m.overflowing_add(carry as u64);
            (r, c1 || c2)
        };
        sum[i] = t_sum;
        carry = c;
        if i == 3 {
            break;
        }
        i += 1;
    }
    (sum, carry)
}

const fn u512_add(a: &U512, b: &U512) -> (res: (U512, bool))
    ensures val8(res.0@) + (if res.1 { r256() * r256() } else { 0 }) == val8(a@) + val8(b@)
{
    let mut sum = [0; 8];
    let mut carry = false;
    let mut i = 0;
    loop
        invariant_except_break 0 <= i <= 7, pvr(sum@, i as int) + (if carry { p64r(i as int) } else { 0 }) == pvr(a@, i as int) + pvr(b@, i as int),
        ensures pvr(sum@, 8) + (if carry { p64r(8) } else { 0 }) == pvr(a@, 8) + pvr(b@, 8),
        decreases 7 - i
    {
        let ghost co = carry;
        let ghost s0 = sum@;
        let (t_sum, c) = {
            let (m, c1) = a[i].overflowing_add(b[i]);
            let (r, c2) = m.overflowing_add(carry as u64);
            (r, c1 || c2)
        };
        sum[i] = t_sum;
        carry = c;
        proof {
            lemma_pvr_update(s0, i as int, t_sum, i as int);
            lemma_add_step(pvr(s0, i as int), pvr(a@, i as int), pvr(b@, i as int), p64r(i as int), t_sum as int, a[i as int] as int, b[i as int] as int, co, carry);
        }
        if i == 7 {
            break;
        }
        i += 1;
    }
    proof { lemma_pvr8(sum@); lemma_pvr8(a@); lemma_pvr8(b@); assert(r256() * r256() == p64r(8)) by(compute); }
    (sum, carry)
}

const fn u256_sub(a: &U256, b: &U256) -> (res: (U256, bool))
    ensures val4(res.0@) - (if res.1 { r256() } else { 0 }) == val4(a@) - val4(b@)
{
    let mut r = [0; 4];
    let mut borrow = false;
    let mut j = 3;
    loop
        invariant_except_break 0 <= j <= 3, pv(r@, 3 - j as int) - (if borrow { p64(3 - j as int) } else { 0 }) == pv(a@, 3 - j as int) - pv(b@, 3 - j as int),
        ensures pv(r@, 4) - (if borrow { p64(4) } else { 0 }) == pv(a@, 4) - pv(b@, 4),
        decreases j
    {
        let i = 3 - j;
        let (diff, bor) = {
            let (a, b1) = a[i].overflowing_sub(borrow as u64);
            let (res, b2) = a.overflowing_sub(b[i]);
            (res, b1 || b2)
        };
        r[i] = diff;
        borrow = bor;
        if j == 0 {
            break;
        }
        j -= 1;
    }
    (r, borrow)
}

const fn u512_sub(a: &U512, b: &U512) -> (res: (U512, bool))
    ensures val8(res.0@) - (if res.1 { r256() * r256() } else { 0 }) == val8(a@) - val8(b@)
{
    let mut r = [0; 8];
    let mut borrow = false;
    let mut j = 7;
    loop
        invariant_except_break 0 <= j <= 7, pvr(r@, 7 - j as int) - (if borrow { p64r(7 - j as int) } else { 0 }) == pvr(a@, 7 - j as int) - pvr(b@, 7 - j as int),
        ensures pvr(r@, 8) - (if borrow { p64r(8) } else { 0 }) == pvr(a@, 8) - pvr(b@, 8),
        decreases j
    {
        let ghost bo = borrow;
        let ghost r0 = r@;
        let i = 7 - j;
        let (diff, bor) = {
            let (a, b1) = a[i].overflowing_sub(borrow as u64);
            let (res, b2) = a.overflowing_sub(b[i]);
            (res, b1 || b2)
        };
        r[i] = diff;
        borrow = bor;
        proof {
            lemma_pvr_update(r0, i as int, diff, i as int);
            lemma_sub_step(pvr(r0, i as int), pvr(a@, i as int), pvr(b@, i as int), p64r(i as int), diff as int, a[i as int] as int, b[i as int] as int, bo, borrow);
        }
        if j == 0 {
            break;
        }
        j -= 1;
    }
    proof { lemma_pvr8(r@); lemma_pvr8(a@); lemma_pvr8(b@); assert(r256() * r256() == p64r(8)) by(compute); }
    (r, borrow)
}

fn u256_bits_and(a: &U256, b: &U256) -> (result: U256)
    ensures forall|k: int| 0 <= k < 4 ==> result@[k] == a@[k] & b@[k]
{
    let mut result: [u64; 4] = [0; 4];
    for i in 0..a.len()
        invariant forall|k: int| 0 <= k < i ==> result@[k] == a@[k] & b@[k]
    {
        result[i] = a[i] & b[i];
    }
    result
}


fn u256_mul(a: &U256, b: &U256) -> (ret: U512)
    ensures val8(ret@) == val4(a@) * val4(b@)
{
    let mut a_: [u64; 8] = [0; 8];
    let mut b_: [u64; 8] = [0; 8];
    let mut ret: [u64; 8] = [0; 8];
    let mut s: [u64; 16] = [0; 16];

    for i in 0..4
        invariant
            forall|k: int| 0 <= k < 16 ==> s[k] == 0,
            forall|k: int| 0 <= k < i ==> split_at(a_@, a@, k),
            forall|k: int| 0 <= k < i ==> split_at(b_@, b@, k),
    {
        let ghost a0 = a_@;
        let ghost b0 = b_@;
        proof {
            let x = a[i as int];
            let y = b[i as int];
            assert((x & 0xffffffff) < 0x1_0000_0000 && (x >> 32) < 0x1_0000_0000 && (x & 0xffffffff) + 0x1_0000_0000 * (x >> 32) == x) by(bit_vector);
            assert((y & 0xffffffff) < 0x1_0000_0000 && (y >> 32) < 0x1_0000_0000 && (y & 0xffffffff) + 0x1_0000_0000 * (y >> 32) == y) by(bit_vector);
        }
        a_[2 * i] = a[i] & 0xffffffff;
        b_[2 * i] = b[i] & 0xffffffff;
        a_[2 * i + 1] = a[i] >> 32;
        b_[2 * i + 1] = b[i] >> 32;
        proof {
            assert forall|k: int| 0 <= k < i + 1 implies split_at(a_@, a@, k) by {
                if k < i { assert(split_at(a0, a@, k)); assert(a_[2 * k] == a0[2 * k] && a_[2 * k + 1] == a0[2 * k + 1]); }
            }
            assert forall|k: int| 0 <= k < i + 1 implies split_at(b_@, b@, k) by {
                if k < i { assert(split_at(b0, b@, k)); assert(b_[2 * k] == b0[2 * k] && b_[2 * k + 1] == b0[2 * k + 1]); }
            }
        }
    }
    proof {
        assert(split_at(a_@, a@, 0) && split_at(a_@, a@, 1) && split_at(a_@, a@, 2) && split_at(a_@, a@, 3));
        assert(split_at(b_@, b@, 0) && split_at(b_@, b@, 1) && split_at(b_@, b@, 2) && split_at(b_@, b@, 3));
        assert(forall|k: int| 0 <= k < 8 ==> a_[k] < 0x1_0000_0000 && b_[k] < 0x1_0000_0000);
        lemma_digits8(a_@, a@);
        lemma_digits8(b_@, b@);
        lemma_val32_zero(s@, 16);
    }

    let mut u = 0;
    for i in 0..8
        invariant
            forall|k: int| 0 <= k < 8 ==> a_[k] < 0x1_0000_0000 && b_[k] < 0x1_0000_0000,
            forall|k: int| 0 <= k < 16 ==> s[k] < 0x1_0000_0000,
            forall|k: int| i + 8 <= k < 16 ==> s[k] == 0,
            val32(s@, 16) == rows(a_@, b_@, i as int),
    {
        u = 0;
        for j in 0..8
            invariant
                0 <= i < 8,
                forall|k: int| 0 <= k < 8 ==> a_[k] < 0x1_0000_0000 && b_[k] < 0x1_0000_0000,
                forall|k: int| 0 <= k < 16 ==> s[k] < 0x1_0000_0000,
                forall|k: int| i + 8 <= k < 16 ==> s[k] == 0,
                u < 0x1_0000_0000,
                val32(s@, 16) + u as int * pow32(i as int + j as int) == rows(a_@, b_@, i as int) + rowsum(a_[i as int] as int, b_@, i as int, j as int),
        {
            let ghost s_old = s@;
            let ghost u_old = u as int;
            proof {
                assert(a_[i as int] as int * b_[j as int] as int <= 0xffff_ffffint * 0xffff_ffffint) by(nonlinear_arith)
                    requires a_[i as int] < 0x1_0000_0000, b_[j as int] < 0x1_0000_0000;
            }
            u = s[i + j] + a_[i] * b_[j] + u;
            let ghost t = u as int;
            s[i + j] = u & 0xffffffff;
            u >>= 32;
            proof {
                let tt = t as u64;
                assert((tt & 0xffffffff) + (tt >> 32) * 0x1_0000_0000 == tt && (tt & 0xffffffff) < 0x1_0000_0000 && (tt >> 32) < 0x1_0000_0000) by(bit_vector);
                let k = i as int + j as int;
                lemma_val32_update(s_old, k, s[k], 16);
                lemma_pow32_pos(k);
                assert(pow32(k + 1) == 0x1_0000_0000int * pow32(k));
                lemma_step(s_old[k] as int, a_[i as int] as int * b_[j as int] as int, u_old, s[k] as int, u as int, pow32(k));
                assert(rowsum(a_[i as int] as int, b_@, i as int, j as int + 1)
                    == rowsum(a_[i as int] as int, b_@, i as int, j as int) + (a_[i as int] as int) * (b_[j as int] as int) * pow32(k));
            }
        }
        let ghost s_old = s@;
        s[i + 8] = u;
        proof {
            lemma_val32_update(s_old, i as int + 8, u, 16);
            assert(rows(a_@, b_@, i as int + 1) == rows(a_@, b_@, i as int) + rowsum(a_[i as int] as int, b_@, i as int, 8));
        }
    }
    proof {
        lemma_rows(a_@, b_@, 8);
    }

    for i in 0..8
        invariant
            forall|k: int| 0 <= k < 16 ==> s[k] < 0x1_0000_0000,
            forall|k: int| 0 <= k < i ==> join_at(ret@, s@, k),
    {
        let ghost r0 = ret@;
        proof {
            let x = s[2 * i as int];
            let y = s[2 * i as int + 1];
            assert(((y << 32) | x) == x + 0x1_0000_0000 * y) by(bit_vector) requires x < 0x1_0000_0000, y < 0x1_0000_0000;
        }
        ret[i] = (s[2 * i + 1] << 32) | s[2 * i];
        proof {
            assert forall|k: int| 0 <= k < i + 1 implies join_at(ret@, s@, k) by {
                if k < i { assert(join_at(r0, s@, k)); assert(ret[k] == r0[k]); }
            }
        }
    }
    proof {
        assert(join_at(ret@, s@, 0) && join_at(ret@, s@, 1) && join_at(ret@, s@, 2) && join_at(ret@, s@, 3)
            && join_at(ret@, s@, 4) && join_at(ret@, s@, 5) && join_at(ret@, s@, 6) && join_at(ret@, s@, 7));
        lemma_digits16(s@, ret@);
    }
    ret
}

const fn u256_cmp(a: &U256, b: &U256) -> (r: i32)
    ensures r == (if val4(a@) > val4(b@) { 1i32 } else if val4(a@) < val4(b@) { -1i32 } else { 0i32 })
{
    if a[3] > b[3] {
        return 1;
    }
    if a[3] < b[3] {
        return -1;
    }
    if a[2] > b[2] {
        return 1;
    }
    if a[2] < b[2] {
        return -1;
    }
    if a[1] > b[1] {
        return 1;
    }
    if a[1] < b[1] {
        return -1;
    }
    if a[0] > b[0] {
        return 1;
    }
    if a[0] < b[0] {
        return -1;
    }
    return 0;
}

fn u256_to_be_bytes(a: &U256) -> (ret: Vec<u8>)
    ensures ret@ == be_bytes(val4(a@), 32)
{
    let mut ret: Vec<u8> = Vec::new();
    for i in it: (0..4).rev()
        invariant ret@ == be_bytes(hv(a@, it.index@ as int), (8 * it.index@) as nat)
    {
        let ghost k = it.index@ as int;
        ret.write_u64::<BigEndian>(a[i]).unwrap();
        proof {
            lemma_pow256n_32();
            lemma_be_bytes_concat(hv(a@, k), a[i as int] as int, (8 * k) as nat, 8);
            assert(hv(a@, k + 1) == 0x1_0000_0000_0000_0000int * hv(a@, k) + a[i as int] as int);
        }
    }
    ret
}

fn u256_from_be_bytes(input: &[u8]) -> (elem: U256)
    requires input@.len() >= 32 //@carveout D40
    ensures val4(elem@) == be_val(input@.subrange(0, 32))
{
    let mut elem = [0, 0, 0, 0];
    let mut c = Cursor::new(input);
    for i in it: (0..4).rev()
        invariant c.pos == 8 * it.index@, c.data@ == input@, input@.len() >= 32,
            forall|k: int| 4 - it.index@ <= k < 4 ==> elem[k] as int == be_val(#[trigger] input@.subrange(8 * (3 - k), 8 * (3 - k) + 8)),
    {
        elem[i] = c.read_u64::<BigEndian>().unwrap();
    }
    proof {
        let b = input@.subrange(0, 32);
        lemma_be_val_32(b);
        assert(b.subrange(0, 8) =~= input@.subrange(8 * (3 - 3), 8 * (3 - 3) + 8));
        assert(b.subrange(8, 16) =~= input@.subrange(8 * (3 - 2), 8 * (3 - 2) + 8));
        assert(b.subrange(16, 24) =~= input@.subrange(8 * (3 - 1), 8 * (3 - 1) + 8));
        assert(b.subrange(24, 32) =~= input@.subrange(8 * (3 - 0), 8 * (3 - 0) + 8));
    }
    elem
}

//@section spec local
// big-endian limb order of the (unused) util::*_raw_u64 helpers: limb 0 is the most significant
spec fn rev4(a: Seq<u64>) -> Seq<u64> { seq![a[3], a[2], a[1], a[0]] }
proof fn lemma_mask64(r: u64) ensures r & 0xffff_ffff_ffff_ffff == r { assert(r & 0xffff_ffff_ffff_ffff == r) by(bit_vector); }
//@section code gm-sm2/src/util.rs
const fn add_raw_u64(a: &[u64; 4], b: &[u64; 4]) -> (res: ([u64; 4], bool))
    ensures val4(rev4(res.0@)) + (if res.1 { r256() } else { 0 }) == val4(rev4(a@)) + val4(rev4(b@))
{
    let mut sum = [0; 4];
    let mut carry = false;
    let mut i = 3;
    loop
        invariant_except_break 0 <= i <= 3, pv(rev4(sum@), 3 - i as int) + (if carry { p64(3 - i as int) } else { 0 }) == pv(rev4(a@), 3 - i as int) + pv(rev4(b@), 3 - i as int),
        ensures pv(rev4(sum@), 4) + (if carry { p64(4) } else { 0 }) == pv(rev4(a@), 4) + pv(rev4(b@), 4),
        decreases i
    {
        let (t_sum, c) = {
            let (m, c1) = a[i].overflowing_add(b[i]);
            let (r, c2) = m.overflowing_add(carry as u64);
            proof { lemma_mask64(r); }
            (r & 0xffff_ffff_ffff_ffff, c1 || c2)
        };
        sum[i] = t_sum;
        carry = c;
        if i == 0 {
            break;
        }
        i -= 1;
    }
    (sum, carry)
}

const fn sub_raw_u64(a: &[u64; 4], b: &[u64; 4]) -> (res: ([u64; 4], bool))
    ensures val4(rev4(res.0@)) - (if res.1 { r256() } else { 0 }) == val4(rev4(a@)) - val4(rev4(b@))
{
    let mut r = [0; 4];
    let mut borrow = false;
    let mut j = 0;
    loop
        invariant_except_break 0 <= j <= 3, pv(rev4(r@), j as int) - (if borrow { p64(j as int) } else { 0 }) == pv(rev4(a@), j as int) - pv(rev4(b@), j as int),
        ensures pv(rev4(r@), 4) - (if borrow { p64(4) } else { 0 }) == pv(rev4(a@), 4) - pv(rev4(b@), 4),
        decreases 3 - j
    {
        let i = 3 - j;
        let (diff, bor) = {
            let (a, b1) = a[i].overflowing_sub(borrow as u64);
            let (res, b2) = a.overflowing_sub(b[i]);
            (res, b1 || b2)
        };
        r[i] = diff;
        borrow = bor;
        if j == 3 {
            break;
        }
        j += 1;
    }
    (r, borrow)
}
