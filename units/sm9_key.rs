//@unit sm9_key
//@serves C09 C10 C14 C16 C17 C20
//@source gm-sm9/src/key.rs
//@rewrite be
//@rewrite-text x.iter().all(|&byte| byte == 0) ==> shim_all_zero(x)
//@rewrite-text !u.as_slice().eq(c3) ==> shim_ne_slices(u.as_slice(), c3)
//@rewrite-text ((klen as f64) / 32.0).ceil() as u32 ==> shim_ceil_div32(klen)
//@assume shim_all_zero / shim_ne_slices / shim_ceil_div32 / shim_to_be_u32: all-zero test, slice inequality, ceil(klen/32) via f64, big-endian u32 (external_body shims whose body is the replaced std expression)
//@assume the pairing sm9_u256_pairing is seen ONLY through the hand-written contract of the `assumed` section (its body and the line functions in gm-sm9/src/points.rs are not verified by Verus against it; e9 is an abstract symbol with an assumed bilinearity axiom; C12 is not claimed). G1, G2 and Fp12 arithmetic (pow, fp_mul, to_bytes_be, eq) are proved in units sm9_g1 / sm9_g2 / sm9_fp12 and imported through their contracts; GT is the Fp12 arithmetic (gt_mul := f12_mul)
//@assume rejection loops (sign, encrypt, exch_step_1b) terminate with probability 1 (exec_allows_no_decreases_clause)
//@include-spec sm2_math
//@include-spec sm9_math
//@include-spec sm3
//@include-spec sm2_util
//@include-spec sm9_rand
//@include-spec sm9_g1
//@include-spec sm9_g2
//@include-spec sm9_fp2
//@include-spec sm9_fp4
//@include-spec sm9_fp12
//@section spec
use core::fmt::Debug;
use vstd::arithmetic::div_mod::*;
#[verifier::external_body]
fn shim_all_zero(x: &Vec<u8>) -> (r: bool) ensures r == (forall|i: int| 0 <= i < x@.len() ==> x@[i] == 0) { x.iter().all(|&byte| byte == 0) }
#[verifier::external_body]
fn shim_ne_slices(a: &[u8], b: &[u8]) -> (r: bool) ensures r == !(a@ =~= b@) { !a.eq(b) }
#[verifier::external]
impl core::fmt::Debug for Sm9Error { fn fmt(&self, f: &mut core::fmt::Formatter<'_>) -> core::fmt::Result { Ok(()) } }
// representation predicates / abstractions (G1 concrete, G2 / GT abstract)
// ok12 additionally fixes the number of coefficients of the abstract view (needed for |gt_bytes| = 384)
// ---------------- GT: the Fp12 arithmetic of unit sm9_fp12 (block moved here from sm9_math: it needs f12_one / f12_mul)
pub open spec fn gt_one() -> Gt { Gt { c: f12_one() } }
pub open spec fn gt_mul(a: Gt, b: Gt) -> Gt { Gt { c: f12_mul(a.c, b.c) } }
pub open spec fn gt_pow(g: Gt, k: int) -> Gt decreases k { if k <= 0 { gt_one() } else { gt_mul(gt_pow(g, k - 1), g) } }
// the R-ate pairing of GM/T 0044.1 as an abstract symbol: e9(Q in G2, P in G1)
pub uninterp spec fn e9(q: Pt2, p: Pt1) -> Gt;
// bilinearity as used by the scheme-level lemmas (assumed; C12 is not claimed)
#[verifier::external_body]
pub proof fn ax9_bilinear(a: int, b: int, q: Pt2, p: Pt1) requires a >= 0, b >= 0, on_curve2(q), on_curve1(p)
    ensures e9(g2_smul(a, q), g1_smul(b, p)) == gt_pow(e9(q, p), a * b) { }
spec fn abs12(f: Fp12) -> Gt { Gt { c: f.val() } }
spec fn ok12(f: Fp12) -> bool { f.ok() }
// ---------------- GM/T 0044: H1 / H2 (hash to [1, N-1]), MAC, KDF ----------------
pub open spec fn s_ha(prefix: u8, z: Seq<u8>) -> Seq<u8> {
    (sm3_spec(seq![prefix] + z + seq![0u8, 0u8, 0u8, 1u8]) + sm3_spec(seq![prefix] + z + seq![0u8, 0u8, 0u8, 2u8])).subrange(0, 40)
}
pub open spec fn s_h(prefix: u8, z: Seq<u8>) -> int { be_val(s_ha(prefix, z)) % (N9() - 1) + 1 }
pub open spec fn s_h1(id: Seq<u8>, hid: u8) -> int { s_h(1u8, id + seq![hid]) }
pub open spec fn s_h2(m: Seq<u8>, w: Seq<u8>) -> int { s_h(2u8, m + w) }
pub open spec fn s_mac9(k2: Seq<u8>, z: Seq<u8>) -> Seq<u8> { sm3_spec(z + k2) }
// ---------------- GM/T 0044.2 signature ----------------
pub open spec fn sig9_from_nonce(r: int, ppubs: Pt2, ds: Pt1, m: Seq<u8>, h: int, s: Pt1) -> bool {
    &&& 1 <= r < N9() - 1
    &&& h == s_h2(m, gt_bytes(gt_pow(e9(ppubs, G1P()), r)))
    &&& (r - h) % N9() != 0
    &&& s == g1_smul((r - h) % N9(), ds)
}
pub open spec fn ver9_ok(ppubs: Pt2, id: Seq<u8>, m: Seq<u8>, h: int, s: Pt1) -> bool {
    &&& 1 <= h < N9() &&& on_curve1(s)
    &&& h == s_h2(m, gt_bytes(gt_mul(e9(g2_add(ppubs, g2_smul(s_h1(id, 1u8), G2P())), s), gt_pow(e9(ppubs, G1P()), h))))
}
// ---------------- GM/T 0044.4 encryption (KDF stream cipher variant) ----------------
pub open spec fn enc9_from_nonce(r: int, ppube: Pt1, id: Seq<u8>, m: Seq<u8>, c: Seq<u8>) -> bool {
    &&& 1 <= r < N9() - 1
    &&& ({ let qb = g1_add(g1_smul(s_h1(id, 3u8), G1P()), ppube); let c1 = g1_smul(r, qb);
           let w = gt_pow(e9(G2P(), ppube), r);
           let k = s_kdf(xy1_bytes(c1) + gt_bytes(w) + id, (m.len() + 32) as nat);
           let c2 = s_xor(k.subrange(0, m.len() as int), m);
           c == seq![4u8] + xy1_bytes(c1) + s_mac9(k.subrange(m.len() as int, m.len() as int + 32), c2) + c2 })
}
pub open spec fn dec9_ok(de: Pt2, id: Seq<u8>, ct: Seq<u8>, m: Seq<u8>) -> bool {
    &&& 97 < ct.len() <= 97 + 255 &&& ct[0] == 4
    &&& ({ let x = be_val(ct.subrange(1, 33)); let y = be_val(ct.subrange(33, 65)); let c1 = Pt1::Aff { x, y };
           let c3 = ct.subrange(65, 97); let c2 = ct.subrange(97, ct.len() as int);
           let k = s_kdf(ct.subrange(1, 65) + gt_bytes(e9(de, c1)) + id, (c2.len() + 32) as nat);
           x < P9() && y < P9() && on_curve1(c1) && c3 == s_mac9(k.subrange(c2.len() as int, c2.len() as int + 32), c2) && m == s_xor(c2, k.subrange(0, c2.len() as int)) })
}
// ---- acceptance side (completeness) of decrypt: used ONLY by the completeness clauses, dec9_ok is unchanged
pub open spec fn s_all_zero(s: Seq<u8>) -> bool { forall|i: int| 0 <= i < s.len() ==> s[i] == 0 }
// the KDF input C1 || w' || ID_B that decryption derives from the ciphertext
pub open spec fn dec9_kz(de: Pt2, id: Seq<u8>, ct: Seq<u8>) -> Seq<u8> {
    ct.subrange(1, 65) + gt_bytes(e9(de, Pt1::Aff { x: be_val(ct.subrange(1, 33)), y: be_val(ct.subrange(33, 65)) })) + id
}
// GM/T 0044.4 7.1 B3: K1' (the first mlen bytes of KDF(C1 || w' || ID_B, mlen + 32)) is not all zero
pub open spec fn dec9_k1_nz(de: Pt2, id: Seq<u8>, ct: Seq<u8>) -> bool {
    let c2 = ct.subrange(97, ct.len() as int);
    !s_all_zero(s_kdf(dec9_kz(de, id, ct), (c2.len() + 32) as nat).subrange(0, c2.len() as int))
}
// GM/T 0044.4 6.1 A6: the K1 that encryption uses (first mlen bytes of KDF(C1 || w || ID_B, mlen + 32)) for the nonce r
pub open spec fn enc9_k1(r: int, ppube: Pt1, id: Seq<u8>, mlen: nat) -> Seq<u8> {
    let qb = g1_add(g1_smul(s_h1(id, 3u8), G1P()), ppube); let c1 = g1_smul(r, qb);
    let w = gt_pow(e9(G2P(), ppube), r);
    s_kdf(xy1_bytes(c1) + gt_bytes(w) + id, (mlen + 32) as nat).subrange(0, mlen as int)
}
pub open spec fn enc9_from_nonce_k1(r: int, ppube: Pt1, id: Seq<u8>, m: Seq<u8>, c: Seq<u8>) -> bool {
    enc9_from_nonce(r, ppube, id, m, c) && !s_all_zero(enc9_k1(r, ppube, id, m.len()))
}
// ---------------- GM/T 0044.3 key exchange ----------------
pub open spec fn exch9_key(ida: Seq<u8>, idb: Seq<u8>, ra: Pt1, rb: Pt1, g1: Gt, g2: Gt, g3: Gt, klen: nat) -> Seq<u8> {
    s_kdf(ida + idb + xy1_bytes(ra) + xy1_bytes(rb) + gt_bytes(g1) + gt_bytes(g2) + gt_bytes(g3), klen)
}
pub open spec fn exch9_b(rb: int, ppube: Pt1, de_b: Pt2, ida: Seq<u8>, idb: Seq<u8>, ra: Pt1, klen: nat, rb_pt: Pt1, sk: Seq<u8>) -> bool {
    &&& 1 <= rb < N9() - 1
    &&& rb_pt == g1_smul(rb, g1_add(g1_smul(s_h1(ida, 2u8), G1P()), ppube))
    &&& sk == exch9_key(ida, idb, ra, rb_pt, e9(de_b, ra), gt_pow(e9(G2P(), ppube), rb), gt_pow(e9(de_b, ra), rb), klen)
}
//@section code gm-sm9/src/u256.rs
type U256 = [u64; 4];
//@stub sm9_limbs u256_cmp
//@stub sm9_limbs u256_from_be_bytes
//@stub sm9_rand sm9_random_u256
//@section code gm-sm9/src/fields/fp.rs
type Fp = U256;
//@section code gm-sm9/src/error.rs
type Sm9Result<T> = Result<T, Sm9Error>;
#[derive(PartialEq)]
enum Sm9Error {
    NotOnCurve,
    FieldSqrtError,
    InvalidDer,
    InvalidPublic,
    InvalidPrivate,
    ZeroDivisor,
    ZeroPoint,
    InvalidPoint,
    CheckPointErr,
    ZeroData,
    HashNotEqual,
    IdTooLong,
    ZeroFiled,
    InvalidFieldLen,
    ZeroSig,
    InvalidDigestLen,
    InvalidDigest,
    InvalidSecretKey,
    KdfHashError,
}
//@section code gm-sm9/src/lib.rs
const SM9_HID_ENC: u8 = 0x03;
const SM9_HID_EXCH: u8 = 0x02;
const SM9_HID_SIGN: u8 = 0x01;
const SM9_HASH1_PREFIX: u8 = 0x01;
const SM9_HASH2_PREFIX: u8 = 0x02;
//@extract gm-sm9/src/lib.rs SM9_N
//@extract gm-sm9/src/lib.rs SM9_N_MINUS_ONE
//@extract gm-sm9/src/lib.rs SM9_P
//@extract gm-sm9/src/lib.rs SM9_POINT_MONT_P1
//@extract gm-sm9/src/lib.rs SM9_TWIST_POINT_MONT_P2
//@stub sm9_modn mod_n_add
//@stub sm9_modn mod_n_sub
//@stub sm9_modn mod_n_mul
//@stub sm9_modn mod_n_inv
//@stub sm9_modn mod_n_from_hash
//@stub sm3 sm3_hash
//@stub-trait sm9_fp FieldElement
//@section code gm-sm9/src/fields/fp2.rs
#[derive(Debug, Copy, Clone)]
struct Fp2 {
    c0: Fp,
    c1: Fp,
}
impl Eq for Fp2 {}
//@stub sm9_fp2 Fp2::eq
//@stub-trait sm9_fp2 FieldElement
//@section code gm-sm9/src/fields/fp4.rs
#[derive(Debug, Copy, Clone)]
struct Fp4 {
    c0: Fp2,
    c1: Fp2,
}
impl Eq for Fp4 {}
//@stub sm9_fp4 Fp4::eq
//@stub-trait sm9_fp4 FieldElement
//@section code gm-sm9/src/fields/fp12.rs
#[derive(Debug, Copy, Clone)]
struct Fp12 {
    c0: Fp4,
    c1: Fp4,
    c2: Fp4,
}
impl Eq for Fp12 {}
//@stub sm9_fp12 Fp12::eq
//@stub-trait sm9_fp12 FieldElement
//@stub sm9_fp12 Fp12::pow
//@section code gm-sm9/src/points.rs
#[derive(Copy, Debug, Clone)]
struct Point {
    x: Fp,
    y: Fp,
    z: Fp,
}
#[derive(Copy, Debug, Clone)]
struct TwistPoint {
    x: Fp2,
    y: Fp2,
    z: Fp2,
}
//@section spec local
proof fn k9_pow_one(e: nat, m: int) requires m > 1 ensures pow_mod(1, e, m) == 1 decreases e
{ if e > 0 { k9_pow_one((e - 1) as nat, m); lemma_small_mod(1, m as nat); } else { lemma_small_mod(1, m as nat); } }
// z == 1 (Montgomery one): the Jacobian point is its own affine form
proof fn k9_z_one(p: Point)
    requires wf1(p), fe9(p.z@) == 1
    ensures val4(p.z@) != 0, abs1(p) == (Pt1::Aff { x: fe9(p.x@), y: fe9(p.y@) }), 0 <= fe9(p.x@) < P9(), 0 <= fe9(p.y@) < P9()
{
    lemma_params9();
    k9_pow_one((P9() - 2) as nat, P9());
    if val4(p.z@) == 0 { let v = val4(p.z@); assert(v * RINV_P9() == 0) by(nonlinear_arith) requires v == 0; lemma_small_mod(0, P9() as nat); }
    let x = fe9(p.x@); let y = fe9(p.y@);
    lemma_mod_bound(val4(p.x@) * RINV_P9(), P9());
    lemma_mod_bound(val4(p.y@) * RINV_P9(), P9());
    assert(x * 1 * 1 == x && y * 1 * 1 * 1 == y);
    lemma_small_mod(x as nat, P9() as nat);
    lemma_small_mod(y as nat, P9() as nat);
}
proof fn lemma_key9_consts()
    ensures val4(SM9_N@) == N9(), val4(SM9_N_MINUS_ONE@) == N9() - 1, val4(SM9_P@) == P9(),
        valid1(SM9_POINT_MONT_P1), abs1(SM9_POINT_MONT_P1) == G1P(),
{
    assert(val4(SM9_N@) == N9() && val4(SM9_N_MINUS_ONE@) == N9() - 1 && val4(SM9_P@) == P9()) by(compute);
    assert(canon9(SM9_POINT_MONT_P1.x@) && fe9(SM9_POINT_MONT_P1.x@) == P1X()) by(compute);
    assert(canon9(SM9_POINT_MONT_P1.y@) && fe9(SM9_POINT_MONT_P1.y@) == P1Y()) by(compute);
    assert(canon9(SM9_POINT_MONT_P1.z@) && fe9(SM9_POINT_MONT_P1.z@) == 1) by(compute);
    k9_z_one(SM9_POINT_MONT_P1);
    lemma_params9();
}
//@section code gm-sm9/src/u256.rs
fn xor(k: &[u8], data: &[u8], len: usize) -> (ret: Vec<u8>)
    requires len <= k@.len(), len <= data@.len()
    ensures ret@ == s_xor(k@.subrange(0, len as int), data@.subrange(0, len as int))
{
    let mut ret: Vec<u8> = vec![];
    for i in 0..len
        invariant len <= k@.len(), len <= data@.len(), ret@.len() == i,
            forall|j: int| 0 <= j < i ==> ret@[j] == k@[j] ^ data@[j],
    {
        ret.push(k[i] ^ data[i]);
    }
    proof { assert(ret@ =~= s_xor(k@.subrange(0, len as int), data@.subrange(0, len as int))); }
    ret
}
//@stub sm9_g1 Point::from_bytes
//@stub sm9_g1 Point::to_bytes_be
//@stub sm9_g1 Point::is_on_curve
//@stub sm9_g1 Point::point_add
//@stub sm9_g1 Point::point_mul
//@stub sm9_g1 Point::g_mul
//@stub sm9_g2 TwistPoint::g_mul
//@stub sm9_g2 twist_point_add_full
//@section assumed gm-sm9/src/points.rs
fn sm9_u256_pairing(q: &TwistPoint, p: &Point) -> (r: Fp12)
    requires valid2(*q), valid1(*p)
    ensures ok12(r), abs12(r) == e9(abs2(*q), abs1(*p))
{ unimplemented!() }
//@section spec local
use vstd::std_specs::cmp::PartialEqSpec;
impl vstd::std_specs::cmp::PartialEqSpecImpl for Fp2 {
    open spec fn obeys_eq_spec() -> bool { true }
    closed spec fn eq_spec(&self, other: &Self) -> bool { self.c0@ == other.c0@ && self.c1@ == other.c1@ }
}
spec fn k9_eq4(a: Fp4, b: Fp4) -> bool { a.c0.c0@ == b.c0.c0@ && a.c0.c1@ == b.c0.c1@ && a.c1.c0@ == b.c1.c0@ && a.c1.c1@ == b.c1.c1@ }
impl vstd::std_specs::cmp::PartialEqSpecImpl for Fp4 {
    open spec fn obeys_eq_spec() -> bool { true }
    closed spec fn eq_spec(&self, other: &Self) -> bool { k9_eq4(*self, *other) }
}
impl vstd::std_specs::cmp::PartialEqSpecImpl for Fp12 {
    open spec fn obeys_eq_spec() -> bool { true }
    closed spec fn eq_spec(&self, other: &Self) -> bool { k9_eq4(self.c0, other.c0) && k9_eq4(self.c1, other.c1) && k9_eq4(self.c2, other.c2) }
}
// ---------------- the link between the Fp12 arithmetic (unit sm9_fp12) and the GT view
proof fn k9_val12(f: Fp12) ensures f.val().len() == 12
{
    f4_split(f.c0.c0.val(), f.c0.c1.val()); f4_split(f.c1.c0.val(), f.c1.c1.val()); f4_split(f.c2.c0.val(), f.c2.c1.val());
    f12_split(f.c0.val(), f.c1.val(), f.c2.val());
}
proof fn k9_pow12(a: Seq<int>, k: int) ensures gt_pow(Gt { c: a }, k) == (Gt { c: f12_pow(a, k) }) decreases k
{ if k > 0 { k9_pow12(a, k - 1); } }
spec fn k9_link12_p() -> bool {
    &&& (forall|f: Fp12| #![trigger f.val()] f.val().len() == 12 && f12_bytes(f.val()) == gt_bytes(Gt { c: f.val() }))
    &&& (forall|a: Seq<int>, k: int| #![trigger f12_pow(a, k)] gt_pow(Gt { c: a }, k) == (Gt { c: f12_pow(a, k) }))
}
proof fn k9_link12() ensures k9_link12_p()
{
    assert forall|f: Fp12| #![trigger f.val()] f.val().len() == 12 && f12_bytes(f.val()) == gt_bytes(Gt { c: f.val() }) by { k9_val12(f); f12_lemma_bytes_gt(f.val()); }
    assert forall|a: Seq<int>, k: int| #![trigger f12_pow(a, k)] gt_pow(Gt { c: a }, k) == (Gt { c: f12_pow(a, k) }) by { k9_pow12(a, k); }
}
// ---------------- fail-fast step checks: each states ONE expected spec-level value right after the call that produces it,
// so that a wrong argument / constant / order is reported as "precondition not satisfied" at that step
// every 32-byte big-endian string has length 32: with this all byte-string lengths of a context are decided by propagation
// (free length terms make Z3's model search for a FALSE byte-level fact diverge)
proof fn k9_be32() ensures forall|v: int| (#[trigger] be_bytes(v, 32)).len() == 32
{ assert forall|v: int| (#[trigger] be_bytes(v, 32)).len() == 32 by { lemma_be_bytes_len(v, 32); } }
proof fn k9_is_int(a: int, b: int) requires a == b { }
proof fn k9_is_gt(a: Gt, b: Gt) requires a == b { }
proof fn k9_is_pt1(a: Pt1, b: Pt1) requires a == b { }
proof fn k9_is_pt2(a: Pt2, b: Pt2) requires a == b { }
proof fn k9_is_bytes(a: Seq<u8>, b: Seq<u8>) requires a == b { }
// t = g^k in the GT view
proof fn k9_gt_pow(g: Fp12, t: Fp12, k: int)
    requires t.val() == f12_pow(g.val(), k)
    ensures abs12(t) == gt_pow(abs12(g), k)
{ k9_pow12(g.val(), k); }
// w = u * t in the GT view
proof fn k9_gt_mul(u: Fp12, t: Fp12, w: Fp12)
    requires w.val() == f12_mul(u.val(), t.val())
    ensures abs12(w) == gt_mul(abs12(u), abs12(t))
{ }
// the serialisation of an Fp12 value is the GT byte string (384 bytes)
proof fn k9_gt_ser(w: Fp12, wb: Seq<u8>)
    requires wb == f12_bytes(w.val())
    ensures wb == gt_bytes(abs12(w)), wb.len() == 384
{ k9_val12(w); f12_lemma_bytes_gt(w.val()); k9_gt_bytes_len(abs12(w)); }
proof fn k9_ver_final(ppubs: Pt2, id: Seq<u8>, m: Seq<u8>, h: int, s: Pt1, h1: int, pq: Pt2, g: Gt, t: Gt, u: Gt, w: Gt, wb: Seq<u8>, h2: int)
    requires h < N9(), on_curve1(s), h1 == s_h1(id, 1u8), pq == g2_add(ppubs, g2_smul(h1, G2P())), g == e9(ppubs, G1P()), t == gt_pow(g, h),
        u == e9(pq, s), w == gt_mul(u, t), wb == gt_bytes(w), h2 == s_h2(m, wb), 1 <= h2, h2 == h
    ensures ver9_ok(ppubs, id, m, h, s)
{ }
// ---------------- completeness: one lemma per rejection site, "under the branch condition the acceptance predicate is false"
// a digest word below N is a canonical field word, so FieldElement::is_zero decides val4 == 0 for it
proof fn k9_h_canon(a: Seq<u64>) requires a.len() == 4
    ensures 0 <= val4(a), val4(a) < N9() ==> canon9(a) && ((seq![fe9(a)] == seq![0int]) == (val4(a) == 0))
{
    lemma_params9(); lemma_val4_bounds(a);
    if val4(a) < N9() { k9_fe_zero(a); }
}
proof fn k9_ver_rej_h(ppubs: Pt2, id: Seq<u8>, m: Seq<u8>, h: int, s: Pt1)
    requires h == 0 || h >= N9(), 0 <= h
    ensures !ver9_ok(ppubs, id, m, h, s)
{ }
proof fn k9_ver_rej_curve(ppubs: Pt2, id: Seq<u8>, m: Seq<u8>, h: int, s: Pt1)
    requires !on_curve1(s)
    ensures !ver9_ok(ppubs, id, m, h, s)
{ }
proof fn k9_ver_rej_hash(ppubs: Pt2, id: Seq<u8>, m: Seq<u8>, h: int, s: Pt1, h1: int, pq: Pt2, g: Gt, t: Gt, u: Gt, w: Gt, wb: Seq<u8>, h2: int)
    requires h1 == s_h1(id, 1u8), pq == g2_add(ppubs, g2_smul(h1, G2P())), g == e9(ppubs, G1P()), t == gt_pow(g, h),
        u == e9(pq, s), w == gt_mul(u, t), wb == gt_bytes(w), h2 == s_h2(m, wb), h2 != h
    ensures !ver9_ok(ppubs, id, m, h, s)
{ }
proof fn k9_dec_rej_len(de: Pt2, id: Seq<u8>, ct: Seq<u8>)
    requires ct.len() <= 97 || ct.len() > 97 + 255
    ensures forall|m: Seq<u8>| !dec9_ok(de, id, ct, m)
{ }
proof fn k9_dec_rej_hdr(de: Pt2, id: Seq<u8>, ct: Seq<u8>)
    requires ct[0] != 4 || be_val(ct.subrange(1, 33)) >= P9() || be_val(ct.subrange(33, 65)) >= P9()
    ensures forall|m: Seq<u8>| !dec9_ok(de, id, ct, m)
{ }
proof fn k9_dec_rej_curve(de: Pt2, id: Seq<u8>, ct: Seq<u8>, c1: Pt1)
    requires c1 == (Pt1::Aff { x: be_val(ct.subrange(1, 33)), y: be_val(ct.subrange(33, 65)) }), !on_curve1(c1)
    ensures forall|m: Seq<u8>| !dec9_ok(de, id, ct, m)
{ }
// kd = KDF(zz, mlen + 32), u = MAC(K2', C2) as computed, differs from the C3 field
proof fn k9_dec_rej_mac(de: Pt2, id: Seq<u8>, ct: Seq<u8>, zz: Seq<u8>, mlen: int, kd: Seq<u8>, u: Seq<u8>)
    requires 97 < ct.len(), mlen == ct.len() - 97, zz == dec9_kz(de, id, ct), kd == s_kdf(zz, (mlen + 32) as nat),
        u == s_mac9(kd.subrange(mlen, mlen + 32), ct.subrange(97, ct.len() as int)), u != ct.subrange(65, 97)
    ensures forall|m: Seq<u8>| !dec9_ok(de, id, ct, m)
{
    let c2 = ct.subrange(97, ct.len() as int);
    assert(c2.len() == mlen);
    assert((c2.len() + 32) as nat == (mlen + 32) as nat);
}
// the first mlen bytes of the 287-byte stream that the code derives are the first mlen bytes of KDF(z, mlen + 32)
proof fn k9_k1_of_287(zz: Seq<u8>, mlen: int, k1: Seq<u8>)
    requires 1 <= mlen <= 255, k1 == s_kdf(zz, 287).subrange(0, mlen)
    ensures k1 == s_kdf(zz, (mlen + 32) as nat).subrange(0, mlen)
{
    let n = (mlen + 32) as nat;
    k9_kdf_prefix(zz, 287, n); k9_kdf_len(zz, n); k9_kdf_len(zz, 287);
    assert(s_kdf(zz, 287).subrange(0, n as int).subrange(0, mlen) =~= s_kdf(zz, 287).subrange(0, mlen));
}
// the K1' test of decrypt (B3): k1 = the slice of the derived stream that the code tests
proof fn k9_dec_k1(de: Pt2, id: Seq<u8>, ct: Seq<u8>, zz: Seq<u8>, k1: Seq<u8>)
    requires 97 < ct.len() <= 97 + 255, zz == dec9_kz(de, id, ct), k1 == s_kdf(zz, 287).subrange(0, ct.len() - 97)
    ensures dec9_k1_nz(de, id, ct) == !s_all_zero(k1)
{
    k9_k1_of_287(zz, ct.len() - 97, k1);
    let c2 = ct.subrange(97, ct.len() as int);
    assert(c2.len() == ct.len() - 97);
    assert((c2.len() + 32) as nat == (ct.len() - 97 + 32) as nat);
}
proof fn k9_dec_rej_zero(de: Pt2, id: Seq<u8>, ct: Seq<u8>, k1: Seq<u8>)
    requires s_all_zero(k1), dec9_k1_nz(de, id, ct) == !s_all_zero(k1)
    ensures !dec9_k1_nz(de, id, ct)
{ }
// the K1 test of encrypt (A6)
proof fn k9_enc_k1(r: int, ppube: Pt1, id: Seq<u8>, mlen: int, zz: Seq<u8>, k1: Seq<u8>)
    requires 1 <= mlen <= 255, k1 == s_kdf(zz, 287).subrange(0, mlen), !s_all_zero(k1),
        zz == xy1_bytes(g1_smul(r, g1_add(g1_smul(s_h1(id, 3u8), G1P()), ppube))) + gt_bytes(gt_pow(e9(G2P(), ppube), r)) + id
    ensures !s_all_zero(enc9_k1(r, ppube, id, mlen as nat))
{ k9_k1_of_287(zz, mlen, k1); }
// one step of the all-zero scan over a prefix
proof fn k9_zero_step(x: Seq<u8>, i: int) requires 0 <= i < x.len()
    ensures s_all_zero(x.subrange(0, i + 1)) == (s_all_zero(x.subrange(0, i)) && x[i] == 0)
{
    let a = x.subrange(0, i); let b = x.subrange(0, i + 1);
    assert(b[i] == x[i]);
    if s_all_zero(b) { assert forall|j: int| 0 <= j < a.len() implies a[j] == 0 by { assert(b[j] == a[j]); } }
    if s_all_zero(a) && x[i] == 0 { assert forall|j: int| 0 <= j < b.len() implies b[j] == 0 by { if j < i { assert(b[j] == a[j]); } } }
}
// the scan over the first klen bytes of a klen-byte key found no non-zero byte
proof fn k9_exch_rej_zero(sk: Seq<u8>, klen: int) requires sk.len() == klen, s_all_zero(sk.subrange(0, klen))
    ensures s_all_zero(sk)
{ assert(sk.subrange(0, klen) =~= sk); }
// ---------------- scheme-level composition (GM/T 0044.4): what encrypt produces for (ke, Ppub-e = [ke]P1) is accepted by decrypt
// with the extracted key de = [ke (H1(ID||03) + ke)^-1]P2, and decrypts to M. Uses the assumed bilinearity axiom ax9_bilinear
// and the G1 group axioms of sm9_math (closed / assoc / order of P1); e9 stays abstract.
proof fn k9_smul1_one(a: Pt1) ensures g1_smul(1, a) == a, g1_smul(0, a) == Pt1::Inf
{ assert(g1_smul(0, a) == Pt1::Inf); assert(g1_smul(1, a) == g1_add(g1_smul(0, a), a)); }
proof fn k9_smul2_one(a: Pt2) ensures g2_smul(1, a) == a
{ assert(g2_smul(0, a) == Pt2::Inf); assert(g2_smul(1, a) == g2_add(g2_smul(0, a), a)); }
proof fn k9_smul1_closed(k: int, a: Pt1) requires on_curve1(a) ensures on_curve1(g1_smul(k, a)) decreases k
{ if k > 0 { k9_smul1_closed(k - 1, a); ax9_g1_closed(g1_smul(k - 1, a), a); } }
proof fn k9_smul1_add(j: int, k: int, a: Pt1) requires on_curve1(a), j >= 0, k >= 0 ensures g1_smul(j + k, a) == g1_add(g1_smul(j, a), g1_smul(k, a)) decreases k
{
    k9_smul1_closed(j, a);
    if k > 0 { k9_smul1_add(j, k - 1, a); k9_smul1_closed(k - 1, a); ax9_g1_assoc(g1_smul(j, a), g1_smul(k - 1, a), a); }
}
proof fn k9_smul1_mul(j: int, k: int, a: Pt1) requires on_curve1(a), j >= 0, k >= 0 ensures g1_smul(j * k, a) == g1_smul(j, g1_smul(k, a)) decreases j
{
    if j > 0 {
        k9_smul1_mul(j - 1, k, a);
        vstd::arithmetic::mul::lemma_mul_is_distributive_sub_other_way(k, j, 1);
        assert(j * k == (j - 1) * k + k);
        vstd::arithmetic::mul::lemma_mul_nonnegative(j - 1, k);
        k9_smul1_add((j - 1) * k, k, a);
    } else { assert(0 * k == 0); }
}
proof fn k9_p1_curve() ensures on_curve1(G1P()) { lemma_params9(); }
// multiples of P1 depend on the scalar modulo N only
proof fn k9_smul1_mod(a: int) requires a >= 0 ensures g1_smul(a, G1P()) == g1_smul(a % N9(), G1P())
{
    lemma_params9(); k9_p1_curve();
    let n = N9(); let q = a / n; let b = a % n;
    lemma_fundamental_div_mod(a, n);
    lemma_mod_bound(a, n);
    lemma_div_pos_is_pos(a, n);
    vstd::arithmetic::mul::lemma_mul_nonnegative(n, q);
    lemma_mod_multiples_basic(q, n);
    vstd::arithmetic::mul::lemma_mul_is_commutative(q, n);
    ax9_g1_order(n * q);
    k9_smul1_add(n * q, b, G1P());
}
// the modular heart: t2 (h1 + ke) r = ke r (mod N), and r (h1 + ke) != 0 (mod N)
proof fn k9_dec_scalar(ke: int, h1: int, r: int)
    requires 1 <= ke < N9(), 1 <= h1 < N9(), (h1 + ke) % N9() != 0, 1 <= r < N9()
    ensures ({ let t2 = (ke * inv_n9((h1 + ke) % N9())) % N9();
        (t2 * (r * (h1 + ke))) % N9() == (r * ke) % N9() && (r * (h1 + ke)) % N9() != 0 && 0 <= t2 && r * (h1 + ke) >= 0 && r * ke >= 0 && t2 * (r * (h1 + ke)) >= 0 })
{
    lemma_params9();
    let n = N9(); let sm = (h1 + ke) % n; let i = inv_n9(sm); let t2 = (ke * i) % n; let hk = h1 + ke;
    lemma_mod_bound(hk, n); lemma_mod_twice(hk, n);
    ax9_inv_n(sm);
    lemma_mod_bound(ke * i, n);
    vstd::arithmetic::mul::lemma_mul_nonnegative(r, hk); vstd::arithmetic::mul::lemma_mul_nonnegative(r, ke); vstd::arithmetic::mul::lemma_mul_nonnegative(t2, r * hk);
    // (i * hk) % n == 1
    lemma_mul_mod_noop_general(i, hk, n);
    vstd::arithmetic::mul::lemma_mul_is_commutative(i, sm);
    assert((i * hk) % n == 1);
    // first claim
    lemma_mul_mod_noop_general(ke * i, r * hk, n);
    assert((ke * i) * (r * hk) == (r * ke) * (i * hk)) by(nonlinear_arith);
    lemma_mul_mod_noop_general(r * ke, i * hk, n);
    assert((r * ke) * 1 == r * ke);
    // second claim
    if (r * hk) % n == 0 {
        lemma_mul_mod_noop_general(r * hk, i, n);
        assert(0 * i == 0);
        lemma_small_mod(0, n as nat);
        assert(((r * hk) * i) % n == 0);
        vstd::arithmetic::mul::lemma_mul_is_associative(r, hk, i); vstd::arithmetic::mul::lemma_mul_is_commutative(hk, i);
        assert((r * hk) * i == r * (i * hk));
        lemma_mul_mod_noop_general(r, i * hk, n);
        assert(r * 1 == r);
        lemma_small_mod(r as nat, n as nat);
        assert(false);
    }
}
// the pairing identity of decryption: e(de, C1) = e(P2, Ppub-e)^r, and C1 = [r (h1 + ke)]P1 is a finite point of the curve
proof fn k9_dec_pairing(ke: int, h1: int, r: int)
    requires 1 <= ke < N9(), 1 <= h1 < N9(), (h1 + ke) % N9() != 0, 1 <= r < N9()
    ensures ({ let t2 = (ke * inv_n9((h1 + ke) % N9())) % N9(); let ppube = g1_smul(ke, G1P());
        let c1 = g1_smul(r, g1_add(g1_smul(h1, G1P()), ppube));
        e9(g2_smul(t2, G2P()), c1) == gt_pow(e9(G2P(), ppube), r) && on_curve1(c1) && c1 != Pt1::Inf })
{
    lemma_params9(); k9_p1_curve(); lemma_params9_g2();
    let p1 = G1P(); let p2 = G2P(); let g = e9(p2, p1);
    let t2 = (ke * inv_n9((h1 + ke) % N9())) % N9(); let ppube = g1_smul(ke, p1);
    let qb = g1_add(g1_smul(h1, p1), ppube); let c1 = g1_smul(r, qb);
    let a = t2 * (r * (h1 + ke)); let b = r * ke; let e = r * (h1 + ke);
    k9_dec_scalar(ke, h1, r);
    k9_smul1_add(h1, ke, p1);
    k9_smul1_mul(r, h1 + ke, p1);
    assert(c1 == g1_smul(e, p1));
    k9_smul1_closed(e, p1); k9_smul1_closed(ke, p1);
    ax9_g1_order(e);
    // left: e([t2]P2, [e]P1) = g^(t2 e)
    ax9_bilinear(t2, e, p2, p1);
    // right: e(P2, Ppub)^r = e([r]P2, [1]Ppub) = e([r]P2, [ke]P1) = g^(r ke)
    ax9_bilinear(r, 1, p2, ppube); k9_smul1_one(ppube); assert(r * 1 == r);
    ax9_bilinear(r, ke, p2, p1);
    assert(gt_pow(e9(p2, ppube), r) == gt_pow(g, b));
    // g^a = e(P2, [a]P1) = e(P2, [b]P1) = g^b
    ax9_bilinear(1, a, p2, p1); ax9_bilinear(1, b, p2, p1); k9_smul2_one(p2);
    assert(1 * a == a && 1 * b == b);
    k9_smul1_mod(a); k9_smul1_mod(b);
    assert(gt_pow(g, a) == gt_pow(g, b));
}
proof fn k9_ct_parts(x: int, y: int, c3: Seq<u8>, c2: Seq<u8>, c: Seq<u8>)
    requires 0 <= x < P9(), 0 <= y < P9(), c3.len() == 32, c == seq![4u8] + (be_bytes(x, 32) + be_bytes(y, 32)) + c3 + c2
    ensures c.len() == 97 + c2.len(), c[0] == 4, c.subrange(1, 65) == be_bytes(x, 32) + be_bytes(y, 32),
        be_val(c.subrange(1, 33)) == x, be_val(c.subrange(33, 65)) == y, c.subrange(65, 97) == c3, c.subrange(97, c.len() as int) == c2
{
    lemma_params9(); lemma_pow256n_32();
    lemma_be_bytes_len(x, 32); lemma_be_bytes_len(y, 32);
    lemma_be_roundtrip(x, 32); lemma_be_roundtrip(y, 32);
    assert(c.subrange(1, 65) =~= be_bytes(x, 32) + be_bytes(y, 32));
    assert(c.subrange(1, 33) =~= be_bytes(x, 32));
    assert(c.subrange(33, 65) =~= be_bytes(y, 32));
    assert(c.subrange(65, 97) =~= c3);
    assert(c.subrange(97, c.len() as int) =~= c2);
}
proof fn k9_xor_inv(k: Seq<u8>, m: Seq<u8>) requires k.len() == m.len() ensures s_xor(s_xor(k, m), k) =~= m
{
    assert forall|i: int| 0 <= i < m.len() implies s_xor(s_xor(k, m), k)[i] == m[i] by {
        let a = k[i]; let b = m[i];
        assert((a ^ b) ^ a == b) by(bit_vector);
    }
}
// THEOREM: every ciphertext that satisfies encrypt's postcondition (including "K1 not all zero") under the master key pair
// (ke, [ke]P1) satisfies the premise of decrypt's completeness clause for the key extracted for the same identity, with message M
proof fn k9_enc_dec_theorem(ke: int, id: Seq<u8>, r: int, m: Seq<u8>, c: Seq<u8>)
    requires 1 <= ke < N9(), (s_h1(id, 3u8) + ke) % N9() != 0, 1 <= m.len() <= 255,
        enc9_from_nonce_k1(r, g1_smul(ke, G1P()), id, m, c)
    ensures dec9_ok(g2_smul((ke * inv_n9((s_h1(id, 3u8) + ke) % N9())) % N9(), G2P()), id, c, m),
        dec9_k1_nz(g2_smul((ke * inv_n9((s_h1(id, 3u8) + ke) % N9())) % N9(), G2P()), id, c)
{
    let h1 = s_h1(id, 3u8); let ppube = g1_smul(ke, G1P());
    let de = g2_smul((ke * inv_n9((h1 + ke) % N9())) % N9(), G2P());
    k9_h_range(1u8, id + seq![3u8]);
    k9_dec_pairing(ke, h1, r);
    let qb = g1_add(g1_smul(h1, G1P()), ppube); let c1 = g1_smul(r, qb);
    let w = gt_pow(e9(G2P(), ppube), r);
    let z = xy1_bytes(c1) + gt_bytes(w) + id;
    let n = (m.len() + 32) as nat; let ml = m.len() as int;
    let k = s_kdf(z, n);
    let k1 = k.subrange(0, ml); let c2 = s_xor(k1, m);
    let c3 = s_mac9(k.subrange(ml, ml + 32), c2);
    assert(c == seq![4u8] + xy1_bytes(c1) + c3 + c2);
    k9_kdf_len(z, n); lemma_sm3_len(c2 + k.subrange(ml, ml + 32));
    assert(c2.len() == ml);
    let x = pt1_x(c1); let y = pt1_y(c1);
    assert(c1 == Pt1::Aff { x, y });
    k9_ct_parts(x, y, c3, c2, c);
    let cc2 = c.subrange(97, c.len() as int);
    assert(cc2.len() == ml);
    assert((cc2.len() + 32) as nat == n);
    assert(e9(de, c1) == w);
    assert(dec9_kz(de, id, c) == z);
    k9_xor_inv(k1, m);
    assert(k1 == enc9_k1(r, ppube, id, m.len()));
    assert(dec9_ok(de, id, c, m));
    assert(dec9_k1_nz(de, id, c));
}
proof fn k9_sign_final(r0: Seq<u64>, ppubs: Pt2, ds: Pt1, m: Seq<u8>, g: Gt, h: int, l: int, s: Pt1)
    requires csprng9(r0), 1 <= val4(r0) < N9() - 1, g == e9(ppubs, G1P()), h == s_h2(m, gt_bytes(gt_pow(g, val4(r0)))),
        l == (val4(r0) - h) % N9(), l != 0, s == g1_smul(l, ds)
    ensures exists|r: Seq<u64>| #[trigger] csprng9(r) && sig9_from_nonce(val4(r), ppubs, ds, m, h, s)
{ assert(csprng9(r0) && sig9_from_nonce(val4(r0), ppubs, ds, m, h, s)); }
proof fn k9_exch_b_final(rb: Seq<u64>, ppube: Pt1, de_b: Pt2, ida: Seq<u8>, idb: Seq<u8>, ra: Pt1, klen: nat, rb_pt: Pt1, sk: Seq<u8>)
    requires csprng9(rb), 1 <= val4(rb) < N9() - 1, rb_pt == g1_smul(val4(rb), g1_add(g1_smul(s_h1(ida, 2u8), G1P()), ppube)),
        sk == exch9_key(ida, idb, ra, rb_pt, e9(de_b, ra), gt_pow(e9(G2P(), ppube), val4(rb)), gt_pow(e9(de_b, ra), val4(rb)), klen)
    ensures exists|r: Seq<u64>| #[trigger] csprng9(r) && exch9_b(val4(r), ppube, de_b, ida, idb, ra, klen, rb_pt, sk)
{ assert(csprng9(rb) && exch9_b(val4(rb), ppube, de_b, ida, idb, ra, klen, rb_pt, sk)); }
// the KDF input of the key exchange: seven pieces appended in order to an empty vector, the two points without their 04 tag
proof fn k9_exch_cat(v: Seq<u8>, e: Seq<u8>, ida: Seq<u8>, idb: Seq<u8>, ta: Seq<u8>, tb: Seq<u8>, b1: Seq<u8>, b2: Seq<u8>, b3: Seq<u8>,
    xa: Seq<u8>, xb: Seq<u8>, w1: Seq<u8>, w2: Seq<u8>, w3: Seq<u8>)
    requires e.len() == 0,
        v == e + ida + idb + ta.subrange(1, ta.len() as int) + tb.subrange(1, tb.len() as int) + b1 + b2 + b3,
        ta == seq![4u8] + xa, tb == seq![4u8] + xb, b1 == w1, b2 == w2, b3 == w3,
        w1.len() == 384, w2.len() == 384, w3.len() == 384, xa.len() == 64, xb.len() == 64,
    ensures v == ida + idb + xa + xb + w1 + w2 + w3, v.len() == ida.len() + idb.len() + 1280
{
    assert(e + ida =~= ida);
    assert(ta.subrange(1, ta.len() as int) =~= xa);
    assert(tb.subrange(1, tb.len() as int) =~= xb);
}
proof fn k9_h_range(prefix: u8, z: Seq<u8>) ensures 1 <= s_h(prefix, z) < N9()
{
    lemma_params9();
    lemma_mod_bound(be_val(s_ha(prefix, z)), N9() - 1);
}
proof fn k9_fe_zero(a: Seq<u64>) requires canon9(a)
    ensures (fe9(a) == 0) == (val4(a) == 0), (seq![fe9(a)] == seq![0int]) == (val4(a) == 0)
{
    lemma_params9();
    lemma_val4_bounds(a);
    let v = val4(a); let ri = RINV_P9(); let r = r256(); let p = P9();
    if v == 0 { assert(v * ri == 0) by(nonlinear_arith) requires v == 0; lemma_small_mod(0, p as nat); }
    if fe9(a) == 0 {
        lemma_mul_mod_noop_general(v * ri, r, p);
        assert(0 * r == 0);
        lemma_small_mod(0, p as nat);
        assert(((v * ri) * r) % p == 0);
        assert((v * ri) * r == v * (r * ri)) by(nonlinear_arith);
        lemma_mul_mod_noop_general(v, r * ri, p);
        assert(v * 1 == v);
        lemma_small_mod(v as nat, p as nat);
    }
    assert(seq![fe9(a)][0] == fe9(a));
    assert(seq![0int][0] == 0);
    if fe9(a) == 0 { assert(seq![fe9(a)] =~= seq![0int]); }
}
// the extraction scalar t2 = ks * (H1 + ks)^-1 mod N
proof fn k9_extract(h1: int, k: int)
    requires 1 <= h1 < N9(), 1 <= k < N9(), (h1 + k) % N9() != 0
    ensures 0 <= (h1 + k) % N9() < N9(), 0 <= inv_n9((h1 + k) % N9()) < N9(),
        (inv_n9((h1 + k) % N9()) * k) % N9() == (k * inv_n9((h1 + k) % N9())) % N9()
{
    lemma_params9();
    let t = (h1 + k) % N9();
    lemma_mod_bound(h1 + k, N9());
    lemma_mod_twice(h1 + k, N9());
    ax9_inv_n(t);
    assert(inv_n9(t) * k == k * inv_n9(t)) by(nonlinear_arith);
}
proof fn k9_gt_bytes_len(g: Gt) ensures gt_bytes(g).len() == 32 * g.c.len() decreases g.c.len()
{
    if g.c.len() > 0 { k9_gt_bytes_len(Gt { c: g.c.drop_last() }); lemma_be_bytes_len(g.c.last(), 32); }
}
proof fn k9_gt_wrap(g: Gt) ensures (Gt { c: g.c }) == g { }
proof fn k9_xy_len(q: Pt1) ensures xy1_bytes(q).len() == 64
{ lemma_be_bytes_len(pt1_x(q), 32); lemma_be_bytes_len(pt1_y(q), 32); }
proof fn k9_kdf_blocks_prefix(z: Seq<u8>, m: nat, n: nat) requires m <= n
    ensures s_kdf_blocks(z, n).subrange(0, 32 * (m as int)) =~= s_kdf_blocks(z, m), s_kdf_blocks(z, n).len() == 32 * n, s_kdf_blocks(z, m).len() == 32 * m
    decreases n
{
    lemma_kdf_blocks_len(z, n); lemma_kdf_blocks_len(z, m);
    if m < n {
        k9_kdf_blocks_prefix(z, m, (n - 1) as nat);
        lemma_sm3_len(z + be_bytes(n as int, 4));
        let a = s_kdf_blocks(z, (n - 1) as nat); let b = sm3_spec(z + be_bytes(n as int, 4));
        assert(s_kdf_blocks(z, n) == a + b);
        assert((a + b).subrange(0, 32 * (m as int)) =~= a.subrange(0, 32 * (m as int)));
    } else {
        assert(s_kdf_blocks(z, n).subrange(0, 32 * (m as int)) =~= s_kdf_blocks(z, m));
    }
}
proof fn k9_kdf_len(z: Seq<u8>, n: nat) ensures s_kdf(z, n).len() == n
{ lemma_kdf_blocks_len(z, ((n + 31) / 32) as nat); }
// a longer KDF output starts with the shorter one
proof fn k9_kdf_prefix(z: Seq<u8>, big: nat, n: nat) requires n <= big
    ensures s_kdf(z, big).subrange(0, n as int) =~= s_kdf(z, n)
{
    let mb = ((big + 31) / 32) as nat; let mn = ((n + 31) / 32) as nat;
    k9_kdf_blocks_prefix(z, mn, mb);
    let bb = s_kdf_blocks(z, mb);
    assert(bb.subrange(0, big as int).subrange(0, n as int) =~= bb.subrange(0, n as int));
    assert(bb.subrange(0, 32 * (mn as int)).subrange(0, n as int) =~= bb.subrange(0, n as int));
}
//@section code gm-sm9/src/key.rs
#[derive(Copy, Debug, Clone)]
struct Sm9EncKey {
    ppube: Point,
    de: TwistPoint,
}
impl Sm9EncKey {
//@props C10 C20
    #[verifier::spinoff_prover]
    fn decrypt(&self, idb: &[u8], data: &[u8]) -> (res: Sm9Result<Vec<u8>>)
        requires valid2(self.de), idb@.len() < 0x1000_0000_0000_0000
        ensures res is Ok ==> dec9_ok(abs2(self.de), idb@, data@, res->Ok_0@),
            res is Ok ==> dec9_k1_nz(abs2(self.de), idb@, data@),
            (exists|m: Seq<u8>| dec9_ok(abs2(self.de), idb@, data@, m)) && dec9_k1_nz(abs2(self.de), idb@, data@) ==> res is Ok,
    {
        hide(f12_bytes); hide(val4);
        
        if data.len() <= 65 + 32 || data.len() > 65 + 32 + 255 {
            proof { k9_dec_rej_len(abs2(self.de), idb@, data@); }
            return Err(Sm9Error::InvalidFieldLen);
        }
        let c1_bytes = &data[0..65];
        let c2 = &data[(65 + 32)..];
        let c3 = &data[65..(65 + 32)];
        
        proof {
            lemma_key9_consts(); lemma_params9();
            assert(c1_bytes@.subrange(1, 33).subrange(0, 32) =~= data@.subrange(1, 33));
            assert(c1_bytes@.subrange(33, 65).subrange(0, 32) =~= data@.subrange(33, 65));
            assert(c1_bytes@.subrange(1, 33) =~= data@.subrange(1, 33));
            assert(c1_bytes@.subrange(33, 65) =~= data@.subrange(33, 65));
        }
        if c1_bytes[0] != 0x04
            || u256_cmp(&u256_from_be_bytes(&c1_bytes[1..33]), &SM9_P) >= 0
            || u256_cmp(&u256_from_be_bytes(&c1_bytes[33..65]), &SM9_P) >= 0
        {
            proof { k9_is_int(c1_bytes@[0] as int, data@[0] as int); k9_dec_rej_hdr(abs2(self.de), idb@, data@); }
            return Err(Sm9Error::InvalidPoint);
        }
        let c1 = Point::from_bytes(c1_bytes);
        proof { k9_z_one(c1); k9_is_pt1(abs1(c1), Pt1::Aff { x: be_val(data@.subrange(1, 33)), y: be_val(data@.subrange(33, 65)) }); }
        if !c1.is_on_curve() {
            proof { k9_dec_rej_curve(abs2(self.de), idb@, data@, abs1(c1)); }
            return Err(Sm9Error::InvalidPoint);
        }
        let w = sm9_u256_pairing(&self.de, &c1);
        let w_bytes = w.to_bytes_be();
        let mut k_append: Vec<u8> = vec![];
        k_append.extend_from_slice(&c1_bytes[1..65]);
        k_append.extend_from_slice(&w_bytes);
        k_append.extend_from_slice(idb);
        let ghost zz = data@.subrange(1, 65) + gt_bytes(e9(abs2(self.de), abs1(c1))) + idb@;
        proof {
            k9_link12(); k9_gt_wrap(abs12(w)); k9_gt_bytes_len(abs12(w));
            assert(w_bytes@ == gt_bytes(abs12(w)));
            assert(c1_bytes@.subrange(1, 65) =~= data@.subrange(1, 65));
            assert(k_append@ =~= zz);
            k9_kdf_len(zz, 287);
            k9_is_bytes(zz, dec9_kz(abs2(self.de), idb@, data@));
        }
        let k = kdf(&k_append, (255 + 32) as usize);
        let ghost kk = k@;
        fn is_zero(x: &Vec<u8>) -> (r: bool)
            ensures r == s_all_zero(x@)
        {
            shim_all_zero(x)
        }

        proof { k9_dec_k1(abs2(self.de), idb@, data@, zz, kk.subrange(0, data@.len() - 97)); }
        if !is_zero(&k[..data.len() - (65 + 32)].to_vec()) {
            let k = k.as_slice();
            let mlen = data.len() - (65 + 32);
            let k1 = &k[0..mlen];
            let k2 = &k[mlen..];
            proof {
                k9_kdf_prefix(zz, 287, (mlen + 32) as nat);
                k9_kdf_len(zz, (mlen + 32) as nat);
                let kd = s_kdf(zz, (mlen + 32) as nat);
                assert(k2@.subrange(0, 32) =~= kd.subrange(mlen as int, mlen as int + 32));
                assert(k1@ =~= kd.subrange(0, mlen as int));
                assert(c2@ =~= data@.subrange(97, data@.len() as int));
                assert(c3@ =~= data@.subrange(65, 97));
            }
            let u = sm9_mac(&k2[..32], c2);
            if shim_ne_slices(u.as_slice(), c3) {
                proof { k9_dec_rej_mac(abs2(self.de), idb@, data@, zz, mlen as int, s_kdf(zz, (mlen + 32) as nat), u@); }
                return Err(Sm9Error::InvalidDigest);
            }
            let m = xor(c2, &k1, k1.len());
            proof {
                assert(c2@.subrange(0, mlen as int) =~= c2@);
                assert(k1@.subrange(0, mlen as int) =~= k1@);
            }
            Ok(m)
        } else {
            proof { k9_dec_rej_zero(abs2(self.de), idb@, data@, kk.subrange(0, data@.len() - 97)); }
            Err(Sm9Error::KdfHashError)
        }
    }
}
#[derive(Copy, Debug, Clone)]
struct Sm9EncMasterKey {
    ke: U256,
    ppube: Point,
}
impl Sm9EncMasterKey {
//@props C14 C20
    fn master_key_generate() -> (r: Sm9EncMasterKey)
        ensures csprng9(r.ke@), 1 <= val4(r.ke@) < N9() - 1, valid1(r.ppube), abs1(r.ppube) == g1_smul(val4(r.ke@), G1P()),
    {
        
        proof { lemma_key9_consts(); }
        let ke = sm9_random_u256(&SM9_N_MINUS_ONE);
        Self {
            ke,
            ppube: Point::g_mul(&ke), 
        }
    }

//@props C10 C14 C20
    #[verifier::spinoff_prover]
    #[verifier::exec_allows_no_decreases_clause]
    fn encrypt(&self, idb: &[u8], data: &[u8]) -> (c: Vec<u8>)
        requires valid1(self.ppube), 1 <= data@.len() <= 255, idb@.len() < 0x1000_0000_0000_0000
        ensures exists|r: Seq<u64>| #[trigger] csprng9(r) && enc9_from_nonce(val4(r), abs1(self.ppube), idb@, data@, c@),
            exists|r: Seq<u64>| #[trigger] csprng9(r) && enc9_from_nonce_k1(val4(r), abs1(self.ppube), idb@, data@, c@),
    {
        
        hide(f12_bytes); hide(val4);
        proof { lemma_key9_consts(); lemma_params9(); lemma_p2_generator(); }
        let t = sm9_u256_hash1(idb, SM9_HID_ENC);
        let mut c1 = SM9_POINT_MONT_P1.point_mul(&t);
        c1 = c1.point_add(&self.ppube);

        let mut k = vec![];
        let q = c1;
        let ghost qb = g1_add(g1_smul(s_h1(idb@, 3u8), G1P()), abs1(self.ppube));
        let ghost mut r0: Seq<u64> = t@;
        loop
            invariant_except_break valid1(q), abs1(q) == qb, valid1(self.ppube), idb@.len() < 0x1000_0000_0000_0000,
                val4(SM9_N_MINUS_ONE@) == N9() - 1, valid2(SM9_TWIST_POINT_MONT_P2), abs2(SM9_TWIST_POINT_MONT_P2) == G2P(),
                1 <= data@.len() <= 255,
            ensures csprng9(r0), 1 <= val4(r0) < N9() - 1, valid1(c1), abs1(c1) == g1_smul(val4(r0), qb),
                k@ == s_kdf(xy1_bytes(abs1(c1)) + gt_bytes(gt_pow(e9(G2P(), abs1(self.ppube)), val4(r0))) + idb@, 287),
                !s_all_zero(k@.subrange(0, data@.len() as int)),
        {
            
            let r = sm9_random_u256(&SM9_N_MINUS_ONE);

            
            proof { r0 = r@; }
            c1 = q.point_mul(&r);
            let cbuf = c1.to_bytes_be();
            let cbuf = cbuf.as_slice();

            
            let mut g = sm9_u256_pairing(&SM9_TWIST_POINT_MONT_P2, &self.ppube);

            
            g = g.pow(&r);
            let gbuf = g.to_bytes_be();
            let gbuf = gbuf.as_slice();

            
            let mut k_append: Vec<u8> = vec![];
            
            k_append.extend_from_slice(&cbuf[1..cbuf.len()]);
            k_append.extend_from_slice(gbuf);
            k_append.extend_from_slice(idb);
            proof {
                k9_link12(); k9_gt_wrap(abs12(g)); k9_gt_bytes_len(abs12(g)); k9_xy_len(abs1(c1));
                assert(gbuf@ == gt_bytes(abs12(g)));
                assert(cbuf@.subrange(1, cbuf@.len() as int) =~= xy1_bytes(abs1(c1)));
                assert(k_append@ =~= xy1_bytes(abs1(c1)) + gt_bytes(gt_pow(e9(G2P(), abs1(self.ppube)), val4(r0))) + idb@);
                k9_kdf_len(k_append@, 287);
            }
            k = kdf(&k_append, (255 + 32) as usize);
            fn is_zero(x: &Vec<u8>) -> (r: bool)
                ensures r == s_all_zero(x@)
            {
                shim_all_zero(x)
            }

            if !is_zero(&k[..data.len()].to_vec()) {
                break;
            }
        }

        let ghost zz = xy1_bytes(abs1(c1)) + gt_bytes(gt_pow(e9(G2P(), abs1(self.ppube)), val4(r0))) + idb@;
        let ghost mlen = data@.len() as int;
        proof { k9_kdf_len(zz, 287); }
        let k1 = &k[0..data.len()];
        let k2 = &k[data.len()..];
        proof {
            k9_kdf_prefix(zz, 287, (mlen + 32) as nat);
            k9_kdf_len(zz, (mlen + 32) as nat);
            let kd = s_kdf(zz, (mlen + 32) as nat);
            assert(k2@.subrange(0, 32) =~= kd.subrange(mlen, mlen + 32));
            assert(k1@ =~= kd.subrange(0, mlen));
            assert(k1@.subrange(0, mlen) =~= k1@);
            assert(data@.subrange(0, mlen) =~= data@);
        }
        let c2 = xor(k1, &data, data.len());
        let c3 = sm9_mac(&k2[..32], &c2);
        let mut c: Vec<u8> = vec![];
        c.extend_from_slice(&c1.to_bytes_be());
        c.extend_from_slice(&c3);
        c.extend_from_slice(&c2);
        proof {
            assert(c@ =~= seq![4u8] + xy1_bytes(abs1(c1)) + c3@ + c2@);
            assert(csprng9(r0) && enc9_from_nonce(val4(r0), abs1(self.ppube), idb@, data@, c@));
            k9_enc_k1(val4(r0), abs1(self.ppube), idb@, mlen, zz, k@.subrange(0, mlen));
            assert(csprng9(r0) && enc9_from_nonce_k1(val4(r0), abs1(self.ppube), idb@, data@, c@));
        }
        c
    }

//@props C10 C16 C20
    fn extract_key(&self, id: &[u8]) -> (res: Option<Sm9EncKey>)
        requires 1 <= val4(self.ke@) < N9(), id@.len() < 0x1000_0000_0000_0000
        ensures res is None <==> (s_h1(id@, 3u8) + val4(self.ke@)) % N9() == 0,
            res is Some ==> res->Some_0.ppube == self.ppube && valid2(res->Some_0.de)
                && abs2(res->Some_0.de) == g2_smul((val4(self.ke@) * inv_n9((s_h1(id@, 3u8) + val4(self.ke@)) % N9())) % N9(), G2P()),
    {
        
        proof { lemma_params9(); lemma_key9_consts(); }
        let mut t = sm9_u256_hash1(id, SM9_HID_ENC);
        let ghost h1 = val4(t@);
        t = mod_n_add(&t, &self.ke);
        proof { lemma_mod_bound(h1 + val4(self.ke@), N9()); k9_fe_zero(t@); }
        if t.is_zero() {
            return None;
        }
        
        proof { k9_extract(h1, val4(self.ke@)); }
        t = mod_n_inv(&t);

        
        t = mod_n_mul(&t, &self.ke);
        Some(Sm9EncKey {
            ppube: self.ppube,
            de: TwistPoint::g_mul(&t),
        })
    }

//@props C16 C17 C20
    fn extract_exch_key(&self, id: &[u8]) -> (res: Option<Sm9EncKey>)
        requires 1 <= val4(self.ke@) < N9(), id@.len() < 0x1000_0000_0000_0000
        ensures res is None <==> (s_h1(id@, 2u8) + val4(self.ke@)) % N9() == 0,
            res is Some ==> res->Some_0.ppube == self.ppube && valid2(res->Some_0.de)
                && abs2(res->Some_0.de) == g2_smul((val4(self.ke@) * inv_n9((s_h1(id@, 2u8) + val4(self.ke@)) % N9())) % N9(), G2P()),
    {
        
        proof { lemma_params9(); lemma_key9_consts(); }
        let mut t = sm9_u256_hash1(id, SM9_HID_EXCH);
        let ghost h1 = val4(t@);
        t = mod_n_add(&t, &self.ke);
        proof { lemma_mod_bound(h1 + val4(self.ke@), N9()); k9_fe_zero(t@); }
        if t.is_zero() {
            return None;
        }
        
        proof { k9_extract(h1, val4(self.ke@)); }
        t = mod_n_inv(&t);

        
        t = mod_n_mul(&t, &self.ke);
        Some(Sm9EncKey {
            ppube: self.ppube,
            de: TwistPoint::g_mul(&t),
        })
    }
}
//@props C14 C20
fn generate_sign_master_key() -> (r: Sm9SignMasterKey)
    ensures csprng9(r.ks@), 1 <= val4(r.ks@) < N9() - 1, valid2(r.ppubs), abs2(r.ppubs) == g2_smul(val4(r.ks@), G2P()),
{
    proof { lemma_key9_consts(); }
    let ks = sm9_random_u256(&SM9_N_MINUS_ONE);
    Sm9SignMasterKey {
        ks,
        ppubs: TwistPoint::g_mul(&ks),
    }
}
//@props C14 C20
fn generate_enc_master_key() -> (r: Sm9EncMasterKey)
    ensures csprng9(r.ke@), 1 <= val4(r.ke@) < N9() - 1, valid1(r.ppube), abs1(r.ppube) == g1_smul(val4(r.ke@), G1P()),
{
    proof { lemma_key9_consts(); }
    let ke = sm9_random_u256(&SM9_N_MINUS_ONE);
    Sm9EncMasterKey {
        ke,
        ppube: Point::g_mul(&ke),
    }
}
//@props C10 C20
fn sm9_mac(k2: &[u8], z: &[u8]) -> (r: Vec<u8>)
    requires k2@.len() + z@.len() < 0x1000_0000_0000_0000
    ensures r@ == s_mac9(k2@, z@),
{
    let mut buf: Vec<u8> = vec![];
    buf.extend_from_slice(z);
    buf.extend_from_slice(k2);
    proof { assert(buf@ =~= z@ + k2@); }
    sm3_hash(&buf).to_vec()
}
//@props C09 C10 C16 C17 C20
fn sm9_u256_hash1(id: &[u8], hid: u8) -> (r: U256)
    requires id@.len() < 0x1000_0000_0000_0000
    ensures val4(r@) == s_h1(id@, hid), 1 <= val4(r@) < N9(),
{
    let ct1: [u8; 4] = [0x00, 0x00, 0x00, 0x01];
    let ct2: [u8; 4] = [0x00, 0x00, 0x00, 0x02];
    let mut c3_append: Vec<u8> = vec![];
    c3_append.extend_from_slice(&vec![SM9_HASH1_PREFIX]);
    c3_append.extend_from_slice(id);
    c3_append.extend_from_slice(&vec![hid]);
    c3_append.extend_from_slice(&ct1);
    proof { assert(c3_append@ =~= seq![1u8] + (id@ + seq![hid]) + seq![0u8, 0u8, 0u8, 1u8]); }
    let ha1 = sm3_hash(&c3_append);

    let mut c3_append2: Vec<u8> = vec![];
    c3_append2.extend_from_slice(&vec![SM9_HASH1_PREFIX]);
    c3_append2.extend_from_slice(id);
    c3_append2.extend_from_slice(&vec![hid]);
    c3_append2.extend_from_slice(&ct2);
    proof { assert(c3_append2@ =~= seq![1u8] + (id@ + seq![hid]) + seq![0u8, 0u8, 0u8, 2u8]); }
    let ha2 = sm3_hash(&c3_append2);

    let mut ha = vec![];
    ha.extend_from_slice(&ha1);
    ha.extend_from_slice(&ha2);
    proof {
        lemma_sm3_len(c3_append@); lemma_sm3_len(c3_append2@);
        assert(ha@ =~= sm3_spec(c3_append@) + sm3_spec(c3_append2@));
        k9_h_range(1u8, id@ + seq![hid]);
    }
    let r = mod_n_from_hash(&ha);
    r
}
//@props C09 C16 C20
fn sm9_u256_hash2(data: &[u8], wbuf: &[u8]) -> (r: U256)
    requires data@.len() + wbuf@.len() < 0x1fff_ffff_ffff_fff0 /* relaxed from < 0x1000_0000_0000_0000, callers add 384 GT bytes */
    ensures val4(r@) == s_h2(data@, wbuf@), 1 <= val4(r@) < N9(),
{
    let ct1: [u8; 4] = [0x00, 0x00, 0x00, 0x01];
    let ct2: [u8; 4] = [0x00, 0x00, 0x00, 0x02];
    let mut c3_append: Vec<u8> = vec![];
    c3_append.extend_from_slice(&vec![SM9_HASH2_PREFIX]);
    c3_append.extend_from_slice(data);
    c3_append.extend_from_slice(wbuf);
    c3_append.extend_from_slice(&ct1);
    proof { assert(c3_append@ =~= seq![2u8] + (data@ + wbuf@) + seq![0u8, 0u8, 0u8, 1u8]); }
    let ha1 = sm3_hash(&c3_append);

    let mut c3_append2: Vec<u8> = vec![];
    c3_append2.extend_from_slice(&vec![SM9_HASH2_PREFIX]);
    c3_append2.extend_from_slice(data);
    c3_append2.extend_from_slice(wbuf);
    c3_append2.extend_from_slice(&ct2);
    proof { assert(c3_append2@ =~= seq![2u8] + (data@ + wbuf@) + seq![0u8, 0u8, 0u8, 2u8]); }
    let ha2 = sm3_hash(&c3_append2);

    let mut ha = vec![];
    ha.extend_from_slice(&ha1);
    ha.extend_from_slice(&ha2);
    proof {
        lemma_sm3_len(c3_append@); lemma_sm3_len(c3_append2@);
        assert(ha@ =~= sm3_spec(c3_append@) + sm3_spec(c3_append2@));
        k9_h_range(2u8, data@ + wbuf@);
    }
    let r = mod_n_from_hash(&ha);
    r
}
//@props C10 C17 C20
fn kdf(z: &[u8], klen: usize) -> (h_a: Vec<u8>)
    requires 1 <= klen < 0x1_0000_0000, z@.len() < 0x1fff_ffff_ffff_fff0 /* relaxed from < 0x1000_0000_0000_0000, callers add point and GT bytes */
    ensures h_a@ == s_kdf(z@, klen as nat),
{
    let mut ct = 0x00000001u32;
    let bound = shim_ceil_div32(klen);
    let mut h_a = Vec::new();
    for _i in it: 1..bound
        invariant bound as int == (klen + 31) / 32, ct as int == it.index@ + 1, ct <= bound, z@.len() < 0x1fff_ffff_ffff_fff0,
            h_a@ == s_kdf_blocks(z@, it.index@ as nat),
    {
        let mut prepend = Vec::new();
        prepend.extend_from_slice(z);
        prepend.extend_from_slice(&shim_to_be_u32(ct));

        proof { assert(prepend@ =~= z@ + be_bytes(ct as int, 4)); assert(prepend@.subrange(0, prepend@.len() as int) =~= prepend@); lemma_be_bytes_len(ct as int, 4); }
        let h_a_i = sm3_hash(&prepend[..]);
        h_a.extend_from_slice(&h_a_i);
        ct += 1;
    }

    let mut prepend = Vec::new();
    prepend.extend_from_slice(z);
    prepend.extend_from_slice(&shim_to_be_u32(ct));

    proof { assert(prepend@ =~= z@ + be_bytes(ct as int, 4)); assert(prepend@.subrange(0, prepend@.len() as int) =~= prepend@); lemma_be_bytes_len(ct as int, 4); }
    let last = sm3_hash(&prepend[..]);
    proof { lemma_kdf_blocks_len(z@, (bound - 1) as nat); lemma_sm3_len(z@ + be_bytes(bound as int, 4)); }
    if klen % 32 == 0 {
        h_a.extend_from_slice(&last);
    } else {
        h_a.extend_from_slice(&last[0..(klen % 32)]);
    }
    proof {
        let full = s_kdf_blocks(z@, bound as nat);
        assert(full == s_kdf_blocks(z@, (bound - 1) as nat) + sm3_spec(z@ + be_bytes(bound as int, 4)));
        assert(h_a@ =~= full.subrange(0, klen as int));
    }
    h_a
}
#[derive(Copy, Debug, Clone)]
struct Sm9SignKey {
    ppubs: TwistPoint,
    ds: Point,
}
impl Sm9SignKey {
    
//@props C09 C14 C20
    #[verifier::spinoff_prover]
    #[verifier::exec_allows_no_decreases_clause]
    fn sign(&self, data: &[u8]) -> (res: Sm9Result<(U256, Point)>)
        requires valid2(self.ppubs), valid1(self.ds), data@.len() < 0x1000_0000_0000_0000
        ensures res is Ok, exists|r: Seq<u64>| #[trigger] csprng9(r) && sig9_from_nonce(val4(r), abs2(self.ppubs), abs1(self.ds), data@, val4(res->Ok_0.0@), abs1(res->Ok_0.1)),
            valid1(res->Ok_0.1),
    {
        
        hide(f12_bytes); hide(val4);
        proof { lemma_key9_consts(); lemma_params9(); }
        let g = sm9_u256_pairing(&self.ppubs, &SM9_POINT_MONT_P1);
        proof { k9_is_gt(abs12(g), e9(abs2(self.ppubs), G1P())); }
        let mut h: U256 = [0, 0, 0, 0];
        let mut r: U256 = [0, 0, 0, 0];
        let ghost mut r0: Seq<u64> = r@;
        loop
            invariant_except_break ok12(g), abs12(g) == e9(abs2(self.ppubs), G1P()), data@.len() < 0x1000_0000_0000_0000,
                val4(SM9_N_MINUS_ONE@) == N9() - 1, 0 < N9() < P9(),
            ensures csprng9(r0), 1 <= val4(r0) < N9() - 1, val4(h@) == s_h2(data@, gt_bytes(gt_pow(abs12(g), val4(r0)))),
                val4(r@) == (val4(r0) - val4(h@)) % N9(), val4(r@) != 0,
        {
            
            r = sm9_random_u256(&SM9_N_MINUS_ONE);

            
            proof { r0 = r@; }
            let w = g.pow(&r);
            proof { k9_gt_pow(g, w, val4(r0)); }
            let wbuf = w.to_bytes_be();
            let wbuf = wbuf.as_slice();

            
            proof { k9_gt_ser(w, wbuf@); k9_is_bytes(wbuf@, gt_bytes(gt_pow(abs12(g), val4(r0)))); }
            h = sm9_u256_hash2(data, wbuf);
            proof { k9_is_int(val4(h@), s_h2(data@, gt_bytes(gt_pow(abs12(g), val4(r0))))); }

            
            r = mod_n_sub(&r, &h);
            proof { k9_is_int(val4(r@), (val4(r0) - val4(h@)) % N9()); }

            proof { lemma_mod_bound(val4(r0) - val4(h@), N9()); k9_fe_zero(r@); }
            if !r.is_zero() {
                break;
            }
        }

        
        let s = self.ds.point_mul(&r);

        proof { k9_sign_final(r0, abs2(self.ppubs), abs1(self.ds), data@, abs12(g), val4(h@), val4(r@), abs1(s)); }
        Ok((h, s))
    }
}
#[derive(Copy, Debug, Clone)]
struct Sm9SignMasterKey {
    ks: U256,
    ppubs: TwistPoint,
}
impl Sm9SignMasterKey {
//@props C14 C20
    fn master_key_generate() -> (r: Self)
        ensures csprng9(r.ks@), 1 <= val4(r.ks@) < N9() - 1, valid2(r.ppubs), abs2(r.ppubs) == g2_smul(val4(r.ks@), G2P()),
    {
        
        proof { lemma_key9_consts(); }
        let ks = sm9_random_u256(&SM9_N_MINUS_ONE);
        Self {
            ks,
            ppubs: TwistPoint::g_mul(&ks), 
        }
    }

//@props C09 C16 C20
    fn extract_key(&self, idb: &[u8]) -> (res: Option<Sm9SignKey>)
        requires 1 <= val4(self.ks@) < N9(), idb@.len() < 0x1000_0000_0000_0000
        ensures res is None <==> (s_h1(idb@, 1u8) + val4(self.ks@)) % N9() == 0,
            res is Some ==> res->Some_0.ppubs == self.ppubs && valid1(res->Some_0.ds)
                && abs1(res->Some_0.ds) == g1_smul((val4(self.ks@) * inv_n9((s_h1(idb@, 1u8) + val4(self.ks@)) % N9())) % N9(), G1P()),
    {
        
        proof { lemma_params9(); lemma_key9_consts(); }
        let mut t = sm9_u256_hash1(idb, SM9_HID_SIGN);
        let ghost h1 = val4(t@);
        t = mod_n_add(&t, &self.ks);
        proof { lemma_mod_bound(h1 + val4(self.ks@), N9()); k9_fe_zero(t@); }
        if t.is_zero() {
            return None;
        }
        
        proof { k9_extract(h1, val4(self.ks@)); }
        t = mod_n_inv(&t);

        
        t = mod_n_mul(&t, &self.ks);
        Some(Sm9SignKey {
            ppubs: self.ppubs,
            ds: Point::g_mul(&t),
        })
    }

//@props C09 C20
    #[verifier::spinoff_prover]
    fn verify_sign(&self, id: &[u8], data: &[u8], h: &U256, s: &Point) -> (res: Sm9Result<()>)
        requires valid2(self.ppubs), wf1(*s), val4(s.z@) != 0, id@.len() < 0x1000_0000_0000_0000, data@.len() < 0x1000_0000_0000_0000
        ensures res is Ok ==> ver9_ok(abs2(self.ppubs), id@, data@, val4(h@), abs1(*s)),
            ver9_ok(abs2(self.ppubs), id@, data@, val4(h@), abs1(*s)) ==> res is Ok,
    {
        
        hide(f12_bytes); hide(val4);
        proof { lemma_key9_consts(); k9_h_canon(h@); }
        if h.is_zero() || u256_cmp(h, &SM9_N) >= 0 {
            proof { k9_ver_rej_h(abs2(self.ppubs), id@, data@, val4(h@), abs1(*s)); }
            return Err(Sm9Error::InvalidDigest);
        }
        if !s.is_on_curve() {
            proof { k9_ver_rej_curve(abs2(self.ppubs), id@, data@, val4(h@), abs1(*s)); }
            return Err(Sm9Error::InvalidPoint);
        }
        let g = sm9_u256_pairing(&self.ppubs, &SM9_POINT_MONT_P1);
        proof { k9_is_gt(abs12(g), e9(abs2(self.ppubs), G1P())); }
        let t = g.pow(h);
        proof { k9_gt_pow(g, t, val4(h@)); }
        
        let h1 = sm9_u256_hash1(id, SM9_HID_SIGN);
        proof { k9_is_int(val4(h1@), s_h1(id@, 1u8)); }
        let mut p = TwistPoint::g_mul(&h1);
        p = twist_point_add_full(&self.ppubs, &p);
        proof { k9_is_pt2(abs2(p), g2_add(abs2(self.ppubs), g2_smul(s_h1(id@, 1u8), G2P()))); }

        let u = sm9_u256_pairing(&p, s);
        proof { k9_is_gt(abs12(u), e9(abs2(p), abs1(*s))); }
        let w = u.fp_mul(&t);
        proof { k9_gt_mul(u, t, w); }
        let wbuf = w.to_bytes_be();
        let wbuf = wbuf.as_slice();
        proof { k9_gt_ser(w, wbuf@); }
        let h2 = sm9_u256_hash2(data, wbuf);
        if u256_cmp(&h2, h) != 0 {
            proof {
                k9_ver_rej_hash(abs2(self.ppubs), id@, data@, val4(h@), abs1(*s), val4(h1@), abs2(p), abs12(g), abs12(t), abs12(u), abs12(w),
                    wbuf@, val4(h2@));
            }
            Err(Sm9Error::InvalidDigest)
        } else {
            proof {
                k9_ver_final(abs2(self.ppubs), id@, data@, val4(h@), abs1(*s), val4(h1@), abs2(p), abs12(g), abs12(t), abs12(u), abs12(w),
                    wbuf@, val4(h2@));
            }
            Ok(())
        }
    }
}
//@props C14 C17 C20
fn exch_step_1a(msk: &Sm9EncMasterKey, idb: &[u8]) -> (res: (Point, U256))
    requires valid1(msk.ppube), idb@.len() < 0x1000_0000_0000_0000
    ensures csprng9(res.1@), 1 <= val4(res.1@) < N9() - 1, valid1(res.0),
        abs1(res.0) == g1_smul(val4(res.1@), g1_add(g1_smul(s_h1(idb@, 2u8), G1P()), abs1(msk.ppube))),
{
    
    proof { lemma_key9_consts(); }
    let mut ra = sm9_u256_hash1(idb, SM9_HID_EXCH);
    let mut r = SM9_POINT_MONT_P1.point_mul(&ra);
    r = r.point_add(&msk.ppube);

    
    ra = sm9_random_u256(&SM9_N_MINUS_ONE);
    

    
    r = r.point_mul(&ra);

    (r, ra)
}
//@props C14 C17 C20
#[verifier::spinoff_prover]
#[verifier::exec_allows_no_decreases_clause]
fn exch_step_1b(
    msk: &Sm9EncMasterKey,
    ida: &[u8],
    idb: &[u8],
    key: &Sm9EncKey,
    ra: &Point,
    klen: usize,
) -> (res: Sm9Result<(Point, Vec<u8>)>)
    requires valid1(msk.ppube), valid2(key.de), wf1(*ra), val4(ra.z@) != 0, 1 <= klen < 0x1_0000_0000,
        ida@.len() + idb@.len() < 0x1000_0000_0000_0000
    ensures !on_curve1(abs1(*ra)) ==> res is Err,
        on_curve1(abs1(*ra)) ==> res is Ok,
        res is Ok ==> (exists|rb: Seq<u64>| #[trigger] csprng9(rb) && exch9_b(val4(rb), abs1(msk.ppube), abs2(key.de), ida@, idb@, abs1(*ra), klen as nat, abs1(res->Ok_0.0), res->Ok_0.1@)),
{
    
    hide(f12_bytes); hide(val4);
    proof { lemma_key9_consts(); lemma_p2_generator(); }
    let mut rb = sm9_u256_hash1(ida, SM9_HID_EXCH);
    proof { k9_is_int(val4(rb@), s_h1(ida@, 2u8)); }
    let mut r = SM9_POINT_MONT_P1.point_mul(&rb);
    r = r.point_add(&msk.ppube);
    let mut sk = vec![];
    let q = r;
    let ghost qb = g1_add(g1_smul(s_h1(ida@, 2u8), G1P()), abs1(msk.ppube));
    proof { k9_is_pt1(abs1(q), qb); }
    loop
        invariant_except_break valid1(q), abs1(q) == qb, valid1(msk.ppube), valid2(key.de), wf1(*ra), val4(ra.z@) != 0, 1 <= klen < 0x1_0000_0000,
            ida@.len() + idb@.len() < 0x1000_0000_0000_0000, valid2(SM9_TWIST_POINT_MONT_P2), abs2(SM9_TWIST_POINT_MONT_P2) == G2P(),
            val4(SM9_N_MINUS_ONE@) == N9() - 1,
        ensures on_curve1(abs1(*ra)), csprng9(rb@), 1 <= val4(rb@) < N9() - 1, abs1(r) == g1_smul(val4(rb@), qb),
            sk@ == exch9_key(ida@, idb@, abs1(*ra), abs1(r), e9(abs2(key.de), abs1(*ra)), gt_pow(e9(G2P(), abs1(msk.ppube)), val4(rb@)), gt_pow(e9(abs2(key.de), abs1(*ra)), val4(rb@)), klen as nat),
    {
        
        rb = sm9_random_u256(&SM9_N_MINUS_ONE);

        

        
        r = q.point_mul(&rb);
        proof { k9_is_pt1(abs1(r), g1_smul(val4(rb@), qb)); }

        
        if !ra.is_on_curve() {
            return Err(Sm9Error::InvalidPoint);
        }

        let g1 = sm9_u256_pairing(&key.de, &ra);
        proof { k9_is_gt(abs12(g1), e9(abs2(key.de), abs1(*ra))); }
        let mut g2 = sm9_u256_pairing(&SM9_TWIST_POINT_MONT_P2, &msk.ppube);
        let ghost f2 = g2;
        proof { k9_is_gt(abs12(f2), e9(G2P(), abs1(msk.ppube))); }
        g2 = g2.pow(&rb);
        proof { k9_gt_pow(f2, g2, val4(rb@)); k9_is_gt(abs12(g2), gt_pow(e9(G2P(), abs1(msk.ppube)), val4(rb@))); }
        let g3 = g1.pow(&rb);
        proof { k9_gt_pow(g1, g3, val4(rb@)); k9_is_gt(abs12(g3), gt_pow(e9(abs2(key.de), abs1(*ra)), val4(rb@))); }
        let ghost a1 = abs12(g1); let ghost a2 = abs12(g2); let ghost a3 = abs12(g3);
        let ghost w1 = g1; let ghost w2 = g2; let ghost w3 = g3;
        let ta = ra.to_bytes_be();
        let tb = r.to_bytes_be();

        let g1 = g1.to_bytes_be();
        let g2 = g2.to_bytes_be();
        let g3 = g3.to_bytes_be();
        proof { k9_be32(); }
        let mut pre_append = vec![];
        let ghost e0: Seq<u8> = pre_append@;
        pre_append.extend_from_slice(ida);
        pre_append.extend_from_slice(idb);
        let ghost e2: Seq<u8> = pre_append@;
        proof { assert(e2 =~= e0 + ida@ + idb@); }
        pre_append.extend_from_slice(&ta[1..]);
        let ghost e3: Seq<u8> = pre_append@;
        proof { k9_is_int(e3.len() as int, e2.len() as int + 64); assert(e3 =~= e2 + ta@.subrange(1, ta@.len() as int)); }
        pre_append.extend_from_slice(&tb[1..]);
        let ghost e4: Seq<u8> = pre_append@;
        proof { k9_is_int(e4.len() as int, e3.len() as int + 64); assert(e4 =~= e3 + tb@.subrange(1, tb@.len() as int)); }
        pre_append.extend_from_slice(&g1);
        let ghost e5: Seq<u8> = pre_append@;
        proof { assert(e5 =~= e4 + g1@); }
        pre_append.extend_from_slice(&g2);
        let ghost e6: Seq<u8> = pre_append@;
        proof { assert(e6 =~= e5 + g2@); }
        pre_append.extend_from_slice(&g3);
        proof { assert(pre_append@ =~= e6 + g3@); }

        proof {
            k9_gt_ser(w1, g1@); k9_gt_ser(w2, g2@); k9_gt_ser(w3, g3@);
            k9_xy_len(abs1(*ra)); k9_xy_len(abs1(r));
            k9_exch_cat(pre_append@, e0, ida@, idb@, ta@, tb@, g1@, g2@, g3@, xy1_bytes(abs1(*ra)), xy1_bytes(abs1(r)), gt_bytes(a1), gt_bytes(a2), gt_bytes(a3));
        }
        proof { k9_kdf_len(pre_append@, klen as nat); }
        sk = kdf(&pre_append, klen);
        proof {
            k9_is_bytes(sk@, exch9_key(ida@, idb@, abs1(*ra), abs1(r), e9(abs2(key.de), abs1(*ra)), gt_pow(e9(G2P(), abs1(msk.ppube)), val4(rb@)),
                gt_pow(e9(abs2(key.de), abs1(*ra)), val4(rb@)), klen as nat));
        }

        fn is_zero(x: &Vec<u8>, klen: usize) -> (r: bool)
            requires klen <= x@.len()
        {
            let mut ret = true;
            for i in 0..klen
                invariant klen <= x@.len()
            {
                if x[i] != 0 {
                    ret = false;
                }
            }
            ret
        }

        if !is_zero(&sk, klen) {
            break;
        }
    }
    proof { k9_exch_b_final(rb@, abs1(msk.ppube), abs2(key.de), ida@, idb@, abs1(*ra), klen as nat, abs1(r), sk@); }
    Ok((r, sk))
}
//@props C17 C20
#[verifier::spinoff_prover]
fn exch_step_2a(
    msk: &Sm9EncMasterKey,
    ida: &[u8],
    idb: &[u8],
    key: &Sm9EncKey,
    ra_: U256,
    ra: &Point,
    rb: &Point,
    klen: usize,
) -> (res: Sm9Result<Vec<u8>>)
    requires valid1(msk.ppube), valid2(key.de), wf1(*ra), val4(ra.z@) != 0, wf1(*rb), val4(rb.z@) != 0, 1 <= klen < 0x1_0000_0000, val4(ra_@) < N9() - 1,
        ida@.len() + idb@.len() < 0x1000_0000_0000_0000
    ensures !on_curve1(abs1(*rb)) ==> res is Err,
        res is Ok ==> res->Ok_0@ == exch9_key(ida@, idb@, abs1(*ra), abs1(*rb),
            gt_pow(e9(G2P(), abs1(msk.ppube)), val4(ra_@)), e9(abs2(key.de), abs1(*rb)), gt_pow(e9(abs2(key.de), abs1(*rb)), val4(ra_@)), klen as nat),
        on_curve1(abs1(*rb)) && !s_all_zero(exch9_key(ida@, idb@, abs1(*ra), abs1(*rb),
            gt_pow(e9(G2P(), abs1(msk.ppube)), val4(ra_@)), e9(abs2(key.de), abs1(*rb)), gt_pow(e9(abs2(key.de), abs1(*rb)), val4(ra_@)), klen as nat)) ==> res is Ok,
{
    hide(f12_bytes); hide(val4);
    proof { lemma_key9_consts(); lemma_p2_generator(); }
    let mut sk = vec![];
    loop
        invariant_except_break valid1(msk.ppube), valid2(key.de), wf1(*ra), val4(ra.z@) != 0, wf1(*rb), val4(rb.z@) != 0, 1 <= klen < 0x1_0000_0000, val4(ra_@) < N9() - 1,
            ida@.len() + idb@.len() < 0x1000_0000_0000_0000, valid2(SM9_TWIST_POINT_MONT_P2), abs2(SM9_TWIST_POINT_MONT_P2) == G2P(),
        ensures on_curve1(abs1(*rb)),
            sk@ == exch9_key(ida@, idb@, abs1(*ra), abs1(*rb), gt_pow(e9(G2P(), abs1(msk.ppube)), val4(ra_@)), e9(abs2(key.de), abs1(*rb)), gt_pow(e9(abs2(key.de), abs1(*rb)), val4(ra_@)), klen as nat),
        decreases 0int,
    {
        if !rb.is_on_curve() {
            return Err(Sm9Error::InvalidPoint);
        }

        let mut g1 = sm9_u256_pairing(&SM9_TWIST_POINT_MONT_P2, &msk.ppube);
        let ghost f1 = g1;
        proof { k9_is_gt(abs12(f1), e9(G2P(), abs1(msk.ppube))); }
        g1 = g1.pow(&ra_);
        proof { k9_gt_pow(f1, g1, val4(ra_@)); k9_is_gt(abs12(g1), gt_pow(e9(G2P(), abs1(msk.ppube)), val4(ra_@))); }

        let g2 = sm9_u256_pairing(&key.de, &rb);
        proof { k9_is_gt(abs12(g2), e9(abs2(key.de), abs1(*rb))); }
        let g3 = g2.pow(&ra_);
        proof { k9_gt_pow(g2, g3, val4(ra_@)); k9_is_gt(abs12(g3), gt_pow(e9(abs2(key.de), abs1(*rb)), val4(ra_@))); }

        let ghost a1 = abs12(g1); let ghost a2 = abs12(g2); let ghost a3 = abs12(g3);
        let ghost w1 = g1; let ghost w2 = g2; let ghost w3 = g3;
        let ta = ra.to_bytes_be();
        let tb = rb.to_bytes_be();

        let g1 = g1.to_bytes_be();
        let g2 = g2.to_bytes_be();
        let g3 = g3.to_bytes_be();
        proof { k9_be32(); }
        let mut pre_append = vec![];
        let ghost e0: Seq<u8> = pre_append@;
        pre_append.extend_from_slice(ida);
        pre_append.extend_from_slice(idb);
        let ghost e2: Seq<u8> = pre_append@;
        proof { assert(e2 =~= e0 + ida@ + idb@); }
        pre_append.extend_from_slice(&ta[1..]);
        let ghost e3: Seq<u8> = pre_append@;
        proof { k9_is_int(e3.len() as int, e2.len() as int + 64); assert(e3 =~= e2 + ta@.subrange(1, ta@.len() as int)); }
        pre_append.extend_from_slice(&tb[1..]);
        let ghost e4: Seq<u8> = pre_append@;
        proof { k9_is_int(e4.len() as int, e3.len() as int + 64); assert(e4 =~= e3 + tb@.subrange(1, tb@.len() as int)); }
        pre_append.extend_from_slice(&g1);
        let ghost e5: Seq<u8> = pre_append@;
        proof { assert(e5 =~= e4 + g1@); }
        pre_append.extend_from_slice(&g2);
        let ghost e6: Seq<u8> = pre_append@;
        proof { assert(e6 =~= e5 + g2@); }
        pre_append.extend_from_slice(&g3);
        proof { assert(pre_append@ =~= e6 + g3@); }

        proof {
            k9_gt_ser(w1, g1@); k9_gt_ser(w2, g2@); k9_gt_ser(w3, g3@);
            k9_xy_len(abs1(*ra)); k9_xy_len(abs1(*rb));
            k9_exch_cat(pre_append@, e0, ida@, idb@, ta@, tb@, g1@, g2@, g3@, xy1_bytes(abs1(*ra)), xy1_bytes(abs1(*rb)), gt_bytes(a1), gt_bytes(a2), gt_bytes(a3));
        }
        proof { k9_kdf_len(pre_append@, klen as nat); }
        sk = kdf(&pre_append, klen);
        proof {
            k9_is_bytes(sk@, exch9_key(ida@, idb@, abs1(*ra), abs1(*rb), gt_pow(e9(G2P(), abs1(msk.ppube)), val4(ra_@)), e9(abs2(key.de), abs1(*rb)),
                gt_pow(e9(abs2(key.de), abs1(*rb)), val4(ra_@)), klen as nat));
        }
        fn is_zero(x: &Vec<u8>, klen: usize) -> (r: bool)
            requires klen <= x@.len()
            ensures r == s_all_zero(x@.subrange(0, klen as int))
        {
            let mut ret = true;
            for i in 0..klen
                invariant klen <= x@.len(), ret == s_all_zero(x@.subrange(0, i as int))
            {
                proof { k9_zero_step(x@, i as int); }
                if x[i] != 0 {
                    ret = false;
                }
            }
            ret
        }

        if !is_zero(&sk, klen) {
            break;
        }
        proof { k9_exch_rej_zero(sk@, klen as int); }
        return Err(Sm9Error::KdfHashError);
    }
    Ok(sk)
}
