//@unit sm3
//@serves C01 C03 C04 C05 C06 C09 C10 C15 C16 C17 C20
//@source gm-sm3/src/lib.rs
//@export sm3_spec lemma_sm3_len
//@section spec
#[verifier::external]
impl core::fmt::Debug for Sm3Error { fn fmt(&self, f: &mut core::fmt::Formatter<'_>) -> core::fmt::Result { Ok(()) } }
// ---------- assumed std specs ----------

// ---------- GB/T 32905 spec ----------
pub open spec fn add32(a: u32, b: u32) -> u32 { a.wrapping_add(b) }
pub open spec fn s_p0(x: u32) -> u32 { x ^ rotl32(x, 9) ^ rotl32(x, 17) }
pub open spec fn s_p1(x: u32) -> u32 { x ^ rotl32(x, 15) ^ rotl32(x, 23) }
pub open spec fn s_ff(x: u32, y: u32, z: u32, j: int) -> u32 {
    if j <= 15 { x ^ y ^ z } else { (x & y) | (x & z) | (y & z) }
}
pub open spec fn s_gg(x: u32, y: u32, z: u32, j: int) -> u32 {
    if j <= 15 { x ^ y ^ z } else { (x & y) | (!x & z) }
}
pub open spec fn s_t(j: int) -> u32 { if j <= 15 { 0x79cc4519u32 } else { 0x7a879d8au32 } }
pub open spec fn s_iv() -> Seq<u32> {
    seq![0x7380166fu32, 0x4914b2b9u32, 0x172442d7u32, 0xda8a0600u32, 0xa96f30bcu32, 0x163138aau32, 0xe38dee4du32, 0xb0fb0e4eu32]
}
pub open spec fn s_be32(b: Seq<u8>, i: int) -> u32 {
    (b[i] as u32) << 24 | (b[i + 1] as u32) << 16 | (b[i + 2] as u32) << 8 | (b[i + 3] as u32)
}
pub open spec fn s_w(blk: Seq<u8>, j: int) -> u32
    decreases j
{
    if j < 0 { 0 }
    else if j < 16 { s_be32(blk, 4 * j) }
    else {
        s_p1(s_w(blk, j - 16) ^ s_w(blk, j - 9) ^ rotl32(s_w(blk, j - 3), 15))
            ^ rotl32(s_w(blk, j - 13), 7) ^ s_w(blk, j - 6)
    }
}
pub open spec fn s_w1(blk: Seq<u8>, j: int) -> u32 { s_w(blk, j) ^ s_w(blk, j + 4) }

pub struct St { pub a: u32, pub b: u32, pub c: u32, pub d: u32, pub e: u32, pub f: u32, pub g: u32, pub h: u32 }

pub open spec fn s_round(s: St, blk: Seq<u8>, j: int) -> St {
    let ss1 = rotl32(add32(add32(rotl32(s.a, 12), s.e), rotl32(s_t(j), j as u32)), 7);
    let ss2 = ss1 ^ rotl32(s.a, 12);
    let tt1 = add32(add32(add32(s_ff(s.a, s.b, s.c, j), s.d), ss2), s_w1(blk, j));
    let tt2 = add32(add32(add32(s_gg(s.e, s.f, s.g, j), s.h), ss1), s_w(blk, j));
    St { a: tt1, b: s.a, c: rotl32(s.b, 9), d: s.c, e: s_p0(tt2), f: s.e, g: rotl32(s.f, 19), h: s.g }
}
pub open spec fn s_rounds(s: St, blk: Seq<u8>, n: int) -> St
    decreases n
{
    if n <= 0 { s } else { s_round(s_rounds(s, blk, n - 1), blk, n - 1) }
}
pub open spec fn s_st(v: Seq<u32>) -> St { St { a: v[0], b: v[1], c: v[2], d: v[3], e: v[4], f: v[5], g: v[6], h: v[7] } }
pub open spec fn s_cf(v: Seq<u32>, blk: Seq<u8>) -> Seq<u32> {
    let s = s_rounds(s_st(v), blk, 64);
    seq![v[0] ^ s.a, v[1] ^ s.b, v[2] ^ s.c, v[3] ^ s.d, v[4] ^ s.e, v[5] ^ s.f, v[6] ^ s.g, v[7] ^ s.h]
}
// padding: m || 0x80 || 0^k || len64, k minimal with (|m|+1+k) % 64 == 56
pub open spec fn s_zeros(k: nat) -> Seq<u8> { Seq::new(k, |i: int| 0u8) }
pub open spec fn s_padk(l: nat) -> nat { ((119 - (l % 64)) % 64) as nat }
pub open spec fn s_len64(bits: u64) -> Seq<u8> {
    seq![(bits >> 56 & 0xff) as u8, (bits >> 48 & 0xff) as u8, (bits >> 40 & 0xff) as u8, (bits >> 32 & 0xff) as u8,
         (bits >> 24 & 0xff) as u8, (bits >> 16 & 0xff) as u8, (bits >> 8 & 0xff) as u8, (bits & 0xff) as u8]
}
pub open spec fn s_pad(m: Seq<u8>) -> Seq<u8> {
    m + seq![0x80u8] + s_zeros(s_padk(m.len())) + s_len64((8 * m.len()) as u64)
}
pub open spec fn s_iter(v: Seq<u32>, p: Seq<u8>, n: int) -> Seq<u32>
    decreases n
{
    if n <= 0 { v } else { s_cf(s_iter(v, p, n - 1), p.subrange(64 * (n - 1), 64 * n)) }
}
pub open spec fn s_byte(v: u32, k: int) -> u8 {
    if k == 0 { ((v >> 24) & 0xff) as u8 } else if k == 1 { ((v >> 16) & 0xff) as u8 } else if k == 2 { ((v >> 8) & 0xff) as u8 } else { (v & 0xff) as u8 }
}
pub open spec fn s_out(v: Seq<u32>) -> Seq<u8> {
    Seq::new(32, |i: int| s_byte(v[i / 4], i % 4))
}
proof fn lemma_trunc(v: u32)
    ensures (v >> 24) as u8 == s_byte(v, 0), (v >> 16) as u8 == s_byte(v, 1), (v >> 8) as u8 == s_byte(v, 2), v as u8 == s_byte(v, 3)
{
    assert((v >> 24) as u8 == ((v >> 24) & 0xff) as u8) by(bit_vector);
    assert((v >> 16) as u8 == ((v >> 16) & 0xff) as u8) by(bit_vector);
    assert((v >> 8) as u8 == ((v >> 8) & 0xff) as u8) by(bit_vector);
    assert(v as u8 == (v & 0xff) as u8) by(bit_vector);
}
pub open spec fn sm3_spec(m: Seq<u8>) -> Seq<u8> {
    let p = s_pad(m);
    s_out(s_iter(s_iv(), p, p.len() as int / 64))
}


//@section spec
pub proof fn lemma_sm3_len(m: Seq<u8>) ensures sm3_spec(m).len() == 32 { }
//@section code
enum Sm3Error { ErrorMsgLen, }
const T00: u32 = 0x79cc4519;
const T16: u32 = 0x7a879d8a;
const IV: [u32; 8] = [
    0x7380166f, 0x4914b2b9, 0x172442d7, 0xda8a0600, 0xa96f30bc, 0x163138aa, 0xe38dee4d, 0xb0fb0e4e,
];

fn p0(x: u32) -> (r: u32) ensures r == s_p0(x)
{
    x ^ x.rotate_left(9) ^ x.rotate_left(17)
}
fn p1(x: u32) -> (r: u32) ensures r == s_p1(x)
{
    x ^ x.rotate_left(15) ^ x.rotate_left(23)
}
fn ff(x: u32, y: u32, z: u32, j: u32) -> (r: u32) requires j <= 63 ensures r == s_ff(x, y, z, j as int)
{
    if j <= 15 {
        return x ^ y ^ z;
    } else if j >= 16 && j <= 63 {
        return (x & y) | (x & z) | (y & z);
    }
    0
}
fn gg(x: u32, y: u32, z: u32, j: u32) -> (r: u32) requires j <= 63 ensures r == s_gg(x, y, z, j as int)
{
    if j <= 15 {
        return x ^ y ^ z;
    } else if j >= 16 && j <= 63 {
        return (x & y) | (!x & z);
    }
    0
}
fn t(j: usize) -> (r: u32) requires j <= 63 ensures r == s_t(j as int)
{
    if j <= 15 {
        return T00;
    } else if j >= 16 && j <= 63 {
        return T16;
    }
    0
}

fn cf(v_i: &mut [u32; 8], b_i: [u8; 64])
    ensures final(v_i)@ == s_cf(old(v_i)@, b_i@)
{
    // expend msg
    let mut w: [u32; 68] = [0; 68];
    let mut w1: [u32; 64] = [0; 64];

    let mut j = 0;
    while j <= 15
        invariant 0 <= j <= 16, forall|k: int| 0 <= k < j ==> w[k] == s_w(b_i@, k),
        decreases 16 - j
    {
        w[j] = u32::from(b_i[j * 4]) << 24
            | u32::from(b_i[j * 4 + 1]) << 16
            | u32::from(b_i[j * 4 + 2]) << 8
            | u32::from(b_i[j * 4 + 3]);
        j += 1;
    }

    j = 16;
    while j <= 67
        invariant 16 <= j <= 68, forall|k: int| 0 <= k < j ==> w[k] == s_w(b_i@, k),
        decreases 68 - j
    {
        w[j] = p1(w[j - 16] ^ w[j - 9] ^ w[j - 3].rotate_left(15))
            ^ w[j - 13].rotate_left(7)
            ^ w[j - 6];
        j += 1;
    }

    j = 0;
    while j <= 63
        invariant 0 <= j <= 64, forall|k: int| 0 <= k < 68 ==> w[k] == s_w(b_i@, k),
            forall|k: int| 0 <= k < j ==> w1[k] == s_w1(b_i@, k),
        decreases 64 - j
    {
        w1[j] = w[j] ^ w[j + 4];
        j += 1;
    }

    let mut a = v_i[0];
    let mut b = v_i[1];
    let mut c = v_i[2];
    let mut d = v_i[3];
    let mut e = v_i[4];
    let mut f = v_i[5];
    let mut g = v_i[6];
    let mut h = v_i[7];

    for j in 0..64
        invariant
            forall|k: int| 0 <= k < 68 ==> w[k] == s_w(b_i@, k),
            forall|k: int| 0 <= k < 64 ==> w1[k] == s_w1(b_i@, k),
            v_i@ == old(v_i)@,
            (St { a, b, c, d, e, f, g, h }) == s_rounds(s_st(old(v_i)@), b_i@, j as int),
    {
        let ss1 = (a
            .rotate_left(12)
            .wrapping_add(e)
            .wrapping_add(t(j).rotate_left(j as u32)))
        .rotate_left(7);
        let ss2 = ss1 ^ (a.rotate_left(12));
        let tt1 = ff(a, b, c, j as u32)
            .wrapping_add(d)
            .wrapping_add(ss2)
            .wrapping_add(w1[j]);
        let tt2 = gg(e, f, g, j as u32)
            .wrapping_add(h)
            .wrapping_add(ss1)
            .wrapping_add(w[j]);
        d = c;
        c = b.rotate_left(9);
        b = a;
        a = tt1;
        h = g;
        g = f.rotate_left(19);
        f = e;
        e = p0(tt2);
    }
    v_i[0] ^= a;
    v_i[1] ^= b;
    v_i[2] ^= c;
    v_i[3] ^= d;
    v_i[4] ^= e;
    v_i[5] ^= f;
    v_i[6] ^= g;
    v_i[7] ^= h;
}

fn pad(msg: &[u8]) -> (res: Result<Vec<u8>, Sm3Error>)
    requires msg@.len() < 0x2000_0000_0000_0000,
    ensures res is Ok, res->Ok_0@ == s_pad(msg@),
{
    let ghost m0 = msg@;
    proof { let x = msg.len(); assert((x << 3usize) == 8 * x) by(bit_vector) requires x < 0x2000_0000_0000_0000usize; }
    let bit_length = (msg.len() << 3) as u64;
    let mut msg = msg.to_vec();
    msg.push(0x80);
    let blocksize = 64;
    while msg.len() % blocksize != 56
        invariant
            blocksize == 64,
            m0.len() < 0x2000_0000_0000_0000,
            msg@.len() - m0.len() - 1 <= s_padk(m0.len()),
            msg@.len() >= m0.len() + 1,
            msg@ == m0 + seq![0x80u8] + s_zeros((msg@.len() - m0.len() - 1) as nat),
        decreases s_padk(m0.len()) - (msg@.len() - m0.len() - 1)
    {
        msg.push(0x00);
    }
    proof { assert(msg@.len() - m0.len() - 1 == s_padk(m0.len())); }
    let ghost m1 = msg@;
    msg.push((bit_length >> 56 & 0xff) as u8);
    msg.push((bit_length >> 48 & 0xff) as u8);
    msg.push((bit_length >> 40 & 0xff) as u8);
    msg.push((bit_length >> 32 & 0xff) as u8);
    msg.push((bit_length >> 24 & 0xff) as u8);
    msg.push((bit_length >> 16 & 0xff) as u8);
    msg.push((bit_length >> 8 & 0xff) as u8);
    msg.push((bit_length & 0xff) as u8);
    proof { assert(msg@ =~= m1 + s_len64(bit_length)); }
    if msg.len() % 64 != 0 {
        return Err(Sm3Error::ErrorMsgLen);
    }
    Ok(msg)
}

fn sm3_hash(msg: &[u8]) -> (output: [u8; 32])
    requires msg@.len() < 0x2000_0000_0000_0000,
    ensures output@ == sm3_spec(msg@),
{
    let ghost m0 = msg@;
    let msg = pad(msg).unwrap();
    let len = msg.len();
    let mut b_i: [u8; 64] = [0; 64];
    let mut count_group: usize = 0;
    let mut v_i = IV;
    proof { assert(v_i@ =~= s_iv()); }
    while count_group * 64 != len
        invariant
            msg@ == s_pad(m0), len == msg@.len(), len % 64 == 0, count_group * 64 <= len,
            v_i@ == s_iter(s_iv(), msg@, count_group as int),
        decreases len - count_group * 64
    {
        for i in (count_group * 64)..(count_group * 64 + 64)
            invariant
                len == msg@.len(), len % 64 == 0, count_group * 64 < len,
                forall|k: int| 0 <= k < i - count_group * 64 ==> b_i[k] == msg@[count_group * 64 + k],
        {
            b_i[i - count_group * 64] = msg[i];
        }
        proof { assert(b_i@ =~= msg@.subrange(64 * count_group as int, 64 * (count_group as int + 1))); }
        cf(&mut v_i, b_i);
        count_group += 1;
    }
    proof { assert(count_group as int == msg@.len() as int / 64); }
    let ghost vf = v_i@;
    let mut output: [u8; 32] = [0; 32];
    for i in 0..8
        invariant v_i@ == vf, forall|k: int| 0 <= k < 4 * i ==> output[k] == s_byte(vf[k / 4], k % 4),
    {
        proof { lemma_trunc(v_i[i as int]); }
        output[i * 4] = (v_i[i] >> 24) as u8;
        output[i * 4 + 1] = (v_i[i] >> 16) as u8;
        output[i * 4 + 2] = (v_i[i] >> 8) as u8;
        output[i * 4 + 3] = v_i[i] as u8;
    }
    proof { assert(output@ =~= s_out(vf)); }
    output
}

