//@unit zuc
//@serves C08 C20
//@source gm-zuc/src/lib.rs
//@export ZS cells_ok z_init z_after z_ks abs lemma_ks_len
//@assume u32::rotate_left == rotl32 (assume_specification)
//@assume S0/S1/D tables in the spec are a transcription of the ZUC v1.6 document (compared entry-wise with the code tables by lemma_tables)
//@section spec
use vstd::arithmetic::div_mod::*;

// ---------------- ZUC-128 v1.6 spec ----------------
pub open spec fn z_s0() -> Seq<u8> { seq![0x3eu8, 0x72u8, 0x5bu8, 0x47u8, 0xcau8, 0xe0u8, 0x00u8, 0x33u8, 0x04u8, 0xd1u8, 0x54u8, 0x98u8, 0x09u8, 0xb9u8, 0x6du8, 0xcbu8, 0x7bu8, 0x1bu8, 0xf9u8, 0x32u8, 0xafu8, 0x9du8, 0x6au8, 0xa5u8, 0xb8u8, 0x2du8, 0xfcu8, 0x1du8, 0x08u8, 0x53u8, 0x03u8, 0x90u8, 0x4du8, 0x4eu8, 0x84u8, 0x99u8, 0xe4u8, 0xceu8, 0xd9u8, 0x91u8, 0xddu8, 0xb6u8, 0x85u8, 0x48u8, 0x8bu8, 0x29u8, 0x6eu8, 0xacu8, 0xcdu8, 0xc1u8, 0xf8u8, 0x1eu8, 0x73u8, 0x43u8, 0x69u8, 0xc6u8, 0xb5u8, 0xbdu8, 0xfdu8, 0x39u8, 0x63u8, 0x20u8, 0xd4u8, 0x38u8, 0x76u8, 0x7du8, 0xb2u8, 0xa7u8, 0xcfu8, 0xedu8, 0x57u8, 0xc5u8, 0xf3u8, 0x2cu8, 0xbbu8, 0x14u8, 0x21u8, 0x06u8, 0x55u8, 0x9bu8, 0xe3u8, 0xefu8, 0x5eu8, 0x31u8, 0x4fu8, 0x7fu8, 0x5au8, 0xa4u8, 0x0du8, 0x82u8, 0x51u8, 0x49u8, 0x5fu8, 0xbau8, 0x58u8, 0x1cu8, 0x4au8, 0x16u8, 0xd5u8, 0x17u8, 0xa8u8, 0x92u8, 0x24u8, 0x1fu8, 0x8cu8, 0xffu8, 0xd8u8, 0xaeu8, 0x2eu8, 0x01u8, 0xd3u8, 0xadu8, 0x3bu8, 0x4bu8, 0xdau8, 0x46u8, 0xebu8, 0xc9u8, 0xdeu8, 0x9au8, 0x8fu8, 0x87u8, 0xd7u8, 0x3au8, 0x80u8, 0x6fu8, 0x2fu8, 0xc8u8, 0xb1u8, 0xb4u8, 0x37u8, 0xf7u8, 0x0au8, 0x22u8, 0x13u8, 0x28u8, 0x7cu8, 0xccu8, 0x3cu8, 0x89u8, 0xc7u8, 0xc3u8, 0x96u8, 0x56u8, 0x07u8, 0xbfu8, 0x7eu8, 0xf0u8, 0x0bu8, 0x2bu8, 0x97u8, 0x52u8, 0x35u8, 0x41u8, 0x79u8, 0x61u8, 0xa6u8, 0x4cu8, 0x10u8, 0xfeu8, 0xbcu8, 0x26u8, 0x95u8, 0x88u8, 0x8au8, 0xb0u8, 0xa3u8, 0xfbu8, 0xc0u8, 0x18u8, 0x94u8, 0xf2u8, 0xe1u8, 0xe5u8, 0xe9u8, 0x5du8, 0xd0u8, 0xdcu8, 0x11u8, 0x66u8, 0x64u8, 0x5cu8, 0xecu8, 0x59u8, 0x42u8, 0x75u8, 0x12u8, 0xf5u8, 0x74u8, 0x9cu8, 0xaau8, 0x23u8, 0x0eu8, 0x86u8, 0xabu8, 0xbeu8, 0x2au8, 0x02u8, 0xe7u8, 0x67u8, 0xe6u8, 0x44u8, 0xa2u8, 0x6cu8, 0xc2u8, 0x93u8, 0x9fu8, 0xf1u8, 0xf6u8, 0xfau8, 0x36u8, 0xd2u8, 0x50u8, 0x68u8, 0x9eu8, 0x62u8, 0x71u8, 0x15u8, 0x3du8, 0xd6u8, 0x40u8, 0xc4u8, 0xe2u8, 0x0fu8, 0x8eu8, 0x83u8, 0x77u8, 0x6bu8, 0x25u8, 0x05u8, 0x3fu8, 0x0cu8, 0x30u8, 0xeau8, 0x70u8, 0xb7u8, 0xa1u8, 0xe8u8, 0xa9u8, 0x65u8, 0x8du8, 0x27u8, 0x1au8, 0xdbu8, 0x81u8, 0xb3u8, 0xa0u8, 0xf4u8, 0x45u8, 0x7au8, 0x19u8, 0xdfu8, 0xeeu8, 0x78u8, 0x34u8, 0x60u8] }
pub open spec fn z_s1() -> Seq<u8> { seq![0x55u8, 0xc2u8, 0x63u8, 0x71u8, 0x3bu8, 0xc8u8, 0x47u8, 0x86u8, 0x9fu8, 0x3cu8, 0xdau8, 0x5bu8, 0x29u8, 0xaau8, 0xfdu8, 0x77u8, 0x8cu8, 0xc5u8, 0x94u8, 0x0cu8, 0xa6u8, 0x1au8, 0x13u8, 0x00u8, 0xe3u8, 0xa8u8, 0x16u8, 0x72u8, 0x40u8, 0xf9u8, 0xf8u8, 0x42u8, 0x44u8, 0x26u8, 0x68u8, 0x96u8, 0x81u8, 0xd9u8, 0x45u8, 0x3eu8, 0x10u8, 0x76u8, 0xc6u8, 0xa7u8, 0x8bu8, 0x39u8, 0x43u8, 0xe1u8, 0x3au8, 0xb5u8, 0x56u8, 0x2au8, 0xc0u8, 0x6du8, 0xb3u8, 0x05u8, 0x22u8, 0x66u8, 0xbfu8, 0xdcu8, 0x0bu8, 0xfau8, 0x62u8, 0x48u8, 0xddu8, 0x20u8, 0x11u8, 0x06u8, 0x36u8, 0xc9u8, 0xc1u8, 0xcfu8, 0xf6u8, 0x27u8, 0x52u8, 0xbbu8, 0x69u8, 0xf5u8, 0xd4u8, 0x87u8, 0x7fu8, 0x84u8, 0x4cu8, 0xd2u8, 0x9cu8, 0x57u8, 0xa4u8, 0xbcu8, 0x4fu8, 0x9au8, 0xdfu8, 0xfeu8, 0xd6u8, 0x8du8, 0x7au8, 0xebu8, 0x2bu8, 0x53u8, 0xd8u8, 0x5cu8, 0xa1u8, 0x14u8, 0x17u8, 0xfbu8, 0x23u8, 0xd5u8, 0x7du8, 0x30u8, 0x67u8, 0x73u8, 0x08u8, 0x09u8, 0xeeu8, 0xb7u8, 0x70u8, 0x3fu8, 0x61u8, 0xb2u8, 0x19u8, 0x8eu8, 0x4eu8, 0xe5u8, 0x4bu8, 0x93u8, 0x8fu8, 0x5du8, 0xdbu8, 0xa9u8, 0xadu8, 0xf1u8, 0xaeu8, 0x2eu8, 0xcbu8, 0x0du8, 0xfcu8, 0xf4u8, 0x2du8, 0x46u8, 0x6eu8, 0x1du8, 0x97u8, 0xe8u8, 0xd1u8, 0xe9u8, 0x4du8, 0x37u8, 0xa5u8, 0x75u8, 0x5eu8, 0x83u8, 0x9eu8, 0xabu8, 0x82u8, 0x9du8, 0xb9u8, 0x1cu8, 0xe0u8, 0xcdu8, 0x49u8, 0x89u8, 0x01u8, 0xb6u8, 0xbdu8, 0x58u8, 0x24u8, 0xa2u8, 0x5fu8, 0x38u8, 0x78u8, 0x99u8, 0x15u8, 0x90u8, 0x50u8, 0xb8u8, 0x95u8, 0xe4u8, 0xd0u8, 0x91u8, 0xc7u8, 0xceu8, 0xedu8, 0x0fu8, 0xb4u8, 0x6fu8, 0xa0u8, 0xccu8, 0xf0u8, 0x02u8, 0x4au8, 0x79u8, 0xc3u8, 0xdeu8, 0xa3u8, 0xefu8, 0xeau8, 0x51u8, 0xe6u8, 0x6bu8, 0x18u8, 0xecu8, 0x1bu8, 0x2cu8, 0x80u8, 0xf7u8, 0x74u8, 0xe7u8, 0xffu8, 0x21u8, 0x5au8, 0x6au8, 0x54u8, 0x1eu8, 0x41u8, 0x31u8, 0x92u8, 0x35u8, 0xc4u8, 0x33u8, 0x07u8, 0x0au8, 0xbau8, 0x7eu8, 0x0eu8, 0x34u8, 0x88u8, 0xb1u8, 0x98u8, 0x7cu8, 0xf3u8, 0x3du8, 0x60u8, 0x6cu8, 0x7bu8, 0xcau8, 0xd3u8, 0x1fu8, 0x32u8, 0x65u8, 0x04u8, 0x28u8, 0x64u8, 0xbeu8, 0x85u8, 0x9bu8, 0x2fu8, 0x59u8, 0x8au8, 0xd7u8, 0xb0u8, 0x25u8, 0xacu8, 0xafu8, 0x12u8, 0x03u8, 0xe2u8, 0xf2u8] }
pub open spec fn z_d() -> Seq<u32> { seq![0x44D7u32, 0x26BCu32, 0x626Bu32, 0x135Eu32, 0x5789u32, 0x35E2u32, 0x7135u32, 0x09AFu32, 0x4D78u32, 0x2F13u32, 0x6BC4u32, 0x1AF1u32, 0x5E26u32, 0x3C4Du32, 0x789Au32, 0x47ACu32] }
pub open spec fn m31() -> int { 0x7FFF_FFFFint }
pub struct ZS { pub s: Seq<u32>, pub r1: u32, pub r2: u32 }
pub open spec fn cells_ok(s: Seq<u32>) -> bool { s.len() == 16 && forall|i: int| 0 <= i < 16 ==> 1 <= #[trigger] s[i] <= 0x7FFF_FFFF }
// LFSR feedback, mathematically (mod 2^31 - 1); u = 0 in work mode
pub open spec fn z_fb(s: Seq<u32>, u: int) -> int {
    0x8000 * s[15] as int + 0x20000 * s[13] as int + 0x200000 * s[10] as int + 0x100000 * s[4] as int + 0x101 * s[0] as int + u
}
pub open spec fn z_s16(s: Seq<u32>, u: int) -> u32 { let v = z_fb(s, u) % m31(); if v == 0 { 0x7FFF_FFFFu32 } else { v as u32 } }
pub open spec fn z_lfsr(s: Seq<u32>, u: int) -> Seq<u32> { s.subrange(1, 16).push(z_s16(s, u)) }
pub open spec fn z_h(x: u32) -> u32 { (x >> 15) & 0xFFFF }   // high 16 bits of a 31-bit cell
pub open spec fn z_l(x: u32) -> u32 { x & 0xFFFF }
pub open spec fn z_x0(s: Seq<u32>) -> u32 { (z_h(s[15]) << 16) | z_l(s[14]) }
pub open spec fn z_x1(s: Seq<u32>) -> u32 { (z_l(s[11]) << 16) | z_h(s[9]) }
pub open spec fn z_x2(s: Seq<u32>) -> u32 { (z_l(s[7]) << 16) | z_h(s[5]) }
pub open spec fn z_x3(s: Seq<u32>) -> u32 { (z_l(s[2]) << 16) | z_h(s[0]) }
pub open spec fn z_l1(x: u32) -> u32 { x ^ rotl32(x, 2) ^ rotl32(x, 10) ^ rotl32(x, 18) ^ rotl32(x, 24) }
pub open spec fn z_l2(x: u32) -> u32 { x ^ rotl32(x, 8) ^ rotl32(x, 14) ^ rotl32(x, 22) ^ rotl32(x, 30) }
pub open spec fn z_sbox(x: u32) -> u32 {
    (z_s0()[(x >> 24) as int] as u32) << 24 | (z_s1()[((x >> 16) & 0xFF) as int] as u32) << 16 | (z_s0()[((x >> 8) & 0xFF) as int] as u32) << 8 | (z_s1()[(x & 0xFF) as int] as u32)
}
pub open spec fn z_w(st: ZS) -> u32 { (z_x0(st.s) ^ st.r1).wrapping_add(st.r2) }
pub open spec fn z_f_next(st: ZS) -> ZS {
    let w1 = st.r1.wrapping_add(z_x1(st.s));
    let w2 = st.r2 ^ z_x2(st.s);
    ZS { s: st.s, r1: z_sbox(z_l1((w1 << 16) | (w2 >> 16))), r2: z_sbox(z_l2((w2 << 16) | (w1 >> 16))) }
}
pub open spec fn z_init_round(st: ZS) -> ZS { let n = z_f_next(st); ZS { s: z_lfsr(st.s, (z_w(st) >> 1) as int), r1: n.r1, r2: n.r2 } }
pub open spec fn z_init_rounds(st: ZS, n: int) -> ZS decreases n { if n <= 0 { st } else { z_init_round(z_init_rounds(st, n - 1)) } }
pub open spec fn z_work_round(st: ZS) -> ZS { let n = z_f_next(st); ZS { s: z_lfsr(st.s, 0), r1: n.r1, r2: n.r2 } }
pub open spec fn z_out(st: ZS) -> u32 { z_w(st) ^ z_x3(st.s) }
pub open spec fn z_load(k: Seq<u8>, iv: Seq<u8>) -> ZS {
    ZS { s: Seq::new(16, |i: int| (k[i] as u32) << 23 | z_d()[i] << 8 | (iv[i] as u32)), r1: 0, r2: 0 }
}
pub open spec fn z_init(k: Seq<u8>, iv: Seq<u8>) -> ZS { z_work_round(z_init_rounds(z_load(k, iv), 32)) }
pub open spec fn z_after(st: ZS, n: int) -> ZS decreases n { if n <= 0 { st } else { z_work_round(z_after(st, n - 1)) } }
pub open spec fn z_ks(st: ZS, n: int) -> Seq<u32> decreases n { if n <= 0 { Seq::empty() } else { z_ks(st, n - 1).push(z_out(z_after(st, n - 1))) } }
//@section code
const S0: [u8; 256] = [
    0x3e, 0x72, 0x5b, 0x47, 0xca, 0xe0, 0x00, 0x33, 0x04, 0xd1, 0x54, 0x98, 0x09, 0xb9, 0x6d, 0xcb,
    0x7b, 0x1b, 0xf9, 0x32, 0xaf, 0x9d, 0x6a, 0xa5, 0xb8, 0x2d, 0xfc, 0x1d, 0x08, 0x53, 0x03, 0x90,
    0x4d, 0x4e, 0x84, 0x99, 0xe4, 0xce, 0xd9, 0x91, 0xdd, 0xb6, 0x85, 0x48, 0x8b, 0x29, 0x6e, 0xac,
    0xcd, 0xc1, 0xf8, 0x1e, 0x73, 0x43, 0x69, 0xc6, 0xb5, 0xbd, 0xfd, 0x39, 0x63, 0x20, 0xd4, 0x38,
    0x76, 0x7d, 0xb2, 0xa7, 0xcf, 0xed, 0x57, 0xc5, 0xf3, 0x2c, 0xbb, 0x14, 0x21, 0x06, 0x55, 0x9b,
    0xe3, 0xef, 0x5e, 0x31, 0x4f, 0x7f, 0x5a, 0xa4, 0x0d, 0x82, 0x51, 0x49, 0x5f, 0xba, 0x58, 0x1c,
    0x4a, 0x16, 0xd5, 0x17, 0xa8, 0x92, 0x24, 0x1f, 0x8c, 0xff, 0xd8, 0xae, 0x2e, 0x01, 0xd3, 0xad,
    0x3b, 0x4b, 0xda, 0x46, 0xeb, 0xc9, 0xde, 0x9a, 0x8f, 0x87, 0xd7, 0x3a, 0x80, 0x6f, 0x2f, 0xc8,
    0xb1, 0xb4, 0x37, 0xf7, 0x0a, 0x22, 0x13, 0x28, 0x7c, 0xcc, 0x3c, 0x89, 0xc7, 0xc3, 0x96, 0x56,
    0x07, 0xbf, 0x7e, 0xf0, 0x0b, 0x2b, 0x97, 0x52, 0x35, 0x41, 0x79, 0x61, 0xa6, 0x4c, 0x10, 0xfe,
    0xbc, 0x26, 0x95, 0x88, 0x8a, 0xb0, 0xa3, 0xfb, 0xc0, 0x18, 0x94, 0xf2, 0xe1, 0xe5, 0xe9, 0x5d,
    0xd0, 0xdc, 0x11, 0x66, 0x64, 0x5c, 0xec, 0x59, 0x42, 0x75, 0x12, 0xf5, 0x74, 0x9c, 0xaa, 0x23,
    0x0e, 0x86, 0xab, 0xbe, 0x2a, 0x02, 0xe7, 0x67, 0xe6, 0x44, 0xa2, 0x6c, 0xc2, 0x93, 0x9f, 0xf1,
    0xf6, 0xfa, 0x36, 0xd2, 0x50, 0x68, 0x9e, 0x62, 0x71, 0x15, 0x3d, 0xd6, 0x40, 0xc4, 0xe2, 0x0f,
    0x8e, 0x83, 0x77, 0x6b, 0x25, 0x05, 0x3f, 0x0c, 0x30, 0xea, 0x70, 0xb7, 0xa1, 0xe8, 0xa9, 0x65,
    0x8d, 0x27, 0x1a, 0xdb, 0x81, 0xb3, 0xa0, 0xf4, 0x45, 0x7a, 0x19, 0xdf, 0xee, 0x78, 0x34, 0x60,
];

const S1: [u8; 256] = [
    0x55, 0xc2, 0x63, 0x71, 0x3b, 0xc8, 0x47, 0x86, 0x9f, 0x3c, 0xda, 0x5b, 0x29, 0xaa, 0xfd, 0x77,
    0x8c, 0xc5, 0x94, 0x0c, 0xa6, 0x1a, 0x13, 0x00, 0xe3, 0xa8, 0x16, 0x72, 0x40, 0xf9, 0xf8, 0x42,
    0x44, 0x26, 0x68, 0x96, 0x81, 0xd9, 0x45, 0x3e, 0x10, 0x76, 0xc6, 0xa7, 0x8b, 0x39, 0x43, 0xe1,
    0x3a, 0xb5, 0x56, 0x2a, 0xc0, 0x6d, 0xb3, 0x05, 0x22, 0x66, 0xbf, 0xdc, 0x0b, 0xfa, 0x62, 0x48,
    0xdd, 0x20, 0x11, 0x06, 0x36, 0xc9, 0xc1, 0xcf, 0xf6, 0x27, 0x52, 0xbb, 0x69, 0xf5, 0xd4, 0x87,
    0x7f, 0x84, 0x4c, 0xd2, 0x9c, 0x57, 0xa4, 0xbc, 0x4f, 0x9a, 0xdf, 0xfe, 0xd6, 0x8d, 0x7a, 0xeb,
    0x2b, 0x53, 0xd8, 0x5c, 0xa1, 0x14, 0x17, 0xfb, 0x23, 0xd5, 0x7d, 0x30, 0x67, 0x73, 0x08, 0x09,
    0xee, 0xb7, 0x70, 0x3f, 0x61, 0xb2, 0x19, 0x8e, 0x4e, 0xe5, 0x4b, 0x93, 0x8f, 0x5d, 0xdb, 0xa9,
    0xad, 0xf1, 0xae, 0x2e, 0xcb, 0x0d, 0xfc, 0xf4, 0x2d, 0x46, 0x6e, 0x1d, 0x97, 0xe8, 0xd1, 0xe9,
    0x4d, 0x37, 0xa5, 0x75, 0x5e, 0x83, 0x9e, 0xab, 0x82, 0x9d, 0xb9, 0x1c, 0xe0, 0xcd, 0x49, 0x89,
    0x01, 0xb6, 0xbd, 0x58, 0x24, 0xa2, 0x5f, 0x38, 0x78, 0x99, 0x15, 0x90, 0x50, 0xb8, 0x95, 0xe4,
    0xd0, 0x91, 0xc7, 0xce, 0xed, 0x0f, 0xb4, 0x6f, 0xa0, 0xcc, 0xf0, 0x02, 0x4a, 0x79, 0xc3, 0xde,
    0xa3, 0xef, 0xea, 0x51, 0xe6, 0x6b, 0x18, 0xec, 0x1b, 0x2c, 0x80, 0xf7, 0x74, 0xe7, 0xff, 0x21,
    0x5a, 0x6a, 0x54, 0x1e, 0x41, 0x31, 0x92, 0x35, 0xc4, 0x33, 0x07, 0x0a, 0xba, 0x7e, 0x0e, 0x34,
    0x88, 0xb1, 0x98, 0x7c, 0xf3, 0x3d, 0x60, 0x6c, 0x7b, 0xca, 0xd3, 0x1f, 0x32, 0x65, 0x04, 0x28,
    0x64, 0xbe, 0x85, 0x9b, 0x2f, 0x59, 0x8a, 0xd7, 0xb0, 0x25, 0xac, 0xaf, 0x12, 0x03, 0xe2, 0xf2,
];

const D: [u32; 16] = [
    0x44D7, 0x26BC, 0x626B, 0x135E, 0x5789, 0x35E2, 0x7135, 0x09AF, 0x4D78, 0x2F13, 0x6BC4, 0x1AF1,
    0x5E26, 0x3C4D, 0x789A, 0x47AC,
];

//@section spec
// ---------------- proof library ----------------
#[verifier::opaque]
pub open spec fn cong(x: int, y: int) -> bool { (x - y) % m31() == 0 }
proof fn lemma_cong_add(r: int, a: int, b: int, aa: int, bb: int)
    requires cong(r, a + b), cong(a, aa), cong(b, bb)
    ensures cong(r, aa + bb)
{
    reveal(cong);
    let m = m31();
    lemma_fundamental_div_mod(r - (a + b), m); lemma_fundamental_div_mod(a - aa, m); lemma_fundamental_div_mod(b - bb, m);
    let k1 = (r - (a + b)) / m; let k2 = (a - aa) / m; let k3 = (b - bb) / m;
    assert(r - (aa + bb) == (k1 + k2 + k3) * m) by(nonlinear_arith)
        requires r - (a + b) == m * k1, a - aa == m * k2, b - bb == m * k3;
    lemma_mod_multiples_basic(k1 + k2 + k3, m);
}
proof fn lemma_cong_refl(a: int) ensures cong(a, a) { reveal(cong); }
proof fn lemma_unique(r: int, v: int)
    requires 1 <= r <= m31(), cong(r, v)
    ensures r == (if v % m31() == 0 { m31() } else { v % m31() })
{
    reveal(cong);
    let m = m31();
    lemma_fundamental_div_mod(r - v, m);
    let k = (r - v) / m;
    assert(v == m * (-k) + r) by(nonlinear_arith) requires r - v == m * k;
    lemma_mod_multiples_vanish(-k, r, m);
    if r == m { } else { lemma_small_mod(r as nat, m as nat); }
}
pub open spec fn z_rot31(a: u32, k: u32) -> u32 { ((a << k) | (a >> ((31 - k) as u32))) & 0x7FFFFFFFu32 }
pub open spec fn z_add31(a: u32, b: u32) -> u32 { let c = a.wrapping_add(b); (c & 0x7FFFFFFFu32).wrapping_add(c >> 31u32) }
pub open spec fn z_pow(k: u32) -> int { if k == 8 { 0x100 } else if k == 20 { 0x100000 } else if k == 21 { 0x200000 } else if k == 17 { 0x20000 } else { 0x8000 } }
proof fn lemma_add31(a: u32, b: u32)
    requires a <= 0x7FFF_FFFF, b <= 0x7FFF_FFFF
    ensures z_add31(a, b) <= 0x7FFF_FFFF, cong(z_add31(a, b) as int, a as int + b as int), (a >= 1 || b >= 1) ==> z_add31(a, b) >= 1
{
    reveal(cong);
    let c = a.wrapping_add(b);
    assert(c == a + b);
    let l = c & 0x7FFFFFFFu32; let h = c >> 31u32;
    assert(c == h * 0x8000_0000u32 + l && h <= 1 && l <= 0x7FFF_FFFF) by(bit_vector) requires l == c & 0x7FFFFFFFu32, h == c >> 31u32;
    let r = l.wrapping_add(h);
    assert(r == l + h);
    assert((r as int - (a as int + b as int)) == -(h as int) * m31());
    lemma_mod_multiples_basic(-(h as int), m31());
}
// one LFSR accumulation step  v' = v +_31 (cell <<<_31 k)
proof fn lemma_acc_step(v: u32, cell: u32, k: u32, acc: int)
    requires v <= 0x7FFF_FFFF, cell <= 0x7FFF_FFFF, cong(v as int, acc), k == 8 || k == 20 || k == 21 || k == 17 || k == 15
    ensures z_add31(v, z_rot31(cell, k)) <= 0x7FFF_FFFF, cong(z_add31(v, z_rot31(cell, k)) as int, acc + z_pow(k) * (cell as int)),
        (v >= 1 ==> z_add31(v, z_rot31(cell, k)) >= 1)
{
    lemma_rot31(cell, k, z_pow(k));
    lemma_add31(v, z_rot31(cell, k));
    lemma_cong_add(z_add31(v, z_rot31(cell, k)) as int, v as int, z_rot31(cell, k) as int, acc, z_pow(k) * (cell as int));
}
proof fn lemma_rot31(a: u32, k: u32, p: int)
    requires a <= 0x7FFF_FFFF,
        (k == 8 && p == 0x100) || (k == 20 && p == 0x100000) || (k == 21 && p == 0x200000) || (k == 17 && p == 0x20000) || (k == 15 && p == 0x8000),
    ensures ({ let r = ((a << k) | (a >> ((31 - k) as u32))) & 0x7FFFFFFFu32; r <= 0x7FFF_FFFF && cong(r as int, p * (a as int)) })
{
    reveal(cong);
    let r = ((a << k) | (a >> ((31 - k) as u32))) & 0x7FFFFFFFu32;
    let hi = a >> ((31 - k) as u32);
    let lo = (a << k) & 0x7FFFFFFFu32;
    let pp = p as u64;
    assert(r == hi + lo && r <= 0x7FFF_FFFF && (a as u64) * pp == (hi as u64) * 0x8000_0000u64 + lo as u64) by(bit_vector)
        requires a <= 0x7FFF_FFFFu32, r == ((a << k) | (a >> ((31 - k) as u32))) & 0x7FFFFFFFu32, hi == a >> ((31 - k) as u32), lo == (a << k) & 0x7FFFFFFFu32,
            (k == 8 && pp == 0x100) || (k == 20 && pp == 0x100000) || (k == 21 && pp == 0x200000) || (k == 17 && pp == 0x20000) || (k == 15 && pp == 0x8000);
    assert((r as int - p * (a as int)) == -(hi as int) * m31());
    lemma_mod_multiples_basic(-(hi as int), m31());
}
//@section spec
spec fn abs(z: ZUC) -> ZS { ZS { s: z.s@, r1: z.r1, r2: z.r2 } }
spec fn x_ok(z: ZUC) -> bool { z.x@ =~= seq![z_x0(z.s@), z_x1(z.s@), z_x2(z.s@), z_x3(z.s@)] }
//@section spec local
proof fn lemma_tables() ensures S0@ =~= z_s0(), S1@ =~= z_s1(), D@ =~= z_d() { }

//@section spec
proof fn lemma_ks_len(st: ZS, n: int) requires n >= 0 ensures z_ks(st, n).len() == n decreases n { if n > 0 { lemma_ks_len(st, n - 1); } }
// C08 "however it is requested": splitting a request does not change the stream
proof fn lemma_after_split(st: ZS, a: int, b: int)
    requires a >= 0, b >= 0
    ensures z_after(st, a + b) == z_after(z_after(st, a), b)
    decreases b
{
    if b > 0 { lemma_after_split(st, a, b - 1); }
}
proof fn lemma_ks_split(st: ZS, a: int, b: int)
    requires a >= 0, b >= 0
    ensures z_ks(st, a + b) =~= z_ks(st, a) + z_ks(z_after(st, a), b)
    decreases b
{
    if b > 0 { lemma_ks_split(st, a, b - 1); lemma_after_split(st, a, b - 1); }
}
// any sequence of request sizes: concatenated outputs == one request of the total
pub open spec fn z_sum(ns: Seq<int>) -> int decreases ns.len() { if ns.len() == 0 { 0 } else { z_sum(ns.drop_last()) + ns.last() } }
pub open spec fn z_multi(st: ZS, ns: Seq<int>) -> Seq<u32> decreases ns.len() {
    if ns.len() == 0 { Seq::empty() } else { z_multi(st, ns.drop_last()) + z_ks(z_after(st, z_sum(ns.drop_last())), ns.last()) }
}
proof fn lemma_sum_nonneg(ns: Seq<int>) requires forall|i: int| 0 <= i < ns.len() ==> ns[i] >= 0 ensures z_sum(ns) >= 0 decreases ns.len()
{ if ns.len() > 0 { lemma_sum_nonneg(ns.drop_last()); } }
proof fn theorem_split_invariance(st: ZS, ns: Seq<int>)
    requires forall|i: int| 0 <= i < ns.len() ==> ns[i] >= 0
    ensures z_multi(st, ns) =~= z_ks(st, z_sum(ns))
    decreases ns.len()
{
    if ns.len() > 0 {
        theorem_split_invariance(st, ns.drop_last());
        lemma_sum_nonneg(ns.drop_last());
        lemma_ks_split(st, z_sum(ns.drop_last()), ns.last());
    }
}
//@section code
#[derive(Debug)]
struct ZUC {
    s: [u32; 16],
    r1: u32,
    r2: u32,
    x: [u32; 4],
}

impl ZUC {
    fn new(k: &[u8], iv: &[u8]) -> (z: ZUC)
        requires k@.len() >= 16, iv@.len() >= 16 //@carveout D43
        ensures cells_ok(z.s@), abs(z) == z_init(k@.subrange(0, 16), iv@.subrange(0, 16))
    {
        proof { lemma_tables(); }
        let mut s = [0 as u32; 16];
        for i in 0..16
            invariant k@.len() >= 16, iv@.len() >= 16, D@ =~= z_d(),
                forall|j: int| 0 <= j < i ==> s@[j] == z_load(k@.subrange(0, 16), iv@.subrange(0, 16)).s[j] && 1 <= s@[j] <= 0x7FFF_FFFF,
        {
            proof {
                let (kk, dd, vv) = (k@[i as int] as u32, D@[i as int], iv@[i as int] as u32);
                assert(dd == z_d()[i as int]);
                assert(forall|j: int| 0 <= j < 16 ==> 1 <= #[trigger] z_d()[j] <= 0x7FFF) by { assert(z_d().len() == 16); assert(1 <= z_d()[0] <= 0x7FFF && 1 <= z_d()[1] <= 0x7FFF && 1 <= z_d()[2] <= 0x7FFF && 1 <= z_d()[3] <= 0x7FFF && 1 <= z_d()[4] <= 0x7FFF && 1 <= z_d()[5] <= 0x7FFF && 1 <= z_d()[6] <= 0x7FFF && 1 <= z_d()[7] <= 0x7FFF && 1 <= z_d()[8] <= 0x7FFF && 1 <= z_d()[9] <= 0x7FFF && 1 <= z_d()[10] <= 0x7FFF && 1 <= z_d()[11] <= 0x7FFF && 1 <= z_d()[12] <= 0x7FFF && 1 <= z_d()[13] <= 0x7FFF && 1 <= z_d()[14] <= 0x7FFF && 1 <= z_d()[15] <= 0x7FFF); }
                assert(kk <= 255 && vv <= 255 && 1 <= dd <= 0x7FFF ==> 1 <= (kk << 23 | dd << 8 | vv) <= 0x7FFF_FFFF) by(bit_vector);
            }
            s[i] = make_u31(k[i] as u32, D[i], iv[i] as u32);
        }
        let mut zuc = ZUC {
            s,
            r1: 0,
            r2: 0,
            x: [0; 4],
        };

        proof { assert(zuc.s@ =~= z_load(k@.subrange(0, 16), iv@.subrange(0, 16)).s); }
        for _ in it: 0..32
            invariant cells_ok(zuc.s@), abs(zuc) == z_init_rounds(z_load(k@.subrange(0, 16), iv@.subrange(0, 16)), it.index@ as int),
        {
            zuc.bit_reconstruction();
            let w = zuc.f();
            proof { assert((w >> 1) <= 0x7FFF_FFFF) by(bit_vector); }
            zuc.lfsr_with_initialization_mode(w >> 1);
        }
        zuc.generate_keystream(1);
        zuc
    }

    fn bit_reconstruction(&mut self)
        requires cells_ok(old(self).s@)
        ensures final(self).s@ == old(self).s@, final(self).r1 == old(self).r1, final(self).r2 == old(self).r2, x_ok(*final(self))
    {
        proof {
            let s = self.s@;
            let (a, b) = (s[15], s[14]); assert(((a & 0x7FFF8000) << 1) | (b & 0xFFFF) == (((a >> 15) & 0xFFFF) << 16) | (b & 0xFFFF)) by(bit_vector);
            let c = s[9]; assert(c <= 0x7FFF_FFFF ==> (c >> 15) == ((c >> 15) & 0xFFFF)) by(bit_vector);
            let c = s[5]; assert(c <= 0x7FFF_FFFF ==> (c >> 15) == ((c >> 15) & 0xFFFF)) by(bit_vector);
            let c = s[0]; assert(c <= 0x7FFF_FFFF ==> (c >> 15) == ((c >> 15) & 0xFFFF)) by(bit_vector);
        }
        self.x[0] = ((self.s[15] & 0x7FFF8000) << 1) | (self.s[14] & 0xFFFF);
        self.x[1] = ((self.s[11] & 0xFFFF) << 16) | (self.s[9] >> 15);
        self.x[2] = ((self.s[7] & 0xFFFF) << 16) | (self.s[5] >> 15);
        self.x[3] = ((self.s[2] & 0xFFFF) << 16) | (self.s[0] >> 15);
    }

    fn f(&mut self) -> (w: u32)
        requires x_ok(*old(self))
        ensures w == z_w(abs(*old(self))), abs(*final(self)) == z_f_next(abs(*old(self))), final(self).x@ == old(self).x@
    {
        let w = (self.x[0] ^ self.r1).wrapping_add(self.r2);
        let w1 = self.r1.wrapping_add(self.x[1]);
        let w2 = self.r2 ^ self.x[2];

        let u = l1((w1 << 16) | (w2 >> 16));
        let v = l2((w2 << 16) | (w1 >> 16));

        self.r1 = sbox(u);
        self.r2 = sbox(v);
        w
    }

    fn lfsr_with_initialization_mode(&mut self, u: u32)
        requires cells_ok(old(self).s@), u <= 0x7FFF_FFFF
        ensures final(self).s@ =~= z_lfsr(old(self).s@, u as int), cells_ok(final(self).s@), final(self).r1 == old(self).r1, final(self).r2 == old(self).r2
    {
        let ghost s0 = self.s@;
        let v = self.s[0];
        let ghost a0 = v; let ghost c0 = v as int; proof { lemma_cong_refl(c0); }
        let v = add31(v, rot31(self.s[0], 8));
        let ghost a1 = v; let ghost c1 = c0 + 0x100 * (s0[0] as int); proof { lemma_acc_step(a0, s0[0], 8, c0); }
        let v = add31(v, rot31(self.s[4], 20));
        let ghost a2 = v; let ghost c2 = c1 + 0x100000 * (s0[4] as int); proof { lemma_acc_step(a1, s0[4], 20, c1); }
        let v = add31(v, rot31(self.s[10], 21));
        let ghost a3 = v; let ghost c3 = c2 + 0x200000 * (s0[10] as int); proof { lemma_acc_step(a2, s0[10], 21, c2); }
        let v = add31(v, rot31(self.s[13], 17));
        let ghost a4 = v; let ghost c4 = c3 + 0x20000 * (s0[13] as int); proof { lemma_acc_step(a3, s0[13], 17, c3); }
        let v = add31(v, rot31(self.s[15], 15));
        let ghost a5 = v; let ghost c5 = c4 + 0x8000 * (s0[15] as int); proof { lemma_acc_step(a4, s0[15], 15, c4); }

        let mut s16 = add31(v, u);
        proof { lemma_add31(a5, u); lemma_cong_refl(u as int); lemma_cong_add(s16 as int, a5 as int, u as int, c5, u as int); lemma_unique(s16 as int, z_fb(s0, u as int)); }

        if s16 == 0 {
            s16 = 2147483647;
        }
        for i in 0..15
            invariant self.r1 == old(self).r1, self.r2 == old(self).r2, self.x@ == old(self).x@,
                forall|k: int| 0 <= k < i ==> self.s@[k] == s0[k + 1],
                forall|k: int| i <= k < 16 ==> self.s@[k] == s0[k],
        {
            self.s[i] = self.s[i + 1];
        }
        self.s[15] = s16;
    }

    fn lfsr_with_work_mode(&mut self)
        requires cells_ok(old(self).s@)
        ensures final(self).s@ =~= z_lfsr(old(self).s@, 0), cells_ok(final(self).s@), final(self).r1 == old(self).r1, final(self).r2 == old(self).r2
    {
        let ghost s0 = self.s@;
        let v = self.s[0];
        let ghost a0 = v; let ghost c0 = v as int; proof { lemma_cong_refl(c0); }
        let v = add31(v, rot31(self.s[0], 8));
        let ghost a1 = v; let ghost c1 = c0 + 0x100 * (s0[0] as int); proof { lemma_acc_step(a0, s0[0], 8, c0); }
        let v = add31(v, rot31(self.s[4], 20));
        let ghost a2 = v; let ghost c2 = c1 + 0x100000 * (s0[4] as int); proof { lemma_acc_step(a1, s0[4], 20, c1); }
        let v = add31(v, rot31(self.s[10], 21));
        let ghost a3 = v; let ghost c3 = c2 + 0x200000 * (s0[10] as int); proof { lemma_acc_step(a2, s0[10], 21, c2); }
        let v = add31(v, rot31(self.s[13], 17));
        let ghost a4 = v; let ghost c4 = c3 + 0x20000 * (s0[13] as int); proof { lemma_acc_step(a3, s0[13], 17, c3); }
        let mut s16 = add31(v, rot31(self.s[15], 15));
        proof { lemma_acc_step(a4, s0[15], 15, c4); lemma_unique(s16 as int, z_fb(s0, 0)); }
        if s16 == 0 {
            s16 = 2147483647;
        }
        for i in 0..15
            invariant self.r1 == old(self).r1, self.r2 == old(self).r2, self.x@ == old(self).x@,
                forall|k: int| 0 <= k < i ==> self.s@[k] == s0[k + 1],
                forall|k: int| i <= k < 16 ==> self.s@[k] == s0[k],
        {
            self.s[i] = self.s[i + 1];
        }
        self.s[15] = s16;
    }

    fn generate_keystream(&mut self, n: usize) -> (ks: Vec<u32>)
        requires cells_ok(old(self).s@)
        ensures cells_ok(final(self).s@), abs(*final(self)) == z_after(abs(*old(self)), n as int), ks@ == z_ks(abs(*old(self)), n as int)
    {
        let mut keystream = vec![];
        for _ in it: 0..n
            invariant cells_ok(self.s@), abs(*self) == z_after(abs(*old(self)), it.index@ as int), keystream@ == z_ks(abs(*old(self)), it.index@ as int),
        {
            self.bit_reconstruction();
            let z = self.f() ^ self.x[3];
            self.lfsr_with_work_mode();
            keystream.push(z);
        }
        keystream
    }
}

fn make_u32(a: u32, b: u32, c: u32, d: u32) -> (r: u32) ensures r == a << 24 | b << 16 | c << 8 | d {
    a << 24 | b << 16 | c << 8 | d
}

fn make_u31(k: u32, d: u32, iv: u32) -> (r: u32) ensures r == k << 23 | d << 8 | iv {
    k << 23 | d << 8 | iv
}

fn sbox(x: u32) -> (r: u32) ensures r == z_sbox(x) {
    proof { lemma_tables(); assert((x >> 24) < 256 && ((x >> 16) & 0xFF) < 256 && ((x >> 8) & 0xFF) < 256 && (x & 0xFF) < 256) by(bit_vector); }
    make_u32(
        S0[(x >> 24) as usize] as u32,
        S1[((x >> 16) & 0xFF) as usize] as u32,
        S0[((x >> 8) & 0xFF) as usize] as u32,
        S1[(x & 0xFF) as usize] as u32,
    )
}

fn rot31(a: u32, k: u32) -> (r: u32)
    requires k == 8 || k == 20 || k == 21 || k == 17 || k == 15
    ensures r == z_rot31(a, k)
{
    ((a << k) | (a >> (31 - k))) & 0x7FFFFFFF
}

fn add31(a: u32, b: u32) -> (r: u32)
    ensures r == z_add31(a, b)
{
    let c = a.wrapping_add(b);
    (c & 0x7FFFFFFF).wrapping_add(c >> 31)
}

fn l1(x: u32) -> (r: u32) ensures r == z_l1(x) {
    x ^ x.rotate_left(2) ^ x.rotate_left(10) ^ x.rotate_left(18) ^ x.rotate_left(24)
}

fn l2(x: u32) -> (r: u32) ensures r == z_l2(x) {
    x ^ x.rotate_left(8) ^ x.rotate_left(14) ^ x.rotate_left(22) ^ x.rotate_left(30)
}
