//@unit sm9_modn
//@serves C09 C10 C13 C16 C17 C20
//@source gm-sm9/src/fields.rs
//@rewrite be
//@assume shim_from_be_u64: u64::from_be_bytes is the big-endian conversion (external_body shim whose body is the replaced std call)
//@include-spec sm2_math
//@include-spec sm9_math
//@section code gm-sm9/src/u256.rs
type U256 = [u64; 4];
type U512 = [u64; 8];
const SM9_ONE: U256 = [1, 0, 0, 0];
//@stub sm9_limbs u256_add
//@stub sm9_limbs u256_sub
//@stub sm9_limbs u256_mul
//@stub sm9_limbs u256_cmp
//@section code gm-sm9/src/lib.rs
const SM9_N: U256 = [
    0xe56ee19cd69ecf25,
    0x49f2934b18ea8bee,
    0xd603ab4ff58ec744,
    0xb640000002a3a6f1,
];
const SM9_N_NEG: U256 = [
    0x1a911e63296130db,
    0xb60d6cb4e7157411,
    0x29fc54b00a7138bb,
    0x49bffffffd5c590e,
];
const SM9_N_MINUS_ONE: U256 = [
    0xe56ee19cd69ecf24,
    0x49f2934b18ea8bee,
    0xd603ab4ff58ec744,
    0xb640000002a3a6f1,
];
const SM9_N_MINUS_TWO: U256 = [
    0xe56ee19cd69ecf23,
    0x49f2934b18ea8bee,
    0xd603ab4ff58ec744,
    0xb640000002a3a6f1,
];
const SM9_N_BARRETT_MU: [u64; 5] = [
    0x74df4fd4dfc97c2f,
    0x9c95d85ec9c073b0,
    0x55f73aebdcd1312c,
    0x67980e0beb5759a6,
    0x1,
];
const SM9_U256_N_MINUS_ONE_BARRETT_MU: [u64; 4] = [
    0x74df4fd4dfc97c31,
    0x9c95d85ec9c073b0,
    0x55f73aebdcd1312c,
    0x67980e0beb5759a6,
];

//@section spec local
// the code constants are the standard's parameters / the Barrett constants floor(2^512 / N), floor(2^512 / (N-1))
proof fn mn_consts()
    ensures val4(SM9_N@) == N9(), val4(SM9_N_NEG@) == r256() - N9(), val4(SM9_N_MINUS_ONE@) == N9() - 1, val4(SM9_N_MINUS_TWO@) == N9() - 2,
        val4(SM9_ONE@) == 1,
        val5(SM9_N_BARRETT_MU@) >= 0,
        val5(SM9_N_BARRETT_MU@) * N9() <= mn_p512(), mn_p512() < val5(SM9_N_BARRETT_MU@) * N9() + N9(),
        N9() * N9() <= (mn_p320() - val5(SM9_N_BARRETT_MU@) - 1) * mn_p192(),
        (r256() + val4(SM9_U256_N_MINUS_ONE_BARRETT_MU@)) * (N9() - 1) <= mn_p512(),
        mn_p512() < (r256() + val4(SM9_U256_N_MINUS_ONE_BARRETT_MU@)) * (N9() - 1) + (N9() - 1),
        0 <= val4(SM9_U256_N_MINUS_ONE_BARRETT_MU@) < r256(),
{
    assert(val5(SM9_N_BARRETT_MU@) >= 0) by(compute);
    assert(val5(SM9_N_BARRETT_MU@) * N9() <= mn_p512() && mn_p512() < val5(SM9_N_BARRETT_MU@) * N9() + N9()) by(compute);
    assert(N9() * N9() <= (mn_p320() - val5(SM9_N_BARRETT_MU@) - 1) * mn_p192()) by(compute);
    assert((r256() + val4(SM9_U256_N_MINUS_ONE_BARRETT_MU@)) * (N9() - 1) <= mn_p512()) by(compute);
    assert(mn_p512() < (r256() + val4(SM9_U256_N_MINUS_ONE_BARRETT_MU@)) * (N9() - 1) + (N9() - 1)) by(compute);
    assert(0 <= val4(SM9_U256_N_MINUS_ONE_BARRETT_MU@) < r256()) by(compute);
    assert(val4(SM9_N@) == N9() && val4(SM9_N_NEG@) == r256() - N9() && val4(SM9_N_MINUS_ONE@) == N9() - 1 && val4(SM9_N_MINUS_TWO@) == N9() - 2) by(compute);
    assert(val4(SM9_ONE@) == 1) by(compute);
}
// ---- mod_n_add / mod_n_sub: the linear facts about the constants, and the modular facts as stage lemmas over plain integers ----
proof fn mn_lin()
    ensures val4(SM9_N@) == N9(), val4(SM9_N_NEG@) == r256() - N9(), val4(SM9_N_MINUS_ONE@) == N9() - 1, val4(SM9_ONE@) == 1,
        0 < N9(), N9() < r256(), r256() < 2 * N9(),
{
    mn_consts(); lemma_params9();
}
//@section spec
use vstd::arithmetic::div_mod::*;
use vstd::arithmetic::mul::*;
#[verifier::external_body]
fn shim_from_be_u64(b: &[u8]) -> (r: u64) requires b@.len() == 8 ensures r as int == be_val(b@) { u64::from_be_bytes(b.try_into().unwrap()) }
// little-endian limb values of 5 and 10 limbs, Horner form with the literal 2^64
// ---- small modular-arithmetic library (generic modulus m) ----
pub proof fn mn_small_mod(x: int, m: int) requires 0 <= x < m ensures x % m == x
{ lemma_small_mod(x as nat, m as nat); }
pub proof fn mn_mod_add_mult(a: int, k: int, m: int) requires m > 0 ensures (a + k * m) % m == a % m
{
    lemma_mod_multiples_vanish(k, a, m);
    assert(m * k + a == a + k * m) by(nonlinear_arith);
}
pub open spec fn val5(a: Seq<u64>) -> int {
    a[0] as int + 0x1_0000_0000_0000_0000int * (a[1] as int + 0x1_0000_0000_0000_0000int * (a[2] as int + 0x1_0000_0000_0000_0000int * (a[3] as int + 0x1_0000_0000_0000_0000int * (a[4] as int))))
}
pub open spec fn val10(a: Seq<u64>) -> int {
    a[0] as int + 0x1_0000_0000_0000_0000int * (a[1] as int + 0x1_0000_0000_0000_0000int * (a[2] as int + 0x1_0000_0000_0000_0000int * (a[3] as int + 0x1_0000_0000_0000_0000int * (a[4] as int
    + 0x1_0000_0000_0000_0000int * (a[5] as int + 0x1_0000_0000_0000_0000int * (a[6] as int + 0x1_0000_0000_0000_0000int * (a[7] as int + 0x1_0000_0000_0000_0000int * (a[8] as int + 0x1_0000_0000_0000_0000int * (a[9] as int)))))))))
}
// ---- 32-bit digit strings (schoolbook multiplication), as in unit sm9_limbs but for any digit count ----
pub open spec fn mn_pow32(k: int) -> int decreases k { if k <= 0 { 1 } else { 0x1_0000_0000int * mn_pow32(k - 1) } }
pub open spec fn mn_val32(s: Seq<u64>, n: int) -> int decreases n { if n <= 0 { 0 } else { mn_val32(s, n - 1) + s[n - 1] as int * mn_pow32(n - 1) } }
pub open spec fn mn_hv32(s: Seq<u64>, lo: int, n: int) -> int decreases n - lo { if lo >= n { 0 } else { s[lo] as int + 0x1_0000_0000int * mn_hv32(s, lo + 1, n) } }
pub open spec fn mn_rowsum(x: int, b: Seq<u64>, i: int, j: int) -> int decreases j {
    if j <= 0 { 0 } else { mn_rowsum(x, b, i, j - 1) + x * (b[j - 1] as int) * mn_pow32(i + j - 1) }
}
pub open spec fn mn_rows(a: Seq<u64>, b: Seq<u64>, i: int, w: int) -> int decreases i {
    if i <= 0 { 0 } else { mn_rows(a, b, i - 1, w) + mn_rowsum(a[i - 1] as int, b, i - 1, w) }
}
pub proof fn mn_pow32_add(a: int, b: int)
    requires a >= 0, b >= 0
    ensures mn_pow32(a + b) == mn_pow32(a) * mn_pow32(b)
    decreases b
{
    if b == 0 { assert(mn_pow32(0) == 1); }
    else {
        mn_pow32_add(a, b - 1);
        assert(mn_pow32(a + b) == 0x1_0000_0000int * mn_pow32(a + b - 1));
        assert(mn_pow32(b) == 0x1_0000_0000int * mn_pow32(b - 1));
        assert(0x1_0000_0000int * (mn_pow32(a) * mn_pow32(b - 1)) == mn_pow32(a) * (0x1_0000_0000int * mn_pow32(b - 1))) by(nonlinear_arith);
    }
}
pub proof fn mn_pow32_pos(k: int) ensures mn_pow32(k) >= 1 decreases k {
    if k > 0 { mn_pow32_pos(k - 1); }
}
pub proof fn mn_val32_update(s: Seq<u64>, k: int, v: u64, n: int)
    requires 0 <= k < s.len(), 0 <= n <= s.len()
    ensures mn_val32(s.update(k, v), n) == mn_val32(s, n) + (if k < n { (v as int - s[k] as int) * mn_pow32(k) } else { 0 })
    decreases n
{
    if n > 0 {
        mn_val32_update(s, k, v, n - 1);
        if k == n - 1 {
            assert((v as int) * mn_pow32(k) == (s[k] as int) * mn_pow32(k) + (v as int - s[k] as int) * mn_pow32(k)) by(nonlinear_arith);
        }
    }
}
pub proof fn mn_val32_zero(s: Seq<u64>, n: int)
    requires 0 <= n <= s.len(), forall|k: int| 0 <= k < n ==> s[k] == 0
    ensures mn_val32(s, n) == 0
    decreases n
{
    if n > 0 { mn_val32_zero(s, n - 1); assert(0 * mn_pow32(n - 1) == 0); }
}
pub proof fn mn_step(sk: int, ab: int, u: int, sk2: int, u2: int, pk: int)
    requires sk2 + u2 * 0x1_0000_0000int == sk + ab + u,
    ensures (sk2 - sk) * pk + u2 * (0x1_0000_0000int * pk) == ab * pk + u * pk
{
    assert((sk2 - sk) * pk + u2 * (0x1_0000_0000int * pk) == (sk2 - sk + u2 * 0x1_0000_0000int) * pk) by(nonlinear_arith);
    assert((sk + ab + u - sk) * pk == ab * pk + u * pk) by(nonlinear_arith);
}
pub proof fn mn_val32_hv32(s: Seq<u64>, lo: int, n: int)
    requires 0 <= lo <= n
    ensures mn_val32(s, n) == mn_val32(s, lo) + mn_pow32(lo) * mn_hv32(s, lo, n)
    decreases n - lo
{
    if lo == n {
        assert(mn_pow32(lo) * 0 == 0);
    } else {
        mn_val32_hv32(s, lo + 1, n);
        let h = mn_hv32(s, lo + 1, n);
        let p = mn_pow32(lo);
        let d = s[lo] as int;
        assert(mn_pow32(lo + 1) == 0x1_0000_0000int * p);
        assert(mn_val32(s, lo + 1) == mn_val32(s, lo) + d * p);
        assert(mn_hv32(s, lo, n) == d + 0x1_0000_0000int * h);
        assert(d * p + (0x1_0000_0000int * p) * h == p * (d + 0x1_0000_0000int * h)) by(nonlinear_arith);
    }
}
pub open spec fn mn_split_at(d: Seq<u64>, l: Seq<u64>, k: int) -> bool {
    l[k] as int == d[2 * k] as int + 0x1_0000_0000int * d[2 * k + 1] as int && d[2 * k] < 0x1_0000_0000 && d[2 * k + 1] < 0x1_0000_0000
}
pub open spec fn mn_join_at(l: Seq<u64>, d: Seq<u64>, k: int) -> bool { l[k] as int == d[2 * k] as int + 0x1_0000_0000int * d[2 * k + 1] as int }
pub proof fn mn_digits10(d: Seq<u64>, l: Seq<u64>)
    requires d.len() == 10, l.len() == 5,
        l[0] as int == d[0] as int + 0x1_0000_0000int * d[1] as int, l[1] as int == d[2] as int + 0x1_0000_0000int * d[3] as int,
        l[2] as int == d[4] as int + 0x1_0000_0000int * d[5] as int, l[3] as int == d[6] as int + 0x1_0000_0000int * d[7] as int,
        l[4] as int == d[8] as int + 0x1_0000_0000int * d[9] as int,
    ensures mn_val32(d, 10) == val5(l)
{
    mn_val32_hv32(d, 0, 10);
    assert(mn_val32(d, 0) == 0 && mn_pow32(0) == 1);
    reveal_with_fuel(mn_hv32, 11);
}
pub proof fn mn_digits20(d: Seq<u64>, l: Seq<u64>)
    requires d.len() == 20, l.len() == 10,
        l[0] as int == d[0] as int + 0x1_0000_0000int * d[1] as int, l[1] as int == d[2] as int + 0x1_0000_0000int * d[3] as int,
        l[2] as int == d[4] as int + 0x1_0000_0000int * d[5] as int, l[3] as int == d[6] as int + 0x1_0000_0000int * d[7] as int,
        l[4] as int == d[8] as int + 0x1_0000_0000int * d[9] as int, l[5] as int == d[10] as int + 0x1_0000_0000int * d[11] as int,
        l[6] as int == d[12] as int + 0x1_0000_0000int * d[13] as int, l[7] as int == d[14] as int + 0x1_0000_0000int * d[15] as int,
        l[8] as int == d[16] as int + 0x1_0000_0000int * d[17] as int, l[9] as int == d[18] as int + 0x1_0000_0000int * d[19] as int,
    ensures mn_val32(d, 20) == val10(l)
{
    mn_val32_hv32(d, 0, 20);
    assert(mn_val32(d, 0) == 0 && mn_pow32(0) == 1);
    reveal_with_fuel(mn_hv32, 21);
}
pub proof fn mn_rowsum_lemma(x: int, b: Seq<u64>, i: int, j: int)
    requires i >= 0, j >= 0
    ensures mn_rowsum(x, b, i, j) == (x * mn_pow32(i)) * mn_val32(b, j)
    decreases j
{
    if j == 0 {
        assert((x * mn_pow32(i)) * 0 == 0);
    } else {
        mn_rowsum_lemma(x, b, i, j - 1);
        mn_pow32_add(i, j - 1);
        let bj = b[j - 1] as int;
        let pi = mn_pow32(i);
        let pj = mn_pow32(j - 1);
        let v = mn_val32(b, j - 1);
        assert(mn_val32(b, j) == v + bj * pj);
        assert(mn_rowsum(x, b, i, j) == mn_rowsum(x, b, i, j - 1) + x * bj * mn_pow32(i + j - 1));
        assert((x * pi) * v + x * bj * (pi * pj) == (x * pi) * (v + bj * pj)) by(nonlinear_arith);
    }
}
pub proof fn mn_rows_lemma(a: Seq<u64>, b: Seq<u64>, i: int, w: int)
    requires i >= 0, w >= 0
    ensures mn_rows(a, b, i, w) == mn_val32(a, i) * mn_val32(b, w)
    decreases i
{
    if i == 0 {
        assert(0 * mn_val32(b, w) == 0);
    } else {
        mn_rows_lemma(a, b, i - 1, w);
        mn_rowsum_lemma(a[i - 1] as int, b, i - 1, w);
        let v = mn_val32(b, w);
        let ai = a[i - 1] as int;
        let p = mn_pow32(i - 1);
        let w0 = mn_val32(a, i - 1);
        assert(mn_val32(a, i) == w0 + ai * p);
        assert(w0 * v + (ai * p) * v == (w0 + ai * p) * v) by(nonlinear_arith);
    }
}
// ---- powers ----
pub proof fn mn_pow_range(x: int, e: nat, m: int) requires m > 0 ensures 0 <= pow_mod(x, e, m) < m decreases e
{
    if e == 0 { lemma_mod_bound(1, m); } else { lemma_mod_bound(pow_mod(x, (e - 1) as nat, m) * x, m); }
}
pub proof fn mn_pow_add(x: int, i: nat, j: nat, m: int) requires m > 0
    ensures pow_mod(x, i + j, m) == (pow_mod(x, i, m) * pow_mod(x, j, m)) % m
    decreases j
{
    let pi = pow_mod(x, i, m);
    mn_pow_range(x, i, m);
    if j == 0 {
        lemma_mul_mod_noop_general(pi, 1, m);
        assert(pi * 1 == pi);
        mn_small_mod(pi, m);
    } else {
        let pj = pow_mod(x, (j - 1) as nat, m);
        mn_pow_add(x, i, (j - 1) as nat, m);
        assert(((i + j) - 1) as nat == i + (j - 1) as nat);
        lemma_mul_mod_noop_general(pi * pj, x, m);
        assert((pi * pj) * x == pi * (pj * x)) by(nonlinear_arith);
        lemma_mul_mod_noop_general(pi, pj * x, m);
    }
}
pub open spec fn mn_p2(j: nat) -> int decreases j { if j == 0 { 1 } else { 2 * mn_p2((j - 1) as nat) } }
pub proof fn mn_p2_64() ensures mn_p2(64) == 0x1_0000_0000_0000_0000int { assert(mn_p2(64) == 0x1_0000_0000_0000_0000int) by(compute); }
// value of the k most significant limbs
pub open spec fn mn_top(e: Seq<u64>, k: int) -> int decreases k { if k <= 0 { 0 } else { mn_top(e, k - 1) * 0x1_0000_0000_0000_0000int + e[4 - k] as int } }
pub proof fn mn_top4(e: Seq<u64>) ensures mn_top(e, 4) == val4(e), mn_top(e, 0) == 0
{
    assert(mn_top(e, 0) == 0);
    assert(mn_top(e, 1) == mn_top(e, 0) * 0x1_0000_0000_0000_0000int + e[3] as int);
    assert(mn_top(e, 2) == mn_top(e, 1) * 0x1_0000_0000_0000_0000int + e[2] as int);
    assert(mn_top(e, 3) == mn_top(e, 2) * 0x1_0000_0000_0000_0000int + e[1] as int);
    assert(mn_top(e, 4) == mn_top(e, 3) * 0x1_0000_0000_0000_0000int + e[0] as int);
}
pub proof fn mn_bits(w: u64)
    ensures (w & 0x8000000000000000 != 0) == (w >= 0x8000000000000000u64),
        w < 0x8000000000000000u64 ==> (w << 1) as int == 2 * (w as int),
        w >= 0x8000000000000000u64 ==> (w << 1) as int == 2 * (w as int) - 0x1_0000_0000_0000_0000int,
{
    assert((w & 0x8000000000000000 != 0) == (w >= 0x8000000000000000u64)) by(bit_vector);
    assert(w < 0x8000000000000000u64 ==> (w << 1) == 2 * w) by(bit_vector);
    assert(w >= 0x8000000000000000u64 ==> (w << 1) == 2 * (w - 0x8000000000000000u64)) by(bit_vector);
}
// ---- Barrett reduction ----
pub open spec fn mn_p192() -> int { 0x1_0000_0000_0000_0000int * 0x1_0000_0000_0000_0000int * 0x1_0000_0000_0000_0000int }
pub open spec fn mn_p320() -> int { 0x1_0000_0000_0000_0000int * 0x1_0000_0000_0000_0000int * 0x1_0000_0000_0000_0000int * 0x1_0000_0000_0000_0000int * 0x1_0000_0000_0000_0000int }
pub open spec fn mn_p512() -> int { 0x1_0000_0000_0000_0000int * 0x1_0000_0000_0000_0000int * 0x1_0000_0000_0000_0000int * 0x1_0000_0000_0000_0000int * 0x1_0000_0000_0000_0000int * 0x1_0000_0000_0000_0000int * 0x1_0000_0000_0000_0000int * 0x1_0000_0000_0000_0000int }
// q' = floor(floor(z / A) * mu / B) with mu = floor(A*B / d):  q'*d <= z  and  (z - (q'+1)*d) * B < d * (z1 + mu + 1)
pub proof fn mn_barrett(z: int, z1: int, mu: int, qp: int, d: int, aa: int, bb: int, mm: int)
    requires d > 0, aa > 0, bb > 0, mm == aa * bb, z >= 0, z1 >= 0, mu >= 0,
        mu * d <= mm, mm < mu * d + d,
        z1 * aa <= z, z < z1 * aa + aa,
        qp * bb <= z1 * mu, z1 * mu < qp * bb + bb,
    ensures qp * d <= z, (z - (qp + 1) * d) * bb < d * (z1 + mu + 1)
{
    let h = z1 * mu;
    assert(mm > 0) by(nonlinear_arith) requires mm == aa * bb, aa > 0, bb > 0;
    assert(z1 * aa >= 0) by(nonlinear_arith) requires z1 >= 0, aa > 0;
    assert(mu * d >= 0) by(nonlinear_arith) requires mu >= 0, d > 0;
    assert(d * aa > 0) by(nonlinear_arith) requires aa > 0, d > 0;
    // upper bound
    assert((z1 * aa) * (mu * d) <= z * mm) by(nonlinear_arith) requires 0 <= z1 * aa <= z, 0 <= mu * d <= mm;
    assert((qp * bb) * (d * aa) <= h * (d * aa)) by(nonlinear_arith) requires qp * bb <= h, d * aa > 0;
    assert((qp * bb) * (d * aa) == (qp * d) * mm) by(nonlinear_arith) requires mm == aa * bb;
    assert(h * (d * aa) == (z1 * aa) * (mu * d)) by(nonlinear_arith) requires h == z1 * mu;
    assert(qp * d <= z) by(nonlinear_arith) requires (qp * d) * mm <= z * mm, mm > 0;
    // lower bound
    let x = z1 * aa + aa;
    let y = mu * d + d;
    assert(z * mm < x * y) by(nonlinear_arith) requires 0 <= z < x, 0 < mm < y;
    assert(x * y == (aa * d) * (h + z1 + mu + 1)) by(nonlinear_arith) requires x == z1 * aa + aa, y == mu * d + d, h == z1 * mu;
    let w = (qp + 1) * bb + z1 + mu + 1;
    assert(aa * d > 0) by(nonlinear_arith) requires aa > 0, d > 0;
    assert((qp + 1) * bb == qp * bb + bb) by(nonlinear_arith);
    assert((aa * d) * (h + z1 + mu + 1) < (aa * d) * w) by(nonlinear_arith) requires h + z1 + mu + 1 < w, aa * d > 0;
    assert((aa * d) * w == ((qp + 1) * d) * mm + (aa * d) * (z1 + mu + 1)) by(nonlinear_arith) requires w == (qp + 1) * bb + z1 + mu + 1, mm == aa * bb;
    let lhs = (z - (qp + 1) * d) * bb;
    let rhs = d * (z1 + mu + 1);
    assert(z * mm - ((qp + 1) * d) * mm == aa * lhs) by(nonlinear_arith) requires mm == aa * bb, lhs == (z - (qp + 1) * d) * bb;
    assert((aa * d) * (z1 + mu + 1) == aa * rhs) by(nonlinear_arith) requires rhs == d * (z1 + mu + 1);
    assert(lhs < rhs) by(nonlinear_arith) requires aa * lhs < aa * rhs, aa > 0;
}
// the quotient estimate of mod_n_mul is q or q - 1
pub proof fn mn_mul_quot(zz: int, z1: int, mu: int, qp: int, n: int)
    requires 0 < n, 0 <= zz < n * n, mu >= 0, z1 >= 0,
        mu * n <= mn_p512(), mn_p512() < mu * n + n, n * n <= (mn_p320() - mu - 1) * mn_p192(),
        z1 * mn_p192() <= zz, zz < z1 * mn_p192() + mn_p192(),
        qp * mn_p320() <= z1 * mu, z1 * mu < qp * mn_p320() + mn_p320(),
    ensures 0 <= qp < n, 0 <= zz - qp * n < 2 * n
{
    assert(mn_p512() == mn_p192() * mn_p320() && mn_p192() > 0 && mn_p320() > 0) by(compute);
    mn_barrett(zz, z1, mu, qp, n, mn_p192(), mn_p320(), mn_p512());
    let a = mn_p192(); let b = mn_p320();
    assert(z1 < b - mu - 1) by(nonlinear_arith) requires z1 * a < (b - mu - 1) * a, a > 0;
    assert(n * (z1 + mu + 1) <= n * b) by(nonlinear_arith) requires z1 + mu + 1 <= b, n > 0;
    let t = zz - (qp + 1) * n;
    assert(t < n) by(nonlinear_arith) requires t * b < n * b, b > 0;
    assert((qp + 1) * n == qp * n + n) by(nonlinear_arith);
    assert(qp < n) by(nonlinear_arith) requires qp * n < n * n, n > 0;
    assert(z1 * mu >= 0) by(nonlinear_arith) requires z1 >= 0, mu >= 0;
    assert(qp >= 0) by(nonlinear_arith) requires qp * b + b > 0, b > 0;
}
// Horner value of 8 limbs
pub open spec fn mn_h8(a: Seq<u64>) -> int {
    a[0] as int + 0x1_0000_0000_0000_0000int * (a[1] as int + 0x1_0000_0000_0000_0000int * (a[2] as int + 0x1_0000_0000_0000_0000int * (a[3] as int + 0x1_0000_0000_0000_0000int * (a[4] as int + 0x1_0000_0000_0000_0000int * (a[5] as int + 0x1_0000_0000_0000_0000int * (a[6] as int + 0x1_0000_0000_0000_0000int * (a[7] as int)))))))
}
pub proof fn mn_val8_h8(a: Seq<u64>) requires a.len() == 8 ensures val8(a) == mn_h8(a)
{
    let x = val4(a.subrange(4, 8));
    assert(r256() * x == 0x1_0000_0000_0000_0000int * (0x1_0000_0000_0000_0000int * (0x1_0000_0000_0000_0000int * (0x1_0000_0000_0000_0000int * x)))) by(nonlinear_arith);
}
pub open spec fn mn_lo3(a: Seq<u64>) -> int { a[0] as int + 0x1_0000_0000_0000_0000int * (a[1] as int + 0x1_0000_0000_0000_0000int * (a[2] as int)) }
pub open spec fn mn_lo5(a: Seq<u64>) -> int { a[0] as int + 0x1_0000_0000_0000_0000int * (a[1] as int + 0x1_0000_0000_0000_0000int * (a[2] as int + 0x1_0000_0000_0000_0000int * (a[3] as int + 0x1_0000_0000_0000_0000int * (a[4] as int)))) }
pub open spec fn mn_hi5(a: Seq<u64>) -> int { a[5] as int + 0x1_0000_0000_0000_0000int * (a[6] as int + 0x1_0000_0000_0000_0000int * (a[7] as int + 0x1_0000_0000_0000_0000int * (a[8] as int + 0x1_0000_0000_0000_0000int * (a[9] as int)))) }
pub proof fn mn_split8(a: Seq<u64>) requires a.len() == 8
    ensures val8(a) == mn_lo3(a) + mn_p192() * val5(a.subrange(3, 8)), 0 <= mn_lo3(a) < mn_p192(), val5(a.subrange(3, 8)) >= 0, val8(a) >= 0
{
    mn_val8_h8(a);
    let x = val5(a.subrange(3, 8));
    assert(mn_p192() * x == 0x1_0000_0000_0000_0000int * (0x1_0000_0000_0000_0000int * (0x1_0000_0000_0000_0000int * x))) by(nonlinear_arith);
}
pub proof fn mn_split10(a: Seq<u64>) requires a.len() == 10
    ensures val10(a) == mn_lo5(a) + mn_p320() * mn_hi5(a), 0 <= mn_lo5(a) < mn_p320(), mn_hi5(a) >= 0
{
    let x = mn_hi5(a);
    assert(mn_p320() * x == 0x1_0000_0000_0000_0000int * (0x1_0000_0000_0000_0000int * (0x1_0000_0000_0000_0000int * (0x1_0000_0000_0000_0000int * (0x1_0000_0000_0000_0000int * x))))) by(nonlinear_arith);
}
// the borrow chain of mod_n_mul computes the low 5 limbs of z - s; they are the whole difference when it lies in [0, 2^320)
// the conditional final subtraction of the Barrett reduction, as a lemma over plain integers (keeps the case split out of the
// large context of mod_n_mul, where it was unstable)
pub proof fn mn_final_sub(r0v: int, rv: int, s4: int, rr: int, n: int, took: bool)
    requires r0v + r256() * s4 == rr, 0 <= s4, 0 <= rr < 2 * n, n < r256(), r256() < 2 * n, 0 <= r0v < r256(), 0 <= rv < r256(),
        took == (s4 > 0 || r0v >= n),
        took ==> (rv == r0v - n || rv == r0v - n + r256()),
        !took ==> rv == r0v,
    ensures rv == rr - (if took { 1int } else { 0int }) * n, 0 <= rv < n
{
    assert(s4 <= 1) by(nonlinear_arith) requires r0v + r256() * s4 == rr, r0v >= 0, rr < 2 * r256(), r256() > 0, s4 >= 0;
    if s4 == 1 {
        assert(r256() * s4 == r256()) by(nonlinear_arith) requires s4 == 1;
    } else {
        assert(r256() * s4 == 0) by(nonlinear_arith) requires s4 == 0;
    }
}
pub proof fn mn_sub5(z: Seq<u64>, s: Seq<u64>, r: Seq<u64>, s4n: int, o0: int, o1: int, o2: int, o3: int, k: int, rr: int)
    requires z.len() == 8, s.len() == 8, r.len() == 4,
        0 <= o0 <= 1, 0 <= o1 <= 1, 0 <= o2 <= 1, 0 <= o3 <= 1,
        r[0] as int - o0 * 0x1_0000_0000_0000_0000int == z[0] as int - s[0] as int,
        r[1] as int - o1 * 0x1_0000_0000_0000_0000int == z[1] as int - s[1] as int - o0,
        r[2] as int - o2 * 0x1_0000_0000_0000_0000int == z[2] as int - s[2] as int - o1,
        r[3] as int - o3 * 0x1_0000_0000_0000_0000int == z[3] as int - s[3] as int - o2,
        s4n == z[4] as int - o3 - s[4] as int + k * 0x1_0000_0000_0000_0000int, 0 <= s4n < 0x1_0000_0000_0000_0000int,
        rr == val8(z) - val8(s), 0 <= rr < mn_p320(),
    ensures val4(r) + r256() * s4n == rr
{
    mn_val8_h8(z); mn_val8_h8(s);
    let m = (z[5] as int - s[5] as int) + 0x1_0000_0000_0000_0000int * ((z[6] as int - s[6] as int) + 0x1_0000_0000_0000_0000int * (z[7] as int - s[7] as int)) - k;
    let x = val4(r) + r256() * s4n;
    assert(r256() * s4n == 0x1_0000_0000_0000_0000int * (0x1_0000_0000_0000_0000int * (0x1_0000_0000_0000_0000int * (0x1_0000_0000_0000_0000int * s4n)))) by(nonlinear_arith);
    assert(mn_p320() * m == 0x1_0000_0000_0000_0000int * (0x1_0000_0000_0000_0000int * (0x1_0000_0000_0000_0000int * (0x1_0000_0000_0000_0000int * (0x1_0000_0000_0000_0000int * m))))) by(nonlinear_arith);
    assert(0 <= x < mn_p320());
    assert(rr - x == mn_p320() * m);
    assert(m == 0) by(nonlinear_arith) requires -mn_p320() < mn_p320() * m < mn_p320();
}
// ---- digit-wise form of a 256-bit subtraction result (schoolbook borrows). The value-level contract of u256_sub is one equation with
// coefficients 2^64..2^192 over twelve limbs; when an obligation is false the solver has to find limbs satisfying it, and its integer
// search (branch/cut) on that single equation is what exhausts the resource limit. These four small rows make the search immediate. ----
pub open spec fn mn_bw(a: int, b: int, c: int) -> int { if a - b - c < 0 { 1int } else { 0int } }
pub open spec fn mn_sub_dig(a: Seq<u64>, b: Seq<u64>, r: Seq<u64>) -> bool {
    let b0 = mn_bw(a[0] as int, b[0] as int, 0);
    let b1 = mn_bw(a[1] as int, b[1] as int, b0);
    let b2 = mn_bw(a[2] as int, b[2] as int, b1);
    r[0] as int == a[0] as int - b[0] as int + 0x1_0000_0000_0000_0000int * b0
    && r[1] as int == a[1] as int - b[1] as int - b0 + 0x1_0000_0000_0000_0000int * b1
    && r[2] as int == a[2] as int - b[2] as int - b1 + 0x1_0000_0000_0000_0000int * b2
    && (r[3] as int == a[3] as int - b[3] as int - b2 || r[3] as int == a[3] as int - b[3] as int - b2 + 0x1_0000_0000_0000_0000int)
}
pub proof fn mn_sub_digits(a: Seq<u64>, b: Seq<u64>, r: Seq<u64>)
    requires a.len() == 4, b.len() == 4, r.len() == 4,
        val4(r) - val4(a) + val4(b) == 0 || val4(r) - val4(a) + val4(b) == r256(),
    ensures mn_sub_dig(a, b, r)
{
    let b0 = mn_bw(a[0] as int, b[0] as int, 0);
    let b1 = mn_bw(a[1] as int, b[1] as int, b0);
    let b2 = mn_bw(a[2] as int, b[2] as int, b1);
    let b3 = mn_bw(a[3] as int, b[3] as int, b2);
    let r0 = (a[0] as int - b[0] as int + 0x1_0000_0000_0000_0000int * b0) as u64;
    let r1 = (a[1] as int - b[1] as int - b0 + 0x1_0000_0000_0000_0000int * b1) as u64;
    let r2 = (a[2] as int - b[2] as int - b1 + 0x1_0000_0000_0000_0000int * b2) as u64;
    let r3 = (a[3] as int - b[3] as int - b2 + 0x1_0000_0000_0000_0000int * b3) as u64;
    let rp = seq![r0, r1, r2, r3];
    assert(val4(rp) - b3 * r256() == val4(a) - val4(b));
    lemma_val4_bounds(rp); lemma_val4_bounds(r);
    assert(val4(rp) == val4(r));
    lemma_val4_inj(r, rp);
}
// ---- digit-wise form of 256-bit additions / subtractions, for whichever operation produced r from a and b (fail-fast hints, see mn_sub_digits) ----
pub open spec fn mn_d_cy(a: int, b: int, c: int) -> int { if a + b + c >= 0x1_0000_0000_0000_0000int { 1int } else { 0int } }
pub open spec fn mn_d_bw(a: int, b: int, c: int) -> int { if a - b - c < 0 { 1int } else { 0int } }
pub open spec fn mn_d_add_dig(a: Seq<u64>, b: Seq<u64>, r: Seq<u64>) -> bool {
    let c0 = mn_d_cy(a[0] as int, b[0] as int, 0);
    let c1 = mn_d_cy(a[1] as int, b[1] as int, c0);
    let c2 = mn_d_cy(a[2] as int, b[2] as int, c1);
    let c3 = mn_d_cy(a[3] as int, b[3] as int, c2);
    r[0] as int == a[0] as int + b[0] as int - 0x1_0000_0000_0000_0000int * c0
    && r[1] as int == a[1] as int + b[1] as int + c0 - 0x1_0000_0000_0000_0000int * c1
    && r[2] as int == a[2] as int + b[2] as int + c1 - 0x1_0000_0000_0000_0000int * c2
    && r[3] as int == a[3] as int + b[3] as int + c2 - 0x1_0000_0000_0000_0000int * c3
}
// carry out of the 256-bit addition
pub open spec fn mn_d_add_cy(a: Seq<u64>, b: Seq<u64>) -> bool {
    mn_d_cy(a[3] as int, b[3] as int, mn_d_cy(a[2] as int, b[2] as int, mn_d_cy(a[1] as int, b[1] as int, mn_d_cy(a[0] as int, b[0] as int, 0)))) == 1
}
pub open spec fn mn_d_sub_dig(a: Seq<u64>, b: Seq<u64>, r: Seq<u64>) -> bool {
    let b0 = mn_d_bw(a[0] as int, b[0] as int, 0);
    let b1 = mn_d_bw(a[1] as int, b[1] as int, b0);
    let b2 = mn_d_bw(a[2] as int, b[2] as int, b1);
    let b3 = mn_d_bw(a[3] as int, b[3] as int, b2);
    r[0] as int == a[0] as int - b[0] as int + 0x1_0000_0000_0000_0000int * b0
    && r[1] as int == a[1] as int - b[1] as int - b0 + 0x1_0000_0000_0000_0000int * b1
    && r[2] as int == a[2] as int - b[2] as int - b1 + 0x1_0000_0000_0000_0000int * b2
    && r[3] as int == a[3] as int - b[3] as int - b2 + 0x1_0000_0000_0000_0000int * b3
}
pub open spec fn mn_d_sub_bw(a: Seq<u64>, b: Seq<u64>) -> bool {
    mn_d_bw(a[3] as int, b[3] as int, mn_d_bw(a[2] as int, b[2] as int, mn_d_bw(a[1] as int, b[1] as int, mn_d_bw(a[0] as int, b[0] as int, 0)))) == 1
}
// r = a + b mod 2^256 (the carry flag may have been discarded by the caller)
pub proof fn mn_d_add_digits(a: Seq<u64>, b: Seq<u64>, r: Seq<u64>)
    requires a.len() == 4, b.len() == 4, r.len() == 4,
        val4(r) - val4(a) - val4(b) == 0 || val4(r) - val4(a) - val4(b) == -r256(),
    ensures mn_d_add_dig(a, b, r), mn_d_add_cy(a, b) == (val4(r) - val4(a) - val4(b) != 0), mn_d_add_cy(a, b) == (val4(a) + val4(b) >= r256()),
{
    let c0 = mn_d_cy(a[0] as int, b[0] as int, 0);
    let c1 = mn_d_cy(a[1] as int, b[1] as int, c0);
    let c2 = mn_d_cy(a[2] as int, b[2] as int, c1);
    let c3 = mn_d_cy(a[3] as int, b[3] as int, c2);
    let r0 = (a[0] as int + b[0] as int - 0x1_0000_0000_0000_0000int * c0) as u64;
    let r1 = (a[1] as int + b[1] as int + c0 - 0x1_0000_0000_0000_0000int * c1) as u64;
    let r2 = (a[2] as int + b[2] as int + c1 - 0x1_0000_0000_0000_0000int * c2) as u64;
    let r3 = (a[3] as int + b[3] as int + c2 - 0x1_0000_0000_0000_0000int * c3) as u64;
    let rp = seq![r0, r1, r2, r3];
    assert(val4(rp) + c3 * r256() == val4(a) + val4(b));
    lemma_val4_bounds(rp); lemma_val4_bounds(r);
    assert(val4(rp) == val4(r));
    lemma_val4_inj(r, rp);
}
// r = a - b mod 2^256 (the borrow flag may have been discarded by the caller)
pub proof fn mn_d_sub_digits(a: Seq<u64>, b: Seq<u64>, r: Seq<u64>)
    requires a.len() == 4, b.len() == 4, r.len() == 4,
        val4(r) - val4(a) + val4(b) == 0 || val4(r) - val4(a) + val4(b) == r256(),
    ensures mn_d_sub_dig(a, b, r), mn_d_sub_bw(a, b) == (val4(r) - val4(a) + val4(b) != 0), mn_d_sub_bw(a, b) == (val4(a) < val4(b)),
{
    let b0 = mn_d_bw(a[0] as int, b[0] as int, 0);
    let b1 = mn_d_bw(a[1] as int, b[1] as int, b0);
    let b2 = mn_d_bw(a[2] as int, b[2] as int, b1);
    let b3 = mn_d_bw(a[3] as int, b[3] as int, b2);
    let r0 = (a[0] as int - b[0] as int + 0x1_0000_0000_0000_0000int * b0) as u64;
    let r1 = (a[1] as int - b[1] as int - b0 + 0x1_0000_0000_0000_0000int * b1) as u64;
    let r2 = (a[2] as int - b[2] as int - b1 + 0x1_0000_0000_0000_0000int * b2) as u64;
    let r3 = (a[3] as int - b[3] as int - b2 + 0x1_0000_0000_0000_0000int * b3) as u64;
    let rp = seq![r0, r1, r2, r3];
    assert(val4(rp) - b3 * r256() == val4(a) - val4(b));
    lemma_val4_bounds(rp); lemma_val4_bounds(r);
    assert(val4(rp) == val4(r));
    lemma_val4_inj(r, rp);
}
// whatever 256-bit operation (a + b, a - b or b - a, modulo 2^256) produced r from a and b: its digit rows. No precondition, so this hint
// itself never fails; it is placed right after a u256_add / u256_sub call, before the obligation that states which operation was expected.
pub open spec fn mn_d_any_dig(a: Seq<u64>, b: Seq<u64>, r: Seq<u64>) -> bool {
    ((val4(r) - val4(a) - val4(b) == 0 || val4(r) - val4(a) - val4(b) == -r256()) ==> mn_d_add_dig(a, b, r) && mn_d_add_cy(a, b) == (val4(r) - val4(a) - val4(b) != 0))
    && ((val4(r) - val4(a) + val4(b) == 0 || val4(r) - val4(a) + val4(b) == r256()) ==> mn_d_sub_dig(a, b, r) && mn_d_sub_bw(a, b) == (val4(r) - val4(a) + val4(b) != 0))
    && ((val4(r) - val4(b) + val4(a) == 0 || val4(r) - val4(b) + val4(a) == r256()) ==> mn_d_sub_dig(b, a, r) && mn_d_sub_bw(b, a) == (val4(r) - val4(b) + val4(a) != 0))
    && 0 <= val4(r) < r256()
}
pub proof fn mn_d_digits_any(a: Seq<u64>, b: Seq<u64>, r: Seq<u64>)
    requires a.len() == 4, b.len() == 4, r.len() == 4,
    ensures mn_d_any_dig(a, b, r)
{
    lemma_val4_bounds(r);
    if val4(r) - val4(a) - val4(b) == 0 || val4(r) - val4(a) - val4(b) == -r256() { mn_d_add_digits(a, b, r); }
    if val4(r) - val4(a) + val4(b) == 0 || val4(r) - val4(a) + val4(b) == r256() { mn_d_sub_digits(a, b, r); }
    if val4(r) - val4(b) + val4(a) == 0 || val4(r) - val4(b) + val4(a) == r256() { mn_d_sub_digits(b, a, r); }
}
// s = a + b reduced by at most one subtraction of N
pub proof fn mn_add_post(s: int)
    ensures (s - N9()) % N9() == s % N9(), 0 <= s < N9() ==> s % N9() == s, N9() <= s < 2 * N9() ==> s % N9() == s - N9(),
{
    lemma_params9();
    mn_mod_add_mult(s, -1, N9());
    if 0 <= s - N9() < N9() { mn_small_mod(s - N9(), N9()); }
    if 0 <= s < N9() { mn_small_mod(s, N9()); }
}
// a - b (raw difference r0 with borrow c) corrected by subtracting 2^256 - N when the borrow is set; each case is a separate conjunct
pub proof fn mn_sub_post(av: int, bv: int, r0v: int, rv: int, c: bool)
    requires 0 <= av < N9(), 0 <= bv < N9(), 0 <= r0v < r256(), 0 <= rv < r256(),
        r0v - (if c { r256() } else { 0 }) == av - bv,
        c ==> (rv == r0v - (r256() - N9()) || rv == r0v - (r256() - N9()) + r256()),
        !c ==> rv == r0v,
    ensures rv == (av - bv) % N9()
{
    lemma_params9();
    let d = av - bv;
    mn_mod_add_mult(d, 1, N9());
    if d >= 0 { mn_small_mod(d, N9()); } else { mn_small_mod(d + N9(), N9()); }
}
// ---- mod_n_from_hash ----
pub open spec fn mn_p128() -> int { 0x1_0000_0000_0000_0000int * 0x1_0000_0000_0000_0000int }
pub proof fn mn_be_val_concat(s: Seq<u8>, t: Seq<u8>)
    ensures be_val(s + t) == pow256n(t.len()) * be_val(s) + be_val(t)
    decreases t.len()
{
    if t.len() == 0 {
        assert(s + t =~= s);
        assert(pow256n(0) == 1);
    } else {
        let p = pow256n((t.len() - 1) as nat);
        assert(pow256n(t.len()) == 256 * p);
        assert((s + t).drop_last() =~= s + t.drop_last());
        assert((s + t).last() == t.last());
        mn_be_val_concat(s, t.drop_last());
        assert((256 * p) * be_val(s) == 256 * (p * be_val(s))) by(nonlinear_arith);
    }
}
pub proof fn mn_be_val_40(b: Seq<u8>)
    requires b.len() == 40
    ensures be_val(b) == be_val(b.subrange(32, 40)) + 0x1_0000_0000_0000_0000int * (be_val(b.subrange(24, 32)) + 0x1_0000_0000_0000_0000int * (be_val(b.subrange(16, 24)) + 0x1_0000_0000_0000_0000int * (be_val(b.subrange(8, 16)) + 0x1_0000_0000_0000_0000int * be_val(b.subrange(0, 8)))))
{
    lemma_pow256n_32();
    assert(b =~= b.subrange(0, 32) + b.subrange(32, 40));
    mn_be_val_concat(b.subrange(0, 32), b.subrange(32, 40));
    assert(b.subrange(0, 32) =~= b.subrange(0, 24) + b.subrange(24, 32));
    mn_be_val_concat(b.subrange(0, 24), b.subrange(24, 32));
    assert(b.subrange(0, 24) =~= b.subrange(0, 16) + b.subrange(16, 24));
    mn_be_val_concat(b.subrange(0, 16), b.subrange(16, 24));
    assert(b.subrange(0, 16) =~= b.subrange(0, 8) + b.subrange(8, 16));
    mn_be_val_concat(b.subrange(0, 8), b.subrange(8, 16));
}
// quotient estimate on the top 128 bits: q' is q or q - 1, and z - q'*d stays below d + 2^194
pub proof fn mn_hash_quot(zz: int, z1: int, mu: int, qp: int, d: int)
    requires 0 < d < r256(), 0 <= zz, 0 <= mu < 2 * r256(), 0 <= z1 < mn_p128(),
        mu * d <= mn_p512(), mn_p512() < mu * d + d,
        z1 * mn_p192() <= zz, zz < z1 * mn_p192() + mn_p192(),
        qp * mn_p320() <= z1 * mu, z1 * mu < qp * mn_p320() + mn_p320(),
    ensures 0 <= qp, 0 <= zz - qp * d, zz - qp * d - d < 4 * mn_p192()
{
    assert(mn_p512() == mn_p192() * mn_p320() && mn_p192() > 0 && mn_p320() > 0) by(compute);
    assert(r256() * (4 * r256()) == (4 * mn_p192()) * mn_p320() && mn_p128() + 2 * r256() + 1 <= 4 * r256()) by(compute);
    mn_barrett(zz, z1, mu, qp, d, mn_p192(), mn_p320(), mn_p512());
    let b = mn_p320();
    let rr = r256();
    let t = zz - (qp + 1) * d;
    assert(d * (z1 + mu + 1) <= d * (4 * rr)) by(nonlinear_arith) requires z1 + mu + 1 <= 4 * rr, d > 0;
    assert(d * (4 * rr) < rr * (4 * rr)) by(nonlinear_arith) requires 0 < d < rr;
    assert(t < 4 * mn_p192()) by(nonlinear_arith) requires t * b < (4 * mn_p192()) * b, b > 0;
    assert((qp + 1) * d == qp * d + d) by(nonlinear_arith);
    assert(z1 * mu >= 0) by(nonlinear_arith) requires z1 >= 0, mu >= 0;
    assert(qp >= 0) by(nonlinear_arith) requires qp * b + b > 0, b > 0;
}
// r = zt * mul (8 limbs, zt < 2^128); adding zt * 2^256 through limbs 4..6 gives zt * (2^256 + mul), whose limbs 5,6 are the quotient estimate
pub proof fn mn_hash_mu(r: Seq<u64>, rn: Seq<u64>, z3: int, z4: int, mul: int, c1: int, ct: int, c2: int, t: int)
    requires r.len() == 8, rn.len() == 8, 0 <= z3 < 0x1_0000_0000_0000_0000int, 0 <= z4 < 0x1_0000_0000_0000_0000int, 0 <= mul < r256(),
        val8(r) == (z3 + 0x1_0000_0000_0000_0000int * z4) * mul,
        0 <= c1 <= 1, 0 <= ct <= 1, 0 <= c2 <= 1, 0 <= t < 0x1_0000_0000_0000_0000int,
        rn[0] == r[0], rn[1] == r[1], rn[2] == r[2], rn[3] == r[3],
        rn[4] as int + c1 * 0x1_0000_0000_0000_0000int == r[4] as int + z3,
        t + ct * 0x1_0000_0000_0000_0000int == z4 + c1,
        rn[5] as int + c2 * 0x1_0000_0000_0000_0000int == r[5] as int + t,
        rn[6] as int == c2 + ct,
    ensures r[6] == 0, r[7] == 0,
        mn_lo5(rn) + mn_p320() * (rn[5] as int + 0x1_0000_0000_0000_0000int * rn[6] as int) == (z3 + 0x1_0000_0000_0000_0000int * z4) * (r256() + mul),
        0 <= mn_lo5(rn) < mn_p320(),
{
    let zt = z3 + 0x1_0000_0000_0000_0000int * z4;
    mn_val8_h8(r);
    assert(zt * mul < mn_p128() * r256()) by(nonlinear_arith) requires 0 <= zt < mn_p128(), 0 <= mul < r256();
    assert(mn_p128() * r256() == 0x1_0000_0000_0000_0000int * 0x1_0000_0000_0000_0000int * 0x1_0000_0000_0000_0000int * 0x1_0000_0000_0000_0000int * 0x1_0000_0000_0000_0000int * 0x1_0000_0000_0000_0000int) by(compute);
    assert(r[6] == 0 && r[7] == 0);
    assert(zt * (r256() + mul) == zt * mul + r256() * zt) by(nonlinear_arith);
    assert(r256() * zt == 0x1_0000_0000_0000_0000int * (0x1_0000_0000_0000_0000int * (0x1_0000_0000_0000_0000int * (0x1_0000_0000_0000_0000int * zt)))) by(nonlinear_arith);
    let q = rn[5] as int + 0x1_0000_0000_0000_0000int * rn[6] as int;
    assert(mn_p320() * q == 0x1_0000_0000_0000_0000int * (0x1_0000_0000_0000_0000int * (0x1_0000_0000_0000_0000int * (0x1_0000_0000_0000_0000int * (0x1_0000_0000_0000_0000int * q))))) by(nonlinear_arith);
}
// low four limbs of z - s are the whole difference when it lies in [0, 2^256)
pub proof fn mn_sub4(zlo: int, z4: int, s: Seq<u64>, h: int, bo: int, rr: int)
    requires s.len() == 8, 0 <= zlo < r256(), 0 <= h < r256(), 0 <= bo <= 1,
        h - bo * r256() == zlo - val4(s.subrange(0, 4)),
        rr == zlo + r256() * z4 - val8(s), 0 <= rr < r256(),
    ensures h == rr
{
    let sh = val4(s.subrange(4, 8));
    let r = r256();
    let m = bo - z4 + sh;
    assert(r * m == r * bo - r * z4 + r * sh) by(nonlinear_arith) requires m == bo - z4 + sh;
    assert(bo * r == r * bo) by(nonlinear_arith);
    assert(h - rr == r * m);
    assert(m == 0) by(nonlinear_arith) requires -r < r * m < r;
}
//@section spec local
// ---- mod_n_from_hash: stage lemmas. Their requires/ensures are linear in the limbs and in the opaque product mn_qd(q') = q' * (N - 1),
// so that the verification condition of the exec function contains no product of variables besides the ones in the contracts of u256_mul ----
#[verifier::opaque]
pub open spec fn mn_qd(q: int) -> int { q * (N9() - 1) }
pub open spec fn mn_lo4(a: Seq<u64>) -> int { a[0] as int + 0x1_0000_0000_0000_0000int * (a[1] as int + 0x1_0000_0000_0000_0000int * (a[2] as int + 0x1_0000_0000_0000_0000int * (a[3] as int))) }
// the linear facts about the constants that the body of mod_n_from_hash needs
proof fn mn_fh_lin()
    ensures val4(SM9_ONE@) == 1, val4(SM9_N_MINUS_ONE@) == N9() - 1, 1 < N9(), N9() < r256(),
{
    mn_consts(); lemma_params9();
}
// stage 1: limbs 5,6 of zt * 2^256 + zt * mu' (zt = top 128 bits of z) are the quotient estimate q'; z - q' * (N-1) lies in [0, 2(N-1)) and below 2^256.
// The carry out of z[4] + c1 is not an argument: it is determined by z[4] and c1.
proof fn mn_fh_quot(z: Seq<u64>, z1: Seq<u64>, ra: Seq<u64>, rn: Seq<u64>, c1: int, c2: int)
    requires z.len() == 5, z1.len() == 4, ra.len() == 8, rn.len() == 8,
        z1[0] == z[3], z1[1] == z[4], z1[2] == 0, z1[3] == 0,
        val8(ra) == val4(z1) * val4(SM9_U256_N_MINUS_ONE_BARRETT_MU@),
        0 <= c1 <= 1, 0 <= c2 <= 1,
        rn[0] == ra[0], rn[1] == ra[1], rn[2] == ra[2], rn[3] == ra[3],
        rn[4] as int + c1 * 0x1_0000_0000_0000_0000int == ra[4] as int + z[3] as int,
        rn[5] as int + c2 * 0x1_0000_0000_0000_0000int == ra[5] as int + (if z[4] as int + c1 >= 0x1_0000_0000_0000_0000int { z[4] as int + c1 - 0x1_0000_0000_0000_0000int } else { z[4] as int + c1 }),
        rn[6] as int == c2 + (if z[4] as int + c1 >= 0x1_0000_0000_0000_0000int { 1int } else { 0int }),
    ensures
        0 <= val5(z) - mn_qd(rn[5] as int + 0x1_0000_0000_0000_0000int * rn[6] as int) < 2 * (N9() - 1),
        val5(z) - mn_qd(rn[5] as int + 0x1_0000_0000_0000_0000int * rn[6] as int) < r256(),
{
    mn_consts(); lemma_params9();
    let z3 = z[3] as int;
    let z4 = z[4] as int;
    let mul = val4(SM9_U256_N_MINUS_ONE_BARRETT_MU@);
    let ct: int = if z4 + c1 >= 0x1_0000_0000_0000_0000int { 1 } else { 0 };
    let t = z4 + c1 - ct * 0x1_0000_0000_0000_0000int;
    let zt = z3 + 0x1_0000_0000_0000_0000int * z4;
    let zz = val5(z);
    let d = N9() - 1;
    let qp = rn[5] as int + 0x1_0000_0000_0000_0000int * rn[6] as int;
    assert(val4(z1) == zt);
    mn_hash_mu(ra, rn, z3, z4, mul, c1, ct, c2, t);
    let mu = r256() + mul;
    assert(zz == mn_lo3(z) + mn_p192() * zt && 0 <= mn_lo3(z) < mn_p192()) by {
        assert(mn_p192() * zt == 0x1_0000_0000_0000_0000int * (0x1_0000_0000_0000_0000int * (0x1_0000_0000_0000_0000int * zt))) by(nonlinear_arith);
    }
    assert(zt * mn_p192() == mn_p192() * zt && qp * mn_p320() == mn_p320() * qp) by(nonlinear_arith);
    assert(0 <= zt < mn_p128());
    mn_hash_quot(zz, zt, mu, qp, d);
    assert(4 * mn_p192() + N9() - 1 < r256() && 4 * mn_p192() < N9() - 1) by(compute);
    reveal(mn_qd);
}
// stage 2: r = q' * (N-1) (8 limbs); the 256-bit subtraction z[0..4] - r[0..4] is the whole difference z - q' * (N-1)
proof fn mn_fh_sub(z: Seq<u64>, qp: int, rb: Seq<u64>, hv: int)
    requires z.len() == 5, rb.len() == 8,
        val8(rb) == qp * val4(SM9_N_MINUS_ONE@),
        0 <= hv < r256(),
        hv - (mn_lo4(z) - mn_lo4(rb)) == 0 || hv - (mn_lo4(z) - mn_lo4(rb)) == r256(),
        0 <= val5(z) - mn_qd(qp) < r256(),
    ensures hv == val5(z) - mn_qd(qp)
{
    mn_consts();
    reveal(mn_qd);
    let zlo = mn_lo4(z);
    let x = z[4] as int;
    assert(r256() * x == 0x1_0000_0000_0000_0000int * (0x1_0000_0000_0000_0000int * (0x1_0000_0000_0000_0000int * (0x1_0000_0000_0000_0000int * x)))) by(nonlinear_arith);
    assert(val5(z) == zlo + r256() * x);
    assert(val4(rb.subrange(0, 4)) == mn_lo4(rb));
    let bo: int = hv - (zlo - mn_lo4(rb));
    let bi: int = if bo == 0 { 0 } else { 1 };
    assert(bi * r256() == bo) by(nonlinear_arith) requires (bi == 0 && bo == 0) || (bi == 1 && bo == r256());
    lemma_val4_bounds(rb.subrange(0, 4));
    assert(0 <= zlo < r256()) by { lemma_val4_bounds(z.subrange(0, 4)); assert(val4(z.subrange(0, 4)) == zlo); }
    mn_sub4(zlo, x, rb, hv, bi, val5(z) - mn_qd(qp));
}
// stage 3: one conditional subtraction of N-1 brings z - q' * (N-1) into [0, N-1): it is z mod (N-1); adding 1 stays below N
proof fn mn_fh_final(zz: int, qp: int, h0v: int, hv: int)
    requires h0v == zz - mn_qd(qp), 0 <= h0v < 2 * (N9() - 1), 0 <= hv < r256(),
        h0v >= N9() - 1 ==> (hv == h0v - (N9() - 1) || hv == h0v - (N9() - 1) + r256()),
        h0v < N9() - 1 ==> hv == h0v,
    ensures hv == zz % (N9() - 1), 0 <= hv < N9() - 1, (hv + 1) % N9() == hv + 1,
{
    lemma_params9();
    reveal(mn_qd);
    let d = N9() - 1;
    let e: int = if h0v >= d { 1 } else { 0 };
    assert(d < r256() && r256() < 2 * d && d > 0) by(compute);
    assert(hv == h0v - e * d);
    assert(0 <= hv < d);
    assert(zz == hv + (qp + e) * d) by(nonlinear_arith) requires hv == zz - qp * d - e * d;
    mn_mod_add_mult(hv, qp + e, d);
    mn_small_mod(hv, d);
    mn_small_mod(hv + 1, N9());
}
// ---- mod_n_mul: stage lemmas (same layout as for mod_n_from_hash: the body of the exec function only sees linear facts) ----
// q' = limbs 5..8 of floor(z / 2^192) * mu is the quotient estimate (its fifth limb h[9] is zero); s = q' * N; z - s lies in [0, 2N) and is congruent to a * b
proof fn mn_mm_quot(a: Seq<u64>, b: Seq<u64>, z: Seq<u64>, z1: Seq<u64>, h: Seq<u64>, h1: Seq<u64>, s: Seq<u64>)
    requires a.len() == 4, b.len() == 4, z.len() == 8, z1.len() == 5, h.len() == 10, h1.len() == 4, s.len() == 8,
        val4(a) < N9(), val4(b) < N9(),
        val8(z) == val4(a) * val4(b),
        z1[0] == z[3], z1[1] == z[4], z1[2] == z[5], z1[3] == z[6], z1[4] == z[7],
        val10(h) == val5(z1) * val5(SM9_N_BARRETT_MU@),
        h1[0] == h[5], h1[1] == h[6], h1[2] == h[7], h1[3] == h[8],
        val8(s) == val4(h1) * val4(SM9_N@),
    ensures h[9] == 0, 0 <= val8(z) - val8(s) < 2 * N9(),
        (val8(z) - val8(s)) % N9() == (val4(a) * val4(b)) % N9(),
        val4(SM9_N@) == N9(), 0 < N9(), N9() < r256(), r256() < 2 * N9(), 2 * r256() < mn_p320(),
{
    mn_consts(); lemma_params9();
    lemma_val4_bounds(a); lemma_val4_bounds(b); lemma_val4_bounds(h1);
    let n = N9();
    let mu = val5(SM9_N_BARRETT_MU@);
    let av = val4(a); let bv = val4(b); let zz = val8(z);
    let qp = mn_hi5(h);
    assert(zz < n * n) by(nonlinear_arith) requires zz == av * bv, 0 <= av < n, 0 <= bv < n;
    assert(zz >= 0) by(nonlinear_arith) requires zz == av * bv, 0 <= av, 0 <= bv;
    mn_split8(z);
    assert(z1 =~= z.subrange(3, 8));
    mn_split10(h);
    assert(val5(z1) * mn_p192() == mn_p192() * val5(z1) && qp * mn_p320() == mn_p320() * qp) by(nonlinear_arith);
    mn_mul_quot(zz, val5(z1), mu, qp, n);
    // q' < N < 2^256: the fifth limb of the quotient estimate is zero
    assert(qp == val4(h1) + r256() * h[9] as int) by {
        let x = h[9] as int;
        assert(r256() * x == 0x1_0000_0000_0000_0000int * (0x1_0000_0000_0000_0000int * (0x1_0000_0000_0000_0000int * (0x1_0000_0000_0000_0000int * x)))) by(nonlinear_arith);
    }
    let h9 = h[9] as int;
    assert(h9 == 0) by(nonlinear_arith) requires r256() * h9 < r256(), r256() > 0, h9 >= 0;
    assert(val8(s) == qp * n);
    let rr = zz - val8(s);
    assert(rr + qp * n == zz);
    mn_mod_add_mult(rr, qp, n);
    assert(mn_p320() > 2 * r256()) by(compute);
}
// the conditional final subtraction: r is (z - s) mod N
proof fn mn_mm_final(r0v: int, rv: int, s4: int, rr: int, took: bool)
    requires r0v + r256() * s4 == rr, 0 <= s4, 0 <= rr < 2 * N9(), 0 <= r0v < r256(), 0 <= rv < r256(),
        took == (s4 > 0 || r0v >= N9()),
        took ==> (rv == r0v - N9() || rv == r0v - N9() + r256()),
        !took ==> rv == r0v,
    ensures rv == rr % N9(), 0 <= rv < N9(),
{
    lemma_params9();
    let n = N9();
    mn_final_sub(r0v, rv, s4, rr, n, took);
    let e: int = if took { 1 } else { 0 };
    assert(rr == rv + e * n);
    mn_mod_add_mult(rv, e, n);
    mn_small_mod(rv, n);
}
//@section code gm-sm9/src/fields.rs
#[verifier::spinoff_prover]
fn mod_n_add(a: &U256, b: &U256) -> (r: U256)
    requires val4(a@) + val4(b@) < r256() + N9()
    ensures val4(r@) % N9() == (val4(a@) + val4(b@)) % N9(),
        val4(a@) + val4(b@) < 2 * N9() ==> val4(r@) == (val4(a@) + val4(b@)) % N9(),
{
    let (r, c) = u256_add(a, b);
    proof {
        mn_lin();
        lemma_val4_bounds(a@); lemma_val4_bounds(b@); lemma_val4_bounds(r@);
        mn_d_digits_any(a@, b@, r@); mn_d_digits_any(a@, a@, r@); mn_d_digits_any(b@, b@, r@);
        // boundary point of the comparison below
        if val4(r@) == val4(SM9_N@) { lemma_val4_inj(r@, SM9_N@); }
        // the results of the corrections below cannot be named: give the digit rows for every candidate
        assert forall|d: Seq<u64>| d.len() == 4 && #[trigger] val4(d) >= 0 implies mn_d_any_dig(r@, SM9_N_NEG@, d) && mn_d_any_dig(r@, SM9_N@, d)
            && mn_d_any_dig(a@, SM9_N_NEG@, d) && mn_d_any_dig(a@, SM9_N@, d) && mn_d_any_dig(b@, SM9_N_NEG@, d) && mn_d_any_dig(b@, SM9_N@, d) by {
            mn_d_digits_any(r@, SM9_N_NEG@, d); mn_d_digits_any(r@, SM9_N@, d);
            mn_d_digits_any(a@, SM9_N_NEG@, d); mn_d_digits_any(a@, SM9_N@, d); mn_d_digits_any(b@, SM9_N_NEG@, d); mn_d_digits_any(b@, SM9_N@, d); // (a wrong first operand)
        }
        mn_add_post(val4(a@) + val4(b@));
    }
    if c {
        
        return u256_add(&r, &SM9_N_NEG).0;
    }
    if u256_cmp(&r, &SM9_N) >= 0 {
        return u256_sub(&r, &SM9_N).0;
    }
    r
}

#[verifier::spinoff_prover]
fn mod_n_sub(a: &U256, b: &U256) -> (r: U256)
    requires val4(a@) < N9(), val4(b@) < N9()
    ensures val4(r@) == (val4(a@) - val4(b@)) % N9(),
{
    let (mut r, c) = u256_sub(a, b);
    let ghost r0 = r@;
    proof {
        mn_lin();
        lemma_val4_bounds(a@); lemma_val4_bounds(b@); lemma_val4_bounds(r0);
        mn_d_digits_any(a@, b@, r0); mn_d_digits_any(a@, a@, r0); mn_d_digits_any(b@, b@, r0);
    }
    if c {
        r = u256_sub(&r, &SM9_N_NEG).0
    }
    proof {
        lemma_val4_bounds(r@);
        mn_d_digits_any(r0, SM9_N_NEG@, r@);
        mn_d_digits_any(a@, SM9_N_NEG@, r@); mn_d_digits_any(b@, SM9_N_NEG@, r@); // (a wrong first operand)
        // one call per case of the code, so that a wrong case is refuted under its own path condition
        if c { mn_sub_post(val4(a@), val4(b@), val4(r0), val4(r@), c); } else { mn_sub_post(val4(a@), val4(b@), val4(r0), val4(r@), c); }
    }
    r
}

fn u320_mul(a: &[u64; 5], b: &[u64; 5]) -> (ret: [u64; 10])
    ensures val10(ret@) == val5(a@) * val5(b@)
{
    let mut a_: [u64; 10] = [0; 10];
    let mut b_: [u64; 10] = [0; 10];
    let mut ret: [u64; 10] = [0; 10];
    let mut s: [u64; 20] = [0; 20];

    for i in 0..5
        invariant
            forall|k: int| 0 <= k < 20 ==> s[k] == 0,
            forall|k: int| 0 <= k < i ==> mn_split_at(a_@, a@, k),
            forall|k: int| 0 <= k < i ==> mn_split_at(b_@, b@, k),
    {
        let ghost a0 = a_@;
        let ghost b0 = b_@;
        proof {
            let x = a[i as int];
            let y = b[i as int];
            assert((x & 0xffffffff) < 0x1_0000_0000 && (x >> 32) < 0x1_0000_0000 && (x & 0xffffffff) + 0x1_0000_0000 * (x >> 32) == x) by(bit_vector);
            assert((y & 0xffffffff) < 0x1_0000_0000 && (y >> 32) < 0x1_0000_0000 && (y & 0xffffffff) + 0x1_0000_0000 * (y >> 32) == y) by(bit_vector);
        }
        a_[2 * i] = a[i] & 0xffffffff;
        b_[2 * i] = b[i] & 0xffffffff;
        a_[2 * i + 1] = a[i] >> 32;
        b_[2 * i + 1] = b[i] >> 32;
        proof {
            assert forall|k: int| 0 <= k < i + 1 implies mn_split_at(a_@, a@, k) by {
                if k < i { assert(mn_split_at(a0, a@, k)); assert(a_[2 * k] == a0[2 * k] && a_[2 * k + 1] == a0[2 * k + 1]); }
            }
            assert forall|k: int| 0 <= k < i + 1 implies mn_split_at(b_@, b@, k) by {
                if k < i { assert(mn_split_at(b0, b@, k)); assert(b_[2 * k] == b0[2 * k] && b_[2 * k + 1] == b0[2 * k + 1]); }
            }
        }
    }
    proof {
        assert(mn_split_at(a_@, a@, 0) && mn_split_at(a_@, a@, 1) && mn_split_at(a_@, a@, 2) && mn_split_at(a_@, a@, 3) && mn_split_at(a_@, a@, 4));
        assert(mn_split_at(b_@, b@, 0) && mn_split_at(b_@, b@, 1) && mn_split_at(b_@, b@, 2) && mn_split_at(b_@, b@, 3) && mn_split_at(b_@, b@, 4));
        assert(forall|k: int| 0 <= k < 10 ==> a_[k] < 0x1_0000_0000 && b_[k] < 0x1_0000_0000);
        mn_digits10(a_@, a@);
        mn_digits10(b_@, b@);
        mn_val32_zero(s@, 20);
    }

    let mut u = 0;
    for i in 0..10
        invariant
            forall|k: int| 0 <= k < 10 ==> a_[k] < 0x1_0000_0000 && b_[k] < 0x1_0000_0000,
            forall|k: int| 0 <= k < 20 ==> s[k] < 0x1_0000_0000,
            forall|k: int| i + 10 <= k < 20 ==> s[k] == 0,
            mn_val32(s@, 20) == mn_rows(a_@, b_@, i as int, 10),
    {
        u = 0;
        for j in 0..10
            invariant
                0 <= i < 10,
                forall|k: int| 0 <= k < 10 ==> a_[k] < 0x1_0000_0000 && b_[k] < 0x1_0000_0000,
                forall|k: int| 0 <= k < 20 ==> s[k] < 0x1_0000_0000,
                forall|k: int| i + 10 <= k < 20 ==> s[k] == 0,
                u < 0x1_0000_0000,
                mn_val32(s@, 20) + u as int * mn_pow32(i as int + j as int) == mn_rows(a_@, b_@, i as int, 10) + mn_rowsum(a_[i as int] as int, b_@, i as int, j as int),
        {
            let ghost s_old = s@;
            let ghost u_old = u as int;
            proof {
                assert(a_[i as int] as int * b_[j as int] as int <= 0xffff_ffffint * 0xffff_ffffint) by(nonlinear_arith)
                    requires a_[i as int] < 0x1_0000_0000, b_[j as int] < 0x1_0000_0000;
            }
            u = s[i + j] + a_[i] * b_[j] + u;
            let ghost t = u as int;
            s[i + j] = u & 0xffffffff;
            u >>= 32;
            proof {
                let tt = t as u64;
                assert((tt & 0xffffffff) + (tt >> 32) * 0x1_0000_0000 == tt && (tt & 0xffffffff) < 0x1_0000_0000 && (tt >> 32) < 0x1_0000_0000) by(bit_vector);
                let k = i as int + j as int;
                mn_val32_update(s_old, k, s[k], 20);
                mn_pow32_pos(k);
                assert(mn_pow32(k + 1) == 0x1_0000_0000int * mn_pow32(k));
                mn_step(s_old[k] as int, a_[i as int] as int * b_[j as int] as int, u_old, s[k] as int, u as int, mn_pow32(k));
                assert(mn_rowsum(a_[i as int] as int, b_@, i as int, j as int + 1)
                    == mn_rowsum(a_[i as int] as int, b_@, i as int, j as int) + (a_[i as int] as int) * (b_[j as int] as int) * mn_pow32(k));
            }
        }
        let ghost s_old = s@;
        s[i + 10] = u;
        proof {
            mn_val32_update(s_old, i as int + 10, u, 20);
            assert(mn_rows(a_@, b_@, i as int + 1, 10) == mn_rows(a_@, b_@, i as int, 10) + mn_rowsum(a_[i as int] as int, b_@, i as int, 10));
        }
    }
    proof {
        mn_rows_lemma(a_@, b_@, 10, 10);
    }

    for i in 0..10
        invariant
            forall|k: int| 0 <= k < 20 ==> s[k] < 0x1_0000_0000,
            forall|k: int| 0 <= k < i ==> mn_join_at(ret@, s@, k),
    {
        let ghost r0 = ret@;
        proof {
            let x = s[2 * i as int];
            let y = s[2 * i as int + 1];
            assert(((y << 32) | x) == x + 0x1_0000_0000 * y) by(bit_vector) requires x < 0x1_0000_0000, y < 0x1_0000_0000;
        }
        ret[i] = (s[2 * i + 1] << 32) | s[2 * i];
        proof {
            assert forall|k: int| 0 <= k < i + 1 implies mn_join_at(ret@, s@, k) by {
                if k < i { assert(mn_join_at(r0, s@, k)); assert(ret[k] == r0[k]); }
            }
        }
    }
    proof {
        assert(mn_join_at(ret@, s@, 0) && mn_join_at(ret@, s@, 1) && mn_join_at(ret@, s@, 2) && mn_join_at(ret@, s@, 3) && mn_join_at(ret@, s@, 4)
            && mn_join_at(ret@, s@, 5) && mn_join_at(ret@, s@, 6) && mn_join_at(ret@, s@, 7) && mn_join_at(ret@, s@, 8) && mn_join_at(ret@, s@, 9));
        mn_digits20(s@, ret@);
    }
    ret
}

fn mod_n_mul(a: &U256, b: &U256) -> (r: U256)
    requires val4(a@) < N9(), val4(b@) < N9()
    ensures val4(r@) == (val4(a@) * val4(b@)) % N9(),
{
    let mut r = [0, 0, 0, 0];

    let z = u256_mul(a, b);

    
    let z1: [u64; 5] = [z[3], z[4], z[5], z[6], z[7]];
    let h = u320_mul(&z1, &SM9_N_BARRETT_MU);

    
    let h1: [u64; 4] = [h[5], h[6], h[7], h[8]];
    let mut s = u256_mul(&h1, &SM9_N);
    let ghost s0 = s@;
    proof {
        mn_mm_quot(a@, b@, z@, z1@, h@, h1@, s0);
        assert(SM9_N[0] * h[9] == 0);
    }

    s[4] += SM9_N[0] * h[9];
    proof { assert(s@ =~= s0); }

    let mut carry = 0;
    let (t0, overflow) = z[0].overflowing_sub(s[0]);
    r[0] = t0;
    carry = overflow as u64;
    let ghost o0 = carry as int;

    let (t1, overflow) = z[1].overflowing_sub(carry);
    let (t1, overflow2) = t1.overflowing_sub(s[1]);
    r[1] = t1;
    carry = (overflow || overflow2) as u64;
    let ghost o1 = carry as int;

    let (t2, overflow) = z[2].overflowing_sub(carry);
    let (t2, overflow2) = t2.overflowing_sub(s[2]);
    r[2] = t2;
    carry = (overflow || overflow2) as u64;
    let ghost o2 = carry as int;

    let (t3, overflow) = z[3].overflowing_sub(carry);
    let (t3, overflow2) = t3.overflowing_sub(s[3]);
    r[3] = t3;
    carry = (overflow || overflow2) as u64;
    let ghost o3 = carry as int;

    
    let (t4, overflow) = z[4].overflowing_sub(carry);
    let ghost w: int = if (t4 as int) < (s[4] as int) { 1 } else { 0 };
    let ghost k: int = (if overflow { 1int } else { 0 }) + w;
    s[4] = t4.wrapping_sub(s[4]);
    let ghost rr = val8(z@) - val8(s0);
    let ghost r0 = r@;
    proof {
        assert(mn_p320() > 2 * r256()) by(compute);
        mn_sub5(z@, s0, r@, s[4] as int, o0, o1, o2, o3, k, rr);
        lemma_val4_bounds(r@);
    }

    if s[4] > 0 || u256_cmp(&r, &SM9_N) >= 0 {
        r = u256_sub(&r, &SM9_N).0;
    }
    proof {
        lemma_val4_bounds(r@);
        mn_mm_final(val4(r0), val4(r@), s[4] as int, rr, s[4] > 0 || val4(r0) >= N9());
    }
    r
}

fn mod_n_pow(a: &U256, e: &U256) -> (r: U256)
    requires val4(a@) < N9()
    ensures val4(r@) == pow_mod(val4(a@), val4(e@) as nat, N9()),
{
    let mut r = SM9_ONE;
    let ghost av = val4(a@);
    let ghost mut acc: int = 0;
    proof {
        mn_consts(); lemma_params9();
        mn_small_mod(1, N9());
        mn_top4(e@);
    }
    for i in it: (0..4).rev()
        invariant
            val4(r@) < N9(), val4(a@) == av, av < N9(),
            acc >= 0, acc == mn_top(e@, it.index@ as int),
            val4(r@) == pow_mod(av, acc as nat, N9()),
    {
        let mut w = e[i];
        let ghost x = acc * 0x1_0000_0000_0000_0000int + w as int;
        let ghost mut m: int = 1;
        for _ in jt: 0..64
            invariant
                val4(r@) < N9(), val4(a@) == av, av < N9(),
                acc >= 0, m == mn_p2(jt.index@ as nat),
                acc * 0x1_0000_0000_0000_0000int + w as int == x * m,
                val4(r@) == pow_mod(av, acc as nat, N9()),
        {
            let ghost w0 = w;
            r = mod_n_mul(&r, &r);
            proof {
                lemma_params9();
                mn_pow_add(av, acc as nat, acc as nat, N9());
                mn_bits(w0);
                assert((2 * acc) as nat == (acc as nat) + (acc as nat));
                lemma_mod_bound(pow_mod(av, acc as nat, N9()) * pow_mod(av, acc as nat, N9()), N9());
            }
            if w & 0x8000000000000000 != 0 {
                r = mod_n_mul(&r, a);
                proof {
                    assert(((2 * acc + 1) as nat - 1) as nat == (2 * acc) as nat);
                    assert(pow_mod(av, (2 * acc + 1) as nat, N9()) == (pow_mod(av, (2 * acc) as nat, N9()) * av) % N9());
                    lemma_mod_bound(pow_mod(av, (2 * acc) as nat, N9()) * av, N9());
                }
            }
            w <<= 1;
            proof {
                let bit: int = if w0 >= 0x8000000000000000u64 { 1 } else { 0 };
                assert(x * (2 * m) == 2 * (x * m)) by(nonlinear_arith);
                acc = 2 * acc + bit;
                m = 2 * m;
            }
        }
        proof {
            mn_p2_64();
            assert(x * m == x * 0x1_0000_0000_0000_0000int);
            assert(acc == x);
            assert(mn_top(e@, it.index@ as int + 1) == mn_top(e@, it.index@ as int) * 0x1_0000_0000_0000_0000int + e@[4 - (it.index@ as int + 1)] as int);
        }
    }
    proof { mn_top4(e@); }
    r
}

fn mod_n_inv(a: &U256) -> (r: U256)
    requires val4(a@) < N9()
    ensures val4(r@) == inv_n9(val4(a@)),
{
    proof { mn_consts(); lemma_params9(); }
    mod_n_pow(a, &SM9_N_MINUS_TWO)
}

fn mod_n_from_hash(ha: &[u8]) -> (h: U256)
    requires ha@.len() >= 40 //@carveout D41
    ensures val4(h@) == be_val(ha@.subrange(0, 40)) % (N9() - 1) + 1,
{
    let mut h = SM9_ONE;
    let mut z: [u64; 5] = [0; 5];
    for i in 0..5
        invariant ha@.len() >= 40,
            forall|k: int| 5 - i <= k < 5 ==> z[k] as int == be_val(#[trigger] ha@.subrange(8 * (4 - k), 8 * (4 - k) + 8)),
    {
        z[4 - i] = getu64(&ha[8 * i..]);
        proof {
            assert(ha@.subrange(8 * i as int, ha@.len() as int).subrange(0, 8) =~= ha@.subrange(8 * (4 - (4 - i as int)), 8 * (4 - (4 - i as int)) + 8));
        }
    }
    let ghost zz = val5(z@);
    proof {
        let b = ha@.subrange(0, 40);
        mn_be_val_40(b);
        assert(b.subrange(0, 8) =~= ha@.subrange(8 * (4 - 4), 8 * (4 - 4) + 8));
        assert(b.subrange(8, 16) =~= ha@.subrange(8 * (4 - 3), 8 * (4 - 3) + 8));
        assert(b.subrange(16, 24) =~= ha@.subrange(8 * (4 - 2), 8 * (4 - 2) + 8));
        assert(b.subrange(24, 32) =~= ha@.subrange(8 * (4 - 1), 8 * (4 - 1) + 8));
        assert(b.subrange(32, 40) =~= ha@.subrange(8 * (4 - 0), 8 * (4 - 0) + 8));
        assert(zz == be_val(b));
    }

    let z1 = [z[3], z[4], 0, 0];
    let mut r = u256_mul(&z1, &SM9_U256_N_MINUS_ONE_BARRETT_MU);
    let ghost ra = r@;

    let (sum1, carry1) = r[4].overflowing_add(z[3]);
    r[4] = sum1;
    let (t, carry_t) = z[4].overflowing_add(carry1 as u64);
    let (sum2, carry2) = r[5].overflowing_add(t);
    r[5] = sum2;
    r[6] = carry2 as u64 + carry_t as u64;
    let ghost qp = r[5] as int + 0x1_0000_0000_0000_0000int * r[6] as int;
    proof {
        mn_fh_quot(z@, z1@, ra, r@, if carry1 { 1int } else { 0 }, if carry2 { 1int } else { 0 });
    }

    r = u256_mul(&[r[5], r[6], 0, 0], &SM9_N_MINUS_ONE);
    let ghost rb = r@;
    h = u256_sub(&[z[0], z[1], z[2], z[3]], &[r[0], r[1], r[2], r[3]]).0;
    proof {
        mn_fh_lin();
        lemma_val4_bounds(h@);
        mn_sub_digits(z@.subrange(0, 4), rb.subrange(0, 4), h@);
        mn_fh_sub(z@, qp, rb, val4(h@));
    }
    let ghost h0 = h@;
    proof {
        // boundary point of the comparison below: hand the limbs of h to the solver (val4 is injective), so that a wrong
        // comparison is refuted by a concrete witness instead of a digit search
        if val4(h0) == val4(SM9_N_MINUS_ONE@) { lemma_val4_inj(h0, SM9_N_MINUS_ONE@); }
    }
    
    if u256_cmp(&h, &SM9_N_MINUS_ONE) >= 0 {
        h = u256_sub(&h, &SM9_N_MINUS_ONE).0;
    }
    proof {
        lemma_val4_bounds(h@);
        mn_fh_final(zz, qp, val4(h0), val4(h@));
    }
    h = mod_n_add(&h, &SM9_ONE);
    h
}
fn getu64(bytes: &[u8]) -> (r: u64)
    requires bytes@.len() >= 8
    ensures r as int == be_val(bytes@.subrange(0, 8)),
{
    let mut arr = [0u8; 8];
    arr.copy_from_slice(&bytes[..8]);
    proof { assert(arr@ =~= bytes@.subrange(0, 8)); }
    shim_from_be_u64(&arr)
}
