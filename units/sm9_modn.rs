//@unit sm9_modn
//@serves C09 C10 C13 C16 C17
//@source gm-sm9/src/fields.rs
//@rewrite be
//@assume shim_from_be_u64: u64::from_be_bytes is the big-endian conversion (external_body shim whose body is the replaced std call)
//@include-spec sm2_math
//@include-spec sm9_math
//@section code gm-sm9/src/u256.rs
type U256 = [u64; 4];
type U512 = [u64; 8];
const SM9_ONE: U256 = [1, 0, 0, 0];
//@stub sm9_limbs u256_add
//@stub sm9_limbs u256_sub
//@stub sm9_limbs u256_mul
//@stub sm9_limbs u256_cmp
//@section code gm-sm9/src/lib.rs
const SM9_N: U256 = [
    0xe56ee19cd69ecf25,
    0x49f2934b18ea8bee,
    0xd603ab4ff58ec744,
    0xb640000002a3a6f1,
];
const SM9_N_NEG: U256 = [
    0x1a911e63296130db,
    0xb60d6cb4e7157411,
    0x29fc54b00a7138bb,
    0x49bffffffd5c590e,
];
const SM9_N_MINUS_ONE: U256 = [
    0xe56ee19cd69ecf24,
    0x49f2934b18ea8bee,
    0xd603ab4ff58ec744,
    0xb640000002a3a6f1,
];
const SM9_N_MINUS_TWO: U256 = [
    0xe56ee19cd69ecf23,
    0x49f2934b18ea8bee,
    0xd603ab4ff58ec744,
    0xb640000002a3a6f1,
];
const SM9_N_BARRETT_MU: [u64; 5] = [
    0x74df4fd4dfc97c2f,
    0x9c95d85ec9c073b0,
    0x55f73aebdcd1312c,
    0x67980e0beb5759a6,
    0x1,
];
const SM9_U256_N_MINUS_ONE_BARRETT_MU: [u64; 4] = [
    0x74df4fd4dfc97c31,
    0x9c95d85ec9c073b0,
    0x55f73aebdcd1312c,
    0x67980e0beb5759a6,
];

//@section spec
use vstd::arithmetic::div_mod::*;
use vstd::arithmetic::mul::*;
#[verifier::external_body]
fn shim_from_be_u64(b: &[u8]) -> (r: u64) requires b@.len() == 8 ensures r as int == be_val(b@) { u64::from_be_bytes(b.try_into().unwrap()) }
// little-endian limb values of 5 and 10 limbs, Horner form with the literal 2^64
pub open spec fn val5(a: Seq<u64>) -> int {
    a[0] as int + 0x1_0000_0000_0000_0000int * (a[1] as int + 0x1_0000_0000_0000_0000int * (a[2] as int + 0x1_0000_0000_0000_0000int * (a[3] as int + 0x1_0000_0000_0000_0000int * (a[4] as int))))
}
pub open spec fn val10(a: Seq<u64>) -> int {
    a[0] as int + 0x1_0000_0000_0000_0000int * (a[1] as int + 0x1_0000_0000_0000_0000int * (a[2] as int + 0x1_0000_0000_0000_0000int * (a[3] as int + 0x1_0000_0000_0000_0000int * (a[4] as int
    + 0x1_0000_0000_0000_0000int * (a[5] as int + 0x1_0000_0000_0000_0000int * (a[6] as int + 0x1_0000_0000_0000_0000int * (a[7] as int + 0x1_0000_0000_0000_0000int * (a[8] as int + 0x1_0000_0000_0000_0000int * (a[9] as int)))))))))
}
//@section code gm-sm9/src/fields.rs
#[verifier::external_body]
fn mod_n_add(a: &U256, b: &U256) -> (r: U256)
    requires val4(a@) + val4(b@) < r256() + N9()
    ensures val4(r@) % N9() == (val4(a@) + val4(b@)) % N9(),
        val4(a@) + val4(b@) < 2 * N9() ==> val4(r@) == (val4(a@) + val4(b@)) % N9(),
{
    let (r, c) = u256_add(a, b);
    if c {
        
        return u256_add(&r, &SM9_N_NEG).0;
    }
    if u256_cmp(&r, &SM9_N) >= 0 {
        return u256_sub(&r, &SM9_N).0;
    }
    r
}

#[verifier::external_body]
fn mod_n_sub(a: &U256, b: &U256) -> (r: U256)
    requires val4(a@) < N9(), val4(b@) < N9()
    ensures val4(r@) == (val4(a@) - val4(b@)) % N9(),
{
    let (mut r, c) = u256_sub(a, b);
    if c {
        r = u256_sub(&r, &SM9_N_NEG).0
    }
    r
}

#[verifier::external_body]
fn u320_mul(a: &[u64; 5], b: &[u64; 5]) -> (ret: [u64; 10])
    ensures val10(ret@) == val5(a@) * val5(b@)
{
    let mut a_: [u64; 10] = [0; 10];
    let mut b_: [u64; 10] = [0; 10];
    let mut ret: [u64; 10] = [0; 10];
    let mut s: [u64; 20] = [0; 20];

    for i in 0..5 {
        a_[2 * i] = a[i] & 0xffffffff;
        b_[2 * i] = b[i] & 0xffffffff;
        a_[2 * i + 1] = a[i] >> 32;
        b_[2 * i + 1] = b[i] >> 32;
    }

    let mut u = 0;
    for i in 0..10 {
        u = 0;
        for j in 0..10 {
            u = s[i + j] + a_[i] * b_[j] + u;
            s[i + j] = u & 0xffffffff;
            u >>= 32;
        }
        s[i + 10] = u;
    }

    for i in 0..10 {
        ret[i] = (s[2 * i + 1] << 32) | s[2 * i];
    }
    ret
}

#[verifier::external_body]
fn mod_n_mul(a: &U256, b: &U256) -> (r: U256)
    requires val4(a@) < N9(), val4(b@) < N9()
    ensures val4(r@) == (val4(a@) * val4(b@)) % N9(),
{
    let mut r = [0, 0, 0, 0];

    let z = u256_mul(a, b);

    
    let z1: [u64; 5] = [z[3], z[4], z[5], z[6], z[7]];
    let h = u320_mul(&z1, &SM9_N_BARRETT_MU);

    
    let h1: [u64; 4] = [h[5], h[6], h[7], h[8]];
    let mut s = u256_mul(&h1, &SM9_N);

    s[4] += SM9_N[0] * h[9];

    let mut carry = 0;
    let (t0, overflow) = z[0].overflowing_sub(s[0]);
    r[0] = t0;
    carry = overflow as u64;

    let (t1, overflow) = z[1].overflowing_sub(carry);
    let (t1, overflow2) = t1.overflowing_sub(s[1]);
    r[1] = t1;
    carry = (overflow || overflow2) as u64;

    let (t2, overflow) = z[2].overflowing_sub(carry);
    let (t2, overflow2) = t2.overflowing_sub(s[2]);
    r[2] = t2;
    carry = (overflow || overflow2) as u64;

    let (t3, overflow) = z[3].overflowing_sub(carry);
    let (t3, overflow2) = t3.overflowing_sub(s[3]);
    r[3] = t3;
    carry = (overflow || overflow2) as u64;

    
    let (t4, overflow) = z[4].overflowing_sub(carry);
    s[4] = t4.wrapping_sub(s[4]);

    if s[4] > 0 || u256_cmp(&r, &SM9_N) >= 0 {
        r = u256_sub(&r, &SM9_N).0;
    }
    r
}

#[verifier::external_body]
fn mod_n_pow(a: &U256, e: &U256) -> (r: U256)
    requires val4(a@) < N9()
    ensures val4(r@) == pow_mod(val4(a@), val4(e@) as nat, N9()),
{
    let mut r = SM9_ONE;
    for i in (0..4).rev() {
        let mut w = e[i];
        for _ in 0..64 {
            r = mod_n_mul(&r, &r);
            if w & 0x8000000000000000 != 0 {
                r = mod_n_mul(&r, a);
            }
            w <<= 1;
        }
    }
    r
}

#[verifier::external_body]
fn mod_n_inv(a: &U256) -> (r: U256)
    requires val4(a@) < N9()
    ensures val4(r@) == inv_n9(val4(a@)),
{
    mod_n_pow(a, &SM9_N_MINUS_TWO)
}

#[verifier::external_body]
fn mod_n_from_hash(ha: &[u8]) -> (h: U256)
    requires ha@.len() >= 40
    ensures val4(h@) == be_val(ha@.subrange(0, 40)) % (N9() - 1) + 1,
{
    let mut h = SM9_ONE;
    let mut z: [u64; 5] = [0; 5];
    for i in 0..5 {
        z[4 - i] = getu64(&ha[8 * i..]);
    }

    let z1 = [z[3], z[4], 0, 0];
    let mut r = u256_mul(&z1, &SM9_U256_N_MINUS_ONE_BARRETT_MU);

    let (sum1, carry1) = r[4].overflowing_add(z[3]);
    r[4] = sum1;
    let (t, carry_t) = z[4].overflowing_add(carry1 as u64);
    let (sum2, carry2) = r[5].overflowing_add(t);
    r[5] = sum2;
    r[6] = carry2 as u64 + carry_t as u64;

    r = u256_mul(&[r[5], r[6], 0, 0], &SM9_N_MINUS_ONE);
    h = u256_sub(&[z[0], z[1], z[2], z[3]], &[r[0], r[1], r[2], r[3]]).0;
    
    if u256_cmp(&h, &SM9_N_MINUS_ONE) >= 0 {
        h = u256_sub(&h, &SM9_N_MINUS_ONE).0;
    }
    h = mod_n_add(&h, &SM9_ONE);
    h
}

#[verifier::external_body]
fn getu64(bytes: &[u8]) -> (r: u64)
    requires bytes@.len() >= 8
    ensures r as int == be_val(bytes@.subrange(0, 8)),
{
    let mut arr = [0u8; 8];
    arr.copy_from_slice(&bytes[..8]);
    shim_from_be_u64(&arr)
}
