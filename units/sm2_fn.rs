//@unit sm2_fn
//@serves C03 C04 C11 C15 C20
//@source gm-sm2/src/fields/fn64.rs
//@include-spec sm2_math
//@section code gm-sm2/src/u256.rs
type U256 = [u64; 4];
type U512 = [u64; 8];
const SM2_ONE: U256 = [1, 0, 0, 0];
//@stub sm2_limbs u256_add
//@stub sm2_limbs u512_add
//@stub sm2_limbs u256_sub
//@stub sm2_limbs u256_mul
//@stub sm2_limbs u256_cmp
//@section code gm-sm2/src/fields/fn64.rs
const SM2_N: U256 = [
    0x53bbf40939d54123,
    0x7203df6b21c6052b,
    0xffffffffffffffff,
    0xfffffffeffffffff,
];

const SM2_N_NEG: U256 = [
    0xac440bf6c62abedd,
    0x8dfc2094de39fad4,
    0x0000000000000000,
    0x0000000100000000,
];

const SM2_N_MINUS_TWO: U256 = [
    0x53bbf40939d54121,
    0x7203df6b21c6052b,
    0xffffffffffffffff,
    0xfffffffeffffffff,
];

const SM2_N_PRIME: U256 = [
    0x327f9e8872350975,
    0xdf1e8d34fc8319a5,
    0x2b0068d3b08941d4,
    0x6f39132f82e4c7bc,
];

const SM2_MOD_N_2E512: U256 = [
    0x901192af7c114f20,
    0x3464504ade6fa2fa,
    0x620fc84c3affe0d4,
    0x1eb5e412a22b3d3b,
];


//@section spec local
// the code constants are the standard's parameters
proof fn lemma_fn_consts()
    ensures val4(SM2_N@) == N(), val4(SM2_N_NEG@) == r256() - N(), val4(SM2_N_MINUS_TWO@) == N() - 2,
        (N() * val4(SM2_N_PRIME@) + 1) % r256() == 0, val4(SM2_MOD_N_2E512@) == (r256() * r256()) % N(),
{
    assert(val4(SM2_N@) == N() && val4(SM2_N_NEG@) == r256() - N() && val4(SM2_N_MINUS_TWO@) == N() - 2) by(compute);
    assert((N() * val4(SM2_N_PRIME@) + 1) % r256() == 0) by(compute);
    assert(val4(SM2_MOD_N_2E512@) == (r256() * r256()) % N()) by(compute);
}
// Montgomery decoding mod n
pub open spec fn fne(a: Seq<u64>) -> int { (val4(a) * RINV_N()) % N() }
//@section spec
use vstd::arithmetic::div_mod::*;
// ---- small modular-arithmetic library (generic modulus m, no big constants) ----
pub proof fn fnl_small_mod(x: int, m: int) requires 0 <= x < m ensures x % m == x
{ lemma_small_mod(x as nat, m as nat); }
// (a + k*m) % m == a % m
pub proof fn fnl_mod_add_mult(a: int, k: int, m: int) requires m > 0 ensures (a + k * m) % m == a % m
{
    lemma_mod_multiples_vanish(k, a, m);
    assert(m * k + a == a + k * m) by(nonlinear_arith);
}
// congruence is preserved by multiplication
pub proof fn fnl_mod_mul_cong(a: int, b: int, c: int, m: int) requires m > 0, a % m == b % m ensures (a * c) % m == (b * c) % m
{
    lemma_mul_mod_noop_general(a, c, m);
    lemma_mul_mod_noop_general(b, c, m);
}
// Montgomery reduction core: z + ((z_lo * n') mod R) * n is divisible by R
pub proof fn fnl_mont_div(z: int, zl: int, tl: int, pp: int, pv: int, r: int)
    requires r > 0, zl == z % r, 0 <= z, tl == (zl * pp) % r, (pv * pp + 1) % r == 0,
    ensures (z + tl * pv) % r == 0
{
    let k1 = z / r;
    let k2 = (zl * pp) / r;
    let k3 = (pv * pp + 1) / r;
    lemma_fundamental_div_mod(z, r);
    lemma_fundamental_div_mod(zl * pp, r);
    lemma_fundamental_div_mod(pv * pp + 1, r);
    assert(z == k1 * r + zl) by(nonlinear_arith) requires z == r * k1 + zl;
    assert(zl * pp == k2 * r + tl) by(nonlinear_arith) requires zl * pp == r * k2 + tl;
    assert(pv * pp + 1 == k3 * r) by(nonlinear_arith) requires pv * pp + 1 == r * k3 + 0;
    assert(z + tl * pv == (k1 - k2 * pv + zl * k3) * r) by(nonlinear_arith)
        requires z == k1 * r + zl, zl * pp == k2 * r + tl, pv * pp + 1 == k3 * r;
    lemma_mod_multiples_basic(k1 - k2 * pv + zl * k3, r);
}
// the quotient (a*b + tl*n)/r is below 2n
pub proof fn fnl_mont_bound(a: int, b: int, tl: int, n: int, r: int, q: int)
    requires 0 <= a < n, 0 <= b < n, 0 <= tl < r, 0 < n < r, a * b + tl * n == r * q
    ensures 0 <= q < 2 * n
{
    assert(0 <= a * b) by(nonlinear_arith) requires 0 <= a, 0 <= b;
    assert(a * b < n * n) by(nonlinear_arith) requires 0 <= a < n, 0 <= b < n;
    assert(n * n < r * n) by(nonlinear_arith) requires 0 < n < r;
    assert(0 <= tl * n && tl * n < r * n) by(nonlinear_arith) requires 0 <= tl < r, 0 < n;
    assert(r * q < r * (2 * n)) by(nonlinear_arith) requires r * q < r * n + r * n;
    assert(q < 2 * n) by(nonlinear_arith) requires r * q < r * (2 * n), r > 0;
    assert(q >= 0) by(nonlinear_arith) requires r * q >= 0, r > 0;
}
// after the conditional subtraction: res * R == a*b (mod n)
pub proof fn fnl_mont_congr(ab: int, tl: int, q: int, e: int, res: int, n: int, r: int)
    requires n > 0, ab + tl * n == r * q, res == q - e * n
    ensures (res * r) % n == ab % n
{
    assert(res * r == ab + (tl - e * r) * n) by(nonlinear_arith) requires ab + tl * n == r * q, res == q - e * n;
    fnl_mod_add_mult(ab, tl - e * r, n);
}
// decoding: C*R == A*B (mod n), R*I == 1 (mod n)  ==>  C*I == (A*I)*(B*I) (mod n)
pub proof fn fnl_mont_decode(a: int, b: int, c: int, r: int, i: int, n: int)
    requires n > 0, (c * r) % n == (a * b) % n, (r * i) % n == 1
    ensures (c * i) % n == (((a * i) % n) * ((b * i) % n)) % n
{
    lemma_mul_mod_noop(a * i, b * i, n);
    assert((a * i) * (b * i) == (a * b) * (i * i)) by(nonlinear_arith);
    fnl_mod_mul_cong(a * b, c * r, i * i, n);
    assert((c * r) * (i * i) == (c * i) * (r * i)) by(nonlinear_arith);
    lemma_mul_mod_noop_general(c * i, r * i, n);
    assert((c * i) * 1 == c * i);
}
// c == c * (R*I) (mod n)
pub proof fn fnl_cancel(c: int, r: int, i: int, n: int)
    requires n > 0, (r * i) % n == 1
    ensures (c * (r * i)) % n == c % n, ((c * r) * i) % n == c % n, ((c * i) * r) % n == c % n
{
    lemma_mul_mod_noop_general(c, r * i, n);
    assert(c * 1 == c);
    assert((c * r) * i == c * (r * i)) by(nonlinear_arith);
    assert((c * i) * r == c * (r * i)) by(nonlinear_arith);
}
// encoding: (a*I) * ((R*R mod n)*I) == a (mod n)
pub proof fn fnl_to_mont(a: int, r: int, i: int, n: int)
    requires n > 0, 0 <= a < n, (r * i) % n == 1
    ensures ((((r * r) % n) * i) % n) == r % n, (((a * i) % n) * ((((r * r) % n) * i) % n)) % n == a
{
    lemma_mul_mod_noop_general(r * r, i, n);
    fnl_cancel(r, r, i, n);
    lemma_mul_mod_noop(a * i, r, n);
    fnl_cancel(a, r, i, n);
    fnl_small_mod(a, n);
}
// ---- digit-wise form of 256-bit add/sub results (schoolbook carries/borrows). The value-level contracts of u256_add/u256_sub are single
// equations with coefficients 2^64..2^192 over twelve limbs; when an obligation is false the solver has to find limbs satisfying them and
// its integer search on those equations exhausts the resource limit. The four small rows per operation make that search immediate.
// (No precondition on which of the two operations produced r: the rows are implications.) ----
pub open spec fn fnl_bw(a: int, b: int, c: int) -> int { if a - b - c < 0 { 1int } else { 0int } }
pub open spec fn fnl_cy(a: int, b: int, c: int) -> int { if a + b + c >= 0x1_0000_0000_0000_0000int { 1int } else { 0int } }
pub open spec fn fnl_sub_dig(a: Seq<u64>, b: Seq<u64>, r: Seq<u64>) -> bool {
    let b0 = fnl_bw(a[0] as int, b[0] as int, 0);
    let b1 = fnl_bw(a[1] as int, b[1] as int, b0);
    let b2 = fnl_bw(a[2] as int, b[2] as int, b1);
    let b3 = fnl_bw(a[3] as int, b[3] as int, b2);
    r[0] as int == a[0] as int - b[0] as int + 0x1_0000_0000_0000_0000int * b0
    && r[1] as int == a[1] as int - b[1] as int - b0 + 0x1_0000_0000_0000_0000int * b1
    && r[2] as int == a[2] as int - b[2] as int - b1 + 0x1_0000_0000_0000_0000int * b2
    && r[3] as int == a[3] as int - b[3] as int - b2 + 0x1_0000_0000_0000_0000int * b3
    && (b3 == 1) == (val4(a) < val4(b))
}
pub open spec fn fnl_add_dig(a: Seq<u64>, b: Seq<u64>, r: Seq<u64>) -> bool {
    let c0 = fnl_cy(a[0] as int, b[0] as int, 0);
    let c1 = fnl_cy(a[1] as int, b[1] as int, c0);
    let c2 = fnl_cy(a[2] as int, b[2] as int, c1);
    let c3 = fnl_cy(a[3] as int, b[3] as int, c2);
    r[0] as int == a[0] as int + b[0] as int - 0x1_0000_0000_0000_0000int * c0
    && r[1] as int == a[1] as int + b[1] as int + c0 - 0x1_0000_0000_0000_0000int * c1
    && r[2] as int == a[2] as int + b[2] as int + c1 - 0x1_0000_0000_0000_0000int * c2
    && r[3] as int == a[3] as int + b[3] as int + c2 - 0x1_0000_0000_0000_0000int * c3
    && (c3 == 1) == (val4(a) + val4(b) >= r256())
}
pub open spec fn fnl_is_sub(a: Seq<u64>, b: Seq<u64>, r: Seq<u64>) -> bool { val4(r) - val4(a) + val4(b) == 0 || val4(r) - val4(a) + val4(b) == r256() }
pub open spec fn fnl_is_add(a: Seq<u64>, b: Seq<u64>, r: Seq<u64>) -> bool { val4(r) - val4(a) - val4(b) == 0 || val4(r) - val4(a) - val4(b) == -r256() }
pub proof fn fnl_sub_digits(a: Seq<u64>, b: Seq<u64>, r: Seq<u64>)
    requires a.len() == 4, b.len() == 4, r.len() == 4, fnl_is_sub(a, b, r),
    ensures fnl_sub_dig(a, b, r)
{
    lemma_val4_bounds(r); lemma_val4_bounds(a); lemma_val4_bounds(b);
    let b0 = fnl_bw(a[0] as int, b[0] as int, 0);
    let b1 = fnl_bw(a[1] as int, b[1] as int, b0);
    let b2 = fnl_bw(a[2] as int, b[2] as int, b1);
    let b3 = fnl_bw(a[3] as int, b[3] as int, b2);
    let r0 = (a[0] as int - b[0] as int + 0x1_0000_0000_0000_0000int * b0) as u64;
    let r1 = (a[1] as int - b[1] as int - b0 + 0x1_0000_0000_0000_0000int * b1) as u64;
    let r2 = (a[2] as int - b[2] as int - b1 + 0x1_0000_0000_0000_0000int * b2) as u64;
    let r3 = (a[3] as int - b[3] as int - b2 + 0x1_0000_0000_0000_0000int * b3) as u64;
    let rp = seq![r0, r1, r2, r3];
    assert(val4(rp) - b3 * r256() == val4(a) - val4(b));
    lemma_val4_bounds(rp);
    assert(val4(rp) == val4(r));
    lemma_val4_inj(r, rp);
}
pub proof fn fnl_add_digits(a: Seq<u64>, b: Seq<u64>, r: Seq<u64>)
    requires a.len() == 4, b.len() == 4, r.len() == 4, fnl_is_add(a, b, r),
    ensures fnl_add_dig(a, b, r)
{
    lemma_val4_bounds(r); lemma_val4_bounds(a); lemma_val4_bounds(b);
    let c0 = fnl_cy(a[0] as int, b[0] as int, 0);
    let c1 = fnl_cy(a[1] as int, b[1] as int, c0);
    let c2 = fnl_cy(a[2] as int, b[2] as int, c1);
    let c3 = fnl_cy(a[3] as int, b[3] as int, c2);
    let r0 = (a[0] as int + b[0] as int - 0x1_0000_0000_0000_0000int * c0) as u64;
    let r1 = (a[1] as int + b[1] as int + c0 - 0x1_0000_0000_0000_0000int * c1) as u64;
    let r2 = (a[2] as int + b[2] as int + c1 - 0x1_0000_0000_0000_0000int * c2) as u64;
    let r3 = (a[3] as int + b[3] as int + c2 - 0x1_0000_0000_0000_0000int * c3) as u64;
    let rp = seq![r0, r1, r2, r3];
    assert(val4(rp) + c3 * r256() == val4(a) + val4(b));
    lemma_val4_bounds(rp);
    assert(val4(rp) == val4(r));
    lemma_val4_inj(r, rp);
}
// rows for a given result r of an operation on a, b
pub proof fn fnl_digits(a: Seq<u64>, b: Seq<u64>, r: Seq<u64>)
    requires a.len() == 4, b.len() == 4, r.len() == 4,
    ensures fnl_is_sub(a, b, r) ==> fnl_sub_dig(a, b, r), fnl_is_add(a, b, r) ==> fnl_add_dig(a, b, r),
{
    if fnl_is_sub(a, b, r) { fnl_sub_digits(a, b, r); }
    if fnl_is_add(a, b, r) { fnl_add_digits(a, b, r); }
}
// rows for a given result r of an operation on a and any second operand (the annotation does not have to name the constant the code passes)
pub proof fn fnl_digits_any(a: Seq<u64>, r: Seq<u64>)
    requires a.len() == 4, r.len() == 4,
    ensures forall|b: Seq<u64>| #![trigger val4(b)] b.len() == 4 ==> (fnl_is_sub(a, b, r) ==> fnl_sub_dig(a, b, r)) && (fnl_is_add(a, b, r) ==> fnl_add_dig(a, b, r)),
{
    assert forall|b: Seq<u64>| #![trigger val4(b)] b.len() == 4 implies (fnl_is_sub(a, b, r) ==> fnl_sub_dig(a, b, r)) && (fnl_is_add(a, b, r) ==> fnl_add_dig(a, b, r)) by {
        fnl_digits(a, b, r);
    }
}
// rows for every result of an operation on a and any second operand
pub proof fn fnl_digits_from(a: Seq<u64>)
    requires a.len() == 4,
    ensures forall|b: Seq<u64>, r: Seq<u64>| #![trigger val4(b), val4(r)] b.len() == 4 && r.len() == 4 ==> (fnl_is_sub(a, b, r) ==> fnl_sub_dig(a, b, r)) && (fnl_is_add(a, b, r) ==> fnl_add_dig(a, b, r)),
{
    assert forall|b: Seq<u64>, r: Seq<u64>| #![trigger val4(b), val4(r)] b.len() == 4 && r.len() == 4 implies (fnl_is_sub(a, b, r) ==> fnl_sub_dig(a, b, r)) && (fnl_is_add(a, b, r) ==> fnl_add_dig(a, b, r)) by {
        fnl_digits(a, b, r);
    }
}
// residues of values below 3n without a quotient variable (the solver decides `%` terms by case split instead of a search for the quotient)
pub open spec fn fnl_red3(x: int, n: int) -> int { if x >= 2 * n { x - 2 * n } else if x >= n { x - n } else { x } }
pub proof fn fnl_mod3(x: int, n: int) requires 0 <= x < 3 * n ensures x % n == fnl_red3(x, n)
{
    fnl_mod_add_mult(x, -1, n); fnl_mod_add_mult(x, -2, n);
    fnl_small_mod(fnl_red3(x, n), n);
}
// ---- results of the add/sub reductions ----
pub proof fn fnl_add_post(a: int, b: int, v: int, n: int)
    requires 0 <= a, 0 <= b, n > 0,
        a + b >= n ==> v == a + b - n,
        a + b < n ==> v == a + b,
    ensures v % n == (a + b) % n, a + b < 2 * n ==> v == (a + b) % n,
{
    let s = a + b;
    fnl_mod_add_mult(s, -1, n);
    if 0 <= s - n < n { fnl_small_mod(s - n, n); }
    if s < n { fnl_small_mod(s, n); }
}
pub proof fn fnl_sub_post(a: int, b: int, v: int, n: int)
    requires 0 <= a < n, 0 <= b < n,
        a >= b ==> v == a - b,
        a < b ==> v == a - b + n,
    ensures v == (a - b) % n,
{
    let d = a - b;
    fnl_mod_add_mult(d, 1, n);
    if d >= 0 { fnl_small_mod(d, n); } else { fnl_small_mod(d + n, n); }
}
// ---- powers ----
pub proof fn fnl_pow_range(x: int, e: nat, m: int) requires m > 0 ensures 0 <= pow_mod(x, e, m) < m decreases e
{
    if e == 0 { lemma_mod_bound(1, m); } else { lemma_mod_bound(pow_mod(x, (e - 1) as nat, m) * x, m); }
}
pub proof fn fnl_pow_add(x: int, i: nat, j: nat, m: int) requires m > 0
    ensures pow_mod(x, i + j, m) == (pow_mod(x, i, m) * pow_mod(x, j, m)) % m
    decreases j
{
    let pi = pow_mod(x, i, m);
    fnl_pow_range(x, i, m);
    if j == 0 {
        lemma_mul_mod_noop_general(pi, 1, m);
        assert(pi * 1 == pi);
        fnl_small_mod(pi, m);
    } else {
        let pj = pow_mod(x, (j - 1) as nat, m);
        fnl_pow_add(x, i, (j - 1) as nat, m);
        assert(((i + j) - 1) as nat == i + (j - 1) as nat);
        // pow(i+j) == (((pi*pj)%m)*x)%m == (pi*pj*x)%m == (pi*((pj*x)%m))%m
        lemma_mul_mod_noop_general(pi * pj, x, m);
        assert((pi * pj) * x == pi * (pj * x)) by(nonlinear_arith);
        lemma_mul_mod_noop_general(pi, pj * x, m);
    }
}
pub open spec fn fnl_p2(j: nat) -> int decreases j { if j == 0 { 1 } else { 2 * fnl_p2((j - 1) as nat) } }
pub proof fn fnl_p2_64() ensures fnl_p2(64) == 0x1_0000_0000_0000_0000int { assert(fnl_p2(64) == 0x1_0000_0000_0000_0000int) by(compute); }
// value of the k most significant limbs
pub open spec fn fnl_top(e: Seq<u64>, k: int) -> int decreases k { if k <= 0 { 0 } else { fnl_top(e, k - 1) * 0x1_0000_0000_0000_0000int + e[4 - k] as int } }
pub proof fn fnl_top4(e: Seq<u64>) ensures fnl_top(e, 4) == val4(e), fnl_top(e, 0) == 0
{
    assert(fnl_top(e, 0) == 0);
    assert(fnl_top(e, 1) == fnl_top(e, 0) * 0x1_0000_0000_0000_0000int + e[3] as int);
    assert(fnl_top(e, 2) == fnl_top(e, 1) * 0x1_0000_0000_0000_0000int + e[2] as int);
    assert(fnl_top(e, 3) == fnl_top(e, 2) * 0x1_0000_0000_0000_0000int + e[1] as int);
    assert(fnl_top(e, 4) == fnl_top(e, 3) * 0x1_0000_0000_0000_0000int + e[0] as int);
}
pub proof fn fnl_bits(w: u64)
    ensures (w & 0x8000000000000000 != 0) == (w >= 0x8000000000000000u64),
        w < 0x8000000000000000u64 ==> (w << 1) as int == 2 * (w as int),
        w >= 0x8000000000000000u64 ==> (w << 1) as int == 2 * (w as int) - 0x1_0000_0000_0000_0000int,
{
    assert((w & 0x8000000000000000 != 0) == (w >= 0x8000000000000000u64)) by(bit_vector);
    assert(w < 0x8000000000000000u64 ==> (w << 1) == 2 * w) by(bit_vector);
    assert(w >= 0x8000000000000000u64 ==> (w << 1) == 2 * (w - 0x8000000000000000u64)) by(bit_vector);
}
//@section spec local
// ---- mont_mul: stage lemmas. Their requires/ensures are linear in the limbs apart from the products that the contracts of u256_mul state, and the
// congruence is hidden behind an opaque predicate, so that the verification condition of the exec function contains no nonlinear reasoning step
// (a wrong step is reported as the first false `requires` conjunct below) ----
#[verifier::opaque]
pub open spec fn fn_mont_quot(a: int, b: int, q: int) -> bool { (q * r256()) % N() == (a * b) % N() }
// the linear facts about the constants that the bodies of mont_mul, fn_add, fn_sub need
proof fn fnl_lin()
    ensures val4(SM2_N@) == N(), val4(SM2_N_NEG@) == r256() - N(), 0 < N(), N() < r256(), r256() < 2 * N(),
{
    lemma_fn_consts(); lemma_params();
}
// z = a * b; t1 = low(z) * n'; t2 = low(t1) * n; s = z + t2 (carry c): the high half of s (with c on top) is the Montgomery quotient, below 2n
proof fn fnl_mont_stage(a: Seq<u64>, b: Seq<u64>, z: Seq<u64>, zl: Seq<u64>, t1: Seq<u64>, tw: Seq<u64>, t2: Seq<u64>, s: Seq<u64>, c: bool, r: Seq<u64>)
    requires a.len() == 4, b.len() == 4, z.len() == 8, zl.len() == 4, t1.len() == 8, tw.len() == 4, t2.len() == 8, s.len() == 8, r.len() == 4,
        val4(a) < N(), val4(b) < N(),
        val8(z) == val4(a) * val4(b) || val8(z) == val4(b) * val4(a),
        zl[0] == z[0], zl[1] == z[1], zl[2] == z[2], zl[3] == z[3],
        val8(t1) == val4(zl) * val4(SM2_N_PRIME@) || val8(t1) == val4(SM2_N_PRIME@) * val4(zl),
        tw[0] == t1[0], tw[1] == t1[1], tw[2] == t1[2], tw[3] == t1[3],
        val8(t2) == val4(tw) * val4(SM2_N@) || val8(t2) == val4(SM2_N@) * val4(tw),
        val8(s) + (if c { r256() * r256() } else { 0 }) == val8(z) + val8(t2),
        r[0] == s[4], r[1] == s[5], r[2] == s[6], r[3] == s[7],
    ensures fn_mont_quot(val4(a), val4(b), val4(r) + (if c { r256() } else { 0 })),
        0 <= val4(r) + (if c { r256() } else { 0 }) < 2 * N(),
{
    assert(val4(b) * val4(a) == val4(a) * val4(b) && val4(SM2_N_PRIME@) * val4(zl) == val4(zl) * val4(SM2_N_PRIME@) && val4(SM2_N@) * val4(tw) == val4(tw) * val4(SM2_N@)) by(nonlinear_arith);
    lemma_fn_consts(); lemma_params();
    lemma_val4_bounds(a); lemma_val4_bounds(b);
    let av = val4(a); let bv = val4(b);
    let tl = val4(tw);
    let q: int = val4(r) + (if c { r256() } else { 0 });
    assert(zl =~= z.subrange(0, 4));
    assert(tw =~= t1.subrange(0, 4));
    assert(r =~= s.subrange(4, 8));
    lemma_val4_bounds(z.subrange(0, 4)); lemma_val4_bounds(z.subrange(4, 8));
    lemma_val4_bounds(t1.subrange(0, 4)); lemma_val4_bounds(t1.subrange(4, 8));
    lemma_val4_bounds(s.subrange(0, 4)); lemma_val4_bounds(s.subrange(4, 8));
    let rr = r256();
    let np = val4(SM2_N_PRIME@);
    let zz = val8(z); let zlv = val4(z.subrange(0, 4)); let zh = val4(z.subrange(4, 8));
    let t1h = val4(t1.subrange(4, 8));
    let sl = val4(s.subrange(0, 4));
    assert(zz == av * bv);
    assert(zz >= 0) by(nonlinear_arith) requires zz == av * bv, av >= 0, bv >= 0;
    assert(zz == zh * rr + zlv) by(nonlinear_arith) requires zz == zlv + rr * zh;
    lemma_fundamental_div_mod_converse(zz, rr, zh, zlv);
    assert(val8(t1) == zlv * np);
    assert(zlv * np == t1h * rr + tl) by(nonlinear_arith) requires zlv * np == tl + rr * t1h;
    lemma_fundamental_div_mod_converse(zlv * np, rr, t1h, tl);
    fnl_mont_div(zz, zlv, tl, np, N(), rr);
    let big = zz + tl * N();
    assert(val8(t2) == tl * N());
    let sh = val4(r);
    assert(sl + rr * sh + (if c { rr * rr } else { 0 }) == big);
    assert(big == q * rr + sl && big == rr * q + sl) by(nonlinear_arith)
        requires sl + rr * sh + (if c { rr * rr } else { 0 }) == big, q == sh + (if c { rr } else { 0 });
    lemma_fundamental_div_mod_converse(big, rr, q, sl);
    assert(sl == 0);
    assert(av * bv + tl * N() == rr * q);
    fnl_mont_bound(av, bv, tl, N(), rr, q);
    fnl_mont_congr(av * bv, tl, q, 0, q, N(), rr);
    reveal(fn_mont_quot);
}
// final conditional subtraction and decoding
proof fn fnl_mont_final(a: int, b: int, q: int, res: int)
    requires fn_mont_quot(a, b, q), 0 <= q < 2 * N(),
        q < N() ==> res == q,
        q >= N() ==> res == q - N(),
    ensures 0 <= res < N(), (res * r256()) % N() == (a * b) % N(),
        (res * RINV_N()) % N() == (((a * RINV_N()) % N()) * ((b * RINV_N()) % N())) % N(),
        res == (a * b * RINV_N()) % N(),
{
    lemma_params();
    reveal(fn_mont_quot);
    let rr = r256(); let n = N();
    if q >= n {
        assert((q - n) * rr == q * rr + (0 - rr) * n) by(nonlinear_arith);
        fnl_mod_add_mult(q * rr, 0 - rr, n);
    }
    fnl_mont_decode(a, b, res, rr, RINV_N(), n);
    fnl_cancel(res, rr, RINV_N(), n);
    fnl_mod_mul_cong(res * rr, a * b, RINV_N(), n);
    fnl_small_mod(res, n);
}
//@section code gm-sm2/src/fields/fn64.rs
fn fn_add(a: &U256, b: &U256) -> (r: U256)
    requires val4(a@) + val4(b@) < r256() + N()
    ensures val4(r@) % N() == (val4(a@) + val4(b@)) % N(),
        val4(a@) + val4(b@) < 2 * N() ==> val4(r@) == (val4(a@) + val4(b@)) % N(),
{
    proof {
        fnl_lin();
        lemma_val4_bounds(a@); lemma_val4_bounds(b@);
        assert forall|s: Seq<u64>| s.len() == 4 implies 0 <= #[trigger] val4(s) < r256() by { lemma_val4_bounds(s); }
        // whatever value v the reduction below yields, it is decided by these two linear facts
        assert forall|v: int| ((val4(a@) + val4(b@) >= N() ==> v == val4(a@) + val4(b@) - N()) && (val4(a@) + val4(b@) < N() ==> v == val4(a@) + val4(b@)))
            implies #[trigger] (v % N()) == (val4(a@) + val4(b@)) % N() && (val4(a@) + val4(b@) < 2 * N() ==> v == (val4(a@) + val4(b@)) % N()) by {
            fnl_add_post(val4(a@), val4(b@), v, N());
        }
        // the residue of a + b (< 3n) without a quotient variable
        fnl_mod3(val4(a@) + val4(b@), N());
    }
    let (r, c) = u256_add(a, b);
    proof {
        fnl_digits(a@, b@, r@);
        fnl_digits(a@, a@, r@); fnl_digits(b@, b@, r@);    // (rows also for a wrong operand: refuted by a witness instead of a search)
        // checkpoint: what the first operation has to deliver (a wrong first operation is reported here, once, and not at every return below)
        assert(val4(r@) + (if c { r256() } else { 0 }) == val4(a@) + val4(b@));
        fnl_digits_from(r@);
        // boundary point of the comparison below: hand the limbs to the solver (val4 is injective)
        if val4(r@) == val4(SM2_N@) { lemma_val4_inj(r@, SM2_N@); }
    }
    if c {
        // a + b - n = (a + b - 2^256) + (2^256 - n)
        return u256_add(&r, &SM2_N_NEG).0;
    }
    if u256_cmp(&r, &SM2_N) >= 0 {
        return u256_sub(&r, &SM2_N).0;
    }
    r
}

//@props C03 C11 C15 C20
fn fn_sub(a: &U256, b: &U256) -> (r: U256)
    requires val4(a@) < N(), val4(b@) < N()
    ensures val4(r@) == (val4(a@) - val4(b@)) % N(),
{
    proof {
        fnl_lin();
        lemma_val4_bounds(a@); lemma_val4_bounds(b@);
    }
    let (mut r, c) = u256_sub(a, b);
    let ghost r0 = r@;
    proof {
        lemma_val4_bounds(r@); fnl_digits(a@, b@, r@); fnl_digits(b@, a@, r@);
        // checkpoint: what the first operation has to deliver
        assert(val4(r@) - (if c { r256() } else { 0 }) == val4(a@) - val4(b@));
    }
    if c {
        r = u256_sub(&r, &SM2_N_NEG).0
    }
    proof {
        lemma_val4_bounds(r@);
        fnl_digits_any(r0, r@);
        fnl_sub_post(val4(a@), val4(b@), val4(r@), N());
    }
    r
}

//@props C03 C11 C15 C20
fn fn_to_mont(a: &U256) -> (r: U256)
    requires val4(a@) < N()
    ensures val4(r@) < N(), fne(r@) == val4(a@),
{
    proof {
        lemma_fn_consts(); lemma_params();
        lemma_val4_bounds(a@);
        lemma_mod_bound(r256() * r256(), N());
        fnl_to_mont(val4(a@), r256(), RINV_N(), N());
    }
    mont_mul(a, &SM2_MOD_N_2E512)
}

//@props C03 C11 C15 C20
fn fn_from_mont(a: &U256) -> (r: U256)
    requires val4(a@) < N()
    ensures val4(r@) == fne(a@),
{
    proof {
        lemma_fn_consts(); lemma_params();
        assert(val4(SM2_ONE@) == 1) by(compute);
        assert(val4(a@) * 1 == val4(a@));
    }
    mont_mul(a, &SM2_ONE)
}

//@props C03 C11 C15 C20
fn fn_mul(a: &U256, b: &U256) -> (r: U256)
    requires val4(a@) < N(), val4(b@) < N()
    ensures val4(r@) == (val4(a@) * val4(b@)) % N(),
{
    let mont_a = fn_to_mont(a);
    let mont_b = fn_to_mont(b);
    let mut r = mont_mul(&mont_a, &mont_b);
    r = fn_from_mont(&r);
    r
}

fn mont_mul(a: &U256, b: &U256) -> (res: U256)
    requires val4(a@) < N(), val4(b@) < N()
    ensures val4(res@) < N(), (val4(res@) * r256()) % N() == (val4(a@) * val4(b@)) % N(), fne(res@) == (fne(a@) * fne(b@)) % N(),
        val4(res@) == (val4(a@) * val4(b@) * RINV_N()) % N(),
{
    let mut r = [0u64; 4];
    let mut z = [0u64; 8];
    let mut t = [0u64; 8];

    // z = a * b
    z = u256_mul(a, b);
    let ghost z0 = z@;

    // t = low(z) * n'
    let z_low = [z[0], z[1], z[2], z[3]];
    let t1 = u256_mul(&z_low, &SM2_N_PRIME);
    t[0] = t1[0];
    t[1] = t1[1];
    t[2] = t1[2];
    t[3] = t1[3];

    // t = low(t) * n
    let t_low = [t[0], t[1], t[2], t[3]];
    t = u256_mul(&t_low, &SM2_N);

    // z = z + t
    let (sum, c) = u512_add(&z, &t);
    z = sum;

    // r = high(r)
    r = [z[4], z[5], z[6], z[7]];
    let ghost r0 = r@;
    let ghost q: int = val4(r0) + (if c { r256() } else { 0 });
    proof {
        fnl_lin();
        fnl_mont_stage(a@, b@, z0, z_low@, t1@, t_low@, t@, sum@, c, r0);
        lemma_val4_bounds(r0);
        // boundary point of the comparison below: hand the limbs to the solver (val4 is injective)
        if val4(r0) == val4(SM2_N@) { lemma_val4_inj(r0, SM2_N@); }
    }
    if c {
        r = u256_add(&r, &SM2_N_NEG).0;
    } else if u256_cmp(&r, &SM2_N) >= 0 {
        r = u256_sub(&r, &SM2_N).0
    }
    proof {
        lemma_val4_bounds(r@);
        fnl_digits_any(r0, r@);
        fnl_mont_final(val4(a@), val4(b@), q, val4(r@));
    }
    r
}

//@props C03 C11 C15 C20
fn fn_pow(a: &U256, e: &U256) -> (r: U256)
    requires val4(a@) < N()
    ensures val4(r@) == pow_mod(val4(a@), val4(e@) as nat, N()),
{
    let mont_a = fn_to_mont(a);
    let mut r = SM2_N_NEG;
    let mut w = 0u64;
    let ghost av = val4(a@);
    let ghost mut acc: int = 0;
    proof {
        lemma_fn_consts(); lemma_params();
        // Montgomery one: ((R - n) * I) % n == (R*I) % n == 1
        fnl_mod_add_mult(r256() * RINV_N(), -RINV_N(), N());
        assert((r256() - N()) * RINV_N() == r256() * RINV_N() + (-RINV_N()) * N()) by(nonlinear_arith);
        fnl_small_mod(1, N());
        fnl_top4(e@);
    }
    for i in it: (0..4).rev()
        invariant
            val4(r@) < N(), val4(mont_a@) < N(), fne(mont_a@) == av,
            acc >= 0, acc == fnl_top(e@, it.index@ as int),
            fne(r@) == pow_mod(av, acc as nat, N()),
    {
        w = e[i];
        let ghost x = acc * 0x1_0000_0000_0000_0000int + w as int;
        let ghost mut m: int = 1;
        for _j in 0..64
            invariant
                val4(r@) < N(), val4(mont_a@) < N(), fne(mont_a@) == av,
                acc >= 0, m == fnl_p2(_j as nat),
                acc * 0x1_0000_0000_0000_0000int + w as int == x * m,
                fne(r@) == pow_mod(av, acc as nat, N()),
        {
            let ghost w0 = w;
            r = mont_mul(&r, &r);
            proof {
                lemma_params();
                fnl_pow_add(av, acc as nat, acc as nat, N());
                fnl_bits(w0);
                assert((2 * acc) as nat == (acc as nat) + (acc as nat));
            }
            if w & 0x8000000000000000 != 0 {
                r = mont_mul(&r, &mont_a);
                proof {
                    assert(((2 * acc + 1) as nat - 1) as nat == (2 * acc) as nat);
                    assert(pow_mod(av, (2 * acc + 1) as nat, N()) == (pow_mod(av, (2 * acc) as nat, N()) * av) % N());
                }
            }
            w <<= 1;
            proof {
                let bit: int = if w0 >= 0x8000000000000000u64 { 1 } else { 0 };
                assert(x * (2 * m) == 2 * (x * m)) by(nonlinear_arith);
                acc = 2 * acc + bit;
                m = 2 * m;
            }
        }
        proof {
            fnl_p2_64();
            assert(x * m == x * 0x1_0000_0000_0000_0000int);
            assert(acc == x);
            assert(fnl_top(e@, it.index@ as int + 1) == fnl_top(e@, it.index@ as int) * 0x1_0000_0000_0000_0000int + e@[4 - (it.index@ as int + 1)] as int);
        }
    }
    proof { fnl_top4(e@); }
    r = fn_from_mont(&r);
    r
}


//@props C11 C20
fn fn_inv(a: &U256) -> (r: U256)
    requires val4(a@) < N()
    ensures val4(r@) == inv_n(val4(a@)),
{
    proof { lemma_fn_consts(); lemma_params(); }
    fn_pow(a, &SM2_N_MINUS_TWO)
}
