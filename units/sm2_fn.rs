//@unit sm2_fn
//@serves C11
//@source gm-sm2/src/fields/fn64.rs
//@include-spec sm2_math
//@section code gm-sm2/src/u256.rs
type U256 = [u64; 4];
type U512 = [u64; 8];
const SM2_ONE: U256 = [1, 0, 0, 0];
//@stub sm2_limbs u256_add
//@stub sm2_limbs u512_add
//@stub sm2_limbs u256_sub
//@stub sm2_limbs u256_mul
//@stub sm2_limbs u256_cmp
//@section code gm-sm2/src/fields/fn64.rs
const SM2_N: U256 = [
    0x53bbf40939d54123,
    0x7203df6b21c6052b,
    0xffffffffffffffff,
    0xfffffffeffffffff,
];

const SM2_N_NEG: U256 = [
    0xac440bf6c62abedd,
    0x8dfc2094de39fad4,
    0x0000000000000000,
    0x0000000100000000,
];

const SM2_N_MINUS_TWO: U256 = [
    0x53bbf40939d54121,
    0x7203df6b21c6052b,
    0xffffffffffffffff,
    0xfffffffeffffffff,
];

const SM2_N_PRIME: U256 = [
    0x327f9e8872350975,
    0xdf1e8d34fc8319a5,
    0x2b0068d3b08941d4,
    0x6f39132f82e4c7bc,
];

const SM2_MOD_N_2E512: U256 = [
    0x901192af7c114f20,
    0x3464504ade6fa2fa,
    0x620fc84c3affe0d4,
    0x1eb5e412a22b3d3b,
];


//@section spec local
// the code constants are the standard's parameters
proof fn lemma_fn_consts()
    ensures val4(SM2_N@) == N(), val4(SM2_N_NEG@) == r256() - N(), val4(SM2_N_MINUS_TWO@) == N() - 2,
        (N() * val4(SM2_N_PRIME@) + 1) % r256() == 0, val4(SM2_MOD_N_2E512@) == (r256() * r256()) % N(),
{
    assert(val4(SM2_N@) == N() && val4(SM2_N_NEG@) == r256() - N() && val4(SM2_N_MINUS_TWO@) == N() - 2) by(compute);
    assert((N() * val4(SM2_N_PRIME@) + 1) % r256() == 0) by(compute);
    assert(val4(SM2_MOD_N_2E512@) == (r256() * r256()) % N()) by(compute);
}
// Montgomery decoding mod n
pub open spec fn fne(a: Seq<u64>) -> int { (val4(a) * RINV_N()) % N() }
//@section code gm-sm2/src/fields/fn64.rs
#[verifier::external_body]
fn fn_add(a: &U256, b: &U256) -> (r: U256)
    requires val4(a@) + val4(b@) < r256() + N()
    ensures val4(r@) % N() == (val4(a@) + val4(b@)) % N(),
        val4(a@) + val4(b@) < 2 * N() ==> val4(r@) == (val4(a@) + val4(b@)) % N(),
{
    let (r, c) = u256_add(a, b);
    if c {
        // a + b - n = (a + b - 2^256) + (2^256 - n)
        return u256_add(&r, &SM2_N_NEG).0;
    }
    if u256_cmp(&r, &SM2_N) >= 0 {
        return u256_sub(&r, &SM2_N).0;
    }
    r
}

#[verifier::external_body]
fn fn_sub(a: &U256, b: &U256) -> (r: U256)
    requires val4(a@) < N(), val4(b@) < N()
    ensures val4(r@) == (val4(a@) - val4(b@)) % N(),
{
    let (mut r, c) = u256_sub(a, b);
    if c {
        r = u256_sub(&r, &SM2_N_NEG).0
    }
    r
}

#[verifier::external_body]
fn fn_to_mont(a: &U256) -> (r: U256)
    requires val4(a@) < N()
    ensures val4(r@) < N(), fne(r@) == val4(a@),
{
    mont_mul(a, &SM2_MOD_N_2E512)
}

#[verifier::external_body]
fn fn_from_mont(a: &U256) -> (r: U256)
    requires val4(a@) < N()
    ensures val4(r@) == fne(a@),
{
    mont_mul(a, &SM2_ONE)
}

#[verifier::external_body]
fn fn_mul(a: &U256, b: &U256) -> (r: U256)
    requires val4(a@) < N(), val4(b@) < N()
    ensures val4(r@) == (val4(a@) * val4(b@)) % N(),
{
    let mont_a = fn_to_mont(a);
    let mont_b = fn_to_mont(b);
    let mut r = mont_mul(&mont_a, &mont_b);
    r = fn_from_mont(&r);
    r
}

#[verifier::external_body]
fn mont_mul(a: &U256, b: &U256) -> (res: U256)
    requires val4(a@) < N(), val4(b@) < N()
    ensures val4(res@) < N(), (val4(res@) * r256()) % N() == (val4(a@) * val4(b@)) % N(), fne(res@) == (fne(a@) * fne(b@)) % N(),
{
    let mut r = [0u64; 4];
    let mut z = [0u64; 8];
    let mut t = [0u64; 8];

    // z = a * b
    z = u256_mul(a, b);

    // t = low(z) * n'
    let z_low = [z[0], z[1], z[2], z[3]];
    let t1 = u256_mul(&z_low, &SM2_N_PRIME);
    t[0] = t1[0];
    t[1] = t1[1];
    t[2] = t1[2];
    t[3] = t1[3];

    // t = low(t) * n
    let t_low = [t[0], t[1], t[2], t[3]];
    t = u256_mul(&t_low, &SM2_N);

    // z = z + t
    let (sum, c) = u512_add(&z, &t);
    z = sum;

    // r = high(r)
    r = [z[4], z[5], z[6], z[7]];
    if c {
        r = u256_add(&r, &SM2_N_NEG).0;
    } else if u256_cmp(&r, &SM2_N) >= 0 {
        r = u256_sub(&r, &SM2_N).0
    }
    r
}

#[verifier::external_body]
fn fn_pow(a: &U256, e: &U256) -> (r: U256)
    requires val4(a@) < N()
    ensures val4(r@) == pow_mod(val4(a@), val4(e@) as nat, N()),
{
    let mont_a = fn_to_mont(a);
    let mut r = SM2_N_NEG;
    let mut w = 0u64;
    for i in (0..4).rev() {
        w = e[i];
        for _j in 0..64 {
            r = mont_mul(&r, &r);
            if w & 0x8000000000000000 != 0 {
                r = mont_mul(&r, &mont_a);
            }
            w <<= 1;
        }
    }
    r = fn_from_mont(&r);
    r
}

