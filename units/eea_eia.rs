//@unit eea_eia
//@serves C18 C20
//@source gm-zuc/src/eea.rs
//@include-spec zuc
//@section spec
// ---------------- 3GPP 128-EEA3 / 128-EIA3 spec (TS 35.221) ----------------
pub open spec fn b0(c: u32) -> u8 { ((c >> 24) & 0xff) as u8 }
pub open spec fn b1(c: u32) -> u8 { ((c >> 16) & 0xff) as u8 }
pub open spec fn b2(c: u32) -> u8 { ((c >> 8) & 0xff) as u8 }
pub open spec fn b3(c: u32) -> u8 { (c & 0xff) as u8 }
// IV[4] = BEARER(5) || DIRECTION(1) || 00
pub open spec fn e_iv(count: u32, bearer: u32, dir: u32) -> Seq<u8> {
    let v4 = (((bearer << 3) | (dir << 2)) & 0xff) as u8;
    seq![b0(count), b1(count), b2(count), b3(count), v4, 0u8, 0u8, 0u8, b0(count), b1(count), b2(count), b3(count), v4, 0u8, 0u8, 0u8]
}
// IV[4] = BEARER(5) || 000 ; IV[8] = IV[0] ^ DIR<<7 ; IV[14] = IV[6] ^ DIR<<7
pub open spec fn i_iv(count: u32, bearer: u32, dir: u32) -> Seq<u8> {
    let v4 = ((bearer << 3) & 0xff) as u8;
    let d7 = ((dir << 7) & 0xff) as u8;
    seq![b0(count), b1(count), b2(count), b3(count), v4, 0u8, 0u8, 0u8, b0(count) ^ d7, b1(count), b2(count), b3(count), v4, 0u8, d7, 0u8]
}
pub open spec fn words(len: int) -> int { (len + 31) / 32 }
pub open spec fn e_mask(len: int) -> u32 { if len % 32 == 0 { 0xffff_ffffu32 } else { 0xffff_ffffu32 << ((32 - len % 32) as u32) } }
pub open spec fn e_out(st: ZS, msg: Seq<u32>, len: int) -> Seq<u32> {
    let l = words(len);
    let z = z_ks(st, l);
    Seq::new(l as nat, |i: int| if i == l - 1 { (msg[i] ^ z[i]) & e_mask(len) } else { msg[i] ^ z[i] })
}
// 32-bit window of the keystream starting at bit i
pub open spec fn i_word(z: Seq<u32>, i: int) -> u32 {
    let j = i / 32; let m = i % 32;
    if m == 0 { z[j] } else { (z[j] << (m as u32)) | (z[j + 1] >> ((32 - m) as u32)) }
}
pub open spec fn i_bit(m: Seq<u32>, i: int) -> bool { (m[i / 32] >> ((31 - i % 32) as u32)) & 1 == 1 }
pub open spec fn i_t(z: Seq<u32>, m: Seq<u32>, n: int) -> u32 decreases n {
    if n <= 0 { 0 } else { let p = i_t(z, m, n - 1); if i_bit(m, n - 1) { p ^ i_word(z, n - 1) } else { p } }
}
pub open spec fn i_mac(st: ZS, m: Seq<u32>, len: int) -> u32 {
    let l = words(len) + 2;
    let z = z_ks(st, l);
    i_t(z, m, len) ^ i_word(z, len) ^ z[l - 1]
}
// MAC depends only on the first LENGTH message bits
proof fn lemma_mac_prefix(z: Seq<u32>, m1: Seq<u32>, m2: Seq<u32>, n: int)
    requires forall|i: int| 0 <= i < n ==> i_bit(m1, i) == i_bit(m2, i)
    ensures i_t(z, m1, n) == i_t(z, m2, n)
    decreases n
{ if n > 0 { lemma_mac_prefix(z, m1, m2, n - 1); } }
// EEA3 is an involution on the first LENGTH bits
proof fn lemma_eea_involution(st: ZS, msg: Seq<u32>, len: int)
    requires len >= 0, msg.len() >= words(len)
    ensures e_out(st, e_out(st, msg, len), len) =~= Seq::new(words(len) as nat, |i: int| if i == words(len) - 1 { msg[i] & e_mask(len) } else { msg[i] })
{
    let l = words(len); let z = z_ks(st, l); let k = e_mask(len);
    let o = e_out(st, msg, len);
    assert forall|i: int| 0 <= i < l implies #[trigger] e_out(st, o, len)[i] == (if i == l - 1 { msg[i] & k } else { msg[i] }) by {
        let (m, zz) = (msg[i], z[i]);
        assert((((m ^ zz) & k) ^ zz) & k == m & k) by(bit_vector);
        assert((m ^ zz) ^ zz == m) by(bit_vector);
    }
}
//@section code gm-zuc/src/lib.rs
#[derive(Debug)]
struct ZUC {
    s: [u32; 16],
    r1: u32,
    r2: u32,
    x: [u32; 4],
}
//@stub zuc ZUC::new
//@stub zuc ZUC::generate_keystream
//@section code gm-zuc/src/eea.rs
#[derive(Debug)]
struct EEA {
    zuc: ZUC,
}

impl EEA {
    fn new(ck: &[u8], count: u32, bearer: u32, direction: u32) -> (e: EEA)
        requires bearer < 32, direction < 2,
            ck@.len() >= 16, //@carveout D43
        ensures cells_ok(e.zuc.s@), abs(e.zuc) == z_init(ck@.subrange(0, 16), e_iv(count, bearer, direction))
    {
        proof {
            assert((count >> 24) as u8 == b0(count) && (count >> 16) as u8 == b1(count) && (count >> 8) as u8 == b2(count) && count as u8 == b3(count)) by(bit_vector);
            assert(bearer < 32 && direction < 2 ==> (((bearer << 1) | (direction & 1)) << 2) as u8 == (((bearer << 3) | (direction << 2)) & 0xff) as u8) by(bit_vector);
        }
        let mut iv = [0u8; 16];

        iv[0] = (count >> 24) as u8;
        iv[1] = (count >> 16) as u8;
        iv[2] = (count >> 8) as u8;
        iv[3] = count as u8;
        iv[4] = (((bearer << 1) | (direction & 1)) << 2) as u8;

        iv[8] = iv[0];
        iv[9] = iv[1];
        iv[10] = iv[2];
        iv[11] = iv[3];
        iv[12] = iv[4];
        proof { assert(iv@ =~= e_iv(count, bearer, direction)); assert(iv@.subrange(0, 16) =~= iv@); }
        let zuc = ZUC::new(ck, &iv);
        EEA { zuc }
    }

    fn encrypt(&mut self, msg: &[u32], ilen: u32) -> (rs: Vec<u32>)
        requires cells_ok(old(self).zuc.s@),
            msg@.len() >= words(ilen as int), //@carveout D44
        ensures rs@ =~= e_out(abs(old(self).zuc), msg@, ilen as int), cells_ok(final(self).zuc.s@),
            abs(final(self).zuc) == z_after(abs(old(self).zuc), words(ilen as int))
    {
        let ghost st0 = abs(self.zuc);
        let mut rs = vec![];
        let keylength = (ilen as u64 + 31) / 32;
        let keys = self.zuc.generate_keystream(keylength as usize);
        proof { lemma_ks_len(st0, keylength as int); }
        let keys = keys.as_slice();
        for i in 0..keylength as usize
            invariant keylength as int == words(ilen as int), msg@.len() >= keylength, keys@ == z_ks(st0, keylength as int), keys@.len() == keylength,
                rs@.len() == i, forall|j: int| 0 <= j < i ==> rs@[j] == msg@[j] ^ keys@[j],
        {
            rs.push(msg[i] ^ keys[i]);
        }

        if ilen % 32 != 0 {
            rs[keylength as usize - 1] &= 0xffffffff << (32 - (ilen % 32));
        }
        proof {
            let l = words(ilen as int); let z = z_ks(st0, l); let k = 0xffff_ffffu32; let x = msg@[l - 1] ^ z[l - 1];
            if ilen % 32 == 0 && l > 0 { assert(x & k == x) by(bit_vector) requires k == 0xffff_ffffu32; }
        }

        rs
    }
}

//@section code gm-zuc/src/eia.rs
#[derive(Debug)]
struct EIA {
    zuc: ZUC,
}

impl EIA {
    fn new(ik: &[u8], count: u32, bearer: u32, direction: u32) -> (e: EIA)
        requires bearer < 32, direction < 2,
            ik@.len() >= 16, //@carveout D43
        ensures cells_ok(e.zuc.s@), abs(e.zuc) == z_init(ik@.subrange(0, 16), i_iv(count, bearer, direction))
    {
        proof {
            assert((count >> 24) as u8 == b0(count) && (count >> 16) as u8 == b1(count) && (count >> 8) as u8 == b2(count) && count as u8 == b3(count)) by(bit_vector);
            assert((bearer << 3) as u8 == ((bearer << 3) & 0xff) as u8) by(bit_vector);
            assert((direction << 7) as u8 == ((direction << 7) & 0xff) as u8) by(bit_vector);
            let d7 = ((direction << 7) & 0xff) as u8; assert(0u8 ^ d7 == d7) by(bit_vector);
        }
        let mut iv = [0u8; 16];
        iv[0] = (count >> 24) as u8;
        iv[1] = (count >> 16) as u8;
        iv[2] = (count >> 8) as u8;
        iv[3] = count as u8;
        iv[4] = (bearer << 3) as u8;

        iv[8] = iv[0] ^ ((direction << 7) as u8);
        iv[9] = iv[1];
        iv[10] = iv[2];
        iv[11] = iv[3];
        iv[12] = iv[4];
        iv[14] = iv[6] ^ ((direction << 7) as u8);
        proof { assert(iv@ =~= i_iv(count, bearer, direction)); assert(iv@.subrange(0, 16) =~= iv@); }
        EIA {
            zuc: ZUC::new(ik, &iv),
        }
    }
    fn gen_mac(&mut self, m: &[u32], ilen: u32) -> (mac: u32)
        requires cells_ok(old(self).zuc.s@),
            m@.len() >= words(ilen as int), //@carveout D44
        ensures mac == i_mac(abs(old(self).zuc), m@, ilen as int)
    {
        let ghost st0 = abs(self.zuc);
        let keylength = (ilen as u64 + 31) / 32 + 2;
        let keys = self.zuc.generate_keystream(keylength as usize);
        proof { lemma_ks_len(st0, keylength as int); }
        let keys = keys.as_slice();
        let mut t = 0_u32;
        for i in 0..ilen as usize
            invariant keylength as int == words(ilen as int) + 2, keys@ == z_ks(st0, keylength as int), keys@.len() == keylength, m@.len() >= words(ilen as int),
                t == i_t(keys@, m@, i as int),
        {
            proof {
                let ii = i; 
                assert((ii >> 5) == ii / 32 && (ii & 0x1f) == ii % 32) by(bit_vector);
                let w = m@[(i / 32) as int]; let sh = (31 - (i & 0x1f)) as u32;
                assert(sh < 32 ==> ((w & (0x1u32 << sh)) > 0) == ((w >> sh) & 1 == 1)) by(bit_vector);
            }
            if m[i >> 5] & (0x1 << (31 - (i & 0x1f))) > 0 {
                t ^= find_word(keys, i);
            }
        }

        t ^= find_word(keys, ilen as usize);
        t ^ find_word(keys, 32 * (keylength - 1) as usize)
    }
}
fn find_word(keys: &[u32], i: usize) -> (r: u32)
    requires i / 32 < keys@.len(), i % 32 != 0 ==> i / 32 + 1 < keys@.len()
    ensures r == i_word(keys@, i as int)
{
    proof { assert((i >> 5) == i / 32 && (i & 0x1f) == i % 32) by(bit_vector); }
    let j = i >> 5;
    let m = i & 0x1f;
    if m == 0 {
        keys[j]
    } else {
        (keys[j] << m) | (keys[j + 1] >> (32 - m))
    }
}
