//@unit sm9_formulas
//@serves C09 C10 C13 C17 C20
//@lean sm9_point_double sm9_point_add sm9_is_on_curve_affine sm9_is_on_curve_jacobian sm9_point_neg sm9_to_affine sm9_fp2_mul sm9_fp2_sqr sm9_fp2_a_mul_u sm9_fp2_mul_u sm9_fp2_sqr_u sm9_fp4_mul sm9_fp4_sqr sm9_fp4_a_mul_v sm9_fp4_mul_v sm9_fp4_sqr_v sm9_fp12_mul sm9_fp12_sqr
//@tables sm9
//@assume the G1 point formulas and the Fp2/Fp4/Fp12 products of gm-sm9 are covered by Lean ring identities generated from their current source (back end lean) and the 37x64 fixed-base table by exhaustive ground evaluation; the step from these to the assumed contracts of unit sm9_key (Point::point_mul, g_mul, pairing, Fp12::pow ...) is NOT machine-checked
//@include-spec sm2_math
//@include-spec sm9_math
//@section spec
// carrier unit for the non-Verus obligations of the SM9 arithmetic; one trivial lemma keeps the unit non-vacuous
pub proof fn lemma_sm9_formulas_carrier() ensures 0 < N9() < P9() { lemma_params9(); }
