//@unit sm9_fp
//@serves C09 C10 C13 C16 C17 C20
//@source gm-sm9/src/fields/fp.rs
//@include-spec sm2_math
//@include-spec sm9_math
//@section spec
use core::fmt::Debug;
//@section code gm-sm9/src/u256.rs
type U256 = [u64; 4];
type U512 = [u64; 8];
const SM9_ZERO: U256 = [0, 0, 0, 0];
const SM9_ONE: U256 = [1, 0, 0, 0];
//@stub sm9_limbs u256_add
//@stub sm9_limbs u512_add
//@stub sm9_limbs u256_sub
//@stub sm9_limbs u256_mul
//@stub sm9_limbs u256_cmp
//@stub sm9_limbs u256_to_be_bytes
//@stub sm9_limbs u256_from_be_bytes
//@section code gm-sm9/src/fields.rs
trait FieldElement: Sized + Copy + Clone + PartialEq + Eq + Debug {
    spec fn ok(&self) -> bool;
    spec fn val(&self) -> Seq<int>;
    spec fn s_zero() -> Seq<int>;
    spec fn s_one() -> Seq<int>;
    spec fn s_add(a: Seq<int>, b: Seq<int>) -> Seq<int>;
    spec fn s_sub(a: Seq<int>, b: Seq<int>) -> Seq<int>;
    spec fn s_mul(a: Seq<int>, b: Seq<int>) -> Seq<int>;
    spec fn s_neg(a: Seq<int>) -> Seq<int>;
    spec fn s_inv(a: Seq<int>) -> Seq<int>;
    spec fn s_bytes(a: Seq<int>) -> Seq<u8>;
    fn zero() -> (r: Self)
        ensures r.ok(), r.val() == Self::s_zero();
    fn one() -> (r: Self)
        ensures r.ok(), r.val() == Self::s_one();
    fn is_zero(&self) -> (r: bool)
        ensures self.ok() ==> r == (self.val() == Self::s_zero());
    fn fp_sqr(&self) -> (r: Self)
        requires self.ok()
        ensures r.ok(), r.val() == Self::s_mul(self.val(), self.val());
    fn fp_double(&self) -> (r: Self)
        requires self.ok()
        ensures r.ok(), r.val() == Self::s_add(self.val(), self.val());
    fn fp_triple(&self) -> (r: Self)
        requires self.ok()
        ensures r.ok(), r.val() == Self::s_add(Self::s_add(self.val(), self.val()), self.val());
    fn fp_add(&self, rhs: &Self) -> (r: Self)
        requires self.ok(), rhs.ok()
        ensures r.ok(), r.val() == Self::s_add(self.val(), rhs.val());
    fn fp_sub(&self, rhs: &Self) -> (r: Self)
        requires self.ok(), rhs.ok()
        ensures r.ok(), r.val() == Self::s_sub(self.val(), rhs.val());
    fn fp_mul(&self, rhs: &Self) -> (r: Self)
        requires self.ok(), rhs.ok()
        ensures r.ok(), r.val() == Self::s_mul(self.val(), rhs.val());
    fn fp_neg(&self) -> (r: Self)
        requires self.ok()
        ensures r.ok(), r.val() == Self::s_neg(self.val());
    fn fp_div2(&self) -> (r: Self)
        requires self.ok()
        ensures r.ok(), Self::s_add(r.val(), r.val()) == self.val();
    fn fp_inv(&self) -> (r: Self)
        requires self.ok()
        ensures r.ok(), r.val() == Self::s_inv(self.val());
    fn to_bytes_be(&self) -> (r: Vec<u8>)
        requires self.ok()
        ensures r@ == Self::s_bytes(self.val());
}
//@section code gm-sm9/src/lib.rs
const SM9_P: U256 = [
    0xe56f9b27e351457d,
    0x21f2934b1a7aeedb,
    0xd603ab4ff58ec745,
    0xb640000002a3a6f1,
];
const SM9_P_MINUS_ONE: U256 = [
    0xe56f9b27e351457c,
    0x21f2934b1a7aeedb,
    0xd603ab4ff58ec745,
    0xb640000002a3a6f1,
];
const SM9_P_MINUS_TWO: U256 = [
    0xe56f9b27e351457b,
    0x21f2934b1a7aeedb,
    0xd603ab4ff58ec745,
    0xb640000002a3a6f1,
];
const SM9_P_PRIME: U256 = [
    0x892bc42c2f2ee42b,
    0x181ae39613c8dbaf,
    0x966a4b291522b137,
    0xafd2bac5558a13b3,
];
const SM9_MODP_2E512: U256 = [
    0x27dea312b417e2d2,
    0x88f8105fae1a5d3f,
    0xe479b522d6706e7b,
    0x2ea795a656f62fbd,
];
const SM9_MODP_MONT_ONE: U256 = [
    0x1a9064d81caeba83,
    0xde0d6cb4e5851124,
    0x29fc54b00a7138ba,
    0x49bffffffd5c590e,
];
const SM9_MODP_MONT_FIVE: U256 = [
    0xb9f2c1e8c8c71995,
    0x125df8f246a377fc,
    0x25e650d049188d1c,
    0x43fffffed866f63,
];
//@section spec local
// the code constants are the standard's parameters
proof fn lemma_fp9_consts()
    ensures val4(SM9_P@) == P9(), val4(SM9_P_MINUS_ONE@) == P9() - 1, val4(SM9_P_MINUS_TWO@) == P9() - 2,
        val4(SM9_MODP_MONT_ONE@) == r256() - P9(), (P9() * val4(SM9_P_PRIME@) + 1) % r256() == 0,
        val4(SM9_MODP_2E512@) == (r256() * r256()) % P9(),
        canon9(SM9_MODP_MONT_ONE@), fe9(SM9_MODP_MONT_ONE@) == 1,
        canon9(SM9_MODP_MONT_FIVE@), fe9(SM9_MODP_MONT_FIVE@) == 5,
        val4(SM9_ZERO@) == 0, val4(SM9_ONE@) == 1,
{
    assert(val4(SM9_P@) == P9() && val4(SM9_P_MINUS_ONE@) == P9() - 1 && val4(SM9_P_MINUS_TWO@) == P9() - 2) by(compute);
    assert(val4(SM9_MODP_MONT_ONE@) == r256() - P9()) by(compute);
    assert((P9() * val4(SM9_P_PRIME@) + 1) % r256() == 0) by(compute);
    assert(val4(SM9_MODP_2E512@) == (r256() * r256()) % P9()) by(compute);
    assert(canon9(SM9_MODP_MONT_ONE@) && fe9(SM9_MODP_MONT_ONE@) == 1) by(compute);
    assert(canon9(SM9_MODP_MONT_FIVE@) && fe9(SM9_MODP_MONT_FIVE@) == 5) by(compute);
    assert(val4(SM9_ZERO@) == 0 && val4(SM9_ONE@) == 1) by(compute);
}
// the linear facts about the constants that the small functions need (keeps lemma_params9 / lemma_fp9_consts out of their contexts)
proof fn fp9_lin()
    ensures val4(SM9_P@) == P9(), val4(SM9_P_MINUS_ONE@) == P9() - 1, val4(SM9_MODP_MONT_ONE@) == r256() - P9(),
        0 < P9(), P9() < r256(), r256() < 2 * P9(), val4(SM9_ZERO@) == 0, val4(SM9_ONE@) == 1,
{
    lemma_fp9_consts(); lemma_params9();
}
// ---- mont_mul: stage lemmas. The body of the exec function only sees facts that are linear in the limbs and in the products of the
// u256_mul contracts; the Montgomery identity q * R == a * b + tl * p is carried by an opaque predicate ----
#[verifier::opaque]
pub open spec fn fp9_mmq(q: int, a: int, b: int, tl: int) -> bool { q * r256() == a * b + tl * P9() }
// stage 1: z = a * b, t1 = low(z) * p', t = low(t1) * p, sum = z + t (with carry c), r = high(sum): q = r + c * 2^256 satisfies the identity and q < 2p
proof fn fp9_mm_reduce(a: Seq<u64>, b: Seq<u64>, z: Seq<u64>, zl: Seq<u64>, t1: Seq<u64>, tl: Seq<u64>, t: Seq<u64>, sum: Seq<u64>, c: bool, r: Seq<u64>)
    requires a.len() == 4, b.len() == 4, z.len() == 8, zl.len() == 4, t1.len() == 8, tl.len() == 4, t.len() == 8, sum.len() == 8, r.len() == 4,
        val4(a) < P9(), val4(b) < P9(),
        val8(z) == val4(a) * val4(b),
        zl[0] == z[0], zl[1] == z[1], zl[2] == z[2], zl[3] == z[3],
        val8(t1) == val4(zl) * val4(SM9_P_PRIME@),
        tl[0] == t1[0], tl[1] == t1[1], tl[2] == t1[2], tl[3] == t1[3],
        val8(t) == val4(tl) * val4(SM9_P@),
        val8(sum) + (if c { r256() * r256() } else { 0 }) == val8(z) + val8(t),
        r[0] == sum[4], r[1] == sum[5], r[2] == sum[6], r[3] == sum[7],
    ensures fp9_mmq(val4(r) + (if c { r256() } else { 0 }), val4(a), val4(b), val4(tl)),
        0 <= val4(r) + (if c { r256() } else { 0 }) < 2 * P9(),
{
    lemma_fp9_consts(); lemma_params9();
    reveal(fp9_mmq);
    let q = val4(r) + (if c { r256() } else { 0 });
    let lo_z = z.subrange(0, 4); let hi_z = z.subrange(4, 8);
    let lo_t = t1.subrange(0, 4); let hi_t = t1.subrange(4, 8);
    let lo_s = sum.subrange(0, 4); let hi_s = sum.subrange(4, 8);
    assert(zl =~= lo_z);
    assert(tl =~= lo_t);
    assert(r =~= hi_s);
    lemma_val4_bounds(lo_z); lemma_val4_bounds(hi_z); lemma_val4_bounds(lo_t); lemma_val4_bounds(hi_t);
    lemma_val4_bounds(lo_s); lemma_val4_bounds(hi_s);
    lemma_val4_bounds(a); lemma_val4_bounds(b);
    let zz = val8(z); let zlv = val4(lo_z); let rr = r256(); let pp = val4(SM9_P_PRIME@); let tlv = val4(tl);
    assert(zz == val4(hi_z) * rr + zlv) by(nonlinear_arith) requires zz == zlv + rr * val4(hi_z);
    lemma_fundamental_div_mod_converse(zz, rr, val4(hi_z), zlv);
    assert(zlv * pp == val4(hi_t) * rr + tlv) by(nonlinear_arith) requires zlv * pp == tlv + rr * val4(hi_t);
    lemma_fundamental_div_mod_converse(zlv * pp, rr, val4(hi_t), tlv);
    assert(zz >= 0) by(nonlinear_arith) requires zz == val4(a) * val4(b), val4(a) >= 0, val4(b) >= 0;
    lemma_fp9_mont_div(zz, zlv, tlv, pp, P9(), rr);
    let tt = zz + tlv * P9();
    assert(tt == q * rr + val4(lo_s)) by(nonlinear_arith)
        requires tt == val4(lo_s) + rr * val4(hi_s) + (if c { rr * rr } else { 0 }), q == val4(hi_s) + (if c { rr } else { 0 });
    lemma_fundamental_div_mod_converse(tt, rr, q, val4(lo_s));
    assert(q * rr == val4(a) * val4(b) + tlv * P9());
    lemma_fp9_mont_q(val4(a), val4(b), tlv, q, P9(), rr);
}
// stage 2: the conditional final correction brings q into [0, p); each case of the code is a separate conjunct
proof fn fp9_mm_final(a: int, b: int, tl: int, r0v: int, rv: int, c: bool)
    requires fp9_mmq(r0v + (if c { r256() } else { 0 }), a, b, tl),
        0 <= r0v + (if c { r256() } else { 0 }) < 2 * P9(),
        0 <= r0v < r256(), 0 <= rv < r256(),
        c ==> (rv == r0v + (r256() - P9()) || rv == r0v - P9()),
        !c && r0v >= P9() ==> (rv == r0v - P9() || rv == r0v - P9() + r256()),
        !c && r0v < P9() ==> rv == r0v,
    ensures rv < P9(), (rv * r256()) % P9() == (a * b) % P9(), fev9(rv) == (fev9(a) * fev9(b)) % P9(),
{
    lemma_params9();
    reveal(fp9_mmq);
    let q = r0v + (if c { r256() } else { 0 });
    lemma_fp9_mont_post(a, b, tl, q, rv);
}
//@section spec
use vstd::arithmetic::mul::*;
// ---------------------------------------------------------------- modular arithmetic helpers (generic modulus)
pub proof fn lemma_fp9_mod_range(x: int, m: int) requires m > 0 ensures 0 <= x % m < m
{ lemma_mod_bound(x, m); }
pub proof fn lemma_fp9_small(x: int, m: int) requires 0 <= x < m ensures x % m == x
{ lemma_small_mod(x as nat, m as nat); }
pub proof fn lemma_fp9_cong_mul(a: int, b: int, c: int, m: int)
    requires m > 0, a % m == b % m
    ensures (a * c) % m == (b * c) % m, (c * a) % m == (c * b) % m
{
    lemma_mul_mod_noop_general(a, c, m);
    lemma_mul_mod_noop_general(b, c, m);
    assert(a * c == c * a) by(nonlinear_arith);
    assert(b * c == c * b) by(nonlinear_arith);
}
pub proof fn lemma_fp9_cong_add(a: int, b: int, c: int, d: int, m: int)
    requires m > 0, a % m == b % m, c % m == d % m
    ensures (a + c) % m == (b + d) % m, (a - c) % m == (b - d) % m
{
    lemma_add_mod_noop(a, c, m); lemma_add_mod_noop(b, d, m);
    lemma_sub_mod_noop(a, c, m); lemma_sub_mod_noop(b, d, m);
}
// adding a multiple of m does not change the residue
pub proof fn lemma_fp9_mod_shift(x: int, k: int, m: int) requires m > 0 ensures (x + k * m) % m == x % m
{
    lemma_mod_multiples_vanish(k, x, m);
    assert(m * k + x == x + k * m) by(nonlinear_arith);
}
// multiplying by a unit representative
pub proof fn lemma_fp9_unit(x: int, u: int, m: int) requires m > 0, u % m == 1 ensures (x * u) % m == x % m
{
    lemma_mul_mod_noop_general(x, u, m);
    assert(x * 1 == x);
}
// ---------------------------------------------------------------- the Montgomery decoding map on integers
pub open spec fn fev9(v: int) -> int { (v * RINV_P9()) % P9() }
pub proof fn lemma_fev9_range(v: int) ensures 0 <= fev9(v) < P9()
{ lemma_params9(); lemma_fp9_mod_range(v * RINV_P9(), P9()); }
pub proof fn lemma_fev9_cong(v: int, w: int) requires v % P9() == w % P9() ensures fev9(v) == fev9(w)
{ lemma_params9(); lemma_fp9_cong_mul(v, w, RINV_P9(), P9()); }
// fev9(v * R) == v mod p
pub proof fn lemma_fev9_R(v: int) ensures fev9(v * r256()) == v % P9()
{
    lemma_params9();
    let u = r256() * RINV_P9();
    assert(v * r256() * RINV_P9() == v * u) by(nonlinear_arith) requires u == r256() * RINV_P9();
    lemma_fp9_unit(v, u, P9());
}
// fev9(v) * R == v mod p
pub proof fn lemma_fev9_timesR(v: int) ensures (fev9(v) * r256()) % P9() == v % P9()
{
    lemma_params9();
    let u = r256() * RINV_P9();
    lemma_mul_mod_noop_general(v * RINV_P9(), r256(), P9());
    assert(v * RINV_P9() * r256() == v * u) by(nonlinear_arith) requires u == r256() * RINV_P9();
    lemma_fp9_unit(v, u, P9());
}
pub proof fn lemma_fev9_inj(x: int, y: int) requires 0 <= x < P9(), 0 <= y < P9(), fev9(x) == fev9(y) ensures x == y
{
    lemma_fev9_timesR(x); lemma_fev9_timesR(y);
    lemma_fp9_small(x, P9()); lemma_fp9_small(y, P9());
}
pub proof fn lemma_fev9_add(v: int, a: int, b: int) requires v % P9() == (a + b) % P9() ensures fev9(v) == (fev9(a) + fev9(b)) % P9()
{
    lemma_params9();
    lemma_fev9_cong(v, a + b);
    assert((a + b) * RINV_P9() == a * RINV_P9() + b * RINV_P9()) by(nonlinear_arith);
    lemma_add_mod_noop(a * RINV_P9(), b * RINV_P9(), P9());
}
pub proof fn lemma_fev9_sub(v: int, a: int, b: int) requires v % P9() == (a - b) % P9() ensures fev9(v) == (fev9(a) - fev9(b)) % P9()
{
    lemma_params9();
    lemma_fev9_cong(v, a - b);
    assert((a - b) * RINV_P9() == a * RINV_P9() - b * RINV_P9()) by(nonlinear_arith);
    lemma_sub_mod_noop(a * RINV_P9(), b * RINV_P9(), P9());
}
// Montgomery product: res * R == a * b (mod p)  ==>  fev9(res) == fev9(a) * fev9(b) (mod p)
pub proof fn lemma_fev9_mont(res: int, a: int, b: int) requires (res * r256()) % P9() == (a * b) % P9() ensures fev9(res) == (fev9(a) * fev9(b)) % P9()
{
    lemma_params9();
    let ri = RINV_P9(); let rr = r256(); let p = P9();
    let u = rr * ri;
    lemma_mul_mod_noop(a * ri, b * ri, p);
    assert((a * ri) * (b * ri) == (a * b) * (ri * ri)) by(nonlinear_arith);
    lemma_fp9_cong_mul(res * rr, a * b, ri * ri, p);
    assert((res * rr) * (ri * ri) == (res * ri) * u) by(nonlinear_arith) requires u == rr * ri;
    lemma_fp9_unit(res * ri, u, p);
}
// ---------------------------------------------------------------- postconditions of the add/sub/neg reductions
pub proof fn lemma_fp9_add_post(a: int, b: int, v: int)
    requires 0 <= a < P9(), 0 <= b < P9(), (v == a + b && a + b < P9()) || (v == a + b - P9() && a + b >= P9())
    ensures 0 <= v < P9(), v == (a + b) % P9(), fev9(v) == (fev9(a) + fev9(b)) % P9()
{
    lemma_params9();
    if a + b >= P9() { lemma_fp9_mod_shift(v, 1, P9()); }
    lemma_fp9_small(v, P9());
    lemma_fev9_add(v, a, b);
}
pub proof fn lemma_fp9_sub_post(a: int, b: int, v: int)
    requires 0 <= a <= P9(), 0 <= b < P9(), (v == a - b && a >= b) || (v == a - b + P9() && a < b)
    ensures 0 <= v <= P9(), v < P9() || (a == P9() && b == 0), v % P9() == (a - b) % P9(), fev9(v) == (fev9(a) - fev9(b)) % P9()
{
    lemma_params9();
    if a < b { lemma_fp9_mod_shift(a - b, 1, P9()); }
    lemma_fev9_sub(v, a, b);
}
pub proof fn lemma_fp9_neg_post(a: int, v: int)
    requires 0 <= a < P9(), (a == 0 && v == 0) || (a > 0 && v == P9() - a)
    ensures 0 <= v < P9(), fev9(v) == (P9() - fev9(a)) % P9()
{
    lemma_params9();
    assert(0 * RINV_P9() == 0);
    lemma_fp9_small(0, P9());
    lemma_mod_multiples_basic(1, P9());
    if a > 0 {
        lemma_fp9_mod_shift(0 - a, 1, P9());
        lemma_fev9_sub(v, 0, a);
        lemma_fp9_mod_shift(fev9(0) - fev9(a), 1, P9());
    }
}
// ---------------------------------------------------------------- Montgomery reduction
// core: z + ((z mod R) * p' mod R) * p is divisible by R when p * p' == -1 (mod R)
pub proof fn lemma_fp9_mont_div(z: int, zl: int, tl: int, pp: int, pv: int, r: int)
    requires r > 0, zl == z % r, 0 <= z, tl == (zl * pp) % r, (pv * pp + 1) % r == 0,
    ensures (z + tl * pv) % r == 0
{
    let k1 = z / r;
    let k2 = (zl * pp) / r;
    let k3 = (pv * pp + 1) / r;
    lemma_fundamental_div_mod(z, r);
    lemma_fundamental_div_mod(zl * pp, r);
    lemma_fundamental_div_mod(pv * pp + 1, r);
    lemma_mul_is_commutative(r, k1); lemma_mul_is_commutative(r, k2); lemma_mul_is_commutative(r, k3);
    assert(z == k1 * r + zl);
    assert(zl * pp == k2 * r + tl);
    assert(pv * pp + 1 == k3 * r);
    let zp = zl * pp;
    let vp = pv * pp;
    // tl * pv == (zl*pp - k2*r) * pv == zl * (pv*pp) - (k2*pv) * r
    assert(tl * pv == zl * vp - (k2 * pv) * r) by(nonlinear_arith) requires tl == zp - k2 * r, zp == zl * pp, vp == pv * pp;
    // zl * (pv*pp) == zl * (k3*r - 1)
    assert(zl * vp == (zl * k3) * r - zl) by(nonlinear_arith) requires vp == k3 * r - 1;
    assert(k1 * r + (zl * k3) * r - (k2 * pv) * r == (k1 - k2 * pv + zl * k3) * r) by(nonlinear_arith);
    assert(z + tl * pv == (k1 - k2 * pv + zl * k3) * r);
    lemma_mod_multiples_basic(k1 - k2 * pv + zl * k3, r);
}
// the quotient is below 2p
pub proof fn lemma_fp9_mont_q(a: int, b: int, tl: int, q: int, p: int, r: int)
    requires 0 <= a < p, 0 <= b < p, 0 <= tl < r, 0 < p < r, q * r == a * b + tl * p
    ensures 0 <= q < 2 * p, 0 <= a * b
{
    assert(0 <= a * b && a * b <= p * b) by(nonlinear_arith) requires 0 <= a < p, 0 <= b;
    assert(p * b <= p * p) by(nonlinear_arith) requires 0 <= b < p;
    assert(p * p <= p * r) by(nonlinear_arith) requires 0 < p < r;
    assert(0 <= tl * p && tl * p <= (r - 1) * p) by(nonlinear_arith) requires 0 <= tl < r, 0 < p;
    assert((r - 1) * p == p * r - p) by(nonlinear_arith);
    let pr = p * r;
    assert(q * r < 2 * pr);
    assert(q < 2 * p) by(nonlinear_arith) requires q * r < 2 * pr, pr == p * r, r > 0;
    assert(q >= 0) by(nonlinear_arith) requires q * r >= 0, r > 0;
}
// final conditional subtraction
pub proof fn lemma_fp9_mont_post(a: int, b: int, tl: int, q: int, res: int)
    requires q * r256() == a * b + tl * P9(), (res == q && q < P9()) || (res == q - P9() && q >= P9())
    ensures (res * r256()) % P9() == (a * b) % P9(), fev9(res) == (fev9(a) * fev9(b)) % P9()
{
    lemma_params9();
    let rr = r256(); let p = P9();
    lemma_fp9_mod_shift(a * b, tl, p);
    if q >= p {
        assert((q - p) * rr == q * rr + (0 - rr) * p) by(nonlinear_arith);
        lemma_fp9_mod_shift(q * rr, 0 - rr, p);
    }
    lemma_fev9_mont(res, a, b);
}
// ---------------------------------------------------------------- conversions
pub proof fn lemma_fp9_from_mont_post(a: int, res: int)
    requires 0 <= res < P9(), (res * r256()) % P9() == (a * 1) % P9()
    ensures res == fev9(a)
{
    lemma_params9();
    lemma_fev9_timesR(a);
    lemma_fev9_range(a);
    // res * R == fev9(a) * R (mod p)  ==> res == fev9(a)
    lemma_fev9_R(res); lemma_fev9_R(fev9(a));
    lemma_fev9_cong(res * r256(), fev9(a) * r256());
    lemma_fp9_small(res, P9()); lemma_fp9_small(fev9(a), P9());
}
// ---------------------------------------------------------------- one-coefficient vectors (the trait contract speaks about Seq<int>)
pub proof fn lemma_fp9_seq1(a: int, b: int) ensures (seq![a] == seq![b]) == (a == b), seq![a][0] == a, seq![b][0] == b
{
    if seq![a] == seq![b] { assert(seq![a][0] == seq![b][0]); }
}
// ---------------------------------------------------------------- zero, halving
pub proof fn lemma_fp9_zero(a: Seq<u64>) requires canon9(a) ensures (fe9(a) == 0) == (val4(a) == 0)
{
    lemma_params9(); lemma_val4_bounds(a);
    assert(0 * RINV_P9() == 0);
    lemma_fp9_small(0, P9());
    if fe9(a) == 0 { lemma_fev9_inj(val4(a), 0); }
}
// one limb of the 256-bit right shift by one: the new limb is the old one halved plus the low bit of the next limb on top
pub proof fn lemma_fp9_shr1(x: u64, y: u64)
    ensures 2 * (((x >> 1) | ((y & 1) << 63)) as int) == x as int - (x & 1) as int + 0x1_0000_0000_0000_0000int * (y & 1) as int,
        (x & 1) <= 1, (y & 1) <= 1
{
    let n = (x >> 1) | ((y & 1) << 63);
    assert(n == (x >> 1) + (y & 1) * 0x8000_0000_0000_0000 && (x >> 1) + (y & 1) * 0x8000_0000_0000_0000 <= 0xffff_ffff_ffff_ffff
        && x == 2 * (x >> 1) + (x & 1) && (x & 1) <= 1 && (y & 1) <= 1 && (x >> 1) <= 0x7fff_ffff_ffff_ffff) by(bit_vector)
        requires n == (x >> 1) | ((y & 1) << 63);
}
// the 256-bit right shift by one across four limbs, with c shifted in on top
pub proof fn lemma_fp9_shr256(a: Seq<u64>, c: u64, n: Seq<u64>)
    requires a.len() == 4, n.len() == 4, c <= 1,
        n[0] == (a[0] >> 1) | ((a[1] & 1) << 63), n[1] == (a[1] >> 1) | ((a[2] & 1) << 63),
        n[2] == (a[2] >> 1) | ((a[3] & 1) << 63), n[3] == (a[3] >> 1) | ((c & 1) << 63),
    ensures 2 * val4(n) == val4(a) - (a[0] & 1) as int + (if c == 1 { r256() } else { 0 }),
        // the same, limb by limb (fail-fast hint: lets the solver compute the limbs of n instead of searching for them)
        (a[0] & 1) <= 1, (a[1] & 1) <= 1, (a[2] & 1) <= 1, (a[3] & 1) <= 1,
        2 * (n[0] as int) == a[0] as int - (a[0] & 1) as int + 0x1_0000_0000_0000_0000int * (a[1] & 1) as int,
        2 * (n[1] as int) == a[1] as int - (a[1] & 1) as int + 0x1_0000_0000_0000_0000int * (a[2] & 1) as int,
        2 * (n[2] as int) == a[2] as int - (a[2] & 1) as int + 0x1_0000_0000_0000_0000int * (a[3] & 1) as int,
        2 * (n[3] as int) == a[3] as int - (a[3] & 1) as int + 0x1_0000_0000_0000_0000int * (c as int),
{
    let a0 = a[0]; let a1 = a[1]; let a2 = a[2]; let a3 = a[3];
    lemma_fp9_shr1(a0, a1); lemma_fp9_shr1(a1, a2); lemma_fp9_shr1(a2, a3); lemma_fp9_shr1(a3, c);
    assert(c & 1 == c) by(bit_vector) requires c <= 1;
    let b0 = (a0 & 1) as int; let b1 = (a1 & 1) as int; let b2 = (a2 & 1) as int; let b3 = (a3 & 1) as int; let b4 = c as int;
    let n0 = n[0] as int; let n1 = n[1] as int; let n2 = n[2] as int; let n3 = n[3] as int;
    assert(2 * n0 == a0 as int - b0 + 0x1_0000_0000_0000_0000int * b1);
    assert(2 * n1 == a1 as int - b1 + 0x1_0000_0000_0000_0000int * b2);
    assert(2 * n2 == a2 as int - b2 + 0x1_0000_0000_0000_0000int * b3);
    assert(2 * n3 == a3 as int - b3 + 0x1_0000_0000_0000_0000int * b4);
}
// the value that is shifted (x when x is even, x + p when x is odd) is even: the low limb of it has low bit 0
pub proof fn lemma_fp9_div2_parity(x: Seq<u64>, p: Seq<u64>, s: Seq<u64>, c: bool, odd: bool)
    requires x.len() == 4, p.len() == 4, s.len() == 4,
        odd ==> val4(s) + (if c { r256() } else { 0 }) == val4(x) + val4(p),
        !odd ==> s =~= x && !c,
        odd == ((x[0] & 1) == 1), (p[0] & 1) == 1,
    ensures (s[0] & 1) == 0
{
    let x0 = x[0]; let p0 = p[0]; let s0 = s[0];
    assert(x0 as int == 2 * ((x0 >> 1) as int) + (x0 & 1) as int && (x0 & 1) <= 1) by(bit_vector);
    assert(p0 as int == 2 * ((p0 >> 1) as int) + (p0 & 1) as int && (p0 & 1) <= 1) by(bit_vector);
    assert(s0 as int == 2 * ((s0 >> 1) as int) + (s0 & 1) as int && (s0 & 1) <= 1) by(bit_vector);
    if odd {
        let hx = x[1] as int + 0x1_0000_0000_0000_0000int * (x[2] as int + 0x1_0000_0000_0000_0000int * (x[3] as int));
        let hp = p[1] as int + 0x1_0000_0000_0000_0000int * (p[2] as int + 0x1_0000_0000_0000_0000int * (p[3] as int));
        let hs = s[1] as int + 0x1_0000_0000_0000_0000int * (s[2] as int + 0x1_0000_0000_0000_0000int * (s[3] as int));
        let cc: int = if c { 0x8000_0000_0000_0000int * 0x1_0000_0000_0000_0000int * 0x1_0000_0000_0000_0000int * 0x1_0000_0000_0000_0000int } else { 0 };
        let m = ((x0 >> 1) as int) + ((p0 >> 1) as int) + 1 - ((s0 >> 1) as int) + 0x8000_0000_0000_0000int * (hx + hp - hs) - cc;
        assert((s0 & 1) as int == 2 * m);
    }
}
pub proof fn lemma_fp9_div2_post(x: int, h: int, t: int)
    requires 0 <= x < P9(), 2 * h == t, t == x || t == x + P9()
    ensures 0 <= h < P9(), (fev9(h) + fev9(h)) % P9() == fev9(x)
{
    lemma_params9();
    if t == x + P9() { lemma_fp9_mod_shift(x, 1, P9()); }
    lemma_fev9_add(x, h, h);
}
// ---------------------------------------------------------------- powers
pub proof fn lemma_fp9_pow_mod_range(x: int, e: nat, m: int) requires m > 0 ensures 0 <= pow_mod(x, e, m) < m decreases e
{
    if e == 0 { lemma_fp9_mod_range(1, m); } else { lemma_fp9_mod_range(pow_mod(x, (e - 1) as nat, m) * x, m); }
}
pub proof fn lemma_fp9_pow_mod_add(x: int, j: nat, k: nat, m: int) requires m > 0
    ensures pow_mod(x, j + k, m) == (pow_mod(x, j, m) * pow_mod(x, k, m)) % m
    decreases k
{
    let pj = pow_mod(x, j, m);
    lemma_fp9_pow_mod_range(x, j, m);
    if k == 0 {
        lemma_mul_mod_noop_general(pj, 1, m);
        assert(pj * 1 == pj);
        lemma_fp9_small(pj, m);
    } else {
        let k1 = (k - 1) as nat;
        lemma_fp9_pow_mod_add(x, j, k1, m);
        let pk1 = pow_mod(x, k1, m);
        assert((j + k - 1) as nat == j + k1);
        lemma_mul_mod_noop_general(pj * pk1, x, m);
        lemma_mul_mod_noop_general(pj, pk1 * x, m);
        assert((pj * pk1) * x == pj * (pk1 * x)) by(nonlinear_arith);
    }
}
// value of the k most significant limbs of e
pub open spec fn fp9_hv(e: Seq<u64>, k: int) -> int {
    if k <= 0 { 0 }
    else if k == 1 { e[3] as int }
    else if k == 2 { e[2] as int + 0x1_0000_0000_0000_0000int * (e[3] as int) }
    else if k == 3 { e[1] as int + 0x1_0000_0000_0000_0000int * (e[2] as int + 0x1_0000_0000_0000_0000int * (e[3] as int)) }
    else { val4(e) }
}
pub proof fn lemma_fp9_hv_step(e: Seq<u64>, k: int) requires e.len() == 4, 0 <= k < 4
    ensures fp9_hv(e, k + 1) == fp9_hv(e, k) * 0x1_0000_0000_0000_0000int + e[3 - k] as int, fp9_hv(e, k) >= 0
{ }
pub proof fn lemma_fp9_mul_eq(x: int, y: int, z: int) requires y == z ensures x * y == x * z { }
pub open spec fn fp9_p2(n: int) -> int decreases n { if n <= 0 { 1 } else { 2 * fp9_p2(n - 1) } }
pub proof fn lemma_fp9_p2_64() ensures fp9_p2(64) == 0x1_0000_0000_0000_0000int
{ assert(fp9_p2(64) == 0x1_0000_0000_0000_0000int) by(compute); }
// one square-and-multiply step on the exponent bookkeeping: prefix = hv * pw + top
pub proof fn lemma_fp9_pow_step(x: int, pre: nat, hv: int, pw: int, top: int, bit: int, fsq: int, fnew: int)
    requires pre == hv * pw + top, hv >= 0, pw >= 1, top >= 0, bit == 0 || bit == 1,
        fsq == (pow_mod(x, pre, P9()) * pow_mod(x, pre, P9())) % P9(),
        (bit == 0 && fnew == fsq) || (bit == 1 && fnew == (fsq * x) % P9()),
    ensures 2 * pre + bit == hv * (2 * pw) + (2 * top + bit), fnew == pow_mod(x, (2 * pre + bit) as nat, P9())
{
    lemma_params9();
    lemma_fp9_pow_mod_add(x, pre, pre, P9());
    assert(hv * (2 * pw) == 2 * (hv * pw)) by(nonlinear_arith);
    assert(pre + pre == 2 * pre);
    if bit == 1 {
        assert((2 * pre + 1 - 1) as nat == 2 * pre);
    }
}
// ---------------------------------------------------------------- digit-wise form of the limb operations (fail-fast hints)
// The value-level contracts of u256_add / u256_sub are single equations with coefficients 2^64..2^192 over twelve limbs. When an
// obligation of a caller is false the solver has to produce limbs satisfying them, and its integer search on such an equation is what
// exhausts the resource limit. The schoolbook rows below (carries are functions of the inputs) let it compute a witness by propagation.
pub open spec fn fp9_cy(a: int, b: int, c: int) -> int { if a + b + c >= 0x1_0000_0000_0000_0000int { 1int } else { 0int } }
pub open spec fn fp9_bw(a: int, b: int, c: int) -> int { if a - b - c < 0 { 1int } else { 0int } }
pub open spec fn fp9_add_dig(a: Seq<u64>, b: Seq<u64>, r: Seq<u64>) -> bool {
    let c0 = fp9_cy(a[0] as int, b[0] as int, 0);
    let c1 = fp9_cy(a[1] as int, b[1] as int, c0);
    let c2 = fp9_cy(a[2] as int, b[2] as int, c1);
    let c3 = fp9_cy(a[3] as int, b[3] as int, c2);
    r[0] as int == a[0] as int + b[0] as int - 0x1_0000_0000_0000_0000int * c0
    && r[1] as int == a[1] as int + b[1] as int + c0 - 0x1_0000_0000_0000_0000int * c1
    && r[2] as int == a[2] as int + b[2] as int + c1 - 0x1_0000_0000_0000_0000int * c2
    && r[3] as int == a[3] as int + b[3] as int + c2 - 0x1_0000_0000_0000_0000int * c3
}
// carry out of the 256-bit addition
pub open spec fn fp9_add_cy(a: Seq<u64>, b: Seq<u64>) -> bool {
    fp9_cy(a[3] as int, b[3] as int, fp9_cy(a[2] as int, b[2] as int, fp9_cy(a[1] as int, b[1] as int, fp9_cy(a[0] as int, b[0] as int, 0)))) == 1
}
pub open spec fn fp9_sub_dig(a: Seq<u64>, b: Seq<u64>, r: Seq<u64>) -> bool {
    let b0 = fp9_bw(a[0] as int, b[0] as int, 0);
    let b1 = fp9_bw(a[1] as int, b[1] as int, b0);
    let b2 = fp9_bw(a[2] as int, b[2] as int, b1);
    let b3 = fp9_bw(a[3] as int, b[3] as int, b2);
    r[0] as int == a[0] as int - b[0] as int + 0x1_0000_0000_0000_0000int * b0
    && r[1] as int == a[1] as int - b[1] as int - b0 + 0x1_0000_0000_0000_0000int * b1
    && r[2] as int == a[2] as int - b[2] as int - b1 + 0x1_0000_0000_0000_0000int * b2
    && r[3] as int == a[3] as int - b[3] as int - b2 + 0x1_0000_0000_0000_0000int * b3
}
pub open spec fn fp9_sub_bw(a: Seq<u64>, b: Seq<u64>) -> bool {
    fp9_bw(a[3] as int, b[3] as int, fp9_bw(a[2] as int, b[2] as int, fp9_bw(a[1] as int, b[1] as int, fp9_bw(a[0] as int, b[0] as int, 0)))) == 1
}
// r = a + b mod 2^256 (the carry flag may have been discarded by the caller)
pub proof fn fp9_add_digits(a: Seq<u64>, b: Seq<u64>, r: Seq<u64>)
    requires a.len() == 4, b.len() == 4, r.len() == 4,
        val4(r) - val4(a) - val4(b) == 0 || val4(r) - val4(a) - val4(b) == -r256(),
    ensures fp9_add_dig(a, b, r), fp9_add_cy(a, b) == (val4(r) - val4(a) - val4(b) != 0), fp9_add_cy(a, b) == (val4(a) + val4(b) >= r256()),
{
    let c0 = fp9_cy(a[0] as int, b[0] as int, 0);
    let c1 = fp9_cy(a[1] as int, b[1] as int, c0);
    let c2 = fp9_cy(a[2] as int, b[2] as int, c1);
    let c3 = fp9_cy(a[3] as int, b[3] as int, c2);
    let r0 = (a[0] as int + b[0] as int - 0x1_0000_0000_0000_0000int * c0) as u64;
    let r1 = (a[1] as int + b[1] as int + c0 - 0x1_0000_0000_0000_0000int * c1) as u64;
    let r2 = (a[2] as int + b[2] as int + c1 - 0x1_0000_0000_0000_0000int * c2) as u64;
    let r3 = (a[3] as int + b[3] as int + c2 - 0x1_0000_0000_0000_0000int * c3) as u64;
    let rp = seq![r0, r1, r2, r3];
    assert(val4(rp) + c3 * r256() == val4(a) + val4(b));
    lemma_val4_bounds(rp); lemma_val4_bounds(r);
    assert(val4(rp) == val4(r));
    lemma_val4_inj(r, rp);
}
// r = a - b mod 2^256 (the borrow flag may have been discarded by the caller)
pub proof fn fp9_sub_digits(a: Seq<u64>, b: Seq<u64>, r: Seq<u64>)
    requires a.len() == 4, b.len() == 4, r.len() == 4,
        val4(r) - val4(a) + val4(b) == 0 || val4(r) - val4(a) + val4(b) == r256(),
    ensures fp9_sub_dig(a, b, r), fp9_sub_bw(a, b) == (val4(r) - val4(a) + val4(b) != 0), fp9_sub_bw(a, b) == (val4(a) < val4(b)),
{
    let b0 = fp9_bw(a[0] as int, b[0] as int, 0);
    let b1 = fp9_bw(a[1] as int, b[1] as int, b0);
    let b2 = fp9_bw(a[2] as int, b[2] as int, b1);
    let b3 = fp9_bw(a[3] as int, b[3] as int, b2);
    let r0 = (a[0] as int - b[0] as int + 0x1_0000_0000_0000_0000int * b0) as u64;
    let r1 = (a[1] as int - b[1] as int - b0 + 0x1_0000_0000_0000_0000int * b1) as u64;
    let r2 = (a[2] as int - b[2] as int - b1 + 0x1_0000_0000_0000_0000int * b2) as u64;
    let r3 = (a[3] as int - b[3] as int - b2 + 0x1_0000_0000_0000_0000int * b3) as u64;
    let rp = seq![r0, r1, r2, r3];
    assert(val4(rp) - b3 * r256() == val4(a) - val4(b));
    lemma_val4_bounds(rp); lemma_val4_bounds(r);
    assert(val4(rp) == val4(r));
    lemma_val4_inj(r, rp);
}
// whatever 256-bit operation (a + b, a - b or b - a, modulo 2^256) produced r from a and b: its digit rows. No precondition, so this hint
// itself never fails; it is placed right after a u256_add / u256_sub call, before the obligation that states which operation was expected.
pub open spec fn fp9_any_dig(a: Seq<u64>, b: Seq<u64>, r: Seq<u64>) -> bool {
    ((val4(r) - val4(a) - val4(b) == 0 || val4(r) - val4(a) - val4(b) == -r256()) ==> fp9_add_dig(a, b, r) && fp9_add_cy(a, b) == (val4(r) - val4(a) - val4(b) != 0))
    && ((val4(r) - val4(a) + val4(b) == 0 || val4(r) - val4(a) + val4(b) == r256()) ==> fp9_sub_dig(a, b, r) && fp9_sub_bw(a, b) == (val4(r) - val4(a) + val4(b) != 0))
    && ((val4(r) - val4(b) + val4(a) == 0 || val4(r) - val4(b) + val4(a) == r256()) ==> fp9_sub_dig(b, a, r) && fp9_sub_bw(b, a) == (val4(r) - val4(b) + val4(a) != 0))
    && 0 <= val4(r) < r256()
}
pub proof fn fp9_digits_any(a: Seq<u64>, b: Seq<u64>, r: Seq<u64>)
    requires a.len() == 4, b.len() == 4, r.len() == 4,
    ensures fp9_any_dig(a, b, r)
{
    lemma_val4_bounds(r);
    if val4(r) - val4(a) - val4(b) == 0 || val4(r) - val4(a) - val4(b) == -r256() { fp9_add_digits(a, b, r); }
    if val4(r) - val4(a) + val4(b) == 0 || val4(r) - val4(a) + val4(b) == r256() { fp9_sub_digits(a, b, r); }
    if val4(r) - val4(b) + val4(a) == 0 || val4(r) - val4(b) + val4(a) == r256() { fp9_sub_digits(b, a, r); }
}
//@section code gm-sm9/src/fields/fp.rs
type Fp = U256;

#[verifier::spinoff_prover]
fn fp_pow(a: &Fp, e: &U256) -> (r: Fp)
    requires canon9(a@)
    ensures canon9(r@), fe9(r@) == pow_mod(fe9(a@), val4(e@) as nat, P9())
{
    let mut r = SM9_MODP_MONT_ONE;
    let mut w = 0u64;
    proof {
        lemma_params9(); lemma_fp9_consts();
        lemma_fp9_small(1, P9());
        // fp_inv (a method of the impl whose fp_sqr/fp_mul are called here) calls fp_pow, so fp_pow sits in a call-graph cycle and Verus
        // emits vstd's blanket impl `DoubleEndedIterator => DoubleEndedIteratorSpec` (needed by the `.rev()` loop) only after this
        // function unless it is mentioned explicitly; this ghost mention creates the dependency (it states nothing).
        let rg: core::ops::Range<i32> = 0..4;
        let pb = vstd::std_specs::iter::DoubleEndedIteratorSpec::peek_back(&rg, 0);
    }
    for i in it: (0..4).rev()
        invariant
            canon9(a@), canon9(r@), 0 <= it.index@ <= 4,
            fp9_hv(e@, it.index@ as int) >= 0,
            fe9(r@) == pow_mod(fe9(a@), fp9_hv(e@, it.index@ as int) as nat, P9()),
    {
        w = e[i];
        let ghost k = it.index@ as int;
        let ghost hv = fp9_hv(e@, k);
        let ghost w0 = w as int;
        let ghost mut top: int = 0;
        let ghost mut pw: int = 1;
        let ghost mut pre: nat = hv as nat;
        proof { lemma_fp9_hv_step(e@, k); assert(hv * 1 == hv); }
        for j in jt: 0..64
            invariant
                canon9(a@), canon9(r@), hv >= 0, top >= 0, pw >= 1, pw == fp9_p2(jt.index@ as int),
                w0 * pw == top * 0x1_0000_0000_0000_0000int + w as int,
                pre == hv * pw + top,
                fe9(r@) == pow_mod(fe9(a@), pre, P9()),
        {
            let ghost wb = w;
            let ghost f0 = fe9(r@);
            r = r.fp_sqr();
            let ghost fsq = fe9(r@);
            proof { lemma_fp9_seq1(f0, 0); lemma_fp9_seq1(fsq, (f0 * f0) % P9()); }
            if w & 0x8000000000000000 != 0 {
                r = r.fp_mul(a);
                proof { lemma_fp9_seq1(fsq, fe9(a@)); lemma_fp9_seq1(fe9(r@), (fsq * fe9(a@)) % P9()); }
            }
            w <<= 1;
            proof {
                let bit: int = if wb & 0x8000000000000000 != 0 { 1 } else { 0 };
                assert(wb & 0x8000000000000000 != 0 ==> wb >= 0x8000000000000000 && (wb << 1) == ((wb - 0x8000000000000000) as u64) * 2) by(bit_vector);
                assert(wb & 0x8000000000000000 == 0 ==> wb < 0x8000000000000000 && (wb << 1) == wb * 2) by(bit_vector);
                assert(2 * (wb as int) == bit * 0x1_0000_0000_0000_0000int + w as int);
                lemma_fp9_pow_step(fe9(a@), pre, hv, pw, top, bit, fsq, fe9(r@));
                assert(w0 * (2 * pw) == 2 * (w0 * pw)) by(nonlinear_arith);
                top = 2 * top + bit;
                pw = 2 * pw;
                pre = (2 * pre + bit) as nat;
            }
        }
        proof {
            lemma_fp9_p2_64();
            lemma_fp9_mul_eq(w0, pw, 0x1_0000_0000_0000_0000int);
            assert(top == w0);
            assert(w0 == e@[3 - k] as int);
        }
    }
    r
}

fn fp_to_mont(a: &Fp) -> (r: Fp)
    requires canon9(a@)
    ensures canon9(r@), fe9(r@) == val4(a@)
{
    proof {
        lemma_fp9_consts(); lemma_params9(); lemma_val4_bounds(a@);
        lemma_fp9_mod_range(r256() * r256(), P9());
        assert(fe9(SM9_MODP_2E512@) == r256() % P9()) by(compute);
        lemma_fev9_timesR(val4(a@));
        lemma_mul_mod_noop_general(fe9(a@), r256(), P9());
        lemma_fp9_small(val4(a@), P9());
    }
    mont_mul(a, &SM9_MODP_2E512)
}

fn fp_from_mont(a: &Fp) -> (r: Fp)
    requires canon9(a@)
    ensures canon9(r@), val4(r@) == fe9(a@)
{
    proof {
        lemma_fp9_consts(); lemma_params9(); lemma_val4_bounds(a@);
        assert(val4(SM9_ONE@) == 1);
        assert forall|res: int| 0 <= res < P9() && #[trigger] ((res * r256()) % P9()) == (val4(a@) * 1) % P9() implies res == fev9(val4(a@)) by {
            lemma_fp9_from_mont_post(val4(a@), res);
        }
    }
    mont_mul(a, &SM9_ONE)
}

fn fp_from_bytes(buf: &[u8]) -> (r: Fp)
    requires buf@.len() >= 32, be_val(buf@.subrange(0, 32)) < P9()
    ensures canon9(r@), fe9(r@) == be_val(buf@.subrange(0, 32))
{
    let mut t = u256_from_be_bytes(buf);
    t = fp_to_mont(&t);
    t
}

#[verifier::spinoff_prover]
fn mont_mul(a: &Fp, b: &Fp) -> (res: Fp)
    requires canon9(a@), canon9(b@)
    ensures canon9(res@), (val4(res@) * r256()) % P9() == (val4(a@) * val4(b@)) % P9(), fe9(res@) == (fe9(a@) * fe9(b@)) % P9()
{
    let mut r = [0u64; 4];

    let mut t = [0u64; 8];

    // z = a * b
    let mut z = u256_mul(a, b);
    let ghost z0 = z@;

    // t = low(z) * p'
    let z_low = [z[0], z[1], z[2], z[3]];
    let t1 = u256_mul(&z_low, &SM9_P_PRIME);
    t[0] = t1[0];
    t[1] = t1[1];
    t[2] = t1[2];
    t[3] = t1[3];

    // t = low(t) * p
    let t_low = [t[0], t[1], t[2], t[3]];
    t = u256_mul(&t_low, &SM9_P);

    // z = z + t
    let (sum, c) = u512_add(&z, &t);
    z = sum;

    // r = high(r)
    r = [z[4], z[5], z[6], z[7]];
    let ghost r0 = r@;
    proof {
        fp9_mm_reduce(a@, b@, z0, z_low@, t1@, t_low@, t@, sum@, c, r0);
        fp9_lin(); lemma_val4_bounds(r0);
        // boundary point of the comparison below
        if val4(r0) == val4(SM9_P@) { lemma_val4_inj(r0, SM9_P@); }
    }
    if c {
        r = u256_add(&r, &SM9_MODP_MONT_ONE).0;
    } else if u256_cmp(&r, &SM9_P) >= 0 {
        r = u256_sub(&r, &SM9_P).0
    }
    proof {
        fp9_digits_any(r0, SM9_MODP_MONT_ONE@, r@); fp9_digits_any(r0, SM9_P@, r@);
        fp9_digits_any(a@, SM9_MODP_MONT_ONE@, r@); fp9_digits_any(a@, SM9_P@, r@); fp9_digits_any(b@, SM9_MODP_MONT_ONE@, r@); fp9_digits_any(b@, SM9_P@, r@); // (a wrong first operand)
        // one call per case of the code, so that a wrong case is refuted under its own path condition
        if c { fp9_mm_final(val4(a@), val4(b@), val4(t_low@), val4(r0), val4(r@), c); }
        else if val4(r0) >= P9() { fp9_mm_final(val4(a@), val4(b@), val4(t_low@), val4(r0), val4(r@), c); }
        else { fp9_mm_final(val4(a@), val4(b@), val4(t_low@), val4(r0), val4(r@), c); }
    }
    r
}

impl FieldElement for Fp {
    spec fn ok(&self) -> bool { canon9(self@) }
    spec fn val(&self) -> Seq<int> { seq![fe9(self@)] }
    spec fn s_zero() -> Seq<int> { seq![0int] }
    spec fn s_one() -> Seq<int> { seq![1int] }
    spec fn s_add(a: Seq<int>, b: Seq<int>) -> Seq<int> { seq![(a[0] + b[0]) % P9()] }
    spec fn s_sub(a: Seq<int>, b: Seq<int>) -> Seq<int> { seq![(a[0] - b[0]) % P9()] }
    spec fn s_mul(a: Seq<int>, b: Seq<int>) -> Seq<int> { seq![(a[0] * b[0]) % P9()] }
    spec fn s_neg(a: Seq<int>) -> Seq<int> { seq![(P9() - a[0]) % P9()] }
    spec fn s_inv(a: Seq<int>) -> Seq<int> { seq![inv_p9(a[0])] }
    spec fn s_bytes(a: Seq<int>) -> Seq<u8> { be_bytes(a[0], 32) }

    fn zero() -> Self {
        proof { lemma_fp9_consts(); lemma_params9(); lemma_fp9_zero(SM9_ZERO@); }
        SM9_ZERO
    }

    fn one() -> Self {
        proof { lemma_fp9_consts(); }
        SM9_MODP_MONT_ONE
    }

    fn is_zero(&self) -> bool {
        proof {
            if canon9(self@) { lemma_fp9_zero(self@); }
            lemma_val4_zero(self@);
            lemma_fp9_seq1(fe9(self@), 0);
        }
        self == &SM9_ZERO
    }

    fn fp_sqr(&self) -> Self {
        self.fp_mul(self)
    }

    fn fp_double(&self) -> Self {
        self.fp_add(self)
    }

    fn fp_triple(&self) -> Self {
        self.fp_double().fp_add(self)
    }

    #[verifier::spinoff_prover]
    fn fp_add(&self, rhs: &Self) -> Self {
        let (r, c) = u256_add(self, rhs);
        proof {
            fp9_lin();
            lemma_val4_bounds(r@); lemma_val4_bounds(self@); lemma_val4_bounds(rhs@);
            fp9_digits_any(self@, rhs@, r@); fp9_digits_any(self@, self@, r@); fp9_digits_any(rhs@, rhs@, r@);
            if val4(r@) == val4(SM9_P@) { lemma_val4_inj(r@, SM9_P@); }
        }
        if c {
            let (diff, _borrow) = u256_add(&r, &SM9_MODP_MONT_ONE);
            proof {
                lemma_val4_bounds(diff@);
                fp9_digits_any(r@, SM9_MODP_MONT_ONE@, diff@);
                fp9_digits_any(self@, SM9_MODP_MONT_ONE@, diff@); fp9_digits_any(rhs@, SM9_MODP_MONT_ONE@, diff@); // (a wrong first operand)
                lemma_fp9_add_post(val4(self@), val4(rhs@), val4(diff@));
            }
            return diff;
        }
        if u256_cmp(&r, &SM9_P) >= 0 {
            let (diff, _borrow) = u256_sub(&r, &SM9_P);
            proof {
                lemma_val4_bounds(diff@);
                fp9_digits_any(r@, SM9_P@, diff@);
                fp9_digits_any(self@, SM9_P@, diff@); fp9_digits_any(rhs@, SM9_P@, diff@); // (a wrong first operand)
                lemma_fp9_add_post(val4(self@), val4(rhs@), val4(diff@));
            }
            return diff;
        }
        proof { lemma_fp9_add_post(val4(self@), val4(rhs@), val4(r@)); }
        r
    }

    #[verifier::spinoff_prover]
    fn fp_sub(&self, rhs: &Self) -> Self {
        let (raw_diff, borrow) = u256_sub(&self, rhs);
        proof {
            fp9_lin();
            lemma_val4_bounds(raw_diff@); lemma_val4_bounds(self@); lemma_val4_bounds(rhs@);
            fp9_digits_any(self@, rhs@, raw_diff@); fp9_digits_any(self@, self@, raw_diff@); fp9_digits_any(rhs@, rhs@, raw_diff@);
        }
        if borrow {
            let (diff, _borrow) = u256_sub(&raw_diff, &SM9_MODP_MONT_ONE);
            proof {
                lemma_val4_bounds(diff@);
                fp9_digits_any(raw_diff@, SM9_MODP_MONT_ONE@, diff@);
                fp9_digits_any(self@, SM9_MODP_MONT_ONE@, diff@); fp9_digits_any(rhs@, SM9_MODP_MONT_ONE@, diff@); // (a wrong first operand)
                lemma_fp9_sub_post(val4(self@), val4(rhs@), val4(diff@));
            }
            diff
        } else {
            proof { lemma_fp9_sub_post(val4(self@), val4(rhs@), val4(raw_diff@)); }
            raw_diff
        }
    }

    fn fp_mul(&self, rhs: &Self) -> Self {
        mont_mul(self, rhs)
    }

    #[verifier::spinoff_prover]
    fn fp_neg(&self) -> Self {
        proof { fp9_lin(); lemma_val4_bounds(self@); lemma_fp9_zero(self@); lemma_fp9_seq1(fe9(self@), 0); }
        if self.is_zero() {
            proof { lemma_fp9_neg_post(val4(self@), val4(self@)); }
            self.clone()
        } else {
            proof {
                // the result of the subtraction below cannot be named: give the digit rows for every candidate
                assert forall|d: Seq<u64>| d.len() == 4 && #[trigger] val4(d) >= 0 implies fp9_any_dig(SM9_P@, self@, d) by {
                    fp9_digits_any(SM9_P@, self@, d);
                }
                lemma_fp9_neg_post(val4(self@), P9() - val4(self@));
            }
            u256_sub(&SM9_P, self).0
        }
    }

    #[verifier::spinoff_prover]
    fn fp_div2(&self) -> Self {
        let mut r = self.clone();
        let mut c = 0;
        proof { fp9_lin(); lemma_val4_bounds(self@); }
        if r[0] & 0x01 == 1 {
            let (sum, carry) = u256_add(self, &SM9_P);
            proof { fp9_digits_any(self@, SM9_P@, sum@); fp9_digits_any(self@, self@, sum@); }
            c = carry as u64;
            r = sum;
        } else {
            r[0] = self[0];
            r[1] = self[1];
            r[2] = self[2];
            r[3] = self[3];
        }
        let ghost r0 = r@;
        let ghost odd = (self@[0] & 1) == 1;
        proof {
            let x0 = self@[0];
            assert(x0 & 0x01 == 1 || x0 & 0x01 == 0) by(bit_vector);
            assert(SM9_P@[0] & 1 == 1) by(compute);
            assert(!odd ==> r0 =~= self@);
            lemma_fp9_div2_parity(self@, SM9_P@, r0, c == 1, odd);
        }
        r[0] = (r[0] >> 1) | ((r[1] & 1) << 63);
        r[1] = (r[1] >> 1) | ((r[2] & 1) << 63);
        r[2] = (r[2] >> 1) | ((r[3] & 1) << 63);
        r[3] = (r[3] >> 1) | ((c & 1) << 63);
        proof {
            lemma_fp9_shr256(r0, c, r@);
            let tt = val4(r0) + (if c == 1 { r256() } else { 0 });
            lemma_fp9_div2_post(val4(self@), val4(r@), tt);
            lemma_fp9_seq1(fe9(r@), 0);
        }
        r
    }

    fn fp_inv(&self) -> Self {
        proof { lemma_fp9_consts(); lemma_params9(); }
        fp_pow(self, &SM9_P_MINUS_TWO)
    }

    fn to_bytes_be(&self) -> Vec<u8> {
        let z = fp_from_mont(self);
        u256_to_be_bytes(&z)
    }
}
