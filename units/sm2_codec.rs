//@unit sm2_codec
//@serves C19 C20
//@source gm-sm2/src/key.rs
//@assume crate `hex` (outside the verifier): shim_hex_encode(b) returns hex_of(b) for an uninterpreted hex_of; shim_hex_decode(s) returning Ok(b) means hex_decodes(s, b) for an uninterpreted relation (upper and lower case accepted); bodies of the shims are the replaced crate calls (kept as comments: the crate is not linked into the verifier)
//@assume the calls into the crates hex, num-bigint and yasna terminate without panicking on every input and report malformed input as Err (C20 is proved for the library code around them, not for the crates)
//@assume ax_hex_roundtrip: decoding the hex form of b can only give b back: hex_decodes(hex_of(b), b2) ==> b2 == b
//@assume shim_map_err_len: `r.map_err(|_| FromHexError::InvalidStringLength)` keeps an Ok value and replaces any error by InvalidStringLength (external_body shim whose body is the replaced std expression; Verus does not accept the closure pattern `|_|`)
//@assume shim_to_string: `e.to_string()` on an error value (Sm2Error, FromHexError) returns some String and does not panic (external_body shim whose body is the replaced std expression; no contract)
//@assume crate `num-bigint`: BigUint is an opaque type with an uninterpreted integer value big_val; BigUint::from_bytes_be(b) has value be_val(b); BigUint::to_bytes_be(x) is a big-endian byte string of value big_val(x) (its minimality is NOT assumed, it is not needed)
//@assume crate `yasna`: construct_der of SEQUENCE{INTEGER x, INTEGER y, OCTET STRING h, OCTET STRING c} is der4(x, y, h, c) for an uninterpreted der4; parse_der returning Ok((x, y, h, c)) means the input is der4(x, y, h, c) and the two octet strings are not longer than the input
//@assume ax_der4_injective: DER is canonical: der4(x, y, h, c) == der4(x2, y2, h2, c2) ==> x == x2, y == y2, h == h2, c == c2
//@rewrite-text bytes.encode_hex::<String>() ==> shim_hex_encode(&bytes)
//@rewrite-text hex::decode(hex_str) ==> shim_hex_decode(hex_str)
//@rewrite-text e.to_string() ==> shim_to_string(&e)
//@rewrite-text Self::new(b.as_slice()).map_err(|_| FromHexError::InvalidStringLength) ==> shim_map_err_len(Self::new(b.as_slice()))
//@rewrite-text BigUint::from_bytes_be(&cipher[1..33]) ==> shim_big_from_be(&cipher[1..33])
//@rewrite-text BigUint::from_bytes_be(&cipher[33..65]) ==> shim_big_from_be(&cipher[33..65])
//@rewrite-text BigUint::to_bytes_be(&x) ==> shim_big_to_be(&x)
//@rewrite-text BigUint::to_bytes_be(&y) ==> shim_big_to_be(&y)
//@rewrite-text yasna::construct_der(|writer| { writer.write_sequence(|writer| { writer.next().write_biguint(&x); writer.next().write_biguint(&y); writer.next().write_bytes(&sm3); writer.next().write_bytes(&secret); }); }) ==> shim_der_encode(&x, &y, &sm3, &secret)
//@rewrite-text yasna::parse_der(ciphertext, |reader| { reader.read_sequence(|reader| { let x = reader.next().read_biguint()?; let y = reader.next().read_biguint()?; let sm3 = reader.next().read_bytes()?; let secret = reader.next().read_bytes()?; return Ok((x, y, sm3, secret)); }) }) .map_err(|_| Sm2Error::InvalidDer)? ==> shim_der_decode(ciphertext)?
//@include-spec sm2_math
//@include-spec sm3
//@include-spec sm2_ecc
//@include-spec sm2_util
//@include-spec sm2_rand
//@include-spec sm2_key
//@section spec
use vstd::arithmetic::div_mod::*;
// ---------------- crate `hex` ----------------
pub uninterp spec fn hex_of(b: Seq<u8>) -> Seq<char>;
pub uninterp spec fn hex_decodes(s: Seq<char>, b: Seq<u8>) -> bool;
#[verifier::external_body]
pub proof fn ax_hex_roundtrip(b: Seq<u8>, b2: Seq<u8>) requires hex_decodes(hex_of(b), b2) ensures b2 == b { }
// model of hex::FromHexError (only InvalidStringLength is constructed by the code)
enum FromHexError { InvalidHexCharacter { c: char, index: usize }, OddLength, InvalidStringLength }
#[verifier::external_body]
fn shim_hex_encode(bytes: &Vec<u8>) -> (r: String) ensures r@ == hex_of(bytes@)
{ unimplemented!() /* bytes.encode_hex::<String>() */ }
#[verifier::external_body]
fn shim_hex_decode(hex_str: &str) -> (r: Result<Vec<u8>, FromHexError>) ensures r is Ok ==> hex_decodes(hex_str@, r->Ok_0@)
{ unimplemented!() /* hex::decode(hex_str) */ }
#[verifier::external_body]
fn shim_map_err_len(r: Sm2Result<Sm2PublicKey>) -> (res: Result<Sm2PublicKey, FromHexError>)
    ensures r is Ok ==> res == Ok::<Sm2PublicKey, FromHexError>(r->Ok_0), r is Err ==> res == Err::<Sm2PublicKey, FromHexError>(FromHexError::InvalidStringLength)
{ r.map_err(|_| FromHexError::InvalidStringLength) }
// `e.to_string()` needs Display; the impls themselves are outside the verifier (error.rs of /repo, crate hex)
#[verifier::external]
impl core::fmt::Display for Sm2Error { fn fmt(&self, f: &mut core::fmt::Formatter<'_>) -> core::fmt::Result { Ok(()) } }
#[verifier::external]
impl core::fmt::Display for FromHexError { fn fmt(&self, f: &mut core::fmt::Formatter<'_>) -> core::fmt::Result { Ok(()) } }
#[verifier::external_body]
fn shim_to_string<T: core::fmt::Display>(e: &T) -> String { e.to_string() }
// ---------------- crates `num-bigint` and `yasna` ----------------
#[verifier::external_body]
pub struct BigUint { _p: u8 }
pub uninterp spec fn big_val(b: BigUint) -> int;
// DER encoding of SEQUENCE { INTEGER x, INTEGER y, OCTET STRING h, OCTET STRING c } (GM/T 0009 ciphertext)
pub uninterp spec fn der4(x: int, y: int, h: Seq<u8>, c: Seq<u8>) -> Seq<u8>;
#[verifier::external_body]
pub proof fn ax_der4_injective(x: int, y: int, h: Seq<u8>, c: Seq<u8>, x2: int, y2: int, h2: Seq<u8>, c2: Seq<u8>)
    requires der4(x, y, h, c) == der4(x2, y2, h2, c2) ensures x == x2, y == y2, h == h2, c == c2 { }
#[verifier::external_body]
fn shim_big_from_be(b: &[u8]) -> (r: BigUint) ensures big_val(r) == be_val(b@)
{ unimplemented!() /* BigUint::from_bytes_be(b) */ }
#[verifier::external_body]
fn shim_big_to_be(x: &BigUint) -> (r: Vec<u8>) ensures be_val(r@) == big_val(*x)
{ unimplemented!() /* BigUint::to_bytes_be(x) */ }
#[verifier::external_body]
fn shim_der_encode(x: &BigUint, y: &BigUint, sm3: &&[u8], secret: &&[u8]) -> (r: Vec<u8>) ensures r@ == der4(big_val(*x), big_val(*y), sm3@, secret@)
{ unimplemented!() /* yasna::construct_der(|writer| writer.write_sequence(|writer| { write_biguint(x); write_biguint(y); write_bytes(sm3); write_bytes(secret) })) */ }
#[verifier::external_body]
fn shim_der_decode(ciphertext: &[u8]) -> (r: Sm2Result<(BigUint, BigUint, Vec<u8>, Vec<u8>)>)
    ensures r is Ok ==> ciphertext@ == der4(big_val(r->Ok_0.0), big_val(r->Ok_0.1), r->Ok_0.2@, r->Ok_0.3@) && r->Ok_0.2@.len() + r->Ok_0.3@.len() <= ciphertext@.len()
{ unimplemented!() /* yasna::parse_der(ciphertext, |reader| reader.read_sequence(|reader| Ok((read_biguint, read_biguint, read_bytes, read_bytes)))).map_err(|_| Sm2Error::InvalidDer) */ }
// ---------------- GM/T 0009: ASN.1 form of the ciphertext ----------------
// the raw ciphertext 04 || x || y || C3 || C2 that the ASN.1 fields stand for
spec fn asn1_raw(x: int, y: int, h: Seq<u8>, c: Seq<u8>) -> Seq<u8> { seq![4u8] + be_bytes(x, 32) + be_bytes(y, 32) + h + c }
// what encrypt_asn1 produces for the nonce k: SEQUENCE { x1, y1, C3, C2 } of GB/T 32918.4 6.1
spec fn asn1_from_nonce(k: int, pa: Pt, m: Seq<u8>, der: Seq<u8>) -> bool {
    &&& 1 <= k < N()
    &&& ({ let c1 = g_smul(k, G()); let sp = g_smul(k, pa);
           der == der4(pt_x(c1), pt_y(c1), s_c3(sp, m), s_xor(m, s_kdf(xy_bytes(sp), m.len()))) })
}
// what decrypt_asn1 has checked when it returns m
spec fn asn1_dec_ok(d: int, ct: Seq<u8>, x: int, y: int, h: Seq<u8>, c: Seq<u8>, m: Seq<u8>) -> bool {
    &&& ct == der4(x, y, h, c) &&& 0 <= x < r256() &&& 0 <= y < r256() &&& h.len() == 32
    &&& dec_accept(d, asn1_raw(x, y, h, c), false, Sm2Model::C1C3C2, m)
}
spec fn asn1_dec_accept(d: int, ct: Seq<u8>, m: Seq<u8>) -> bool {
    exists|x: int, y: int, h: Seq<u8>, c: Seq<u8>| #[trigger] asn1_dec_ok(d, ct, x, y, h, c, m)
}
// ---------------- byte-string lemmas ----------------
proof fn cdc_be_val_zeros(z: Seq<u8>) requires forall|i: int| 0 <= i < z.len() ==> z[i] == 0 ensures be_val(z) == 0 decreases z.len()
{ if z.len() > 0 { cdc_be_val_zeros(z.drop_last()); } }
// leading zero bytes do not change the value
proof fn cdc_be_val_lead0(z: Seq<u8>, b: Seq<u8>) requires forall|i: int| 0 <= i < z.len() ==> z[i] == 0 ensures be_val(z + b) == be_val(b) decreases b.len()
{
    if b.len() == 0 { assert(z + b =~= z); cdc_be_val_zeros(z); }
    else {
        assert((z + b).drop_last() =~= z + b.drop_last());
        assert((z + b).last() == b.last());
        cdc_be_val_lead0(z, b.drop_last());
    }
}
// left-padding a big-endian string of at most 32 bytes with zeros gives the fixed-width encoding of its value
proof fn cdc_pad32(z: Seq<u8>, b: Seq<u8>)
    requires b.len() <= 32, z.len() == 32 - b.len(), forall|i: int| 0 <= i < z.len() ==> z[i] == 0
    ensures z + b == be_bytes(be_val(b), 32), 0 <= be_val(b) < r256()
{
    cdc_be_val_lead0(z, b);
    lemma_be_bytes_of_val(z + b);
    lemma_be_val_bounds(z + b);
    lemma_pow256n_32();
    assert((z + b).len() == 32);
}
// layout of the raw ciphertext 04 || x1 || y1 || C3 || C2 that encrypt_asn1 cuts into ASN.1 fields
proof fn cdc_layout(k: int, pa: Pt, m: Seq<u8>, c: Seq<u8>)
    requires enc_from_nonce(k, pa, m, false, Sm2Model::C1C3C2, c)
    ensures ({ let c1 = g_smul(k, G()); let sp = g_smul(k, pa);
        c.len() == 97 + m.len() && c1 != Pt::Inf && on_curve(c1)
        && be_val(c.subrange(1, 33)) == pt_x(c1) && be_val(c.subrange(33, 65)) == pt_y(c1)
        && c.subrange(65, 97) == s_c3(sp, m) && c.subrange(97, c.len() as int) == s_xor(m, s_kdf(xy_bytes(sp), m.len()))
        && c == asn1_raw(pt_x(c1), pt_y(c1), s_c3(sp, m), s_xor(m, s_kdf(xy_bytes(sp), m.len()))) })
{
    lemma_params(); lemma_g_on_curve(); lemma_pow256n_32();
    let c1 = g_smul(k, G()); let sp = g_smul(k, pa);
    ax_g_order(k); lemma_small_mod(k as nat, N() as nat); lemma_smul_closed(k, G());
    let x = pt_x(c1); let y = pt_y(c1);
    assert(c1 == Pt::Aff { x, y });
    let c3 = s_c3(sp, m); let c2 = s_xor(m, s_kdf(xy_bytes(sp), m.len()));
    lemma_sm3_len(be_bytes(pt_x(sp), 32) + m + be_bytes(pt_y(sp), 32));
    lemma_be_bytes_len(x, 32); lemma_be_bytes_len(y, 32);
    lemma_be_roundtrip(x, 32); lemma_be_roundtrip(y, 32);
    assert(c == seq![4u8] + be_bytes(x, 32) + be_bytes(y, 32) + c3 + c2);
    assert(c.subrange(1, 33) =~= be_bytes(x, 32));
    assert(c.subrange(33, 65) =~= be_bytes(y, 32));
    assert(c.subrange(65, 97) =~= c3);
    assert(c.subrange(97, c.len() as int) =~= c2);
}
//@section code gm-sm2/src/u256.rs
type U256 = [u64; 4];
//@section code gm-sm2/src/error.rs
type Sm2Result<T> = Result<T, Sm2Error>;
#[derive(PartialEq)]
enum Sm2Error {
    NotOnCurve,
    FieldSqrtError,
    InvalidDer,
    InvalidPublic,
    InvalidPrivate,
    ZeroDivisor,
    ZeroPoint,
    InvalidPoint,
    CheckPointErr,
    ZeroData,
    HashNotEqual,
    IdTooLong,
    ZeroFiled,
    InvalidFieldLen,
    ZeroSig,
    InvalidDigestLen,
    InvalidDigest,
    InvalidSecretKey,
    KdfHashError,
}
//@stub-trait sm2_fp FieldModOperation
//@section code gm-sm2/src/p256_ecc.rs
#[derive(Debug, Clone, Eq, PartialEq, Copy)]
struct Point {
    x: U256,
    y: U256,
    z: U256,
}
//@stub sm2_ecc Point::is_valid
//@stub sm2_ecc Point::to_byte_be
//@section code gm-sm2/src/util.rs
const DEFAULT_ID: &'static str = "1234567812345678";
//@stub sm2_key Sm2PublicKey::new
//@stub sm2_key Sm2PublicKey::encrypt
//@stub sm2_key Sm2PrivateKey::new
//@stub sm2_key Sm2PrivateKey::decrypt
//@section code gm-sm2/src/key.rs
enum Sm2Model {
    C1C2C3,
    C1C3C2,
}

#[derive(Debug, Clone, Copy)]
struct Sm2PublicKey {
    point: Point,
}

impl Sm2PublicKey {
    fn to_bytes(&self, compress: bool) -> (r: Vec<u8>)
        requires pk_ok(*self)
        ensures r@ == sec1(abs(self.point), compress)
    {
        self.point.to_byte_be(compress)
    }

    fn is_valid(&self) -> (r: bool)
        requires wf(self.point)
        ensures r == on_curve(abs(self.point))
    {
        self.point.is_valid()
    }

    fn encrypt_asn1(
        &self,
        msg: &[u8],
        compressed: bool,
        model: Sm2Model,
    ) -> (res: Sm2Result<Vec<u8>>)
        requires pk_ok(*self), 1 <= msg@.len() < 0x1_0000_0000
        ensures res is Ok ==> (exists|k: Seq<u64>| #[trigger] csprng(k) && asn1_from_nonce(val4(k), abs(self.point), msg@, res->Ok_0@)),
    {
        let _ = (compressed, model);
        let cipher = self.encrypt(msg, false, Sm2Model::C1C3C2)?;
        let ghost k = choose|k: Seq<u64>| csprng(k) && enc_from_nonce(val4(k), abs(self.point), msg@, false, Sm2Model::C1C3C2, cipher@);
        proof { cdc_layout(val4(k), abs(self.point), msg@, cipher@); }
        let x = shim_big_from_be(&cipher[1..33]);
        let y = shim_big_from_be(&cipher[33..65]);
        let sm3 = &cipher[65..97];
        let secret = &cipher[97..];
        Ok(shim_der_encode(&x, &y, &sm3, &secret))
    }

    fn to_hex_string(&self, compressed: bool) -> (r: String)
        requires pk_ok(*self)
        ensures r@ == hex_of(sec1(abs(self.point), compressed))
    {
        let bytes = self.to_bytes(compressed);
        shim_hex_encode(&bytes)
    }

    fn from_hex_string(hex_str: &str) -> (res: Result<Self, FromHexError>)
        ensures res is Ok ==> pk_ok(res->Ok_0) && (exists|bytes: Seq<u8>| #[trigger] hex_decodes(hex_str@, bytes) && sec1_decodes(bytes, abs(res->Ok_0.point))),
    {
        let bytes = shim_hex_decode(hex_str);
        match bytes {
            Ok(b) => shim_map_err_len(Self::new(b.as_slice())),
            Err(e) => Err(e),
        }
    }
}

#[derive(Debug, Clone)]
struct Sm2PrivateKey {
    d: U256,
    public_key: Sm2PublicKey,
}

impl Sm2PrivateKey {
    fn to_bytes_be(&self) -> (r: Vec<u8>)
        ensures r@ == be_bytes(val4(self.d@), 32)
    {
        self.d.to_byte_be()
    }

    fn decrypt_asn1(
        &self,
        ciphertext: &[u8],
        compressed: bool,
        model: Sm2Model,
    ) -> (res: Sm2Result<Vec<u8>>)
        requires sk_ok(*self), ciphertext@.len() < 0xffff_ff00
        ensures res is Ok ==> asn1_dec_accept(val4(self.d@), ciphertext@, res->Ok_0@),
    {
        let _ = (compressed, model);
        let (x, y, sm3, secret) = shim_der_decode(ciphertext)?;
        let ghost xv = big_val(x);
        let ghost yv = big_val(y);
        let x = shim_big_to_be(&x);
        let y = shim_big_to_be(&y);
        if x.len() > 32 || y.len() > 32 || sm3.len() != 32 {
            return Err(Sm2Error::InvalidDer);
        }

        let mut cipher: Vec<u8> = vec![0x04];
        cipher.extend_from_slice(&vec![0u8; 32 - x.len()]);
        let ghost zx = cipher@.subrange(1, cipher@.len() as int);
        cipher.extend_from_slice(&x);
        let ghost n1 = cipher@.len() as int;
        cipher.extend_from_slice(&vec![0u8; 32 - y.len()]);
        let ghost zy = cipher@.subrange(n1, cipher@.len() as int);
        cipher.extend_from_slice(&y);
        cipher.extend_from_slice(&sm3);
        cipher.extend_from_slice(&secret);
        proof {
            cdc_pad32(zx, x@); cdc_pad32(zy, y@);
            assert(cipher@ =~= seq![4u8] + (zx + x@) + (zy + y@) + sm3@ + secret@);
            assert(cipher@ == asn1_raw(xv, yv, sm3@, secret@));
            let d = val4(self.d@);
            assert forall|m: Seq<u8>| #[trigger] dec_accept(d, cipher@, false, Sm2Model::C1C3C2, m) implies asn1_dec_accept(d, ciphertext@, m) by {
                assert(asn1_dec_ok(d, ciphertext@, xv, yv, sm3@, secret@, m));
            }
        }
        self.decrypt(&cipher, false, Sm2Model::C1C3C2)
    }

    fn to_hex_string(&self) -> (r: String)
        ensures r@ == hex_of(be_bytes(val4(self.d@), 32))
    {
        let bytes = self.d.to_byte_be();
        shim_hex_encode(&bytes)
    }

    fn from_hex_string(hex_str: &str) -> (res: Result<Self, String>)
        ensures res is Ok ==> sk_ok(res->Ok_0) && (exists|bytes: Seq<u8>| #[trigger] hex_decodes(hex_str@, bytes) && bytes.len() == 32 && val4(res->Ok_0.d@) == be_val(bytes)),
    {
        let bytes = shim_hex_decode(hex_str);
        match bytes {
            Ok(b) => {
                let r = Self::new(b.as_slice());
                match r {
                    Ok(sk) => Ok(sk),
                    Err(e) => Err(shim_to_string(&e)),
                }
            }
            Err(e) => Err(shim_to_string(&e)),
        }
    }

    fn to_public_key(&self) -> (r: Sm2PublicKey)
        ensures r == self.public_key
    {
        self.public_key.clone()
    }
}
//@section spec
// ======================================================================================================
// Round-trip theorems (spec only, fully proved from ax_inv_p, ax_g_order, the group axioms of sm2_math,
// ax_hex_roundtrip and ax_der4_injective)
// ======================================================================================================
// ---- arithmetic mod p
proof fn cdc_nonzero_mod(a: int) requires -P() < a < P(), a != 0 ensures a % P() != 0
{
    lemma_params();
    if a > 0 { lemma_small_mod(a as nat, P() as nat); }
    else { lemma_mod_multiples_vanish(1, a, P()); lemma_small_mod((a + P()) as nat, P() as nat); }
}
// two square roots of the same value with the same parity are equal: Z_p has no zero divisors (ax_inv_p) and p is odd
proof fn cdc_sqrt_unique(y1: int, y2: int)
    requires 0 <= y1 < P(), 0 <= y2 < P(), (y1 * y1) % P() == (y2 * y2) % P(), y1 % 2 == y2 % 2
    ensures y1 == y2
{
    lemma_params();
    let p = P();
    if y1 != y2 {
        let a = y1 - y2; let b = y1 + y2;
        cdc_nonzero_mod(a);
        ax_inv_p(a);
        let ai = inv_p(a);
        // a * b == y1^2 - y2^2 == 0 (mod p)
        assert(a * b == y1 * y1 - y2 * y2) by(nonlinear_arith) requires a == y1 - y2, b == y1 + y2;
        lemma_sub_mod_noop(y1 * y1, y2 * y2, p);
        lemma_small_mod(0, p as nat);
        assert((a * b) % p == 0);
        // b == b * (a * ai) == (a * b) * ai == 0 (mod p)
        lemma_mul_mod_noop_general(a * b, ai, p);
        assert(0 * ai == 0);
        assert(((a * b) * ai) % p == 0);
        assert((a * b) * ai == b * (a * ai)) by(nonlinear_arith);
        lemma_mul_mod_noop_general(b, a * ai, p);
        assert(b * 1 == b);
        assert(b % p == 0);
        // 0 < b < 2p: b == p, which is odd, while y1 + y2 is even
        if b < p { lemma_small_mod(b as nat, p as nat); }
        else { lemma_mod_multiples_vanish(1, b - p, p); lemma_small_mod((b - p) as nat, p as nat); }
        assert(P() % 2 == 1) by(compute);
        assert(false);
    }
}
// ---- SEC1: decoding is a function. The bytes produced for an affine curve point decode to that point only
// (uncompressed: x and y are read back; compressed: x is read back and y is the root of x^3 + ax + b with the announced parity)
proof fn thm_sec1_decode_unique(q: Pt, compressed: bool, p: Pt)
    requires on_curve(q), q != Pt::Inf, sec1_decodes(sec1(q, compressed), p)
    ensures p == q
{
    thm_sec1_roundtrip(q, compressed);
    let b = sec1(q, compressed);
    match (p, q) {
        (Pt::Aff { x: xp, y: yp }, Pt::Aff { x: xq, y: yq }) => {
            assert(xp == xq);
            if compressed {
                assert(b.len() == 33);
                assert(on_curve(p));
                cdc_sqrt_unique(yp, yq);
            } else {
                assert(b.len() == 65);
            }
        }
        _ => { }
    }
}
// ---- C19, public key <-> bytes: whatever point a decoder satisfying sec1_decodes (Point::from_byte, Sm2PublicKey::new)
// reads from to_bytes(k, compress) is the point of k
proof fn theorem_pk_bytes_roundtrip(k: Sm2PublicKey, compress: bool, p: Pt)
    requires pk_ok(k), sec1_decodes(sec1(abs(k.point), compress), p)
    ensures p == abs(k.point)
{ thm_sec1_decode_unique(abs(k.point), compress, p); }
// ---- C19, public key <-> hex: the postcondition of from_hex_string applied to the output of to_hex_string gives the point of k
proof fn theorem_pk_hex_roundtrip(k: Sm2PublicKey, compressed: bool, bytes: Seq<u8>, p: Pt)
    requires pk_ok(k), hex_decodes(hex_of(sec1(abs(k.point), compressed)), bytes), sec1_decodes(bytes, p)
    ensures p == abs(k.point)
{ ax_hex_roundtrip(sec1(abs(k.point), compressed), bytes); theorem_pk_bytes_roundtrip(k, compressed, p); }
// ---- C19, private key <-> bytes / hex: to_bytes_be is 32 bytes that read back as d; the postcondition of from_hex_string
// applied to the output of to_hex_string gives d
proof fn theorem_sk_bytes_roundtrip(d: int) requires 0 <= d < r256() ensures be_bytes(d, 32).len() == 32, be_val(be_bytes(d, 32)) == d
{ lemma_pow256n_32(); lemma_be_bytes_len(d, 32); lemma_be_roundtrip(d, 32); }
proof fn theorem_sk_hex_roundtrip(d: int, bytes: Seq<u8>)
    requires 0 <= d < r256(), hex_decodes(hex_of(be_bytes(d, 32)), bytes)
    ensures bytes.len() == 32, be_val(bytes) == d
{ ax_hex_roundtrip(be_bytes(d, 32), bytes); theorem_sk_bytes_roundtrip(d); }
// ---- C19, ASN.1 ciphertext: whatever fields (x, y, h, c) a DER decoder reads from a document produced per asn1_from_nonce
// for the matching key pair, they are in range (decrypt_asn1 does not reject them) and GB/T 32918.4 7.1 on
// 04 || x || y || h || c accepts with C1 = [k]G and returns m
proof fn theorem_asn1_decrypt_inverts_encrypt(k: int, d: int, m: Seq<u8>, der: Seq<u8>, x: int, y: int, h: Seq<u8>, c: Seq<u8>)
    requires 1 <= d <= N() - 2, m.len() >= 1, asn1_from_nonce(k, g_smul(d, G()), m, der), der == der4(x, y, h, c)
    ensures 0 <= x < r256(), 0 <= y < r256(), h.len() == 32,
        dec_ok(d, asn1_raw(x, y, h, c), false, Sm2Model::C1C3C2, g_smul(k, G()), m),
        asn1_dec_ok(d, der, x, y, h, c, m),
{
    lemma_params(); lemma_g_on_curve();
    let pa = g_smul(d, G()); let c1 = g_smul(k, G()); let sp = g_smul(k, pa);
    let c3 = s_c3(sp, m); let c2 = s_xor(m, s_kdf(xy_bytes(sp), m.len()));
    ax_der4_injective(x, y, h, c, pt_x(c1), pt_y(c1), c3, c2);
    ax_g_order(k); lemma_small_mod(k as nat, N() as nat); lemma_smul_closed(k, G());
    assert(c1 == Pt::Aff { x, y });
    lemma_sm3_len(be_bytes(pt_x(sp), 32) + m + be_bytes(pt_y(sp), 32));
    let raw = asn1_raw(x, y, h, c);
    assert(raw == sec1(c1, false) + c3 + c2);
    assert(enc_from_nonce(k, pa, m, false, Sm2Model::C1C3C2, raw));
    theorem_decrypt_inverts_encrypt(k, d, m, false, Sm2Model::C1C3C2, raw);
    assert(dec_accept(d, raw, false, Sm2Model::C1C3C2, m));
}
// corollary: the acceptance predicate that decrypt_asn1 establishes holds for m
proof fn theorem_asn1_decrypt_accepts_encrypt(k: int, d: int, m: Seq<u8>, der: Seq<u8>)
    requires 1 <= d <= N() - 2, m.len() >= 1, asn1_from_nonce(k, g_smul(d, G()), m, der)
    ensures asn1_dec_accept(d, der, m)
{
    let c1 = g_smul(k, G()); let sp = g_smul(k, g_smul(d, G()));
    theorem_asn1_decrypt_inverts_encrypt(k, d, m, der, pt_x(c1), pt_y(c1), s_c3(sp, m), s_xor(m, s_kdf(xy_bytes(sp), m.len())));
}
// and it holds for no other plaintext: if decrypt_asn1 returns Ok(m2) on such a document then m2 == m
proof fn theorem_asn1_plaintext_unique(k: int, d: int, m: Seq<u8>, der: Seq<u8>, m2: Seq<u8>)
    requires 1 <= d <= N() - 2, m.len() >= 1, asn1_from_nonce(k, g_smul(d, G()), m, der), asn1_dec_accept(d, der, m2)
    ensures m2 == m
{
    let (x, y, h, c) = choose|x: int, y: int, h: Seq<u8>, c: Seq<u8>| #[trigger] asn1_dec_ok(d, der, x, y, h, c, m2);
    let raw = asn1_raw(x, y, h, c);
    theorem_asn1_decrypt_inverts_encrypt(k, d, m, der, x, y, h, c);
    let q1 = g_smul(k, G());
    let q2 = choose|q: Pt| #[trigger] dec_ok(d, raw, false, Sm2Model::C1C3C2, q, m2);
    assert(dec_ok(d, raw, false, Sm2Model::C1C3C2, q1, m));
    // the uncompressed C1 bytes determine the point
    let b = raw.subrange(0, 65);
    assert(b.len() == 65);
    assert(sec1_decodes(b, q1) && sec1_decodes(b, q2));
    assert(q1 == q2);
}
