//@unit sm9_pairing_safe
//@serves C20
//@source gm-sm9/src/points.rs
//@rlimit 10
//@rewrite-text let abits: Vec<char> = ==> let abits: Vec<char> = shim_str_chars(
//@rewrite-text .chars().collect() ==> )
//@weaken-stubs \.val\(\) \babs[12]\( \bf2v\( \bfe9\( \bval4\(
//@assume shim_str_chars: as in unit sm9_pairing (the two rewrite rules turn `let abits: Vec<char> = "<loop digits>".chars().collect();` into a call of an external_body shim whose body is the replaced expression)
//@assume SAFETY VIEW of unit sm9_pairing: the same four functions of /repo (sm9_u256_pairing, sm9_u256_eval_g_tangent, sm9_u256_eval_g_line, sm9_u256_eval_g_line_no_pre), verified for every well-formed input (wf2(q), wf1(p)) against well-formedness contracts only: no panic, every index in bounds, every callee precondition (`ok()` of each operand, wf2 / wf1 of each point) holds, the Miller loop is a bounded for-loop, results are ok() / wf2. The callees' contracts are imported from their home units WITHOUT their value-level postconditions (//@weaken-stubs: conjuncts mentioning val(), abs1/abs2, f2v, fe9, val4 are not imported - the unit assumes less than is proved there). Nothing in these bodies depends on values (no branch on field values, no division), so the safety obligations are decided in a context of well-formedness facts only: a wrong index or an ill-formed operand is then reported as a failed obligation within seconds instead of exhausting the solver's resource limit (in unit sm9_pairing the solver would first have to find Montgomery limbs realising every intermediate field value)
//@include-spec sm2_math
//@include-spec sm9_math
//@include-spec sm9_g1
//@include-spec sm9_g2
//@include-spec sm9_fp2
//@include-spec sm9_fp4
//@include-spec sm9_fp12
//@section spec
use core::fmt::Debug;
spec fn pr_ok3(lw: [Fp2; 3]) -> bool { lw[0].ok() && lw[1].ok() && lw[2].ok() }
spec fn pr_ok5(pre: [Fp2; 5]) -> bool { pre[0].ok() && pre[1].ok() && pre[2].ok() && pre[3].ok() && pre[4].ok() }
//@section code gm-sm9/src/u256.rs
type U256 = [u64; 4];
//@section code gm-sm9/src/fields/fp.rs
type Fp = U256;
//@stub-trait sm9_fp FieldElement
//@section code gm-sm9/src/fields/fp2.rs
#[derive(Debug, Copy, Clone)]
struct Fp2 {
    c0: Fp,
    c1: Fp,
}
impl Eq for Fp2 {}
//@stub sm9_fp2 Fp2::eq
//@stub-trait sm9_fp2 FieldElement
//@stub sm9_fp2 Fp2::fp_mul_fp
//@section code gm-sm9/src/fields/fp4.rs
#[derive(Debug, Copy, Clone)]
struct Fp4 {
    c0: Fp2,
    c1: Fp2,
}
impl Eq for Fp4 {}
//@stub sm9_fp4 Fp4::eq
//@stub-trait sm9_fp4 FieldElement
//@section code gm-sm9/src/fields/fp12.rs
#[derive(Debug, Copy, Clone)]
struct Fp12 {
    c0: Fp4,
    c1: Fp4,
    c2: Fp4,
}
impl Eq for Fp12 {}
//@stub sm9_fp12 Fp12::eq
//@stub-trait sm9_fp12 FieldElement
//@stub sm9_fp12 Fp12::fp_line_mul
//@stub sm9_fp12 Fp12::final_exponent
//@section code gm-sm9/src/points.rs
#[derive(Copy, Debug, Clone)]
struct Point {
    x: Fp,
    y: Fp,
    z: Fp,
}
#[derive(Copy, Debug, Clone)]
struct TwistPoint {
    x: Fp2,
    y: Fp2,
    z: Fp2,
}
//@section code gm-sm9/src/lib.rs
//@extract gm-sm9/src/lib.rs SM9_TWIST_POINT_MONT_P2
//@section code gm-sm9/src/points.rs
//@stub sm9_g1 Point::to_affine_point
//@stub sm9_g2 TwistPoint::point_neg
//@stub sm9_g2 TwistPoint::point_pi1
//@stub sm9_g2 TwistPoint::point_neg_pi2
//@section spec local
// the declared replacement of `"<digits>".chars().collect()` (see the //@rewrite-text / //@assume lines)
#[verifier::external_body]
fn shim_str_chars(s: &str) -> (r: Vec<char>) ensures r@ == s@ { s.chars().collect() }
use vstd::std_specs::cmp::PartialEqSpec;
impl vstd::std_specs::cmp::PartialEqSpecImpl for Fp2 {
    open spec fn obeys_eq_spec() -> bool { true }
    closed spec fn eq_spec(&self, other: &Self) -> bool { self.c0@ == other.c0@ && self.c1@ == other.c1@ }
}
spec fn ps_eq4(a: Fp4, b: Fp4) -> bool { a.c0.c0@ == b.c0.c0@ && a.c0.c1@ == b.c0.c1@ && a.c1.c0@ == b.c1.c0@ && a.c1.c1@ == b.c1.c1@ }
impl vstd::std_specs::cmp::PartialEqSpecImpl for Fp4 {
    open spec fn obeys_eq_spec() -> bool { true }
    closed spec fn eq_spec(&self, other: &Self) -> bool { ps_eq4(*self, *other) }
}
impl vstd::std_specs::cmp::PartialEqSpecImpl for Fp12 {
    open spec fn obeys_eq_spec() -> bool { true }
    closed spec fn eq_spec(&self, other: &Self) -> bool { ps_eq4(self.c0, other.c0) && ps_eq4(self.c1, other.c1) && ps_eq4(self.c2, other.c2) }
}
//@section code gm-sm9/src/points.rs
#[verifier::spinoff_prover]
fn sm9_u256_pairing(q: &TwistPoint, p: &Point) -> (r: Fp12)
    requires wf2(*q), wf1(*p)
    ensures r.ok()
{
    let abits: Vec<char> = shim_str_chars("00100000000000000000000000000000000000010000101100020200101000020"
        )
        ;

    let mut pre: [Fp2; 5] = [Fp2::zero(); 5];
    let mut t = TwistPoint {
        x: q.x.clone(),
        y: q.y.clone(),
        z: q.z.clone(),
    };

    let mut lw: [Fp2; 3] = [Fp2::zero(); 3];

    let p_affine = p.to_affine_point();
    let mut q1 = q.point_neg();

    pre[0] = q.y.fp_sqr();
    pre[4] = q.x.fp_mul(&q.z);
    pre[4] = pre[4].fp_double();
    pre[1] = q.z.fp_sqr();
    pre[1] = q.z.fp_mul(&pre[1]);
    pre[2] = pre[1].fp_mul_fp(&p_affine.y);
    pre[2] = pre[2].fp_double();
    pre[3] = pre[1].fp_mul_fp(&p_affine.x);
    pre[3] = pre[3].fp_double();
    pre[3] = pre[3].fp_neg();
    let mut r = Fp12::one();
    for i in 0..abits.len()
        invariant wf2(t), r.ok(), wf2(*q), wf2(q1), wf1(p_affine), pr_ok5(pre),
    {
        r = r.fp_sqr();
        t = sm9_u256_eval_g_tangent(&mut lw, &t, &p_affine);
        r = r.fp_line_mul(&lw);
        if abits[i] == '1' {
            t = sm9_u256_eval_g_line(&mut lw, &pre, &t, &q, &p_affine);
            r = r.fp_line_mul(&lw);
        } else if abits[i] == '2' {
            t = sm9_u256_eval_g_line(&mut lw, &pre, &t, &q1, &p_affine);
            r = r.fp_line_mul(&lw);
        }
    }

    q1 = q.point_pi1();
    let q2 = q.point_neg_pi2();
    t = sm9_u256_eval_g_line_no_pre(&mut lw, &t, &q1, &p_affine);
    r = r.fp_line_mul(&lw);

    t = sm9_u256_eval_g_line_no_pre(&mut lw, &t, &q2, &p_affine);
    r = r.fp_line_mul(&lw);

    r = r.final_exponent();
    r
}

#[verifier::spinoff_prover]
fn sm9_u256_eval_g_line_no_pre(
    lw: &mut [Fp2; 3],
    p: &TwistPoint,
    t: &TwistPoint,
    q: &Point,
) -> (r: TwistPoint)
    requires wf2(*p), wf2(*t), wf1(*q)
    ensures wf2(r), pr_ok3(*final(lw))
{
    let x1 = p.x;
    let y1 = p.y;
    let z1 = p.z;
    let x2 = t.x;
    let y2 = t.y;
    let z2 = t.z;

    let mut pre: [Fp2; 5] = [Fp2::zero(); 5];
    pre[0] = t.y.fp_sqr();
    pre[4] = t.x.fp_mul(&t.z);
    pre[4] = pre[4].fp_double();
    pre[1] = t.z.fp_sqr();
    pre[1] = pre[1].fp_mul(&t.z);
    pre[2] = pre[1].fp_mul_fp(&q.y);
    pre[2] = pre[2].fp_double();
    pre[3] = pre[1].fp_mul_fp(&q.x);
    pre[3] = pre[3].fp_double();
    pre[3] = pre[3].fp_neg();

    let mut t1 = z1.fp_sqr();
    let mut t2 = z2.fp_sqr();
    let mut z3 = z1.fp_add(&z2);
    z3 = z3.fp_sqr();
    z3 = z3.fp_sub(&t1);
    z3 = z3.fp_sub(&t2);

    let mut a = x1.fp_mul(&t2);
    let mut b = x2.fp_mul(&t1);
    let mut c = y1.fp_mul(&pre[1]);
    c = c.fp_double();
    let mut d = y2.fp_add(&z1);
    d = d.fp_sqr();
    d = d.fp_sub(&pre[0]);
    d = d.fp_sub(&t1);
    d = d.fp_mul(&t1);
    b = b.fp_sub(&a);

    z3 = z3.fp_mul(&b);
    t1 = b.fp_double();
    t1 = t1.fp_sqr();

    let mut x3 = b.fp_mul(&t1);
    let mut y3 = c.fp_mul(&x3);
    a = a.fp_mul(&t1);
    b = d.fp_sub(&c);
    t2 = a.fp_double();
    x3 = x3.fp_add(&t2);
    t2 = b.fp_sqr();
    x3 = t2.fp_sub(&x3);
    t2 = a.fp_sub(&x3);
    t2 = t2.fp_mul(&b);
    y3 = t2.fp_sub(&y3);

    lw[2] = z3.fp_mul(&pre[2]);
    lw[1] = b.fp_mul(&pre[3]);
    b = b.fp_mul(&pre[4]);

    lw[0] = y2.fp_mul(&z3);
    lw[0] = lw[0].fp_double();
    lw[0] = b.fp_sub(&lw[0]);
    TwistPoint {
        x: x3,
        y: y3,
        z: z3,
    }
}

#[verifier::spinoff_prover]
fn sm9_u256_eval_g_line(
    lw: &mut [Fp2; 3],
    pre: &[Fp2; 5],
    p: &TwistPoint,
    t: &TwistPoint,
    q: &Point,
) -> (r: TwistPoint)
    requires wf2(*p), wf2(*t), pr_ok5(*pre)
    ensures wf2(r), pr_ok3(*final(lw))
{
    let x1 = p.x;
    let y1 = p.y;
    let z1 = p.z;
    let x2 = t.x;
    let y2 = t.y;
    let z2 = t.z;

    let mut t1 = z1.fp_sqr();
    let mut t2 = z2.fp_sqr();
    let mut z3 = z1.fp_add(&z2);
    z3 = z3.fp_sqr();
    z3 = z3.fp_sub(&t1);
    z3 = z3.fp_sub(&t2);

    let mut a = x1.fp_mul(&t2);
    let mut b = x2.fp_mul(&t1);
    let mut c = y1.fp_mul(&pre[1]);
    c = c.fp_double();

    let mut d = y2.fp_add(&z1);
    d = d.fp_sqr();
    d = d.fp_sub(&pre[0]);
    d = d.fp_sub(&t1);
    d = d.fp_mul(&t1);
    b = b.fp_sub(&a);
    z3 = z3.fp_mul(&b);
    t1 = b.fp_double();
    t1 = t1.fp_sqr();

    let mut x3 = b.fp_mul(&t1);
    let mut y3 = c.fp_mul(&x3);
    a = a.fp_mul(&t1);
    b = d.fp_sub(&c);
    t2 = a.fp_double();
    x3 = x3.fp_add(&t2);
    t2 = b.fp_sqr();
    x3 = t2.fp_sub(&x3);
    t2 = a.fp_sub(&x3);
    t2 = t2.fp_mul(&b);
    y3 = t2.fp_sub(&y3);

    lw[2] = z3.fp_mul(&pre[2]);
    lw[1] = b.fp_mul(&pre[3]);
    b = b.fp_mul(&pre[4]);

    lw[0] = y2.fp_mul(&z3);
    lw[0] = lw[0].fp_double();
    lw[0] = b.fp_sub(&lw[0]);

    TwistPoint {
        x: x3,
        y: y3,
        z: z3,
    }
}

#[verifier::spinoff_prover]
fn sm9_u256_eval_g_tangent(lw: &mut [Fp2; 3], p: &TwistPoint, q: &Point) -> (r: TwistPoint)
    requires wf2(*p), wf1(*q)
    ensures wf2(r), pr_ok3(*final(lw))
{
    let x = p.x;
    let y = p.y;
    let z = p.z;

    let t1 = z.fp_sqr();
    let mut a = x.fp_sqr();
    let mut b = y.fp_sqr();
    let mut c = b.fp_sqr();
    let mut d = x.fp_add(&b);
    d = d.fp_sqr();
    d = d.fp_sub(&a);
    d = d.fp_sub(&c);
    d = d.fp_double();
    let mut z3 = y.fp_add(&z);
    z3 = z3.fp_sqr();
    z3 = z3.fp_sub(&b);
    z3 = z3.fp_sub(&t1);

    lw[0] = b.fp_double();
    lw[0] = lw[0].fp_double();
    lw[0] = lw[0].fp_add(&a);
    a = a.fp_triple();
    b = a.fp_sqr();

    let mut x3 = d.fp_double();
    x3 = b.fp_sub(&x3);
    lw[0] = lw[0].fp_add(&b);

    let mut y3 = d.fp_sub(&x3);
    y3 = y3.fp_mul(&a);
    c = c.fp_double().fp_double().fp_double();
    y3 = y3.fp_sub(&c);

    lw[2] = z3.fp_mul(&t1);
    lw[2] = lw[2].fp_double();

    lw[1] = a.fp_mul(&t1);
    lw[1] = lw[1].fp_double();
    lw[1] = lw[1].fp_neg();

    a = x.fp_add(&a);
    a = a.fp_sqr();
    lw[0] = a.fp_sub(&lw[0]);
    lw[1] = lw[1].fp_mul_fp(&q.x);
    lw[2] = lw[2].fp_mul_fp(&q.y);

    TwistPoint {
        x: x3,
        y: y3,
        z: z3,
    }
}
