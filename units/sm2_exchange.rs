//@unit sm2_exchange
//@serves C14 C15 C20
//@source gm-sm2/src/exchange.rs
//@assume #[derive(Clone)] on Sm2PrivateKey returns an equal value (shim_clone_sk, external_body whose body is the replaced call)
//@rewrite-text sk.clone() ==> shim_clone_sk(sk)
//@assume shim_id_or_default / shim_ne32: default-ID selection and 32-byte array inequality (external_body shims whose body is the replaced std expression)
//@rewrite-text id.unwrap_or_else(|| DEFAULT_ID) ==> shim_id_or_default(id)
//@rewrite-text rhs_id.unwrap_or_else(|| DEFAULT_ID) ==> shim_id_or_default(rhs_id)
//@rewrite-text s1 != sb ==> shim_ne32(&s1, &sb)
//@rewrite-text s_2 == sa ==> !shim_ne32(&s_2, &sa)
//@include-spec sm2_math
//@include-spec sm3
//@include-spec sm2_ecc
//@include-spec sm2_util
//@include-spec sm2_rand
//@include-spec sm2_key
//@section spec
// derived Clone of a plain-data struct returns an equal value (Verus has no spec for non-Copy derives)
#[verifier::external_body]
fn shim_clone_sk(sk: &Sm2PrivateKey) -> (r: Sm2PrivateKey) ensures r == *sk { sk.clone() }
#[verifier::external_body]
fn shim_ne32(a: &[u8; 32], b: &[u8; 32]) -> (r: bool) ensures r == !(a@ =~= b@) { a != b }
// ---------------- GB/T 32918.3: key agreement, w = 127 ----------------
pub open spec fn pow127() -> int { 0x8000_0000_0000_0000int * 0x1_0000_0000_0000_0000int }
#[verifier::opaque]
pub open spec fn xbar(x: int) -> int { pow127() + x % pow127() }
// t = (d + x-bar * r) mod n for the own ephemeral point
#[verifier::opaque]
pub open spec fn ex_t(d: int, r: int, r_own: Pt) -> int { (d + (r * xbar(pt_x(r_own))) % N()) % N() }
// shared point [t](P_peer + [x-bar_peer] R_peer)   (cofactor h = 1)
#[verifier::opaque]
pub open spec fn ex_point(t: int, p_peer: Pt, r_peer: Pt) -> Pt { g_smul(t, g_add(p_peer, g_smul(xbar(pt_x(r_peer)), r_peer))) }
#[verifier::opaque]
pub open spec fn ex_key(v: Pt, za: Seq<u8>, zb: Seq<u8>, klen: nat) -> Seq<u8> { s_kdf(xy_bytes(v) + za + zb, klen) }
#[verifier::opaque]
pub open spec fn ex_inner(v: Pt, za: Seq<u8>, zb: Seq<u8>, ra: Pt, rb: Pt) -> Seq<u8> { sm3_spec(be_bytes(pt_x(v), 32) + za + zb + xy_bytes(ra) + xy_bytes(rb)) }
#[verifier::opaque]
pub open spec fn ex_conf(tag: u8, v: Pt, inner: Seq<u8>) -> Seq<u8> { sm3_spec(seq![tag] + be_bytes(pt_y(v), 32) + inner) }
pub proof fn ex_lemma_lens(q: Pt)
    ensures be_bytes(pt_x(q), 32).len() == 32, be_bytes(pt_y(q), 32).len() == 32, xy_bytes(q).len() == 64
{ lemma_be_bytes_len(pt_x(q), 32); lemma_be_bytes_len(pt_y(q), 32); }
pub proof fn ex_lemma_smul_inf(k: int) ensures g_smul(k, Pt::Inf) == Pt::Inf decreases k
{ if k > 0 { ex_lemma_smul_inf(k - 1); } }
// limb-wise AND with 2^127 - 1 is reduction modulo 2^127
pub proof fn ex_lemma_and127(x: Seq<u64>, m: Seq<u64>, a: Seq<u64>)
    requires x.len() == 4, m.len() == 4, a.len() == 4, val4(m) == pow127() - 1,
        forall|k: int| 0 <= k < 4 ==> a[k] == x[k] & m[k],
    ensures val4(a) == val4(x) % pow127(), 0 <= val4(a) < pow127(),
{
    let mm = seq![0xffff_ffff_ffff_ffffu64, 0x7fff_ffff_ffff_ffffu64, 0u64, 0u64];
    assert(val4(mm) == pow127() - 1);
    lemma_val4_inj(m, mm);
    assert(m[0] == mm[0] && m[1] == mm[1] && m[2] == mm[2] && m[3] == mm[3]);
    let x0 = x[0]; let x1 = x[1]; let x2 = x[2]; let x3 = x[3];
    assert(x0 & 0xffff_ffff_ffff_ffffu64 == x0) by(bit_vector);
    assert(x1 & 0x7fff_ffff_ffff_ffffu64 == x1 % 0x8000_0000_0000_0000u64) by(bit_vector);
    assert(x2 & 0u64 == 0u64) by(bit_vector);
    assert(x3 & 0u64 == 0u64) by(bit_vector);
    assert(a[0] == x0 && a[1] == x1 % 0x8000_0000_0000_0000u64 && a[2] == 0 && a[3] == 0);
    let lo = (x1 % 0x8000_0000_0000_0000u64) as int;
    let q1 = (x1 / 0x8000_0000_0000_0000u64) as int;
    assert(x1 as int == 0x8000_0000_0000_0000int * q1 + lo && 0 <= lo < 0x8000_0000_0000_0000int);
    let q = q1 + 2 * (x2 as int + 0x1_0000_0000_0000_0000int * (x3 as int));
    assert(val4(a) == x0 as int + 0x1_0000_0000_0000_0000int * lo);
    assert(0 <= val4(a) < pow127());
    assert(val4(x) == pow127() * q + val4(a));
    lemma_fundamental_div_mod_converse(val4(x), pow127(), q, val4(a));
}
// quantified forms (single-term triggers): usable for the unnamed intermediate results of u256_sub / u256_bits_and / u256_add
pub proof fn ex_lemma_and127_q(x: Seq<u64>)
    requires x.len() == 4
    ensures
        forall|m: Seq<u64>| m.len() == 4 && #[trigger] val4(m) == pow127() - 1
            ==> m[0] == 0xffff_ffff_ffff_ffffu64 && m[1] == 0x7fff_ffff_ffff_ffffu64 && m[2] == 0u64 && m[3] == 0u64,
        forall|a: Seq<u64>| a.len() == 4 && a[0] == x[0] & 0xffff_ffff_ffff_ffffu64 && a[1] == x[1] & 0x7fff_ffff_ffff_ffffu64
            && a[2] == x[2] & 0u64 && a[3] == x[3] & 0u64
            ==> #[trigger] val4(a) == val4(x) % pow127() && 0 <= val4(a) < pow127(),
        forall|a: Seq<u64>| a.len() == 4 ==> 0 <= #[trigger] val4(a) < r256(),
{
    let mm = seq![0xffff_ffff_ffff_ffffu64, 0x7fff_ffff_ffff_ffffu64, 0u64, 0u64];
    assert(val4(mm) == pow127() - 1);
    assert forall|m: Seq<u64>| m.len() == 4 && #[trigger] val4(m) == pow127() - 1
        implies m[0] == 0xffff_ffff_ffff_ffffu64 && m[1] == 0x7fff_ffff_ffff_ffffu64 && m[2] == 0u64 && m[3] == 0u64 by {
        lemma_val4_inj(m, mm);
        assert(m[0] == mm[0] && m[1] == mm[1] && m[2] == mm[2] && m[3] == mm[3]);
    }
    assert forall|a: Seq<u64>| a.len() == 4 && a[0] == x[0] & 0xffff_ffff_ffff_ffffu64 && a[1] == x[1] & 0x7fff_ffff_ffff_ffffu64
            && a[2] == x[2] & 0u64 && a[3] == x[3] & 0u64
        implies #[trigger] val4(a) == val4(x) % pow127() && 0 <= val4(a) < pow127() by { ex_lemma_and127(x, mm, a); }
    assert forall|a: Seq<u64>| a.len() == 4 implies 0 <= #[trigger] val4(a) < r256() by { lemma_val4_bounds(a); }
}
spec fn ex_ok(e: Exchange) -> bool { sk_ok(e.sk) && pk_ok(e.rhs_pk) && 1 <= e.klen < 0x1_0000_0000 }
//@section code gm-sm2/src/u256.rs
type U256 = [u64; 4];
const SM2_ONE: U256 = [1, 0, 0, 0];
//@stub sm2_limbs u256_add
//@stub sm2_limbs u256_sub
//@stub sm2_limbs u256_bits_and
//@section spec local
proof fn ex_lemma_consts() ensures val4(SM2_ONE@) == 1
{
    assert(val4(SM2_ONE@) == 1) by(compute);
}
//@section code gm-sm2/src/error.rs
type Sm2Result<T> = Result<T, Sm2Error>;
#[derive(PartialEq)]
enum Sm2Error {
    NotOnCurve,
    FieldSqrtError,
    InvalidDer,
    InvalidPublic,
    InvalidPrivate,
    ZeroDivisor,
    ZeroPoint,
    InvalidPoint,
    CheckPointErr,
    ZeroData,
    HashNotEqual,
    IdTooLong,
    ZeroFiled,
    InvalidFieldLen,
    ZeroSig,
    InvalidDigestLen,
    InvalidDigest,
    InvalidSecretKey,
    KdfHashError,
}
//@stub sm2_fn fn_add
//@stub sm2_fn fn_mul
//@stub-trait sm2_fp FieldModOperation
//@stub sm2_fp fp_from_mont
//@stub sm3 sm3_hash
//@stub sm2_rand random_u256
//@section code gm-sm2/src/p256_ecc.rs
#[derive(Debug, Clone, Eq, PartialEq, Copy)]
struct Point {
    x: U256,
    y: U256,
    z: U256,
}
//@stub sm2_ecc Point::is_zero
//@stub sm2_ecc Point::is_valid
//@stub sm2_ecc Point::to_affine_point
//@stub sm2_ecc Point::point_add
//@stub sm2_ecc Point::scalar_mul
//@stub sm2_ecc g_mul
//@section code gm-sm2/src/util.rs
const DEFAULT_ID: &'static str = "1234567812345678";
//@stub sm2_util compute_za
//@stub sm2_util kdf
//@section code gm-sm2/src/key.rs
enum Sm2Model {
    C1C2C3,
    C1C3C2,
}
#[derive(Debug, Clone, Copy)]
struct Sm2PublicKey {
    point: Point,
}
#[derive(Debug, Clone)]
struct Sm2PrivateKey {
    d: U256,
    public_key: Sm2PublicKey,
}
//@stub sm2_key Sm2PublicKey::value
//@stub sm2_key gen_keypair
//@section spec local
// ---------------- fail-fast structure of exchange_2 / exchange_3 / exchange_4 ----------------
// The protocol functions carry only these opaque stage predicates (booleans over limb vectors, points and byte strings) from
// statement to statement; every value-level fact (x-bar, t, the shared point, the byte layouts) is produced and consumed inside
// the stage lemmas below, so that a wrong program fails at the `requires` of the stage it breaks. The protocol vocabulary of the
// contracts (xbar, ex_t, ex_point, ex_key, ex_inner, ex_conf) is opaque for the same reason: the solver never has to build a
// model of the group law or of the byte strings while it checks a protocol function.
// exchange_2/3/4 start with `hide(..)` headers for the shared mathematical vocabulary (val4, fe, abs_pt, on_curve, g_smul, g_add,
// inv_p, pow_mod, be_bytes, s_kdf, xy_bytes, pt_x, pt_y): their bodies need none of these definitions (every value-level step is a
// stage lemma), and an unfolded definition costs the solver thousands of interface equalities between limbs / partial sums when it
// has to build a counter-model (false obligations then end in rlimit instead of a failure). `reveal(val4)` appears only in the
// by-block of the 2^127 literal; the x-bar by-blocks must NOT reveal it.
// affine coordinates (x, y) of a finite point
#[verifier::opaque]
spec fn ex_xy(p: Point, x: Seq<u64>, y: Seq<u64>) -> bool { abs(p) == (Pt::Aff { x: val4(x), y: val4(y) }) }
// xb = 2^127 + (x mod 2^127)
#[verifier::opaque]
spec fn ex_is_xbar(xb: Seq<u64>, x: Seq<u64>) -> bool { val4(xb) == xbar(val4(x)) }
// t = (d + xb * r) mod n
#[verifier::opaque]
spec fn ex_is_t(t: Seq<u64>, d: Seq<u64>, r: Seq<u64>, xb: Seq<u64>) -> bool { val4(t) == (val4(d) + (val4(r) * val4(xb)) % N()) % N() }
// v is the shared point computed from the own (d, r, R_own) and the peer's (P_peer, R_peer)
#[verifier::opaque]
spec fn ex_is_shared(v: Point, d: Seq<u64>, r: Seq<u64>, own: Point, pk: Point, peer: Point) -> bool {
    abs(v) == ex_point(ex_t(val4(d), val4(r), abs(own)), abs(pk), abs(peer))
}
// big-endian coordinate strings of v
#[verifier::opaque]
spec fn ex_vb(v: Point, xb: Seq<u8>, yb: Seq<u8>) -> bool { xb == be_bytes(pt_x(abs(v)), 32) && yb == be_bytes(pt_y(abs(v)), 32) }
// kin = xV || yV || za || zb
#[verifier::opaque]
spec fn ex_is_kin(kin: Seq<u8>, v: Point, za: Seq<u8>, zb: Seq<u8>) -> bool { kin == xy_bytes(abs(v)) + za + zb }
// k = KDF(xV || yV || za || zb, klen)
#[verifier::opaque]
spec fn ex_is_key(k: Seq<u8>, v: Point, za: Seq<u8>, zb: Seq<u8>, klen: nat) -> bool { k == s_kdf(xy_bytes(abs(v)) + za + zb, klen) }
// tin = xV || za || zb || x1 || y1 || x2 || y2
#[verifier::opaque]
spec fn ex_is_tin(tin: Seq<u8>, v: Point, za: Seq<u8>, zb: Seq<u8>, ra: Point, rb: Point) -> bool {
    tin == be_bytes(pt_x(abs(v)), 32) + za + zb + xy_bytes(abs(ra)) + xy_bytes(abs(rb))
}
// cin = tag || yV || h
#[verifier::opaque]
spec fn ex_is_cin(cin: Seq<u8>, tag: u8, v: Point, h: Seq<u8>) -> bool { cin == seq![tag] + be_bytes(pt_y(abs(v)), 32) + h }
// s = SM3(tag || yV || SM3(tin))
#[verifier::opaque]
spec fn ex_is_conf(s: Seq<u8>, tag: u8, v: Point, tin: Seq<u8>) -> bool { s == sm3_spec(seq![tag] + be_bytes(pt_y(abs(v)), 32) + sm3_spec(tin)) }

proof fn ex_st_rpt(r: Seq<u64>, p: Point)
    requires 1 <= val4(r) < N(), abs(p) == g_smul(val4(r), G())
    ensures val4(p.z@) != 0
{ ax_g_order(val4(r)); lemma_small_mod(val4(r) as nat, N() as nat); }
proof fn ex_st_nz(p: Point)
    requires abs(p) != Pt::Inf
    ensures val4(p.z@) != 0
{ }
proof fn ex_st_xy(p: Point, a: Point, x: Seq<u64>, y: Seq<u64>)
    requires abs(p) == (Pt::Aff { x: fe(a.x@), y: fe(a.y@) }), val4(x) == fe(a.x@), val4(y) == fe(a.y@)
    ensures ex_xy(p, x, y)
{ reveal(ex_xy); }
proof fn ex_st_t(t: Seq<u64>, d: Seq<u64>, r: Seq<u64>, xb: Seq<u64>)
    requires val4(t) == (val4(d) + (val4(r) * val4(xb)) % N()) % N()
    ensures ex_is_t(t, d, r, xb)
{ reveal(ex_is_t); }
proof fn ex_st_point(v: Point, p: Point, pk: Point, peer: Point, own: Point, t: Seq<u64>, xp: Seq<u64>, px: Seq<u64>, py: Seq<u64>,
        d: Seq<u64>, r: Seq<u64>, xo: Seq<u64>, ox: Seq<u64>, oy: Seq<u64>)
    requires
        abs(v) == g_smul(val4(t), abs(p)),
        abs(p) == g_add(abs(pk), g_smul(val4(xp), abs(peer))),
        ex_is_xbar(xp, px),
        ex_xy(peer, px, py),
        ex_is_t(t, d, r, xo),
        ex_is_xbar(xo, ox),
        ex_xy(own, ox, oy),
    ensures ex_is_shared(v, d, r, own, pk, peer)
{ reveal(ex_is_xbar); reveal(ex_xy); reveal(ex_is_t); reveal(ex_is_shared); reveal(ex_t); reveal(ex_point); }
proof fn ex_st_vb(v: Point, a: Point, xb: Seq<u8>, yb: Seq<u8>)
    requires abs(v) == (Pt::Aff { x: fe(a.x@), y: fe(a.y@) }), xb == be_bytes(fe(a.x@), 32), yb == be_bytes(fe(a.y@), 32)
    ensures ex_vb(v, xb, yb), xb.len() == 32, yb.len() == 32
{ reveal(ex_vb); lemma_be_bytes_len(fe(a.x@), 32); lemma_be_bytes_len(fe(a.y@), 32); }
proof fn ex_st_kin(kin: Seq<u8>, v: Point, xb: Seq<u8>, yb: Seq<u8>, za: Seq<u8>, zb: Seq<u8>)
    requires ex_vb(v, xb, yb), kin =~= xb + yb + za + zb
    ensures ex_is_kin(kin, v, za, zb), kin.len() == 64 + za.len() + zb.len()
{ reveal(ex_vb); reveal(ex_is_kin); ex_lemma_lens(abs(v)); }
proof fn ex_st_key(k: Seq<u8>, kin: Seq<u8>, v: Point, za: Seq<u8>, zb: Seq<u8>, klen: nat)
    requires ex_is_kin(kin, v, za, zb), k == s_kdf(kin, klen)
    ensures ex_is_key(k, v, za, zb, klen)
{ reveal(ex_is_key); reveal(ex_is_kin); }
proof fn ex_st_tin(tin: Seq<u8>, v: Point, xb: Seq<u8>, yb: Seq<u8>, za: Seq<u8>, zb: Seq<u8>, ra: Point, x1: Seq<u64>, y1: Seq<u64>, rb: Point, x2: Seq<u64>, y2: Seq<u64>)
    requires
        ex_vb(v, xb, yb),
        ex_xy(ra, x1, y1),
        ex_xy(rb, x2, y2),
        tin =~= xb + za + zb + be_bytes(val4(x1), 32) + be_bytes(val4(y1), 32) + be_bytes(val4(x2), 32) + be_bytes(val4(y2), 32),
    ensures ex_is_tin(tin, v, za, zb, ra, rb), tin.len() == 160 + za.len() + zb.len()
{
    reveal(ex_vb); reveal(ex_xy); reveal(ex_is_tin);
    ex_lemma_lens(abs(v)); ex_lemma_lens(abs(ra)); ex_lemma_lens(abs(rb));
    assert(tin =~= be_bytes(pt_x(abs(v)), 32) + za + zb + xy_bytes(abs(ra)) + xy_bytes(abs(rb)));
}
proof fn ex_st_cin(cin: Seq<u8>, tag: u8, v: Point, xb: Seq<u8>, yb: Seq<u8>, h: Seq<u8>)
    requires ex_vb(v, xb, yb), cin =~= seq![tag] + yb + h
    ensures ex_is_cin(cin, tag, v, h), cin.len() == 33 + h.len()
{ reveal(ex_vb); reveal(ex_is_cin); ex_lemma_lens(abs(v)); }
proof fn ex_st_conf(s: Seq<u8>, cin: Seq<u8>, tag: u8, v: Point, tin: Seq<u8>)
    requires ex_is_cin(cin, tag, v, sm3_spec(tin)), s == sm3_spec(cin)
    ensures ex_is_conf(s, tag, v, tin)
{ reveal(ex_is_cin); reveal(ex_is_conf); }
// ---- the value-level conjuncts of the postconditions, one lemma each ----
proof fn ex_fin_key(v: Point, d: Seq<u64>, r: Seq<u64>, own: Point, pk: Point, peer: Point, za: Seq<u8>, zb: Seq<u8>, klen: nat, k: Seq<u8>)
    requires
        ex_is_shared(v, d, r, own, pk, peer),
        ex_is_key(k, v, za, zb, klen),
    ensures ({ let w = ex_point(ex_t(val4(d), val4(r), abs(own)), abs(pk), abs(peer)); abs(v) == w && k == ex_key(w, za, zb, klen) })
{ reveal(ex_is_shared); reveal(ex_is_key); reveal(ex_key); }
proof fn ex_fin_conf4(v: Point, first: Point, second: Point, za: Seq<u8>, zb: Seq<u8>, tin: Seq<u8>, tag: u8, s: Seq<u8>)
    requires
        ex_is_tin(tin, v, za, zb, first, second),
        ex_is_conf(s, tag, v, tin),
    ensures s == ex_conf(tag, abs(v), ex_inner(abs(v), za, zb, abs(first), abs(second)))
{ reveal(ex_is_tin); reveal(ex_is_conf); reveal(ex_conf); reveal(ex_inner); }
proof fn ex_fin_conf(v: Point, d: Seq<u64>, r: Seq<u64>, own: Point, pk: Point, peer: Point, first: Point, second: Point,
        za: Seq<u8>, zb: Seq<u8>, tin: Seq<u8>, tag: u8, s: Seq<u8>)
    requires
        ex_is_shared(v, d, r, own, pk, peer),
        ex_is_tin(tin, v, za, zb, first, second),
        ex_is_conf(s, tag, v, tin),
    ensures ({ let w = ex_point(ex_t(val4(d), val4(r), abs(own)), abs(pk), abs(peer));
        s == ex_conf(tag, w, ex_inner(w, za, zb, abs(first), abs(second))) })
{ reveal(ex_is_shared); ex_fin_conf4(v, first, second, za, zb, tin, tag, s); }
//@section code gm-sm2/src/exchange.rs
#[derive(Debug)]
struct Exchange {
    klen: usize,
    za: [u8; 32],
    sk: Sm2PrivateKey,
    v: Option<Point>,
    r: Option<U256>,
    r_point: Option<Point>,
    k: Option<Vec<u8>>,

    rhs_za: [u8; 32],
    rhs_pk: Sm2PublicKey,
}
//@props C20
fn build_ex_pair(
    klen: usize,
    first_id: &str,
    other_id: &str,
) -> (res: Sm2Result<(Exchange, Exchange)>)
    requires str_bytes(first_id).len() < 0x1000_0000_0000_0000, str_bytes(other_id).len() < 0x1000_0000_0000_0000,
    ensures res is Ok ==> 8 * str_bytes(first_id).len() <= 65535 && 8 * str_bytes(other_id).len() <= 65535,
{
    let (pk_a, sk_a) = gen_keypair()?;
    let (pk_b, sk_b) = gen_keypair()?;
    let user_a = Exchange::new(klen, Some(first_id), &pk_a, &sk_a, Some(other_id), &pk_b)?;
    let user_b = Exchange::new(klen, Some(other_id), &pk_b, &sk_b, Some(first_id), &pk_a)?;
    Ok((user_a, user_b))
}
//@props C14 C15 C20
impl Exchange {
    fn new(
        klen: usize,
        id: Option<&str>,
        pk: &Sm2PublicKey,
        sk: &Sm2PrivateKey,
        rhs_id: Option<&str>,
        rhs_pk: &Sm2PublicKey,
    ) -> (res: Sm2Result<Exchange>)
        requires pk_ok(*pk), sk_ok(*sk), pk_ok(*rhs_pk),
            str_bytes(id_or_default(id)).len() < 0x1000_0000_0000_0000, str_bytes(id_or_default(rhs_id)).len() < 0x1000_0000_0000_0000,
        ensures
            res is Ok <==> (8 * str_bytes(id_or_default(id)).len() <= 65535 && 8 * str_bytes(id_or_default(rhs_id)).len() <= 65535),
            res is Ok ==> ({ let e = res->Ok_0;
                e.klen == klen && e.sk == *sk && e.rhs_pk == *rhs_pk && e.v is None && e.r is None && e.r_point is None && e.k is None
                && e.za@ == s_za(str_bytes(id_or_default(id)), pt_x(abs(pk.point)), pt_y(abs(pk.point)))
                && e.rhs_za@ == s_za(str_bytes(id_or_default(rhs_id)), pt_x(abs(rhs_pk.point)), pt_y(abs(rhs_pk.point))) }),
    {
        let id = shim_id_or_default(id);
        let rhs_id = shim_id_or_default(rhs_id);
        Ok(Exchange {
            klen,
            za: compute_za(id, &pk.point)?,
            sk: shim_clone_sk(sk),
            v: None,
            r: None,
            r_point: None,
            k: None,
            rhs_za: compute_za(rhs_id, &rhs_pk.point)?,
            rhs_pk: rhs_pk.clone(),
        })
    }

    
    
    
    
    fn exchange_1(&mut self) -> (res: Sm2Result<Point>)
        ensures res is Ok, valid(res->Ok_0), final(self).r_point == Some(res->Ok_0),
            final(self).r is Some && csprng(final(self).r->Some_0@) && 1 <= val4(final(self).r->Some_0@) < N(),
            abs(res->Ok_0) == g_smul(val4(final(self).r->Some_0@), G()), abs(res->Ok_0) != Pt::Inf,
            final(self).klen == old(self).klen, final(self).za == old(self).za, final(self).sk == old(self).sk, final(self).v == old(self).v,
            final(self).k == old(self).k, final(self).rhs_za == old(self).rhs_za, final(self).rhs_pk == old(self).rhs_pk,
    {
        let r = random_u256();
        let r_point = g_mul(&r);
        proof { ax_g_order(val4(r@)); lemma_small_mod(val4(r@) as nat, N() as nat); }
        self.r = Some(r);
        self.r_point = Some(r_point);
        Ok(r_point)
    }

    
    
        fn exchange_2(&mut self, ra_point: &Point) -> (res: Sm2Result<(Point, [u8; 32])>)
        requires ex_ok(*old(self)), wf(*ra_point), val4(ra_point.z@) != 0
        ensures
            !on_curve(abs(*ra_point)) ==> res is Err,
            res is Ok ==> ({ let rb = res->Ok_0.0; let r2 = final(self).r->Some_0;
                final(self).r is Some && csprng(r2@) && 1 <= val4(r2@) < N() && final(self).r_point == Some(rb) && valid(rb) && abs(rb) == g_smul(val4(r2@), G())
                && final(self).v is Some && final(self).k is Some
                && ({ let v = ex_point(ex_t(val4(old(self).sk.d@), val4(r2@), abs(rb)), abs(old(self).rhs_pk.point), abs(*ra_point));
                      v != Pt::Inf && valid(final(self).v->Some_0) && abs(final(self).v->Some_0) == v
                      && final(self).k->Some_0@ == ex_key(v, old(self).rhs_za@, old(self).za@, old(self).klen as nat)
                      && res->Ok_0.1@ == ex_conf(2u8, v, ex_inner(v, old(self).rhs_za@, old(self).za@, abs(*ra_point), abs(rb))) }) }),
            final(self).klen == old(self).klen, final(self).za == old(self).za, final(self).sk == old(self).sk,
            final(self).rhs_za == old(self).rhs_za, final(self).rhs_pk == old(self).rhs_pk,
    {
        hide(val4); hide(fe); hide(abs_pt); hide(on_curve); hide(g_smul); hide(g_add); hide(inv_p); hide(pow_mod); hide(be_bytes); hide(s_kdf); hide(xy_bytes); hide(pt_x); hide(pt_y);
        if !ra_point.is_valid() {
            return Err(Sm2Error::CheckPointErr);
        }
        
        let pow: [u64; 4] = [
            0x0000000000000000,
            0x8000000000000000,
            0x0000000000000000,
            0x0000000000000000,
        ];
        proof { assert(val4(pow@) == pow127()) by { reveal(val4); } }

        let r2 = random_u256();
        let r2_point = g_mul(&r2);
        proof { ex_st_rpt(r2@, r2_point); }
        self.r = Some(r2);
        self.r_point = Some(r2_point);
        let r2_point_affine = r2_point.to_affine_point();
        let x2 = fp_from_mont(&r2_point_affine.x);
        let y2 = fp_from_mont(&r2_point_affine.y);
        proof { ex_st_xy(r2_point, r2_point_affine, x2@, y2@); }
        let x2_b = u256_add(&pow, &u256_bits_and(&x2, &u256_sub(&pow, &SM2_ONE).0)).0;
        proof {
            assert(ex_is_xbar(x2_b@, x2@) && val4(x2_b@) < N()) by {
                reveal(ex_is_xbar); reveal(xbar); ex_lemma_consts(); ex_lemma_and127_q(x2@);
                assert(2 * pow127() < N()) by(compute);
            }
            lemma_mod_bound(val4(r2@) * val4(x2_b@), N());
        }
        let t2 = fn_add(
            &self.sk.d,
            &fn_mul(
                &self.r.as_ref().unwrap(),
                &x2_b,
            ),
        );
        proof { ex_st_t(t2@, self.sk.d@, r2@, x2_b@); }

        let ra_point_affine = ra_point.to_affine_point();
        let x1 = fp_from_mont(&ra_point_affine.x);
        let y1 = fp_from_mont(&ra_point_affine.y);
        proof { ex_st_xy(*ra_point, ra_point_affine, x1@, y1@); }
        let x1_a = u256_add(&pow, &u256_bits_and(&x1, &u256_sub(&pow, &SM2_ONE).0)).0;
        proof {
            assert(ex_is_xbar(x1_a@, x1@)) by { reveal(ex_is_xbar); reveal(xbar); ex_lemma_consts(); ex_lemma_and127_q(x1@); }
        }

        let p = self
            .rhs_pk
            .value()
            .point_add(&ra_point.scalar_mul(&x1_a));
        let v_point = p.scalar_mul(&t2);
        proof { ex_st_point(v_point, p, self.rhs_pk.point, *ra_point, r2_point, t2@, x1_a@, x1@, y1@, self.sk.d@, r2@, x2_b@, x2@, y2@); }
        if v_point.is_zero() {
            return Err(Sm2Error::ZeroPoint);
        }
        self.v = Some(v_point);

        let v_affine_p = v_point.to_affine_point();
        let xv_bytes = fp_from_mont(&v_affine_p.x).to_byte_be();
        let yv_bytes = fp_from_mont(&v_affine_p.y).to_byte_be();
        proof { ex_st_vb(v_point, v_affine_p, xv_bytes@, yv_bytes@); }

        let mut prepend = Vec::new();
        prepend.extend_from_slice(&xv_bytes);
        prepend.extend_from_slice(&yv_bytes);
        prepend.extend_from_slice(&self.rhs_za); 
        prepend.extend_from_slice(&self.za); 

        proof { ex_st_kin(prepend@, v_point, xv_bytes@, yv_bytes@, self.rhs_za@, self.za@); }
        let k_b = kdf(&prepend, self.klen);
        proof { ex_st_key(k_b@, prepend@, v_point, self.rhs_za@, self.za@, self.klen as nat); }
        self.k = Some(k_b);

        let mut temp: Vec<u8> = Vec::new();
        temp.extend_from_slice(&xv_bytes);
        temp.extend_from_slice(&self.rhs_za);
        temp.extend_from_slice(&self.za);
        temp.extend_from_slice(&x1.to_byte_be());
        temp.extend_from_slice(&y1.to_byte_be());
        temp.extend_from_slice(&x2.to_byte_be());
        temp.extend_from_slice(&y2.to_byte_be());
        proof { ex_st_tin(temp@, v_point, xv_bytes@, yv_bytes@, self.rhs_za@, self.za@, *ra_point, x1@, y1@, r2_point, x2@, y2@); }

        let mut prepend: Vec<u8> = Vec::new();
        prepend.push(0x02_u8);
        prepend.extend_from_slice(&yv_bytes);
        prepend.extend_from_slice(&sm3_hash(&temp));
        proof {
            ex_st_cin(prepend@, 2u8, v_point, xv_bytes@, yv_bytes@, sm3_spec(temp@));
            ex_st_conf(sm3_spec(prepend@), prepend@, 2u8, v_point, temp@);
            ex_fin_key(v_point, self.sk.d@, r2@, r2_point, self.rhs_pk.point, *ra_point, self.rhs_za@, self.za@, self.klen as nat, self.k->Some_0@);
            ex_fin_conf(v_point, self.sk.d@, r2@, r2_point, self.rhs_pk.point, *ra_point, *ra_point, r2_point,
                self.rhs_za@, self.za@, temp@, 2u8, sm3_spec(prepend@));
        }
        Ok((r2_point, sm3_hash(&prepend)))
    }

    
    
        fn exchange_3(&mut self, rb_point: &Point, sb: [u8; 32]) -> (res: Sm2Result<[u8; 32]>)
        requires ex_ok(*old(self)), wf(*rb_point), val4(rb_point.z@) != 0,
            old(self).r is Some, 1 <= val4(old(self).r->Some_0@) < N(), old(self).r_point is Some, valid(old(self).r_point->Some_0),
            abs(old(self).r_point->Some_0) == g_smul(val4(old(self).r->Some_0@), G()),
        ensures
            !on_curve(abs(*rb_point)) ==> res is Err,
            res is Ok ==> ({ let ra = abs(old(self).r_point->Some_0);
                let u = ex_point(ex_t(val4(old(self).sk.d@), val4(old(self).r->Some_0@), ra), abs(old(self).rhs_pk.point), abs(*rb_point));
                let inner = ex_inner(u, old(self).za@, old(self).rhs_za@, ra, abs(*rb_point));
                u != Pt::Inf && sb@ == ex_conf(2u8, u, inner) && res->Ok_0@ == ex_conf(3u8, u, inner)
                && final(self).k is Some && final(self).k->Some_0@ == ex_key(u, old(self).za@, old(self).rhs_za@, old(self).klen as nat) }),
    {
        hide(val4); hide(fe); hide(abs_pt); hide(on_curve); hide(g_smul); hide(g_add); hide(inv_p); hide(pow_mod); hide(be_bytes); hide(s_kdf); hide(xy_bytes); hide(pt_x); hide(pt_y);
        if !rb_point.is_valid() {
            return Err(Sm2Error::CheckPointErr);
        }
        
        let pow: [u64; 4] = [
            0x0000000000000000,
            0x8000000000000000,
            0x0000000000000000,
            0x0000000000000000,
        ];
        proof { assert(val4(pow@) == pow127()) by { reveal(val4); } ex_st_rpt(self.r->Some_0@, self.r_point->Some_0); }

        let ra_point_affine = self.r_point.unwrap().to_affine_point();
        let x1 = fp_from_mont(&ra_point_affine.x);
        let y1 = fp_from_mont(&ra_point_affine.y);
        proof { ex_st_xy(self.r_point->Some_0, ra_point_affine, x1@, y1@); }
        let x1_a = u256_add(&pow, &u256_bits_and(&x1, &u256_sub(&pow, &SM2_ONE).0)).0;
        proof {
            assert(ex_is_xbar(x1_a@, x1@) && val4(x1_a@) < N()) by {
                reveal(ex_is_xbar); reveal(xbar); ex_lemma_consts(); ex_lemma_and127_q(x1@);
                assert(2 * pow127() < N()) by(compute);
            }
            lemma_mod_bound(val4(self.r->Some_0@) * val4(x1_a@), N());
        }
        let t_a = fn_add(
            &self.sk.d,
            &fn_mul(
                &self.r.as_ref().unwrap(),
                &x1_a,
            ),
        );
        proof { ex_st_t(t_a@, self.sk.d@, self.r->Some_0@, x1_a@); }

        let rb_point_affine = rb_point.to_affine_point();
        let x2 = fp_from_mont(&rb_point_affine.x);
        let y2 = fp_from_mont(&rb_point_affine.y);
        proof { ex_st_xy(*rb_point, rb_point_affine, x2@, y2@); }
        let x2_b = u256_add(&pow, &u256_bits_and(&x2, &u256_sub(&pow, &SM2_ONE).0)).0;
        proof {
            assert(ex_is_xbar(x2_b@, x2@)) by { reveal(ex_is_xbar); reveal(xbar); ex_lemma_consts(); ex_lemma_and127_q(x2@); }
        }
        let p = self
            .rhs_pk
            .value()
            .point_add(&rb_point.scalar_mul(&x2_b));
        let u_point = p.scalar_mul(&t_a);
        proof { ex_st_point(u_point, p, self.rhs_pk.point, *rb_point, self.r_point->Some_0, t_a@, x2_b@, x2@, y2@, self.sk.d@, self.r->Some_0@, x1_a@, x1@, y1@); }
        if u_point.is_zero() {
            return Err(Sm2Error::ZeroPoint);
        }

        let u_affine_p = u_point.to_affine_point();
        let xu_bytes = fp_from_mont(&u_affine_p.x).to_byte_be();
        let yu_bytes = fp_from_mont(&u_affine_p.y).to_byte_be();
        proof { ex_st_vb(u_point, u_affine_p, xu_bytes@, yu_bytes@); }

        let mut prepend = Vec::new();
        prepend.extend_from_slice(&xu_bytes);
        prepend.extend_from_slice(&yu_bytes);
        prepend.extend_from_slice(&self.za);
        prepend.extend_from_slice(&self.rhs_za);

        proof { ex_st_kin(prepend@, u_point, xu_bytes@, yu_bytes@, self.za@, self.rhs_za@); }
        let k_a = kdf(&prepend, self.klen);
        proof { ex_st_key(k_a@, prepend@, u_point, self.za@, self.rhs_za@, self.klen as nat); }
        self.k = Some(k_a);

        let mut temp: Vec<u8> = Vec::new();
        temp.extend_from_slice(&xu_bytes);
        temp.extend_from_slice(&self.za);
        temp.extend_from_slice(&self.rhs_za);
        temp.extend_from_slice(&x1.to_byte_be());
        temp.extend_from_slice(&y1.to_byte_be());
        temp.extend_from_slice(&x2.to_byte_be());
        temp.extend_from_slice(&y2.to_byte_be());
        proof { ex_st_tin(temp@, u_point, xu_bytes@, yu_bytes@, self.za@, self.rhs_za@, self.r_point->Some_0, x1@, y1@, *rb_point, x2@, y2@); }
        let temp_hash = sm3_hash(&temp);

        let mut prepend: Vec<u8> = Vec::new();
        prepend.push(0x02_u8);
        prepend.extend_from_slice(&yu_bytes);
        prepend.extend_from_slice(&temp_hash);
        proof { ex_st_cin(prepend@, 2u8, u_point, xu_bytes@, yu_bytes@, sm3_spec(temp@)); }

        let s1 = sm3_hash(&prepend);
        proof { ex_st_conf(s1@, prepend@, 2u8, u_point, temp@); }
        if shim_ne32(&s1, &sb) {
            return Err(Sm2Error::HashNotEqual);
        }

        let mut prepend: Vec<u8> = Vec::new();
        prepend.push(0x03_u8);
        prepend.extend_from_slice(&yu_bytes);
        prepend.extend_from_slice(&temp_hash);
        proof {
            ex_st_cin(prepend@, 3u8, u_point, xu_bytes@, yu_bytes@, sm3_spec(temp@));
            ex_st_conf(sm3_spec(prepend@), prepend@, 3u8, u_point, temp@);
            ex_fin_key(u_point, self.sk.d@, self.r->Some_0@, self.r_point->Some_0, self.rhs_pk.point, *rb_point, self.za@, self.rhs_za@, self.klen as nat, self.k->Some_0@);
            ex_fin_conf(u_point, self.sk.d@, self.r->Some_0@, self.r_point->Some_0, self.rhs_pk.point, *rb_point, self.r_point->Some_0, *rb_point,
                self.za@, self.rhs_za@, temp@, 2u8, sb@);
            ex_fin_conf(u_point, self.sk.d@, self.r->Some_0@, self.r_point->Some_0, self.rhs_pk.point, *rb_point, self.r_point->Some_0, *rb_point,
                self.za@, self.rhs_za@, temp@, 3u8, sm3_spec(prepend@));
        }
        Ok(sm3_hash(&prepend))
    }

    
    fn exchange_4(&self, sa: [u8; 32], ra_point: &Point) -> (res: Sm2Result<bool>)
        requires wf(*ra_point), val4(ra_point.z@) != 0, self.r_point is Some, valid(self.r_point->Some_0), abs(self.r_point->Some_0) != Pt::Inf,
            self.v is Some, valid(self.v->Some_0), abs(self.v->Some_0) != Pt::Inf,
        ensures res is Ok,
            res->Ok_0 == (sa@ == ex_conf(3u8, abs(self.v->Some_0), ex_inner(abs(self.v->Some_0), self.rhs_za@, self.za@, abs(*ra_point), abs(self.r_point->Some_0)))),
    {
        hide(val4); hide(fe); hide(abs_pt); hide(on_curve); hide(g_smul); hide(g_add); hide(inv_p); hide(pow_mod); hide(be_bytes); hide(s_kdf); hide(xy_bytes); hide(pt_x); hide(pt_y);
        let ra_point_affine = ra_point.to_affine_point();
        let x1 = fp_from_mont(&ra_point_affine.x);
        let y1 = fp_from_mont(&ra_point_affine.y);
        proof { ex_st_xy(*ra_point, ra_point_affine, x1@, y1@); }

        proof { ex_st_nz(self.r_point->Some_0); ex_st_nz(self.v->Some_0); }
        let r2_point_affine = self.r_point.unwrap().to_affine_point();
        let x2 = fp_from_mont(&r2_point_affine.x);
        let y2 = fp_from_mont(&r2_point_affine.y);
        proof { ex_st_xy(self.r_point->Some_0, r2_point_affine, x2@, y2@); }

        let v_point_affine = self.v.unwrap().to_affine_point();
        let xv = fp_from_mont(&v_point_affine.x);
        let yv = fp_from_mont(&v_point_affine.y);
        proof { ex_st_vb(self.v->Some_0, v_point_affine, be_bytes(val4(xv@), 32), be_bytes(val4(yv@), 32)); }

        let mut temp: Vec<u8> = Vec::new();
        temp.extend_from_slice(&xv.to_byte_be());
        temp.extend_from_slice(&self.rhs_za);
        temp.extend_from_slice(&self.za);
        temp.extend_from_slice(&x1.to_byte_be());
        temp.extend_from_slice(&y1.to_byte_be());
        temp.extend_from_slice(&x2.to_byte_be());
        temp.extend_from_slice(&y2.to_byte_be());
        proof {
            ex_st_tin(temp@, self.v->Some_0, be_bytes(val4(xv@), 32), be_bytes(val4(yv@), 32), self.rhs_za@, self.za@,
                *ra_point, x1@, y1@, self.r_point->Some_0, x2@, y2@);
        }

        let mut prepend: Vec<u8> = Vec::new();
        prepend.push(0x03_u8);
        prepend.extend_from_slice(&yv.to_byte_be());
        prepend.extend_from_slice(&sm3_hash(&temp));
        proof { ex_st_cin(prepend@, 3u8, self.v->Some_0, be_bytes(val4(xv@), 32), be_bytes(val4(yv@), 32), sm3_spec(temp@)); }
        let s_2 = sm3_hash(&prepend);
        proof {
            ex_st_conf(s_2@, prepend@, 3u8, self.v->Some_0, temp@);
            ex_fin_conf4(self.v->Some_0, *ra_point, self.r_point->Some_0, self.rhs_za@, self.za@, temp@, 3u8, s_2@);
        }
        Ok(!shim_ne32(&s_2, &sa))
    }
}
