//@unit sm2_exchange
//@serves C15
//@source gm-sm2/src/exchange.rs
//@assume shim_id_or_default / shim_ne32: default-ID selection and 32-byte array inequality (external_body shims whose body is the replaced std expression)
//@rewrite-text id.unwrap_or_else(|| DEFAULT_ID) ==> shim_id_or_default(id)
//@rewrite-text rhs_id.unwrap_or_else(|| DEFAULT_ID) ==> shim_id_or_default(rhs_id)
//@rewrite-text s1 != sb ==> shim_ne32(&s1, &sb)
//@rewrite-text s_2 == sa ==> !shim_ne32(&s_2, &sa)
//@include-spec sm2_math
//@include-spec sm3
//@include-spec sm2_ecc
//@include-spec sm2_util
//@include-spec sm2_rand
//@include-spec sm2_key
//@section spec
#[verifier::external_body]
fn shim_ne32(a: &[u8; 32], b: &[u8; 32]) -> (r: bool) ensures r == !(a@ =~= b@) { a != b }
// ---------------- GB/T 32918.3: key agreement, w = 127 ----------------
pub open spec fn pow127() -> int { 0x8000_0000_0000_0000int * 0x1_0000_0000_0000_0000int }
pub open spec fn xbar(x: int) -> int { pow127() + x % pow127() }
// t = (d + x-bar * r) mod n for the own ephemeral point
pub open spec fn ex_t(d: int, r: int, r_own: Pt) -> int { (d + (r * xbar(pt_x(r_own))) % N()) % N() }
// shared point [t](P_peer + [x-bar_peer] R_peer)   (cofactor h = 1)
pub open spec fn ex_point(t: int, p_peer: Pt, r_peer: Pt) -> Pt { g_smul(t, g_add(p_peer, g_smul(xbar(pt_x(r_peer)), r_peer))) }
pub open spec fn ex_key(v: Pt, za: Seq<u8>, zb: Seq<u8>, klen: nat) -> Seq<u8> { s_kdf(xy_bytes(v) + za + zb, klen) }
pub open spec fn ex_inner(v: Pt, za: Seq<u8>, zb: Seq<u8>, ra: Pt, rb: Pt) -> Seq<u8> { sm3_spec(be_bytes(pt_x(v), 32) + za + zb + xy_bytes(ra) + xy_bytes(rb)) }
pub open spec fn ex_conf(tag: u8, v: Pt, inner: Seq<u8>) -> Seq<u8> { sm3_spec(seq![tag] + be_bytes(pt_y(v), 32) + inner) }
spec fn ex_ok(e: Exchange) -> bool { sk_ok(e.sk) && pk_ok(e.rhs_pk) && 1 <= e.klen < 0x1_0000_0000 }
//@section code gm-sm2/src/u256.rs
type U256 = [u64; 4];
const SM2_ONE: U256 = [1, 0, 0, 0];
//@stub sm2_limbs u256_add
//@stub sm2_limbs u256_sub
//@stub sm2_limbs u256_bits_and
//@section code gm-sm2/src/error.rs
type Sm2Result<T> = Result<T, Sm2Error>;
#[derive(PartialEq)]
enum Sm2Error {
    NotOnCurve,
    FieldSqrtError,
    InvalidDer,
    InvalidPublic,
    InvalidPrivate,
    ZeroDivisor,
    ZeroPoint,
    InvalidPoint,
    CheckPointErr,
    ZeroData,
    HashNotEqual,
    IdTooLong,
    ZeroFiled,
    InvalidFieldLen,
    ZeroSig,
    InvalidDigestLen,
    InvalidDigest,
    InvalidSecretKey,
    KdfHashError,
}
//@stub sm2_fn fn_add
//@stub sm2_fn fn_mul
//@stub-trait sm2_fp FieldModOperation
//@stub sm2_fp fp_from_mont
//@stub sm3 sm3_hash
//@stub sm2_rand random_u256
//@section code gm-sm2/src/p256_ecc.rs
#[derive(Debug, Clone, Eq, PartialEq, Copy)]
struct Point {
    x: U256,
    y: U256,
    z: U256,
}
//@stub sm2_ecc Point::is_zero
//@stub sm2_ecc Point::is_valid
//@stub sm2_ecc Point::to_affine_point
//@stub sm2_ecc Point::point_add
//@stub sm2_ecc Point::scalar_mul
//@stub sm2_ecc g_mul
//@section code gm-sm2/src/util.rs
const DEFAULT_ID: &'static str = "1234567812345678";
//@stub sm2_util compute_za
//@stub sm2_util kdf
//@section code gm-sm2/src/key.rs
enum Sm2Model {
    C1C2C3,
    C1C3C2,
}
#[derive(Debug, Clone, Copy)]
struct Sm2PublicKey {
    point: Point,
}
#[derive(Debug, Clone)]
struct Sm2PrivateKey {
    d: U256,
    public_key: Sm2PublicKey,
}
//@stub sm2_key Sm2PublicKey::value
//@section code gm-sm2/src/exchange.rs
#[derive(Debug)]
struct Exchange {
    klen: usize,
    za: [u8; 32],
    sk: Sm2PrivateKey,
    v: Option<Point>,
    r: Option<U256>,
    r_point: Option<Point>,
    k: Option<Vec<u8>>,

    rhs_za: [u8; 32],
    rhs_pk: Sm2PublicKey,
}
impl Exchange {
    #[verifier::external_body]
    fn new(
        klen: usize,
        id: Option<&str>,
        pk: &Sm2PublicKey,
        sk: &Sm2PrivateKey,
        rhs_id: Option<&str>,
        rhs_pk: &Sm2PublicKey,
    ) -> (res: Sm2Result<Exchange>)
        requires pk_ok(*pk), sk_ok(*sk), pk_ok(*rhs_pk),
            str_bytes(id_or_default(id)).len() < 0x1000_0000_0000_0000, str_bytes(id_or_default(rhs_id)).len() < 0x1000_0000_0000_0000,
        ensures
            res is Ok <==> (8 * str_bytes(id_or_default(id)).len() <= 65535 && 8 * str_bytes(id_or_default(rhs_id)).len() <= 65535),
            res is Ok ==> ({ let e = res->Ok_0;
                e.klen == klen && e.sk == *sk && e.rhs_pk == *rhs_pk && e.v is None && e.r is None && e.r_point is None && e.k is None
                && e.za@ == s_za(str_bytes(id_or_default(id)), pt_x(abs(pk.point)), pt_y(abs(pk.point)))
                && e.rhs_za@ == s_za(str_bytes(id_or_default(rhs_id)), pt_x(abs(rhs_pk.point)), pt_y(abs(rhs_pk.point))) }),
    {
        let id = shim_id_or_default(id);
        let rhs_id = shim_id_or_default(rhs_id);
        Ok(Exchange {
            klen,
            za: compute_za(id, &pk.point)?,
            sk: sk.clone(),
            v: None,
            r: None,
            r_point: None,
            k: None,
            rhs_za: compute_za(rhs_id, &rhs_pk.point)?,
            rhs_pk: rhs_pk.clone(),
        })
    }

    
    
    
    
    #[verifier::external_body]
    fn exchange_1(&mut self) -> (res: Sm2Result<Point>)
        ensures res is Ok, valid(res->Ok_0), final(self).r_point == Some(res->Ok_0),
            final(self).r is Some && csprng(final(self).r->Some_0@) && 1 <= val4(final(self).r->Some_0@) < N(),
            abs(res->Ok_0) == g_smul(val4(final(self).r->Some_0@), G()), abs(res->Ok_0) != Pt::Inf,
            final(self).klen == old(self).klen, final(self).za == old(self).za, final(self).sk == old(self).sk, final(self).v == old(self).v,
            final(self).k == old(self).k, final(self).rhs_za == old(self).rhs_za, final(self).rhs_pk == old(self).rhs_pk,
    {
        let r = random_u256();
        let r_point = g_mul(&r);
        self.r = Some(r);
        self.r_point = Some(r_point);
        Ok(r_point)
    }

    
    
    #[verifier::external_body]
    fn exchange_2(&mut self, ra_point: &Point) -> (res: Sm2Result<(Point, [u8; 32])>)
        requires ex_ok(*old(self)), wf(*ra_point), val4(ra_point.z@) != 0
        ensures
            !on_curve(abs(*ra_point)) ==> res is Err,
            res is Ok ==> ({ let rb = res->Ok_0.0; let r2 = final(self).r->Some_0;
                final(self).r is Some && csprng(r2@) && 1 <= val4(r2@) < N() && final(self).r_point == Some(rb) && valid(rb) && abs(rb) == g_smul(val4(r2@), G())
                && final(self).v is Some && final(self).k is Some
                && ({ let v = ex_point(ex_t(val4(old(self).sk.d@), val4(r2@), abs(rb)), abs(old(self).rhs_pk.point), abs(*ra_point));
                      v != Pt::Inf && valid(final(self).v->Some_0) && abs(final(self).v->Some_0) == v
                      && final(self).k->Some_0@ == ex_key(v, old(self).rhs_za@, old(self).za@, old(self).klen as nat)
                      && res->Ok_0.1@ == ex_conf(2u8, v, ex_inner(v, old(self).rhs_za@, old(self).za@, abs(*ra_point), abs(rb))) }) }),
            final(self).klen == old(self).klen, final(self).za == old(self).za, final(self).sk == old(self).sk,
            final(self).rhs_za == old(self).rhs_za, final(self).rhs_pk == old(self).rhs_pk,
    {
        if !ra_point.is_valid() {
            return Err(Sm2Error::CheckPointErr);
        }
        
        let pow: [u64; 4] = [
            0x0000000000000000,
            0x8000000000000000,
            0x0000000000000000,
            0x0000000000000000,
        ];

        let r2 = random_u256();
        let r2_point = g_mul(&r2);
        self.r = Some(r2);
        self.r_point = Some(r2_point);
        let r2_point_affine = r2_point.to_affine_point();
        let x2 = fp_from_mont(&r2_point_affine.x);
        let y2 = fp_from_mont(&r2_point_affine.y);
        let x2_b = u256_add(&pow, &u256_bits_and(&x2, &u256_sub(&pow, &SM2_ONE).0)).0;
        let t2 = fn_add(
            &self.sk.d,
            &fn_mul(
                &self.r.as_ref().unwrap(),
                &x2_b,
            ),
        );

        let ra_point_affine = ra_point.to_affine_point();
        let x1 = fp_from_mont(&ra_point_affine.x);
        let y1 = fp_from_mont(&ra_point_affine.y);
        let x1_a = u256_add(&pow, &u256_bits_and(&x1, &u256_sub(&pow, &SM2_ONE).0)).0;

        let p = self
            .rhs_pk
            .value()
            .point_add(&ra_point.scalar_mul(&x1_a));
        let v_point = p.scalar_mul(&t2);
        if v_point.is_zero() {
            return Err(Sm2Error::ZeroPoint);
        }
        self.v = Some(v_point);

        let v_affine_p = v_point.to_affine_point();
        let xv_bytes = fp_from_mont(&v_affine_p.x).to_byte_be();
        let yv_bytes = fp_from_mont(&v_affine_p.y).to_byte_be();

        let mut prepend = Vec::new();
        prepend.extend_from_slice(&xv_bytes);
        prepend.extend_from_slice(&yv_bytes);
        prepend.extend_from_slice(&self.rhs_za); 
        prepend.extend_from_slice(&self.za); 

        let k_b = kdf(&prepend, self.klen);
        self.k = Some(k_b);

        let mut temp: Vec<u8> = Vec::new();
        temp.extend_from_slice(&xv_bytes);
        temp.extend_from_slice(&self.rhs_za);
        temp.extend_from_slice(&self.za);
        temp.extend_from_slice(&x1.to_byte_be());
        temp.extend_from_slice(&y1.to_byte_be());
        temp.extend_from_slice(&x2.to_byte_be());
        temp.extend_from_slice(&y2.to_byte_be());

        let mut prepend: Vec<u8> = Vec::new();
        prepend.push(0x02_u8);
        prepend.extend_from_slice(&yv_bytes);
        prepend.extend_from_slice(&sm3_hash(&temp));
        Ok((r2_point, sm3_hash(&prepend)))
    }

    
    
    #[verifier::external_body]
    fn exchange_3(&mut self, rb_point: &Point, sb: [u8; 32]) -> (res: Sm2Result<[u8; 32]>)
        requires ex_ok(*old(self)), wf(*rb_point), val4(rb_point.z@) != 0,
            old(self).r is Some, 1 <= val4(old(self).r->Some_0@) < N(), old(self).r_point is Some, valid(old(self).r_point->Some_0),
            abs(old(self).r_point->Some_0) == g_smul(val4(old(self).r->Some_0@), G()),
        ensures
            !on_curve(abs(*rb_point)) ==> res is Err,
            res is Ok ==> ({ let ra = abs(old(self).r_point->Some_0);
                let u = ex_point(ex_t(val4(old(self).sk.d@), val4(old(self).r->Some_0@), ra), abs(old(self).rhs_pk.point), abs(*rb_point));
                let inner = ex_inner(u, old(self).za@, old(self).rhs_za@, ra, abs(*rb_point));
                u != Pt::Inf && sb@ == ex_conf(2u8, u, inner) && res->Ok_0@ == ex_conf(3u8, u, inner)
                && final(self).k is Some && final(self).k->Some_0@ == ex_key(u, old(self).za@, old(self).rhs_za@, old(self).klen as nat) }),
    {
        if !rb_point.is_valid() {
            return Err(Sm2Error::CheckPointErr);
        }
        
        let pow: [u64; 4] = [
            0x0000000000000000,
            0x8000000000000000,
            0x0000000000000000,
            0x0000000000000000,
        ];

        let ra_point_affine = self.r_point.unwrap().to_affine_point();
        let x1 = fp_from_mont(&ra_point_affine.x);
        let y1 = fp_from_mont(&ra_point_affine.y);
        let x1_a = u256_add(&pow, &u256_bits_and(&x1, &u256_sub(&pow, &SM2_ONE).0)).0;
        let t_a = fn_add(
            &self.sk.d,
            &fn_mul(
                &self.r.as_ref().unwrap(),
                &x1_a,
            ),
        );

        let rb_point_affine = rb_point.to_affine_point();
        let x2 = fp_from_mont(&rb_point_affine.x);
        let y2 = fp_from_mont(&rb_point_affine.y);
        let x2_b = u256_add(&pow, &u256_bits_and(&x2, &u256_sub(&pow, &SM2_ONE).0)).0;
        let p = self
            .rhs_pk
            .value()
            .point_add(&rb_point.scalar_mul(&x2_b));
        let u_point = p.scalar_mul(&t_a);
        if u_point.is_zero() {
            return Err(Sm2Error::ZeroPoint);
        }

        let u_affine_p = u_point.to_affine_point();
        let xu_bytes = fp_from_mont(&u_affine_p.x).to_byte_be();
        let yu_bytes = fp_from_mont(&u_affine_p.y).to_byte_be();

        let mut prepend = Vec::new();
        prepend.extend_from_slice(&xu_bytes);
        prepend.extend_from_slice(&yu_bytes);
        prepend.extend_from_slice(&self.za);
        prepend.extend_from_slice(&self.rhs_za);

        let k_a = kdf(&prepend, self.klen);
        self.k = Some(k_a);

        let mut temp: Vec<u8> = Vec::new();
        temp.extend_from_slice(&xu_bytes);
        temp.extend_from_slice(&self.za);
        temp.extend_from_slice(&self.rhs_za);
        temp.extend_from_slice(&x1.to_byte_be());
        temp.extend_from_slice(&y1.to_byte_be());
        temp.extend_from_slice(&x2.to_byte_be());
        temp.extend_from_slice(&y2.to_byte_be());
        let temp_hash = sm3_hash(&temp);

        let mut prepend: Vec<u8> = Vec::new();
        prepend.push(0x02_u8);
        prepend.extend_from_slice(&yu_bytes);
        prepend.extend_from_slice(&temp_hash);

        let s1 = sm3_hash(&prepend);
        if shim_ne32(&s1, &sb) {
            return Err(Sm2Error::HashNotEqual);
        }

        let mut prepend: Vec<u8> = Vec::new();
        prepend.push(0x03_u8);
        prepend.extend_from_slice(&yu_bytes);
        prepend.extend_from_slice(&temp_hash);
        Ok(sm3_hash(&prepend))
    }

    
    #[verifier::external_body]
    fn exchange_4(&self, sa: [u8; 32], ra_point: &Point) -> (res: Sm2Result<bool>)
        requires wf(*ra_point), val4(ra_point.z@) != 0, self.r_point is Some, valid(self.r_point->Some_0), abs(self.r_point->Some_0) != Pt::Inf,
            self.v is Some, valid(self.v->Some_0), abs(self.v->Some_0) != Pt::Inf,
        ensures res is Ok,
            res->Ok_0 == (sa@ == ex_conf(3u8, abs(self.v->Some_0), ex_inner(abs(self.v->Some_0), self.rhs_za@, self.za@, abs(*ra_point), abs(self.r_point->Some_0)))),
    {
        let ra_point_affine = ra_point.to_affine_point();
        let x1 = fp_from_mont(&ra_point_affine.x);
        let y1 = fp_from_mont(&ra_point_affine.y);

        let r2_point_affine = self.r_point.unwrap().to_affine_point();
        let x2 = fp_from_mont(&r2_point_affine.x);
        let y2 = fp_from_mont(&r2_point_affine.y);

        let v_point_affine = self.v.unwrap().to_affine_point();
        let xv = fp_from_mont(&v_point_affine.x);
        let yv = fp_from_mont(&v_point_affine.y);

        let mut temp: Vec<u8> = Vec::new();
        temp.extend_from_slice(&xv.to_byte_be());
        temp.extend_from_slice(&self.rhs_za);
        temp.extend_from_slice(&self.za);
        temp.extend_from_slice(&x1.to_byte_be());
        temp.extend_from_slice(&y1.to_byte_be());
        temp.extend_from_slice(&x2.to_byte_be());
        temp.extend_from_slice(&y2.to_byte_be());

        let mut prepend: Vec<u8> = Vec::new();
        prepend.push(0x03_u8);
        prepend.extend_from_slice(&yv.to_byte_be());
        prepend.extend_from_slice(&sm3_hash(&temp));
        let s_2 = sm3_hash(&prepend);
        Ok(!shim_ne32(&s_2, &sa))
    }
}
