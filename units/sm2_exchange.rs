//@unit sm2_exchange
//@serves C14 C15 C20
//@source gm-sm2/src/exchange.rs
//@assume #[derive(Clone)] on Sm2PrivateKey returns an equal value (shim_clone_sk, external_body whose body is the replaced call)
//@rewrite-text sk.clone() ==> shim_clone_sk(sk)
//@assume shim_id_or_default / shim_ne32: default-ID selection and 32-byte array inequality (external_body shims whose body is the replaced std expression)
//@rewrite-text id.unwrap_or_else(|| DEFAULT_ID) ==> shim_id_or_default(id)
//@rewrite-text rhs_id.unwrap_or_else(|| DEFAULT_ID) ==> shim_id_or_default(rhs_id)
//@rewrite-text s1 != sb ==> shim_ne32(&s1, &sb)
//@rewrite-text s_2 == sa ==> !shim_ne32(&s_2, &sa)
//@include-spec sm2_math
//@include-spec sm3
//@include-spec sm2_ecc
//@include-spec sm2_util
//@include-spec sm2_rand
//@include-spec sm2_key
//@section spec
// derived Clone of a plain-data struct returns an equal value (Verus has no spec for non-Copy derives)
#[verifier::external_body]
fn shim_clone_sk(sk: &Sm2PrivateKey) -> (r: Sm2PrivateKey) ensures r == *sk { sk.clone() }
#[verifier::external_body]
fn shim_ne32(a: &[u8; 32], b: &[u8; 32]) -> (r: bool) ensures r == !(a@ =~= b@) { a != b }
// ---------------- GB/T 32918.3: key agreement, w = 127 ----------------
pub open spec fn pow127() -> int { 0x8000_0000_0000_0000int * 0x1_0000_0000_0000_0000int }
pub open spec fn xbar(x: int) -> int { pow127() + x % pow127() }
// t = (d + x-bar * r) mod n for the own ephemeral point
pub open spec fn ex_t(d: int, r: int, r_own: Pt) -> int { (d + (r * xbar(pt_x(r_own))) % N()) % N() }
// shared point [t](P_peer + [x-bar_peer] R_peer)   (cofactor h = 1)
pub open spec fn ex_point(t: int, p_peer: Pt, r_peer: Pt) -> Pt { g_smul(t, g_add(p_peer, g_smul(xbar(pt_x(r_peer)), r_peer))) }
pub open spec fn ex_key(v: Pt, za: Seq<u8>, zb: Seq<u8>, klen: nat) -> Seq<u8> { s_kdf(xy_bytes(v) + za + zb, klen) }
pub open spec fn ex_inner(v: Pt, za: Seq<u8>, zb: Seq<u8>, ra: Pt, rb: Pt) -> Seq<u8> { sm3_spec(be_bytes(pt_x(v), 32) + za + zb + xy_bytes(ra) + xy_bytes(rb)) }
pub open spec fn ex_conf(tag: u8, v: Pt, inner: Seq<u8>) -> Seq<u8> { sm3_spec(seq![tag] + be_bytes(pt_y(v), 32) + inner) }
pub proof fn ex_lemma_lens(q: Pt)
    ensures be_bytes(pt_x(q), 32).len() == 32, be_bytes(pt_y(q), 32).len() == 32, xy_bytes(q).len() == 64
{ lemma_be_bytes_len(pt_x(q), 32); lemma_be_bytes_len(pt_y(q), 32); }
pub proof fn ex_lemma_smul_inf(k: int) ensures g_smul(k, Pt::Inf) == Pt::Inf decreases k
{ if k > 0 { ex_lemma_smul_inf(k - 1); } }
// limb-wise AND with 2^127 - 1 is reduction modulo 2^127
pub proof fn ex_lemma_and127(x: Seq<u64>, m: Seq<u64>, a: Seq<u64>)
    requires x.len() == 4, m.len() == 4, a.len() == 4, val4(m) == pow127() - 1,
        forall|k: int| 0 <= k < 4 ==> a[k] == x[k] & m[k],
    ensures val4(a) == val4(x) % pow127(), 0 <= val4(a) < pow127(),
{
    let mm = seq![0xffff_ffff_ffff_ffffu64, 0x7fff_ffff_ffff_ffffu64, 0u64, 0u64];
    assert(val4(mm) == pow127() - 1);
    lemma_val4_inj(m, mm);
    assert(m[0] == mm[0] && m[1] == mm[1] && m[2] == mm[2] && m[3] == mm[3]);
    let x0 = x[0]; let x1 = x[1]; let x2 = x[2]; let x3 = x[3];
    assert(x0 & 0xffff_ffff_ffff_ffffu64 == x0) by(bit_vector);
    assert(x1 & 0x7fff_ffff_ffff_ffffu64 == x1 % 0x8000_0000_0000_0000u64) by(bit_vector);
    assert(x2 & 0u64 == 0u64) by(bit_vector);
    assert(x3 & 0u64 == 0u64) by(bit_vector);
    assert(a[0] == x0 && a[1] == x1 % 0x8000_0000_0000_0000u64 && a[2] == 0 && a[3] == 0);
    let lo = (x1 % 0x8000_0000_0000_0000u64) as int;
    let q1 = (x1 / 0x8000_0000_0000_0000u64) as int;
    assert(x1 as int == 0x8000_0000_0000_0000int * q1 + lo && 0 <= lo < 0x8000_0000_0000_0000int);
    let q = q1 + 2 * (x2 as int + 0x1_0000_0000_0000_0000int * (x3 as int));
    assert(val4(a) == x0 as int + 0x1_0000_0000_0000_0000int * lo);
    assert(0 <= val4(a) < pow127());
    assert(val4(x) == pow127() * q + val4(a));
    lemma_fundamental_div_mod_converse(val4(x), pow127(), q, val4(a));
}
// quantified forms (single-term triggers): usable for the unnamed intermediate results of u256_sub / u256_bits_and / u256_add
pub proof fn ex_lemma_and127_q(x: Seq<u64>)
    requires x.len() == 4
    ensures
        forall|m: Seq<u64>| m.len() == 4 && #[trigger] val4(m) == pow127() - 1
            ==> m[0] == 0xffff_ffff_ffff_ffffu64 && m[1] == 0x7fff_ffff_ffff_ffffu64 && m[2] == 0u64 && m[3] == 0u64,
        forall|a: Seq<u64>| a.len() == 4 && a[0] == x[0] & 0xffff_ffff_ffff_ffffu64 && a[1] == x[1] & 0x7fff_ffff_ffff_ffffu64
            && a[2] == x[2] & 0u64 && a[3] == x[3] & 0u64
            ==> #[trigger] val4(a) == val4(x) % pow127() && 0 <= val4(a) < pow127(),
        forall|a: Seq<u64>| a.len() == 4 ==> 0 <= #[trigger] val4(a) < r256(),
{
    let mm = seq![0xffff_ffff_ffff_ffffu64, 0x7fff_ffff_ffff_ffffu64, 0u64, 0u64];
    assert(val4(mm) == pow127() - 1);
    assert forall|m: Seq<u64>| m.len() == 4 && #[trigger] val4(m) == pow127() - 1
        implies m[0] == 0xffff_ffff_ffff_ffffu64 && m[1] == 0x7fff_ffff_ffff_ffffu64 && m[2] == 0u64 && m[3] == 0u64 by {
        lemma_val4_inj(m, mm);
        assert(m[0] == mm[0] && m[1] == mm[1] && m[2] == mm[2] && m[3] == mm[3]);
    }
    assert forall|a: Seq<u64>| a.len() == 4 && a[0] == x[0] & 0xffff_ffff_ffff_ffffu64 && a[1] == x[1] & 0x7fff_ffff_ffff_ffffu64
            && a[2] == x[2] & 0u64 && a[3] == x[3] & 0u64
        implies #[trigger] val4(a) == val4(x) % pow127() && 0 <= val4(a) < pow127() by { ex_lemma_and127(x, mm, a); }
    assert forall|a: Seq<u64>| a.len() == 4 implies 0 <= #[trigger] val4(a) < r256() by { lemma_val4_bounds(a); }
}
spec fn ex_ok(e: Exchange) -> bool { sk_ok(e.sk) && pk_ok(e.rhs_pk) && 1 <= e.klen < 0x1_0000_0000 }
//@section code gm-sm2/src/u256.rs
type U256 = [u64; 4];
const SM2_ONE: U256 = [1, 0, 0, 0];
//@stub sm2_limbs u256_add
//@stub sm2_limbs u256_sub
//@stub sm2_limbs u256_bits_and
//@section spec local
proof fn ex_lemma_consts() ensures val4(SM2_ONE@) == 1
{
    assert(val4(SM2_ONE@) == 1) by(compute);
}
//@section code gm-sm2/src/error.rs
type Sm2Result<T> = Result<T, Sm2Error>;
#[derive(PartialEq)]
enum Sm2Error {
    NotOnCurve,
    FieldSqrtError,
    InvalidDer,
    InvalidPublic,
    InvalidPrivate,
    ZeroDivisor,
    ZeroPoint,
    InvalidPoint,
    CheckPointErr,
    ZeroData,
    HashNotEqual,
    IdTooLong,
    ZeroFiled,
    InvalidFieldLen,
    ZeroSig,
    InvalidDigestLen,
    InvalidDigest,
    InvalidSecretKey,
    KdfHashError,
}
//@stub sm2_fn fn_add
//@stub sm2_fn fn_mul
//@stub-trait sm2_fp FieldModOperation
//@stub sm2_fp fp_from_mont
//@stub sm3 sm3_hash
//@stub sm2_rand random_u256
//@section code gm-sm2/src/p256_ecc.rs
#[derive(Debug, Clone, Eq, PartialEq, Copy)]
struct Point {
    x: U256,
    y: U256,
    z: U256,
}
//@stub sm2_ecc Point::is_zero
//@stub sm2_ecc Point::is_valid
//@stub sm2_ecc Point::to_affine_point
//@stub sm2_ecc Point::point_add
//@stub sm2_ecc Point::scalar_mul
//@stub sm2_ecc g_mul
//@section code gm-sm2/src/util.rs
const DEFAULT_ID: &'static str = "1234567812345678";
//@stub sm2_util compute_za
//@stub sm2_util kdf
//@section code gm-sm2/src/key.rs
enum Sm2Model {
    C1C2C3,
    C1C3C2,
}
#[derive(Debug, Clone, Copy)]
struct Sm2PublicKey {
    point: Point,
}
#[derive(Debug, Clone)]
struct Sm2PrivateKey {
    d: U256,
    public_key: Sm2PublicKey,
}
//@stub sm2_key Sm2PublicKey::value
//@section code gm-sm2/src/exchange.rs
#[derive(Debug)]
struct Exchange {
    klen: usize,
    za: [u8; 32],
    sk: Sm2PrivateKey,
    v: Option<Point>,
    r: Option<U256>,
    r_point: Option<Point>,
    k: Option<Vec<u8>>,

    rhs_za: [u8; 32],
    rhs_pk: Sm2PublicKey,
}
impl Exchange {
    fn new(
        klen: usize,
        id: Option<&str>,
        pk: &Sm2PublicKey,
        sk: &Sm2PrivateKey,
        rhs_id: Option<&str>,
        rhs_pk: &Sm2PublicKey,
    ) -> (res: Sm2Result<Exchange>)
        requires pk_ok(*pk), sk_ok(*sk), pk_ok(*rhs_pk),
            str_bytes(id_or_default(id)).len() < 0x1000_0000_0000_0000, str_bytes(id_or_default(rhs_id)).len() < 0x1000_0000_0000_0000,
        ensures
            res is Ok <==> (8 * str_bytes(id_or_default(id)).len() <= 65535 && 8 * str_bytes(id_or_default(rhs_id)).len() <= 65535),
            res is Ok ==> ({ let e = res->Ok_0;
                e.klen == klen && e.sk == *sk && e.rhs_pk == *rhs_pk && e.v is None && e.r is None && e.r_point is None && e.k is None
                && e.za@ == s_za(str_bytes(id_or_default(id)), pt_x(abs(pk.point)), pt_y(abs(pk.point)))
                && e.rhs_za@ == s_za(str_bytes(id_or_default(rhs_id)), pt_x(abs(rhs_pk.point)), pt_y(abs(rhs_pk.point))) }),
    {
        let id = shim_id_or_default(id);
        let rhs_id = shim_id_or_default(rhs_id);
        Ok(Exchange {
            klen,
            za: compute_za(id, &pk.point)?,
            sk: shim_clone_sk(sk),
            v: None,
            r: None,
            r_point: None,
            k: None,
            rhs_za: compute_za(rhs_id, &rhs_pk.point)?,
            rhs_pk: rhs_pk.clone(),
        })
    }

    
    
    
    
    fn exchange_1(&mut self) -> (res: Sm2Result<Point>)
        ensures res is Ok, valid(res->Ok_0), final(self).r_point == Some(res->Ok_0),
            final(self).r is Some && csprng(final(self).r->Some_0@) && 1 <= val4(final(self).r->Some_0@) < N(),
            abs(res->Ok_0) == g_smul(val4(final(self).r->Some_0@), G()), abs(res->Ok_0) != Pt::Inf,
            final(self).klen == old(self).klen, final(self).za == old(self).za, final(self).sk == old(self).sk, final(self).v == old(self).v,
            final(self).k == old(self).k, final(self).rhs_za == old(self).rhs_za, final(self).rhs_pk == old(self).rhs_pk,
    {
        let r = random_u256();
        let r_point = g_mul(&r);
        proof { ax_g_order(val4(r@)); lemma_small_mod(val4(r@) as nat, N() as nat); }
        self.r = Some(r);
        self.r_point = Some(r_point);
        Ok(r_point)
    }

    
    
        fn exchange_2(&mut self, ra_point: &Point) -> (res: Sm2Result<(Point, [u8; 32])>)
        requires ex_ok(*old(self)), wf(*ra_point), val4(ra_point.z@) != 0
        ensures
            !on_curve(abs(*ra_point)) ==> res is Err,
            res is Ok ==> ({ let rb = res->Ok_0.0; let r2 = final(self).r->Some_0;
                final(self).r is Some && csprng(r2@) && 1 <= val4(r2@) < N() && final(self).r_point == Some(rb) && valid(rb) && abs(rb) == g_smul(val4(r2@), G())
                && final(self).v is Some && final(self).k is Some
                && ({ let v = ex_point(ex_t(val4(old(self).sk.d@), val4(r2@), abs(rb)), abs(old(self).rhs_pk.point), abs(*ra_point));
                      v != Pt::Inf && valid(final(self).v->Some_0) && abs(final(self).v->Some_0) == v
                      && final(self).k->Some_0@ == ex_key(v, old(self).rhs_za@, old(self).za@, old(self).klen as nat)
                      && res->Ok_0.1@ == ex_conf(2u8, v, ex_inner(v, old(self).rhs_za@, old(self).za@, abs(*ra_point), abs(rb))) }) }),
            final(self).klen == old(self).klen, final(self).za == old(self).za, final(self).sk == old(self).sk,
            final(self).rhs_za == old(self).rhs_za, final(self).rhs_pk == old(self).rhs_pk,
    {
        if !ra_point.is_valid() {
            return Err(Sm2Error::CheckPointErr);
        }
        proof { ex_lemma_consts(); lemma_params(); lemma_g_on_curve(); }
        let ghost gd = val4(self.sk.d@);
        let ghost gra = abs(*ra_point);
        let ghost gpk = abs(self.rhs_pk.point);
        
        let pow: [u64; 4] = [
            0x0000000000000000,
            0x8000000000000000,
            0x0000000000000000,
            0x0000000000000000,
        ];

        let r2 = random_u256();
        let r2_point = g_mul(&r2);
        let ghost gr = val4(r2@);
        let ghost grb = abs(r2_point);
        proof { ax_g_order(gr); lemma_small_mod(gr as nat, N() as nat); assert(val4(r2_point.z@) != 0); }
        self.r = Some(r2);
        self.r_point = Some(r2_point);
        let r2_point_affine = r2_point.to_affine_point();
        let x2 = fp_from_mont(&r2_point_affine.x);
        let y2 = fp_from_mont(&r2_point_affine.y);
        proof {
            assert(val4(x2@) == pt_x(grb) && val4(y2@) == pt_y(grb));
            assert(val4(pow@) == pow127());
            assert(2 * pow127() < N()) by(compute);
        }
        let x2_b = u256_add(&pow, &u256_bits_and(&x2, &u256_sub(&pow, &SM2_ONE).0)).0;
        proof {
            assert(val4(x2_b@) == xbar(pt_x(grb))) by { ex_lemma_and127_q(x2@); }
            lemma_mod_bound(gr * val4(x2_b@), N());
        }
        let t2 = fn_add(
            &self.sk.d,
            &fn_mul(
                &self.r.as_ref().unwrap(),
                &x2_b,
            ),
        );

        let ra_point_affine = ra_point.to_affine_point();
        let x1 = fp_from_mont(&ra_point_affine.x);
        let y1 = fp_from_mont(&ra_point_affine.y);
        proof {
            assert(val4(t2@) == ex_t(gd, gr, grb));
            lemma_mod_bound(gd + (gr * xbar(pt_x(grb))) % N(), N());
            assert(val4(x1@) == pt_x(gra) && val4(y1@) == pt_y(gra));
        }
        let x1_a = u256_add(&pow, &u256_bits_and(&x1, &u256_sub(&pow, &SM2_ONE).0)).0;
        proof { assert(val4(x1_a@) == xbar(pt_x(gra))) by { ex_lemma_and127_q(x1@); } }

        let p = self
            .rhs_pk
            .value()
            .point_add(&ra_point.scalar_mul(&x1_a));
        proof { assert(valid(p)); }
        let v_point = p.scalar_mul(&t2);
        let ghost gv = abs(v_point);
        proof {
            if val4(p.z@) == 0 { ex_lemma_smul_inf(val4(t2@)); assert(gv == Pt::Inf); }
            assert(gv != Pt::Inf ==> gv == ex_point(ex_t(gd, gr, grb), gpk, gra));
        }
        if v_point.is_zero() {
            return Err(Sm2Error::ZeroPoint);
        }
        self.v = Some(v_point);

        let v_affine_p = v_point.to_affine_point();
        let xv_bytes = fp_from_mont(&v_affine_p.x).to_byte_be();
        let yv_bytes = fp_from_mont(&v_affine_p.y).to_byte_be();

        let mut prepend = Vec::new();
        prepend.extend_from_slice(&xv_bytes);
        prepend.extend_from_slice(&yv_bytes);
        prepend.extend_from_slice(&self.rhs_za); 
        prepend.extend_from_slice(&self.za); 

        proof {
            ex_lemma_lens(gv); ex_lemma_lens(gra); ex_lemma_lens(grb);
            assert(prepend@ =~= xy_bytes(gv) + self.rhs_za@ + self.za@);
        }
        let k_b = kdf(&prepend, self.klen);
        self.k = Some(k_b);

        let mut temp: Vec<u8> = Vec::new();
        temp.extend_from_slice(&xv_bytes);
        temp.extend_from_slice(&self.rhs_za);
        temp.extend_from_slice(&self.za);
        temp.extend_from_slice(&x1.to_byte_be());
        temp.extend_from_slice(&y1.to_byte_be());
        temp.extend_from_slice(&x2.to_byte_be());
        temp.extend_from_slice(&y2.to_byte_be());
        proof {
            assert(temp@ =~= be_bytes(pt_x(gv), 32) + self.rhs_za@ + self.za@ + xy_bytes(gra) + xy_bytes(grb));
            lemma_sm3_len(temp@);
        }

        let mut prepend: Vec<u8> = Vec::new();
        prepend.push(0x02_u8);
        prepend.extend_from_slice(&yv_bytes);
        prepend.extend_from_slice(&sm3_hash(&temp));
        proof {
            assert(prepend@ =~= seq![2u8] + be_bytes(pt_y(gv), 32) + ex_inner(gv, self.rhs_za@, self.za@, gra, grb));
        }
        Ok((r2_point, sm3_hash(&prepend)))
    }

    
    
        fn exchange_3(&mut self, rb_point: &Point, sb: [u8; 32]) -> (res: Sm2Result<[u8; 32]>)
        requires ex_ok(*old(self)), wf(*rb_point), val4(rb_point.z@) != 0,
            old(self).r is Some, 1 <= val4(old(self).r->Some_0@) < N(), old(self).r_point is Some, valid(old(self).r_point->Some_0),
            abs(old(self).r_point->Some_0) == g_smul(val4(old(self).r->Some_0@), G()),
        ensures
            !on_curve(abs(*rb_point)) ==> res is Err,
            res is Ok ==> ({ let ra = abs(old(self).r_point->Some_0);
                let u = ex_point(ex_t(val4(old(self).sk.d@), val4(old(self).r->Some_0@), ra), abs(old(self).rhs_pk.point), abs(*rb_point));
                let inner = ex_inner(u, old(self).za@, old(self).rhs_za@, ra, abs(*rb_point));
                u != Pt::Inf && sb@ == ex_conf(2u8, u, inner) && res->Ok_0@ == ex_conf(3u8, u, inner)
                && final(self).k is Some && final(self).k->Some_0@ == ex_key(u, old(self).za@, old(self).rhs_za@, old(self).klen as nat) }),
    {
        if !rb_point.is_valid() {
            return Err(Sm2Error::CheckPointErr);
        }
        let ghost gd = val4(self.sk.d@);
        let ghost gr = val4(self.r->Some_0@);
        let ghost gra = abs(self.r_point->Some_0);
        let ghost grb = abs(*rb_point);
        let ghost gpk = abs(self.rhs_pk.point);
        proof {
            ex_lemma_consts(); lemma_params(); lemma_g_on_curve();
            ax_g_order(gr); lemma_small_mod(gr as nat, N() as nat); assert(val4(self.r_point->Some_0.z@) != 0);
        }
        
        let pow: [u64; 4] = [
            0x0000000000000000,
            0x8000000000000000,
            0x0000000000000000,
            0x0000000000000000,
        ];

        let ra_point_affine = self.r_point.unwrap().to_affine_point();
        let x1 = fp_from_mont(&ra_point_affine.x);
        let y1 = fp_from_mont(&ra_point_affine.y);
        proof {
            assert(val4(x1@) == pt_x(gra) && val4(y1@) == pt_y(gra));
            assert(val4(pow@) == pow127());
            assert(2 * pow127() < N()) by(compute);
        }
        let x1_a = u256_add(&pow, &u256_bits_and(&x1, &u256_sub(&pow, &SM2_ONE).0)).0;
        proof {
            assert(val4(x1_a@) == xbar(pt_x(gra))) by { ex_lemma_and127_q(x1@); }
            lemma_mod_bound(gr * val4(x1_a@), N());
        }
        let t_a = fn_add(
            &self.sk.d,
            &fn_mul(
                &self.r.as_ref().unwrap(),
                &x1_a,
            ),
        );

        let rb_point_affine = rb_point.to_affine_point();
        let x2 = fp_from_mont(&rb_point_affine.x);
        let y2 = fp_from_mont(&rb_point_affine.y);
        proof {
            assert(val4(t_a@) == ex_t(gd, gr, gra));
            lemma_mod_bound(gd + (gr * xbar(pt_x(gra))) % N(), N());
            assert(val4(x2@) == pt_x(grb) && val4(y2@) == pt_y(grb));
        }
        let x2_b = u256_add(&pow, &u256_bits_and(&x2, &u256_sub(&pow, &SM2_ONE).0)).0;
        proof { assert(val4(x2_b@) == xbar(pt_x(grb))) by { ex_lemma_and127_q(x2@); } }
        let p = self
            .rhs_pk
            .value()
            .point_add(&rb_point.scalar_mul(&x2_b));
        proof { assert(valid(p)); }
        let u_point = p.scalar_mul(&t_a);
        let ghost gu = abs(u_point);
        proof {
            if val4(p.z@) == 0 { ex_lemma_smul_inf(val4(t_a@)); assert(gu == Pt::Inf); }
            assert(gu != Pt::Inf ==> gu == ex_point(ex_t(gd, gr, gra), gpk, grb));
        }
        if u_point.is_zero() {
            return Err(Sm2Error::ZeroPoint);
        }

        let u_affine_p = u_point.to_affine_point();
        let xu_bytes = fp_from_mont(&u_affine_p.x).to_byte_be();
        let yu_bytes = fp_from_mont(&u_affine_p.y).to_byte_be();

        let mut prepend = Vec::new();
        prepend.extend_from_slice(&xu_bytes);
        prepend.extend_from_slice(&yu_bytes);
        prepend.extend_from_slice(&self.za);
        prepend.extend_from_slice(&self.rhs_za);

        proof {
            ex_lemma_lens(gu); ex_lemma_lens(gra); ex_lemma_lens(grb);
            assert(prepend@ =~= xy_bytes(gu) + self.za@ + self.rhs_za@);
        }
        let k_a = kdf(&prepend, self.klen);
        self.k = Some(k_a);

        let mut temp: Vec<u8> = Vec::new();
        temp.extend_from_slice(&xu_bytes);
        temp.extend_from_slice(&self.za);
        temp.extend_from_slice(&self.rhs_za);
        temp.extend_from_slice(&x1.to_byte_be());
        temp.extend_from_slice(&y1.to_byte_be());
        temp.extend_from_slice(&x2.to_byte_be());
        temp.extend_from_slice(&y2.to_byte_be());
        proof {
            assert(temp@ =~= be_bytes(pt_x(gu), 32) + self.za@ + self.rhs_za@ + xy_bytes(gra) + xy_bytes(grb));
            lemma_sm3_len(temp@);
        }
        let temp_hash = sm3_hash(&temp);

        let mut prepend: Vec<u8> = Vec::new();
        prepend.push(0x02_u8);
        prepend.extend_from_slice(&yu_bytes);
        prepend.extend_from_slice(&temp_hash);
        proof {
            assert(prepend@ =~= seq![2u8] + be_bytes(pt_y(gu), 32) + ex_inner(gu, self.za@, self.rhs_za@, gra, grb));
        }

        let s1 = sm3_hash(&prepend);
        if shim_ne32(&s1, &sb) {
            return Err(Sm2Error::HashNotEqual);
        }

        let mut prepend: Vec<u8> = Vec::new();
        prepend.push(0x03_u8);
        prepend.extend_from_slice(&yu_bytes);
        prepend.extend_from_slice(&temp_hash);
        proof {
            assert(prepend@ =~= seq![3u8] + be_bytes(pt_y(gu), 32) + ex_inner(gu, self.za@, self.rhs_za@, gra, grb));
        }
        Ok(sm3_hash(&prepend))
    }

    
    fn exchange_4(&self, sa: [u8; 32], ra_point: &Point) -> (res: Sm2Result<bool>)
        requires wf(*ra_point), val4(ra_point.z@) != 0, self.r_point is Some, valid(self.r_point->Some_0), abs(self.r_point->Some_0) != Pt::Inf,
            self.v is Some, valid(self.v->Some_0), abs(self.v->Some_0) != Pt::Inf,
        ensures res is Ok,
            res->Ok_0 == (sa@ == ex_conf(3u8, abs(self.v->Some_0), ex_inner(abs(self.v->Some_0), self.rhs_za@, self.za@, abs(*ra_point), abs(self.r_point->Some_0)))),
    {
        let ra_point_affine = ra_point.to_affine_point();
        let x1 = fp_from_mont(&ra_point_affine.x);
        let y1 = fp_from_mont(&ra_point_affine.y);

        let r2_point_affine = self.r_point.unwrap().to_affine_point();
        let x2 = fp_from_mont(&r2_point_affine.x);
        let y2 = fp_from_mont(&r2_point_affine.y);

        let v_point_affine = self.v.unwrap().to_affine_point();
        let xv = fp_from_mont(&v_point_affine.x);
        let yv = fp_from_mont(&v_point_affine.y);

        let mut temp: Vec<u8> = Vec::new();
        temp.extend_from_slice(&xv.to_byte_be());
        temp.extend_from_slice(&self.rhs_za);
        temp.extend_from_slice(&self.za);
        temp.extend_from_slice(&x1.to_byte_be());
        temp.extend_from_slice(&y1.to_byte_be());
        temp.extend_from_slice(&x2.to_byte_be());
        temp.extend_from_slice(&y2.to_byte_be());
        let ghost gv = abs(self.v->Some_0);
        let ghost gra = abs(*ra_point);
        let ghost grb = abs(self.r_point->Some_0);
        proof {
            ex_lemma_lens(gv); ex_lemma_lens(gra); ex_lemma_lens(grb);
            assert(temp@ =~= be_bytes(pt_x(gv), 32) + self.rhs_za@ + self.za@ + xy_bytes(gra) + xy_bytes(grb));
            lemma_sm3_len(temp@);
        }

        let mut prepend: Vec<u8> = Vec::new();
        prepend.push(0x03_u8);
        prepend.extend_from_slice(&yv.to_byte_be());
        prepend.extend_from_slice(&sm3_hash(&temp));
        proof {
            assert(prepend@ =~= seq![3u8] + be_bytes(pt_y(gv), 32) + ex_inner(gv, self.rhs_za@, self.za@, gra, grb));
        }
        let s_2 = sm3_hash(&prepend);
        Ok(!shim_ne32(&s_2, &sa))
    }
}
