// ---- assumed specifications of std functions, available to every unit (each is an assumption listed in the evidence) ----
pub open spec fn rotl32(x: u32, n: u32) -> u32 { if n % 32 == 0 { x } else { (x << (n % 32)) | (x >> ((32 - (n % 32)) as u32)) } }
pub open spec fn rotr32(x: u32, n: u32) -> u32 { if n % 32 == 0 { x } else { (x >> (n % 32)) | (x << ((32 - (n % 32)) as u32)) } }
pub open spec fn rotl64(x: u64, n: u32) -> u64 { if n % 64 == 0 { x } else { (x << ((n % 64) as u64)) | (x >> ((64 - (n % 64)) as u64)) } }
pub open spec fn rotr64(x: u64, n: u32) -> u64 { if n % 64 == 0 { x } else { (x >> ((n % 64) as u64)) | (x << ((64 - (n % 64)) as u64)) } }
pub assume_specification[ u32::rotate_left ](x: u32, n: u32) -> (r: u32) ensures r == rotl32(x, n);
pub assume_specification[ u32::rotate_right ](x: u32, n: u32) -> (r: u32) ensures r == rotr32(x, n);
pub assume_specification[ u64::rotate_left ](x: u64, n: u32) -> (r: u64) ensures r == rotl64(x, n);
pub assume_specification[ u64::rotate_right ](x: u64, n: u32) -> (r: u64) ensures r == rotr64(x, n);
pub assume_specification<T: Clone>[ <[T]>::to_vec ](s: &[T]) -> (r: Vec<T>) ensures r@ == s@;
pub assume_specification<T: Clone>[ <[T]>::clone_from_slice ](a: &mut [T], b: &[T]) requires old(a)@.len() == b@.len() ensures final(a)@ == b@;
pub assume_specification[ u8::overflowing_add ](x: u8, y: u8) -> (r: (u8, bool)) ensures r.0 as int + (if r.1 { 256int } else { 0 }) == x as int + y as int;
pub assume_specification[ u8::overflowing_sub ](x: u8, y: u8) -> (r: (u8, bool)) ensures r.0 as int - (if r.1 { 256int } else { 0 }) == x as int - y as int;
pub assume_specification[ u32::overflowing_add ](x: u32, y: u32) -> (r: (u32, bool)) ensures r.0 as int + (if r.1 { 0x1_0000_0000int } else { 0 }) == x as int + y as int;
pub assume_specification[ u32::overflowing_sub ](x: u32, y: u32) -> (r: (u32, bool)) ensures r.0 as int - (if r.1 { 0x1_0000_0000int } else { 0 }) == x as int - y as int;
pub assume_specification[ u64::overflowing_add ](x: u64, y: u64) -> (r: (u64, bool)) ensures r.0 as int + (if r.1 { 0x1_0000_0000_0000_0000int } else { 0 }) == x as int + y as int;
pub assume_specification[ u64::overflowing_sub ](x: u64, y: u64) -> (r: (u64, bool)) ensures r.0 as int - (if r.1 { 0x1_0000_0000_0000_0000int } else { 0 }) == x as int - y as int;
pub assume_specification<T>[ core::mem::replace::<T> ](dest: &mut T, src: T) -> (r: T) ensures *final(dest) == src, r == *old(dest);
